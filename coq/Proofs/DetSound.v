(* C13, part 2: soundness.  Whatever det_rec accepts is a prefix of the input
   that is a DetItem of exactly the returned length.                        *)
From Coq Require Import Lia ZifyN ZifyNat ZifyBool Sorting.Sorted.
From WP Require Import Base.Prelude Model.Cbor Model.Det Spec.Det
  Proofs.DetLemmas Proofs.DetBasics.
Open Scope N_scope.
Ltac Zify.zify_post_hook ::= Z.div_mod_to_equations.

Definition kvs (pairs : list (bytes * bytes)) : bytes := List.concat (map entry_bytes pairs).
Definition PairOK (kv : bytes * bytes) : Prop := DetItem (fst kv) /\ DetItem (snd kv).

Lemma kvs_nil : kvs [] = [].
Proof. reflexivity. Qed.
Lemma kvs_cons k v t : kvs ((k, v) :: t) = (k ++ v) ++ kvs t.
Proof. reflexivity. Qed.

(* "last < k1 < k2 < ..." : the loop invariant form of KeysAscending *)
Fixpoint asc_from (last : bytes) (ks : list bytes) : Prop :=
  match ks with
  | [] => True
  | k :: t => bytes_cmp last k = Lt /\ asc_from k t
  end.

Lemma asc_from_sorted ks : forall last, asc_from last ks -> KeysAscending ks.
Proof.
  induction ks as [|k t IH]; intros last H; [constructor|].
  destruct H as [H1 H2]. constructor.
  - eapply IH. exact H2.
  - destruct t as [|k2 t]; constructor. destruct H2 as [H2 _]. exact H2.
Qed.

Lemma sorted_asc_from t : forall k, KeysAscending (k :: t) -> asc_from k t.
Proof.
  induction t as [|k2 t IH]; intros k H; [exact I|].
  inversion H as [|a l HS HR]; subst. inversion HR as [|b l' HL]; subst.
  split; [exact HL|]. apply IH. exact HS.
Qed.

Definition sound_rec (f : nat) : Prop :=
  forall input l, wfb input -> det_rec f input = Ok l ->
    exists item rest, input = item ++ rest /\ DetItem item /\ lenN item = l.

Definition sound_arr (f : nat) : Prop :=
  forall cnt pre suf l, wfb suf ->
    arr_loop f cnt (lenN pre) (pre ++ suf) = Ok l ->
    exists items rest,
      suf = List.concat items ++ rest /\ Forall DetItem items /\
      lenN items = cnt /\ l = lenN pre + lenN (List.concat items).

Definition sound_map_even (f : nat) : Prop :=
  forall idx total pre suf last l, wfb suf ->
    N.even idx = true -> N.even total = true ->
    map_loop f idx total (lenN pre) last (pre ++ suf) = Ok l ->
    exists pairs rest,
      suf = kvs pairs ++ rest /\ Forall PairOK pairs /\
      asc_from last (map fst pairs) /\
      2 * lenN pairs = total - idx /\ l = lenN pre + lenN (kvs pairs).

Definition sound_map_odd (f : nat) : Prop :=
  forall idx total pre suf last l, wfb suf ->
    N.even idx = false -> N.even total = true -> idx <= total ->
    map_loop f idx total (lenN pre) last (pre ++ suf) = Ok l ->
    exists v pairs rest,
      suf = v ++ kvs pairs ++ rest /\ DetItem v /\ Forall PairOK pairs /\
      asc_from last (map fst pairs) /\
      1 + 2 * lenN pairs = total - idx /\ l = lenN pre + lenN v + lenN (kvs pairs).

Lemma sound_rec_step f : sound_arr f -> sound_map_even f -> sound_rec (S f).
Proof.
  intros IHa IHe input l W H.
  destruct input as [|b r]; [discriminate|].
  pose proof W as W0. apply wfb_cons in W0. destruct W0 as [Hb Wr].
  destruct (N.eq_dec (major b) TPos) as [E0|E0].
  { rewrite (det_rec_pos _ _ _ E0) in H.
    apply bind_ok in H. destruct H as [[w v] [U H]]. inversion H; subst l.
    apply (uint_det_sound _ _ _ W) in U. destruct U as [b' [fb [rest [Ei [Lf Hd]]]]].
    cbn [app] in Ei. injection Ei as Eb Er. subst b' r.
    replace (b / 32) with 0 in Hd by (unfold major, TPos in E0; lia).
    exists (b :: fb), rest. split; [reflexivity|]. split; [exact (DI_uint v _ Hd)|].
    rewrite lenN_cons. lia. }
  destruct (N.eq_dec (major b) TBytes) as [E2|E2].
  { rewrite (det_rec_str _ _ _ (or_introl E2)) in H.
    apply bind_ok in H. destruct H as [l0 [U H]]. inversion H; subst l.
    apply str_det_ok in U. destruct U as [ul [sl [U [El B]]]]. subst l0.
    apply (uint_det_sound _ _ _ W) in U. destruct U as [b' [fb [rest0 [Ei [Lf Hd]]]]].
    cbn [app] in Ei. injection Ei as Eb Er. subst b' r.
    rewrite lenN_cons, lenN_app in B.
    destruct (take_exists rest0 sl) as [s [rest [Es Ls]]]; [lia|]. subst rest0.
    apply wfb_app in Wr. destruct Wr as [_ Wr]. apply wfb_app in Wr. destruct Wr as [Ws _].
    replace (b / 32) with 2 in Hd by (unfold major, TBytes in E2; lia).
    rewrite <- Ls in Hd.
    exists ((b :: fb) ++ s), rest. split; [rewrite <- app_assoc; reflexivity|].
    split; [exact (DI_bytes s _ Hd Ws)|].
    rewrite lenN_app, lenN_cons. lia. }
  destruct (N.eq_dec (major b) TText) as [E3|E3].
  { rewrite (det_rec_str _ _ _ (or_intror E3)) in H.
    apply bind_ok in H. destruct H as [l0 [U H]]. inversion H; subst l.
    apply str_det_ok in U. destruct U as [ul [sl [U [El B]]]]. subst l0.
    apply (uint_det_sound _ _ _ W) in U. destruct U as [b' [fb [rest0 [Ei [Lf Hd]]]]].
    cbn [app] in Ei. injection Ei as Eb Er. subst b' r.
    rewrite lenN_cons, lenN_app in B.
    destruct (take_exists rest0 sl) as [s [rest [Es Ls]]]; [lia|]. subst rest0.
    apply wfb_app in Wr. destruct Wr as [_ Wr]. apply wfb_app in Wr. destruct Wr as [Ws _].
    replace (b / 32) with 3 in Hd by (unfold major, TText in E3; lia).
    rewrite <- Ls in Hd.
    exists ((b :: fb) ++ s), rest. split; [rewrite <- app_assoc; reflexivity|].
    split; [exact (DI_text s _ Hd Ws)|].
    rewrite lenN_app, lenN_cons. lia. }
  destruct (N.eq_dec (major b) TArray) as [E4|E4].
  { rewrite (det_rec_arr _ _ _ E4) in H.
    apply bind_ok in H. destruct H as [[ln num] [U H]].
    destruct (lenN (b :: r) <? num); [discriminate|].
    apply (uint_det_sound _ _ _ W) in U. destruct U as [b' [fb [rest0 [Ei [Lf Hd]]]]].
    cbn [app] in Ei. injection Ei as Eb Er. subst b' r.
    apply wfb_app in Wr. destruct Wr as [_ Wr].
    replace (1 + ln) with (lenN (b :: fb)) in H by (rewrite lenN_cons; lia).
    change (b :: fb ++ rest0) with ((b :: fb) ++ rest0) in H.
    apply IHa in H; [|exact Wr].
    destruct H as [items [rest [Es [Hall [Lc El]]]]]. subst rest0 l.
    replace (b / 32) with 4 in Hd by (unfold major, TArray in E4; lia).
    rewrite <- Lc in Hd.
    exists ((b :: fb) ++ List.concat items), rest.
    split; [rewrite <- app_assoc; reflexivity|].
    split; [exact (DI_array items _ Hd Hall)|].
    rewrite lenN_app. reflexivity. }
  destruct (N.eq_dec (major b) TMap) as [E5|E5].
  { rewrite (det_rec_map _ _ _ E5) in H.
    apply bind_ok in H. destruct H as [[ln num] [U H]].
    destruct (lenN (b :: r) <? num); [discriminate|].
    apply (uint_det_sound _ _ _ W) in U. destruct U as [b' [fb [rest0 [Ei [Lf Hd]]]]].
    cbn [app] in Ei. injection Ei as Eb Er. subst b' r.
    apply wfb_app in Wr. destruct Wr as [_ Wr].
    replace (1 + ln) with (lenN (b :: fb)) in H by (rewrite lenN_cons; lia).
    change (b :: fb ++ rest0) with ((b :: fb) ++ rest0) in H.
    apply IHe in H; [|exact Wr|reflexivity|apply even_true_mod2; lia].
    destruct H as [pairs [rest [Es [Hall [Hasc [Lc El]]]]]]. subst rest0 l.
    replace (b / 32) with 5 in Hd by (unfold major, TMap in E5; lia).
    replace num with (lenN pairs) in Hd by lia.
    exists ((b :: fb) ++ kvs pairs), rest.
    split; [rewrite <- app_assoc; reflexivity|].
    split; [exact (DI_map pairs _ Hd Hall (asc_from_sorted _ _ Hasc))|].
    rewrite lenN_app. reflexivity. }
  rewrite det_rec_other in H by assumption. discriminate.
Qed.

Lemma sound_arr_step f : sound_rec f -> sound_arr f -> sound_arr (S f).
Proof.
  intros IHr IHa cnt pre suf l W H. rewrite arr_loop_S in H.
  destruct (N.eqb_spec cnt 0) as [C|C].
  { inversion H; subst. exists [], suf. split; [reflexivity|]. split; [constructor|].
    split; [reflexivity|]. cbn [List.concat lenN]. lia. }
  destruct (lenN (pre ++ suf) <=? lenN pre); [discriminate|].
  rewrite drop_from_app in H. cbn [bind] in H.
  apply bind_ok in H. destruct H as [l1 [Rr H]].
  apply (IHr _ _ W) in Rr. destruct Rr as [item [rest1 [Es [Di Li]]]]. subst suf l1.
  apply wfb_app in W. destruct W as [_ W1].
  rewrite app_assoc, <- lenN_app in H.
  apply IHa in H; [|exact W1].
  destruct H as [items [rest [Es [Hall [Lc El]]]]]. subst rest1 l.
  exists (item :: items), rest.
  split; [rewrite concat_cons, <- app_assoc; reflexivity|].
  split; [constructor; assumption|].
  split; [rewrite lenN_cons; lia|].
  rewrite concat_cons, !lenN_app. lia.
Qed.

Lemma sound_map_even_step f : sound_rec f -> sound_map_odd f -> sound_map_even (S f).
Proof.
  intros IHr IHo idx total pre suf last l W Ei Et H. rewrite map_loop_S in H.
  destruct (N.leb_spec total idx) as [C|C].
  { inversion H; subst. exists [], suf. split; [reflexivity|]. split; [constructor|].
    split; [exact I|]. rewrite kvs_nil. cbn [lenN]. lia. }
  destruct (lenN (pre ++ suf) <=? lenN pre); [discriminate|].
  rewrite drop_from_app in H. cbn [bind] in H.
  apply bind_ok in H. destruct H as [l1 [Rr H]].
  apply (IHr _ _ W) in Rr. destruct Rr as [key [rest1 [Es [Dk Lk]]]]. subst suf l1.
  rewrite Ei in H. rewrite splitN_app in H.
  destruct (bytes_cmp last key) eqn:Cmp; try discriminate.
  apply wfb_app in W. destruct W as [_ W1].
  rewrite app_assoc, <- lenN_app in H.
  apply even_true_mod2 in Ei. pose proof Et as Et'. apply even_true_mod2 in Et'.
  apply IHo in H; [|exact W1|apply even_false_mod2; lia|exact Et|lia].
  destruct H as [v [pairs [rest [Es [Dv [Hall [Hasc [Lc El]]]]]]]]. subst rest1 l.
  exists ((key, v) :: pairs), rest.
  split; [rewrite kvs_cons, <- !app_assoc; reflexivity|].
  split; [constructor; [split; assumption|assumption]|].
  split; [cbn [map fst asc_from]; split; assumption|].
  split; [rewrite lenN_cons; lia|].
  rewrite kvs_cons, !lenN_app. lia.
Qed.

Lemma sound_map_odd_step f : sound_rec f -> sound_map_even f -> sound_map_odd (S f).
Proof.
  intros IHr IHe idx total pre suf last l W Ei Et Hle H. rewrite map_loop_S in H.
  pose proof Ei as Ei'. apply even_false_mod2 in Ei'.
  pose proof Et as Et'. apply even_true_mod2 in Et'.
  destruct (N.leb_spec total idx) as [C|C]; [lia|].
  destruct (lenN (pre ++ suf) <=? lenN pre); [discriminate|].
  rewrite drop_from_app in H. cbn [bind] in H.
  apply bind_ok in H. destruct H as [l1 [Rr H]].
  apply (IHr _ _ W) in Rr. destruct Rr as [v [rest1 [Es [Dv Lv]]]]. subst suf l1.
  rewrite Ei in H.
  apply wfb_app in W. destruct W as [_ W1].
  rewrite app_assoc, <- lenN_app in H.
  apply IHe in H; [|exact W1|apply even_true_mod2; lia|exact Et].
  destruct H as [pairs [rest [Es [Hall [Hasc [Lc El]]]]]]. subst rest1 l.
  exists v, pairs, rest.
  split; [reflexivity|]. split; [exact Dv|]. split; [exact Hall|]. split; [exact Hasc|].
  split; [lia|]. rewrite lenN_app. lia.
Qed.

Lemma sound_all f : sound_rec f /\ sound_arr f /\ sound_map_even f /\ sound_map_odd f.
Proof.
  induction f as [|f [IHr [IHa [IHe IHo]]]].
  - repeat split; intro; intros; discriminate.
  - split; [apply sound_rec_step; assumption|].
    split; [apply sound_arr_step; assumption|].
    split; [apply sound_map_even_step; assumption|].
    apply sound_map_odd_step; assumption.
Qed.

Lemma det_rec_sound f input l :
  wfb input -> det_rec f input = Ok l ->
  exists item rest, input = item ++ rest /\ DetItem item /\ lenN item = l.
Proof. apply (proj1 (sound_all f)). Qed.

(* top-level loop *)
Lemma det_top_sound f : forall pre suf,
  wfb suf -> det_top f (lenN pre) (pre ++ suf) = Ok tt ->
  exists items, Forall DetItem items /\ suf = List.concat items.
Proof.
  induction f as [|f IH]; intros pre suf W H; [discriminate|].
  rewrite det_top_S in H.
  destruct (N.leb_spec (lenN (pre ++ suf)) (lenN pre)) as [C|C].
  { rewrite lenN_app in C. assert (E : lenN suf = 0) by lia. apply lenN_zero_nil in E. subst suf.
    exists []. split; [constructor|reflexivity]. }
  rewrite drop_from_app in H. cbn [bind] in H.
  apply bind_ok in H. destruct H as [l1 [Rr H]].
  apply (det_rec_sound _ _ _ W) in Rr. destruct Rr as [item [rest1 [Es [Di Li]]]]. subst suf l1.
  apply wfb_app in W. destruct W as [_ W1].
  rewrite app_assoc, <- lenN_app in H.
  apply IH in H; [|exact W1]. destruct H as [items [Hall Ec]]. subst rest1.
  exists (item :: items). split; [constructor; assumption|]. rewrite concat_cons. reflexivity.
Qed.

Theorem det_check_sound bs : wfb bs -> det_check bs = Accept -> DetSeq bs.
Proof.
  intros W H. unfold det_check in H.
  destruct (det_top (det_fuel bs) 0 bs) as [u| | |] eqn:T; try discriminate.
  destruct u. apply (det_top_sound _ [] bs W T).
Qed.
