(* Proofs/CountingWriterRF.v - the copy loop of CountingWriter.ReadFrom
   (Model/CountingWriterRF.v) for EVERY list of source chunks, every budget,
   every destination behaviour and every way the source can end. *)
From Coq Require Import Lia ZifyN ZifyNat ZifyBool List NArith.
From WP Require Import Base.Prelude Proofs.BaseLemmas Model.Bundle Model.CountingWriterRF
                       Proofs.WriterFault.
From WP Require Proofs.CountingWriter.
Import ListNotations.
Open Scope N_scope.

(* ---- pieces --------------------------------------------------------------- *)
Lemma pieces_fuel_nil (f : nat) : pieces_fuel f [] = [].
Proof. destruct f; reflexivity. Qed.

Lemma pieces_fuel_concat : forall (f : nat) (c : bytes), List.concat (pieces_fuel f c) = c.
Proof.
  induction f as [|f IH]; intros c; destruct c as [|x c]; cbn [pieces_fuel].
  - reflexivity.
  - cbn [List.concat]. apply app_nil_r.
  - reflexivity.
  - destruct (splitN (x :: c) rf_buf) as [[a b]|] eqn:S.
    + apply splitN_spec in S. destruct S as [E _]. cbn [List.concat]. rewrite IH.
      symmetry. exact E.
    + cbn [List.concat]. apply app_nil_r.
Qed.

Definition piece_ok (p : bytes) : Prop := p <> [] /\ lenN p <= rf_buf.

Lemma pieces_fuel_ok : forall (f : nat) (c : bytes),
  lenN c <= (N.of_nat f + 1) * rf_buf -> Forall piece_ok (pieces_fuel f c).
Proof.
  unfold piece_ok, rf_buf.
  induction f as [|f IH]; intros c H; destruct c as [|x c]; cbn [pieces_fuel].
  - constructor.
  - constructor; [|constructor]. split; [discriminate|lia].
  - constructor.
  - destruct (splitN (x :: c) rf_buf) as [[a b]|] eqn:S; unfold rf_buf in S.
    + apply splitN_spec in S. destruct S as [E L].
      assert (HL : lenN (x :: c) = lenN a + lenN b) by (rewrite E; apply lenN_app).
      constructor.
      * split; [|lia]. intros Ha. subst a. cbn [lenN] in L. lia.
      * apply IH. lia.
    + apply splitN_none_iff in S. constructor; [|constructor].
      split; [discriminate|lia].
Qed.

Lemma pieces_concat (c : bytes) : List.concat (pieces c) = c.
Proof. apply pieces_fuel_concat. Qed.

Lemma pieces_ok (c : bytes) : Forall (fun p => p <> [] /\ lenN p <= 32768) (pieces c).
Proof.
  apply (pieces_fuel_ok (S (N.to_nat (lenN c / rf_buf))) c).
  assert (H : lenN c < rf_buf * N.succ (lenN c / rf_buf))
    by (apply N.mul_succ_div_gt; unfold rf_buf; lia).
  revert H. generalize (lenN c / rf_buf) as q. intros q H. unfold rf_buf in *. lia.
Qed.

Lemma pieces_nil : pieces [] = [].
Proof. reflexivity. Qed.

(* a chunk that fits the buffer arrives whole *)
Lemma pieces_small (c : bytes) : c <> [] -> lenN c <= 32768 -> pieces c = [c].
Proof.
  intros Hne Hle. unfold pieces.
  set (f := N.to_nat (lenN c / rf_buf)). destruct c as [|x c]; [contradiction|].
  cbn [pieces_fuel].
  destruct (splitN (x :: c) rf_buf) as [[a b]|] eqn:S; [|reflexivity].
  apply splitN_spec in S. destruct S as [E L].
  assert (HL : lenN (x :: c) = lenN a + lenN b) by (rewrite E; apply lenN_app).
  assert (Hb : b = []) by (apply lenN_nil_inv; unfold rf_buf in L; lia).
  subst b. rewrite pieces_fuel_nil. rewrite app_nil_r in E. subst a. reflexivity.
Qed.

Lemma concat_flat_map_pieces (chunks : list bytes) :
  List.concat (flat_map pieces chunks) = List.concat chunks.
Proof.
  induction chunks as [|c cs IH]; [reflexivity|].
  cbn [flat_map List.concat]. rewrite concat_app, pieces_concat, IH. reflexivity.
Qed.

Lemma flat_map_pieces_ok (chunks : list bytes) :
  Forall (fun p => p <> [] /\ lenN p <= 32768) (flat_map pieces chunks).
Proof.
  induction chunks as [|c cs IH]; [constructor|].
  cbn [flat_map]. apply Forall_app. split; [apply pieces_ok|exact IH].
Qed.

Lemma flat_map_pieces_nonempty (chunks : list bytes) :
  Forall (fun p => p <> []) (flat_map pieces chunks).
Proof.
  eapply Forall_impl; [|apply flat_map_pieces_ok]. intros p [Hp _]. exact Hp.
Qed.

(* ---- the loop as a sequence of writes -------------------------------------- *)
(* proof-side helper: the Write calls of the loop, stopping at the first one
   that does not say WOk *)
Fixpoint writes3 (silent : bool) (ps : list bytes) (d : dest) (n : N) : dest * N * wres :=
  match ps with
  | [] => (d, n, WOk)
  | p :: t =>
      let '(d1, nw, w) := dwrite3 silent d p in
      match w with
      | WOk => writes3 silent t d1 (n + nw)
      | _ => (d1, n + nw, w)
      end
  end.

Definition w_ok (w : wres) : bool := match w with WOk => true | _ => false end.
Definition w_err (w : wres) : rf_err :=
  match w with WOk => RfNil | WErr => RfWrite | WShort => RfShortWrite end.
Definition end_err (e : src_end) : rf_err := match e with SrcErr => RfSource | _ => RfNil end.
(* what a destination that runs out of budget says *)
Definition fail_kind (silent : bool) (m : fmode) : wres :=
  match silent, m with true, ShortThenErr => WShort | _, _ => WErr end.

Lemma rf_loop_cons (silent : bool) (p : bytes) (er : rerr) (t : list read_ev) (d : dest) (n : N) :
  p <> [] ->
  rf_loop silent ((p, er) :: t) d n =
  let '(d1, nw, w) := dwrite3 silent d p in
  match w with
  | WOk => match er with
           | RNil => rf_loop silent t d1 (n + nw)
           | REOF => (d1, n + nw, RfNil)
           | RFail => (d1, n + nw, RfSource)
           end
  | _ => (d1, n + nw, w_err w)
  end.
Proof.
  intros Hp. destruct p as [|x p]; [contradiction|].
  cbn [rf_loop]. destruct (dwrite3 silent d (x :: p)) as [[d1 nw] w].
  destruct w; reflexivity.
Qed.

Lemma reads_data_eof_cons2 (p q : bytes) (t : list bytes) :
  reads_data_eof (p :: q :: t) = (p, RNil) :: reads_data_eof (q :: t).
Proof. reflexivity. Qed.

Lemma rf_loop_reads_of (silent : bool) (e : src_end) : forall (ps : list bytes) (d : dest) (n : N),
  Forall (fun p => p <> []) ps ->
  rf_loop silent (reads_of ps e) d n =
  let '(d', n', w) := writes3 silent ps d n in
  (d', n', match w with WOk => end_err e | _ => w_err w end).
Proof.
  destruct e; unfold reads_of.
  - (* SrcEOF *)
    induction ps as [|p t IH]; intros d n HF; [reflexivity|].
    inversion HF as [|p' t' Hp Ht]; subst p' t'.
    cbn [map app writes3]. rewrite rf_loop_cons by exact Hp.
    destruct (dwrite3 silent d p) as [[d1 nw] w]. destruct w; [|reflexivity|reflexivity].
    apply IH. exact Ht.
  - (* SrcErr *)
    induction ps as [|p t IH]; intros d n HF; [reflexivity|].
    inversion HF as [|p' t' Hp Ht]; subst p' t'.
    cbn [map app writes3]. rewrite rf_loop_cons by exact Hp.
    destruct (dwrite3 silent d p) as [[d1 nw] w]. destruct w; [|reflexivity|reflexivity].
    apply IH. exact Ht.
  - (* SrcDataEOF *)
    induction ps as [|p t IH]; intros d n HF; [reflexivity|].
    inversion HF as [|p' t' Hp Ht]; subst p' t'.
    destruct t as [|q t].
    + cbn [reads_data_eof writes3]. rewrite rf_loop_cons by exact Hp.
      destruct (dwrite3 silent d p) as [[d1 nw] w]. destruct w; reflexivity.
    + rewrite reads_data_eof_cons2. rewrite rf_loop_cons by exact Hp.
      cbn [writes3]. destruct (dwrite3 silent d p) as [[d1 nw] w].
      destruct w; [|reflexivity|reflexivity].
      rewrite (IH d1 (n + nw) Ht). reflexivity.
Qed.

(* the writes of the loop are [run_writes], whatever the destination's way of failing *)
Lemma writes3_run_writes (silent : bool) : forall (ps : list bytes) (d : dest) (n : N),
  run_writes ps d n = let '(d', n', w) := writes3 silent ps d n in (d', n', w_ok w).
Proof.
  induction ps as [|p t IH]; intros d n; [reflexivity|].
  cbn [run_writes writes3]. unfold dwrite3.
  destruct (dwrite d p) as [[d1 nw] ok]. destruct ok.
  - apply IH.
  - destruct silent; destruct (d_mode d); reflexivity.
Qed.

Lemma dwrite_mode (d : dest) (c : bytes) (d' : dest) (nw : N) (ok : bool) :
  dwrite d c = (d', nw, ok) -> d_mode d' = d_mode d.
Proof.
  unfold dwrite. intros H.
  destruct (d_budget d) as [k|].
  - destruct (lenN c <=? k).
    + inversion H; reflexivity.
    + destruct (d_mode d) eqn:M.
      * inversion H; subst. exact M.
      * destruct (splitN c k) as [[a b]|]; inversion H; subst; [reflexivity|exact M].
  - inversion H; reflexivity.
Qed.

Lemma writes3_kind (silent : bool) : forall (ps : list bytes) (d : dest) (n : N) d' n' w,
  writes3 silent ps d n = (d', n', w) -> w = WOk \/ w = fail_kind silent (d_mode d).
Proof.
  induction ps as [|p t IH]; intros d n d' n' w H.
  - cbn [writes3] in H. inversion H. left. reflexivity.
  - cbn [writes3] in H. unfold dwrite3 in H.
    destruct (dwrite d p) as [[d1 nw] ok] eqn:E. destruct ok.
    + apply IH in H. rewrite (dwrite_mode _ _ _ _ _ E) in H. exact H.
    + right. unfold fail_kind. destruct silent; destruct (d_mode d); inversion H; reflexivity.
Qed.

(* ---- ReadFrom and run_writes ------------------------------------------------ *)
(* (destination, n, err == nil) is what the sequence of Write calls gives, with
   success only if the source ended with EOF; the harness glue (Run/RunBundle.v,
   op_cw_readfrom) computes exactly the right-hand side.  Holds for BOTH values of
   [silent]: a short count without an error is a failure like any other. *)
Lemma read_from_is_run_writes_gen (silent : bool) (chunks : list bytes) (e : src_end) (d : dest) :
  read_from silent chunks e d =
  (let '(d', n, ok) := run_writes (flat_map pieces chunks) d 0 in (d', n, ok && src_end_eof e)).
Proof.
  unfold read_from, read_from_err.
  rewrite rf_loop_reads_of by apply flat_map_pieces_nonempty.
  rewrite (writes3_run_writes silent).
  destruct (writes3 silent (flat_map pieces chunks) d 0) as [[d' n'] w].
  destruct w; destruct e; reflexivity.
Qed.

Lemma read_from_is_run_writes (chunks : list bytes) (e : src_end) (d : dest) :
  read_from false chunks e d =
  (let '(d', n, ok) := run_writes (flat_map pieces chunks) d 0 in (d', n, ok && src_end_eof e)).
Proof. apply read_from_is_run_writes_gen. Qed.

(* [silent] changes which error is returned, never the destination, the count or
   whether there is an error *)
Lemma read_from_silent_irrelevant (chunks : list bytes) (e : src_end) (d : dest) :
  read_from true chunks e d = read_from false chunks e d.
Proof. rewrite !read_from_is_run_writes_gen. reflexivity. Qed.

(* ---- the contract ------------------------------------------------------------ *)
Lemma read_from_fault (silent : bool) (chunks : list bytes) (e : src_end) (k : N) (m : fmode)
      (d : dest) (n : N) (ok : bool) :
  read_from silent chunks e (dest0 k m) = (d, n, ok) ->
  let out := List.concat chunks in
  (exists rest, out = d_acc d ++ rest)          (* accepted is a prefix of the source's bytes *)
  /\ lenN (d_acc d) <= k                         (* never more than the destination took *)
  /\ n = lenN (d_acc d)                          (* n (and Written) = bytes accepted *)
  /\ (k < lenN out -> ok = false)                (* a destination that runs out is an error *)
  /\ (lenN out <= k -> (ok = true <-> e <> SrcErr) /\ d_acc d = out).
Proof.
  intros H out. rewrite read_from_is_run_writes_gen in H.
  destruct (run_writes (flat_map pieces chunks) (dest0 k m) 0) as [[d1 n1] ok1] eqn:R.
  inversion H; subst d n ok. clear H.
  apply run_writes_fault in R. cbn zeta in R. rewrite concat_flat_map_pieces in R.
  destruct R as [Hpre [Hk [Hn [Hf Hs]]]].
  split; [exact Hpre|]. split; [exact Hk|]. split; [exact Hn|].
  split.
  - intros Hx. rewrite (Hf Hx). reflexivity.
  - intros Hx. destruct (Hs Hx) as [Hok Hacc]. split; [|exact Hacc].
    rewrite Hok. destruct e; cbn [src_end_eof andb]; split; intros Hy;
      try reflexivity; try discriminate; try congruence.
Qed.

(* which error: the destination's way of failing when it runs out, the source's
   ending when it does not *)
Lemma read_from_err_kind (silent : bool) (chunks : list bytes) (e : src_end) (k : N) (m : fmode)
      (d : dest) (n : N) (r : rf_err) :
  read_from_err silent chunks e (dest0 k m) = (d, n, r) ->
  let out := List.concat chunks in
  (k < lenN out ->
     r = match silent, m with true, ShortThenErr => RfShortWrite | _, _ => RfWrite end)
  /\ (lenN out <= k -> r = match e with SrcErr => RfSource | _ => RfNil end).
Proof.
  intros H out. unfold read_from_err in H.
  rewrite rf_loop_reads_of in H by apply flat_map_pieces_nonempty.
  destruct (writes3 silent (flat_map pieces chunks) (dest0 k m) 0) as [[d1 n1] w] eqn:W.
  assert (R := writes3_run_writes silent (flat_map pieces chunks) (dest0 k m) 0).
  rewrite W in R. apply run_writes_fault in R. cbn zeta in R.
  rewrite concat_flat_map_pieces in R. destruct R as [_ [_ [_ [Hf Hs]]]].
  apply writes3_kind in W. cbn [dest0 d_mode] in W.
  inversion H; subst d n r. clear H. split; intros Hx.
  - specialize (Hf Hx). destruct W as [W|W]; subst w; [discriminate|].
    destruct silent; destruct m; reflexivity.
  - destruct (Hs Hx) as [Hok _]. destruct w; [|discriminate|discriminate]. reflexivity.
Qed.

(* exactly which bytes, from any starting destination: with a short write the
   first k bytes of the source; with an error-only destination the 32 KiB pieces
   that fit whole *)
Lemma read_from_exact (silent : bool) (chunks : list bytes) (e : src_end) (d d' : dest)
      (n : N) (ok : bool) (k : N) :
  read_from silent chunks e d = (d', n, ok) -> d_budget d = Some k ->
  let out := List.concat chunks in
  (k < lenN out -> ok = false /\ n <= k /\
     match d_mode d with
     | ErrOnly => d_acc d' = d_acc d ++ CountingWriter.fit_prefix (flat_map pieces chunks) k
     | ShortThenErr => d_acc d' = d_acc d ++ CountingWriter.takeN k out /\ n = k
     end)
  /\ (lenN out <= k ->
      ok = src_end_eof e /\ d_acc d' = d_acc d ++ out /\ n = lenN out).
Proof.
  intros H HB out. rewrite read_from_is_run_writes_gen in H.
  destruct (run_writes (flat_map pieces chunks) d 0) as [[d1 n1] ok1] eqn:R.
  inversion H; subst d' n ok. clear H.
  apply (CountingWriter.run_writes_fault _ _ _ _ _ k) in R; [|exact HB].
  rewrite concat_flat_map_pieces in R. destruct R as [Hf Hs]. split; intros Hx.
  - destruct (Hf Hx) as [Hok [Hn Hacc]]. rewrite Hok. split; [reflexivity|]. split; [exact Hn|].
    exact Hacc.
  - destruct (Hs Hx) as [Hok [Hacc Hn]]. rewrite Hok. split; [reflexivity|]. split; assumption.
Qed.

(* an unlimited destination receives everything *)
Lemma read_from_nofault (silent : bool) (chunks : list bytes) (e : src_end) (a : bytes) (m : fmode) :
  read_from silent chunks e {| d_acc := a; d_budget := None; d_mode := m |} =
  ({| d_acc := a ++ List.concat chunks; d_budget := None; d_mode := m |},
   lenN (List.concat chunks), src_end_eof e).
Proof.
  rewrite read_from_is_run_writes_gen, run_writes_nofault, concat_flat_map_pieces.
  rewrite N.add_0_l. reflexivity.
Qed.

(* chunks that fit the buffer: one Write per non-empty chunk, as for Write *)
Lemma flat_map_pieces_small (chunks : list bytes) :
  Forall (fun c => lenN c <= 32768) chunks ->
  flat_map pieces chunks = filter (fun c => match c with [] => false | _ => true end) chunks.
Proof.
  induction chunks as [|c cs IH]; intros HF; [reflexivity|].
  inversion HF as [|c' cs' Hc Hcs]; subst c' cs'.
  cbn [flat_map filter]. rewrite (IH Hcs). destruct c as [|x c]; [reflexivity|].
  rewrite pieces_small by (try discriminate; exact Hc). reflexivity.
Qed.
