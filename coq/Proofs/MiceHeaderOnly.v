(* C15: NewDecoder decides from the digest header and the 8-byte record-size field alone: whatever
   follows the field does not influence whether the stream is refused, nor the decoder's initial state
   (except that it is what remains to be read).  This is the model's side of "a stream whose record
   size is refused is refused before any record data is read"; that the Go code indeed takes only
   8 bytes from its source is observed by the mi_new_consumed cases. *)
From Coq Require Import Lia.
From WP Require Import Base.Prelude Proofs.BaseLemmas Model.Mice Proofs.TotalityBase Proofs.TotalityMice.
Open Scope N_scope.

Lemma new_decoder_header_only (H : bytes -> bytes) (d : draft) (h x y dg : bytes) (m : N) :
  lenN h = 8 ->
  match new_decoder H d (h ++ x) dg m, new_decoder H d (h ++ y) dg m with
  | Ok a, Ok b => d_enc a = d_enc b /\ d_rs a = d_rs b /\ d_next a = d_next b /\ d_out a = d_out b
                  /\ d_r a = x /\ d_r b = y
  | Err, Err => True
  | _, _ => False
  end.
Proof.
  intros Hl. unfold new_decoder.
  destruct (parse_digest_header_total d dg) as [NP NF].
  destruct (parse_digest_header d dg) as [top| | |]; cbn; try exact I; try (exfalso; congruence).
  rewrite <- Hl, !splitN_app. cbn.
  destruct ((unbe h =? 0) || (m <? unbe h)); cbn; [exact I|].
  repeat split; reflexivity.
Qed.

(* in particular: refusal depends on the header only *)
Lemma new_decoder_refusal_header_only (H : bytes -> bytes) (d : draft) (h x y dg : bytes) (m : N) :
  lenN h = 8 -> (new_decoder H d (h ++ x) dg m = Err <-> new_decoder H d (h ++ y) dg m = Err).
Proof.
  intros Hl. pose proof (new_decoder_header_only H d h x y dg m Hl) as P.
  destruct (new_decoder H d (h ++ x) dg m), (new_decoder H d (h ++ y) dg m); try contradiction;
    split; intros E; try reflexivity; try discriminate.
Qed.
