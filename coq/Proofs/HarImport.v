(* Proofs/HarImport.v - C20: gen-bundle's HAR import (Model/Har.v, fromhar.go).

   1. which entries of a capture become exchanges (from_har): a declarative
      "entry i is kept" with the rule the loop implements, the result of the
      loop, exactly when it fails, totality;
   2. nvpToHeader: what the filtered header map contains;
   3. composition with Bundle.WriteTo / bundle.Read: whatever gen-bundle emits
      from a capture is readable and contains the kept exchanges (normalised). *)
From Coq Require Import Lia ZifyN ZifyNat ZifyBool Permutation Sorted.
From WP Require Import Base.Prelude Base.Base64 Model.Cbor Model.Http Model.UrlRef Model.Sxg
  Model.Bundle Model.Har.
From WP Require Import Proofs.BaseLemmas Proofs.BundleWriteCases Proofs.BundleRoundtripResp
  Proofs.BundleRoundtrip Proofs.BundleRoundtripNorm.
Open Scope N_scope.

(* ====================== 2. nvpToHeader ======================================== *)
(* an input pair survives the filter *)
Definition nv_kept (banned : bytes -> bool) (nv : bytes * bytes) : bool :=
  negb (pseudo_name (fst nv) || banned (fst nv)).

Definition nvp_step (banned : bytes -> bool) (h : headers) (nv : bytes * bytes) : headers :=
  if nv_kept banned nv then hdr_add h (fst nv) (snd nv) else h.

Lemma nvp_to_header_fold (banned : bytes -> bool) (l : list (bytes * bytes)) :
  nvp_to_header banned l = fold_left (nvp_step banned) l [].
Proof.
  unfold nvp_to_header. generalize (@nil (bytes * list bytes)) as h0.
  induction l as [|nv t IH]; intros h0; [reflexivity|]. cbn [fold_left].
  rewrite IH. f_equal. destruct nv as [n v]. unfold nvp_step, nv_kept. cbn [fst snd]. rewrite match58.
  destruct (pseudo_name n); [reflexivity|]. cbn [orb].
  destruct (banned n); reflexivity.
Qed.

Lemma lookup_add_same (h : headers) (k v : bytes) :
  hdr_lookup (hdr_add_raw h k v) k = hdr_lookup h k ++ [v].
Proof.
  induction h as [|[k' vs] t IH]; cbn [hdr_add_raw hdr_lookup].
  - rewrite bytes_eqb_refl. reflexivity.
  - destruct (bytes_eqb k' k) eqn:E; cbn [hdr_lookup]; rewrite E; [reflexivity|exact IH].
Qed.

Lemma lookup_add_other (h : headers) (k v k2 : bytes) :
  k <> k2 -> hdr_lookup (hdr_add_raw h k v) k2 = hdr_lookup h k2.
Proof.
  intros Hne. induction h as [|[k' vs] t IH]; cbn [hdr_add_raw hdr_lookup].
  - destruct (bytes_eqb k k2) eqn:E; [apply bytes_eqb_eq in E; contradiction|reflexivity].
  - destruct (bytes_eqb k' k) eqn:E; cbn [hdr_lookup].
    + apply bytes_eqb_eq in E. subst k'.
      destruct (bytes_eqb k k2) eqn:E2; [apply bytes_eqb_eq in E2; contradiction|reflexivity].
    + destruct (bytes_eqb k' k2); [reflexivity|exact IH].
Qed.

Lemma keys_add_raw (h : headers) (k v k2 : bytes) :
  In k2 (map fst (hdr_add_raw h k v)) <-> In k2 (map fst h) \/ k2 = k.
Proof.
  induction h as [|[k' vs] t IH]; cbn [hdr_add_raw map fst In].
  - split; [intros [E|[]]; right; symmetry; exact E|intros [[]|E]; left; symmetry; exact E].
  - destruct (bytes_eqb k' k) eqn:E; cbn [map fst In].
    + apply bytes_eqb_eq in E. subst k'. split; [intros H; left; exact H|].
      intros [H|E]; [exact H|left; symmetry; exact E].
    + rewrite IH. tauto.
Qed.

Lemma nodup_add_raw (h : headers) (k v : bytes) :
  NoDup (map fst h) -> NoDup (map fst (hdr_add_raw h k v)).
Proof.
  induction h as [|[k' vs] t IH]; intros ND; cbn [hdr_add_raw map fst] in *.
  - constructor; [intros []|constructor].
  - apply NoDup_cons_iff in ND. destruct ND as [Nk ND].
    destruct (bytes_eqb k' k) eqn:E; cbn [map fst].
    + constructor; assumption.
    + constructor; [|apply IH; exact ND]. rewrite keys_add_raw. intros [H|H]; [exact (Nk H)|].
      apply bytes_eqb_neq in E. exact (E H).
Qed.

Lemma values_nonempty_add_raw (h : headers) (k v : bytes) :
  Forall (fun kv => snd kv <> []) h -> Forall (fun kv => snd kv <> []) (hdr_add_raw h k v).
Proof.
  induction h as [|[k' vs] t IH]; intros F; cbn [hdr_add_raw].
  - constructor; [discriminate|constructor].
  - inversion F as [|kv0 t0 Fk Ft]; subst. destruct (bytes_eqb k' k).
    + constructor; [|exact Ft]. cbn [snd]. intros E. apply app_eq_nil in E. destruct E as [_ E]. discriminate.
    + constructor; [exact Fk|apply IH; exact Ft].
Qed.

(* the values selected for the (canonical) key k, in input order *)
Definition nv_sel (banned : bytes -> bool) (k : bytes) (nv : bytes * bytes) : bool :=
  nv_kept banned nv && bytes_eqb (canonical_key (fst nv)) k.

Lemma nvp_fold_lookup (banned : bytes -> bool) (l : list (bytes * bytes)) : forall h0 k,
  hdr_lookup (fold_left (nvp_step banned) l h0) k
  = hdr_lookup h0 k ++ map snd (filter (nv_sel banned k) l).
Proof.
  induction l as [|nv t IH]; intros h0 k; cbn [fold_left filter map]; [rewrite app_nil_r; reflexivity|].
  rewrite IH.
  assert (S : nv_sel banned k nv = nv_kept banned nv && bytes_eqb (canonical_key (fst nv)) k) by reflexivity.
  rewrite S. unfold nvp_step. destruct (nv_kept banned nv); cbn [andb]; [|reflexivity].
  unfold hdr_add. destruct (bytes_eqb (canonical_key (fst nv)) k) eqn:E.
  - apply bytes_eqb_eq in E. rewrite <- E. rewrite lookup_add_same. cbn [map]. rewrite <- app_assoc. reflexivity.
  - apply bytes_eqb_neq in E. rewrite lookup_add_other by exact E. reflexivity.
Qed.

Lemma nvp_fold_keys (banned : bytes -> bool) (l : list (bytes * bytes)) : forall h0 k,
  In k (map fst (fold_left (nvp_step banned) l h0))
  <-> In k (map fst h0) \/ exists nv, In nv l /\ nv_kept banned nv = true /\ canonical_key (fst nv) = k.
Proof.
  induction l as [|nv t IH]; intros h0 k; cbn [fold_left].
  - split; [intros H; left; exact H|intros [H|[nv [[] _]]]; exact H].
  - rewrite IH. unfold nvp_step at 1. destruct (nv_kept banned nv) eqn:K.
    + unfold hdr_add. rewrite keys_add_raw. split.
      * intros [[H|H]|[nv' [I [K' C]]]]; [left; exact H| |].
        -- right. exists nv. split; [left; reflexivity|]. split; [exact K|symmetry; exact H].
        -- right. exists nv'. split; [right; exact I|]. split; assumption.
      * intros [H|[nv' [[E|I] [K' C]]]]; [left; left; exact H| |].
        -- subst nv'. left. right. symmetry. exact C.
        -- right. exists nv'. repeat split; assumption.
    + split.
      * intros [H|[nv' [I [K' C]]]]; [left; exact H|]. right. exists nv'. split; [right; exact I|]. split; assumption.
      * intros [H|[nv' [[E|I] [K' C]]]]; [left; exact H| |].
        -- subst nv'. rewrite K in K'. discriminate.
        -- right. exists nv'. repeat split; assumption.
Qed.

Lemma nvp_fold_nodup (banned : bytes -> bool) (l : list (bytes * bytes)) : forall h0,
  NoDup (map fst h0) -> NoDup (map fst (fold_left (nvp_step banned) l h0)).
Proof.
  induction l as [|nv t IH]; intros h0 ND; cbn [fold_left]; [exact ND|]. apply IH.
  unfold nvp_step. destruct (nv_kept banned nv); [|exact ND]. apply nodup_add_raw. exact ND.
Qed.

Lemma nvp_fold_nonempty (banned : bytes -> bool) (l : list (bytes * bytes)) : forall h0,
  Forall (fun kv => snd kv <> []) h0 -> Forall (fun kv => snd kv <> []) (fold_left (nvp_step banned) l h0).
Proof.
  induction l as [|nv t IH]; intros h0 F; cbn [fold_left]; [exact F|]. apply IH.
  unfold nvp_step. destruct (nv_kept banned nv); [|exact F]. apply values_nonempty_add_raw. exact F.
Qed.

(* --- statements ---------------------------------------------------------------- *)
(* map lookup: exactly the values of the surviving pairs with that canonical key, in order *)
Theorem nvp_to_header_lookup (banned : bytes -> bool) (l : list (bytes * bytes)) (k : bytes) :
  hdr_lookup (nvp_to_header banned l) k = map snd (filter (nv_sel banned k) l).
Proof. rewrite nvp_to_header_fold, nvp_fold_lookup. reflexivity. Qed.

(* Header.Values(n) *)
Theorem nvp_to_header_values (banned : bytes -> bool) (l : list (bytes * bytes)) (n : bytes) :
  hdr_values (nvp_to_header banned l) n = map snd (filter (nv_sel banned (canonical_key n)) l).
Proof. unfold hdr_values. apply nvp_to_header_lookup. Qed.

(* the key set *)
Theorem nvp_to_header_keys (banned : bytes -> bool) (l : list (bytes * bytes)) (k : bytes) :
  In k (map fst (nvp_to_header banned l))
  <-> exists nv, In nv l /\ pseudo_name (fst nv) = false /\ banned (fst nv) = false /\ canonical_key (fst nv) = k.
Proof.
  rewrite nvp_to_header_fold, nvp_fold_keys. cbn [map In]. split.
  - intros [[]|[nv [I [K C]]]]. exists nv. unfold nv_kept in K. apply negb_true_iff, orb_false_iff in K.
    destruct K as [K1 K2]. repeat split; assumption.
  - intros [nv [I [K1 [K2 C]]]]. right. exists nv. split; [exact I|]. split; [|exact C].
    unfold nv_kept. rewrite K1, K2. reflexivity.
Qed.

(* a Go map: every key once, every key with at least one value *)
Theorem nvp_to_header_wf (banned : bytes -> bool) (l : list (bytes * bytes)) :
  NoDup (map fst (nvp_to_header banned l)) /\ Forall (fun kv => snd kv <> []) (nvp_to_header banned l).
Proof.
  rewrite nvp_to_header_fold. split; [apply nvp_fold_nodup; constructor|apply nvp_fold_nonempty; constructor].
Qed.

Lemma canonical_key_pseudo (s : bytes) : pseudo_name (canonical_key s) = pseudo_name s.
Proof.
  unfold canonical_key. destruct (forallb is_tchar s) eqn:T; [|reflexivity].
  destruct s as [|c r]; [reflexivity|]. cbn [canon_go pseudo_name andb negb] in *.
  cbn [forallb] in T. apply andb_true_iff in T. destruct T as [Tc _].
  unfold is_tchar, is_digit_b, is_lower_b, is_upper_b in *. cbn [existsb] in Tc.
  repeat match goal with |- context [if ?b then _ else _] => destruct b eqn:? end; lia.
Qed.

Lemma uncached_canonical (s : bytes) : is_uncached_header (canonical_key s) = is_uncached_header s.
Proof. unfold is_uncached_header. rewrite lower_canonical_key. reflexivity. Qed.

(* response headers: no pseudo header, no banned (uncached) header survives; every
   other pair does, under its canonical key, values in input order *)
Theorem nvp_to_header_no_pseudo_no_banned (l : list (bytes * bytes)) :
  let h := nvp_to_header is_uncached_header l in
  (forall k vs, In (k, vs) h -> pseudo_name k = false /\ is_uncached_header k = false)
  /\ (forall n v, In (n, v) l -> pseudo_name n = false -> is_uncached_header n = false ->
        In (canonical_key n) (map fst h) /\ In v (hdr_values h n))
  /\ (forall n, pseudo_name n = false -> is_uncached_header n = false ->
        hdr_values h n
        = map snd (filter (fun nv => bytes_eqb (canonical_key (fst nv)) (canonical_key n)
                                     && negb (pseudo_name (fst nv)) && negb (is_uncached_header (fst nv))) l))
  /\ (forall n, pseudo_name n = true \/ is_uncached_header n = true -> hdr_values h n = []).
Proof.
  cbv zeta. split; [|split; [|split]].
  - intros k vs I. assert (Ik : In k (map fst (nvp_to_header is_uncached_header l))).
    { apply in_map_iff. exists (k, vs). split; [reflexivity|exact I]. }
    apply nvp_to_header_keys in Ik. destruct Ik as [nv [_ [P [B C]]]]. subst k.
    rewrite canonical_key_pseudo, uncached_canonical. split; assumption.
  - intros n v I P B. split.
    + apply nvp_to_header_keys. exists (n, v). cbn [fst]. repeat split; assumption.
    + rewrite nvp_to_header_values. apply in_map_iff. exists (n, v). split; [reflexivity|].
      apply filter_In. split; [exact I|]. unfold nv_sel, nv_kept. cbn [fst]. rewrite P, B, bytes_eqb_refl. reflexivity.
  - intros n P B. rewrite nvp_to_header_values. f_equal. apply filter_ext. intros nv.
    unfold nv_sel, nv_kept. destruct (pseudo_name (fst nv)), (is_uncached_header (fst nv)),
      (bytes_eqb (canonical_key (fst nv)) (canonical_key n)); reflexivity.
  - intros n PB. rewrite nvp_to_header_values.
    assert (E : filter (nv_sel is_uncached_header (canonical_key n)) l = []); [|rewrite E; reflexivity].
    apply filter_none. apply Forall_forall. intros nv _. unfold nv_sel, nv_kept.
    destruct (bytes_eqb (canonical_key (fst nv)) (canonical_key n)) eqn:E; [|apply andb_false_r].
    apply bytes_eqb_eq in E. rewrite andb_true_r. apply negb_false_iff.
    rewrite <- (canonical_key_pseudo (fst nv)), <- (uncached_canonical (fst nv)), E,
      canonical_key_pseudo, uncached_canonical.
    destruct PB as [X|X]; rewrite X; [reflexivity|apply orb_true_r].
Qed.

(* ====================== 1. the loop ============================================ *)
Definition har_resh (e : hentry) : headers := nvp_to_header is_uncached_header (h_resh e).
(* _, thisHasVariants := resh["Variants"] *)
Definition har_has_variants (e : hentry) : bool :=
  existsb (fun nv => bytes_eqb (fst nv) (s2b "Variants")) (har_resh e).
Definition har_body_ok (e : hentry) : Prop :=
  h_b64 e = true -> b64_decode true false (h_text e) <> None.
Definition har_body_bad (e : hentry) : Prop :=
  h_b64 e = true /\ b64_decode true false (h_text e) = None.
Definition har_body (e : hentry) : bytes :=
  if h_b64 e then match b64_decode true false (h_text e) with Some b => b | None => [] end else h_text e.
Definition har_exchange (e : hentry) : bexchange :=
  {| bx_url := h_url e; bx_status := h_status e; bx_hdr := har_resh e; bx_body := har_body e |}.

Definition har_eligible (e : hentry) : Prop :=
  h_method e = s2b "GET" /\ (100 <= h_status e <= 999)%Z.
Definition har_eligibleb (e : hentry) : bool :=
  bytes_eqb (h_method e) (s2b "GET") && negb ((h_status e <? 100) || (999 <? h_status e))%Z.

Lemma har_eligibleb_iff (e : hentry) : har_eligibleb e = true <-> har_eligible e.
Proof.
  unfold har_eligibleb, har_eligible. rewrite andb_true_iff, bytes_eqb_eq, negb_true_iff, orb_false_iff,
    Z.ltb_ge, Z.ltb_ge. tauto.
Qed.

Theorem har_has_variants_iff (e : hentry) :
  har_has_variants e = true
  <-> exists nv, In nv (h_resh e) /\ pseudo_name (fst nv) = false /\ is_uncached_header (fst nv) = false
                 /\ canonical_key (fst nv) = s2b "Variants".
Proof.
  unfold har_has_variants, har_resh. rewrite <- nvp_to_header_keys. rewrite existsb_exists. split.
  - intros [kv [I E]]. apply bytes_eqb_eq in E. apply in_map_iff. exists kv. split; assumption.
  - intros I. apply in_map_iff in I. destruct I as [kv [E I]]. exists kv. split; [exact I|].
    apply bytes_eqb_eq. exact E.
Qed.

(* [rpre]: the entries before e, latest first.  The rule of the loop: e is kept iff
   it is eligible and, looking back for the latest KEPT entry e' with e's URL,
   either there is none, or both e and e' have a Variants header. *)
Fixpoint keptb (rpre : list hentry) (e : hentry) : bool :=
  match rpre with
  | [] => har_eligibleb e
  | e' :: r =>
      if bytes_eqb (h_url e') (h_url e) && keptb r e'
      then har_eligibleb e && har_has_variants e && har_has_variants e'
      else keptb r e
  end.

Definition har_keptb (es : list hentry) (i : nat) : bool :=
  match nth_error es i with Some e => keptb (rev (firstn i es)) e | None => false end.
(* entry number i of the capture becomes an exchange *)
Definition har_kept (es : list hentry) (i : nat) : Prop := har_keptb es i = true.

(* the kept entries of es, in order, given the reversed prefix *)
Fixpoint kept_from (rpre : list hentry) (es : list hentry) : list hentry :=
  match es with
  | [] => []
  | e :: t => (if keptb rpre e then [e] else []) ++ kept_from (e :: rpre) t
  end.
Definition har_kept_entries (es : list hentry) : list hentry := kept_from [] es.

(* the hasVariants map after the entries of rpre *)
Fixpoint seen_of (rpre : list hentry) : list (bytes * bool) :=
  match rpre with
  | [] => []
  | e' :: r => if keptb r e' then (h_url e', har_has_variants e') :: seen_of r else seen_of r
  end.

Lemma keptb_seen (rpre : list hentry) (e : hentry) :
  keptb rpre e = har_eligibleb e && match seen_lookup (seen_of rpre) (h_url e) with
                                    | None => true
                                    | Some o => har_has_variants e && o
                                    end.
Proof.
  induction rpre as [|e' r IH]; cbn [keptb seen_of seen_lookup]; [rewrite andb_true_r; reflexivity|].
  destruct (keptb r e') eqn:K; cbn [seen_lookup].
  - destruct (bytes_eqb (h_url e') (h_url e)); cbn [andb]; [rewrite andb_assoc; reflexivity|exact IH].
  - rewrite andb_false_r. exact IH.
Qed.

Lemma content_to_body_ok (e : hentry) : har_body_ok e -> content_to_body e = Ok (har_body e).
Proof.
  unfold har_body_ok, content_to_body, har_body. destruct (h_b64 e); [|reflexivity]. intros H.
  destruct (b64_decode true false (h_text e)); [reflexivity|]. exfalso. apply H; reflexivity.
Qed.

Lemma content_to_body_cases (e : hentry) :
  (har_body_bad e /\ content_to_body e = Err) \/ (har_body_ok e /\ content_to_body e = Ok (har_body e)).
Proof.
  unfold har_body_bad, har_body_ok, content_to_body, har_body. destruct (h_b64 e); [|right; split; [discriminate|reflexivity]].
  destruct (b64_decode true false (h_text e)); [right; split; [discriminate|reflexivity]|left; repeat split].
Qed.

Lemma body_ok_not_bad (e : hentry) : har_body_ok e <-> ~ har_body_bad e.
Proof.
  unfold har_body_ok, har_body_bad. split.
  - intros H [B N]. exact (H B N).
  - intros H B N. apply H. split; assumption.
Qed.

Lemma from_har_cons (e : hentry) (t : list hentry) (seen : list (bytes * bool)) (acc : list bexchange) :
  from_har (e :: t) seen acc =
  let* body := content_to_body e in
  if negb (har_eligibleb e) then from_har t seen acc
  else match seen_lookup seen (h_url e) with
       | Some others =>
           if negb (har_has_variants e && others) then from_har t seen acc
           else from_har t ((h_url e, har_has_variants e) :: seen)
                  ({| bx_url := h_url e; bx_status := h_status e; bx_hdr := har_resh e; bx_body := body |} :: acc)
       | None => from_har t ((h_url e, har_has_variants e) :: seen)
                  ({| bx_url := h_url e; bx_status := h_status e; bx_hdr := har_resh e; bx_body := body |} :: acc)
       end.
Proof.
  cbn [from_har]. fold (har_resh e). fold (har_has_variants e). unfold har_eligibleb.
  destruct (content_to_body e) as [body| | |]; cbn [bind]; try reflexivity.
  destruct (bytes_eqb (h_method e) (s2b "GET")); cbn [negb andb]; [|reflexivity].
  destruct ((h_status e <? 100)%Z || (999 <? h_status e)%Z); cbn [negb]; [reflexivity|].
  destruct (seen_lookup seen (h_url e)) as [o|]; [|reflexivity].
  rewrite negb_andb. reflexivity.
Qed.

Lemma from_har_gen (es : list hentry) : forall rpre acc,
  (forall e, In e es -> har_body_ok e) ->
  from_har es (seen_of rpre) acc = Ok (rev acc ++ map har_exchange (kept_from rpre es)).
Proof.
  induction es as [|e t IH]; intros rpre acc B.
  - cbn [from_har kept_from map]. rewrite app_nil_r. reflexivity.
  - rewrite from_har_cons. rewrite (content_to_body_ok e) by (apply B; left; reflexivity). cbn [bind].
    assert (B' : forall e0, In e0 t -> har_body_ok e0) by (intros e0 I; apply B; right; exact I).
    pose proof (IH (e :: rpre)) as IH'. cbn [kept_from seen_of] in *. rewrite keptb_seen in *.
    destruct (har_eligibleb e); cbn [negb andb] in *.
    + destruct (seen_lookup (seen_of rpre) (h_url e)) as [o|].
      * destruct (har_has_variants e && o); cbn [negb].
        -- rewrite IH' by exact B'. cbn [rev app map]. rewrite <- app_assoc. reflexivity.
        -- rewrite IH' by exact B'. reflexivity.
      * rewrite IH' by exact B'. cbn [rev app map]. rewrite <- app_assoc. reflexivity.
    + rewrite IH' by exact B'. reflexivity.
Qed.

Lemma from_har_err_gen (es : list hentry) : forall seen acc,
  (from_har es seen acc = Err <-> exists e, In e es /\ har_body_bad e)
  /\ (from_har es seen acc = Err \/ exists xs, from_har es seen acc = Ok xs).
Proof.
  induction es as [|e t IH]; intros seen acc.
  - cbn [from_har]. split; [|right; eexists; reflexivity]. split; [discriminate|intros [e [[] _]]].
  - rewrite from_har_cons.
    destruct (content_to_body_cases e) as [[Bad E]|[Good E]]; rewrite E; cbn [bind].
    + split; [|left; reflexivity]. split; [|reflexivity]. intros _. exists e. split; [left; reflexivity|exact Bad].
    + assert (T : forall seen' acc',
                 (from_har t seen' acc' = Err <-> exists e0, In e0 (e :: t) /\ har_body_bad e0)
                 /\ (from_har t seen' acc' = Err \/ exists xs, from_har t seen' acc' = Ok xs)).
      { intros seen' acc'. destruct (IH seen' acc') as [I1 I2]. split; [|exact I2]. rewrite I1. split.
        - intros [e0 [I0 Bd]]. exists e0. split; [right; exact I0|exact Bd].
        - intros [e0 [[<-|I0] Bd]]; [exfalso; apply body_ok_not_bad in Good; exact (Good Bd)|].
          exists e0. split; assumption. }
      destruct (har_eligibleb e); cbn [negb]; [|apply T].
      destruct (seen_lookup seen (h_url e)) as [o|]; [|apply T].
      destruct (negb (har_has_variants e && o)); apply T.
Qed.

(* --- statements ---------------------------------------------------------------- *)
Theorem from_har_spec_fn (es : list hentry) :
  (forall e, In e es -> har_body_ok e) ->
  from_har es [] [] = Ok (map har_exchange (har_kept_entries es)).
Proof. intros B. exact (from_har_gen es [] [] B). Qed.

Theorem from_har_err_iff (es : list hentry) :
  from_har es [] [] = Err
  <-> exists e, In e es /\ h_b64 e = true /\ b64_decode true false (h_text e) = None.
Proof. exact (proj1 (from_har_err_gen es [] [])). Qed.

Theorem from_har_ok_or_err (es : list hentry) :
  from_har es [] [] = Err \/ exists xs, from_har es [] [] = Ok xs.
Proof. exact (proj2 (from_har_err_gen es [] [])). Qed.

Theorem from_har_total (es : list hentry) : from_har es [] [] <> Panic /\ from_har es [] [] <> Fuel.
Proof. destruct (from_har_ok_or_err es) as [E|[xs E]]; rewrite E; split; discriminate. Qed.

(* both directions at once: the result is determined *)
Theorem from_har_cases (es : list hentry) :
  ((exists e, In e es /\ har_body_bad e) /\ from_har es [] [] = Err)
  \/ ((forall e, In e es -> har_body_ok e) /\ from_har es [] [] = Ok (map har_exchange (har_kept_entries es))).
Proof.
  destruct (from_har_ok_or_err es) as [E|[xs E]].
  - left. split; [apply from_har_err_iff; exact E|exact E].
  - right. assert (B : forall e, In e es -> har_body_ok e).
    { intros e I. apply body_ok_not_bad. intros Bd.
      assert (X : from_har es [] [] = Err) by (apply from_har_err_iff; exists e; split; assumption).
      rewrite X in E. discriminate. }
    split; [exact B|apply from_har_spec_fn; exact B].
Qed.

Theorem from_har_ok_inv (es : list hentry) (xs : list bexchange) :
  from_har es [] [] = Ok xs ->
  (forall e, In e es -> har_body_ok e) /\ xs = map har_exchange (har_kept_entries es).
Proof.
  intros E. destruct (from_har_cases es) as [[_ X]|[B X]]; rewrite X in E; [discriminate|].
  inversion E. split; [exact B|reflexivity].
Qed.

(* --- kept entries by index ------------------------------------------------------- *)
Lemma firstn_S_snoc {A} (l : list A) : forall i x, nth_error l i = Some x -> firstn (S i) l = firstn i l ++ [x].
Proof.
  induction l as [|y t IH]; intros [|i] x H; cbn [nth_error firstn] in *; try discriminate.
  - inversion H. reflexivity.
  - cbn [app]. f_equal. apply IH. exact H.
Qed.

(* the kept entries are the entries at the kept positions, in increasing order *)
Lemma kept_from_idx (es : list hentry) : forall pre,
  kept_from (rev pre) es
  = flat_map (fun i => match nth_error (pre ++ es) i with
                       | Some e => if har_keptb (pre ++ es) i then [e] else []
                       | None => [] end)
             (seq (List.length pre) (List.length es)).
Proof.
  induction es as [|e t IH]; intros pre; [reflexivity|]. cbn [kept_from List.length seq flat_map].
  assert (N : nth_error (pre ++ e :: t) (List.length pre) = Some e).
  { rewrite nth_error_app2 by lia. rewrite Nat.sub_diag. reflexivity. }
  rewrite N. unfold har_keptb at 1. rewrite N.
  assert (F : firstn (List.length pre) (pre ++ e :: t) = pre).
  { rewrite firstn_app, Nat.sub_diag, firstn_all. cbn [firstn]. apply app_nil_r. }
  rewrite F. f_equal.
  specialize (IH (pre ++ [e])). rewrite rev_app_distr in IH. cbn [rev app] in IH.
  rewrite IH. rewrite app_length. cbn [List.length]. rewrite Nat.add_1_r. rewrite <- app_assoc. reflexivity.
Qed.

Definition har_kept_idx (es : list hentry) : list nat :=
  filter (har_keptb es) (seq 0 (List.length es)).

Lemma flat_map_filter_opt {A} (es : list A) (p : nat -> bool) (l : list nat) :
  (forall i, In i l -> (i < List.length es)%nat) ->
  map Some (flat_map (fun i => match nth_error es i with
                               | Some e => if p i then [e] else []
                               | None => [] end) l)
  = map (nth_error es) (filter p l).
Proof.
  induction l as [|i t IH]; intros B; [reflexivity|]. cbn [flat_map filter]. rewrite map_app.
  rewrite IH by (intros j I; apply B; right; exact I).
  destruct (nth_error es i) as [e|] eqn:N.
  - destruct (p i); cbn [map app]; [rewrite N|]; reflexivity.
  - exfalso. apply nth_error_None in N. specialize (B i (or_introl eq_refl)). lia.
Qed.

Theorem har_kept_entries_idx (es : list hentry) :
  StronglySorted lt (har_kept_idx es)
  /\ (forall i, In i (har_kept_idx es) <-> har_kept es i)
  /\ map (nth_error es) (har_kept_idx es) = map Some (har_kept_entries es).
Proof.
  split; [|split].
  - unfold har_kept_idx. generalize 0%nat as s. generalize (List.length es) as n.
    induction n as [|n IH]; intros s; cbn [seq filter]; [constructor|].
    assert (Hall : Forall (lt s) (filter (har_keptb es) (seq (S s) n))).
    { apply Forall_forall. intros j I. apply filter_In in I. destruct I as [I _]. apply in_seq in I. lia. }
    destruct (har_keptb es s); [constructor; [apply IH|exact Hall]|apply IH].
  - intros i. unfold har_kept_idx, har_kept. rewrite filter_In, in_seq. split; [intros [_ H]; exact H|].
    intros H. split; [|exact H]. unfold har_keptb in H. destruct (nth_error es i) eqn:N; [|discriminate].
    assert (i < List.length es)%nat by (apply nth_error_Some; congruence). lia.
  - unfold har_kept_entries. pose proof (kept_from_idx es []) as K. cbn [rev app List.length] in K. rewrite K.
    unfold har_kept_idx. symmetry. apply flat_map_filter_opt. intros i I. apply in_seq in I. lia.
Qed.

(* the rule, by index.  Entry i is kept iff it is a GET with a status in 100..999
   and either no earlier kept entry has its URL, or it has a Variants header and
   so has the LATEST earlier kept entry j with its URL. *)
Definition har_rule (K : nat -> Prop) (es : list hentry) (i : nat) : Prop :=
  exists e, nth_error es i = Some e /\ har_eligible e /\
    ((forall j e', (j < i)%nat -> K j -> nth_error es j = Some e' -> h_url e' <> h_url e)
     \/ (exists j e', (j < i)%nat /\ K j /\ nth_error es j = Some e' /\ h_url e' = h_url e
           /\ (forall k e'', (j < k < i)%nat -> K k -> nth_error es k = Some e'' -> h_url e'' <> h_url e)
           /\ har_has_variants e' = true /\ har_has_variants e = true)).

(* looking back from position n (exclusive) for the latest kept entry with URL of e *)
Lemma keptb_rule (es : list hentry) (e : hentry) : forall n, (n <= List.length es)%nat ->
  keptb (rev (firstn n es)) e = true <->
  har_eligible e /\
    ((forall j e', (j < n)%nat -> har_kept es j -> nth_error es j = Some e' -> h_url e' <> h_url e)
     \/ (exists j e', (j < n)%nat /\ har_kept es j /\ nth_error es j = Some e' /\ h_url e' = h_url e
           /\ (forall k e'', (j < k < n)%nat -> har_kept es k -> nth_error es k = Some e'' -> h_url e'' <> h_url e)
           /\ har_has_variants e' = true /\ har_has_variants e = true)).
Proof.
  induction n as [|n IH]; intros L.
  - cbn [firstn rev keptb]. rewrite har_eligibleb_iff. split.
    + intros H. split; [exact H|]. left. intros j e' Hj. lia.
    + intros [H _]. exact H.
  - destruct (nth_error es n) as [en|] eqn:N; [|apply nth_error_None in N; lia].
    rewrite (firstn_S_snoc es n en N), rev_app_distr. cbn [rev app keptb].
    assert (Kn : keptb (rev (firstn n es)) en = true <-> har_kept es n).
    { unfold har_kept, har_keptb. rewrite N. tauto. }
    specialize (IH ltac:(lia)).
    destruct (bytes_eqb (h_url en) (h_url e) && keptb (rev (firstn n es)) en) eqn:C.
    + apply andb_true_iff in C. destruct C as [U Kt]. apply bytes_eqb_eq in U. apply Kn in Kt.
      rewrite !andb_true_iff, har_eligibleb_iff. split.
      * intros [[El V] V']. split; [exact El|]. right. exists n, en. repeat split; try assumption; try lia.
      * intros [El [No|[j [e' [Hj [Kj [Nj [Uj [Btw [V' V]]]]]]]]]].
        -- exfalso. exact (No n en ltac:(lia) Kt N U).
        -- assert (j = n).
           { destruct (Nat.eq_dec j n) as [Ej|Nej]; [exact Ej|]. exfalso.
             exact (Btw n en ltac:(lia) Kt N U). }
           subst j. rewrite N in Nj. inversion Nj. subst e'. split; [split; [exact El|exact V]|exact V'].
    + assert (Skip : har_kept es n -> h_url en <> h_url e).
      { intros Kt. apply Kn in Kt. rewrite Kt, andb_true_r in C. apply bytes_eqb_neq. exact C. }
      rewrite IH. split.
      * intros [El [No|[j [e' [Hj [Kj [Nj [Uj [Btw VV]]]]]]]]]; (split; [exact El|]).
        -- left. intros j e' Hj Kj Nj. destruct (Nat.eq_dec j n) as [->|Ne].
           ++ rewrite N in Nj. inversion Nj. subst e'. apply Skip. exact Kj.
           ++ apply (No j e'); [lia|exact Kj|exact Nj].
        -- right. exists j, e'. repeat split; try tauto; try lia.
           intros k e'' Hk Kk Nk. destruct (Nat.eq_dec k n) as [->|Ne].
           ++ rewrite N in Nk. inversion Nk. subst e''. apply Skip. exact Kk.
           ++ apply (Btw k e''); [lia|exact Kk|exact Nk].
      * intros [El [No|[j [e' [Hj [Kj [Nj [Uj [Btw VV]]]]]]]]]; (split; [exact El|]).
        -- left. intros j e' Hj. apply No. lia.
        -- assert (j <> n).
           { intros ->. rewrite N in Nj. inversion Nj. subst e'. exact (Skip Kj Uj). }
           right. exists j, e'. repeat split; try tauto; try lia.
           intros k e'' Hk. apply Btw. lia.
Qed.

Theorem har_kept_rule (es : list hentry) (i : nat) : har_kept es i <-> har_rule (har_kept es) es i.
Proof.
  unfold har_rule. unfold har_kept at 1. unfold har_keptb. destruct (nth_error es i) as [e|] eqn:N.
  - assert (L : (i <= List.length es)%nat).
    { assert (i < List.length es)%nat by (apply nth_error_Some; congruence). lia. }
    rewrite (keptb_rule es e i L). split.
    + intros [El R]. exists e. split; [reflexivity|]. split; [exact El|exact R].
    + intros [e0 [E0 [El R]]]. inversion E0. subst e0. split; assumption.
  - split; [discriminate|]. intros [e [E _]]. discriminate.
Qed.

(* the rule determines the kept set: any K obeying it is har_kept *)
Theorem har_kept_unique (es : list hentry) (K : nat -> Prop) :
  (forall i, K i <-> har_rule K es i) -> forall i, K i <-> har_kept es i.
Proof.
  intros HK i. induction i as [i IH] using (well_founded_induction lt_wf).
  rewrite HK, har_kept_rule. unfold har_rule.
  split; intros [e [N [El R]]]; exists e; (split; [exact N|]); (split; [exact El|]).
  - destruct R as [No|[j [e' [Hj [Kj [Nj [Uj [Btw VV]]]]]]]].
    + left. intros j e' Hj Kj. apply No; [exact Hj|]. apply IH; assumption.
    + right. exists j, e'. repeat split; try tauto. { apply IH; assumption. }
      intros k e'' Hk Kk. apply Btw; [exact Hk|]. apply IH; [lia|exact Kk].
  - destruct R as [No|[j [e' [Hj [Kj [Nj [Uj [Btw VV]]]]]]]].
    + left. intros j e' Hj Kj. apply No; [exact Hj|]. apply IH; assumption.
    + right. exists j, e'. repeat split; try tauto. { apply IH; assumption. }
      intros k e'' Hk Kk. apply Btw; [exact Hk|]. apply IH; [lia|exact Kk].
Qed.

(* consequence: a URL is kept more than once only if ALL its kept entries have a
   Variants header (the comment in fromhar.go); so the flag stored for a URL never
   changes after its first kept entry *)
Theorem har_kept_same_url_variants (es : list hentry) : forall j i ei ej,
  (i < j)%nat -> har_kept es i -> har_kept es j ->
  nth_error es i = Some ei -> nth_error es j = Some ej -> h_url ei = h_url ej ->
  har_has_variants ei = true /\ har_has_variants ej = true.
Proof.
  intros j. induction j as [j IH] using (well_founded_induction lt_wf). intros i ei ej Lt Ki Kj Ni Nj U.
  apply har_kept_rule in Kj. destruct Kj as [e [N [_ R]]]. rewrite Nj in N. inversion N. subst e.
  destruct R as [No|[j' [e' [Hj' [Kj' [Nj' [Uj' [Btw [V' V]]]]]]]]].
  - exfalso. exact (No i ei Lt Ki Ni U).
  - split; [|exact V]. destruct (Nat.eq_dec i j') as [->|Ne].
    + rewrite Ni in Nj'. inversion Nj'. subst e'. exact V'.
    + assert (Li : (i < j')%nat).
      { destruct (Nat.lt_ge_cases i j') as [X|X]; [exact X|]. exfalso.
        exact (Btw i ei ltac:(lia) Ki Ni U). }
      apply (IH j' Hj' i ei e' Li Ki Kj' Ni Nj'). congruence.
Qed.

(* the statement of the task: xs is the list of kept entries, in order *)
Theorem from_har_spec (es : list hentry) :
  (forall e, In e es -> har_body_ok e) ->
  exists idx ents,
    StronglySorted lt idx /\ (forall i, In i idx <-> har_kept es i)
    /\ map (nth_error es) idx = map Some ents
    /\ from_har es [] [] = Ok (map har_exchange ents).
Proof.
  intros B. exists (har_kept_idx es), (har_kept_entries es).
  destruct (har_kept_entries_idx es) as [S [I M]]. repeat split; try assumption; try apply I.
  apply from_har_spec_fn. exact B.
Qed.

(* --- consequences of the rule ---------------------------------------------------- *)
(* a URL whose kept entries have no Variants header is kept once *)
Lemma kept_from_nodup (es : list hentry) : forall rpre,
  (forall e, In e (kept_from rpre es) -> har_has_variants e = false) ->
  NoDup (map h_url (kept_from rpre es))
  /\ (forall e, In e (kept_from rpre es) -> ~ In (h_url e) (map fst (seen_of rpre))).
Proof.
  induction es as [|e t IH]; intros rpre NV; cbn [kept_from] in *; [split; [constructor|intros e []]|].
  specialize (IH (e :: rpre)). cbn [seen_of] in IH.
  destruct (keptb rpre e) eqn:K; cbn [app] in *.
  - assert (Ve : har_has_variants e = false) by (apply NV; left; reflexivity).
    destruct IH as [ND Dis]; [intros e0 I0; apply NV; right; exact I0|]. cbn [map fst] in Dis.
    assert (Fresh : ~ In (h_url e) (map fst (seen_of rpre))).
    { rewrite keptb_seen, Ve in K. destruct (seen_lookup (seen_of rpre) (h_url e)) as [o|] eqn:SL.
      - cbn [andb] in K. rewrite andb_false_r in K. discriminate.
      - clear - SL. induction (seen_of rpre) as [|[k v] s IHs]; [intros []|]. cbn [seen_lookup map fst In] in *.
        destruct (bytes_eqb k (h_url e)) eqn:E; [discriminate|]. apply bytes_eqb_neq in E.
        intros [X|X]; [exact (E X)|exact (IHs SL X)]. }
    split.
    + cbn [map]. constructor; [|exact ND]. intros I. apply in_map_iff in I. destruct I as [e0 [U I0]].
      apply (Dis e0 I0). left. symmetry. exact U.
    + intros e0 [<-|I0]; [exact Fresh|]. intros X. apply (Dis e0 I0). right. exact X.
  - apply IH. exact NV.
Qed.

Theorem har_no_variants_single_urls (es : list hentry) :
  (forall e, In e (har_kept_entries es) -> har_has_variants e = false) ->
  NoDup (map bx_url (map har_exchange (har_kept_entries es))).
Proof.
  intros NV. rewrite map_map. cbn [har_exchange bx_url].
  exact (proj1 (kept_from_nodup es [] NV)).
Qed.

(* ====================== 3. composition with writer and reader ================== *)
Definition har_bundle (v : bversion) (p : option bytes) (xs : list bexchange) : bundle :=
  {| b_ver := v; b_primary := p; b_manifest := None; b_sigs := None; b_exchanges := xs; b_taint := false |}.

Theorem har_write_never_panic (v : bversion) (p : option bytes) (es : list hentry) (xs : list bexchange) :
  from_har es [] [] = Ok xs -> b_write (har_bundle v p xs) <> Panic.
Proof. intros _. apply b_write_never_panic. Qed.

Lemma har_residual (v : bversion) (p : option bytes) (xs : list bexchange) :
  residual (fun _ => true) (har_bundle v p xs) = negb (b_write_taint (har_bundle v p xs)).
Proof. unfold residual. cbn [har_bundle b_sigs]. apply andb_true_r. Qed.

Theorem har_artifact_readable (v : bversion) (p : option bytes) (es : list hentry) (xs : list bexchange)
  (bs : bytes) :
  from_har es [] [] = Ok xs ->
  b_write (har_bundle v p xs) = Ok bs -> lenN bs < two63 -> b_write_taint (har_bundle v p xs) = false ->
  b_read (fun _ => true) bs = Ok (norm (har_bundle v p xs)).
Proof.
  intros _ W L T. apply bundle_roundtrip; [exact W|exact L|]. rewrite har_residual, T. reflexivity.
Qed.

(* the same with the exchanges spelled out *)
Theorem har_artifact_contents (v : bversion) (p : option bytes) (es : list hentry) (xs : list bexchange)
  (bs : bytes) :
  from_har es [] [] = Ok xs ->
  b_write (har_bundle v p xs) = Ok bs -> lenN bs < two63 -> b_write_taint (har_bundle v p xs) = false ->
  xs = map har_exchange (har_kept_entries es)
  /\ exists b', b_read (fun _ => true) bs = Ok b'
     /\ b_ver b' = v /\ b_primary b' = p /\ b_manifest b' = None /\ b_sigs b' = None /\ b_taint b' = false
     /\ b_exchanges b' = b_exchanges (norm (har_bundle v p xs))
     /\ ((forall e, In e (har_kept_entries es) -> har_has_variants e = false) ->
         b_exchanges b' = map xnorm (isort x_ltb xs)).
Proof.
  intros F W L T. destruct (from_har_ok_inv es xs F) as [_ X]. split; [exact X|].
  exists (norm (har_bundle v p xs)). split; [eapply har_artifact_readable; eassumption|].
  repeat split. intros NV.
  apply (norm_single (har_bundle v p xs)).
  - unfold single_urls. cbn [har_bundle b_exchanges]. rewrite X. apply har_no_variants_single_urls. exact NV.
  - eapply written_urls_utf8. exact W.
Qed.

(* refused or readable: for every capture, version and primary URL, gen-bundle
   either refuses (the import fails on a body, or the writer returns an error) or
   emits bytes; and bytes it emits are read back by bundle.Read as the normalised
   kept exchanges - no Panic anywhere, no artifact the reader rejects. *)
Theorem har_refused_or_readable (v : bversion) (p : option bytes) (es : list hentry) :
  (* refused at import: some body is not base64 *)
  (from_har es [] [] = Err /\ exists e, In e es /\ har_body_bad e)
  \/ (let xs := map har_exchange (har_kept_entries es) in
      from_har es [] [] = Ok xs /\
      ((* refused by the writer *)
       b_write (har_bundle v p xs) = Err
       \/ (* emitted *)
       exists bs, b_write (har_bundle v p xs) = Ok bs /\
         (lenN bs < two63 -> b_write_taint (har_bundle v p xs) = false ->
          b_read (fun _ => true) bs = Ok (norm (har_bundle v p xs))))).
Proof.
  destruct (from_har_cases es) as [[Bad E]|[_ E]]; [left; split; assumption|]. right. cbv zeta.
  split; [exact E|]. destruct (b_write_ok_or_err (har_bundle v p (map har_exchange (har_kept_entries es)))) as [W|[bs W]];
    [left; exact W|]. right. exists bs. split; [exact W|]. intros L T.
  eapply har_artifact_readable; eassumption.
Qed.
