(* C14, first half: Encode computes exactly the stream and digest header of
   Spec/Mice.v, for every payload, record size >= 1 and both drafts. *)
From Coq Require Import Lia ZifyN ZifyNat ZifyBool.
From WP Require Import Base.Prelude Base.Base64 Model.Mice Spec.Mice Proofs.MiceLemmas.
Open Scope N_scope.
Ltac Zify.zify_post_hook ::= Z.div_mod_to_equations.

(* Shape rs e recs: every record but the last has exactly rs bytes, the last
   one at most rs; it may be empty only if e = true. *)
Inductive Shape (rs : N) (e : bool) : list bytes -> Prop :=
| ShNil : Shape rs e []
| ShLast c : lenN c <= rs -> (c = [] -> e = true) -> Shape rs e [c]
| ShCons c t : lenN c = rs -> t <> [] -> Shape rs e t -> Shape rs e (c :: t).

Lemma shape_weaken rs e recs : Shape rs false recs -> Shape rs e recs.
Proof.
  induction 1 as [|c L E|c t L N S IH].
  - constructor.
  - apply ShLast; [exact L|]. intros C. specialize (E C). discriminate.
  - apply ShCons; assumption.
Qed.

Lemma shape_tail rs e c t : Shape rs e (c :: t) -> Shape rs e t.
Proof. intros S. inversion S; subst; [constructor|assumption]. Qed.

Lemma shape_head_full rs e c t : Shape rs e (c :: t) -> t <> [] -> lenN c = rs.
Proof. intros S NE. inversion S as [|c0 L0 E0|c0 t0 L0 N0 S0]; [subst; exfalso; apply NE; reflexivity|assumption]. Qed.

Lemma shape_head_le rs e c t : Shape rs e (c :: t) -> lenN c <= rs.
Proof. intros S. inversion S as [|c0 L0 E0|c0 t0 L0 N0 S0]; [assumption|lia]. Qed.

Lemma shape_app_inv rs e pre : forall suf,
  Shape rs e (pre ++ suf) -> suf <> [] ->
  Forall (fun x => lenN x = rs) pre /\ Shape rs e suf.
Proof.
  induction pre as [|x pre IH]; intros suf S NE; cbn [app] in S.
  - split; [constructor|exact S].
  - destruct (pre ++ suf) as [|y ps] eqn:Eps.
    + apply app_eq_nil in Eps as [_ C]. congruence.
    + inversion S as [|c L E|c t L N S']; subst c t.
      rewrite <- Eps in S'.
      destruct (IH suf S' NE) as [F S2]. split; [constructor; assumption|exact S2].
Qed.

Lemma lenN_concat_full rs pre :
  Forall (fun x : bytes => lenN x = rs) pre -> lenN (List.concat pre) = lenN pre * rs.
Proof.
  induction 1 as [|x pre Lx F IH]; cbn [List.concat lenN]; [lia|].
  rewrite lenN_app, IH, Lx. lia.
Qed.

(* chunks of a non-empty payload *)
Lemma chunks_fuel_spec n : (1 <= n)%nat -> forall fuel p,
  p <> [] -> (List.length p <= fuel)%nat ->
  Shape (N.of_nat n) false (chunks_fuel fuel n p) /\
  List.concat (chunks_fuel fuel n p) = p /\ chunks_fuel fuel n p <> [].
Proof.
  intros Hn. induction fuel as [|f IH]; intros p NE L.
  - destruct p; [congruence|cbn [List.length] in L; lia].
  - cbn [chunks_fuel]. destruct (Nat.leb_spec (List.length p) n) as [Le|Gt].
    + split; [|split].
      * apply ShLast; [rewrite lenN_length; lia|]. intros C. congruence.
      * cbn [List.concat]. apply app_nil_r.
      * discriminate.
    + assert (NE' : skipn n p <> []).
      { intros C. apply (f_equal (@List.length N)) in C.
        rewrite skipn_length in C. cbn [List.length] in C. lia. }
      assert (L' : (List.length (skipn n p) <= f)%nat) by (rewrite skipn_length; lia).
      destruct (IH _ NE' L') as [S [C NEc]].
      split; [|split].
      * apply ShCons; [|exact NEc|exact S].
        rewrite lenN_length, firstn_length. lia.
      * cbn [List.concat]. rewrite C. apply firstn_skipn.
      * discriminate.
Qed.

Lemma chunks_spec rs p : 1 <= rs -> p <> [] ->
  Shape rs false (chunks rs p) /\ List.concat (chunks rs p) = p /\ chunks rs p <> [].
Proof.
  intros Hrs NE. unfold chunks.
  assert (Lp : (1 <= List.length p)%nat).
  { destruct p; [congruence|cbn [List.length]; lia]. }
  destruct (N.le_gt_cases rs (N.of_nat (List.length p))) as [Le|Gt].
  - rewrite N.min_l by exact Le.
    assert (Hn : (1 <= N.to_nat rs)%nat) by lia.
    destruct (chunks_fuel_spec _ Hn (List.length p) p NE (le_n _)) as [S R].
    rewrite N2Nat.id in S. split; assumption.
  - rewrite N.min_r by lia. rewrite Nat2N.id.
    destruct (List.length p) as [|f] eqn:El; [lia|].
    cbn [chunks_fuel]. rewrite El, Nat.leb_refl.
    split; [|split].
    + apply ShLast; [rewrite lenN_length; lia|]. intros C. congruence.
    + cbn [List.concat]. apply app_nil_r.
    + discriminate.
Qed.

(* the records of any payload: shape, concatenation, count *)
Definition allow_empty (d : draft) : bool := match d with D02 => true | D03 => false end.

Lemma records_spec d rs p : 1 <= rs ->
  Shape rs (allow_empty d) (records d rs p) /\ List.concat (records d rs p) = p.
Proof.
  intros Hrs. destruct p as [|x p].
  - destruct d; cbn [records allow_empty List.concat app].
    + split; [|reflexivity]. apply ShLast; [cbn [lenN]; lia|reflexivity].
    + split; [constructor|reflexivity].
  - assert (NE : x :: p <> []) by discriminate.
    destruct (chunks_spec rs _ Hrs NE) as [S [C _]].
    split; [apply shape_weaken; exact S|exact C].
Qed.

Lemma shape_count rs recs :
  1 <= rs -> Shape rs false recs -> recs <> [] ->
  (lenN (List.concat recs) + rs - 1) / rs = lenN recs.
Proof.
  intros Hrs S. induction S as [|c L E|c t L N S IH]; intros NE.
  - congruence.
  - cbn [List.concat lenN]. rewrite app_nil_r.
    assert (1 <= lenN c).
    { destruct c; [specialize (E eq_refl); discriminate|cbn [lenN]; lia]. }
    symmetry. apply (N.div_unique _ _ _ (lenN c - 1)); lia.
  - cbn [List.concat lenN]. rewrite lenN_app, L.
    replace (rs + lenN (List.concat t) + rs - 1) with (1 * rs + (lenN (List.concat t) + rs - 1)) by lia.
    rewrite N.div_add_l by lia. rewrite (IH N). lia.
Qed.

Section Encode.
  Variable H : bytes -> bytes.

  Lemma proof_chain_cons c t :
    proof_chain H (c :: t) =
    H (c ++ match t with [] => [0] | _ => hd [] (proof_chain H t) ++ [1] end)
      :: proof_chain H t.
  Proof.
    destruct t as [|c' t']; [reflexivity|].
    cbn [proof_chain]. destruct (proof_chain H t') as [|q qs]; reflexivity.
  Qed.

  Lemma proof_chain_nonempty t : t <> [] -> proof_chain H t <> [].
  Proof. destruct t; [congruence|]. rewrite proof_chain_cons. discriminate. Qed.

  Lemma proofs_loop_S f i n rs buf acc :
    proofs_loop H (S f) i n rs buf acc =
    if n <=? i then Ok acc
    else
      let* p :=
        (if i =? 0 then
           let* s := slice_from buf ((n - i - 1) * rs) in Ok (H (s ++ [0]))
         else
           let* s := slice buf ((n - i - 1) * rs) ((n - i - 1 + 1) * rs) in
           match acc with
           | nxt :: _ => Ok (H (s ++ nxt ++ [1]))
           | [] => Panic
           end) in
      proofs_loop H f (i + 1) n rs buf (p :: acc).
  Proof. reflexivity. Qed.

  Lemma proofs_loop_spec rs e recs :
    Shape rs e recs ->
    forall pre suf fuel,
      recs = pre ++ suf -> (List.length pre < fuel)%nat ->
      proofs_loop H fuel (lenN suf) (lenN recs) rs (List.concat recs) (proof_chain H suf)
      = Ok (proof_chain H recs).
  Proof.
    intros S pre. induction pre as [|c pre IH] using rev_ind; intros suf fuel E L.
    - cbn [app] in E. subst suf. destruct fuel as [|f]; [cbn [List.length] in L; lia|].
      rewrite proofs_loop_S. rewrite N.leb_refl. reflexivity.
    - rewrite <- app_assoc in E. cbn [app] in E.
      destruct fuel as [|f]; [lia|]. rewrite app_length in L. cbn [List.length] in L.
      rewrite proofs_loop_S.
      assert (NEs : c :: suf <> []) by discriminate.
      assert (S' := S). rewrite E in S'.
      destruct (shape_app_inv _ _ _ _ S' NEs) as [Fp Sc].
      assert (Ln : lenN recs = lenN pre + 1 + lenN suf).
      { rewrite E, lenN_app. cbn [lenN]. lia. }
      destruct (N.leb_spec (lenN recs) (lenN suf)) as [C|_]; [lia|].
      replace (lenN recs - lenN suf - 1) with (lenN pre) by lia.
      assert (Lp := lenN_concat_full _ _ Fp).
      assert (Eb : List.concat recs = List.concat pre ++ c ++ List.concat suf).
      { rewrite E, concat_app. reflexivity. }
      assert (Step : forall p, p :: proof_chain H suf = proof_chain H (c :: suf) ->
                proofs_loop H f (lenN suf + 1) (lenN recs) rs (List.concat recs)
                  (p :: proof_chain H suf) = Ok (proof_chain H recs)).
      { intros p Ep. rewrite Ep. rewrite N.add_1_r.
        change (N.succ (lenN suf)) with (lenN (c :: suf)).
        apply IH; [exact E|lia]. }
      destruct (N.eqb_spec (lenN suf) 0) as [Z|NZ].
      + apply lenN_nil_inv in Z. subst suf.
        assert (Sl : slice_from (List.concat recs) (lenN pre * rs) = Ok c).
        { rewrite Eb. cbn [List.concat]. rewrite app_nil_r.
          apply slice_from_app. lia. }
        rewrite Sl. cbn [bind].
        apply (Step (H (c ++ [0]))). reflexivity.
      + assert (NEsuf : suf <> []) by (intros C; subst suf; cbn [lenN] in NZ; lia).
        assert (Lc := shape_head_full _ _ _ _ Sc NEsuf).
        assert (Sl : slice (List.concat recs) (lenN pre * rs) ((lenN pre + 1) * rs) = Ok c).
        { rewrite Eb. apply slice_mid; lia. }
        rewrite Sl. cbn [bind].
        assert (NEp := proof_chain_nonempty suf NEsuf).
        destruct (proof_chain H suf) as [|nxt qs] eqn:Eq; [congruence|].
        cbn [bind]. apply Step.
        rewrite proof_chain_cons. destruct suf; [exfalso; apply NEsuf; reflexivity|].
        rewrite Eq. reflexivity.
  Qed.

  Lemma out_loop_cons i rs buf p t :
    out_loop i rs buf (p :: t) =
    let high := if lenN buf <? (i + 1) * rs then lenN buf else (i + 1) * rs in
    let* rec := slice buf (i * rs) high in
    let* rest := out_loop (i + 1) rs buf t in
    Ok ((if i =? 0 then [] else p) ++ rec ++ rest).
  Proof. reflexivity. Qed.

  Lemma out_loop_spec rs e recs :
    Shape rs e recs ->
    forall suf pre,
      recs = pre ++ suf ->
      out_loop (lenN pre) rs (List.concat recs) (proof_chain H suf)
      = Ok ((if lenN pre =? 0 then [] else hd [] (proof_chain H suf)) ++ body H suf).
  Proof.
    intros S suf. induction suf as [|c t IH]; intros pre E.
    - cbn [proof_chain out_loop body hd]. destruct (lenN pre =? 0); reflexivity.
    - rewrite proof_chain_cons, out_loop_cons. cbv zeta.
      assert (NEs : c :: t <> []) by discriminate.
      assert (S' := S). rewrite E in S'.
      destruct (shape_app_inv _ _ _ _ S' NEs) as [Fp Sc].
      assert (Lp := lenN_concat_full _ _ Fp).
      assert (Eb : List.concat recs = List.concat pre ++ c ++ List.concat t).
      { rewrite E, concat_app. reflexivity. }
      assert (Hh : (if lenN (List.concat recs) <? (lenN pre + 1) * rs
                    then lenN (List.concat recs) else (lenN pre + 1) * rs)
                   = lenN (List.concat pre) + lenN c).
      { rewrite Eb, !lenN_app.
        assert (Lle := shape_head_le _ _ _ _ Sc).
        destruct t as [|c' t'].
        - cbn [List.concat lenN].
          destruct (N.ltb_spec (lenN (List.concat pre) + (lenN c + 0)) ((lenN pre + 1) * rs)); lia.
        - assert (NEt : c' :: t' <> []) by discriminate.
          assert (Lc := shape_head_full _ _ _ _ Sc NEt).
          destruct (N.ltb_spec (lenN (List.concat pre) + (lenN c + lenN (List.concat (c' :: t'))))
                               ((lenN pre + 1) * rs)); lia. }
      rewrite Hh.
      assert (Sl : slice (List.concat recs) (lenN pre * rs) (lenN (List.concat pre) + lenN c) = Ok c).
      { rewrite Eb. apply slice_mid; lia. }
      rewrite Sl. cbn [bind].
      assert (E2 : recs = (pre ++ [c]) ++ t) by (rewrite <- app_assoc; exact E).
      specialize (IH (pre ++ [c]) E2).
      rewrite lenN_app in IH. cbn [lenN] in IH. change (N.succ 0) with 1 in IH.
      rewrite IH. cbn [bind hd body].
      destruct (N.eqb_spec (lenN pre + 1) 0) as [C|_]; [lia|]. reflexivity.
  Qed.

  (* the part of Encode after the case distinctions *)
  Lemma encode_core d rs e recs :
    Shape rs e recs -> recs <> [] ->
    (let* proofs := proofs_loop H (S (N.to_nat (lenN recs))) 0 (lenN recs) rs (List.concat recs) [] in
     let* bdy := out_loop 0 rs (List.concat recs) proofs in
     match proofs with
     | p0 :: _ => Ok (be 8 rs ++ bdy, format_digest_header d p0)
     | [] => Panic
     end)
    = Ok (be 8 rs ++ body H recs, format_digest_header d (hd [] (proof_chain H recs))).
  Proof.
    intros Sh NE.
    assert (P := proofs_loop_spec rs e recs Sh recs [] (S (N.to_nat (lenN recs)))).
    rewrite app_nil_r in P. cbn [lenN proof_chain] in P.
    rewrite P; [|reflexivity|rewrite lenN_length; lia].
    cbn [bind].
    assert (O := out_loop_spec rs e recs Sh recs [] eq_refl).
    cbn [lenN] in O. rewrite O. change (0 =? 0) with true. cbn [bind app].
    assert (NEp := proof_chain_nonempty recs NE).
    destruct (proof_chain H recs) as [|p0 ps]; [congruence|]. reflexivity.
  Qed.

  Lemma header_prefix_ok d x :
    header_prefix d ++ x = content_encoding d ++ [61] ++ x.
  Proof. destruct d; reflexivity. Qed.

  Lemma digest_header_format d rs p :
    digest_header H d rs p = format_digest_header d (digest H d rs p).
  Proof.
    unfold digest_header, format_digest_header. rewrite header_prefix_ok.
    destruct d; reflexivity.
  Qed.

  Lemma digest_hd d rs p :
    records d rs p <> [] -> digest H d rs p = hd [] (proof_chain H (records d rs p)).
  Proof.
    intros NE. unfold digest. assert (NEp := proof_chain_nonempty _ NE).
    destruct (proof_chain H (records d rs p)); [congruence|reflexivity].
  Qed.

  Theorem encode_refines_spec d rs p :
    1 <= rs -> encode H d rs p = Ok (stream H d rs p, digest_header H d rs p).
  Proof.
    intros Hrs. rewrite digest_header_format. unfold encode.
    destruct (N.eqb_spec rs 0) as [C|_]; [lia|].
    destruct (records_spec d rs p Hrs) as [Sh C].
    destruct p as [|x p].
    - change (lenN (@nil N) =? 0) with true.
      destruct d.
      + (* draft 02: one empty record *)
        assert (G := encode_core D02 rs _ [[]] Sh).
        cbn [records] in *. cbv iota.
        change (lenN [@nil N]) with 1 in G. cbn [List.concat app] in G.
        rewrite G by discriminate. unfold stream. cbn [records].
        rewrite (digest_hd D02 rs []) by (cbn [records]; discriminate).
        reflexivity.
      + reflexivity.
    - assert (NEp : x :: p <> []) by discriminate.
      destruct (chunks_spec rs _ Hrs NEp) as [S0 [C0 NE]].
      assert (Cnt := shape_count rs _ Hrs S0 NE). rewrite C0 in Cnt.
      assert (Z : lenN (x :: p) =? 0 = false) by (cbn [lenN]; lia).
      assert (G := encode_core d rs _ _ S0 NE). rewrite C0 in G.
      assert (ER : records d rs (x :: p) = chunks rs (x :: p)) by reflexivity.
      assert (T : (let n := if lenN (x :: p) =? 0 then 1
                            else (lenN (x :: p) + rs - 1) / rs in
         let* proofs := proofs_loop H (S (N.to_nat n)) 0 n rs (x :: p) [] in
         let* body := out_loop 0 rs (x :: p) proofs in
         match proofs with
         | [] => Panic
         | p0 :: _ => Ok (be 8 rs ++ body, format_digest_header d p0)
         end) = Ok (stream H d rs (x :: p), format_digest_header d (digest H d rs (x :: p)))).
      { rewrite Z. cbv zeta. rewrite Cnt, G.
        unfold stream. rewrite digest_hd by (rewrite ER; exact NE). rewrite ER.
        destruct (chunks rs (x :: p)); [congruence|reflexivity]. }
      rewrite Z. rewrite Z in T. destruct d; exact T.
  Qed.
  (* recordSize = 0 used to be an integer division by zero (a run-time panic); Encode
     returns "mice: invalid record size" now *)
  Theorem encode_rs0_err d p : encode H d 0 p = Err.
  Proof. reflexivity. Qed.

  (* hence Encode is total: an error for record size 0, the specified stream otherwise *)
  Theorem encode_ok_or_err d rs p :
    (rs = 0 /\ encode H d rs p = Err)
    \/ (1 <= rs /\ encode H d rs p = Ok (stream H d rs p, digest_header H d rs p)).
  Proof.
    destruct (N.eq_dec rs 0) as [->|Hne]; [left; split; [reflexivity|apply encode_rs0_err]|].
    right. assert (Hrs : 1 <= rs) by lia. split; [exact Hrs|apply encode_refines_spec; exact Hrs].
  Qed.

  Theorem encode_never_panics d rs p : encode H d rs p <> Panic /\ encode H d rs p <> Fuel.
  Proof. destruct (encode_ok_or_err d rs p) as [[_ E]|[_ E]]; rewrite E; split; discriminate. Qed.
End Encode.
