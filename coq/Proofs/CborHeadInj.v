(* Heads are uniquely readable: two heads written by encodeTypedUint that
   start the same byte string are the same head followed by the same rest.
   Consequence of CborHead.head_roundtrip (the independent decoder is a
   function), stated separately because prefix-freeness is what makes
   concatenated encoder output unambiguous. *)
From Coq Require Import Lia.
From WP Require Import Base.Prelude Model.Cbor Spec.Cbor.
From WP Require Import Proofs.BaseLemmas Proofs.CborHead.
Open Scope N_scope.

Lemma major_const_div_inj : forall t t',
  major_const t -> major_const t' -> t / 32 = t' / 32 -> t = t'.
Proof.
  intros t t' Ht Ht' E.
  apply CborHead.major_const_cases in Ht. apply CborHead.major_const_cases in Ht'.
  cbn [In] in Ht, Ht'.
  repeat match goal with H : _ \/ _ |- _ => destruct H as [H|H] end;
    try contradiction; subst; try reflexivity; vm_compute in E; discriminate E.
Qed.

Theorem typed_uint_prefix_free : forall t t' n n' r r',
  major_const t -> major_const t' -> n < two64 -> n' < two64 ->
  typed_uint t n ++ r = typed_uint t' n' ++ r' ->
  t = t' /\ n = n' /\ r = r'.
Proof.
  intros t t' n n' r r' Ht Ht' Hn Hn' E.
  destruct (CborHead.head_roundtrip t n r Ht Hn) as [H1 _].
  destruct (CborHead.head_roundtrip t' n' r' Ht' Hn') as [H2 _].
  rewrite E in H1. rewrite H1 in H2. inversion H2 as [[Et En Ew Er]].
  split; [apply major_const_div_inj; assumption|]. split; reflexivity.
Qed.

Corollary typed_uint_inj : forall t t' n n',
  major_const t -> major_const t' -> n < two64 -> n' < two64 ->
  typed_uint t n = typed_uint t' n' -> t = t' /\ n = n'.
Proof.
  intros t t' n n' Ht Ht' Hn Hn' E.
  destruct (typed_uint_prefix_free t t' n n' [] [] Ht Ht' Hn Hn') as (A & B & _).
  - now rewrite E.
  - now split.
Qed.

(* non-vacuity: the hypotheses are met at a 2-byte / 3-byte head boundary *)
Example prefix_free_boundary :
  typed_uint TPos 255 ++ [1] <> typed_uint TPos 256 ++ [].
Proof. vm_compute. discriminate. Qed.

(* the same for whole strings (EncodeBytes / EncodeTextString / EncodeByteString):
   head + content is uniquely readable whatever follows *)
Lemma app_eq_len : forall (a b c d : bytes),
  List.length a = List.length b -> a ++ c = b ++ d -> a = b /\ c = d.
Proof.
  induction a as [|x a IH]; intros [|y b] c d L E; cbn in *; try discriminate.
  - now split.
  - injection E as -> E. injection L as L. destruct (IH b c d L E) as [-> ->]. now split.
Qed.

Theorem enc_bytes_of_prefix_free : forall t t' bs bs' r r',
  major_const t -> major_const t' -> lenN bs < two64 -> lenN bs' < two64 ->
  enc_bytes_of t bs ++ r = enc_bytes_of t' bs' ++ r' ->
  t = t' /\ bs = bs' /\ r = r'.
Proof.
  intros t t' bs bs' r r' Ht Ht' Hn Hn' E. unfold enc_bytes_of in E.
  rewrite <- !app_assoc in E.
  destruct (typed_uint_prefix_free _ _ _ _ _ _ Ht Ht' Hn Hn' E) as (Et & En & Er).
  split; [exact Et|].
  apply app_eq_len; [|exact Er].
  rewrite !lenN_length in En. lia.
Qed.
