(* Proofs/SxgVerifyPolicy.v - Exchange.Verify accepts exactly what the policy of
   Spec/SxgPolicy.v accepts (C09).  Stated for the cases the URL model decides
   (no UUnknown) and untainted exchanges; for those Verify never answers
   Undecided. *)
From Coq Require Import Lia ZifyN ZifyNat ZifyBool Permutation.
From WP Require Import Base.Prelude Base.Base64 Base.Decimal.
From WP Require Import Model.Cbor Model.BigEndian Model.Http Model.Url Model.Mice Model.StructHdr
                       Model.CertChain Model.Sxg.
From WP Require Import Spec.SxgPolicy.
From WP Require Import Proofs.BaseLemmas Proofs.SxgVerifyMsg Proofs.SxgVerifySound.
Open Scope N_scope.

(* ---- Cache-Control directive names ----------------------------------------------- *)
Lemma is_space_white (c : N) : is_space c = white c.
Proof. unfold is_space, white. cbn [existsb]. lia. Qed.

Lemma trim_left_drop (s : bytes) : trim_left s = drop_white s.
Proof.
  induction s as [|c r IH]; cbn [trim_left drop_white]; [reflexivity|].
  rewrite is_space_white, IH. reflexivity.
Qed.

Lemma trim_space_trim (s : bytes) : trim_space s = trim s.
Proof.
  unfold trim_space, trim. rewrite !rev_append_rev, !app_nil_r, !trim_left_drop. reflexivity.
Qed.

Lemma members_nonempty (s : bytes) : members s <> [].
Proof.
  induction s as [|c r IH]; cbn [members]; [discriminate|].
  destruct (c =? 44); [discriminate|]. destruct (members r); discriminate.
Qed.

Lemma split_comma_members (s : bytes) : forall cur,
  split_comma s cur = (rev cur ++ hd [] (members s)) :: tl (members s).
Proof.
  induction s as [|c r IH]; intros cur; cbn [split_comma members].
  - rewrite rev_append_rev. reflexivity.
  - destruct (c =? 44).
    + rewrite rev_append_rev, IH. cbn [rev app hd tl].
      pose proof (members_nonempty r) as Hne. destruct (members r) as [|m ms]; [contradiction|].
      reflexivity.
    + rewrite IH. pose proof (members_nonempty r) as Hne.
      destruct (members r) as [|m ms]; [contradiction|]. cbn [rev hd tl].
      rewrite <- app_assoc. reflexivity.
Qed.

Lemma split_at_before (s : bytes) : forall acc,
  fst (split_at (N.eqb 61) s acc) = rev acc ++ before_eq s.
Proof.
  induction s as [|c r IH]; intros acc; cbn [split_at before_eq].
  - rewrite rev_append_rev. reflexivity.
  - rewrite (N.eqb_sym 61 c). destruct (c =? 61); cbn [fst].
    + rewrite rev_append_rev. reflexivity.
    + rewrite IH. cbn [rev]. rewrite <- app_assoc. reflexivity.
Qed.

Lemma directive_name_eq (m : bytes) : directive_name m = lower (before_eq (trim m)).
Proof. unfold directive_name. rewrite split_at_before, trim_space_trim. reflexivity. Qed.

(* the model's directive set is the independently defined one *)
Theorem cache_directives_eq (cc : bytes) : cache_directives cc = directive_names cc.
Proof.
  unfold cache_directives, directive_names. rewrite split_comma_members. cbn [rev app].
  pose proof (members_nonempty cc) as Hne. destruct (members cc) as [|m ms]; [contradiction|].
  cbn [hd tl]. apply map_ext. exact directive_name_eq.
Qed.

Lemma has_directive_iff (ds : list bytes) (d : string) :
  has_directive ds d = true <-> In (s2b d) ds.
Proof.
  unfold has_directive. rewrite existsb_exists. split.
  - intros (x & Hin & E). apply bytes_eqb_eq in E. subst x. exact Hin.
  - intros Hin. exists (s2b d). split; [exact Hin|apply bytes_eqb_refl].
Qed.
Lemma has_directive_false_iff (ds : list bytes) (d : string) :
  has_directive ds d = false <-> ~ In (s2b d) ds.
Proof. rewrite <- has_directive_iff. destruct (has_directive ds d); split; congruence. Qed.

Lemma cacheable_status_iff (s : Z) : cacheable_status s = true <-> In s default_cacheable.
Proof.
  unfold cacheable_status, default_cacheable. rewrite existsb_exists. split.
  - intros (x & Hin & E). apply Z.eqb_eq in E. subst x. exact Hin.
  - intros Hin. exists s. split; [exact Hin|apply Z.eqb_refl].
Qed.

(* ---- banned header names ------------------------------------------------------------ *)
Lemma uncached_lists_equal : uncached_headers = uncached_names.
Proof. reflexivity. Qed.
Lemma stateful_lists_equal : stateful_request_headers = stateful_request_names.
Proof. reflexivity. Qed.

Lemma existsb_eqb_in (x : bytes) (l : list bytes) : existsb (bytes_eqb x) l = true <-> In x l.
Proof.
  rewrite existsb_exists. split.
  - intros (y & Hin & E). apply bytes_eqb_eq in E. subst y. exact Hin.
  - intros Hin. exists x. split; [exact Hin|apply bytes_eqb_refl].
Qed.

(* membership, exactly: the 19 response names / the 5 request names *)
Theorem uncached_exact (n : bytes) :
  is_uncached_header n = true <->
  In (lower n)
     (map s2b ["connection"; "keep-alive"; "proxy-connection"; "trailer"; "transfer-encoding";
               "upgrade"; "authentication-control"; "authentication-info"; "clear-site-data";
               "optional-www-authenticate"; "proxy-authenticate"; "proxy-authentication-info";
               "public-key-pins"; "sec-websocket-accept"; "set-cookie"; "set-cookie2";
               "setprofile"; "strict-transport-security"; "www-authenticate"]%string).
Proof. unfold is_uncached_header. apply existsb_eqb_in. Qed.

Theorem stateful_request_exact (n : bytes) :
  is_stateful_request_header n = true <->
  In (lower n)
     (map s2b ["authorization"; "cookie"; "cookie2"; "proxy-authorization";
               "sec-websocket-key"]%string).
Proof. unfold is_stateful_request_header. apply existsb_eqb_in. Qed.

(* any re-casing of a name gets the same answer *)
Theorem uncached_case_insensitive (n n' : bytes) :
  lower n = lower n' -> is_uncached_header n = is_uncached_header n'.
Proof. unfold is_uncached_header. intros ->. reflexivity. Qed.
Theorem stateful_request_case_insensitive (n n' : bytes) :
  lower n = lower n' -> is_stateful_request_header n = is_stateful_request_header n'.
Proof. unfold is_stateful_request_header. intros ->. reflexivity. Qed.

Lemma lower_byte_idem (b : N) : lower_byte (lower_byte b) = lower_byte b.
Proof.
  unfold lower_byte. destruct ((65 <=? b) && (b <=? 90)) eqn:E; [|rewrite E; reflexivity].
  replace ((65 <=? b + 32) && (b + 32 <=? 90)) with false by lia. reflexivity.
Qed.
Lemma lower_idem (s : bytes) : lower (lower s) = lower s.
Proof. unfold lower. rewrite map_map. apply map_ext. exact lower_byte_idem. Qed.

Lemma banned_in_iff (names : list bytes) (n : bytes) :
  Forall (fun m => lower m = m) names ->
  (banned_in names n <-> In (lower n) names).
Proof.
  intros Hl. rewrite Forall_forall in Hl. unfold banned_in, names_match. split.
  - intros (m & Hin & E). rewrite E, (Hl m Hin). exact Hin.
  - intros Hin. exists (lower n). split; [exact Hin|]. symmetry. apply lower_idem.
Qed.

Lemma uncached_names_lower : Forall (fun m => lower m = m) uncached_names.
Proof. repeat constructor. Qed.
Lemma stateful_request_names_lower : Forall (fun m => lower m = m) stateful_request_names.
Proof. repeat constructor. Qed.

Theorem is_uncached_iff (n : bytes) : is_uncached_header n = true <-> banned_in uncached_names n.
Proof.
  rewrite (banned_in_iff _ _ uncached_names_lower). unfold is_uncached_header.
  rewrite uncached_lists_equal. apply existsb_eqb_in.
Qed.
Theorem is_stateful_request_iff (n : bytes) :
  is_stateful_request_header n = true <-> banned_in stateful_request_names n.
Proof.
  rewrite (banned_in_iff _ _ stateful_request_names_lower). unfold is_stateful_request_header.
  rewrite stateful_lists_equal. apply existsb_eqb_in.
Qed.

Lemma no_banned_iff (f : bytes -> bool) (names : list bytes) (h : headers) :
  (forall n, f n = true <-> banned_in names n) ->
  (existsb (fun nv : bytes * list bytes => f (fst nv)) h = false <-> NoBanned names h).
Proof.
  intros Hf. unfold NoBanned. split.
  - intros H nv Hin Hb. apply Hf in Hb.
    assert (Ht : existsb (fun nv0 : bytes * list bytes => f (fst nv0)) h = true)
      by (apply existsb_exists; exists nv; split; assumption).
    congruence.
  - intros H. destruct (existsb _ h) eqn:E; [|reflexivity]. exfalso.
    apply existsb_exists in E. destruct E as (nv & Hin & Hb). apply (H nv Hin). apply Hf. exact Hb.
Qed.

Theorem verify_headers_iff (e : exchange) :
  verify_headers e = true <->
  NoBanned stateful_request_names (e_reqh e) /\ NoBanned uncached_names (e_resph e).
Proof.
  unfold verify_headers. rewrite andb_true_iff, !negb_true_iff.
  rewrite (no_banned_iff _ _ _ is_stateful_request_iff), (no_banned_iff _ _ _ is_uncached_iff).
  reflexivity.
Qed.

(* ---- URL decisions -------------------------------------------------------------------- *)
Definition url_decided (u : bytes) : Prop := url_parse u <> UUnknown.

Lemma same_origin_decided (a b : bytes) :
  url_decided a -> url_decided b ->
  same_origin a b <> Some None /\ (same_origin a b = Some (Some true) <-> SameOrigin a b).
Proof.
  unfold url_decided, same_origin, SameOrigin. intros Ha Hb.
  destruct (url_parse a) as [|s1 h1 f1 u1|] eqn:Ea; [| |congruence];
    (destruct (url_parse b) as [|s2 h2 f2 u2|] eqn:Eb; [| |congruence]).
  - split; [discriminate|]. split; [discriminate|]. intros (? & ? & ? & ? & ? & ? & E & _). discriminate.
  - split; [discriminate|]. split; [discriminate|]. intros (? & ? & ? & ? & ? & ? & E & _). discriminate.
  - split; [discriminate|]. split; [discriminate|]. intros (? & ? & ? & ? & ? & ? & _ & E). discriminate.
  - split; [discriminate|]. split.
    + intros H. injection H as H. apply andb_true_iff in H. destruct H as [H1 H2].
      apply bytes_eqb_eq in H1, H2. subst s2 h2. exists s1, h1, f1, u1, f2, u2. split; reflexivity.
    + intros (sch & host & fa & ua & fb & ub & E1 & E2). injection E1 as -> -> _ _.
      injection E2 as -> -> _ _. rewrite !bytes_eqb_refl. reflexivity.
Qed.

Section Policy.
  Variable H256 : bytes -> bytes.
  Variable x509_key : bytes -> option (option N).
  Variable sig_ok : N -> bytes -> bytes -> bool.
  Variable status_known : Z -> bool.
  Variable fetch : bytes -> R bytes.

  Notation vsig := (verify_signature H256 x509_key sig_ok fetch).
  Notation vsigs := (verify_sigs H256 x509_key sig_ok status_known fetch).
  Notation vfy := (verify H256 x509_key sig_ok status_known fetch).
  Notation Accepts := (Accepts H256 x509_key sig_ok status_known fetch).
  Notation StorableShared := (StorableShared status_known).
  Notation post_ok := (post_ok status_known).

  (* ---- Exchange.IsCacheable = RFC 7234 section 3 for a shared cache ------------------ *)
  Theorem is_cacheable_iff (e : exchange) :
    is_cacheable status_known e = true <-> StorableShared e.
  Proof.
    unfold is_cacheable, SxgPolicy.StorableShared, has_dir. rewrite cache_directives_eq.
    set (ds := directive_names (hdr_value_ci (e_resph e) (s2b "Cache-Control"))).
    destruct (status_known (e_status e)); cbn [negb]; [|split; [discriminate|intros [H _]; discriminate]].
    destruct (has_directive ds "no-store") eqn:E1.
    { apply has_directive_iff in E1. split; [discriminate|]. intros (_ & H & _). contradiction. }
    apply has_directive_false_iff in E1.
    destruct (has_directive ds "private") eqn:E2.
    { apply has_directive_iff in E2. split; [discriminate|]. intros (_ & _ & H & _). contradiction. }
    apply has_directive_false_iff in E2.
    destruct (hdr_value_ci (e_resph e) (s2b "Expires")) as [|c0 ex] eqn:E3; cbn [negb].
    2:{ split; [|reflexivity]. intros _. repeat split; try assumption. left. discriminate. }
    destruct (has_directive ds "max-age") eqn:E4.
    { apply has_directive_iff in E4. split; [|reflexivity]. intros _. repeat split; try assumption. tauto. }
    apply has_directive_false_iff in E4.
    destruct (has_directive ds "s-maxage") eqn:E5.
    { apply has_directive_iff in E5. split; [|reflexivity]. intros _. repeat split; try assumption. tauto. }
    apply has_directive_false_iff in E5.
    destruct (cacheable_status (e_status e)) eqn:E6.
    { apply cacheable_status_iff in E6. split; [|reflexivity]. intros _. repeat split; try assumption. tauto. }
    assert (E6' : ~ In (e_status e) default_cacheable)
      by (rewrite <- cacheable_status_iff; congruence).
    rewrite has_directive_iff. split.
    - intros H. repeat split; try assumption. tauto.
    - intros (_ & _ & _ & [H|[H|[H|[H|H]]]]); try contradiction; try exact H; exfalso; apply H; reflexivity.
  Qed.

  (* ---- the checks of Verify after verifySignature ------------------------------------- *)
  Definition wf_req (e : exchange) : Prop := has_request (e_ver e) = false -> e_reqh e = [].

  Lemma post_ok_iff (e : exchange) :
    wf_req e ->
    (post_ok e = true <->
     RequestOk e /\ (has_request (e_ver e) = false -> StorableShared e) /\
     NoBanned uncached_names (e_resph e)).
  Proof.
    intros Hwf. unfold SxgVerifySound.post_ok, method_ok, RequestOk.
    rewrite !andb_true_iff, verify_headers_iff, <- is_cacheable_iff.
    destruct (has_request (e_ver e)) eqn:Er; cbn [negb orb].
    - rewrite orb_true_iff, !bytes_eqb_eq. split.
      + intros ((Hm & _) & Hq & Hp). repeat split; try assumption. discriminate.
      + intros (Hq & _ & Hp). destruct (Hq eq_refl) as [Hm Hq']. repeat split; assumption.
    - split.
      + intros ((_ & Hc) & Hq & Hp). repeat split; try assumption; try discriminate. intros _. exact Hc.
      + intros (_ & Hc & Hp). repeat split; try assumption; [exact (Hc eq_refl)|].
        rewrite (Hwf Er). intros nv [].
  Qed.

  (* one signature, decided URLs: the model's step is the policy *)
  Definition accept1 (e : exchange) (tsec tnsec : Z) (s : signature) : option bytes :=
    match same_origin (s_validity s) (e_uri e) with
    | Some (Some true) =>
        match vsig e tsec tnsec s with
        | Some p => if post_ok e then Some p else None
        | None => None
        end
    | _ => None
    end.

  Theorem accept1_iff (e : exchange) (tsec tnsec : Z) (s : signature) (p : bytes) :
    wf_req e -> time_ok tsec tnsec -> i64 (s_date s) -> i64 (s_expires s) ->
    url_decided (s_validity s) -> url_decided (e_uri e) ->
    (accept1 e tsec tnsec s = Some p <-> Accepts e tsec tnsec s p).
  Proof.
    intros Hwf Ht Hd Hx Hu1 Hu2. unfold accept1, SxgPolicy.Accepts, ResponseOk.
    destruct (same_origin_decided _ _ Hu1 Hu2) as [_ Hso]. rewrite <- Hso. clear Hso.
    rewrite <- (verify_timestamps_spec _ _ _ _ Hd Hx Ht).
    pose proof (verify_signature_iff H256 x509_key sig_ok fetch e tsec tnsec s) as Hv.
    pose proof (post_ok_iff e Hwf) as Hpo.
    destruct (same_origin (s_validity s) (e_uri e)) as [[[|]|]|];
      try (split; [discriminate|intros (H & _); discriminate]).
    destruct (vsig e tsec tnsec s) as [q|] eqn:Ev.
    - destruct (proj1 (Hv q) eq_refl) as (K & T & C & P).
      destruct (post_ok e) eqn:Ep.
      + destruct (proj1 Hpo eq_refl) as (Rq & St & Nb). split.
        * intros H. injection H as <-.
          refine (conj eq_refl (conj K (conj T (conj P (conj Rq (conj _ Nb)))))).
          intros Hb. split; [exact (C Hb)|exact (St Hb)].
        * intros (_ & K' & T' & P' & _).
          assert (Hq : Some q = Some p) by (apply Hv; exact (conj K' (conj T' (conj C P')))).
          exact Hq.
      + split; [discriminate|]. intros (_ & _ & _ & _ & Rq & Rs & Nb). exfalso.
        assert (Hf : false = true); [|discriminate]. apply Hpo. refine (conj Rq (conj _ Nb)).
        intros Hb. apply (Rs Hb).
    - split; [discriminate|]. intros (_ & K & T & P & _ & Rs & _). exfalso.
      assert (Hq : None = Some p); [|discriminate].
      apply Hv. refine (conj K (conj T (conj _ P))). intros Hb. apply (Rs Hb).
  Qed.

  (* the loop, when every same-origin question is decided and nothing is tainted *)
  Fixpoint first_accept (e : exchange) (tsec tnsec : Z) (sigs : list pident) : option bytes :=
    match sigs with
    | [] => None
    | pi :: rest =>
        match extract_signature pi with
        | Some s =>
            match accept1 e tsec tnsec s with
            | Some p => Some p
            | None => first_accept e tsec tnsec rest
            end
        | None => first_accept e tsec tnsec rest
        end
    end.

  Lemma verify_sigs_first (e : exchange) (tsec tnsec : Z) :
    forall sigs,
      (forall pi s, In pi sigs -> extract_signature pi = Some s ->
                    same_origin (s_validity s) (e_uri e) <> Some None) ->
      vsigs e tsec tnsec sigs false =
      match first_accept e tsec tnsec sigs with Some p => Valid p | None => Invalid end.
  Proof.
    induction sigs as [|pi rest IH]; intros Hdec; [reflexivity|].
    rewrite verify_sigs_cons. cbn [first_accept].
    assert (IH' := IH (fun pj sj Hin => Hdec pj sj (or_intror Hin))). clear IH.
    destruct (extract_signature pi) as [s|] eqn:Ex; [|exact IH'].
    specialize (Hdec pi s (or_introl eq_refl) Ex). unfold accept1.
    destruct (same_origin (s_validity s) (e_uri e)) as [[[|]|]|]; try exact IH'; [|contradiction Hdec; reflexivity].
    cbn [orb]. destruct (vsig e tsec tnsec s) as [q|]; [|exact IH'].
    destruct (post_ok e); [reflexivity|exact IH'].
  Qed.

  Lemma first_accept_some (e : exchange) (tsec tnsec : Z) (p : bytes) :
    forall sigs,
      first_accept e tsec tnsec sigs = Some p <->
      exists pre pi post s,
        sigs = pre ++ pi :: post /\ extract_signature pi = Some s /\
        accept1 e tsec tnsec s = Some p /\
        (forall pj sj, In pj pre -> extract_signature pj = Some sj -> accept1 e tsec tnsec sj = None).
  Proof.
    induction sigs as [|pi rest IH]; cbn [first_accept].
    - split; [discriminate|]. intros (pre & pj & post & s & E & _). destruct pre; discriminate.
    - split.
      + intros H. destruct (extract_signature pi) as [s|] eqn:Ex.
        * destruct (accept1 e tsec tnsec s) as [q|] eqn:Ea.
          -- injection H as ->. exists [], pi, rest, s. repeat split; try assumption. intros pj sj [].
          -- apply IH in H. destruct H as (pre & pj & post & s' & E & Ex' & Ea' & Hpre).
             exists (pi :: pre), pj, post, s'. subst rest. repeat split; try assumption.
             intros pk sk [<-|Hin] Hk; [congruence|]. eapply Hpre; eassumption.
        * apply IH in H. destruct H as (pre & pj & post & s' & E & Ex' & Ea' & Hpre).
          exists (pi :: pre), pj, post, s'. subst rest. repeat split; try assumption.
          intros pk sk [<-|Hin] Hk; [congruence|]. eapply Hpre; eassumption.
      + intros (pre & pj & post & s & E & Ex & Ea & Hpre). destruct pre as [|p0 pre].
        * cbn [app] in E. injection E as <- <-. rewrite Ex, Ea. reflexivity.
        * cbn [app] in E. injection E as <- ->.
          assert (Hrest : first_accept e tsec tnsec (pre ++ pj :: post) = Some p).
          { apply IH. exists pre, pj, post, s. repeat split; try assumption.
            intros pk sk Hin Hk. apply (Hpre pk sk (or_intror Hin) Hk). }
          destruct (extract_signature pi) as [s0|] eqn:Ex0; [|exact Hrest].
          rewrite (Hpre pi s0 (or_introl eq_refl) Ex0). exact Hrest.
  Qed.

  Lemma first_accept_none (e : exchange) (tsec tnsec : Z) :
    forall sigs,
      first_accept e tsec tnsec sigs = None <->
      (forall pi s, In pi sigs -> extract_signature pi = Some s -> accept1 e tsec tnsec s = None).
  Proof.
    induction sigs as [|pi rest IH]; cbn [first_accept].
    - split; [intros _ pi s []|reflexivity].
    - split.
      + intros H pj sj [<-|Hin] Hj.
        * rewrite Hj in H. destruct (accept1 e tsec tnsec sj); [discriminate|reflexivity].
        * destruct (extract_signature pi) as [s|].
          -- destruct (accept1 e tsec tnsec s); [discriminate|]. eapply IH; eassumption.
          -- eapply IH; eassumption.
      + intros H. assert (Hr : first_accept e tsec tnsec rest = None)
          by (apply IH; intros pj sj Hin; apply H; right; exact Hin).
        destruct (extract_signature pi) as [s|] eqn:Ex; [|exact Hr].
        rewrite (H pi s (or_introl eq_refl) Ex). exact Hr.
  Qed.

  (* b3 signs and checks nothing of the (in-memory) request headers ... *)
  Definition set_reqh (e : exchange) (h : headers) : exchange :=
    {| e_ver := e_ver e; e_uri := e_uri e; e_method := e_method e; e_reqh := h;
       e_status := e_status e; e_resph := e_resph e; e_sig := e_sig e; e_payload := e_payload e;
       e_taint := e_taint e |}.

  Lemma signed_message_b3_reqh (e : exchange) (h : headers) cs v d x :
    e_ver e = V1b3 -> signed_message (set_reqh e h) cs v d x = signed_message e cs v d x.
  Proof.
    destruct e as [ver uri meth reqh st resph sg pl tn]. cbn [e_ver]. intros ->. reflexivity.
  Qed.

  Lemma accepts_b3_reqh (e : exchange) (h : headers) tsec tnsec s p :
    e_ver e = V1b3 -> Accepts e tsec tnsec s p -> Accepts (set_reqh e h) tsec tnsec s p.
  Proof.
    intros Hv (SO & (chain & main & rest & kid & m & Hf & Hc & Hk & Hh & Hm & Hs) & W & P & Rq & Rs & Nb).
    split; [exact SO|]. split.
    - exists chain, main, rest, kid, m. rewrite signed_message_b3_reqh by exact Hv.
      repeat split; assumption.
    - split; [exact W|]. split; [exact P|]. split; [|split; [exact Rs|exact Nb]].
      unfold RequestOk, set_reqh. cbn [e_ver]. rewrite Hv. discriminate.
  Qed.

  (* ---- C09: verify_iff ------------------------------------------------------------------ *)
  (* the standing assumptions: untainted exchange, a b3 exchange has no request
     headers, realistic clock, and the URL model decides every URL involved *)
  Definition decided (e : exchange) : Prop :=
    url_decided (e_uri e) /\
    forall sigs pi s, parse_parameterised_list (e_sig e) = Ok sigs -> In pi sigs ->
                      extract_signature pi = Some s -> url_decided (s_validity s).

  Lemma verify_first (e : exchange) (tsec tnsec : Z) (sigs : list pident) :
    e_taint e = false -> decided e -> parse_parameterised_list (e_sig e) = Ok sigs ->
    vfy e tsec tnsec =
    match first_accept e tsec tnsec sigs with Some p => Valid p | None => Invalid end.
  Proof.
    intros Htaint [Hu Hdec] Hp. unfold verify. rewrite Hp, Htaint. apply verify_sigs_first.
    intros pi s Hin Hex. apply same_origin_decided; [eapply Hdec; eassumption|exact Hu].
  Qed.

  Theorem verify_iff (e : exchange) (tsec tnsec : Z) (p : bytes) :
    e_taint e = false -> wf_req e -> time_ok tsec tnsec -> decided e ->
    (vfy e tsec tnsec = Valid p <->
     exists sigs pre pi post s,
       parse_parameterised_list (e_sig e) = Ok sigs /\ sigs = pre ++ pi :: post /\
       extract_signature pi = Some s /\ Accepts e tsec tnsec s p /\
       (* it is the first acceptable signature of the list *)
       (forall pj sj q, In pj pre -> extract_signature pj = Some sj -> ~ Accepts e tsec tnsec sj q)).
  Proof.
    intros Htaint Hwf Ht Hdec.
    assert (A1 : forall sigs pi s q, parse_parameterised_list (e_sig e) = Ok sigs -> In pi sigs ->
                   extract_signature pi = Some s ->
                   (accept1 e tsec tnsec s = Some q <-> Accepts e tsec tnsec s q)).
    { intros sigs pi s q Hp Hin Hex. destruct (extract_signature_params _ _ Hex) as (_ & Pd & Px).
      apply accept1_iff; try assumption.
      - exact (parsed_int_range _ _ _ _ _ Hp Hin Pd).
      - exact (parsed_int_range _ _ _ _ _ Hp Hin Px).
      - destruct Hdec as [_ Hd]. eapply Hd; eassumption.
      - destruct Hdec as [Hu _]. exact Hu. }
    split.
    - intros H. destruct (parse_parameterised_list (e_sig e)) as [sigs| | |] eqn:Hp;
        try (unfold verify in H; rewrite Hp in H; discriminate).
      rewrite (verify_first e tsec tnsec sigs Htaint Hdec Hp) in H.
      destruct (first_accept e tsec tnsec sigs) as [q|] eqn:Ef; [|discriminate]. injection H as ->.
      apply first_accept_some in Ef. destruct Ef as (pre & pi & post & s & E & Hex & Ha & Hpre).
      exists sigs, pre, pi, post, s. split; [reflexivity|]. split; [exact E|]. split; [exact Hex|]. split.
      + apply (A1 sigs pi s p eq_refl); [subst sigs; apply in_or_app; right; left; reflexivity|exact Hex|exact Ha].
      + intros pj sj q Hin Hj Hacc.
        apply (A1 sigs pj sj q eq_refl) in Hacc; [|subst sigs; apply in_or_app; left; exact Hin|exact Hj].
        rewrite (Hpre pj sj Hin Hj) in Hacc. discriminate.
    - intros (sigs & pre & pi & post & s & Hp & E & Hex & Ha & Hpre).
      rewrite (verify_first e tsec tnsec sigs Htaint Hdec Hp).
      assert (Ef : first_accept e tsec tnsec sigs = Some p); [|rewrite Ef; reflexivity].
      apply first_accept_some. exists pre, pi, post, s. repeat split; try assumption.
      + apply (A1 sigs pi s p Hp); [subst sigs; apply in_or_app; right; left; reflexivity|exact Hex|exact Ha].
      + intros pj sj Hin Hj. destruct (accept1 e tsec tnsec sj) as [q|] eqn:Eq; [|reflexivity].
        exfalso. apply (Hpre pj sj q Hin Hj).
        apply (A1 sigs pj sj q Hp); [subst sigs; apply in_or_app; left; exact Hin|exact Hj|exact Eq].
  Qed.

  Theorem verify_invalid_iff (e : exchange) (tsec tnsec : Z) :
    e_taint e = false -> wf_req e -> time_ok tsec tnsec -> decided e ->
    (vfy e tsec tnsec = Invalid <->
     forall sigs pi s q, parse_parameterised_list (e_sig e) = Ok sigs -> In pi sigs ->
                         extract_signature pi = Some s -> ~ Accepts e tsec tnsec s q).
  Proof.
    intros Htaint Hwf Ht Hdec.
    destruct (parse_parameterised_list (e_sig e)) as [sigs| | |] eqn:Hp;
      try (unfold verify; rewrite Hp; split; [intros _ ? ? ? ? H; discriminate|reflexivity]).
    rewrite (verify_first e tsec tnsec sigs Htaint Hdec Hp).
    assert (A1 : forall pi s q, In pi sigs -> extract_signature pi = Some s ->
                   (accept1 e tsec tnsec s = Some q <-> Accepts e tsec tnsec s q)).
    { intros pi s q Hin Hex. destruct (extract_signature_params _ _ Hex) as (_ & Pd & Px).
      apply accept1_iff; try assumption.
      - exact (parsed_int_range _ _ _ _ _ Hp Hin Pd).
      - exact (parsed_int_range _ _ _ _ _ Hp Hin Px).
      - destruct Hdec as [_ Hd]. eapply Hd; eassumption.
      - destruct Hdec as [Hu _]. exact Hu. }
    destruct (first_accept e tsec tnsec sigs) as [q|] eqn:Ef.
    - split; [discriminate|]. intros H. exfalso.
      apply first_accept_some in Ef. destruct Ef as (pre & pi & post & s & E & Hex & Ha & _).
      assert (Hin : In pi sigs) by (subst sigs; apply in_or_app; right; left; reflexivity).
      apply (H sigs pi s q eq_refl Hin Hex). apply (A1 pi s q Hin Hex). exact Ha.
    - split; [|reflexivity]. intros _ sigs' pi s q E Hin Hex Hacc. injection E as <-.
      apply (A1 pi s q Hin Hex) in Hacc.
      rewrite (proj1 (first_accept_none e tsec tnsec sigs) Ef pi s Hin Hex) in Hacc. discriminate.
  Qed.

  (* in the decided cases Verify never answers Undecided *)
  Theorem verify_decided (e : exchange) (tsec tnsec : Z) :
    e_taint e = false -> decided e -> vfy e tsec tnsec <> Undecided.
  Proof.
    intros Htaint Hdec.
    destruct (parse_parameterised_list (e_sig e)) as [sigs| | |] eqn:Hp;
      try (unfold verify; rewrite Hp; discriminate).
    rewrite (verify_first e tsec tnsec sigs Htaint Hdec Hp).
    destruct (first_accept e tsec tnsec sigs); discriminate.
  Qed.
End Policy.
