(* Proofs/BundleReadBase.v - small facts used by the bundle-reader proofs:
   result-monad inversion, "every successful decode call eats a byte",
   section-table arithmetic (sum_lens, sections_fit, find_section) and
   makeRelativeToStream. *)
From Coq Require Import Lia ZifyN ZifyNat ZifyBool.
From WP Require Import Base.Prelude Model.Cbor Model.Http Model.Bundle Spec.Cbor Spec.BundleRead.
From WP Require Import Proofs.BaseLemmas Proofs.CborHead Proofs.CborDecode.
Ltac Zify.zify_post_hook ::= Z.div_mod_to_equations.
Open Scope N_scope.

(* ---- the result monad ------------------------------------------------------- *)
Lemma bind_ok {A B} (x : R A) (f : A -> R B) (b : B) :
  bind x f = Ok b -> exists a, x = Ok a /\ f a = Ok b.
Proof. destruct x as [a| | |]; cbn [bind]; intros H; try discriminate. eauto. Qed.

Lemma ok_or_err_bind {A B} (x : R A) (f : A -> R B) :
  ok_or_err x -> (forall a, x = Ok a -> ok_or_err (f a)) -> ok_or_err (bind x f).
Proof.
  destruct x as [a| | |]; cbn [bind ok_or_err]; intros H K; try contradiction; try exact I.
  apply K. reflexivity.
Qed.

Lemma ok_or_err_not {A} (r : R A) : ok_or_err r <-> (r <> Panic /\ r <> Fuel).
Proof.
  destruct r as [a| | |]; cbn [ok_or_err]; split; intros H;
    try exact I; try (split; discriminate); try contradiction;
    destruct H as [H1 H2]; congruence.
Qed.

Lemma ok_or_err_of_opt {A} (o : option A) : ok_or_err (of_opt o).
Proof. destruct o; exact I. Qed.

Lemma major_const_pos : major_const TPos. Proof. split; [reflexivity|cbv; reflexivity]. Qed.
Lemma major_const_arr : major_const TArray. Proof. split; [reflexivity|cbv; reflexivity]. Qed.
Lemma major_const_map : major_const MMap. Proof. split; [reflexivity|cbv; reflexivity]. Qed.
Lemma major_const_bytes : major_const MBytes. Proof. split; [reflexivity|cbv; reflexivity]. Qed.
Lemma major_const_text : major_const MText. Proof. split; [reflexivity|cbv; reflexivity]. Qed.

(* ---- totality of the CBOR calls, one name each ------------------------------- *)
Lemma decode_uint_total bs : ok_or_err (decode_uint bs).
Proof. apply decode_of_type_total. Qed.
Lemma decode_array_header_total bs : ok_or_err (decode_array_header bs).
Proof. apply decode_of_type_total. Qed.
Lemma decode_map_header_total bs : ok_or_err (decode_map_header bs).
Proof. apply decode_of_type_total. Qed.
Lemma decode_bytes_total bs : ok_or_err (decode_bytes bs).
Proof. apply decode_bytes_of_type_total. Qed.

(* ---- consumption, as (length rest < length bs) in nat and in N ----------------- *)
Lemma decode_of_type_split (t n : N) (bs rest : bytes) :
  major_const t -> decode_of_type t bs = Ok (n, rest) ->
  exists h, bs = h ++ rest /\ 1 <= lenN h <= 9.
Proof. apply decode_consumes. Qed.

Lemma decode_uint_split n bs rest : decode_uint bs = Ok (n, rest) ->
  exists h, bs = h ++ rest /\ 1 <= lenN h <= 9.
Proof. apply decode_consumes, major_const_pos. Qed.
Lemma decode_array_header_split n bs rest : decode_array_header bs = Ok (n, rest) ->
  exists h, bs = h ++ rest /\ 1 <= lenN h <= 9.
Proof. apply decode_consumes, major_const_arr. Qed.
Lemma decode_map_header_split n bs rest : decode_map_header bs = Ok (n, rest) ->
  exists h, bs = h ++ rest /\ 1 <= lenN h <= 9.
Proof. apply decode_consumes, major_const_map. Qed.

Lemma decode_bytes_split bs s rest : decode_bytes bs = Ok (s, rest) ->
  exists h, bs = h ++ s ++ rest /\ 1 <= lenN h <= 9.
Proof.
  intros H. destruct (decode_bytes_sound bs s rest H) as [h [w [E [L S]]]].
  exists h. split; [exact E|]. pose proof (shead_width _ _ _ _ _ S) as W. lia.
Qed.
Lemma decode_text_split bs s rest : decode_text bs = Ok (s, rest) ->
  exists h, bs = h ++ s ++ rest /\ 1 <= lenN h <= 9.
Proof.
  intros H. destruct (decode_text_sound bs s rest H) as [h [w [E [L [S _]]]]].
  exists h. split; [exact E|]. pose proof (shead_width _ _ _ _ _ S) as W. lia.
Qed.

Lemma decode_uint_shrinks n bs rest : decode_uint bs = Ok (n, rest) ->
  (List.length rest < List.length bs)%nat.
Proof.
  intros H. destruct (decode_uint_split _ _ _ H) as [h [E L]]. subst bs.
  rewrite app_length. rewrite lenN_length in L. lia.
Qed.
Lemma decode_array_header_shrinks n bs rest : decode_array_header bs = Ok (n, rest) ->
  (List.length rest < List.length bs)%nat.
Proof.
  intros H. destruct (decode_array_header_split _ _ _ H) as [h [E L]]. subst bs.
  rewrite app_length. rewrite lenN_length in L. lia.
Qed.
Lemma decode_map_header_shrinks n bs rest : decode_map_header bs = Ok (n, rest) ->
  (List.length rest < List.length bs)%nat.
Proof.
  intros H. destruct (decode_map_header_split _ _ _ H) as [h [E L]]. subst bs.
  rewrite app_length. rewrite lenN_length in L. lia.
Qed.
Lemma decode_bytes_shrinks bs s rest : decode_bytes bs = Ok (s, rest) ->
  (List.length rest < List.length bs)%nat.
Proof.
  intros H. destruct (decode_bytes_split _ _ _ H) as [h [E L]]. subst bs.
  rewrite !app_length. rewrite lenN_length in L. lia.
Qed.
Lemma decode_text_shrinks bs s rest : decode_text bs = Ok (s, rest) ->
  (List.length rest < List.length bs)%nat.
Proof.
  intros H. destruct (decode_text_split _ _ _ H) as [h [E L]]. subst bs.
  rewrite !app_length. rewrite lenN_length in L. lia.
Qed.

(* ---- from the model's decode calls to the spec's head_at / bstr_at / tstr_at ---- *)
Lemma decode_uint_head_at n bs rest : decode_uint bs = Ok (n, rest) -> head_at 0 n bs rest.
Proof. intros H. apply decode_sound in H; [exact H|apply major_const_pos]. Qed.
Lemma decode_array_header_head_at n bs rest :
  decode_array_header bs = Ok (n, rest) -> head_at 4 n bs rest.
Proof. intros H. apply decode_sound in H; [exact H|apply major_const_arr]. Qed.
Lemma decode_map_header_head_at n bs rest :
  decode_map_header bs = Ok (n, rest) -> head_at 5 n bs rest.
Proof. intros H. apply decode_sound in H; [exact H|apply major_const_map]. Qed.
Lemma decode_bytes_bstr_at bs s rest : decode_bytes bs = Ok (s, rest) -> bstr_at bs s rest.
Proof.
  intros H. apply decode_bytes_of_type_iff in H; [|apply major_const_bytes].
  destruct H as [_ H]. exact H.
Qed.
Lemma decode_text_tstr_at bs s rest : decode_text bs = Ok (s, rest) -> tstr_at bs s rest.
Proof.
  intros H. apply decode_text_iff in H. destruct H as [_ [U H]]. split; assumption.
Qed.

(* ---- section table arithmetic ----------------------------------------------------- *)
Lemma sum_lens_app (a b : list (bytes * N)) : sum_lens (a ++ b) = sum_lens a + sum_lens b.
Proof.
  induction a as [|[n l] a IH]; cbn [app sum_lens]; [reflexivity|]. rewrite IH. lia.
Qed.

Lemma sum_lens_cons n l t : sum_lens ((n, l) :: t) = l + sum_lens t.
Proof. reflexivity. Qed.

Lemma sections_fit_cons n len t e total :
  sections_fit ((n, len) :: t) e total =
  if total - e <? len then false else sections_fit t (e + len) total.
Proof. reflexivity. Qed.

(* every section, known or not, ends inside the file: no wrap, plain N *)
Lemma sections_fit_spec (sos : list (bytes * N)) : forall e total,
  e <= total -> (sections_fit sos e total = true <-> e + sum_lens sos <= total).
Proof.
  induction sos as [|[n len] t IH]; intros e total He.
  - cbn [sections_fit sum_lens]. split; [lia|reflexivity].
  - rewrite sections_fit_cons, sum_lens_cons.
    destruct (N.ltb_spec (total - e) len) as [Hlt|Hge].
    + split; [discriminate|lia].
    + rewrite IH by lia. lia.
Qed.

Lemma section_span_cons n len t name :
  section_span ((n, len) :: t) name =
  if bytes_eqb n name then Some (0, len)
  else match section_span t name with Some (o, l) => Some (len + o, l) | None => None end.
Proof. reflexivity. Qed.

Lemma section_span_spec (sos : list (bytes * N)) (name : bytes) (off len : N) :
  section_span sos name = Some (off, len) <-> SectionSpan sos name off len.
Proof.
  revert off. induction sos as [|[n l] t IH]; intros off.
  - cbn [section_span]. split; [discriminate|].
    intros [b [a [E _]]]. destruct b; discriminate.
  - rewrite section_span_cons. destruct (bytes_eqb n name) eqn:En.
    + apply bytes_eqb_eq in En. subst n. split.
      * intros H. inversion H; subst. exists [], t. repeat split; auto.
      * intros [b [a [E [Hn Ho]]]]. destruct b as [|[n' l'] b].
        -- cbn [app] in E. inversion E; subst. reflexivity.
        -- cbn [app] in E. inversion E; subst. exfalso. apply Hn. cbn [map fst In]. auto.
    + apply bytes_eqb_neq in En. split.
      * destruct (section_span t name) as [[o' l']|] eqn:Es; [|discriminate].
        intros H. inversion H; subst.
        destruct (proj1 (IH o') eq_refl) as [b [a [E [Hn Ho]]]].
        exists ((n, l) :: b), a. subst t o'. repeat split; auto.
        cbn [map fst In]. intros [X|X]; [congruence|contradiction].
      * intros [b [a [E [Hn Ho]]]]. destruct b as [|[n' l'] b].
        -- cbn [app] in E. inversion E; subst. congruence.
        -- cbn [app] in E. inversion E; subst.
           assert (Hs : section_span (b ++ (name, len) :: a) name = Some (sum_lens b, len)).
           { apply IH. exists b, a. repeat split; auto.
             intros X. apply Hn. cbn [map fst In]. auto. }
           rewrite Hs. reflexivity.
Qed.

Lemma section_span_bound sos name off len :
  section_span sos name = Some (off, len) -> off + len <= sum_lens sos.
Proof.
  intros H. apply section_span_spec in H. destruct H as [b [a [E [_ Ho]]]].
  subst. rewrite sum_lens_app, sum_lens_cons. lia.
Qed.

(* FindSection's running uint64 offset; it cannot wrap when the table's total
   fits 64 bits *)
Fixpoint find_go (l : list (bytes * N)) (name : bytes) (off : N) : option (N * N) :=
  match l with
  | [] => None
  | (n, len) :: t => if bytes_eqb n name then Some (len, off) else find_go t name (w64 (off + len))
  end.
Lemma find_section_go sos name : find_section sos name = find_go sos name 0.
Proof.
  unfold find_section. generalize 0. induction sos as [|[n len] t IH]; intros off.
  - reflexivity.
  - cbn [find_go]. destruct (bytes_eqb n name); [reflexivity|]. apply IH.
Qed.

Lemma w64_small n : n < two64 -> w64 n = n.
Proof. intros H. unfold w64. apply N.mod_small. exact H. Qed.

Lemma find_go_spec (sos : list (bytes * N)) (name : bytes) : forall off,
  off + sum_lens sos < two64 ->
  find_go sos name off =
  match section_span sos name with Some (o, l) => Some (l, off + o) | None => None end.
Proof.
  induction sos as [|[n len] t IH]; intros off Hb.
  - reflexivity.
  - cbn [find_go]. rewrite section_span_cons. rewrite sum_lens_cons in Hb.
    destruct (bytes_eqb n name).
    + rewrite N.add_0_r. reflexivity.
    + rewrite w64_small by lia. rewrite IH by lia.
      destruct (section_span t name) as [[o l]|]; [|reflexivity].
      f_equal. f_equal. lia.
Qed.

Lemma find_section_spec sos name :
  sum_lens sos < two64 ->
  find_section sos name =
  match section_span sos name with Some (o, l) => Some (l, o) | None => None end.
Proof.
  intros H. rewrite find_section_go, find_go_spec by lia.
  destruct (section_span sos name) as [[o l]|]; reflexivity.
Qed.

(* ---- makeRelativeToStream --------------------------------------------------------- *)
Theorem make_relative_spec (rl ro o l o' l' : N) :
  make_relative rl ro o l = Ok (o', l') <-> (o + l <= rl /\ o' = w64 (ro + o) /\ l' = l).
Proof.
  unfold make_relative.
  destruct (N.ltb_spec rl l) as [H1|H1]; cbn [orb].
  - split; [discriminate|lia].
  - destruct (N.ltb_spec (rl - l) o) as [H2|H2].
    + split; [discriminate|lia].
    + split.
      * intros H. inversion H; subst. repeat split; lia.
      * intros [_ [E1 E2]]. subst. reflexivity.
Qed.

Theorem make_relative_err (rl ro o l : N) :
  rl < o + l -> make_relative rl ro o l = Err.
Proof.
  intros H. unfold make_relative.
  destruct (N.ltb_spec rl l) as [H1|H1]; cbn [orb]; [reflexivity|].
  destruct (N.ltb_spec (rl - l) o) as [H2|H2]; [reflexivity|lia].
Qed.

Theorem make_relative_total (rl ro o l : N) : ok_or_err (make_relative rl ro o l).
Proof. unfold make_relative. destruct (_ || _); exact I. Qed.

(* under the layout invariant the addition does not wrap and the result stays in
   the responses section *)
Theorem make_relative_in_section (total rl ro o l o' l' : N) :
  ro + rl <= total -> total < two64 ->
  make_relative rl ro o l = Ok (o', l') ->
  o' = ro + o /\ l' = l /\ ro <= o' /\ o' + l' <= ro + rl /\ o + l <= rl.
Proof.
  intros H1 H2 H. apply make_relative_spec in H. destruct H as [Hle [E1 E2]].
  subst. rewrite w64_small by lia. repeat split; lia.
Qed.
