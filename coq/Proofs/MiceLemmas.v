(* List / byte-string / base64 lemmas used by the MICE proofs (C14, C15). *)
From Coq Require Import Lia ZifyN ZifyNat ZifyBool.
From WP Require Import Base.Prelude Base.Base64 Model.Mice.
Open Scope N_scope.
Ltac Zify.zify_post_hook ::= Z.div_mod_to_equations.

(* ---- lenN / splitN ---------------------------------------------------- *)
Lemma lenN_length {A} (l : list A) : lenN l = N.of_nat (List.length l).
Proof.
  induction l as [|x t IH]; cbn [lenN List.length]; [reflexivity|].
  rewrite IH. lia.
Qed.

Lemma lenN_app {A} (a b : list A) : lenN (a ++ b) = lenN a + lenN b.
Proof. rewrite !lenN_length, app_length. lia. Qed.

Lemma lenN_nil_inv {A} (l : list A) : lenN l = 0 -> l = [].
Proof. destruct l as [|x t]; [reflexivity|]. cbn [lenN]. lia. Qed.

Lemma lenN_cons {A} (x : A) (l : list A) : lenN (x :: l) = N.succ (lenN l).
Proof. reflexivity. Qed.

Lemma splitN_0 {A} (l : list A) : splitN l 0 = Some ([], l).
Proof. destruct l; reflexivity. Qed.

Lemma splitN_app {A} (a b : list A) : splitN (a ++ b) (lenN a) = Some (a, b).
Proof.
  induction a as [|x a IH]; cbn [lenN app]; [apply splitN_0|].
  cbn [splitN]. destruct (N.eqb_spec (N.succ (lenN a)) 0) as [E|_]; [lia|].
  rewrite N.pred_succ, IH. reflexivity.
Qed.

Lemma splitN_app_eq {A} (a b : list A) n :
  n = lenN a -> splitN (a ++ b) n = Some (a, b).
Proof. intros ->. apply splitN_app. Qed.

Lemma splitN_Some {A} (l : list A) :
  forall n a b, splitN l n = Some (a, b) -> l = a ++ b /\ lenN a = n.
Proof.
  induction l as [|x t IH]; intros n a b E; cbn [splitN] in E;
    destruct (N.eqb_spec n 0) as [Hn|Hn].
  - inversion E; subst; auto.
  - discriminate.
  - inversion E; subst; auto.
  - destruct (splitN t (N.pred n)) as [[a' b']|] eqn:E'; [|discriminate].
    inversion E; subst. apply IH in E' as [E1 E2]. subst t.
    split; [reflexivity|]. cbn [lenN]. lia.
Qed.

Lemma splitN_None {A} (l : list A) : forall n, splitN l n = None -> lenN l < n.
Proof.
  induction l as [|x t IH]; intros n E; cbn [splitN] in E;
    destruct (N.eqb_spec n 0) as [Hn|Hn]; try discriminate.
  - cbn [lenN]. lia.
  - destruct (splitN t (N.pred n)) as [[a' b']|] eqn:E'; [discriminate|].
    apply IH in E'. cbn [lenN]. lia.
Qed.

Lemma splitN_short {A} (l : list A) n : lenN l < n -> splitN l n = None.
Proof.
  intros L. destruct (splitN l n) as [[a b]|] eqn:E; [|reflexivity].
  apply splitN_Some in E as [E1 E2]. subst l. rewrite lenN_app in L. lia.
Qed.

(* ---- bytes_eqb -------------------------------------------------------- *)
Lemma bytes_eqb_refl a : bytes_eqb a a = true.
Proof.
  induction a as [|x a IH]; cbn [bytes_eqb]; [reflexivity|].
  rewrite N.eqb_refl, IH. reflexivity.
Qed.

Lemma bytes_eqb_eq a : forall b, bytes_eqb a b = true -> a = b.
Proof.
  induction a as [|x a IH]; intros [|y b] E; cbn [bytes_eqb] in E;
    try discriminate; [reflexivity|].
  apply andb_true_iff in E as [E1 E2]. apply N.eqb_eq in E1. apply IH in E2.
  congruence.
Qed.

Lemma bytes_eq_dec (a b : bytes) : {a = b} + {a <> b}.
Proof. apply (list_eq_dec N.eq_dec). Qed.

(* ---- appending -------------------------------------------------------- *)
Lemma app_inj_len_tail {A} (a a' b b' : list A) :
  a ++ b = a' ++ b' -> List.length b = List.length b' -> a = a' /\ b = b'.
Proof.
  revert a'. induction a as [|x a IH]; intros [|y a'] E L; cbn [app] in E.
  - auto.
  - exfalso. subst b. cbn [List.length] in L. rewrite app_length in L. lia.
  - exfalso. subst b'. cbn [List.length] in L. rewrite app_length in L. lia.
  - inversion E as [[E1 E2]]. destruct (IH a' E2 L) as [-> ->]. auto.
Qed.

(* ---- Go slices -------------------------------------------------------- *)
Lemma slice_mid (a c b : bytes) lo hi :
  lo = lenN a -> hi = lenN a + lenN c -> slice (a ++ c ++ b) lo hi = Ok c.
Proof.
  intros -> ->. unfold slice.
  destruct (N.ltb_spec (lenN a + lenN c) (lenN a)) as [L|_]; [lia|].
  rewrite splitN_app.
  replace (lenN a + lenN c - lenN a) with (lenN c) by lia.
  rewrite splitN_app. reflexivity.
Qed.

Lemma slice_from_app (a c : bytes) lo :
  lo = lenN a -> slice_from (a ++ c) lo = Ok c.
Proof. intros ->. unfold slice_from. rewrite splitN_app. reflexivity. Qed.

(* ---- big-endian ------------------------------------------------------- *)
Lemma fold_unbe (l : bytes) : forall acc,
  fold_left (fun a b => a * 256 + b) l acc = acc * 256 ^ lenN l + unbe l.
Proof.
  unfold unbe.
  induction l as [|x l IH]; intros acc; cbn [fold_left lenN].
  - rewrite N.pow_0_r. lia.
  - rewrite (IH (acc * 256 + x)), (IH (0 * 256 + x)), N.pow_succ_r'. ring.
Qed.

Lemma unbe_cons x (l : bytes) : unbe (x :: l) = x * 256 ^ lenN l + unbe l.
Proof.
  unfold unbe at 1. cbn [fold_left]. rewrite fold_unbe. ring.
Qed.

Lemma be_lenN k n : lenN (be k n) = N.of_nat k.
Proof. induction k as [|k IH]; cbn [be lenN]; [reflexivity|]. rewrite IH. lia. Qed.

Lemma unbe_be k n : unbe (be k n) = n mod 256 ^ N.of_nat k.
Proof.
  induction k as [|k IH].
  - cbn [be]. unfold unbe. cbn [fold_left]. change (N.of_nat 0) with 0.
    rewrite N.pow_0_r, N.mod_1_r. reflexivity.
  - cbn [be]. rewrite unbe_cons, be_lenN, IH.
    replace (N.of_nat (S k)) with (N.succ (N.of_nat k)) by lia.
    rewrite N.pow_succ_r', (N.mul_comm 256).
    assert (P : 256 ^ N.of_nat k <> 0) by (apply N.pow_nonzero; lia).
    rewrite (N.mod_mul_r n _ 256 P) by lia. ring.
Qed.

Lemma be_length k n : List.length (be k n) = k.
Proof. induction k as [|k IH]; cbn [be List.length]; [reflexivity|]. rewrite IH. reflexivity. Qed.

Lemma be_wfb k n : wfb (be k n).
Proof.
  induction k as [|k IH]; cbn [be]; constructor; [|exact IH].
  apply N.mod_lt. lia.
Qed.

Lemma unbe_be8 n : n < two64 -> unbe (be 8 n) = n.
Proof.
  intros L. rewrite unbe_be. apply N.mod_small. exact L.
Qed.

(* ---- base64 ----------------------------------------------------------- *)
Lemma lt64_ind (P : N -> Prop) :
  (forall n, In n (map N.of_nat (seq 0 64)) -> P n) -> forall v, v < 64 -> P v.
Proof.
  intros HP v L. apply HP. apply in_map_iff. exists (N.to_nat v). split; [lia|].
  apply in_seq. lia.
Qed.

Lemma b64_val_char url v : v < 64 -> b64_val url (b64_char url v) = Some v.
Proof.
  revert v. apply lt64_ind.
  assert (C : forallb (fun v => match b64_val url (b64_char url v) with
                                | Some w => w =? v | None => false end)
                      (map N.of_nat (seq 0 64)) = true)
    by (destruct url; vm_compute; reflexivity).
  intros n I. rewrite forallb_forall in C. specialize (C n I).
  destruct (b64_val url (b64_char url n)) as [w|]; [|discriminate].
  apply N.eqb_eq in C. congruence.
Qed.

Lemma b64_val_pad url : b64_val url 61 = None.
Proof. destruct url; reflexivity. Qed.

(* one full quantum *)
Lemma b64_go_quantum pad url v1 v2 v3 v4 rest out :
  v1 < 64 -> v2 < 64 -> v3 < 64 -> v4 < 64 ->
  b64_go pad url (b64_char url v1 :: b64_char url v2 :: b64_char url v3
                  :: b64_char url v4 :: rest) [] out
  = b64_go pad url rest [] (out ++ emit [v1; v2; v3; v4]).
Proof.
  intros L1 L2 L3 L4. cbn [b64_go].
  rewrite (b64_val_char url v1 L1). cbn [app].
  rewrite (b64_val_char url v2 L2). cbn [app].
  rewrite (b64_val_char url v3 L3). cbn [app].
  rewrite (b64_val_char url v4 L4). reflexivity.
Qed.

Lemma list_ind3 {A} (P : list A -> Prop) :
  P [] -> (forall a, P [a]) -> (forall a b, P [a; b]) ->
  (forall a b c r, P r -> P (a :: b :: c :: r)) -> forall l, P l.
Proof.
  intros P0 P1 P2 P3.
  fix IH 1. intros [|a [|b [|c r]]].
  - exact P0.
  - exact (P1 a).
  - exact (P2 a b).
  - exact (P3 a b c r (IH r)).
Qed.

Lemma b64_go_encode pad url : forall bs out,
  wfb bs -> b64_go pad url (b64_encode pad url bs) [] out = Some (out ++ bs).
Proof.
  intros bs. induction bs as [|a|a b|a b c r IH] using list_ind3; intros out W.
  - cbn [b64_encode b64_go]. rewrite app_nil_r. reflexivity.
  - inversion W as [|? ? La W']; subst.
    cbn [b64_encode app].
    assert (L1 : a / 4 < 64) by lia. assert (L2 : a mod 4 * 16 < 64) by lia.
    assert (E : emit [a / 4; a mod 4 * 16] = [a]).
    { cbn [emit]. f_equal. lia. }
    destruct pad; cbn [b64_go app];
      rewrite (b64_val_char url _ L1); cbn [app];
      rewrite (b64_val_char url _ L2); cbn [app].
    + rewrite b64_val_pad. change (is_nl 61) with false. cbn [andb].
      change (61 =? 61) with true. cbn [skipnl]. change (is_nl 61) with false.
      cbn [andb]. rewrite E. reflexivity.
    + rewrite E. reflexivity.
  - inversion W as [|? ? La W']; subst. inversion W' as [|? ? Lb W'']; subst.
    cbn [b64_encode app].
    assert (L1 : a / 4 < 64) by lia.
    assert (L2 : a mod 4 * 16 + b / 16 < 64) by lia.
    assert (L3 : b mod 16 * 4 < 64) by lia.
    assert (E : emit [a / 4; a mod 4 * 16 + b / 16; b mod 16 * 4] = [a; b]).
    { cbn [emit]. f_equal; [lia|]. f_equal. lia. }
    destruct pad; cbn [b64_go app];
      rewrite (b64_val_char url _ L1); cbn [app];
      rewrite (b64_val_char url _ L2); cbn [app];
      rewrite (b64_val_char url _ L3); cbn [app].
    + rewrite b64_val_pad. change (is_nl 61) with false. cbn [andb].
      change (61 =? 61) with true. cbn [skipnl]. rewrite E. reflexivity.
    + rewrite E. reflexivity.
  - inversion W as [|? ? La W1]; subst. inversion W1 as [|? ? Lb W2]; subst.
    inversion W2 as [|? ? Lc W3]; subst.
    cbn [b64_encode].
    rewrite b64_go_quantum by lia.
    rewrite (IH _ W3).
    assert (E : emit [a / 4; a mod 4 * 16 + b / 16; b mod 16 * 4 + c / 64; c mod 64]
                = [a; b; c]).
    { cbn [emit]. f_equal; [lia|]. f_equal; [lia|]. f_equal. lia. }
    rewrite E, <- app_assoc. reflexivity.
Qed.

Lemma b64_roundtrip pad url bs :
  wfb bs -> b64_decode pad url (b64_encode pad url bs) = Some bs.
Proof. intros W. unfold b64_decode. rewrite (b64_go_encode pad url bs [] W). reflexivity. Qed.
