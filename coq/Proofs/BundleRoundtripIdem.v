(* Proofs/BundleRoundtripIdem.v - C03: normalising twice is normalising once, what was
   read is writable again, and the write/read cycle is a fixpoint from the second
   serialisation on (bundles in which every URL occurs once). *)
From Coq Require Import Lia ZifyN ZifyNat ZifyBool Permutation Sorted.
From WP Require Import Base.Prelude Base.Decimal Model.Cbor Model.Http Model.UrlRef Model.Variants
  Model.CertChain Model.Bundle.
From WP Require Import Spec.Cbor Spec.Bundle.
From WP Require Import Proofs.BaseLemmas Proofs.CborHead Proofs.CborMap Proofs.CborDecode Proofs.CborUtf8
  Proofs.Variants Proofs.BundleWriteBasics Proofs.BundleWriteSpec Proofs.BundleWriteSig
  Proofs.BundleWriteForm Proofs.BundleWriteWF Proofs.BundleWriteCases Proofs.BundleRoundtripRows
  Proofs.BundleRoundtripResp Proofs.BundleWriteOk Proofs.BundleRoundtripMeta Proofs.BundleRoundtripRead
  Proofs.BundleRoundtripSig Proofs.BundleRoundtrip Proofs.BundleRoundtripNorm.
Open Scope N_scope.

Lemma canon_go_ascii (s : bytes) : forall up,
  is_ascii_b s = true -> is_ascii_b (canon_go s up) = true.
Proof.
  unfold is_ascii_b. induction s as [|c r IH]; intros up H; [reflexivity|]. cbn [forallb canon_go] in *.
  apply andb_true_iff in H. destruct H as [Hc Hr]. rewrite (IH _ Hr), andb_true_r.
  unfold is_lower_b, is_upper_b. destruct up; cbn [andb negb];
    repeat match goal with |- context [if ?b then _ else _] => destruct b eqn:? end; lia.
Qed.

Lemma canonical_key_ascii (s : bytes) : is_ascii_b s = true -> is_ascii_b (canonical_key s) = true.
Proof. intros H. unfold canonical_key. destruct (forallb is_tchar s); [apply canon_go_ascii; exact H|exact H]. Qed.

Lemma canonical_key_not_pseudo (s : bytes) : pseudo_name s = false -> pseudo_name (canonical_key s) = false.
Proof.
  intros H. unfold canonical_key. destruct (forallb is_tchar s) eqn:T; [|exact H].
  destruct s as [|c r]; [reflexivity|]. cbn [canon_go pseudo_name andb negb] in *.
  cbn [forallb] in T. apply andb_true_iff in T. destruct T as [Tc _].
  unfold is_tchar, is_digit_b, is_lower_b, is_upper_b in *. cbn [existsb] in Tc.
  repeat match goal with |- context [if ?b then _ else _] => destruct b eqn:? end; lia.
Qed.

Section X.
  Variable x : bexchange.
  Hypothesis W : xwritable x = true.
  Let st := bx_status x.
  Let h := bx_hdr x.
  Let L := filter regular (rsp_fields st h).

  Lemma L_perm : Permutation L (map fold_hdr h).
  Proof. apply (sorted_regular_perm x W). Qed.

  Lemma L_lower (f : bytes * bytes) : In f L -> lower (fst f) = fst f.
  Proof.
    intros Hf. apply (Permutation_in _ L_perm) in Hf. apply in_map_iff in Hf.
    destruct Hf as [nv [E _]]. subst f. unfold fold_hdr. cbn [fst]. apply lower_idem.
  Qed.

  Lemma refold : map fold_hdr (map hdr_of L) = L.
  Proof.
    rewrite map_map. rewrite <- (map_id L) at 2. apply map_ext_in. intros f Hf.
    unfold fold_hdr, hdr_of. cbn [fst snd join_comma]. rewrite lower_canonical_key, (L_lower f Hf).
    destruct f; reflexivity.
  Qed.

  Lemma raw_keys_nodup : NoDup (map field_key (raw_fields st h)).
  Proof.
    unfold raw_fields. cbn [map]. unfold field_key at 1. cbn [fst].
    assert (E : map field_key (map fold_hdr h) = map bstr_item (map (fun nv => lower (fst nv)) h)).
    { rewrite !map_map. apply map_ext. reflexivity. }
    rewrite E. change (bstr_item status_name :: map bstr_item (map (fun nv => lower (fst nv)) h))
      with (map bstr_item (status_name :: map (fun nv => lower (fst nv)) h)).
    apply NoDup_map_inj; [apply bstr_item_inj|]. constructor; [|apply (xw_nodup x W)].
    intros Hin. apply in_map_iff in Hin. destruct Hin as [nv [E' Hnv]].
    pose proof (folded_regular x W) as R. rewrite Forall_forall in R.
    specialize (R (fold_hdr nv) (in_map fold_hdr _ _ Hnv)). unfold regular, fold_hdr in R. cbn [fst] in R.
    rewrite E' in R. discriminate.
  Qed.

  Lemma rsp_fields_norm : rsp_fields st (norm_hdr st h) = rsp_fields st h.
  Proof.
    unfold norm_hdr. fold L. unfold rsp_fields, raw_fields. rewrite refold.
    change field_ltb with (kltb field_key). symmetry. apply isort_perm_eq.
    - apply perm_skip. apply Permutation_sym, L_perm.
    - exact raw_keys_nodup.
  Qed.

  Lemma norm_hdr_idem : norm_hdr st (norm_hdr st h) = norm_hdr st h.
  Proof. unfold norm_hdr at 1. rewrite rsp_fields_norm. reflexivity. Qed.

  Lemma xnorm_idem : xnorm (xnorm x) = xnorm x.
  Proof. unfold xnorm. cbn [bx_url bx_status bx_hdr bx_body]. fold st h. rewrite norm_hdr_idem. reflexivity. Qed.

  Lemma xnorm_writable : xwritable (xnorm x) = true.
  Proof.
    unfold xwritable, xnorm. cbn [bx_status bx_hdr]. fold st h.
    pose proof (xw_status x W) as S. fold st in S.
    replace ((100 <=? st)%Z && (st <=? 999)%Z) with true by lia. cbn [andb].
    unfold norm_hdr. fold L. apply andb_true_iff. split.
    - apply forallb_forall. intros nv Hnv. apply in_map_iff in Hnv. destruct Hnv as [f [E Hf]]. subst nv.
      apply (Permutation_in _ L_perm) in Hf. apply in_map_iff in Hf. destruct Hf as [[n vs] [E Hin]]. subst f.
      pose proof (xw_hdrs x W) as Hh. fold h in Hh. rewrite Forall_forall in Hh.
      destruct (hdr_writable_parts _ (Hh _ Hin)) as [Hp [Hn Hv]]. cbn [fst snd] in *.
      unfold hdr_writable_b, hdr_of, fold_hdr. cbn [fst snd join_comma].
      rewrite (match58 (canonical_key (lower n)) true false).
      rewrite (canonical_key_not_pseudo _ (lower_not_pseudo _ Hp)).
      rewrite (canonical_key_ascii _ (lower_ascii _ Hn)), Hv. reflexivity.
    - apply nodupb_complete. rewrite map_map.
      assert (E : map (fun f => lower (fst (hdr_of f))) L = map fst L).
      { apply map_ext_in. intros f Hf. unfold hdr_of. cbn [fst]. rewrite lower_canonical_key. apply L_lower. exact Hf. }
      rewrite E. eapply Permutation_NoDup; [apply Permutation_map, Permutation_sym, L_perm|].
      rewrite map_map. cbn [fold_hdr fst]. apply (xw_nodup x W).
  Qed.
End X.

Section Cycle.
  Variable x509_ok : bytes -> bool.

  Lemma x_ltb_xnorm (a c : bexchange) : x_ltb (xnorm a) (xnorm c) = x_ltb a c.
  Proof. reflexivity. Qed.

  Lemma sorted_urls_strict (xs : list bexchange) :
    NoDup (map bx_url xs) ->
    StronglySorted (klt (fun a => text_item (bx_url a))) (isort x_ltb xs).
  Proof.
    intros ND. apply (isort_strict (fun a => text_item (bx_url a))).
    rewrite <- (map_map bx_url text_item). apply NoDup_map_inj; [apply text_item_inj|exact ND].
  Qed.

  Theorem norm_idempotent_single (b : bundle) (bs : bytes) :
    b_write b = Ok bs -> single_urls b -> norm (norm b) = norm b.
  Proof.
    intros W ND. pose proof (written_urls_utf8 b bs W) as U.
    pose proof (b_write_ok_xwritable b bs W) as X.
    assert (E1 : b_exchanges (norm b) = map xnorm (isort x_ltb (b_exchanges b))) by (apply norm_single; assumption).
    assert (ND' : single_urls (norm b)).
    { unfold single_urls. rewrite E1, map_map. cbn [xnorm bx_url].
      eapply Permutation_NoDup; [apply Permutation_map, Permutation_sym, isort_perm|exact ND]. }
    assert (U' : urls_utf8 (norm b)).
    { unfold urls_utf8. rewrite E1. apply Forall_map. apply Forall_forall. intros x Hx. cbn [xnorm bx_url].
      unfold urls_utf8 in U. rewrite Forall_forall in U. apply U. apply (Permutation_in _ (isort_perm x_ltb (b_exchanges b))). exact Hx. }
    assert (E2 : b_exchanges (norm (norm b)) = b_exchanges (norm b)).
    { rewrite (norm_single (norm b) ND' U'), E1.
      assert (Es : isort x_ltb (map xnorm (isort x_ltb (b_exchanges b))) = map xnorm (isort x_ltb (b_exchanges b))).
      { rewrite <- (isort_map xnorm x_ltb). change (fun a c => x_ltb (xnorm a) (xnorm c)) with x_ltb.
        f_equal. apply (isort_sorted_id (fun a => text_item (bx_url a))). apply sorted_urls_strict. exact ND. }
      rewrite Es, map_map. apply map_ext_in. intros x Hx. apply xnorm_idem.
      rewrite Forall_forall in X. apply X. apply (Permutation_in _ (isort_perm x_ltb (b_exchanges b))). exact Hx. }
    unfold norm at 1. cbn [b_ver b_primary b_manifest b_sigs]. fold (b_exchanges (norm (norm b))) in *.
    unfold norm at 1 in E2. cbn [b_exchanges] in E2. cbn [b_ver] in E2. rewrite E2. reflexivity.
  Qed.

  (* C03 fixpoint: writing what was read and reading it again gives what was read *)
  Theorem fixpoint_single (b : bundle) (bs bs2 : bytes) :
    b_write b = Ok bs -> lenN bs < two63 -> residual x509_ok b = true -> single_urls b ->
    b_write (norm b) = Ok bs2 -> lenN bs2 < two63 ->
    b_read x509_ok bs = Ok (norm b) /\ b_read x509_ok bs2 = Ok (norm b).
  Proof.
    intros H1 L1 W ND H2 L2. split; [apply bundle_roundtrip; assumption|].
    replace (Ok (norm b)) with (Ok (norm (norm b))) by (rewrite (norm_idempotent_single b bs H1 ND); reflexivity).
    apply bundle_roundtrip; [exact H2|exact L2|apply residual_norm; exact W].
  Qed.

  (* one write/read cycle; None if the write or the read fails *)
  Definition cycle (b : bundle) : option (bytes * bundle) :=
    match b_write b with
    | Ok bs => match b_read x509_ok bs with Ok b' => Some (bs, b') | _ => None end
    | _ => None
    end.

  (* from the second serialisation on the bytes never change again *)
  Theorem cycle_fixpoint (b : bundle) (bs bs2 : bytes) (n : nat) :
    b_write b = Ok bs -> lenN bs < two63 -> residual x509_ok b = true -> single_urls b ->
    b_write (norm b) = Ok bs2 -> lenN bs2 < two63 ->
    cycle b = Some (bs, norm b) /\
    Nat.iter n (fun st => match st with Some (_, c) => cycle c | None => None end) (cycle (norm b))
    = Some (bs2, norm b).
  Proof.
    intros H1 L1 W ND H2 L2. destruct (fixpoint_single b bs bs2 H1 L1 W ND H2 L2) as [R1 R2].
    assert (C2 : cycle (norm b) = Some (bs2, norm b)) by (unfold cycle; rewrite H2, R2; reflexivity).
    split; [unfold cycle; rewrite H1, R1; reflexivity|].
    induction n as [|n IH]; [exact C2|].
    change (Nat.iter (S n) ?f ?x) with (f (Nat.iter n f x)). rewrite IH. exact C2.
  Qed.
End Cycle.
