(* Proofs/IntegrityBlockId.v - C07, part 4: webbundleid.GetWebBundleId.
   base32 (Base/Base32.v) on inputs whose length is a multiple of five: eight
   characters per five bytes, no padding, alphabet a-z2-7 after lowering, and
   injective.  The 35 bytes key ++ 00 01 02 are seven such groups. *)
From Coq Require Import Lia ZifyN ZifyNat ZifyBool.
From WP Require Import Base.Prelude Base.Base32 Model.IntegrityBlock.
From WP Require Import Proofs.BaseLemmas Proofs.IntegrityBlockBase.
From WP Require Proofs.DetLemmas.
Ltac Zify.zify_post_hook ::= Z.div_mod_to_equations.
Open Scope N_scope.

(* ---- digits in base B, most significant first (like Prelude.be) ----------- *)
Fixpoint dg (B : N) (k : nat) (n : N) : list N :=
  match k with
  | O => []
  | S k' => (n / B ^ N.of_nat k') mod B :: dg B k' n
  end.

Lemma dg_snoc (B : N) (k : nat) : B <> 0 ->
  forall n, dg B (S k) n = dg B k (n / B) ++ [n mod B].
Proof.
  intros HB. induction k as [|k IH]; intros n.
  - cbn [dg app]. change (B ^ N.of_nat 0) with (B ^ 0). rewrite N.pow_0_r, N.div_1_r. reflexivity.
  - change (dg B (S (S k)) n) with ((n / B ^ N.of_nat (S k)) mod B :: dg B (S k) n).
    rewrite IH.
    change (dg B (S k) (n / B)) with (((n / B) / B ^ N.of_nat k) mod B :: dg B k (n / B)).
    cbn [app]. f_equal. f_equal.
    rewrite Nat2N.inj_succ, N.pow_succ_r', N.div_div; [reflexivity|exact HB|].
    apply N.pow_nonzero. exact HB.
Qed.

Lemma dg_length (B : N) (k : nat) (n : N) : List.length (dg B k n) = k.
Proof. induction k as [|k IH]; cbn [dg List.length]; [reflexivity|]. rewrite IH. reflexivity. Qed.

Lemma dg_lt (B : N) (k : nat) (n : N) : B <> 0 -> Forall (fun d => d < B) (dg B k n).
Proof.
  intros HB. induction k as [|k IH]; cbn [dg]; constructor; [|exact IH].
  apply N.mod_lt. exact HB.
Qed.

Lemma dg_inj (B : N) (k : nat) : B <> 0 -> forall n m,
  n < B ^ N.of_nat k -> m < B ^ N.of_nat k -> dg B k n = dg B k m -> n = m.
Proof.
  intros HB. induction k as [|k IH]; intros n m Hn Hm HE.
  - change (B ^ N.of_nat 0) with (B ^ 0) in *. rewrite N.pow_0_r in *. lia.
  - rewrite !dg_snoc in HE by exact HB.
    apply app_inj_tail in HE. destruct HE as [E1 E2].
    rewrite Nat2N.inj_succ, N.pow_succ_r' in Hn, Hm.
    assert (Hq : n / B = m / B).
    { apply IH; [| |exact E1]; apply N.div_lt_upper_bound; assumption. }
    rewrite (N.div_mod n B HB), (N.div_mod m B HB), Hq, E2. reflexivity.
Qed.

(* ---- the alphabet ---------------------------------------------------------- *)
Definition lc (d : N) : N := lower_byte (b32_char d).

Lemma lc_val (d : N) : d < 32 -> lc d = if d <? 26 then 97 + d else 24 + d.
Proof.
  intros Hd. unfold lc, b32_char, lower_byte.
  destruct (N.ltb_spec d 26) as [C|C].
  - destruct (N.leb_spec 65 (65 + d)); [|lia].
    destruct (N.leb_spec (65 + d) 90); [|lia]. cbn [andb]. lia.
  - destruct (N.leb_spec 65 (50 + (d - 26))); [|cbn [andb]; lia].
    destruct (N.leb_spec (50 + (d - 26)) 90); cbn [andb]; lia.
Qed.

Definition id_char (c : N) : Prop := (97 <= c /\ c <= 122) \/ (50 <= c /\ c <= 55).

Lemma lc_alphabet (d : N) : d < 32 -> id_char (lc d).
Proof.
  intros Hd. rewrite (lc_val d Hd). unfold id_char.
  destruct (N.ltb_spec d 26); lia.
Qed.

Lemma lc_inj (d d' : N) : d < 32 -> d' < 32 -> lc d = lc d' -> d = d'.
Proof.
  intros Hd Hd'. rewrite (lc_val d Hd), (lc_val d' Hd').
  destruct (N.ltb_spec d 26), (N.ltb_spec d' 26); lia.
Qed.

Lemma map_inj_bounded {A B} (f : A -> B) (P : A -> Prop) (l : list A) : forall l',
  (forall x y, P x -> P y -> f x = f y -> x = y) ->
  Forall P l -> Forall P l' -> map f l = map f l' -> l = l'.
Proof.
  induction l as [|x l IH]; intros [|y l'] Hinj HF HF' HE; cbn [map] in HE;
    try discriminate; [reflexivity|].
  inversion HF; subst. inversion HF'; subst. injection HE as E1 E2.
  f_equal; [apply Hinj; assumption|apply IH; assumption].
Qed.

(* ---- one full group --------------------------------------------------------- *)
Lemma b32_group_5 (bs : bytes) :
  List.length bs = 5%nat -> b32_group bs = map b32_char (dg 32 8 (unbe bs)).
Proof.
  intros HL.
  destruct bs as [|a [|b [|c [|d [|e [|x t]]]]]]; try discriminate HL.
  unfold b32_group, unbe.
  cbn [List.length Nat.sub repeat app firstn seq map dg].
  reflexivity.
Qed.

Definition lgroup (bs : bytes) : bytes := lower (b32_group bs).

Lemma lgroup_5 (bs : bytes) :
  List.length bs = 5%nat -> lgroup bs = map lc (dg 32 8 (unbe bs)).
Proof. intros HL. unfold lgroup, lower. rewrite (b32_group_5 bs HL), map_map. reflexivity. Qed.

Lemma lgroup_length (bs : bytes) : List.length bs = 5%nat -> List.length (lgroup bs) = 8%nat.
Proof. intros HL. rewrite (lgroup_5 bs HL), map_length, dg_length. reflexivity. Qed.

Lemma lgroup_alphabet (bs : bytes) : List.length bs = 5%nat -> Forall id_char (lgroup bs).
Proof.
  intros HL. rewrite (lgroup_5 bs HL). apply Forall_map.
  eapply Forall_impl; [|apply (dg_lt 32 8 (unbe bs)); discriminate].
  intros d Hd. apply lc_alphabet. exact Hd.
Qed.

Lemma unbe5_lt (bs : bytes) : wfb bs -> List.length bs = 5%nat -> unbe bs < 32 ^ N.of_nat 8.
Proof.
  intros W HL. pose proof (DetLemmas.unbe_lt bs W) as H. rewrite HL in H. exact H.
Qed.

Lemma lgroup_inj (bs bs' : bytes) :
  wfb bs -> wfb bs' -> List.length bs = 5%nat -> List.length bs' = 5%nat ->
  lgroup bs = lgroup bs' -> bs = bs'.
Proof.
  intros W W' HL HL' HE. rewrite (lgroup_5 bs HL), (lgroup_5 bs' HL') in HE.
  apply (map_inj_bounded lc (fun d => d < 32)) in HE;
    [|exact lc_inj|apply dg_lt; discriminate|apply dg_lt; discriminate].
  apply dg_inj in HE; [|discriminate|apply unbe5_lt; assumption|apply unbe5_lt; assumption].
  rewrite <- (DetLemmas.be_unbe bs W), <- (DetLemmas.be_unbe bs' W'), HL, HL', HE. reflexivity.
Qed.

(* ---- the encoder on a whole number of groups ------------------------------- *)
Definition groups5 (gs : list bytes) : Prop := Forall (fun g => List.length g = 5%nat) gs.

Lemma firstn_len_app {A} (a b : list A) : firstn (List.length a) (a ++ b) = a.
Proof. induction a as [|x a IH]; cbn [List.length firstn app]; [destruct b; reflexivity|]. rewrite IH. reflexivity. Qed.

Lemma skipn_len_app {A} (a b : list A) : skipn (List.length a) (a ++ b) = b.
Proof. induction a as [|x a IH]; cbn [List.length skipn app]; [reflexivity|exact IH]. Qed.

Lemma b32_encode_fuel_cons (f : nat) (x : N) (t : bytes) :
  b32_encode_fuel (S f) (x :: t) =
  b32_group (firstn 5 (x :: t)) ++ b32_encode_fuel f (skipn 5 (x :: t)).
Proof. reflexivity. Qed.

Lemma b32_encode_fuel_groups (gs : list bytes) : groups5 gs -> forall f,
  (List.length gs < f)%nat -> b32_encode_fuel f (List.concat gs) = flat_map b32_group gs.
Proof.
  induction 1 as [|g gs Hg HF IH]; intros f Hf.
  - destruct f; reflexivity.
  - destruct f as [|f]; [cbn [List.length] in Hf; lia|].
    cbn [List.concat flat_map].
    destruct g as [|x g]; [discriminate Hg|].
    change ((x :: g) ++ List.concat gs) with (x :: (g ++ List.concat gs)).
    rewrite b32_encode_fuel_cons.
    change (x :: g ++ List.concat gs) with ((x :: g) ++ List.concat gs).
    rewrite <- Hg. rewrite firstn_len_app, skipn_len_app.
    rewrite IH; [reflexivity|]. cbn [List.length] in Hf. lia.
Qed.

Lemma groups5_concat_length (gs : list bytes) :
  groups5 gs -> List.length (List.concat gs) = (5 * List.length gs)%nat.
Proof.
  induction 1 as [|g gs Hg HF IH]; [reflexivity|].
  cbn [List.concat List.length]. rewrite app_length, IH, Hg. lia.
Qed.

Theorem b32_encode_groups (gs : list bytes) :
  groups5 gs -> b32_encode (List.concat gs) = flat_map b32_group gs.
Proof.
  intros HG. unfold b32_encode. apply b32_encode_fuel_groups; [exact HG|].
  rewrite (groups5_concat_length gs HG). lia.
Qed.

Lemma lower_flat_map (gs : list bytes) :
  lower (flat_map b32_group gs) = flat_map lgroup gs.
Proof.
  unfold lower, lgroup. induction gs as [|g gs IH]; cbn [flat_map map]; [reflexivity|].
  rewrite map_app, IH. reflexivity.
Qed.

(* any list whose length is a multiple of five splits into groups of five *)
Lemma split_groups5 (k : nat) : forall bs, List.length bs = (5 * k)%nat ->
  exists gs, bs = List.concat gs /\ groups5 gs /\ List.length gs = k.
Proof.
  induction k as [|k IH]; intros bs HL.
  - destruct bs; [|discriminate HL]. exists []. split; [reflexivity|]. split; [constructor|reflexivity].
  - destruct (IH (skipn 5 bs)) as [gs [E [HG HK]]]; [rewrite skipn_length; lia|].
    exists (firstn 5 bs :: gs). split; [|split].
    + cbn [List.concat]. rewrite <- E. symmetry. apply firstn_skipn.
    + constructor; [|exact HG]. rewrite firstn_length. lia.
    + cbn [List.length]. rewrite HK. reflexivity.
Qed.

Lemma wfb_groups (gs : list bytes) : wfb (List.concat gs) -> Forall wfb gs.
Proof. intros W. apply DetLemmas.wfb_concat. exact W. Qed.

Lemma flat_lgroup_length (gs : list bytes) :
  groups5 gs -> List.length (flat_map lgroup gs) = (8 * List.length gs)%nat.
Proof.
  induction 1 as [|g gs Hg HF IH]; [reflexivity|].
  cbn [flat_map List.length]. rewrite app_length, IH, (lgroup_length g Hg). lia.
Qed.

Lemma flat_lgroup_alphabet (gs : list bytes) : groups5 gs -> Forall id_char (flat_map lgroup gs).
Proof.
  induction 1 as [|g gs Hg HF IH]; cbn [flat_map]; [constructor|].
  apply Forall_app. split; [apply lgroup_alphabet; exact Hg|exact IH].
Qed.

Lemma app_inv_length {A} (a : list A) : forall a' b b',
  List.length a = List.length a' -> a ++ b = a' ++ b' -> a = a' /\ b = b'.
Proof.
  intros a' b b' HL. apply app_inv_lenN. rewrite !lenN_length, HL. reflexivity.
Qed.

Lemma flat_lgroup_inj (gs : list bytes) : forall gs',
  groups5 gs -> groups5 gs' -> Forall wfb gs -> Forall wfb gs' ->
  flat_map lgroup gs = flat_map lgroup gs' -> gs = gs'.
Proof.
  induction gs as [|g gs IH]; intros [|g' gs'] HG HG' W W' HE.
  - reflexivity.
  - exfalso. apply (f_equal (@List.length N)) in HE.
    rewrite (flat_lgroup_length _ HG), (flat_lgroup_length _ HG') in HE. cbn [List.length] in HE. lia.
  - exfalso. apply (f_equal (@List.length N)) in HE.
    rewrite (flat_lgroup_length _ HG), (flat_lgroup_length _ HG') in HE. cbn [List.length] in HE. lia.
  - inversion HG as [|x1 l1 Hg HG1]; subst. inversion HG' as [|x2 l2 Hg' HG2]; subst.
    inversion W as [|x3 l3 Wg W1]; subst. inversion W' as [|x4 l4 Wg' W2]; subst.
    cbn [flat_map] in HE.
    apply app_inv_length in HE; [|rewrite (lgroup_length g Hg), (lgroup_length g' Hg'); reflexivity].
    destruct HE as [E1 E2]. f_equal; [apply lgroup_inj; assumption|apply IH; assumption].
Qed.

(* base32 of a whole number of groups, lowered: length, alphabet, injectivity *)
Theorem b32_lower_mult5 (k : nat) (bs : bytes) :
  List.length bs = (5 * k)%nat ->
  List.length (lower (b32_encode bs)) = (8 * k)%nat /\ Forall id_char (lower (b32_encode bs)).
Proof.
  intros HL. destruct (split_groups5 k bs HL) as [gs [E [HG HK]]]. subst bs.
  rewrite (b32_encode_groups gs HG), lower_flat_map. split.
  - rewrite (flat_lgroup_length gs HG). f_equal. exact HK.
  - apply flat_lgroup_alphabet. exact HG.
Qed.

Theorem b32_lower_mult5_inj (k k' : nat) (bs bs' : bytes) :
  wfb bs -> wfb bs' -> List.length bs = (5 * k)%nat -> List.length bs' = (5 * k')%nat ->
  lower (b32_encode bs) = lower (b32_encode bs') -> bs = bs'.
Proof.
  intros W W' HL HL' HE.
  destruct (split_groups5 k bs HL) as [gs [E [HG HK]]].
  destruct (split_groups5 k' bs' HL') as [gs' [E' [HG' HK']]]. subst bs bs'.
  rewrite (b32_encode_groups gs HG), (b32_encode_groups gs' HG'), !lower_flat_map in HE.
  f_equal. apply flat_lgroup_inj; try assumption; apply wfb_groups; assumption.
Qed.

(* ---- the Web Bundle ID ------------------------------------------------------ *)
Definition id_suffix : bytes := [0; 1; 2].

Theorem id_correct (pk : bytes) : web_bundle_id pk = lower (b32_encode (pk ++ id_suffix)).
Proof. reflexivity. Qed.

Theorem id_length_56 (pk : bytes) :
  List.length pk = 32%nat ->
  lenN (web_bundle_id pk) = 56 /\ Forall id_char (web_bundle_id pk) /\ ~ In 61 (web_bundle_id pk).
Proof.
  intros HL. rewrite id_correct.
  assert (H35 : List.length (pk ++ id_suffix) = (5 * 7)%nat)
    by (rewrite app_length, HL; reflexivity).
  destruct (b32_lower_mult5 7 _ H35) as [H1 H2].
  split; [rewrite lenN_length, H1; reflexivity|]. split; [exact H2|].
  intros Hin. rewrite Forall_forall in H2. specialize (H2 61 Hin). unfold id_char in H2. lia.
Qed.

Theorem id_injective (pk pk' : bytes) :
  wfb pk -> wfb pk' -> List.length pk = 32%nat -> List.length pk' = 32%nat ->
  web_bundle_id pk = web_bundle_id pk' -> pk = pk'.
Proof.
  intros W W' HL HL' HE. rewrite !id_correct in HE.
  assert (Ws : wfb id_suffix) by (repeat constructor).
  apply (b32_lower_mult5_inj 7 7) in HE.
  - apply app_inv_tail in HE. exact HE.
  - apply wfb_app. split; assumption.
  - apply wfb_app. split; assumption.
  - rewrite app_length, HL. reflexivity.
  - rewrite app_length, HL'. reflexivity.
Qed.
