(* Proofs/BundleSigRoundtrip.v - C06, part 2: SignedSubset.Encode followed by
   decodeSignedSubset gives the subset back, with the subset-hashes in the
   canonical order (ascending encoded URL); hence Encode is injective. *)
From Coq Require Import Lia ZifyN ZifyNat ZifyBool Permutation Sorted.
From WP Require Import Base.Prelude Model.Cbor Model.Http Model.Url Model.Mice Model.CertChain
  Model.Bundle Model.Sxg Model.BundleSig.
From WP Require Import Spec.Cbor.
From WP Require Import Proofs.BaseLemmas Proofs.CborHead Proofs.CborMap Proofs.CborDecode.
Ltac Zify.zify_post_hook ::= Z.div_mod_to_equations.
Open Scope N_scope.

(* ---- small helpers ------------------------------------------------------------ *)
Lemma enc_text_ok (s : bytes) : utf8_valid s = true -> enc_text s = Ok (enc_bytes_of MText s).
Proof. intros H. unfold enc_text. rewrite H. reflexivity. Qed.

Lemma enc_text_inv (s out : bytes) :
  enc_text s = Ok out -> utf8_valid s = true /\ out = enc_bytes_of MText s.
Proof. unfold enc_text. destruct (utf8_valid s); [|discriminate]. intros H. injection H as <-. auto. Qed.

Lemma dec_text_enc (s rest : bytes) :
  utf8_valid s = true -> lenN s < two63 ->
  decode_text (enc_bytes_of MText s ++ rest) = Ok (s, rest).
Proof. intros Hu Hl. apply decode_encode_text; [exact Hl|apply enc_text_ok; exact Hu]. Qed.

Lemma lenN_cons_eqb {A} (x : A) (t : list A) : (lenN (x :: t) =? 0) = false.
Proof. cbn [lenN]. apply N.eqb_neq. lia. Qed.

Lemma lenN_cons_pred {A} (x : A) (t : list A) : lenN (x :: t) - 1 = lenN t.
Proof. cbn [lenN]. lia. Qed.

Lemma typed_uint_len (t n : N) : (1 <= List.length (typed_uint t n))%nat.
Proof.
  pose proof (typed_uint_nonempty t n) as H. destruct (typed_uint t n); [contradiction|cbn; lia].
Qed.

Lemma enc_bytes_of_len (t : N) (s : bytes) : (1 <= List.length (enc_bytes_of t s))%nat.
Proof. unfold enc_bytes_of. rewrite app_length. pose proof (typed_uint_len t (lenN s)). lia. Qed.

(* ---- the encoder, with its local loops named ---------------------------------- *)
Fixpoint hv_items (l : list res_integrity) : R bytes :=
  match l with
  | [] => Ok []
  | r :: t => let* tx := enc_text (ri_integ r) in let* rest := hv_items t in
              Ok (enc_bytes (ri_hsha r) ++ tx ++ rest)
  end.

Lemma hashes_value_unfold (rh : resp_hashes) :
  hashes_value rh =
  let* items := hv_items (rh_hashes rh) in
  Ok (enc_array_header (1 + lenN (rh_hashes rh) * 2) ++ enc_bytes (rh_variants rh) ++ items).
Proof. reflexivity. Qed.

Definition pair_bytes (r : res_integrity) : bytes :=
  enc_bytes (ri_hsha r) ++ enc_bytes_of MText (ri_integ r).
Definition integ_utf8 (l : list res_integrity) : Prop :=
  Forall (fun r => utf8_valid (ri_integ r) = true) l.

Lemma flat_pair_cons (r : res_integrity) (t : list res_integrity) :
  flat_map pair_bytes (r :: t) =
  enc_bytes (ri_hsha r) ++ enc_bytes_of MText (ri_integ r) ++ flat_map pair_bytes t.
Proof. cbn [flat_map]. unfold pair_bytes at 1. rewrite <- app_assoc. reflexivity. Qed.

Lemma hv_items_ok (l : list res_integrity) (out : bytes) :
  hv_items l = Ok out -> integ_utf8 l /\ out = flat_map pair_bytes l.
Proof.
  revert out. induction l as [|r t IH]; intros out; cbn [hv_items].
  - intros H. injection H as <-. split; [constructor|reflexivity].
  - destruct (enc_text (ri_integ r)) as [tx| | |] eqn:Et; cbn [bind]; try discriminate.
    destruct (hv_items t) as [rest| | |]; cbn [bind]; try discriminate.
    intros H. injection H as <-. apply enc_text_inv in Et. destruct Et as [Hu ->].
    destruct (IH rest eq_refl) as [HF ->]. split; [constructor; assumption|].
    rewrite flat_pair_cons. reflexivity.
Qed.

Lemma hv_items_total (l : list res_integrity) :
  integ_utf8 l -> hv_items l = Ok (flat_map pair_bytes l).
Proof.
  induction 1 as [|r t Hr HF IH]; cbn [hv_items]; [reflexivity|].
  rewrite (enc_text_ok _ Hr). cbn [bind]. rewrite IH. cbn [bind].
  rewrite flat_pair_cons. reflexivity.
Qed.

Definition hv_bytes (rh : resp_hashes) : bytes :=
  enc_array_header (1 + lenN (rh_hashes rh) * 2) ++ enc_bytes (rh_variants rh)
  ++ flat_map pair_bytes (rh_hashes rh).

Lemma hashes_value_ok (rh : resp_hashes) (out : bytes) :
  hashes_value rh = Ok out -> integ_utf8 (rh_hashes rh) /\ out = hv_bytes rh.
Proof.
  rewrite hashes_value_unfold. destruct (hv_items (rh_hashes rh)) as [items| | |] eqn:E; cbn [bind];
    try discriminate.
  intros H. injection H as <-. apply hv_items_ok in E. destruct E as [HF ->]. split; [exact HF|reflexivity].
Qed.

Lemma hashes_value_total (rh : resp_hashes) :
  integ_utf8 (rh_hashes rh) -> hashes_value rh = Ok (hv_bytes rh).
Proof. intros H. rewrite hashes_value_unfold, (hv_items_total _ H). reflexivity. Qed.

Definition hentry := (bytes * resp_hashes)%type.

Fixpoint ss_ents (l : list hentry) : R (list (bytes * bytes)) :=
  match l with
  | [] => Ok []
  | (u, rh) :: t =>
      let* k := enc_text u in let* v := hashes_value rh in let* r := ss_ents t in Ok ((k, v) :: r)
  end.

Definition ent_of (e : hentry) : bytes * bytes := (enc_bytes_of MText (fst e), hv_bytes (snd e)).
Definition ent_bytes (e : hentry) : bytes := enc_bytes_of MText (fst e) ++ hv_bytes (snd e).
Definition ent_utf8 (e : hentry) : Prop :=
  utf8_valid (fst e) = true /\ integ_utf8 (rh_hashes (snd e)).

Lemma ss_ents_ok (l : list hentry) (ents : list (bytes * bytes)) :
  ss_ents l = Ok ents -> ents = map ent_of l /\ Forall ent_utf8 l.
Proof.
  revert ents. induction l as [|[u rh] t IH]; intros ents; cbn [ss_ents].
  - intros H. injection H as <-. split; [reflexivity|constructor].
  - destruct (enc_text u) as [k| | |] eqn:Ek; cbn [bind]; try discriminate.
    destruct (hashes_value rh) as [v| | |] eqn:Ev; cbn [bind]; try discriminate.
    destruct (ss_ents t) as [r| | |]; cbn [bind]; try discriminate.
    intros H. injection H as <-. apply enc_text_inv in Ek. destruct Ek as [Hu ->].
    apply hashes_value_ok in Ev. destruct Ev as [Hi ->].
    destruct (IH r eq_refl) as [-> HF]. split; [reflexivity|]. constructor; [split; assumption|exact HF].
Qed.

Lemma ss_ents_total (l : list hentry) : Forall ent_utf8 l -> ss_ents l = Ok (map ent_of l).
Proof.
  induction 1 as [|[u rh] t [Hu Hi] HF IH]; cbn [ss_ents]; [reflexivity|]. cbn [fst snd] in *.
  rewrite (enc_text_ok _ Hu). cbn [bind]. rewrite (hashes_value_total _ Hi). cbn [bind].
  rewrite IH. reflexivity.
Qed.

Lemma encode_subset_unfold (s : signed_subset) :
  encode_subset s =
  let* vu := enc_text (ss_validity s) in
  let* ents := ss_ents (ss_hashes s) in
  let* inner := enc_map ents in
  enc_map [(tkey "validity-url", vu); (tkey "auth-sha256", enc_bytes (ss_auth s));
           (tkey "date", enc_int (ss_date s)); (tkey "expires", enc_int (ss_expires s));
           (tkey "subset-hashes", inner)].
Proof. reflexivity. Qed.

(* the five top-level keys sort as date < expires < auth-sha256 < validity-url
   < subset-hashes (by length first: the head byte is 0x60 + length) *)
Lemma outer_map (v1 v2 v3 v4 v5 : bytes) :
  enc_map [(tkey "validity-url", v1); (tkey "auth-sha256", v2); (tkey "date", v3);
           (tkey "expires", v4); (tkey "subset-hashes", v5)] =
  Ok ([165] ++ (tkey "date" ++ v3) ++ (tkey "expires" ++ v4) ++ (tkey "auth-sha256" ++ v2)
      ++ (tkey "validity-url" ++ v1) ++ (tkey "subset-hashes" ++ v5)).
Proof.
  unfold enc_map.
  assert (Es : sort_entries [(tkey "validity-url", v1); (tkey "auth-sha256", v2); (tkey "date", v3);
                             (tkey "expires", v4); (tkey "subset-hashes", v5)] =
               [(tkey "date", v3); (tkey "expires", v4); (tkey "auth-sha256", v2);
                (tkey "validity-url", v1); (tkey "subset-hashes", v5)]) by reflexivity.
  cbv zeta. rewrite Es.
  assert (Ed : adjacent_dup [(tkey "date", v3); (tkey "expires", v4); (tkey "auth-sha256", v2);
                             (tkey "validity-url", v1); (tkey "subset-hashes", v5)] = false) by reflexivity.
  rewrite Ed. cbn [flat_map fst snd]. rewrite app_nil_r. reflexivity.
Qed.

Definition inner_bytes (sh : list hentry) : bytes :=
  enc_map_header (lenN sh) ++ flat_map ent_bytes sh.

Definition top_bytes (s : signed_subset) (sh : list hentry) : bytes :=
  [165] ++ (tkey "date" ++ enc_int (ss_date s)) ++ (tkey "expires" ++ enc_int (ss_expires s))
  ++ (tkey "auth-sha256" ++ enc_bytes (ss_auth s))
  ++ (tkey "validity-url" ++ enc_bytes_of MText (ss_validity s))
  ++ (tkey "subset-hashes" ++ inner_bytes sh).

Definition url_sorted (sh : list hentry) : Prop :=
  StronglySorted (fun x y => blt (enc_bytes_of MText (fst x)) (enc_bytes_of MText (fst y))) sh.

Lemma StronglySorted_map_inv' {A B} (f : A -> B) (R : B -> B -> Prop) (l : list A) :
  StronglySorted R (map f l) -> StronglySorted (fun a b => R (f a) (f b)) l.
Proof.
  induction l as [|x t IH]; cbn [map]; intros HS; [constructor|].
  apply StronglySorted_inv in HS. destruct HS as [HS HF].
  constructor; [apply IH; exact HS|].
  rewrite Forall_forall in *. intros y Hy. apply HF. apply in_map. exact Hy.
Qed.

Lemma flat_map_map' {A B C} (f : A -> B) (g : B -> list C) (l : list A) :
  flat_map g (map f l) = flat_map (fun x => g (f x)) l.
Proof. induction l as [|x t IH]; cbn [map flat_map]; [reflexivity|]. rewrite IH. reflexivity. Qed.

(* what a successful Encode wrote *)
Theorem encode_subset_ok (s : signed_subset) (bs : bytes) :
  encode_subset s = Ok bs ->
  exists sh, Permutation sh (ss_hashes s) /\ url_sorted sh /\
             utf8_valid (ss_validity s) = true /\ Forall ent_utf8 (ss_hashes s) /\
             NoDup (map fst (ss_hashes s)) /\
             bs = top_bytes s sh.
Proof.
  rewrite encode_subset_unfold.
  destruct (enc_text (ss_validity s)) as [vu| | |] eqn:Ev; cbn [bind]; try discriminate.
  destruct (ss_ents (ss_hashes s)) as [ents| | |] eqn:Ee; cbn [bind]; try discriminate.
  destruct (enc_map ents) as [inner| | |] eqn:Ei; cbn [bind]; try discriminate.
  rewrite outer_map. intros H. injection H as <-.
  apply enc_text_inv in Ev. destruct Ev as [Hv ->].
  apply ss_ents_ok in Ee. destruct Ee as [-> HF].
  assert (Hnd : NoDup (map fst (ss_hashes s))).
  { assert (Hd : NoDup (map fst (map ent_of (ss_hashes s)))).
    { unfold enc_map in Ei. cbv zeta in Ei.
      destruct (adjacent_dup (sort_entries (map ent_of (ss_hashes s)))) eqn:Hd; [discriminate|].
      apply sort_nodup_iff. exact Hd. }
    rewrite map_map in Hd.
    change (map (fun x => fst (ent_of x)) (ss_hashes s))
      with (map (fun x : bytes * resp_hashes => enc_bytes_of MText (fst x)) (ss_hashes s)) in Hd.
    rewrite <- (map_map fst (enc_bytes_of MText)) in Hd. apply NoDup_map_inv in Hd. exact Hd. }
  apply enc_map_sorted in Ei. destruct Ei as [s0 [HP [HS HE]]].
  apply Permutation_map_inv in HP. destruct HP as [sh [Es HP]]. subst s0.
  exists sh. split; [apply Permutation_sym; exact HP|]. split.
  - apply StronglySorted_map_inv' in HS. exact HS.
  - split; [exact Hv|]. split; [exact HF|]. split; [exact Hnd|].
    unfold top_bytes, inner_bytes. rewrite HE, lenN_map, flat_map_map'.
    rewrite (lenN_perm _ _ HP). reflexivity.
Qed.

(* ---- decoder: unfolding lemmas -------------------------------------------------- *)
Lemma dec_hash_pairs_S (f : nat) (k : N) (bs : bytes) (acc : list res_integrity) :
  dec_hash_pairs (S f) k bs acc =
  if k =? 0 then Ok (acc, bs)
  else let* (h, r1) := decode_bytes bs in
       let* (i, r2) := decode_text r1 in
       dec_hash_pairs f (k - 1) r2 (acc ++ [{| ri_hsha := h; ri_integ := i |}]).
Proof. reflexivity. Qed.

Lemma dec_subset_hashes_S (f : nat) (n : N) (bs : bytes) (acc : list hentry) :
  dec_subset_hashes (S f) n bs acc =
  if n =? 0 then Ok (acc, bs)
  else let* (u, r1) := decode_text bs in
       let* (m, r2) := decode_array_header r1 in
       if (m <? 3) || N.even m then Err
       else let* (vv, r3) := decode_bytes r2 in
            let* (hs, r4) := dec_hash_pairs (S (List.length r3)) ((m - 1) / 2) r3 [] in
            dec_subset_hashes f (n - 1) r4 (set_hash acc u {| rh_variants := vv; rh_hashes := hs |}).
Proof. reflexivity. Qed.

(* ---- size conditions -------------------------------------------------------------- *)
Definition ri_ok (r : res_integrity) : Prop := lenN (ri_hsha r) < two63 /\ lenN (ri_integ r) < two63.
Definition rh_ok (rh : resp_hashes) : Prop :=
  rh_hashes rh <> [] /\ 1 + lenN (rh_hashes rh) * 2 < two64 /\
  lenN (rh_variants rh) < two63 /\ Forall ri_ok (rh_hashes rh).
Definition ent_ok (e : hentry) : Prop := lenN (fst e) < two63 /\ rh_ok (snd e).

Lemma pair_bytes_len (l : list res_integrity) (rest : bytes) :
  (List.length l <= List.length (flat_map pair_bytes l ++ rest))%nat.
Proof.
  induction l as [|r t IH]; [cbn [flat_map List.length]; lia|].
  rewrite flat_pair_cons, <- !app_assoc, app_length. cbn [List.length].
  pose proof (enc_bytes_of_len MBytes (ri_hsha r)) as H1. unfold enc_bytes.
  rewrite app_length. lia.
Qed.

Lemma dec_hash_pairs_ok (l : list res_integrity) : forall fuel rest acc,
  Forall ri_ok l -> integ_utf8 l -> (List.length l < fuel)%nat ->
  dec_hash_pairs fuel (lenN l) (flat_map pair_bytes l ++ rest) acc = Ok (acc ++ l, rest).
Proof.
  induction l as [|r t IH]; intros fuel rest acc HF HU Hf.
  - destruct fuel as [|f]; [cbn [List.length] in Hf; lia|].
    rewrite dec_hash_pairs_S. cbn [lenN flat_map app]. rewrite app_nil_r. reflexivity.
  - destruct fuel as [|f]; [cbn [List.length] in Hf; lia|].
    inversion HF as [|x l0 [H1 H2] HF']; subst. inversion HU as [|x l0 Hu HU']; subst.
    rewrite dec_hash_pairs_S, lenN_cons_eqb, lenN_cons_pred.
    rewrite flat_pair_cons, <- !app_assoc.
    rewrite (decode_encode_bytes _ _ H1). cbn [bind].
    rewrite (dec_text_enc _ _ Hu H2). cbn [bind].
    rewrite IH; [|exact HF'|exact HU'|cbn [List.length] in Hf; lia].
    rewrite <- app_assoc. destruct r. reflexivity.
Qed.

Lemma odd_ge3 (k : N) : k <> 0 -> ((1 + k * 2 <? 3) || N.even (1 + k * 2)) = false.
Proof.
  intros Hk. destruct (N.ltb_spec (1 + k * 2) 3) as [C|C]; [lia|]. cbn [orb].
  rewrite (N.mul_comm k 2), N.even_add_mul_2. reflexivity.
Qed.

Lemma half_odd (k : N) : (1 + k * 2 - 1) / 2 = k.
Proof. lia. Qed.

Lemma set_hash_fresh (acc : list hentry) (u : bytes) (rh : resp_hashes) :
  ~ In u (map fst acc) -> set_hash acc u rh = acc ++ [(u, rh)].
Proof.
  induction acc as [|[u' x] t IH]; cbn [set_hash map fst In app]; [reflexivity|].
  intros Hn. destruct (bytes_eqb u' u) eqn:E.
  - apply bytes_eqb_eq in E. exfalso. apply Hn. left. exact E.
  - rewrite IH; [reflexivity|]. intros Hin. apply Hn. right. exact Hin.
Qed.

Lemma flat_ent_cons (u : bytes) (rh : resp_hashes) (t : list hentry) :
  flat_map ent_bytes ((u, rh) :: t) =
  enc_bytes_of MText u ++ enc_array_header (1 + lenN (rh_hashes rh) * 2) ++ enc_bytes (rh_variants rh)
  ++ flat_map pair_bytes (rh_hashes rh) ++ flat_map ent_bytes t.
Proof.
  cbn [flat_map]. unfold ent_bytes at 1. cbn [fst snd]. unfold hv_bytes. rewrite <- !app_assoc.
  reflexivity.
Qed.

Lemma ent_bytes_len (l : list hentry) (rest : bytes) :
  (List.length l <= List.length (flat_map ent_bytes l ++ rest))%nat.
Proof.
  induction l as [|[u rh] t IH]; [cbn [flat_map List.length]; lia|].
  rewrite flat_ent_cons, <- !app_assoc, app_length. cbn [List.length].
  pose proof (enc_bytes_of_len MText u).
  rewrite !app_length. rewrite !app_length in IH. lia.
Qed.

Lemma dec_subset_hashes_ok (l : list hentry) : forall fuel rest acc,
  Forall ent_ok l -> Forall ent_utf8 l -> NoDup (map fst (acc ++ l)) ->
  (List.length l < fuel)%nat ->
  dec_subset_hashes fuel (lenN l) (flat_map ent_bytes l ++ rest) acc = Ok (acc ++ l, rest).
Proof.
  induction l as [|[u rh] t IH]; intros fuel rest acc HF HU HN Hf.
  - destruct fuel as [|f]; [cbn [List.length] in Hf; lia|].
    rewrite dec_subset_hashes_S. cbn [lenN flat_map app]. rewrite app_nil_r. reflexivity.
  - destruct fuel as [|f]; [cbn [List.length] in Hf; lia|].
    inversion HF as [|x l0 [Lu [Hne [Hm [Lv Hri]]]] HF']; subst.
    inversion HU as [|x l0 [Hu Hi] HU']; subst. cbn [fst snd] in *.
    rewrite dec_subset_hashes_S, lenN_cons_eqb, lenN_cons_pred.
    rewrite flat_ent_cons, <- !app_assoc.
    rewrite (dec_text_enc _ _ Hu Lu). cbn [bind].
    rewrite (decode_encode_array_header _ _ Hm). cbn [bind].
    rewrite odd_ge3 by (intros E; apply lenN_nil_inv in E; contradiction).
    rewrite (decode_encode_bytes _ _ Lv). cbn [bind].
    rewrite half_odd.
    rewrite dec_hash_pairs_ok; [|exact Hri|exact Hi|].
    2:{ pose proof (pair_bytes_len (rh_hashes rh) (flat_map ent_bytes t ++ rest)). lia. }
    cbn [bind app].
    assert (Hfresh : ~ In u (map fst acc)).
    { rewrite map_app in HN. cbn [map fst] in HN. apply NoDup_remove_2 in HN.
      intros Hin. apply HN. apply in_or_app. left. exact Hin. }
    rewrite (set_hash_fresh _ _ _ Hfresh).
    rewrite IH; [|exact HF'|exact HU'| |cbn [List.length] in Hf; lia].
    + rewrite <- app_assoc. destruct rh. reflexivity.
    + rewrite <- app_assoc. destruct rh. exact HN.
Qed.

(* ---- the five top-level fields ------------------------------------------------------ *)
Definition acc0 : ss_acc :=
  {| a_validity := None; a_auth := None; a_date := None; a_expires := None;
     a_hashes := None; a_taint := false |}.

Lemma to_i64_small (d : Z) : (0 <= d < Z.of_N two63)%Z -> to_i64 (Z.to_N d) = d.
Proof.
  intros H. unfold to_i64, two63 in *. destruct (N.ltb_spec (Z.to_N d) 9223372036854775808); lia.
Qed.

Lemma time_nonzero (d : Z) : (0 <= d < Z.of_N two63)%Z -> time_is_zero d = false.
Proof.
  intros H. unfold time_is_zero, isec, of_i64_wrap, unix_to_internal, to_i64, two63, two64 in *.
  apply Z.eqb_neq.
  match goal with |- context [N.ltb ?x ?y] => destruct (N.ltb_spec x y) end; lia.
Qed.

Lemma label_text (k : string) (rest : bytes) :
  utf8_valid (s2b k) = true -> lenN (s2b k) < two63 ->
  decode_text (tkey k ++ rest) = Ok (s2b k, rest).
Proof. intros Hu Hl. unfold tkey. apply dec_text_enc; assumption. Qed.

Lemma step_date (f : nat) (n : N) (rest : bytes) (a : ss_acc) (d : Z) :
  n <> 0 -> (0 <= d < Z.of_N two63)%Z ->
  dec_subset_fields (S f) n (tkey "date" ++ enc_int d ++ rest) a =
  dec_subset_fields f (n - 1) rest
    {| a_validity := a_validity a; a_auth := a_auth a; a_date := Some d;
       a_expires := a_expires a; a_hashes := a_hashes a; a_taint := a_taint a |}.
Proof.
  intros Hn Hd. cbn [dec_subset_fields]. rewrite (proj2 (N.eqb_neq n 0) Hn).
  rewrite label_text by reflexivity. cbn [bind].
  change (bytes_eqb (s2b "date") (s2b "validity-url")) with false.
  change (bytes_eqb (s2b "date") (s2b "auth-sha256")) with false.
  change (bytes_eqb (s2b "date") (s2b "date")) with true. cbv iota.
  rewrite (decode_encode_int_nonneg d rest Hd). cbn [bind].
  rewrite (to_i64_small d Hd). reflexivity.
Qed.

Lemma step_expires (f : nat) (n : N) (rest : bytes) (a : ss_acc) (d : Z) :
  n <> 0 -> (0 <= d < Z.of_N two63)%Z ->
  dec_subset_fields (S f) n (tkey "expires" ++ enc_int d ++ rest) a =
  dec_subset_fields f (n - 1) rest
    {| a_validity := a_validity a; a_auth := a_auth a; a_date := a_date a;
       a_expires := Some d; a_hashes := a_hashes a; a_taint := a_taint a |}.
Proof.
  intros Hn Hd. cbn [dec_subset_fields]. rewrite (proj2 (N.eqb_neq n 0) Hn).
  rewrite label_text by reflexivity. cbn [bind].
  change (bytes_eqb (s2b "expires") (s2b "validity-url")) with false.
  change (bytes_eqb (s2b "expires") (s2b "auth-sha256")) with false.
  change (bytes_eqb (s2b "expires") (s2b "date")) with false.
  change (bytes_eqb (s2b "expires") (s2b "expires")) with true. cbv iota.
  rewrite (decode_encode_int_nonneg d rest Hd). cbn [bind].
  rewrite (to_i64_small d Hd). reflexivity.
Qed.

Lemma step_auth (f : nat) (n : N) (rest : bytes) (a : ss_acc) (b : bytes) :
  n <> 0 -> lenN b < two63 ->
  dec_subset_fields (S f) n (tkey "auth-sha256" ++ enc_bytes b ++ rest) a =
  dec_subset_fields f (n - 1) rest
    {| a_validity := a_validity a; a_auth := Some b; a_date := a_date a;
       a_expires := a_expires a; a_hashes := a_hashes a; a_taint := a_taint a |}.
Proof.
  intros Hn Hb. cbn [dec_subset_fields]. rewrite (proj2 (N.eqb_neq n 0) Hn).
  rewrite label_text by reflexivity. cbn [bind].
  change (bytes_eqb (s2b "auth-sha256") (s2b "validity-url")) with false.
  change (bytes_eqb (s2b "auth-sha256") (s2b "auth-sha256")) with true. cbv iota.
  rewrite (decode_encode_bytes b rest Hb). cbn [bind]. reflexivity.
Qed.

Definition url_taint (u : bytes) : bool := match url_parse u with UUnknown => true | _ => false end.

Lemma step_validity (f : nat) (n : N) (rest : bytes) (a : ss_acc) (u : bytes) :
  n <> 0 -> lenN u < two63 -> utf8_valid u = true -> url_parse u <> UErr ->
  dec_subset_fields (S f) n (tkey "validity-url" ++ enc_bytes_of MText u ++ rest) a =
  dec_subset_fields f (n - 1) rest
    {| a_validity := Some u; a_auth := a_auth a; a_date := a_date a;
       a_expires := a_expires a; a_hashes := a_hashes a; a_taint := a_taint a || url_taint u |}.
Proof.
  intros Hn Hl Hu Hp. cbn [dec_subset_fields]. rewrite (proj2 (N.eqb_neq n 0) Hn).
  rewrite label_text by reflexivity. cbn [bind].
  change (bytes_eqb (s2b "validity-url") (s2b "validity-url")) with true. cbv iota.
  rewrite (dec_text_enc u rest Hu Hl). cbn [bind]. unfold url_taint.
  destruct (url_parse u); [contradiction|reflexivity|reflexivity].
Qed.

Lemma step_hashes (f : nat) (n : N) (a : ss_acc) (sh : list hentry) :
  n <> 0 -> lenN sh < two64 -> Forall ent_ok sh -> Forall ent_utf8 sh -> NoDup (map fst sh) ->
  dec_subset_fields (S f) n (tkey "subset-hashes" ++ inner_bytes sh) a =
  dec_subset_fields f (n - 1) []
    {| a_validity := a_validity a; a_auth := a_auth a; a_date := a_date a;
       a_expires := a_expires a; a_hashes := Some sh; a_taint := a_taint a |}.
Proof.
  intros Hn Hl HF HU HN. cbn [dec_subset_fields]. rewrite (proj2 (N.eqb_neq n 0) Hn).
  rewrite label_text by reflexivity. cbn [bind].
  change (bytes_eqb (s2b "subset-hashes") (s2b "validity-url")) with false.
  change (bytes_eqb (s2b "subset-hashes") (s2b "auth-sha256")) with false.
  change (bytes_eqb (s2b "subset-hashes") (s2b "date")) with false.
  change (bytes_eqb (s2b "subset-hashes") (s2b "expires")) with false.
  change (bytes_eqb (s2b "subset-hashes") (s2b "subset-hashes")) with true. cbv iota.
  unfold inner_bytes. rewrite (decode_encode_map_header _ _ Hl). cbn [bind].
  rewrite <- (app_nil_r (flat_map ent_bytes sh)).
  rewrite (dec_subset_hashes_ok sh _ [] [] HF HU); [reflexivity|exact HN|].
  pose proof (ent_bytes_len sh []). lia.
Qed.

Lemma dec_subset_fields_done (f : nat) (bs : bytes) (a : ss_acc) :
  dec_subset_fields (S f) 0 bs a = Ok a.
Proof. reflexivity. Qed.

(* ---- round trip ------------------------------------------------------------------------ *)
Definition ss_ok (s : signed_subset) : Prop :=
  (0 <= ss_date s < Z.of_N two63)%Z /\ (0 <= ss_expires s < Z.of_N two63)%Z /\
  url_parse (ss_validity s) <> UErr /\
  lenN (ss_validity s) < two63 /\ lenN (ss_auth s) < two63 /\
  lenN (ss_hashes s) < two64 /\ Forall ent_ok (ss_hashes s).

Definition with_hashes (s : signed_subset) (sh : list hentry) : signed_subset :=
  {| ss_validity := ss_validity s; ss_auth := ss_auth s; ss_date := ss_date s;
     ss_expires := ss_expires s; ss_hashes := sh |}.

Lemma decode_top_bytes (s : signed_subset) (sh : list hentry) :
  ss_ok s -> utf8_valid (ss_validity s) = true ->
  Permutation sh (ss_hashes s) -> Forall ent_utf8 (ss_hashes s) -> NoDup (map fst (ss_hashes s)) ->
  decode_signed_subset (top_bytes s sh) = Ok (with_hashes s sh, url_taint (ss_validity s)).
Proof.
  intros [Hd [Hx [Hp [Lv [La [Lh HF]]]]]] Hu HP HU HN.
  assert (Lh' : lenN sh < two64) by (rewrite (lenN_perm _ _ HP); exact Lh).
  assert (HF' : Forall ent_ok sh) by (eapply Permutation_Forall; [apply Permutation_sym; exact HP|exact HF]).
  assert (HU' : Forall ent_utf8 sh) by (eapply Permutation_Forall; [apply Permutation_sym; exact HP|exact HU]).
  assert (HN' : NoDup (map fst sh)).
  { eapply Permutation_NoDup; [apply Permutation_map, Permutation_sym; exact HP|exact HN]. }
  unfold decode_signed_subset, top_bytes.
  change [165] with (enc_map_header 5).
  rewrite decode_encode_map_header by reflexivity. cbn [bind].
  rewrite <- !app_assoc.
  match goal with |- context [dec_subset_fields (S (List.length ?X))] =>
    assert (Hfuel : (5 <= List.length X)%nat)
      by (rewrite app_length; change (List.length (tkey "date")) with 5%nat; lia);
    generalize dependent (List.length X)
  end.
  intros fuel Hfuel.
  destruct fuel as [|[|[|[|[|f]]]]]; try lia.
  fold acc0.
  rewrite step_date by (try discriminate; exact Hd). cbn [acc0 a_validity a_auth a_date a_expires a_hashes a_taint].
  rewrite step_expires by (try discriminate; exact Hx). cbn [a_validity a_auth a_date a_expires a_hashes a_taint].
  rewrite step_auth by (try discriminate; exact La). cbn [a_validity a_auth a_date a_expires a_hashes a_taint].
  rewrite step_validity by (try discriminate; assumption). cbn [a_validity a_auth a_date a_expires a_hashes a_taint].
  rewrite step_hashes by (try discriminate; assumption). cbn [a_validity a_auth a_date a_expires a_hashes a_taint].
  change (5 - 1 - 1 - 1 - 1 - 1) with 0. rewrite dec_subset_fields_done. cbn [bind].
  cbn [a_validity a_auth a_date a_expires a_hashes a_taint].
  rewrite (time_nonzero _ Hd), (time_nonzero _ Hx). cbn [orb]. reflexivity.
Qed.

(* MAIN: Encode then decodeSignedSubset.  The subset-hashes come back in the
   canonical order sh (ascending encoded URL), a permutation of the supplied
   association list; everything else comes back unchanged; the taint flag says
   whether the URL model could classify the validity URL. *)
Theorem signed_subset_roundtrip (s : signed_subset) (bs : bytes) :
  ss_ok s -> encode_subset s = Ok bs ->
  exists sh, Permutation sh (ss_hashes s) /\ url_sorted sh /\
             decode_signed_subset bs = Ok (with_hashes s sh, url_taint (ss_validity s)).
Proof.
  intros Hok He. apply encode_subset_ok in He.
  destruct He as [sh [HP [HS [Hv [HU [HN ->]]]]]].
  exists sh. split; [exact HP|]. split; [exact HS|]. apply decode_top_bytes; assumption.
Qed.

(* Encode succeeds exactly on UTF-8 text and pairwise distinct URLs *)
Theorem encode_subset_total (s : signed_subset) :
  utf8_valid (ss_validity s) = true -> Forall ent_utf8 (ss_hashes s) ->
  NoDup (map (fun e : hentry => enc_bytes_of MText (fst e)) (ss_hashes s)) ->
  exists bs, encode_subset s = Ok bs.
Proof.
  intros Hv HU HN. rewrite encode_subset_unfold, (enc_text_ok _ Hv). cbn [bind].
  rewrite (ss_ents_total _ HU). cbn [bind].
  destruct (enc_map_ok_or_err (map ent_of (ss_hashes s))) as [E|[inner E]].
  - exfalso. apply enc_map_dup in E. apply E. rewrite map_map. exact HN.
  - rewrite E. cbn [bind]. rewrite outer_map. eexists. reflexivity.
Qed.

Lemma url_sorted_unique (sh sh' : list hentry) :
  url_sorted sh -> url_sorted sh' -> Permutation sh sh' -> sh = sh'.
Proof.
  apply sorted_perm_unique. intros x y H1 H2. exact (blt_asym _ _ H1 H2).
Qed.

(* the signed bytes determine the subset (up to the order of the hash list,
   which is a Go map) *)
Theorem encode_subset_injective (s s' : signed_subset) (bs : bytes) :
  ss_ok s -> ss_ok s' -> encode_subset s = Ok bs -> encode_subset s' = Ok bs ->
  ss_validity s = ss_validity s' /\ ss_auth s = ss_auth s' /\ ss_date s = ss_date s' /\
  ss_expires s = ss_expires s' /\ Permutation (ss_hashes s) (ss_hashes s').
Proof.
  intros Hok Hok' He He'.
  destruct (signed_subset_roundtrip s bs Hok He) as [sh [HP [_ Hd]]].
  destruct (signed_subset_roundtrip s' bs Hok' He') as [sh' [HP' [_ Hd']]].
  rewrite Hd in Hd'. injection Hd' as E1 E2 E3 E4 E5 _.
  repeat (split; [assumption|]).
  subst sh'. eapply perm_trans; [apply Permutation_sym; exact HP|exact HP'].
Qed.
