(* Proofs/BundleReadSound.v - whatever bundle.Read returns is what the
   independent description Spec.BundleRead.Extracts finds in the input. *)
From Coq Require Import Lia ZifyN ZifyNat ZifyBool.
From WP Require Import Base.Prelude Base.Decimal Model.Cbor Model.Http Model.Url Model.UrlRef
  Model.StructHdr Model.Variants Model.CertChain Model.Bundle Spec.Cbor Spec.BundleRead.
From WP Require Import Proofs.BaseLemmas Proofs.CborHead Proofs.CborDecode
  Proofs.BundleReadBase Proofs.BundleReadTotal Proofs.BundleReadLayout Proofs.BundleReadBounds
  Proofs.BundleReadResponse.
Ltac Zify.zify_post_hook ::= Z.div_mod_to_equations.
Open Scope N_scope.

(* ---- the section-lengths table ------------------------------------------------------ *)
Lemma TablePairs_cons_front bs name r1 len r2 t rest :
  tstr_at bs name r1 -> head_at 0 len r1 r2 -> TablePairs r2 t rest ->
  TablePairs bs ((name, len) :: t) rest.
Proof. intros. econstructor; eassumption. Qed.

Lemma dec_section_lengths_sound : forall fuel i n bs acc sos,
  i + lenN bs < two64 ->
  dec_section_lengths fuel i n bs acc = Ok sos ->
  exists new rest,
    sos = acc ++ new /\ TablePairs bs new rest /\
    n <= i + 2 * lenN new /\ (new = [] \/ i + 2 * lenN new < n + 2).
Proof.
  induction fuel as [|f IH]; intros i n bs acc sos Hb H; [discriminate|].
  rewrite dec_section_lengths_S in H. destruct (N.leb_spec n i) as [Hle|Hgt].
  - inversion H; subst. exists [], bs. rewrite app_nil_r. cbn [lenN].
    split; [reflexivity|]. split; [constructor|]. split; [lia|]. left. reflexivity.
  - apply bind_ok in H. destruct H as [[name r1] [E1 H]]. beta_pair in H.
    destruct (existsb _ acc); [discriminate|].
    apply bind_ok in H. destruct H as [[len r2] [E2 H]]. beta_pair in H.
    destruct (decode_text_split _ _ _ E1) as [h1 [X1 L1]].
    destruct (decode_uint_split _ _ _ E2) as [h2 [X2 L2]].
    assert (Lb : lenN r2 + 2 <= lenN bs).
    { subst bs r1. rewrite !lenN_app. lia. }
    assert (W1 : i + 2 < two64) by (clear - Hb Lb; lia).
    assert (W2 : i + 2 + lenN r2 < two64) by (clear - Hb Lb; lia).
    rewrite (w64_small _ W1) in H.
    destruct (IH _ _ _ _ _ W2 H) as [new [rest [Es [TP [Hn Hk]]]]].
    exists ((name, len) :: new), rest.
    split; [rewrite Es, <- app_assoc; reflexivity|].
    split; [econstructor; [apply decode_text_tstr_at; exact E1
                          |apply decode_uint_head_at; exact E2|exact TP]|].
    cbn [lenN]. split; [lia|]. right. destruct Hk as [Hk|Hk]; [subst new; cbn [lenN]; lia|lia].
Qed.

Lemma decode_section_lengths_sound bs sos :
  lenN bs < 8192 -> decode_section_lengths bs = Ok sos ->
  exists n body junk,
    head_at 4 n bs body /\ TablePairs body sos junk /\
    (n = 2 * lenN sos \/ n + 1 = 2 * lenN sos).
Proof.
  unfold decode_section_lengths. intros Hb H.
  apply bind_ok in H. destruct H as [[n r] [E1 H]]. beta_pair in H.
  destruct (decode_array_header_split _ _ _ E1) as [h [X L]].
  assert (Lr : lenN r < 8192) by (subst bs; rewrite lenN_app in Hb; lia).
  assert (W : 0 + lenN r < two64) by (unfold two64; lia).
  destruct (dec_section_lengths_sound _ _ _ _ _ _ W H)
    as [new [rest [Es [TP [Hn Hk]]]]].
  cbn [app] in Es. subst new.
  exists n, r, rest. split; [apply decode_array_header_head_at; exact E1|].
  split; [exact TP|]. destruct Hk as [Hk|Hk]; [subst sos; cbn [lenN] in *; lia|lia].
Qed.

(* ---- magic ---------------------------------------------------------------------------- *)
Lemma parse_magic_sound bs v r : parse_magic bs = Ok (v, r) -> bs = magic_of v ++ r.
Proof.
  unfold parse_magic. intros H.
  apply bind_ok in H. destruct H as [[hm r1] [E1 H]]. beta_pair in H.
  destruct (splitN bs 10) as [[hm' r1']|] eqn:S1; [|discriminate]. cbn [of_opt] in E1.
  inversion E1; subst hm' r1'. apply splitN_spec in S1. destruct S1 as [X1 _].
  destruct (negb _); [discriminate|].
  apply bind_ok in H. destruct H as [[vm r2] [E2 H]]. beta_pair in H.
  destruct (splitN r1 5) as [[vm' r2']|] eqn:S2; [|discriminate]. cbn [of_opt] in E2.
  inversion E2; subst vm' r2'. apply splitN_spec in S2. destruct S2 as [X2 _].
  subst bs r1.
  destruct (bytes_eqb vm ver_magic_b1) eqn:V1.
  { destruct (bytes_eqb hm hdr_magic_b1) eqn:H1; [|discriminate]. inversion H; subst.
    apply bytes_eqb_eq in V1. apply bytes_eqb_eq in H1. subst. reflexivity. }
  destruct (bytes_eqb vm ver_magic_b2) eqn:V2; [|discriminate].
  destruct (bytes_eqb hm hdr_magic_b2) eqn:H2; [|discriminate]. inversion H; subst.
  apply bytes_eqb_eq in V2. apply bytes_eqb_eq in H2. subst. reflexivity.
Qed.

Lemma magic_of_model v : magic_of v = header_magic_bytes v.
Proof. destruct v; reflexivity. Qed.

(* ---- everything before the sections ------------------------------------------------------ *)
Lemma load_header_sound bs v fb t0 ss sos :
  load_header bs = Ok (v, fb, t0, ss, sos) ->
  ss + sum_lens sos <= lenN bs ->
  SectionLayout bs v fb ss sos.
Proof.
  intros H Hfit. pose proof (load_header_nodup _ _ _ _ _ _ H) as Hnd.
  unfold load_header in H.
  apply bind_ok in H. destruct H as [[v' r0] [E0 H]]. beta_pair in H.
  apply bind_ok in H. destruct H as [[[fb' t0'] r1] [E1 H]]. beta_pair in H.
  apply bind_ok in H. destruct H as [[sl r2] [E2 H]]. beta_pair in H.
  destruct (N.leb_spec 8192 (lenN sl)) as [Hsl|Hsl]; [discriminate|].
  apply bind_ok in H. destruct H as [sos' [E3 H]].
  apply bind_ok in H. destruct H as [[ns r3] [E4 H]]. beta_pair in H.
  destruct (N.eqb_spec ns (lenN sos')) as [Ens|Ens]; cbn [negb] in H; [|discriminate].
  inversion H; subst v' fb' t0' ss sos'. clear H.
  apply parse_magic_sound in E0.
  destruct (decode_section_lengths_sound _ _ Hsl E3) as [n [body [junk [Hh [TP Hn]]]]].
  destruct (decode_bytes_split _ _ _ E2) as [h2 [X2 _]].
  destruct (decode_array_header_split _ _ _ E4) as [h4 [X4 _]].
  assert (P : exists p1, r0 = p1 ++ r1 /\
              match v with
              | BV1 => exists u, tstr_at r0 u r1 /\ fb = Some u
              | BV2 => r1 = r0 /\ fb = None
              end).
  { destruct v; cbn [has_primary_in_header] in E1.
    - apply bind_ok in E1. destruct E1 as [[u r] [Eu E1]]. beta_pair in E1.
      destruct (any_url_ok u) as [ok tn]. destruct ok; [|discriminate].
      inversion E1; subst fb t0 r.
      destruct (decode_text_split _ _ _ Eu) as [h [X _]].
      exists (h ++ u). split; [rewrite <- app_assoc; exact X|].
      exists u. split; [apply decode_text_tstr_at; exact Eu|reflexivity].
    - inversion E1; subst. exists []. split; [reflexivity|]. split; reflexivity. }
  destruct P as [p1 [X1 P]].
  exists r0, r1, sl, r2, n, body, junk, r3, (magic_of v ++ p1 ++ h2 ++ sl ++ h4).
  split; [exact E0|]. split; [exact P|].
  split; [apply decode_bytes_bstr_at; exact E2|]. split; [exact Hsl|].
  split; [exact Hh|]. split; [exact TP|]. split; [exact Hn|]. split; [exact Hnd|].
  split; [subst ns; apply decode_array_header_head_at; exact E4|].
  assert (Ebs : bs = (magic_of v ++ p1 ++ h2 ++ sl ++ h4) ++ r3).
  { rewrite E0, X1, X2, X4. rewrite <- !app_assoc. reflexivity. }
  split; [exact Ebs|]. split; [|exact Hfit].
  rewrite Ebs, (lenN_app _ r3). lia.
Qed.

(* ---- the index ------------------------------------------------------------------------------ *)
Definition mkloc (ro : N) (t : bytes * N * N) : loc :=
  {| l_url := fst (fst t); l_off := ro + snd (fst t); l_len := snd t |}.
Definition fits (rl : N) (ol : N * N) : Prop := fst ol + snd ol <= rl.

Lemma read_locs_sound (total : N) : forall fuel k bs u rl ro acc ls rest,
  ro + rl <= total -> total < two64 ->
  read_locs fuel k bs u rl ro acc = Ok (ls, rest) ->
  exists pairs,
    LocPairs bs pairs rest /\ lenN pairs = k /\ Forall (fits rl) pairs /\
    ls = acc ++ map (fun ol => mkloc ro (u, fst ol, snd ol)) pairs.
Proof.
  induction fuel as [|f IH]; intros k bs u rl ro acc ls rest H1 H2 H; [discriminate|].
  rewrite read_locs_S in H. destruct (N.eqb_spec k 0) as [Ek|Ek].
  - inversion H; subst. exists []. cbn [map lenN]. rewrite app_nil_r.
    repeat split; constructor.
  - apply bind_ok in H. destruct H as [[o r1] [E1 H]]. beta_pair in H.
    apply bind_ok in H. destruct H as [[l r2] [E2 H]]. beta_pair in H.
    apply bind_ok in H. destruct H as [[o' l'] [E3 H]]. beta_pair in H.
    destruct (make_relative_in_section total _ _ _ _ _ _ H1 H2 E3) as [Eo [El [_ [_ Hf]]]].
    subst o' l'.
    destruct (IH _ _ _ _ _ _ _ _ H1 H2 H) as [pairs [LP [Hk [Hfs El]]]].
    exists ((o, l) :: pairs).
    split; [econstructor; [apply decode_uint_head_at; exact E1
                          |apply decode_uint_head_at; exact E2|exact LP]|].
    split; [cbn [lenN]; lia|]. split; [constructor; [exact Hf|exact Hfs]|].
    rewrite El, <- app_assoc. reflexivity.
Qed.

Lemma index_value_sound (total : N) v items r2 u rl ro ls r4 :
  ro + rl <= total -> total < two64 ->
  index_value v items r2 u rl ro = Ok (ls, r4) ->
  exists r3 pairs,
    match v with
    | BV2 => items = 2 /\ r3 = r2 /\ lenN pairs = 1
    | BV1 => exists vv, bstr_at r2 vv r3 /\ items = 2 * lenN pairs + 1 /\ (vv = [] -> lenN pairs = 1)
    end /\
    LocPairs r3 pairs r4 /\ Forall (fits rl) pairs /\
    ls = map (fun ol => mkloc ro (u, fst ol, snd ol)) pairs.
Proof.
  intros H1 H2. unfold index_value. destruct v.
  - destruct (items =? 0); [discriminate|]. intros H.
    apply bind_ok in H. destruct H as [[vv r3] [E1 H]]. beta_pair in H.
    apply decode_bytes_bstr_at in E1.
    destruct vv as [|c vv].
    + destruct (N.eqb_spec items 3) as [Ei|Ei]; cbn [negb] in H; [|discriminate].
      destruct (read_locs_sound total _ _ _ _ _ _ _ _ _ H1 H2 H) as [pairs [LP [Hk [Hf El]]]].
      exists r3, pairs. split; [|auto].
      exists []. split; [exact E1|]. split; [lia|]. intros _. exact Hk.
    + apply bind_ok in H. destruct H as [vs [E2 H]].
      apply bind_ok in H. destruct H as [nk [E3 H]].
      destruct (N.eqb_spec items (2 * nk + 1)) as [Ei|Ei]; cbn [negb] in H; [|discriminate].
      destruct (read_locs_sound total _ _ _ _ _ _ _ _ _ H1 H2 H) as [pairs [LP [Hk [Hf El]]]].
      exists r3, pairs. split; [|auto].
      exists (c :: vv). split; [exact E1|]. split; [lia|]. discriminate.
  - destruct (N.eqb_spec items 2) as [Ei|Ei]; cbn [negb]; [|discriminate]. intros H.
    destruct (read_locs_sound total _ _ _ _ _ _ _ _ _ H1 H2 H) as [pairs [LP [Hk [Hf El]]]].
    exists r2, pairs. split; [|auto]. auto.
Qed.

Lemma flatten_index_cons u ls t :
  flatten_index ((u, ls) :: t) = map (fun ol => (u, fst ol, snd ol)) ls ++ flatten_index t.
Proof. reflexivity. Qed.

Lemma parse_index_sound (total : N) : forall fuel v n bs rl ro acc taint ls t',
  ro + rl <= total -> total < two64 ->
  parse_index fuel v n bs rl ro acc taint = Ok (ls, t') ->
  exists ents rest,
    IndexEntries v bs ents rest /\ n = lenN ents /\
    Forall (fun e => Forall (fits rl) (snd e)) ents /\
    ls = acc ++ map (mkloc ro) (flatten_index ents).
Proof.
  induction fuel as [|f IH]; intros v n bs rl ro acc taint ls t' H1 H2 H; [discriminate|].
  rewrite parse_index_S in H. destruct (N.eqb_spec n 0) as [En|En].
  - inversion H; subst. exists [], bs. cbn [flatten_index flat_map map lenN]. rewrite app_nil_r.
    repeat split; constructor.
  - apply bind_ok in H. destruct H as [[u r1] [E1 H]]. beta_pair in H.
    destruct (negb (fst (index_url_ok u))); [discriminate|].
    apply bind_ok in H. destruct H as [[items r2] [E2 H]]. beta_pair in H.
    apply bind_ok in H. destruct H as [[ls1 r4] [E3 H]]. beta_pair in H.
    destruct (index_value_sound total _ _ _ _ _ _ _ _ H1 H2 E3) as [r3 [pairs [Hv [LP [Hf El]]]]].
    destruct (IH _ _ _ _ _ _ _ _ _ H1 H2 H) as [ents [rest [IE [Hn [Hfs Els]]]]].
    exists ((u, pairs) :: ents), rest.
    split.
    { eapply IE_cons; [apply decode_text_tstr_at; exact E1
                      |apply decode_array_header_head_at; exact E2
                      |exact Hv|exact LP|exact IE]. }
    split; [cbn [lenN]; lia|]. split; [constructor; [exact Hf|exact Hfs]|].
    rewrite Els, flatten_index_cons, map_app, map_map, <- app_assoc, El. reflexivity.
Qed.

Lemma Forall2_map_l {A B C} (f : A -> B) (P : B -> C -> Prop) (l : list A) (l' : list C) :
  Forall2 P (map f l) l' -> Forall2 (fun a c => P (f a) c) l l'.
Proof.
  revert l'. induction l as [|a l IH]; intros l' H; cbn [map] in H; inversion H; subst; constructor; auto.
Qed.

Lemma Forall2_impl_in {A B} (P Q : A -> B -> Prop) (l : list A) (l' : list B) :
  Forall2 P l l' -> (forall a b, In a l -> P a b -> Q a b) -> Forall2 Q l l'.
Proof.
  induction 1 as [|a b l l' Hp HF IH]; intros K; constructor.
  - apply K; [left; reflexivity|exact Hp].
  - apply IH. intros a' b' Hi. apply K. right. exact Hi.
Qed.

Lemma in_flatten_fits rl ents u o l :
  Forall (fun e => Forall (fits rl) (snd e)) ents ->
  In (u, o, l) (flatten_index ents) -> o + l <= rl.
Proof.
  intros HF Hi. unfold flatten_index in Hi. apply in_flat_map in Hi.
  destruct Hi as [e [He Hi]]. apply in_map_iff in Hi. destruct Hi as [[o' l'] [E Hi]].
  inversion E; subst. rewrite Forall_forall in HF. specialize (HF _ He).
  rewrite Forall_forall in HF. apply (HF _ Hi).
Qed.

Section Read.
  Variable x509_ok : bytes -> bool.

  (* C05, main statement *)
  Theorem read_sound (bs : bytes) (b : bundle) :
    lenN bs < two64 -> b_read x509_ok bs = Ok b -> Extracts bs b.
  Proof.
    intros Hlen H. unfold b_read in H.
    apply bind_ok in H. destruct H as [[v m] [Em H]]. beta_pair in H.
    apply bind_ok in H. destruct H as [xs [Ex H]]. inversion H; subst b. clear H.
    destruct (load_metadata_layout x509_ok bs v m Hlen Em) as [fb [t0 [ss [sos [before [rl F]]]]]].
    pose proof (layout_locs x509_ok _ _ _ _ _ _ _ _ _ Hlen F) as L. destruct F.
    assert (Hfit : ss + sum_lens before + rl <= lenN bs).
    { pose proof (section_span_bound _ _ _ _ lf_span). lia. }
    unfold Extracts. cbn [b_ver b_exchanges].
    exists fb, ss, sos, before, rl.
    split; [exact (load_header_sound _ _ _ _ _ _ lf_header lf_fit)|].
    split; [exact lf_last|]. split; [exact lf_span|]. cbv zeta. split; [exact Hfit|].
    (* the locations, as relative (url, offset, length) triples *)
    assert (Hlocs : exists locs,
               IndexLocations bs v ss sos locs /\
               m_locs m = map (mkloc (ss + sum_lens before)) locs /\
               (forall u o l, In (u, o, l) locs -> o + l <= rl)).
    { unfold IndexLocations. destruct (section_span sos sec_index) as [[io il]|].
      - destruct L as [contents [taint [tn [Hsub [Hb Hi]]]]].
        unfold index_result in Hi. rewrite lf_find in Hi.
        apply bind_ok in Hi. destruct Hi as [[n r] [E1 Hi]]. beta_pair in Hi.
        rewrite w64_small in Hi by lia.
        destruct (parse_index_sound (lenN bs) _ _ _ _ _ _ _ _ _ _ Hfit Hlen Hi)
          as [ents [rest [IE [Hn [Hfs El]]]]].
        cbn [app] in El. exists (flatten_index ents).
        split; [exists contents, n, r, ents, rest;
                repeat split; [exact Hsub|apply decode_map_header_head_at; exact E1
                              |exact IE|exact Hn]|].
        split; [exact El|]. intros u o l Hi'. eapply in_flatten_fits; eassumption.
      - exists []. split; [reflexivity|]. split; [exact L|]. intros u o l []. }
    destruct Hlocs as [locs [HIL [Eml Hfits]]].
    exists locs. split; [exact HIL|].
    assert (Hb : Forall (in_bounds (ss + sum_lens before) rl) (m_locs m)).
    { rewrite Eml. apply Forall_forall. intros l Hi. apply in_map_iff in Hi.
      destruct Hi as [[[u o] len] [E Hi]]. subst l. specialize (Hfits _ _ _ Hi).
      unfold in_bounds, mkloc. cbn [l_off l_len fst snd]. lia. }
    destruct (load_all_sound bs _ _ _ _ _ Hfit Hlen Hb Ex) as [xs' [Exs F2]].
    cbn [rev app] in Exs. subst xs'. rewrite Eml in F2. apply Forall2_map_l in F2.
    eapply Forall2_impl_in; [exact F2|].
    intros [[u o] l] x Hi [Hu [item [Hsub Hr]]]. unfold mkloc in Hu, Hsub. cbn [l_url l_off l_len fst snd] in Hu, Hsub.
    specialize (Hfits _ _ _ Hi).
    split; [exact Hu|]. split; [exact Hfits|]. split; [lia|]. split; [lia|].
    split; [lia|]. exists item. split; [exact Hsub|]. apply load_response_sound. exact Hr.
  Qed.

  (* "never fabricates content", spelled out for the body and the URL *)
  Lemma head_at_suffix mt n bs rest : head_at mt n bs rest -> exists h, bs = h ++ rest.
  Proof.
    clear x509_ok. intros [w H]. destruct (shead_consumes _ _ _ _ _ H) as [h [E _]]. eauto.
  Qed.

  Lemma response_item_body_inside item st h body :
    ResponseItem item st h body -> exists pre, item = pre ++ body.
  Proof.
    clear x509_ok. intros [hc [r0 [r1 [E [B1 [B2 _]]]]]].
    apply head_at_suffix in B1. apply head_at_suffix in B2.
    destruct B1 as [h1 E1]. destruct B2 as [h2 E2]. rewrite app_nil_r in E2.
    exists (130 :: h1 ++ hc ++ h2). subst item r0 r1. cbn [app]. rewrite <- !app_assoc. reflexivity.
  Qed.

  Theorem read_bodies_in_input (bs : bytes) (b : bundle) :
    lenN bs < two64 -> b_read x509_ok bs = Ok b ->
    Forall (fun x => exists pre post, bs = pre ++ bx_body x ++ post) (b_exchanges b).
  Proof.
    intros Hlen H. destruct (read_sound bs b Hlen H)
      as [fb [ss [sos [before [rl [_ [_ [_ [_ [locs [_ F2]]]]]]]]]]].
    cbv zeta in F2. induction F2 as [|[[u o] l] x locs' xs' Hx F2 IH]; constructor; [|exact IH].
    destruct Hx as [_ [_ [_ [_ [_ [item [[pre [post [E _]]] RI]]]]]]].
    destruct (response_item_body_inside _ _ _ _ RI) as [p Ei].
    exists (pre ++ p), post. rewrite E, Ei, <- !app_assoc. reflexivity.
  Qed.
End Read.
