(* Proofs/SxgRoundtripVerify.v - C02, the Verify half, part 1: the verdict of
   Exchange.Verify is the same on an exchange and on what a reader hands back
   after Write / ReadExchange (canon_exchange).

   Verify looks at the exchange through
     (a) the signed message (header CBOR: order- and case-independent),
     (b) Header.Get-style lookups of four names in the RESPONSE map
         (Content-Type, Cache-Control, Expires for b3; the digest header),
     (c) the header names, lower-cased, against the banned lists,
     (d) uri, method, status, payload, Signature header (untouched by canon).
   (b) is where an http.Header differs from the wire: the lookup is an exact
   match of the canonical spelling against the MAP KEY.  A map holding the
   key "content-type" (set by direct map assignment, not by Add/Set) has no
   Content-Type for Verify, but it is signed, written and read back as
   "Content-Type".  Hence the one side condition [lookup_stable]: an entry
   whose name is, ignoring case, one of the names Verify looks up is spelled
   canonically.  Nothing else is needed: no token names, no distinctness, no
   taint condition (if the names are not distinct after lower-casing nothing
   can be signed and both verdicts are the same failure). *)
From Coq Require Import Lia ZifyN ZifyNat ZifyBool Permutation.
From WP Require Import Base.Prelude Base.Decimal.
From WP Require Import Model.Cbor Model.BigEndian Model.Http Model.Url Model.Mice Model.StructHdr Model.CertChain
                       Model.Sxg.
From WP Require Import Proofs.BaseLemmas Proofs.CborMap Proofs.SxgCanon Proofs.SxgLoop
                       Proofs.SxgReadDefs Proofs.SxgRoundtrip.
Open Scope N_scope.

(* ---- the side condition ------------------------------------------------------------ *)
(* every entry named k up to letter case has exactly the key Header.Get(k) uses *)
Definition key_stable (h : headers) (k : bytes) : bool :=
  forallb (fun nv => implb (bytes_eqb (lower (fst nv)) (lower k))
                           (bytes_eqb (fst nv) (canonical_key k))) h.

(* the names Verify looks up in the response headers of a version-v exchange *)
Definition looked_up (v : version) : list bytes :=
  digest_header_name (mice_of v)
  :: (if has_request v then [] else [s2b "Content-Type"; s2b "Cache-Control"; s2b "Expires"]).

Definition lookup_stable (e : exchange) : bool :=
  forallb (key_stable (e_resph e)) (looked_up (e_ver e)).

(* the usual sufficient condition: the map was built with Header.Add / Set,
   i.e. every key is its own canonical form *)
Definition canonical_keys (h : headers) : bool :=
  forallb (fun nv => bytes_eqb (canonical_key (fst nv)) (fst nv)) h.

(* ---- canonical keys and letter case -------------------------------------------------- *)
Lemma lower_byte_dash (c : N) : (lower_byte c =? 45) = (c =? 45).
Proof. unfold lower_byte. destruct ((65 <=? c) && (c <=? 90)) eqn:E; [|reflexivity]. lia. Qed.

Lemma canon_go_lower (s : bytes) : forall u, canon_go (lower s) u = canon_go s u.
Proof.
  induction s as [|c r IH]; intros u; [reflexivity|].
  cbn [lower map canon_go]. fold (lower r). rewrite IH, lower_byte_dash. f_equal.
  unfold lower_byte, is_lower_b, is_upper_b.
  destruct u; cbn [andb negb];
    repeat match goal with |- context [if ?b then _ else _] => destruct b eqn:? end; lia.
Qed.

Lemma is_tchar_lower_eq (c : N) : is_tchar (lower_byte c) = is_tchar c.
Proof.
  unfold lower_byte. destruct ((65 <=? c) && (c <=? 90)) eqn:E; [|reflexivity].
  unfold is_tchar, is_digit_b, is_lower_b, is_upper_b. cbn [existsb].
  replace ((65 <=? c) && (c <=? 90)) with true.
  replace ((97 <=? c + 32) && (c + 32 <=? 122)) with true by lia.
  rewrite !orb_true_r. reflexivity.
Qed.

Lemma tchar_lower_eq (s : bytes) : forallb is_tchar (lower s) = forallb is_tchar s.
Proof.
  induction s as [|c r IH]; [reflexivity|]. cbn [lower map forallb]. fold (lower r).
  rewrite IH, is_tchar_lower_eq. reflexivity.
Qed.

(* for a token, the canonical key depends on the name up to letter case only *)
Lemma canonical_key_lower (s : bytes) :
  forallb is_tchar s = true -> canonical_key (lower s) = canonical_key s.
Proof.
  intros Hs. unfold canonical_key. rewrite tchar_lower_eq, Hs. apply canon_go_lower.
Qed.

Lemma canonical_keys_stable (h : headers) (k : bytes) :
  forallb is_tchar k = true -> canonical_keys h = true -> key_stable h k = true.
Proof.
  intros Hk Hc. unfold key_stable, canonical_keys in *. apply forallb_forall. intros [n vs] Hin.
  rewrite forallb_forall in Hc. specialize (Hc _ Hin). cbn [fst] in *.
  destruct (bytes_eqb (lower n) (lower k)) eqn:E; [cbn [implb]|reflexivity].
  apply bytes_eqb_eq in E. apply bytes_eqb_eq in Hc. apply bytes_eqb_eq.
  assert (Hn : forallb is_tchar n = true) by (rewrite <- tchar_lower_eq, E, tchar_lower_eq; exact Hk).
  rewrite <- Hc, <- (canonical_key_lower n Hn), E. apply canonical_key_lower. exact Hk.
Qed.

Lemma looked_up_tokens (v : version) : forallb (forallb is_tchar) (looked_up v) = true.
Proof. destruct v; reflexivity. Qed.

Theorem canonical_keys_lookup_stable (e : exchange) :
  canonical_keys (e_resph e) = true -> lookup_stable e = true.
Proof.
  intros Hc. unfold lookup_stable. apply forallb_forall. intros k Hk.
  apply canonical_keys_stable; [|exact Hc].
  pose proof (looked_up_tokens (e_ver e)) as Ht. rewrite forallb_forall in Ht. exact (Ht k Hk).
Qed.

(* ---- association-list lookup ------------------------------------------------------------ *)
Lemma lookup_notin (h : headers) (k : bytes) : ~ In k (map fst h) -> hdr_lookup h k = [].
Proof.
  induction h as [|[k' vs] t IH]; intros Hn; cbn [hdr_lookup]; [reflexivity|].
  cbn [map fst] in Hn. destruct (bytes_eqb k' k) eqn:E.
  - apply bytes_eqb_eq in E. subst k'. exfalso. apply Hn. left. reflexivity.
  - apply IH. intros Hin. apply Hn. right. exact Hin.
Qed.

Lemma lookup_in (h : headers) (k : bytes) (vs : list bytes) :
  NoDup (map fst h) -> In (k, vs) h -> hdr_lookup h k = vs.
Proof.
  induction h as [|[k' vs'] t IH]; intros Hnd Hin; [destruct Hin|].
  cbn [map fst] in Hnd. inversion Hnd as [|? ? Hni Hnd']; subst. cbn [hdr_lookup].
  destruct Hin as [E|Hin].
  - injection E as -> ->. rewrite bytes_eqb_refl. reflexivity.
  - destruct (bytes_eqb k' k) eqn:E; [|apply IH; assumption].
    apply bytes_eqb_eq in E. subst k'. exfalso. apply Hni.
    change k with (fst (k, vs)). apply in_map. exact Hin.
Qed.

Lemma nodup_names (h : headers) :
  NoDup (map (fun nv => lower (fst nv)) h) -> NoDup (map fst h).
Proof.
  intros Hn. apply (NoDup_map_via (fun nv : bytes * list bytes => lower (fst nv)) fst h Hn).
  intros x y E. rewrite E. reflexivity.
Qed.

Lemma nodup_canon_names (h : headers) :
  NoDup (map (fun nv => lower (fst nv)) h) -> NoDup (map fst (canon_headers h)).
Proof.
  intros Hn. unfold canon_headers. rewrite map_map.
  eapply Permutation_NoDup; [apply Permutation_map, Permutation_sym, isort_perm|].
  apply (NoDup_map_via (fun nv : bytes * list bytes => lower (fst nv))); [exact Hn|].
  intros [n vs] [n' vs'] E. cbn [canon_field fst] in *.
  apply (f_equal lower) in E. rewrite !lower_canonical_key, !lower_idem in E. exact E.
Qed.

Lemma in_canon_headers (h : headers) (nv : bytes * list bytes) :
  In nv (canon_headers h) <-> exists nv0, In nv0 h /\ nv = canon_field nv0.
Proof.
  unfold canon_headers. rewrite in_map_iff. split.
  - intros [x [E Hin]]. exists x. split; [|symmetry; exact E].
    eapply Permutation_in; [apply isort_perm|exact Hin].
  - intros [x [Hin E]]. exists x. split; [symmetry; exact E|].
    eapply Permutation_in; [apply Permutation_sym, isort_perm|exact Hin].
Qed.

Lemma bytes_in_dec (k : bytes) (l : list bytes) : {In k l} + {~ In k l}.
Proof. apply in_dec. apply list_eq_dec. apply N.eq_dec. Qed.

(* ---- Header.Get / headerValue on the canonical map -------------------------------------- *)
(* the lookup of a canonical key in the canonical map: the joined value, once *)
Lemma lookup_canon_headers (h : headers) (ck : bytes) :
  NoDup (map (fun nv => lower (fst nv)) h) ->
  canonical_key (lower ck) = ck ->
  (forall nv, In nv h -> lower (fst nv) = lower ck -> fst nv = ck) ->
  hdr_lookup (canon_headers h) ck
  = if bytes_in_dec ck (map fst h) then [join_comma (hdr_lookup h ck)] else [].
Proof.
  intros Hnd Hck Hst. destruct (bytes_in_dec ck (map fst h)) as [Hin|Hni].
  - apply in_map_iff in Hin. destruct Hin as [[n vs] [E Hin]]. cbn [fst] in E. subst n.
    rewrite (lookup_in h ck vs (nodup_names h Hnd) Hin).
    apply lookup_in; [apply nodup_canon_names; exact Hnd|].
    apply in_canon_headers. exists (ck, vs). split; [exact Hin|].
    unfold canon_field. cbn [fst snd]. rewrite Hck. reflexivity.
  - apply lookup_notin. intros Hin. apply in_map_iff in Hin. destruct Hin as [nv [E Hin]].
    apply in_canon_headers in Hin. destruct Hin as [[n vs] [Hin0 Env]]. subst nv.
    cbn [canon_field fst] in E.
    assert (El : lower n = lower ck).
    { apply (f_equal lower) in E. rewrite lower_canonical_key, lower_idem in E. exact E. }
    specialize (Hst (n, vs) Hin0 El). cbn [fst] in Hst. subst n.
    apply Hni. change ck with (fst (ck, vs)). apply in_map. exact Hin0.
Qed.

Lemma key_stable_inv (h : headers) (k : bytes) : key_stable h k = true ->
  forall nv, In nv h -> lower (fst nv) = lower (canonical_key k) -> fst nv = canonical_key k.
Proof.
  intros Hs nv Hin E. unfold key_stable in Hs. rewrite forallb_forall in Hs. specialize (Hs nv Hin).
  rewrite lower_canonical_key in E. rewrite E, bytes_eqb_refl in Hs. cbn [implb] in Hs.
  apply bytes_eqb_eq. exact Hs.
Qed.

(* headerValue (the comma-joined list) is the same before and after *)
Theorem hdr_value_canon (h : headers) (k : bytes) :
  NoDup (map (fun nv => lower (fst nv)) h) ->
  canonical_key (lower (canonical_key k)) = canonical_key k ->
  key_stable h k = true ->
  hdr_value (canon_headers h) k = hdr_value h k.
Proof.
  intros Hnd Hck Hs. unfold hdr_value, hdr_values.
  rewrite (lookup_canon_headers h (canonical_key k) Hnd Hck (key_stable_inv h k Hs)).
  destruct (bytes_in_dec (canonical_key k) (map fst h)) as [Hin|Hni].
  - reflexivity.
  - rewrite (lookup_notin h _ Hni). reflexivity.
Qed.

(* every token name qualifies *)
Lemma canon_go_idem (s : bytes) : forall u, canon_go (canon_go s u) u = canon_go s u.
Proof.
  induction s as [|c r IH]; intros u; [reflexivity|]. cbn [canon_go].
  assert (Ed : forall c', c' = (if u && is_lower_b c then c - 32
                               else if negb u && is_upper_b c then c + 32 else c) ->
               (c' =? 45) = (c =? 45) /\
               (if u && is_lower_b c' then c' - 32
                else if negb u && is_upper_b c' then c' + 32 else c') = c').
  { intros c' ->. unfold is_lower_b, is_upper_b.
    destruct u; cbn [andb negb];
      repeat match goal with |- context [if ?b then _ else _] => destruct b eqn:? end; lia. }
  destruct (Ed _ eq_refl) as [E1 E2]. rewrite E1, E2, IH. reflexivity.
Qed.

Lemma canonical_key_token_fix (k : bytes) :
  forallb is_tchar k = true -> canonical_key (lower (canonical_key k)) = canonical_key k.
Proof.
  intros Hk. unfold canonical_key at 2 3. rewrite Hk.
  pose proof (canon_go_tchar k true Hk) as Hc.
  rewrite (canonical_key_lower _ Hc). unfold canonical_key. rewrite Hc. apply canon_go_idem.
Qed.

(* ---- (a) the signed header block --------------------------------------------------------- *)
Lemma encode_headers_canon (e : exchange) :
  encode_exchange_headers (canon_exchange e) = encode_exchange_headers e.
Proof.
  assert (Hq : encode_request_map (canon_exchange e) = encode_request_map e).
  { unfold encode_request_map. cbn [canon_exchange e_ver e_uri e_method e_reqh].
    apply enc_map_perm. apply Permutation_app_head, Permutation_app_head, header_entries_canon. }
  assert (Hs : encode_response_map (canon_exchange e) = encode_response_map e).
  { unfold encode_response_map. cbn [canon_exchange e_status e_resph].
    apply enc_map_perm. apply perm_skip, header_entries_canon. }
  unfold encode_exchange_headers. rewrite Hq, Hs. reflexivity.
Qed.

Lemma signed_message_canon (e : exchange) cs v d x :
  signed_message (canon_exchange e) cs v d x = signed_message e cs v d x.
Proof.
  unfold signed_message. rewrite encode_headers_canon. reflexivity.
Qed.

Lemma signed_message_ok_headers (e : exchange) cs v d x m :
  signed_message e cs v d x = Ok m -> exists hdr, encode_exchange_headers e = Ok hdr.
Proof.
  unfold signed_message. intros H.
  destruct (encode_exchange_headers e) as [hdr| | |] eqn:E; [exists hdr; reflexivity| | |]; exfalso;
    destruct (e_ver e); cbn [bind] in H; try discriminate H;
    destruct (be_encode (Z.of_N (lenN v)) 8); cbn [bind] in H; try discriminate H;
    destruct (be_encode d 8); cbn [bind] in H; try discriminate H;
    destruct (be_encode x 8); cbn [bind] in H; try discriminate H;
    destruct (be_encode (Z.of_N (lenN (e_uri e))) 8); cbn [bind] in H; discriminate H.
Qed.

(* what can be signed has response names distinct up to letter case *)
Lemma encode_headers_ok_nodup (e : exchange) (hdr : bytes) :
  encode_exchange_headers e = Ok hdr -> NoDup (map (fun nv => lower (fst nv)) (e_resph e)).
Proof.
  intros H. destruct (encode_headers_inv e hdr H) as (rs & Ers & _).
  rewrite encode_response_map_pairs in Ers.
  pose proof (enc_map_ok_nodup _ _ Ers) as Hn. unfold resp_pairs in Hn. cbn [map] in Hn.
  inversion Hn; subst. rewrite <- raw_names. assumption.
Qed.

(* ---- (c) the banned lists ----------------------------------------------------------------- *)
Lemma existsb_perm {A} (p : A -> bool) (l l' : list A) :
  Permutation l l' -> existsb p l = existsb p l'.
Proof.
  induction 1 as [|x l l' _ IH|x y l|l l' l'' _ IH1 _ IH2]; cbn [existsb].
  - reflexivity.
  - rewrite IH. reflexivity.
  - destruct (p x), (p y); reflexivity.
  - congruence.
Qed.

Lemma existsb_map {A B} (p : B -> bool) (f : A -> B) (l : list A) :
  existsb p (map f l) = existsb (fun a => p (f a)) l.
Proof. induction l as [|x t IH]; [reflexivity|]. cbn [map existsb]. rewrite IH. reflexivity. Qed.

Lemma existsb_names_canon (p : bytes -> bool) (h : headers) :
  (forall n, p (canonical_key (lower n)) = p n) ->
  existsb (fun nv => p (fst nv)) (canon_headers h) = existsb (fun nv => p (fst nv)) h.
Proof.
  intros Hp. unfold canon_headers. rewrite existsb_map.
  rewrite (existsb_perm _ _ _ (isort_perm lt_name h)).
  induction h as [|[n vs] t IH]; [reflexivity|]. cbn [existsb]. rewrite IH. f_equal.
  exact (Hp n).
Qed.

Lemma verify_headers_canon (e : exchange) : verify_headers (canon_exchange e) = verify_headers e.
Proof.
  unfold verify_headers. cbn [canon_exchange e_reqh e_resph].
  rewrite (existsb_names_canon is_stateful_request_header), (existsb_names_canon is_uncached_header).
  - reflexivity.
  - intros n. unfold is_uncached_header. rewrite lower_canonical_key, lower_idem. reflexivity.
  - intros n. unfold is_stateful_request_header. rewrite lower_canonical_key, lower_idem. reflexivity.
Qed.

(* ---- (b) the lookups ------------------------------------------------------------------------ *)
Lemma lookup_stable_digest (e : exchange) : lookup_stable e = true ->
  key_stable (e_resph e) (digest_header_name (mice_of (e_ver e))) = true.
Proof. unfold lookup_stable, looked_up. cbn [forallb]. intros H. apply andb_true_iff in H. tauto. Qed.

Lemma lookup_stable_b3 (e : exchange) : lookup_stable e = true -> has_request (e_ver e) = false ->
  key_stable (e_resph e) (s2b "Content-Type") = true /\
  key_stable (e_resph e) (s2b "Cache-Control") = true /\
  key_stable (e_resph e) (s2b "Expires") = true.
Proof.
  unfold lookup_stable, looked_up. intros H Hr. rewrite Hr in H. cbn [forallb] in H.
  rewrite !andb_true_iff in H. tauto.
Qed.

Lemma digest_name_fix (v : version) :
  canonical_key (lower (canonical_key (digest_header_name (mice_of v))))
  = canonical_key (digest_header_name (mice_of v)).
Proof. destruct v; reflexivity. Qed.

Section Invariant.
  Variable H256 : bytes -> bytes.
  Variable x509_key : bytes -> option (option N).
  Variable sig_ok : N -> bytes -> bytes -> bool.
  Variable status_known : Z -> bool.
  Variable fetch : bytes -> R bytes.

  Notation vsig := (verify_signature H256 x509_key sig_ok fetch).
  Notation vsigs := (verify_sigs H256 x509_key sig_ok status_known fetch).
  Notation vfy := (verify H256 x509_key sig_ok status_known fetch).

  Lemma verify_payload_canon (e : exchange) (s : signature) :
    NoDup (map (fun nv => lower (fst nv)) (e_resph e)) -> lookup_stable e = true ->
    verify_payload H256 (canon_exchange e) s = verify_payload H256 e s.
  Proof.
    intros Hnd Hs. unfold verify_payload. cbn [canon_exchange e_ver e_resph e_payload].
    rewrite (hdr_value_canon _ _ Hnd (digest_name_fix (e_ver e)) (lookup_stable_digest e Hs)).
    reflexivity.
  Qed.

  Lemma is_cacheable_canon (e : exchange) :
    NoDup (map (fun nv => lower (fst nv)) (e_resph e)) -> lookup_stable e = true ->
    has_request (e_ver e) = false ->
    is_cacheable status_known (canon_exchange e) = is_cacheable status_known e.
  Proof.
    intros Hnd Hs Hr. destruct (lookup_stable_b3 e Hs Hr) as (_ & Hcc & Hex).
    unfold is_cacheable. cbn [canon_exchange e_status e_resph].
    rewrite (hdr_value_canon _ (s2b "Cache-Control") Hnd eq_refl Hcc).
    rewrite (hdr_value_canon _ (s2b "Expires") Hnd eq_refl Hex). reflexivity.
  Qed.

  (* a signature that verifies means the header block could be encoded *)
  Lemma vsig_some_nodup (e : exchange) (tsec tnsec : Z) (s : signature) (p : bytes) :
    vsig e tsec tnsec s = Some p -> NoDup (map (fun nv => lower (fst nv)) (e_resph e)).
  Proof.
    unfold verify_signature. intros H.
    destruct (fetch (s_cert_url s)) as [cb| | |]; try discriminate H.
    destruct (cc_read _ cb) as [[|main rest]| | |]; try discriminate H.
    destruct (x509_key (ac_cert main)) as [[kid|]|]; try discriminate H.
    destruct (negb (verify_timestamps (s_date s) (s_expires s) tsec tnsec)); try discriminate H.
    destruct (signed_message e _ _ _ _) as [msg| | |] eqn:Em; try discriminate H.
    destruct (signed_message_ok_headers _ _ _ _ _ _ Em) as [hdr Eh].
    exact (encode_headers_ok_nodup e hdr Eh).
  Qed.

  Lemma verify_signature_canon (e : exchange) (tsec tnsec : Z) (s : signature) :
    lookup_stable e = true ->
    vsig (canon_exchange e) tsec tnsec s = vsig e tsec tnsec s.
  Proof.
    intros Hs. unfold verify_signature.
    destruct (fetch (s_cert_url s)) as [cb| | |]; try reflexivity.
    destruct (cc_read _ cb) as [[|main rest]| | |]; try reflexivity.
    destruct (x509_key (ac_cert main)) as [[kid|]|]; try reflexivity.
    destruct (negb (verify_timestamps (s_date s) (s_expires s) tsec tnsec)); try reflexivity.
    rewrite signed_message_canon.
    destruct (signed_message e _ _ _ _) as [msg| | |] eqn:Em; try reflexivity.
    destruct (signed_message_ok_headers _ _ _ _ _ _ Em) as [hdr Eh].
    pose proof (encode_headers_ok_nodup e hdr Eh) as Hnd.
    rewrite (verify_payload_canon e s Hnd Hs).
    change (e_ver (canon_exchange e)) with (e_ver e).
    change (e_resph (canon_exchange e)) with (canon_headers (e_resph e)).
    destruct (has_request (e_ver e)) eqn:Er; [reflexivity|].
    destruct (lookup_stable_b3 e Hs Er) as (Hct & _ & _).
    rewrite (hdr_value_canon _ (s2b "Content-Type") Hnd eq_refl Hct). reflexivity.
  Qed.

  Lemma verify_sigs_canon (e : exchange) (tsec tnsec : Z) : lookup_stable e = true ->
    forall sigs t, vsigs (canon_exchange e) tsec tnsec sigs t = vsigs e tsec tnsec sigs t.
  Proof.
    intros Hs. induction sigs as [|pi rest IH]; intros t; [reflexivity|].
    cbn [verify_sigs]. cbv zeta. destruct (extract_signature pi) as [s|]; [|apply IH].
    change (e_uri (canon_exchange e)) with (e_uri e).
    change (e_ver (canon_exchange e)) with (e_ver e).
    change (e_method (canon_exchange e)) with (e_method e).
    rewrite verify_signature_canon by exact Hs. rewrite verify_headers_canon.
    destruct (same_origin (s_validity s) (e_uri e)) as [[[|]|]|]; rewrite ?IH; try reflexivity;
      (destruct (vsig e tsec tnsec s) as [p|] eqn:Ev; [|reflexivity]);
      pose proof (vsig_some_nodup _ _ _ _ _ Ev) as Hnd;
      (destruct (has_request (e_ver e)) eqn:Er;
       [reflexivity|rewrite (is_cacheable_canon e Hnd Hs Er); reflexivity]).
  Qed.

  (* C02: the verdict is the same on the exchange and on its canonical (read back) form *)
  Theorem verify_canon_invariant (e : exchange) (tsec tnsec : Z) :
    lookup_stable e = true ->
    vfy (canon_exchange e) tsec tnsec = vfy e tsec tnsec.
  Proof.
    intros Hs. unfold verify. change (e_sig (canon_exchange e)) with (e_sig e).
    change (e_taint (canon_exchange e)) with (e_taint e).
    destruct (parse_parameterised_list (e_sig e)); try reflexivity.
    apply verify_sigs_canon. exact Hs.
  Qed.

  Corollary verify_canon_invariant_canonical (e : exchange) (tsec tnsec : Z) :
    canonical_keys (e_resph e) = true ->
    vfy (canon_exchange e) tsec tnsec = vfy e tsec tnsec.
  Proof. intros Hc. apply verify_canon_invariant, canonical_keys_lookup_stable, Hc. Qed.

  (* ... hence before and after Write / ReadExchange *)
  Theorem verdict_same_after_roundtrip (e : exchange) (bs : bytes) :
    readable e = true -> write e = Ok bs -> lookup_stable e = true ->
    exists e', read bs = Ok e' /\
      forall tsec tnsec, vfy e' tsec tnsec = vfy e tsec tnsec.
  Proof.
    intros Hr Hw Hs. exists (canon_exchange e). split; [apply write_read; assumption|].
    intros tsec tnsec. apply verify_canon_invariant. exact Hs.
  Qed.

  (* a second generation changes nothing any more: the reader's result is stable *)
  Lemma canon_headers_canonical (h : headers) :
    headers_ok h = true -> canonical_keys (canon_headers h) = true.
  Proof.
    intros Hok. pose proof (headers_ok_inv h Hok) as Hn. unfold canonical_keys.
    apply forallb_forall. intros nv Hin. apply in_canon_headers in Hin.
    destruct Hin as [[n vs] [Hin ->]]. cbn [canon_field fst]. apply bytes_eqb_eq.
    rewrite Forall_forall in Hn. specialize (Hn _ Hin). cbn [fst] in Hn. unfold name_ok in Hn.
    pose proof (name_lower_tchar n Hn) as Hl.
    unfold canonical_key at 2 3. rewrite Hl.
    pose proof (canon_go_tchar (lower n) true Hl) as Hc.
    unfold canonical_key. rewrite Hc. apply canon_go_idem.
  Qed.

  Theorem read_back_lookup_stable (e : exchange) :
    readable e = true -> lookup_stable (canon_exchange e) = true.
  Proof.
    intros Hr. apply canonical_keys_lookup_stable. cbn [canon_exchange e_resph].
    apply canon_headers_canonical. destruct (readable_inv e Hr) as (_ & Hs & _). exact Hs.
  Qed.
End Invariant.
