(* Proofs/SxgRoundtripVerify.v - C02, the Verify half, part 1: the verdict of
   Exchange.Verify is the same on an exchange and on what a reader hands back
   after Write / ReadExchange (canon_exchange) - for EVERY exchange, no side
   condition.

   Verify looks at the exchange through
     (a) the signed message (header CBOR: order- and case-independent),
     (b) headerValue lookups of four names in the RESPONSE map (Content-Type,
         Cache-Control, Expires for b3; the digest header), which since the
         repair of F19 are case-insensitive in the map key (hdr_value_ci),
     (c) the header names, lower-cased, against the banned lists,
     (d) uri, method, status, payload, Signature header (untouched by canon).
   For (b): when the names of the response map are distinct up to letter case,
   hdr_value_ci h k = hdr_value_ci (canon_headers h) k  (hdr_value_ci_canon);
   when they are not, the header block cannot be encoded, no signature can
   verify, and the lookups are never consulted: both verdicts are the same
   failure.  (Before the repair the lookup matched the map key exactly and the
   theorem needed a side condition, "lookup_stable", with witnesses low_ct /
   low_cc that it was needed; see SxgRoundtripVerifyEx.v for what they do now.) *)
From Coq Require Import Lia ZifyN ZifyNat ZifyBool Permutation.
From WP Require Import Base.Prelude Base.Decimal.
From WP Require Import Model.Cbor Model.BigEndian Model.Http Model.Url Model.Mice Model.StructHdr Model.CertChain
                       Model.Sxg.
From WP Require Import Proofs.BaseLemmas Proofs.HdrCi Proofs.CborMap Proofs.SxgCanon Proofs.SxgLoop
                       Proofs.SxgReadDefs Proofs.SxgRoundtrip.
Open Scope N_scope.

(* ---- the canonical map ------------------------------------------------------------------ *)
Lemma in_canon_headers (h : headers) (nv : bytes * list bytes) :
  In nv (canon_headers h) <-> exists nv0, In nv0 h /\ nv = canon_field nv0.
Proof.
  unfold canon_headers. rewrite in_map_iff. split.
  - intros [x [E Hin]]. exists x. split; [|symmetry; exact E].
    eapply Permutation_in; [apply isort_perm|exact Hin].
  - intros [x [Hin E]]. exists x. split; [symmetry; exact E|].
    eapply Permutation_in; [apply Permutation_sym, isort_perm|exact Hin].
Qed.

Lemma lname_canon_field (nv : bytes * list bytes) : lname (canon_field nv) = lname nv.
Proof. unfold lname, canon_field. cbn [fst]. rewrite lower_canonical_key, lower_idem. reflexivity. Qed.

(* the names, up to letter case, are the same set *)
Lemma lnames_canon (h : headers) : Permutation (map lname (canon_headers h)) (map lname h).
Proof.
  unfold canon_headers. rewrite map_map.
  eapply perm_trans; [|apply Permutation_map, isort_perm].
  erewrite map_ext; [apply Permutation_refl|]. exact lname_canon_field.
Qed.

Lemma nodup_canon_lnames (h : headers) :
  NoDup (map lname h) -> NoDup (map lname (canon_headers h)).
Proof. intros Hn. eapply Permutation_NoDup; [apply Permutation_sym, lnames_canon|exact Hn]. Qed.

(* ---- (b) headerValue is the same before and after ------------------------------------------- *)
Theorem hdr_value_ci_canon (h : headers) (k : bytes) :
  NoDup (map lname h) -> hdr_value_ci (canon_headers h) k = hdr_value_ci h k.
Proof.
  intros Hnd. destruct (bytes_in_dec' (lower k) (map lname h)) as [Hin|Hni].
  - apply in_map_iff in Hin. destruct Hin as [[n vs] [E Hin]]. unfold lname in E. cbn [fst] in E.
    rewrite (hdr_value_ci_unique h k n vs Hnd Hin E).
    rewrite (hdr_value_ci_unique (canon_headers h) k (canonical_key (lower n)) [join_comma vs]
               (nodup_canon_lnames h Hnd)).
    + reflexivity.
    + apply in_canon_headers. exists (n, vs). split; [exact Hin|reflexivity].
    + rewrite lower_canonical_key, lower_idem. exact E.
  - rewrite (hdr_value_ci_none h k Hni). apply hdr_value_ci_none.
    intros Hin. apply Hni. eapply Permutation_in; [apply lnames_canon|exact Hin].
Qed.

(* ---- (a) the signed header block --------------------------------------------------------- *)
Lemma encode_headers_canon (e : exchange) :
  encode_exchange_headers (canon_exchange e) = encode_exchange_headers e.
Proof.
  assert (Hq : encode_request_map (canon_exchange e) = encode_request_map e).
  { unfold encode_request_map. cbn [canon_exchange e_ver e_uri e_method e_reqh].
    apply enc_map_perm. apply Permutation_app_head, Permutation_app_head, header_entries_canon. }
  assert (Hs : encode_response_map (canon_exchange e) = encode_response_map e).
  { unfold encode_response_map. cbn [canon_exchange e_status e_resph].
    apply enc_map_perm. apply perm_skip, header_entries_canon. }
  unfold encode_exchange_headers. rewrite Hq, Hs. reflexivity.
Qed.

Lemma signed_message_canon (e : exchange) cs v d x :
  signed_message (canon_exchange e) cs v d x = signed_message e cs v d x.
Proof.
  unfold signed_message. rewrite encode_headers_canon. reflexivity.
Qed.

Lemma signed_message_ok_headers (e : exchange) cs v d x m :
  signed_message e cs v d x = Ok m -> exists hdr, encode_exchange_headers e = Ok hdr.
Proof.
  unfold signed_message. intros H.
  destruct (encode_exchange_headers e) as [hdr| | |] eqn:E; [exists hdr; reflexivity| | |]; exfalso;
    destruct (e_ver e); cbn [bind] in H; try discriminate H;
    destruct (be_encode (Z.of_N (lenN v)) 8); cbn [bind] in H; try discriminate H;
    destruct (be_encode d 8); cbn [bind] in H; try discriminate H;
    destruct (be_encode x 8); cbn [bind] in H; try discriminate H;
    destruct (be_encode (Z.of_N (lenN (e_uri e))) 8); cbn [bind] in H; discriminate H.
Qed.

(* what can be signed has response names distinct up to letter case *)
Lemma encode_headers_ok_nodup (e : exchange) (hdr : bytes) :
  encode_exchange_headers e = Ok hdr -> NoDup (map lname (e_resph e)).
Proof.
  intros H. destruct (encode_headers_inv e hdr H) as (rs & Ers & _).
  rewrite encode_response_map_pairs in Ers.
  pose proof (enc_map_ok_nodup _ _ Ers) as Hn. unfold resp_pairs in Hn. cbn [map] in Hn.
  inversion Hn; subst. rewrite <- raw_names. assumption.
Qed.

(* ---- (c) the banned lists ----------------------------------------------------------------- *)
Lemma verify_headers_canon (e : exchange) : verify_headers (canon_exchange e) = verify_headers e.
Proof.
  unfold verify_headers. cbn [canon_exchange e_reqh e_resph].
  rewrite (existsb_names_canon is_stateful_request_header), (existsb_names_canon is_uncached_header).
  - reflexivity.
  - intros n. unfold is_uncached_header. rewrite lower_canonical_key, lower_idem. reflexivity.
  - intros n. unfold is_stateful_request_header. rewrite lower_canonical_key, lower_idem. reflexivity.
Qed.

Section Invariant.
  Variable H256 : bytes -> bytes.
  Variable x509_key : bytes -> option (option N).
  Variable sig_ok : N -> bytes -> bytes -> bool.
  Variable status_known : Z -> bool.
  Variable fetch : bytes -> R bytes.

  Notation vsig := (verify_signature H256 x509_key sig_ok fetch).
  Notation vsigs := (verify_sigs H256 x509_key sig_ok status_known fetch).
  Notation vfy := (verify H256 x509_key sig_ok status_known fetch).

  Lemma verify_payload_canon (e : exchange) (s : signature) :
    NoDup (map lname (e_resph e)) ->
    verify_payload H256 (canon_exchange e) s = verify_payload H256 e s.
  Proof.
    intros Hnd. unfold verify_payload. cbn [canon_exchange e_ver e_resph e_payload].
    rewrite (hdr_value_ci_canon _ _ Hnd). reflexivity.
  Qed.

  Lemma is_cacheable_canon (e : exchange) :
    NoDup (map lname (e_resph e)) ->
    is_cacheable status_known (canon_exchange e) = is_cacheable status_known e.
  Proof.
    intros Hnd. unfold is_cacheable. cbn [canon_exchange e_status e_resph].
    rewrite !(hdr_value_ci_canon _ _ Hnd). reflexivity.
  Qed.

  (* a signature that verifies means the header block could be encoded *)
  Lemma vsig_some_nodup (e : exchange) (tsec tnsec : Z) (s : signature) (p : bytes) :
    vsig e tsec tnsec s = Some p -> NoDup (map lname (e_resph e)).
  Proof.
    unfold verify_signature. intros H.
    destruct (fetch (s_cert_url s)) as [cb| | |]; try discriminate H.
    destruct (cc_read _ cb) as [[|main rest]| | |]; try discriminate H.
    destruct (x509_key (ac_cert main)) as [[kid|]|]; try discriminate H.
    destruct (negb (verify_timestamps (s_date s) (s_expires s) tsec tnsec)); try discriminate H.
    destruct (signed_message e _ _ _ _) as [msg| | |] eqn:Em; try discriminate H.
    destruct (signed_message_ok_headers _ _ _ _ _ _ Em) as [hdr Eh].
    exact (encode_headers_ok_nodup e hdr Eh).
  Qed.

  Lemma verify_signature_canon (e : exchange) (tsec tnsec : Z) (s : signature) :
    vsig (canon_exchange e) tsec tnsec s = vsig e tsec tnsec s.
  Proof.
    unfold verify_signature.
    destruct (fetch (s_cert_url s)) as [cb| | |]; try reflexivity.
    destruct (cc_read _ cb) as [[|main rest]| | |]; try reflexivity.
    destruct (x509_key (ac_cert main)) as [[kid|]|]; try reflexivity.
    destruct (negb (verify_timestamps (s_date s) (s_expires s) tsec tnsec)); try reflexivity.
    rewrite signed_message_canon.
    destruct (signed_message e _ _ _ _) as [msg| | |] eqn:Em; try reflexivity.
    destruct (signed_message_ok_headers _ _ _ _ _ _ Em) as [hdr Eh].
    pose proof (encode_headers_ok_nodup e hdr Eh) as Hnd.
    rewrite (verify_payload_canon e s Hnd).
    change (e_ver (canon_exchange e)) with (e_ver e).
    change (e_resph (canon_exchange e)) with (canon_headers (e_resph e)).
    rewrite (hdr_value_ci_canon _ (s2b "Content-Type") Hnd). reflexivity.
  Qed.

  Lemma verify_sigs_canon (e : exchange) (tsec tnsec : Z) :
    forall sigs t, vsigs (canon_exchange e) tsec tnsec sigs t = vsigs e tsec tnsec sigs t.
  Proof.
    induction sigs as [|pi rest IH]; intros t; [reflexivity|].
    cbn [verify_sigs]. cbv zeta. destruct (extract_signature pi) as [s|]; [|apply IH].
    change (e_uri (canon_exchange e)) with (e_uri e).
    change (e_ver (canon_exchange e)) with (e_ver e).
    change (e_method (canon_exchange e)) with (e_method e).
    rewrite verify_signature_canon. rewrite verify_headers_canon.
    destruct (same_origin (s_validity s) (e_uri e)) as [[[|]|]|]; rewrite ?IH; try reflexivity;
      (destruct (vsig e tsec tnsec s) as [p|] eqn:Ev; [|reflexivity]);
      pose proof (vsig_some_nodup _ _ _ _ _ Ev) as Hnd;
      rewrite (is_cacheable_canon e Hnd); reflexivity.
  Qed.

  (* C02: the verdict is the same on the exchange and on its canonical (read back)
     form: every exchange, every instant, every oracle *)
  Theorem verify_canon_invariant (e : exchange) (tsec tnsec : Z) :
    vfy (canon_exchange e) tsec tnsec = vfy e tsec tnsec.
  Proof.
    unfold verify. change (e_sig (canon_exchange e)) with (e_sig e).
    change (e_taint (canon_exchange e)) with (e_taint e).
    destruct (parse_parameterised_list (e_sig e)); try reflexivity.
    apply verify_sigs_canon.
  Qed.

  (* ... hence before and after Write / ReadExchange *)
  Theorem verdict_same_after_roundtrip (e : exchange) (bs : bytes) :
    readable e = true -> write e = Ok bs ->
    exists e', read bs = Ok e' /\
      forall tsec tnsec, vfy e' tsec tnsec = vfy e tsec tnsec.
  Proof.
    intros Hr Hw. exists (canon_exchange e). split; [apply write_read; assumption|].
    intros tsec tnsec. apply verify_canon_invariant.
  Qed.
End Invariant.
