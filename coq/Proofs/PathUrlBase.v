(* Proofs/PathUrlBase.v - the shape of base_dir's answers, and url_ref on
   "directory URL ++ escaped relative path": parses, absolute, no fragment,
   no userinfo - except when the base's path begins with "//".
   The class of bases: scheme "://" authority path ["?" query] ["#" fragment],
   path characters letters digits - _ ~ / . , no segment equal to "." or "..";
   query and fragment are dropped first (strip_query_fragment). *)
From Coq Require Import Lia ZifyN ZifyNat ZifyBool.
From WP Require Import Base.Prelude Model.Url Model.UrlRef Model.Cbor Model.PathUrl.
From WP Require Import Proofs.BaseLemmas Proofs.PathUrlEscape.
Ltac Zify.zify_post_hook ::= Z.div_mod_to_equations.
Open Scope N_scope.

(* destruct a byte along the bits of a constant pattern; goals where the
   pattern cannot match any more are closed by [tac] *)
Ltac bits c tac :=
  destruct c as [|c]; [try tac|];
  do 7 (try (destruct c as [c|c|]; try tac)).

(* right-associate appends *)
Ltac reassoc := repeat first [rewrite <- app_assoc | progress cbn [app]].

(* ---- split_at ----------------------------------------------------------- *)
Definition none_sat (p : N -> bool) (s : bytes) : bool := forallb (fun c => negb (p c)) s.

Lemma split_at_none (p : N -> bool) (s : bytes) : forall acc,
  none_sat p s = true -> split_at p s acc = (rev acc ++ s, None).
Proof.
  induction s as [|c r IH]; intros acc H.
  - cbn [split_at]. rewrite rev_append_rev, app_nil_r. reflexivity.
  - cbn [none_sat forallb] in H. apply andb_true_iff in H. destruct H as [Hc Hr].
    apply negb_true_iff in Hc. cbn [split_at]. rewrite Hc.
    rewrite (IH (c :: acc) Hr). cbn [rev]. rewrite <- app_assoc. reflexivity.
Qed.

Lemma split_at_some (p : N -> bool) (a : bytes) (c : N) (r : bytes) : forall acc,
  none_sat p a = true -> p c = true -> split_at p (a ++ c :: r) acc = (rev acc ++ a, Some r).
Proof.
  induction a as [|x a IH]; intros acc H Hc.
  - cbn [app split_at]. rewrite Hc, rev_append_rev, !app_nil_r. reflexivity.
  - cbn [none_sat forallb] in H. apply andb_true_iff in H. destruct H as [Hx Ha].
    apply negb_true_iff in Hx. cbn [app split_at]. rewrite Hx.
    rewrite (IH (x :: acc) Ha Hc). cbn [rev]. rewrite <- app_assoc. reflexivity.
Qed.

Lemma first_sat (p : N -> bool) (s : bytes) :
  none_sat p s = true \/
  exists a c r, s = a ++ c :: r /\ none_sat p a = true /\ p c = true.
Proof.
  induction s as [|x s IH]; [left; reflexivity|].
  destruct (p x) eqn:Hx.
  - right. exists [], x, s. repeat split; assumption.
  - destruct IH as [IH|[a [c [r [E [Ha Hc]]]]]].
    + left. cbn [none_sat forallb]. rewrite Hx. exact IH.
    + right. exists (x :: a), c, r. subst s. repeat split; try assumption.
      cbn [none_sat forallb]. rewrite Hx. exact Ha.
Qed.

Lemma split_at_inv (p : N -> bool) (s x : bytes) (y : option bytes) :
  split_at p s [] = (x, y) ->
  (y = None /\ x = s /\ none_sat p s = true) \/
  (exists c r, y = Some r /\ s = x ++ c :: r /\ none_sat p x = true /\ p c = true).
Proof.
  intros H. destruct (first_sat p s) as [Hn|[a [c [r [E [Ha Hc]]]]]].
  - rewrite (split_at_none p s [] Hn) in H. cbn [rev app] in H.
    injection H as Hx Hy. subst. left. repeat split. exact Hn.
  - subst s. rewrite (split_at_some p a c r [] Ha Hc) in H. cbn [rev app] in H.
    injection H as Hx Hy. subst. right. exists c, r. repeat split; assumption.
Qed.

Lemma none_sat_not_in (v : N) (s : bytes) : none_sat (N.eqb v) s = true <-> ~ In v s.
Proof.
  unfold none_sat. rewrite forallb_forall. split.
  - intros H Hin. specialize (H v Hin). rewrite N.eqb_refl in H. discriminate H.
  - intros H c Hc. apply negb_true_iff, N.eqb_neq. intros E. subst c. exact (H Hc).
Qed.

Lemma none_sat_weaken (p : N -> bool) (q : N -> bool) (s : bytes) :
  (forall c, q c = true -> p c = false) -> forallb q s = true -> none_sat p s = true.
Proof.
  intros Hpq Hs. unfold none_sat. rewrite forallb_forall in *. intros c Hc.
  rewrite (Hpq c (Hs c Hc)). reflexivity.
Qed.

(* ---- strip_query_fragment -------------------------------------------------- *)
(* neither '?' nor '#' *)
Definition no_qf (s : bytes) : Prop := ~ In 63 s /\ ~ In 35 s.
(* empty, or something that begins with '?' or '#' *)
Definition qf_ok (qf : bytes) : Prop := qf = [] \/ exists c r, qf = c :: r /\ (c = 63 \/ c = 35).

Lemma none_sat_app (p : N -> bool) (a b : bytes) :
  none_sat p (a ++ b) = none_sat p a && none_sat p b.
Proof. unfold none_sat. apply forallb_app. Qed.

Lemma split_at_app_none (p : N -> bool) (x y : bytes) : forall acc,
  none_sat p x = true ->
  split_at p (x ++ y) acc = (rev acc ++ x ++ fst (split_at p y []), snd (split_at p y [])).
Proof.
  intros acc Hx. destruct (first_sat p y) as [Hn|[a [c [r [E [Ha Hc]]]]]].
  - rewrite (split_at_none p y [] Hn). cbn [fst snd rev app].
    apply split_at_none. rewrite none_sat_app, Hx, Hn. reflexivity.
  - subst y. rewrite (split_at_some p a c r [] Ha Hc). cbn [fst snd rev app].
    rewrite app_assoc. rewrite (split_at_some p (x ++ a) c r acc); [|rewrite none_sat_app, Hx, Ha; reflexivity|exact Hc].
    reflexivity.
Qed.

Lemma strip_app (x y : bytes) :
  no_qf x -> strip_query_fragment (x ++ y) = x ++ strip_query_fragment y.
Proof.
  intros [H63 H35]. apply none_sat_not_in in H63. apply none_sat_not_in in H35.
  unfold strip_query_fragment.
  rewrite (split_at_app_none (N.eqb 35) x y [] H35). cbn [fst rev app].
  rewrite (split_at_app_none (N.eqb 63) x _ [] H63). reflexivity.
Qed.

Lemma strip_nil : strip_query_fragment [] = [].
Proof. reflexivity. Qed.

Lemma strip_no_qf (x : bytes) : no_qf x -> strip_query_fragment x = x.
Proof.
  intros H. rewrite <- (app_nil_r x) at 1. rewrite (strip_app x [] H), strip_nil. apply app_nil_r.
Qed.

Lemma strip_head (c : N) (r : bytes) : c = 63 \/ c = 35 -> strip_query_fragment (c :: r) = [].
Proof.
  intros [E|E]; subst c; unfold strip_query_fragment.
  - change (63 :: r) with ([63] ++ r).
    rewrite (split_at_app_none (N.eqb 35) [63] r [] eq_refl). reflexivity.
  - reflexivity.
Qed.

Lemma strip_qf (x qf : bytes) : no_qf x -> qf_ok qf -> strip_query_fragment (x ++ qf) = x.
Proof.
  intros Hx [E|[c [r [E Hc]]]]; subst qf.
  - rewrite app_nil_r. apply strip_no_qf, Hx.
  - rewrite (strip_app x _ Hx), (strip_head c r Hc). apply app_nil_r.
Qed.

Lemma none_sat_app_l (p : N -> bool) (a b : bytes) : none_sat p (a ++ b) = true -> none_sat p a = true.
Proof. rewrite none_sat_app. intros H. apply andb_true_iff in H. apply H. Qed.

(* every string is its stripped part followed by a query/fragment part *)
Lemma strip_decomp (s : bytes) :
  exists qf, s = strip_query_fragment s ++ qf /\ qf_ok qf /\ no_qf (strip_query_fragment s).
Proof.
  unfold strip_query_fragment.
  destruct (split_at (N.eqb 35) s []) as [x y] eqn:E35. cbn [fst].
  destruct (split_at (N.eqb 63) x []) as [x2 y2] eqn:E63. cbn [fst].
  apply split_at_inv in E35. apply split_at_inv in E63.
  assert (none_sat (N.eqb 35) x = true) as Hx35
    by (destruct E35 as [[_ [Ex Hn]]|[c [r [_ [_ [Hn _]]]]]]; [subst x; exact Hn|exact Hn]).
  assert (none_sat (N.eqb 63) x2 = true /\ none_sat (N.eqb 35) x2 = true /\
          exists q2, x = x2 ++ q2 /\ qf_ok q2) as [H63 [H35 [q2 [Ex Hq2]]]].
  { destruct E63 as [[_ [Ex Hn]]|[c [r [_ [Ex [Hn Hc]]]]]].
    - subst x2. repeat split; try assumption. exists []. split; [symmetry; apply app_nil_r|left; reflexivity].
    - apply N.eqb_eq in Hc. subst c. repeat split; [exact Hn|rewrite Ex in Hx35; apply (none_sat_app_l _ _ _ Hx35)|].
      exists (63 :: r). split; [exact Ex|]. right. exists 63, r. split; [reflexivity|left; reflexivity]. }
  assert (no_qf x2) as Hnq by (split; apply none_sat_not_in; assumption).
  destruct E35 as [[_ [Es _]]|[c [r [_ [Es [_ Hc]]]]]].
  - exists q2. subst s. repeat split; try assumption; apply Hnq.
  - apply N.eqb_eq in Hc. subst c. exists (q2 ++ 35 :: r). split; [|split; [|exact Hnq]].
    + rewrite Es, Ex, <- app_assoc. reflexivity.
    + destruct Hq2 as [E|[c [r' [E Hc]]]]; subst q2.
      * right. exists 35, r. split; [reflexivity|right; reflexivity].
      * right. exists c, (r' ++ 35 :: r). split; [reflexivity|exact Hc].
Qed.

(* ---- has_dot_segment ------------------------------------------------------- *)
Definition is_dots (seg : bytes) : bool := bytes_eqb seg [46] || bytes_eqb seg [46; 46].
Definition dots (seg : bytes) : Prop := seg = [46] \/ seg = [46; 46].

Lemma is_dots_iff (seg : bytes) : is_dots seg = true <-> dots seg.
Proof. unfold is_dots, dots. rewrite orb_true_iff, !bytes_eqb_eq. reflexivity. Qed.

Lemma hds_nil (cur : bytes) : has_dot_segment [] cur = is_dots (rev cur).
Proof. cbn [has_dot_segment]. rewrite rev_append_rev, app_nil_r. reflexivity. Qed.

Lemma hds_cons (c : N) (r cur : bytes) :
  has_dot_segment (c :: r) cur =
  if c =? 47 then is_dots (rev cur) || has_dot_segment r [] else has_dot_segment r (c :: cur).
Proof. cbn [has_dot_segment]. rewrite rev_append_rev, app_nil_r. reflexivity. Qed.

(* a path has a dot segment: p = a seg b, seg = "." or "..", a empty or
   ending in '/', b empty or beginning with '/' *)
Definition ends47 (a : bytes) : Prop := a = [] \/ exists a', a = a' ++ [47].
Definition begins47 (b : bytes) : Prop := b = [] \/ exists b', b = 47 :: b'.
Definition dot_segment_in (p : bytes) : Prop :=
  exists a seg b, p = a ++ seg ++ b /\ dots seg /\ ends47 a /\ begins47 b.

Lemma dots_no47 (seg : bytes) : dots seg -> ~ In 47 seg.
Proof. intros [E|E]; subst seg; cbn [In]; intros H; repeat (destruct H as [H|H]; [discriminate H|]); exact H. Qed.

(* the first '/' of a string is where it is *)
Lemma first47_unique (u : bytes) : forall x y v,
  ~ In 47 u -> x ++ 47 :: y = u ++ 47 :: v ->
  (x = u /\ y = v) \/ exists w, x = u ++ 47 :: w /\ v = w ++ 47 :: y.
Proof.
  induction u as [|c u IH]; intros x y v Hu E.
  - destruct x as [|d x].
    + left. cbn [app] in E. injection E as E. split; [reflexivity|exact E].
    + cbn [app] in E. injection E as E1 E2. subst d. right. exists x. split; [reflexivity|symmetry; exact E2].
  - destruct x as [|d x].
    + cbn [app] in E. injection E as E1 E2. subst c. exfalso. apply Hu. left. reflexivity.
    + cbn [app] in E. injection E as E1 E2. subst d.
      assert (~ In 47 u) as Hu' by (intros H; apply Hu; right; exact H).
      destruct (IH x y v Hu' E2) as [[Ex Ey]|[w [Ex Ev]]].
      * left. subst. split; reflexivity.
      * right. exists w. subst x. split; [reflexivity|exact Ev].
Qed.

Lemma hds_fwd (p : bytes) : forall cur,
  has_dot_segment p cur = true ->
  exists a seg b, rev cur ++ p = a ++ seg ++ b /\ dots seg /\ ends47 a /\ begins47 b.
Proof.
  induction p as [|c r IH]; intros cur H.
  - rewrite hds_nil in H. apply is_dots_iff in H. exists [], (rev cur), [].
    split; [|split; [|split]]; [cbn [app]; rewrite !app_nil_r; reflexivity|exact H|left; reflexivity|left; reflexivity].
  - rewrite hds_cons in H. destruct (N.eqb_spec c 47) as [E|E].
    + subst c. apply orb_true_iff in H. destruct H as [H|H].
      * apply is_dots_iff in H. exists [], (rev cur), (47 :: r).
        split; [|split; [|split]]; [reflexivity|exact H|left; reflexivity|right; exists r; reflexivity].
      * destruct (IH [] H) as [a [seg [b [Ep [Hs [Ha Hb]]]]]]. cbn [rev app] in Ep.
        exists (rev cur ++ 47 :: a), seg, b. split; [|split; [|split]]; try assumption.
        -- rewrite Ep, <- app_assoc. reflexivity.
        -- right. destruct Ha as [Ea|[a' Ea]]; subst a.
           ++ exists (rev cur). reflexivity.
           ++ exists (rev cur ++ 47 :: a'). rewrite <- app_assoc. reflexivity.
    + destruct (IH (c :: cur) H) as [a [seg [b [Ep [Hs [Ha Hb]]]]]].
      exists a, seg, b. split; [|split; [|split]]; try assumption.
      rewrite <- Ep. cbn [rev]. rewrite <- app_assoc. reflexivity.
Qed.

Lemma hds_bwd (p : bytes) : forall cur a seg b,
  ~ In 47 cur -> rev cur ++ p = a ++ seg ++ b -> dots seg -> ends47 a -> begins47 b ->
  has_dot_segment p cur = true.
Proof.
  induction p as [|c r IH]; intros cur a seg b Hcur Ep Hs Ha Hb.
  - rewrite hds_nil. apply is_dots_iff. rewrite app_nil_r in Ep.
    assert (~ In 47 (a ++ seg ++ b)) as Hn by (rewrite <- Ep, <- in_rev; exact Hcur).
    destruct Ha as [Ea|[a' Ea]]; subst a.
    2:{ exfalso. apply Hn. rewrite <- app_assoc. apply in_or_app. right. left. reflexivity. }
    destruct Hb as [Eb|[b' Eb]]; subst b.
    2:{ exfalso. apply Hn. cbn [app]. apply in_or_app. right. left. reflexivity. }
    cbn [app] in Ep. rewrite app_nil_r in Ep. rewrite Ep. exact Hs.
  - rewrite hds_cons. destruct (N.eqb_spec c 47) as [E|E].
    + subst c. apply orb_true_iff.
      assert (~ In 47 (rev cur)) as Hrc by (rewrite <- in_rev; exact Hcur).
      destruct Ha as [Ea|[a' Ea]]; subst a.
      * cbn [app] in Ep. destruct Hb as [Eb|[b' Eb]]; subst b.
        -- exfalso. rewrite app_nil_r in Ep. apply (dots_no47 seg Hs). rewrite <- Ep.
           apply in_or_app. right. left. reflexivity.
        -- symmetry in Ep. destruct (first47_unique (rev cur) seg b' r Hrc Ep) as [[E1 _]|[w [E1 _]]].
           ++ left. apply is_dots_iff. rewrite <- E1. exact Hs.
           ++ exfalso. apply (dots_no47 seg Hs). rewrite E1. apply in_or_app. right. left. reflexivity.
      * right. rewrite <- app_assoc in Ep. cbn [app] in Ep. symmetry in Ep.
        destruct (first47_unique (rev cur) a' (seg ++ b) r Hrc Ep) as [[_ E2]|[w [_ E2]]].
        -- apply (IH [] [] seg b); [intros []|cbn [rev app]; symmetry; exact E2|exact Hs|left; reflexivity|exact Hb].
        -- apply (IH [] (w ++ [47]) seg b); [intros []| |exact Hs|right; exists w; reflexivity|exact Hb].
           cbn [rev app]. rewrite E2, <- app_assoc. reflexivity.
    + apply (IH (c :: cur) a seg b); try assumption.
      * intros [H|H]; [apply E; exact H|exact (Hcur H)].
      * cbn [rev]. rewrite <- app_assoc. exact Ep.
Qed.

Theorem has_dot_segment_iff (p : bytes) : has_dot_segment p [] = true <-> dot_segment_in p.
Proof.
  split.
  - intros H. exact (hds_fwd p [] H).
  - intros [a [seg [b [Ep [Hs [Ha Hb]]]]]]. apply (hds_bwd p [] a seg b); try assumption. intros [].
Qed.

(* x "/" seg b, seg a dot segment, b empty or beginning with '/' *)
Lemma hds_mid (seg b : bytes) : dots seg -> begins47 b -> forall x cur,
  has_dot_segment (x ++ 47 :: seg ++ b) cur = true.
Proof.
  intros Hs Hb. induction x as [|c x IH]; intros cur.
  - cbn [app]. rewrite hds_cons. cbn [N.eqb Pos.eqb]. apply orb_true_iff. right.
    apply has_dot_segment_iff. exists [], seg, b.
    split; [|split; [|split]]; [reflexivity|exact Hs|left; reflexivity|exact Hb].
  - cbn [app]. rewrite hds_cons. destruct (c =? 47).
    + rewrite IH. apply orb_true_r.
    + apply IH.
Qed.

(* ---- getScheme ----------------------------------------------------------- *)
Definition scheme_char (c : N) : bool :=
  is_alpha_u c || is_digit_u c || (c =? 43) || (c =? 45) || (c =? 46).

(* what getScheme accepts as a non-empty scheme: a letter, then letters,
   digits, '+', '-', '.' *)
Definition scheme_ok (sch : bytes) : Prop :=
  forallb scheme_char sch = true /\ exists c t, sch = c :: t /\ is_alpha_u c = true.

Lemma get_scheme_inv (s : bytes) : forall (i : nat) (acc all sch rest : bytes),
  get_scheme s i acc all = Some (sch, rest) -> sch <> [] ->
  exists s1, sch = acc ++ s1 /\ s = s1 ++ 58 :: rest /\ forallb scheme_char s1 = true /\
             (i = O -> exists c t, s1 = c :: t /\ is_alpha_u c = true).
Proof.
  induction s as [|c r IH]; intros i acc all sch rest H Hne; cbn [get_scheme] in H.
  - injection H as H1 H2. subst sch. contradiction.
  - destruct (is_alpha_u c) eqn:Ea.
    { destruct (IH _ _ _ _ _ H Hne) as [s1 [E1 [E2 [E3 _]]]].
      exists (c :: s1). rewrite <- app_assoc in E1. repeat split.
      - exact E1.
      - subst r. reflexivity.
      - cbn [forallb]. unfold scheme_char at 1. rewrite Ea, E3. reflexivity.
      - intros _. exists c, s1. split; [reflexivity|exact Ea]. }
    destruct (is_digit_u c || (c =? 43) || (c =? 45) || (c =? 46)) eqn:Ed.
    { destruct i as [|i]; [injection H as H1 H2; subst sch; contradiction|].
      destruct (IH _ _ _ _ _ H Hne) as [s1 [E1 [E2 [E3 _]]]].
      exists (c :: s1). rewrite <- app_assoc in E1. repeat split.
      - exact E1.
      - subst r. reflexivity.
      - cbn [forallb]. unfold scheme_char at 1. rewrite Ea.
        rewrite !orb_false_l. rewrite Ed, E3. reflexivity.
      - intros E. discriminate E. }
    destruct (c =? 58) eqn:E58.
    { destruct i as [|i]; [discriminate H|]. injection H as H1 H2. subst.
      apply N.eqb_eq in E58. subst c.
      exists []. rewrite app_nil_r. repeat split. intros E. discriminate E. }
    injection H as H1 H2. subst sch. contradiction.
Qed.

Lemma get_scheme_fwd (s1 : bytes) : forall (i : nat) (acc all rest : bytes),
  forallb scheme_char s1 = true ->
  (i = O -> exists c t, s1 = c :: t /\ is_alpha_u c = true) ->
  get_scheme (s1 ++ 58 :: rest) i acc all = Some (acc ++ s1, rest).
Proof.
  induction s1 as [|c t IH]; intros i acc all rest Hs Hi.
  - destruct i as [|i].
    + destruct (Hi eq_refl) as [c [t [E _]]]. discriminate E.
    + rewrite app_nil_r. reflexivity.
  - cbn [forallb] in Hs. apply andb_true_iff in Hs. destruct Hs as [Hc Ht].
    cbn [app get_scheme]. destruct (is_alpha_u c) eqn:Ea.
    + rewrite IH; [rewrite <- app_assoc; reflexivity|exact Ht|intros E; discriminate E].
    + unfold scheme_char in Hc. rewrite Ea in Hc. rewrite !orb_false_l in Hc.
      rewrite Hc. destruct i as [|i].
      * destruct (Hi eq_refl) as [c' [t' [E Ha]]]. injection E as E1 E2. subst c'.
        congruence.
      * rewrite IH; [rewrite <- app_assoc; reflexivity|exact Ht|intros E; discriminate E].
Qed.

(* lower-casing a scheme *)
Lemma lower_scheme_ok (sch : bytes) : scheme_ok sch -> scheme_ok (lower sch).
Proof.
  intros [Hall [c [t [E Ha]]]]. split.
  - unfold lower. rewrite forallb_forall in *. intros x Hx.
    apply in_map_iff in Hx. destruct Hx as [y [Ey Hy]]. subst x.
    specialize (Hall y Hy). unfold scheme_char, lower_byte, is_alpha_u, is_digit_u in *.
    destruct ((65 <=? y) && (y <=? 90)) eqn:Eu; lia.
  - subst sch. exists (lower_byte c), (lower t). split; [reflexivity|].
    unfold lower_byte, is_alpha_u in *. destruct ((65 <=? c) && (c <=? 90)) eqn:Eu; lia.
Qed.

Lemma lower_is_lower (sch : bytes) : is_lower_scheme (lower sch) = true.
Proof.
  unfold is_lower_scheme, lower. apply forallb_forall. intros x Hx.
  apply in_map_iff in Hx. destruct Hx as [y [Ey Hy]]. subst x.
  unfold lower_byte. destruct ((65 <=? y) && (y <=? 90)) eqn:Eu; lia.
Qed.

(* ---- character classes --------------------------------------------------- *)
Lemma stable_facts (c : N) :
  stable_char c = true -> is_ctl c = false /\ c <> 35 /\ c <> 63.
Proof.
  unfold stable_char, is_ctl, is_alpha_u, is_digit_u. cbn [existsb]. lia.
Qed.

Lemma scheme_char_stable (c : N) : scheme_char c = true -> stable_char c = true.
Proof.
  unfold scheme_char, stable_char, is_alpha_u, is_digit_u. cbn [existsb]. lia.
Qed.

Lemma plain_char_stable (c : N) : plain_path_char c = true -> stable_char c = true /\ c <> 37.
Proof.
  unfold plain_path_char, stable_char, is_alpha_u, is_digit_u. cbn [existsb]. lia.
Qed.

Definition auth_char (c : N) : bool := host_char c || (c =? 58).

Lemma auth_char_stable (c : N) : auth_char c = true -> stable_char c = true /\ c <> 47.
Proof.
  unfold auth_char, host_char, stable_char, is_alpha_u, is_digit_u. cbn [existsb]. lia.
Qed.

Lemma authority_chars (a : bytes) : authority_known a = true -> forallb auth_char a = true.
Proof.
  unfold authority_known. intros H.
  destruct (split_at (N.eqb 58) a []) as [h p] eqn:Es.
  apply andb_true_iff in H. destruct H as [Hh Hp].
  assert (forallb auth_char h = true) as Hh'.
  { rewrite forallb_forall in *. intros c Hc. unfold auth_char. rewrite (Hh c Hc). reflexivity. }
  apply split_at_inv in Es. destruct Es as [[E1 [E2 _]]|[c [r [E1 [E2 [_ Hc]]]]]].
  - subst. exact Hh'.
  - apply N.eqb_eq in Hc. subst. rewrite forallb_app, Hh'. cbn [forallb andb].
    replace (auth_char 58) with true by reflexivity. cbn [andb].
    rewrite forallb_forall in *. intros d Hd. specialize (Hp d Hd).
    unfold auth_char, host_char. rewrite Hp. rewrite orb_true_r. reflexivity.
Qed.

Lemma forallb_impl (p q : N -> bool) (s : bytes) :
  (forall c, p c = true -> q c = true) -> forallb p s = true -> forallb q s = true.
Proof.
  intros Hpq Hs. rewrite forallb_forall in *. intros c Hc. apply Hpq, Hs, Hc.
Qed.

Lemma stable_no_ctl (s : bytes) : forallb stable_char s = true -> existsb is_ctl s = false.
Proof.
  intros H. destruct (existsb is_ctl s) eqn:E; [|reflexivity].
  apply existsb_exists in E. destruct E as [c [Hc Hx]].
  rewrite forallb_forall in H. apply H, stable_facts in Hc. destruct Hc as [Hc _]. congruence.
Qed.

Lemma stable_none (v : N) (s : bytes) :
  stable_char v = false -> forallb stable_char s = true -> none_sat (N.eqb v) s = true.
Proof.
  intros Hv. apply none_sat_weaken. intros c Hc. apply N.eqb_neq. intros E. subst c. congruence.
Qed.

(* ---- url_ref on scheme://authority/path ---------------------------------- *)
Definition starts47 (y : bytes) : bool := match y with c :: _ => c =? 47 | [] => false end.

Lemma url_ref_unfold (u sch r2 auth path : bytes) :
  existsb is_ctl u = false ->
  split_at (N.eqb 35) u [] = (u, None) ->
  get_scheme u O [] u = Some (sch, 47 :: 47 :: r2) ->
  split_at (N.eqb 63) (47 :: 47 :: r2) [] = (47 :: 47 :: r2, None) ->
  forallb stable_char (47 :: 47 :: r2) = true ->
  is_lower_scheme sch = true -> sch <> [] ->
  split_at (N.eqb 47) r2 [] = (auth, Some path) ->
  authority_known auth = true -> escapes_ok path = true -> auth <> [] ->
  url_ref u = if starts47 path then RUnknown else ROk true false false.
Proof.
  intros Hctl H35 Hsch H63 Hst Hlow Hne H47 Hauth Hesc Hane.
  unfold url_ref. rewrite Hctl, H35. cbv beta iota zeta. rewrite Hsch. cbv beta iota.
  rewrite H63. cbv beta iota. rewrite Hst, Hlow. cbn [andb negb].
  destruct sch as [|s0 s']; [contradiction|]. cbv beta iota.
  rewrite H47. cbv beta iota. rewrite Hauth. cbn [negb]. rewrite Hesc. cbn [negb].
  destruct auth as [|a0 a']; [contradiction|].
  destruct path as [|c t]; [reflexivity|]. unfold starts47.
  destruct (N.eqb_spec c 47) as [E|E]; [subst c; reflexivity|].
  bits c reflexivity. exfalso. apply E. reflexivity.
Qed.

Theorem url_ref_abs (sch auth y : bytes) :
  scheme_ok sch -> authority_known auth = true -> auth <> [] ->
  forallb stable_char y = true -> escapes_ok y = true ->
  url_ref (lower sch ++ [58; 47; 47] ++ auth ++ 47 :: y) =
  if starts47 y then RUnknown else ROk true false false.
Proof.
  intros Hsch Hauth Hane Hy Hesc.
  pose proof (lower_scheme_ok sch Hsch) as [Hl1 Hl2].
  pose proof (authority_chars auth Hauth) as Hac.
  assert (forallb stable_char auth = true) as Hast
    by (revert Hac; apply forallb_impl; intros c Hc; apply auth_char_stable, Hc).
  assert (forallb stable_char (47 :: 47 :: auth ++ 47 :: y) = true) as Hrest.
  { cbn [forallb]. rewrite forallb_app. cbn [forallb]. rewrite Hast, Hy. reflexivity. }
  assert (forallb stable_char (lower sch ++ [58; 47; 47] ++ auth ++ 47 :: y) = true) as Hu.
  { rewrite forallb_app. apply andb_true_iff. split.
    - revert Hl1. apply forallb_impl. exact scheme_char_stable.
    - cbn [app]. cbn [forallb]. cbn [forallb] in Hrest. rewrite Hrest. reflexivity. }
  apply (url_ref_unfold _ (lower sch) (auth ++ 47 :: y) auth y).
  - apply stable_no_ctl, Hu.
  - apply (split_at_none (N.eqb 35) _ []). apply stable_none; [reflexivity|exact Hu].
  - cbn [app]. apply (get_scheme_fwd (lower sch) O [] _ _ Hl1). intros _. exact Hl2.
  - apply (split_at_none (N.eqb 63) _ []). apply stable_none; [reflexivity|exact Hrest].
  - exact Hrest.
  - apply lower_is_lower.
  - destruct Hl2 as [c [t [E _]]]. rewrite E. discriminate.
  - apply (split_at_some (N.eqb 47) auth 47 y []); [|reflexivity].
    revert Hac. apply none_sat_weaken. intros c Hc. apply N.eqb_neq.
    apply auth_char_stable in Hc. intros E. destruct Hc as [_ Hc]. congruence.
  - exact Hauth.
  - exact Hesc.
  - exact Hane.
Qed.

(* ---- last_slash_prefix --------------------------------------------------- *)
Lemma lsp_gen (s : bytes) : forall acc cur,
  (none_sat (N.eqb 47) s = true /\ last_slash_prefix s acc cur = rev acc) \/
  (exists d t, s = d ++ 47 :: t /\ none_sat (N.eqb 47) t = true /\
               last_slash_prefix s acc cur = rev acc ++ rev cur ++ d ++ [47]).
Proof.
  induction s as [|c r IH]; intros acc cur.
  - left. split; [reflexivity|]. cbn [last_slash_prefix]. rewrite rev_append_rev, app_nil_r. reflexivity.
  - cbn [last_slash_prefix]. destruct (c =? 47) eqn:Ec.
    + apply N.eqb_eq in Ec. subst c. right.
      destruct (IH (47 :: cur ++ acc) []) as [[Hn E]|[d [t [E1 [Hn E2]]]]].
      * exists [], r. repeat split; [exact Hn|]. rewrite E. cbn [rev app].
        rewrite rev_app_distr, <- app_assoc. reflexivity.
      * exists (47 :: d), t. subst r. repeat split; [exact Hn|]. rewrite E2. cbn [rev app].
        rewrite rev_app_distr, <- !app_assoc. reflexivity.
    + destruct (IH acc (c :: cur)) as [[Hn E]|[d [t [E1 [Hn E2]]]]].
      * left. split; [|exact E]. cbn [none_sat forallb]. rewrite N.eqb_sym, Ec. exact Hn.
      * right. exists (c :: d), t. subst r. repeat split; [exact Hn|]. rewrite E2. cbn [rev app].
        rewrite <- !app_assoc. reflexivity.
Qed.

Lemma lsp_path (p' : bytes) :
  exists d t, 47 :: p' = d ++ 47 :: t /\ none_sat (N.eqb 47) t = true /\
              last_slash_prefix (47 :: p') [] [] = d ++ [47].
Proof.
  destruct (lsp_gen (47 :: p') [] []) as [[Hn _]|[d [t [E1 [Hn E2]]]]].
  - discriminate Hn.
  - exists d, t. repeat split; assumption.
Qed.

(* ---- base_dir ------------------------------------------------------------ *)
Definition strip_dslash (l : bytes) : option bytes :=
  match l with
  | c1 :: c2 :: r => if (c1 =? 47) && (c2 =? 47) then Some r else None
  | _ => None
  end.

(* base_dir after the query and fragment are gone *)
Definition base_dir' (base : bytes) : option bytes :=
  match get_scheme base O [] base with
  | Some (sch, rest) =>
      match strip_dslash rest with
      | Some r =>
          match sch with
          | [] => None
          | _ =>
              let '(auth, path) := split_at (N.eqb 47) r [] in
              if negb (authority_known auth) then None
              else match auth with
                   | [] => None
                   | _ =>
                       let p := match path with Some p => 47 :: p | None => [47] end in
                       if negb (forallb plain_path_char p) || has_dot_segment p [] then None
                       else Some (lower sch ++ [58; 47; 47] ++ auth ++ last_slash_prefix p [] [])
                   end
          end
      | None => None
      end
  | None => None
  end.

Lemma base_dir_eq (base0 : bytes) : base_dir base0 = base_dir' (strip_query_fragment base0).
Proof.
  unfold base_dir, base_dir'. generalize (strip_query_fragment base0) as base. intros base.
  cbv zeta.
  destruct (get_scheme base O [] base) as [[sch rest]|]; [|reflexivity].
  destruct rest as [|c1 rest]; [reflexivity|].
  destruct (N.eqb_spec c1 47) as [E1|E1].
  - subst c1. destruct rest as [|c2 rest]; [reflexivity|].
    destruct (N.eqb_spec c2 47) as [E2|E2].
    + subst c2. reflexivity.
    + unfold strip_dslash. apply N.eqb_neq in E2. rewrite E2. cbn [N.eqb Pos.eqb andb].
      apply N.eqb_neq in E2. bits c2 reflexivity. exfalso. apply E2. reflexivity.
  - unfold strip_dslash. destruct rest as [|c2 rest].
    + bits c1 reflexivity.
    + apply N.eqb_neq in E1. rewrite E1. cbn [andb].
      apply N.eqb_neq in E1. bits c1 reflexivity. exfalso. apply E1. reflexivity.
Qed.

Lemma strip_dslash_some (l r : bytes) : strip_dslash l = Some r -> l = 47 :: 47 :: r.
Proof.
  unfold strip_dslash. destruct l as [|c1 [|c2 t]]; try discriminate.
  destruct (N.eqb_spec c1 47) as [E1|E1]; [|discriminate].
  destruct (N.eqb_spec c2 47) as [E2|E2]; [|discriminate].
  cbn [andb]. intros H. injection H as H. subst. reflexivity.
Qed.

(* B. the query and the fragment of the base do not matter *)
Theorem base_dir_ignores_qf (b qf : bytes) :
  no_qf b -> qf_ok qf -> base_dir (b ++ qf) = base_dir b.
Proof.
  intros Hb Hq. rewrite !base_dir_eq, (strip_qf b qf Hb Hq), (strip_no_qf b Hb). reflexivity.
Qed.

Theorem base_dir_ignores_query_fragment (b q : bytes) :
  no_qf b -> base_dir (b ++ [63] ++ q) = base_dir b /\ base_dir (b ++ [35] ++ q) = base_dir b.
Proof.
  intros Hb. split; apply base_dir_ignores_qf; try exact Hb; right.
  - exists 63, q. split; [reflexivity|left; reflexivity].
  - exists 35, q. split; [reflexivity|right; reflexivity].
Qed.

(* in general: base_dir only looks at what is left of the first '?' / '#' *)
Theorem base_dir_strip (base : bytes) : base_dir base = base_dir (strip_query_fragment base).
Proof.
  destruct (strip_decomp base) as [qf [E [Hq Hn]]]. rewrite E at 1. apply base_dir_ignores_qf; assumption.
Qed.

(* the directory part: starts and ends with '/', plain characters only *)
Definition dir_ok (dir : bytes) : Prop :=
  (exists d, dir = 47 :: d) /\ (exists d, dir = d ++ [47]) /\ forallb plain_path_char dir = true.

Theorem base_dir_shape (base bd : bytes) :
  base_dir base = Some bd ->
  exists sch auth dir qf,
    bd = lower sch ++ [58; 47; 47] ++ auth ++ dir /\
    scheme_ok sch /\
    authority_known auth = true /\ auth <> [] /\ ~ In 47 auth /\
    dir_ok dir /\ qf_ok qf /\
    ((base = sch ++ [58; 47; 47] ++ auth ++ qf /\ dir = [47]) \/
     (exists t, base = sch ++ [58; 47; 47] ++ auth ++ dir ++ t ++ qf /\ ~ In 47 t /\
                forallb plain_path_char t = true /\ has_dot_segment (dir ++ t) [] = false)).
Proof.
  rewrite base_dir_eq. destruct (strip_decomp base) as [qf [Ebase [Hqf _]]].
  revert Ebase. generalize (strip_query_fragment base) as core. intros core Ebase.
  unfold base_dir'. intros H.
  destruct (get_scheme core O [] core) as [[sch rest]|] eqn:Eg; [|discriminate H].
  destruct (strip_dslash rest) as [r|] eqn:Er; [|discriminate H].
  apply strip_dslash_some in Er. subst rest.
  destruct sch as [|s0 s'] eqn:Esch; [discriminate H|]. rewrite <- Esch in *.
  assert (sch <> []) as Hne by (rewrite Esch; discriminate).
  destruct (get_scheme_inv core O [] core sch _ Eg Hne) as [s1 [E1 [E2 [E3 E4]]]].
  cbn [app] in E1. subst s1. specialize (E4 eq_refl).
  clear Esch s0 s'.
  destruct (split_at (N.eqb 47) r []) as [auth path] eqn:Es.
  destruct (authority_known auth) eqn:Ea; [|discriminate H]. cbn [negb] in H.
  destruct auth as [|a0 a'] eqn:Eauth; [discriminate H|]. rewrite <- Eauth in *.
  assert (auth <> []) as Hane by (rewrite Eauth; discriminate). clear Eauth a0 a'.
  cbv zeta in H.
  destruct (forallb plain_path_char match path with Some p => 47 :: p | None => [47] end) eqn:Ep;
    [|discriminate H].
  cbn [negb orb] in H.
  destruct (has_dot_segment _ []) eqn:Edot; [discriminate H|].
  injection H as H.
  exists sch, auth.
  apply split_at_inv in Es. destruct Es as [[Ey [Ex Hn]]|[c [r' [Ey [Ex [Hn Hc]]]]]].
  - subst path. subst r. exists [47], qf. repeat split.
    + rewrite <- H. reflexivity.
    + exact E3.
    + exact E4.
    + exact Ea.
    + exact Hane.
    + apply none_sat_not_in, Hn.
    + exists []. reflexivity.
    + exists []. reflexivity.
    + exact Hqf.
    + left. split; [|reflexivity]. rewrite Ebase, E2. rewrite <- app_assoc. reflexivity.
  - subst path. apply N.eqb_eq in Hc. subst c.
    destruct (lsp_path r') as [d [t [Ed [Ht El]]]]. rewrite El in H.
    assert (forallb plain_path_char (d ++ [47]) = true /\ forallb plain_path_char t = true) as [Hpd Hpt].
    { rewrite Ed in Ep. rewrite forallb_app in *. cbn [forallb] in *.
      apply andb_true_iff in Ep. destruct Ep as [Ep1 Ep2]. apply andb_true_iff in Ep2.
      destruct Ep2 as [_ Ep2]. rewrite Ep1. split; [reflexivity|exact Ep2]. }
    exists (d ++ [47]), qf. repeat split.
    + rewrite <- H. reflexivity.
    + exact E3.
    + exact E4.
    + exact Ea.
    + exact Hane.
    + apply none_sat_not_in, Hn.
    + destruct d as [|d0 d']; [exists []; reflexivity|].
      cbn [app] in Ed. injection Ed as Ed0 Ed1. subst d0. exists (d' ++ [47]). reflexivity.
    + exists d. reflexivity.
    + exact Hpd.
    + exact Hqf.
    + right. exists t. split; [|split; [apply none_sat_not_in, Ht|split; [exact Hpt|]]].
      * rewrite Ebase, E2, Ex.
        replace ((d ++ [47]) ++ t ++ qf) with ((47 :: r') ++ qf)
          by (rewrite Ed, <- !app_assoc; reflexivity).
        rewrite <- !app_assoc. cbn [app]. rewrite <- !app_assoc. reflexivity.
      * rewrite <- (app_assoc d [47] t). cbn [app]. rewrite <- Ed. exact Edot.
Qed.

(* ---- directory URL ++ escaped path --------------------------------------- *)
Lemma plain_stable (d : bytes) : forallb plain_path_char d = true -> forallb stable_char d = true.
Proof. apply forallb_impl. intros c Hc. apply plain_char_stable, Hc. Qed.

Lemma plain_nopct (d : bytes) :
  forallb plain_path_char d = true -> forallb (fun c => negb (c =? 37)) d = true.
Proof.
  apply forallb_impl. intros c Hc. apply plain_char_stable in Hc.
  apply negb_true_iff, N.eqb_neq, Hc.
Qed.

(* the general form: x any string of stable characters with well-formed escapes *)
Theorem url_ref_shape (sch auth d x : bytes) :
  scheme_ok sch -> authority_known auth = true -> auth <> [] ->
  forallb plain_path_char d = true ->
  forallb stable_char x = true -> escapes_ok x = true ->
  url_ref (lower sch ++ [58; 47; 47] ++ auth ++ (47 :: d) ++ x) =
  if starts47 (d ++ x) then RUnknown else ROk true false false.
Proof.
  intros Hsch Hauth Hane Hd Hx Hesc. cbn [app].
  apply url_ref_abs; try assumption.
  - rewrite forallb_app, (plain_stable d Hd), Hx. reflexivity.
  - rewrite escapes_ok_nopct_app; [exact Hesc|apply plain_nopct, Hd].
Qed.

Lemma starts47_false (y : bytes) : (forall t, y <> 47 :: t) -> starts47 y = false.
Proof.
  intros H. destruct y as [|c t]; [reflexivity|]. cbn [starts47].
  apply N.eqb_neq. intros E. subst c. apply (H t). reflexivity.
Qed.

Lemma starts47_app (d x : bytes) :
  (forall t, d <> 47 :: t) -> (d = [] -> forall t, x <> 47 :: t) -> starts47 (d ++ x) = false.
Proof.
  intros Hd Hx. destruct d as [|c d'].
  - cbn [app]. apply starts47_false. apply Hx. reflexivity.
  - cbn [app starts47]. apply N.eqb_neq. intros E. subst c. apply (Hd d'). reflexivity.
Qed.

Section DirUrl.
  Variables (sch auth d : bytes).
  Hypothesis (Hsch : scheme_ok sch) (Hauth : authority_known auth = true) (Hane : auth <> []).
  Hypothesis (Hd : forallb plain_path_char d = true).
  (* the directory is "/" ++ d and does not begin with "//" *)
  Hypothesis (Hds : forall t, d <> 47 :: t).
  Let bd := lower sch ++ [58; 47; 47] ++ auth ++ 47 :: d.

  Lemma shape_bd_ok : url_ref bd = ROk true false false.
  Proof.
    pose proof (url_ref_shape sch auth d [] Hsch Hauth Hane Hd eq_refl eq_refl) as H.
    rewrite !app_nil_r in H. rewrite starts47_false in H by exact Hds. exact H.
  Qed.

  Lemma shape_file_ok (r : bytes) :
    wfb r -> (forall t, r <> 47 :: t) -> url_ref (bd ++ escape_path r) = ROk true false false.
  Proof.
    intros Hr Hrs.
    pose proof (url_ref_shape sch auth d (escape_path r) Hsch Hauth Hane Hd
                  (escape_stable r Hr) (escape_escapes_ok r Hr)) as H.
    rewrite starts47_app in H.
    - unfold bd. rewrite <- !app_assoc. exact H.
    - exact Hds.
    - intros _. apply escape_head_not_slash; assumption.
  Qed.

  Lemma shape_dir_ok (r : bytes) :
    wfb r -> (forall t, r <> 47 :: t) -> r <> [] ->
    url_ref (bd ++ escape_path r ++ [47]) = ROk true false false.
  Proof.
    intros Hr Hrs Hrne.
    assert (forallb stable_char (escape_path r ++ [47]) = true) as Hst
      by (rewrite forallb_app, (escape_stable r Hr); reflexivity).
    assert (escapes_ok (escape_path r ++ [47]) = true) as Hesc
      by (rewrite escapes_ok_escape_app by exact Hr; reflexivity).
    pose proof (url_ref_shape sch auth d _ Hsch Hauth Hane Hd Hst Hesc) as H.
    rewrite starts47_app in H.
    - unfold bd. rewrite <- !app_assoc. exact H.
    - exact Hds.
    - intros _ t E. destruct (escape_path r) as [|e0 e'] eqn:Ee.
      + destruct r as [|c r']; [contradiction|]. rewrite escape_path_cons in Ee.
        unfold esc1 in Ee. destruct (path_safe c); discriminate Ee.
      + cbn [app] in E. injection E as E1 E2. subst e0.
        exact (escape_head_not_slash r Hr Hrs e' Ee).
  Qed.
End DirUrl.

(* ---- the same, from base_dir --------------------------------------------- *)
(* base_dir's answer, with url_ref's verdict on it: the one corner case is a
   base whose path begins with "//" (an empty first segment) *)
Theorem base_dir_url_ref (base bd : bytes) :
  base_dir base = Some bd ->
  exists sch auth dir,
    bd = lower sch ++ [58; 47; 47] ++ auth ++ dir /\
    scheme_ok sch /\ authority_known auth = true /\ auth <> [] /\ ~ In 47 auth /\ dir_ok dir /\
    (url_ref bd = ROk true false false <-> (forall t, dir <> 47 :: 47 :: t)) /\
    (url_ref bd = RUnknown <-> (exists t, dir = 47 :: 47 :: t)).
Proof.
  intros Hb. destruct (base_dir_shape base bd Hb) as
    [sch [auth [dir [qf [Ebd [Hsch [Hauth [Hane [Hns [Hdir _]]]]]]]]]].
  exists sch, auth, dir.
  refine (conj Ebd (conj Hsch (conj Hauth (conj Hane (conj Hns (conj Hdir (conj _ _))))))); split.
  - intros Hu t E. destruct Hdir as [_ [_ Hp]]. subst dir.
    cbn [forallb] in Hp. apply andb_true_iff in Hp. destruct Hp as [_ Hp].
    pose proof (url_ref_shape sch auth (47 :: t) [] Hsch Hauth Hane Hp eq_refl eq_refl) as H.
    rewrite !app_nil_r in H. rewrite <- Ebd in H. cbn [starts47] in H.
    rewrite H in Hu. discriminate Hu.
  - intros Hn. destruct Hdir as [[d Ed] [_ Hp]]. subst dir.
    cbn [forallb] in Hp. apply andb_true_iff in Hp. destruct Hp as [_ Hp].
    rewrite Ebd. apply (shape_bd_ok sch auth d Hsch Hauth Hane Hp).
    intros t E. subst d. apply (Hn t). reflexivity.
  - intros Hu. destruct Hdir as [[d Ed] [_ Hp]]. subst dir.
    cbn [forallb] in Hp. apply andb_true_iff in Hp. destruct Hp as [_ Hp].
    pose proof (url_ref_shape sch auth d [] Hsch Hauth Hane Hp eq_refl eq_refl) as H.
    rewrite !app_nil_r in H. rewrite <- Ebd in H.
    destruct d as [|c t]; [cbn [starts47] in H; congruence|].
    cbn [starts47] in H. destruct (N.eqb_spec c 47) as [E|E]; [|congruence].
    subst c. exists t. reflexivity.
  - intros [t E]. destruct Hdir as [_ [_ Hp]]. subst dir.
    cbn [forallb] in Hp. apply andb_true_iff in Hp. destruct Hp as [_ Hp].
    pose proof (url_ref_shape sch auth (47 :: t) [] Hsch Hauth Hane Hp eq_refl eq_refl) as H.
    rewrite !app_nil_r in H. rewrite <- Ebd in H. exact H.
Qed.

Theorem dir_url_accepted (base bd r : bytes) :
  base_dir base = Some bd ->
  url_ref bd = ROk true false false ->
  wfb r -> (forall t, r <> 47 :: t) ->
  url_ref (bd ++ escape_path r) = ROk true false false /\
  (r <> [] -> url_ref (bd ++ escape_path r ++ [47]) = ROk true false false).
Proof.
  intros Hb Hu Hr Hrs.
  destruct (base_dir_url_ref base bd Hb) as
    [sch [auth [dir [Ebd [Hsch [Hauth [Hane [_ [Hdir [Hok _]]]]]]]]]].
  destruct Hdir as [[d Ed] [_ Hp]]. subst dir.
  cbn [forallb] in Hp. apply andb_true_iff in Hp. destruct Hp as [_ Hp].
  assert (forall t, d <> 47 :: t) as Hds.
  { intros t E. subst d. destruct Hok as [Hok _]. apply (Hok Hu t). reflexivity. }
  subst bd. split.
  - apply shape_file_ok; assumption.
  - intros Hne. apply shape_dir_ok; assumption.
Qed.

(* url_ref never answers RErr on base_dir's result: accepted or undecided *)
Theorem base_dir_url_ref_cases (base bd : bytes) :
  base_dir base = Some bd -> url_ref bd = ROk true false false \/ url_ref bd = RUnknown.
Proof.
  intros Hb. destruct (base_dir_url_ref base bd Hb) as
    [sch [auth [dir [_ [_ [_ [_ [_ [Hdir [Hok Hun]]]]]]]]]].
  destruct Hdir as [[d Ed] _]. destruct d as [|c t].
  - left. apply Hok. intros t E. subst dir. discriminate E.
  - destruct (N.eqb_spec c 47) as [E|E].
    + subst c. right. apply Hun. exists t. exact Ed.
    + left. apply Hok. intros t' E'. subst dir. injection E' as E1 E2. contradiction.
Qed.

(* the same with the weakest premise: url_ref does decide the directory URL *)
Theorem dir_url_accepted_min (base bd r : bytes) :
  base_dir base = Some bd ->
  url_ref bd <> RUnknown ->
  wfb r -> (forall t, r <> 47 :: t) ->
  url_ref bd = ROk true false false /\
  url_ref (bd ++ escape_path r) = ROk true false false /\
  (r <> [] -> url_ref (bd ++ escape_path r ++ [47]) = ROk true false false).
Proof.
  intros Hb Hu Hr Hrs.
  destruct (base_dir_url_ref_cases base bd Hb) as [Hok|Hun]; [|contradiction].
  split; [exact Hok|]. exact (dir_url_accepted base bd r Hb Hok Hr Hrs).
Qed.

(* undecided exactly when the base's path begins with "//"; then every URL
   below it is undecided as well *)
Theorem dir_url_unknown (base bd r : bytes) :
  base_dir base = Some bd -> url_ref bd = RUnknown -> wfb r ->
  url_ref (bd ++ escape_path r) = RUnknown.
Proof.
  intros Hb Hu Hr.
  destruct (base_dir_url_ref base bd Hb) as
    [sch [auth [dir [Ebd [Hsch [Hauth [Hane [_ [Hdir [_ Hun]]]]]]]]]].
  apply Hun in Hu. destruct Hu as [t Et]. destruct Hdir as [_ [_ Hp]]. subst dir.
  cbn [forallb] in Hp. apply andb_true_iff in Hp. destruct Hp as [_ Hp].
  pose proof (url_ref_shape sch auth (47 :: t) (escape_path r) Hsch Hauth Hane Hp
                (escape_stable r Hr) (escape_escapes_ok r Hr)) as H.
  cbn [app starts47 N.eqb Pos.eqb] in H. subst bd. rewrite <- !app_assoc. exact H.
Qed.

(* ---- converse: everything of that shape is in base_dir's domain ----------- *)
Lemma lsp_no47 (t : bytes) : forall acc cur,
  none_sat (N.eqb 47) t = true -> last_slash_prefix t acc cur = rev acc.
Proof.
  induction t as [|c t IH]; intros acc cur H.
  - cbn [last_slash_prefix]. rewrite rev_append_rev, app_nil_r. reflexivity.
  - cbn [none_sat forallb] in H. apply andb_true_iff in H. destruct H as [Hc Ht].
    apply negb_true_iff in Hc. rewrite N.eqb_sym in Hc.
    cbn [last_slash_prefix]. rewrite Hc. apply IH, Ht.
Qed.

Lemma lsp_fwd (x t : bytes) : forall acc cur,
  none_sat (N.eqb 47) t = true ->
  last_slash_prefix (x ++ 47 :: t) acc cur = rev acc ++ rev cur ++ x ++ [47].
Proof.
  induction x as [|c x IH]; intros acc cur Ht.
  - cbn [app last_slash_prefix]. rewrite N.eqb_refl, (lsp_no47 t _ _ Ht). cbn [rev].
    rewrite rev_app_distr, <- !app_assoc. reflexivity.
  - cbn [app last_slash_prefix]. destruct (c =? 47) eqn:Ec.
    + apply N.eqb_eq in Ec. subst c. rewrite (IH _ _ Ht). cbn [rev app].
      rewrite rev_app_distr, <- !app_assoc. reflexivity.
    + rewrite (IH _ _ Ht). cbn [rev]. rewrite <- !app_assoc. reflexivity.
Qed.

Theorem base_dir_complete (sch auth dir t qf : bytes) :
  scheme_ok sch -> authority_known auth = true -> auth <> [] -> dir_ok dir ->
  forallb plain_path_char t = true -> ~ In 47 t -> has_dot_segment (dir ++ t) [] = false ->
  qf_ok qf ->
  base_dir (sch ++ [58; 47; 47] ++ auth ++ dir ++ t ++ qf) = Some (lower sch ++ [58; 47; 47] ++ auth ++ dir).
Proof.
  intros [Hs1 Hs2] Hauth Hane [[d Ed] [[d' Ed'] Hp]] Ht Hnt Hdot Hqf.
  pose proof (authority_chars auth Hauth) as Hac.
  assert (forallb stable_char (sch ++ [58; 47; 47] ++ auth ++ dir ++ t) = true) as Hst.
  { rewrite !forallb_app.
    rewrite (forallb_impl _ _ sch scheme_char_stable Hs1).
    rewrite (forallb_impl _ _ auth (fun c Hc => proj1 (auth_char_stable c Hc)) Hac).
    rewrite (plain_stable dir Hp), (plain_stable t Ht). reflexivity. }
  assert (no_qf (sch ++ [58; 47; 47] ++ auth ++ dir ++ t)) as Hnq.
  { split; apply none_sat_not_in; (apply stable_none; [reflexivity|exact Hst]). }
  replace (sch ++ [58; 47; 47] ++ auth ++ dir ++ t ++ qf)
    with ((sch ++ [58; 47; 47] ++ auth ++ dir ++ t) ++ qf)
    by (reassoc; reflexivity).
  rewrite (base_dir_ignores_qf _ qf Hnq Hqf).
  rewrite base_dir_eq, (strip_no_qf _ Hnq). unfold base_dir'. cbn [app].
  rewrite (get_scheme_fwd sch O [] _ _ Hs1 (fun _ => Hs2)). cbn [app strip_dslash N.eqb Pos.eqb andb].
  destruct Hs2 as [c0 [t0 [Es _]]]. rewrite Es at 1.
  assert (none_sat (N.eqb 47) auth = true) as Hna.
  { revert Hac. apply none_sat_weaken.
    intros c Hc. apply N.eqb_neq. apply auth_char_stable in Hc. intros E. destruct Hc as [_ Hc]. congruence. }
  rewrite Ed at 1. cbn [app]. rewrite (split_at_some (N.eqb 47) auth 47 (d ++ t) [] Hna eq_refl).
  cbn [rev app]. rewrite Hauth. cbn [negb].
  destruct auth as [|a0 a']; [contradiction|].
  cbv zeta.
  assert (47 :: d ++ t = dir ++ t) as Ep0 by (rewrite Ed; reflexivity).
  rewrite Ep0, Hdot.
  assert (dir ++ t = d' ++ 47 :: t) as Ep by (rewrite Ed', <- app_assoc; reflexivity).
  rewrite forallb_app, Hp, Ht. cbn [negb andb orb].
  rewrite Ep, lsp_fwd by (apply none_sat_not_in, Hnt). cbn [rev app]. rewrite <- Ed'. reflexivity.
Qed.

(* a base without a path: the directory is "/" *)
Theorem base_dir_complete_nopath (sch auth qf : bytes) :
  scheme_ok sch -> authority_known auth = true -> auth <> [] -> qf_ok qf ->
  base_dir (sch ++ [58; 47; 47] ++ auth ++ qf) = Some (lower sch ++ [58; 47; 47] ++ auth ++ [47]).
Proof.
  intros [Hs1 Hs2] Hauth Hane Hqf.
  pose proof (authority_chars auth Hauth) as Hac.
  assert (forallb stable_char (sch ++ [58; 47; 47] ++ auth) = true) as Hst.
  { rewrite !forallb_app.
    rewrite (forallb_impl _ _ sch scheme_char_stable Hs1).
    rewrite (forallb_impl _ _ auth (fun c Hc => proj1 (auth_char_stable c Hc)) Hac). reflexivity. }
  assert (no_qf (sch ++ [58; 47; 47] ++ auth)) as Hnq.
  { split; apply none_sat_not_in; (apply stable_none; [reflexivity|exact Hst]). }
  replace (sch ++ [58; 47; 47] ++ auth ++ qf) with ((sch ++ [58; 47; 47] ++ auth) ++ qf)
    by (reassoc; reflexivity).
  rewrite (base_dir_ignores_qf _ qf Hnq Hqf).
  rewrite base_dir_eq, (strip_no_qf _ Hnq). unfold base_dir'. cbn [app].
  rewrite (get_scheme_fwd sch O [] _ _ Hs1 (fun _ => Hs2)). cbn [app strip_dslash N.eqb Pos.eqb andb].
  destruct Hs2 as [c0 [t0 [Es _]]]. rewrite Es at 1.
  assert (none_sat (N.eqb 47) auth = true) as Hna.
  { revert Hac. apply none_sat_weaken.
    intros c Hc. apply N.eqb_neq. apply auth_char_stable in Hc. intros E. destruct Hc as [_ Hc]. congruence. }
  rewrite (split_at_none (N.eqb 47) auth [] Hna). cbn [rev app]. rewrite Hauth. cbn [negb].
  destruct auth as [|a0 a']; [contradiction|]. reflexivity.
Qed.

(* shape and converse together: base_dir base = Some bd exactly for the bases
   of the class, with that bd *)
Theorem base_dir_iff (base bd : bytes) :
  base_dir base = Some bd <->
  exists sch auth dir qf,
    bd = lower sch ++ [58; 47; 47] ++ auth ++ dir /\
    scheme_ok sch /\ authority_known auth = true /\ auth <> [] /\ dir_ok dir /\ qf_ok qf /\
    ((base = sch ++ [58; 47; 47] ++ auth ++ qf /\ dir = [47]) \/
     (exists t, base = sch ++ [58; 47; 47] ++ auth ++ dir ++ t ++ qf /\ ~ In 47 t /\
                forallb plain_path_char t = true /\ has_dot_segment (dir ++ t) [] = false)).
Proof.
  split.
  - intros H. destruct (base_dir_shape base bd H) as
      [sch [auth [dir [qf [Ebd [Hsch [Hauth [Hane [_ [Hdir [Hqf Hb]]]]]]]]]]].
    exists sch, auth, dir, qf. repeat (split; [assumption|]). exact Hb.
  - intros [sch [auth [dir [qf [Ebd [Hsch [Hauth [Hane [Hdir [Hqf Hb]]]]]]]]]].
    destruct Hb as [[Eb Ed]|[t [Eb [Hnt [Ht Hdot]]]]]; subst base bd.
    + subst dir. apply base_dir_complete_nopath; assumption.
    + apply base_dir_complete; assumption.
Qed.

(* B. a "." or ".." segment anywhere in the base's path: outside the class.
   The base is scheme "://" auth a "/" seg b with seg = "." or ".." and b
   empty or beginning with '/', '?' or '#'; a is the path before the segment
   (no '?', '#'; need not be in the plain alphabet). *)
Theorem base_dir_dot_segment_none (sch auth a seg b : bytes) :
  scheme_ok sch -> ~ In 47 auth -> no_qf auth -> no_qf a -> dots seg ->
  (b = [] \/ exists c r, b = c :: r /\ (c = 47 \/ c = 63 \/ c = 35)) ->
  base_dir (sch ++ [58; 47; 47] ++ auth ++ a ++ [47] ++ seg ++ b) = None.
Proof.
  intros [Hs1 Hs2] Hna [Ha63 Ha35] [Hp63 Hp35] Hseg Hb.
  assert (no_qf sch) as [Hs63 Hs35].
  { split; apply none_sat_not_in; (apply stable_none; [reflexivity|]);
      (revert Hs1; apply forallb_impl; exact scheme_char_stable). }
  assert (no_qf seg) as [Hg63 Hg35]
    by (destruct Hseg as [E|E]; subst seg; split; cbn [In]; intros H;
        repeat (destruct H as [H|H]; [discriminate H|]); exact H).
  set (pre := sch ++ [58; 47; 47] ++ auth ++ a ++ [47] ++ seg).
  assert (no_qf pre) as Hpre.
  { unfold pre. split; intros H; repeat (apply in_app_or in H; destruct H as [H|H]); try contradiction;
      cbn [In] in H; repeat (destruct H as [H|H]; [discriminate H|]); exact H. }
  assert (exists b', begins47 b' /\ strip_query_fragment (pre ++ b) = pre ++ b') as [b' [Hb' Est]].
  { rewrite (strip_app pre b Hpre). destruct Hb as [E|[c [r [E Hc]]]]; subst b.
    - exists []. split; [left; reflexivity|reflexivity].
    - destruct Hc as [Hc|Hc].
      + subst c. destruct (strip_decomp (47 :: r)) as [qf [E [_ _]]].
        destruct (strip_query_fragment (47 :: r)) as [|x y] eqn:Ex.
        * exists []. split; [left; reflexivity|reflexivity].
        * exists (x :: y). split; [|reflexivity]. right. exists y.
          cbn [app] in E. injection E as E1 E2. subst x. reflexivity.
      + rewrite (strip_head c r Hc). exists []. split; [left; reflexivity|reflexivity]. }
  replace (sch ++ [58; 47; 47] ++ auth ++ a ++ [47] ++ seg ++ b) with (pre ++ b)
    by (unfold pre; reassoc; reflexivity).
  rewrite base_dir_eq, Est. unfold pre, base_dir'. reassoc.
  rewrite (get_scheme_fwd sch O [] _ _ Hs1 (fun _ => Hs2)). cbn [app strip_dslash N.eqb Pos.eqb andb].
  destruct Hs2 as [c0 [t0 [Es _]]]. rewrite Es at 1.
  apply none_sat_not_in in Hna.
  (* where is the first '/' after "//" : in a, or the one before seg *)
  assert (exists auth' x, split_at (N.eqb 47) (auth ++ a ++ 47 :: seg ++ b') [] =
                          (auth', Some (x ++ seg ++ b')) /\ (x = [] \/ exists x', x = x' ++ [47]))
    as [auth' [x [Esp Hx]]].
  { destruct (first_sat (N.eqb 47) a) as [Hn|[a1 [c [a2 [E [Ha1 Hc]]]]]].
    - exists (auth ++ a), []. split; [|left; reflexivity].
      rewrite app_assoc. apply (split_at_some (N.eqb 47) (auth ++ a) 47 _ []); [|reflexivity].
      rewrite none_sat_app, Hna, Hn. reflexivity.
    - apply N.eqb_eq in Hc. subst c a. exists (auth ++ a1), (a2 ++ [47]). split; [|right; exists a2; reflexivity].
      rewrite <- !app_assoc. cbn [app]. rewrite app_assoc.
      apply (split_at_some (N.eqb 47) (auth ++ a1) 47 _ []); [|reflexivity].
      rewrite none_sat_app, Hna, Ha1. reflexivity. }
  cbn [app] in Esp |- *. rewrite Esp.
  destruct (authority_known auth'); [|reflexivity]. cbn [negb].
  destruct auth' as [|a0 a']; [reflexivity|]. cbv zeta.
  assert (has_dot_segment (47 :: x ++ seg ++ b') [] = true) as Hd.
  { destruct Hx as [E|[x' E]]; subst x.
    - apply (hds_mid seg b' Hseg Hb' [] []).
    - rewrite <- app_assoc. cbn [app]. apply (hds_mid seg b' Hseg Hb' (47 :: x') []). }
  rewrite Hd. rewrite orb_true_r. reflexivity.
Qed.
