(* Proofs/BundleReadUnique.v - the reference Spec.BundleRead.Extracts is
   functional: a byte string determines the version and the list of exchanges
   (URL, status, headers, body) an independent parser extracts from it.  So
   "the reader's result satisfies Extracts" pins the result down completely.
   Nothing here mentions the reader. *)
From Coq Require Import Lia ZifyN ZifyNat ZifyBool.
From WP Require Import Base.Prelude Model.Http Model.Bundle Spec.Cbor Spec.BundleRead.
From WP Require Import Proofs.BaseLemmas.
Open Scope N_scope.

Lemma app_eq_lenN {A} (a a' b b' : list A) :
  lenN a = lenN a' -> a ++ b = a' ++ b' -> a = a' /\ b = b'.
Proof.
  revert a'. induction a as [|x a IH]; intros [|x' a'] L E; cbn [lenN] in L; try lia.
  - cbn [app] in E. split; [reflexivity|exact E].
  - cbn [app] in E. injection E as Ex Et. subst x'.
    destruct (IH a' ltac:(lia) Et) as [Ea Eb]. subst. split; reflexivity.
Qed.

Lemma head_at_fun mt mt' n n' bs r r' :
  head_at mt n bs r -> head_at mt' n' bs r' -> mt = mt' /\ n = n' /\ r = r'.
Proof. intros [w H] [w' H']. rewrite H in H'. inversion H'. auto. Qed.

Lemma bstr_at_fun bs s s' r r' : bstr_at bs s r -> bstr_at bs s' r' -> s = s' /\ r = r'.
Proof.
  unfold bstr_at. intros H H'. destruct (head_at_fun _ _ _ _ _ _ _ H H') as [_ [L E]].
  apply app_eq_lenN; assumption.
Qed.

Lemma tstr_at_fun bs s s' r r' : tstr_at bs s r -> tstr_at bs s' r' -> s = s' /\ r = r'.
Proof.
  unfold tstr_at. intros [H _] [H' _]. destruct (head_at_fun _ _ _ _ _ _ _ H H') as [_ [L E]].
  apply app_eq_lenN; assumption.
Qed.

Lemma sub_at_fun bs o l a a' : sub_at bs o l a -> sub_at bs o l a' -> a = a'.
Proof.
  intros [p [q [E [Lp La]]]] [p' [q' [E' [Lp' La']]]]. rewrite E in E'.
  apply app_eq_lenN in E'; [|lia]. destruct E' as [_ E2].
  apply app_eq_lenN in E2; [|lia]. tauto.
Qed.

Lemma TablePairs_fun : forall bs sos rest, TablePairs bs sos rest ->
  forall sos' rest', TablePairs bs sos' rest' -> lenN sos = lenN sos' ->
  sos = sos' /\ rest = rest'.
Proof.
  induction 1 as [bs|bs name r1 len r2 t rest T1 H1 TP IH]; intros sos' rest' H' L;
    inversion H' as [bs0|bs0 name' r1' len' r2' t' rest0 T1' H1' TP']; subst; cbn [lenN] in L; try lia.
  - split; reflexivity.
  - destruct (tstr_at_fun _ _ _ _ _ T1 T1') as [En Er]. subst name' r1'.
    destruct (head_at_fun _ _ _ _ _ _ _ H1 H1') as [_ [El Er]]. subst len' r2'.
    destruct (IH _ _ TP' ltac:(lia)) as [Et Erest]. subst. split; reflexivity.
Qed.

Lemma LocPairs_fun : forall bs ls rest, LocPairs bs ls rest ->
  forall ls' rest', LocPairs bs ls' rest' -> lenN ls = lenN ls' ->
  ls = ls' /\ rest = rest'.
Proof.
  induction 1 as [bs|bs o r1 l r2 t rest H1 H2 LP IH]; intros ls' rest' H' L;
    inversion H' as [bs0|bs0 o' r1' l' r2' t' rest0 H1' H2' LP']; subst; cbn [lenN] in L; try lia.
  - split; reflexivity.
  - destruct (head_at_fun _ _ _ _ _ _ _ H1 H1') as [_ [Eo Er]]. subst o' r1'.
    destruct (head_at_fun _ _ _ _ _ _ _ H2 H2') as [_ [El Er]]. subst l' r2'.
    destruct (IH _ _ LP' ltac:(lia)) as [Et Erest]. subst. split; reflexivity.
Qed.

Lemma IndexEntries_fun v : forall bs ents rest, IndexEntries v bs ents rest ->
  forall ents' rest', IndexEntries v bs ents' rest' -> lenN ents = lenN ents' ->
  ents = ents' /\ rest = rest'.
Proof.
  induction 1 as [bs|bs url r1 items r2 r3 ls r4 t rest T1 H1 Hv LP IE IH]; intros ents' rest' H' L;
    inversion H' as [bs0|bs0 url' r1' items' r2' r3' ls' r4' t' rest0 T1' H1' Hv' LP' IE']; subst;
    cbn [lenN] in L; try lia.
  - split; reflexivity.
  - destruct (tstr_at_fun _ _ _ _ _ T1 T1') as [Eu Er]. subst url' r1'.
    destruct (head_at_fun _ _ _ _ _ _ _ H1 H1') as [_ [Ei Er]]. subst items' r2'.
    assert (X : r3 = r3' /\ lenN ls = lenN ls').
    { destruct v.
      - destruct Hv as [vv [B [Ei _]]]. destruct Hv' as [vv' [B' [Ei' _]]].
        destruct (bstr_at_fun _ _ _ _ _ B B') as [_ Er]. split; [exact Er|lia].
      - destruct Hv as [_ [Er El]]. destruct Hv' as [_ [Er' El']]. split; [congruence|lia]. }
    destruct X as [Er3 El]. subst r3'.
    destruct (LocPairs_fun _ _ _ LP _ _ LP' El) as [Els Er4]. subst ls' r4'.
    destruct (IH _ _ IE' ltac:(lia)) as [Et Erest]. subst. split; reflexivity.
Qed.

Lemma HeaderPairs_fun : forall bs ps rest, HeaderPairs bs ps rest ->
  forall ps' rest', HeaderPairs bs ps' rest' -> lenN ps = lenN ps' ->
  ps = ps' /\ rest = rest'.
Proof.
  induction 1 as [bs|bs name r1 value r2 t rest B1 B2 HP IH]; intros ps' rest' H' L;
    inversion H' as [bs0|bs0 name' r1' value' r2' t' rest0 B1' B2' HP']; subst; cbn [lenN] in L; try lia.
  - split; reflexivity.
  - destruct (bstr_at_fun _ _ _ _ _ B1 B1') as [En Er]. subst name' r1'.
    destruct (bstr_at_fun _ _ _ _ _ B2 B2') as [Ev Er]. subst value' r2'.
    destruct (IH _ _ HP' ltac:(lia)) as [Et Erest]. subst. split; reflexivity.
Qed.

Lemma HeaderMap_fun hc st st' h h' : HeaderMap hc st h -> HeaderMap hc st' h' -> st = st' /\ h = h'.
Proof.
  intros [body [pairs [junk [a [b [c [Hh [HP [_ [Hf [_ [_ [_ [Es [_ [Eh _]]]]]]]]]]]]]]]]
         [body' [pairs' [junk' [a' [b' [c' [Hh' [HP' [_ [Hf' [_ [_ [_ [Es' [_ [Eh' _]]]]]]]]]]]]]]]].
  destruct (head_at_fun _ _ _ _ _ _ _ Hh Hh') as [_ [L Eb]]. subst body'.
  destruct (HeaderPairs_fun _ _ _ HP _ _ HP' L) as [Ep _]. subst pairs'.
  rewrite Hf in Hf'. injection Hf' as Ea Eb Ec. subst a' b' c'.
  split; congruence.
Qed.

Lemma ResponseItem_fun item st st' h h' body body' :
  ResponseItem item st h body -> ResponseItem item st' h' body' ->
  st = st' /\ h = h' /\ body = body'.
Proof.
  intros [hc [r0 [r1 [E [B1 [B2 HM]]]]]] [hc' [r0' [r1' [E' [B1' [B2' HM']]]]]].
  rewrite E in E'. injection E' as Er. subst r0'.
  destruct (bstr_at_fun _ _ _ _ _ B1 B1') as [Eh Er]. subst hc' r1'.
  destruct (bstr_at_fun _ _ _ _ _ B2 B2') as [Eb _].
  destruct (HeaderMap_fun _ _ _ _ _ HM HM') as [Es Ehd]. auto.
Qed.

Lemma ResponseAt_fun bs o l st st' h h' body body' :
  ResponseAt bs o l st h body -> ResponseAt bs o l st' h' body' ->
  st = st' /\ h = h' /\ body = body'.
Proof.
  intros [_ [item [S R]]] [_ [item' [S' R']]].
  rewrite (sub_at_fun _ _ _ _ _ S S') in R. eapply ResponseItem_fun; eassumption.
Qed.

Lemma SectionLayout_fun bs v v' fb fb' ss ss' sos sos' :
  SectionLayout bs v fb ss sos -> SectionLayout bs v' fb' ss' sos' ->
  v = v' /\ fb = fb' /\ ss = ss' /\ sos = sos'.
Proof.
  intros [r0 [r1 [sl [r2 [n [body [junk [r3 [pre [E0 [P [B [_ [Hh [TP [Hn [_ [Hs [Eb [Lp _]]]]]]]]]]]]]]]]]]]]
         [r0' [r1' [sl' [r2' [n' [body' [junk' [r3' [pre' [E0' [P' [B' [_ [Hh' [TP' [Hn' [_ [Hs' [Eb' [Lp' _]]]]]]]]]]]]]]]]]]]].
  assert (Ev : v = v').
  { rewrite E0 in E0'. destruct v, v'; try reflexivity; cbn [magic_of app] in E0'; discriminate. }
  subst v'. rewrite E0 in E0'. apply app_inv_head in E0'. subst r0'.
  assert (X : r1 = r1' /\ fb = fb').
  { destruct v.
    - destruct P as [u [T Ef]]. destruct P' as [u' [T' Ef']].
      destruct (tstr_at_fun _ _ _ _ _ T T') as [Eu Er]. subst. split; reflexivity.
    - destruct P as [Er Ef]. destruct P' as [Er' Ef']. subst. split; reflexivity. }
  destruct X as [Er1 Ef]. subst r1' fb'.
  destruct (bstr_at_fun _ _ _ _ _ B B') as [Esl Er2]. subst sl' r2'.
  destruct (head_at_fun _ _ _ _ _ _ _ Hh Hh') as [_ [En Ebody]]. subst n' body'.
  destruct (TablePairs_fun _ _ _ TP _ _ TP' ltac:(lia)) as [Esos _]. subst sos'.
  destruct (head_at_fun _ _ _ _ _ _ _ Hs Hs') as [_ [_ Er3]]. subst r3'.
  assert (L : lenN bs = lenN pre + lenN r3) by (rewrite Eb at 1; apply lenN_app).
  assert (L' : lenN bs = lenN pre' + lenN r3) by (rewrite Eb' at 1; apply lenN_app).
  repeat split; try reflexivity. lia.
Qed.

Lemma Forall2_fun {A B} (P : A -> B -> Prop) (l : list A) (xs xs' : list B) :
  (forall a x x', P a x -> P a x' -> x = x') ->
  Forall2 P l xs -> Forall2 P l xs' -> xs = xs'.
Proof.
  intros K H. revert xs'. induction H as [|a x l xs Hp HF IH]; intros xs' H'; inversion H'; subst.
  - reflexivity.
  - f_equal; [eapply K; eassumption|apply IH; assumption].
Qed.

(* the file determines the answer *)
Theorem Extracts_fun (bs : bytes) (b b' : bundle) :
  Extracts bs b -> Extracts bs b' ->
  b_ver b = b_ver b' /\ b_exchanges b = b_exchanges b'.
Proof.
  intros [fb [ss [sos [before [rl [SL [Es [_ [_ [locs [IL F2]]]]]]]]]]]
         [fb' [ss' [sos' [before' [rl' [SL' [Es' [_ [_ [locs' [IL' F2']]]]]]]]]]].
  destruct (SectionLayout_fun _ _ _ _ _ _ _ _ _ SL SL') as [Ev [_ [Ess Esos]]].
  split; [exact Ev|]. rewrite <- Esos in Es', IL'. rewrite <- Ess in IL', F2'. clear Ess Esos SL SL'.
  rewrite Es in Es'. apply app_inj_tail in Es'.
  destruct Es' as [Eb Ep]. injection Ep as Erl. subst before' rl'.
  assert (El : locs = locs').
  { unfold IndexLocations in IL, IL'. rewrite <- Ev in IL'.
    destruct (section_span sos sec_index) as [[io il]|]; [|congruence].
    destruct IL as [c [n [body [ents [junk [S [Hh [IE [En Eloc]]]]]]]]].
    destruct IL' as [c' [n' [body' [ents' [junk' [S' [Hh' [IE' [En' Eloc']]]]]]]]].
    rewrite (sub_at_fun _ _ _ _ _ S S') in Hh.
    destruct (head_at_fun _ _ _ _ _ _ _ Hh Hh') as [_ [Enn Ebody]]. subst n' body'.
    destruct (IndexEntries_fun _ _ _ _ IE _ _ IE' ltac:(lia)) as [Ee _]. congruence. }
  subst locs'. eapply Forall2_fun; [|exact F2|exact F2'].
  intros [[u o] l] x x' [Hu [_ [_ [_ R]]]] [Hu' [_ [_ [_ R']]]].
  destruct (ResponseAt_fun _ _ _ _ _ _ _ _ _ R R') as [E1 [E2 E3]].
  destruct x as [xu xs xh xb], x' as [xu' xs' xh' xb'].
  cbn [bx_url bx_status bx_hdr bx_body] in *. congruence.
Qed.
