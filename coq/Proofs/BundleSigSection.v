(* Proofs/BundleSigSection.v - C06, part 6: writing the signatures section and
   reading it back gives the same [signatures] value (authorities with their
   OCSP / SCT, authority indices, signature bytes, signed bytes), so everything
   NewVerifier / VerifyExchange conclude holds unchanged after a write/read of
   the bundle. *)
From Coq Require Import Lia ZifyN ZifyNat ZifyBool.
From WP Require Import Base.Prelude Model.Cbor Model.Http Model.CertChain Model.Bundle.
From WP Require Import Spec.Cbor.
From WP Require Import Proofs.BaseLemmas Proofs.CborHead Proofs.CborMap Proofs.CborDecode
  Proofs.CertChainWrite Proofs.CertChainRead.
Ltac Zify.zify_post_hook ::= Z.div_mod_to_equations.
Open Scope N_scope.

Definition lkey (k : string) : bytes := enc_bytes_of MText (s2b k).

(* the writer, with its local loop named *)
Fixpoint vs_go (l : list vouched) : R bytes :=
  match l with
  | [] => Ok []
  | v :: t =>
      let* m := enc_map [(lkey "authority", enc_uint (vs_authority v));
                         (lkey "sig", enc_bytes (vs_sig v));
                         (lkey "signed", enc_bytes (vs_signed v))] in
      let* r := vs_go t in Ok (m ++ r)
  end.

Lemma signatures_section_unfold (s : signatures) :
  signatures_section s =
  let* auths := encode_all (sg_auth s) in
  let* vss := vs_go (sg_vouched s) in
  Ok (enc_array_header 2 ++ enc_array_header (lenN (sg_auth s)) ++ auths
      ++ enc_array_header (lenN (sg_vouched s)) ++ vss).
Proof. reflexivity. Qed.

(* keys sort as sig < signed < authority (0x63, 0x66, 0x69 head bytes) *)
Definition vouched_bytes (v : vouched) : bytes :=
  [163] ++ (lkey "sig" ++ enc_bytes (vs_sig v)) ++ (lkey "signed" ++ enc_bytes (vs_signed v))
  ++ (lkey "authority" ++ enc_uint (vs_authority v)).

Lemma vouched_map (v1 v2 v3 : bytes) :
  enc_map [(lkey "authority", v1); (lkey "sig", v2); (lkey "signed", v3)] =
  Ok ([163] ++ (lkey "sig" ++ v2) ++ (lkey "signed" ++ v3) ++ (lkey "authority" ++ v1)).
Proof.
  unfold enc_map.
  assert (Es : sort_entries [(lkey "authority", v1); (lkey "sig", v2); (lkey "signed", v3)] =
               [(lkey "sig", v2); (lkey "signed", v3); (lkey "authority", v1)]) by reflexivity.
  cbv zeta. rewrite Es.
  assert (Ed : adjacent_dup [(lkey "sig", v2); (lkey "signed", v3); (lkey "authority", v1)] = false)
    by reflexivity.
  rewrite Ed. cbn [flat_map fst snd]. rewrite app_nil_r. reflexivity.
Qed.

Lemma vs_go_ok (l : list vouched) : vs_go l = Ok (flat_map vouched_bytes l).
Proof.
  induction l as [|v t IH]; cbn [vs_go]; [reflexivity|].
  rewrite vouched_map. cbn [bind]. rewrite IH. reflexivity.
Qed.

Definition section_bytes (s : signatures) : bytes :=
  enc_array_header 2 ++ enc_array_header (lenN (sg_auth s)) ++ flat_map aug_bytes (sg_auth s)
  ++ enc_array_header (lenN (sg_vouched s)) ++ flat_map vouched_bytes (sg_vouched s).

(* the writer never fails *)
Theorem signatures_section_ok (s : signatures) : signatures_section s = Ok (section_bytes s).
Proof. rewrite signatures_section_unfold, encode_all_ok. cbn [bind]. rewrite vs_go_ok. reflexivity. Qed.

Section Read.
  Variable x509_ok : bytes -> bool.

  Lemma dec_auths_S (f : nat) (n : N) (bs : bytes) (acc : list augcert) :
    dec_auths x509_ok (S f) n bs acc =
    if n =? 0 then Ok (acc, bs)
    else let* (a, r) := decode_augcert x509_ok bs in dec_auths x509_ok f (n - 1) r (acc ++ [a]).
  Proof. reflexivity. Qed.

  Lemma dec_auths_encode (l : list augcert) : forall (fuel : nat) (acc : list augcert) (rest : bytes),
    (List.length l < fuel)%nat ->
    Forall (fun a => x509_ok (ac_cert a) = true) l -> Forall (aug_lt two63) l ->
    dec_auths x509_ok fuel (lenN l) (flat_map aug_bytes l ++ rest) acc = Ok (acc ++ l, rest).
  Proof.
    induction l as [|a t IH]; intros fuel acc rest Hf Hx Hl;
      (destruct fuel as [|f]; [cbn [List.length] in Hf; lia|]); rewrite dec_auths_S.
    - cbn [lenN flat_map app]. rewrite app_nil_r. reflexivity.
    - cbn [lenN flat_map]. replace (N.succ (lenN t) =? 0) with false by lia.
      inversion Hx as [|? ? Hxa Hxt]; subst. inversion Hl as [|? ? Hla Hlt]; subst.
      rewrite <- app_assoc, decode_augcert_encode by assumption. cbn [bind].
      replace (N.succ (lenN t) - 1) with (lenN t) by lia.
      rewrite IH; [|cbn [List.length] in Hf; lia|assumption|assumption].
      rewrite <- app_assoc. reflexivity.
  Qed.

  Lemma label_dec (k : string) (rest : bytes) :
    utf8_valid (s2b k) = true -> lenN (s2b k) < two63 ->
    decode_text (lkey k ++ rest) = Ok (s2b k, rest).
  Proof.
    intros Hu Hl. unfold lkey. apply decode_encode_text; [exact Hl|].
    unfold enc_text. rewrite Hu. reflexivity.
  Qed.

  Definition vouched_ok (v : vouched) : Prop :=
    vs_authority v < two64 /\ lenN (vs_sig v) < two63 /\ lenN (vs_signed v) < two63.

  Lemma dec_vs_fields_encode (v : vouched) (rest : bytes) :
    vouched_ok v ->
    dec_vs_fields 3 ((lkey "sig" ++ enc_bytes (vs_sig v)) ++ (lkey "signed" ++ enc_bytes (vs_signed v))
                     ++ (lkey "authority" ++ enc_uint (vs_authority v)) ++ rest)
                  {| vs_authority := 0; vs_sig := []; vs_signed := [] |} = Ok (v, rest).
  Proof.
    intros [Ha [Hs Hd]]. rewrite <- !app_assoc. cbn [dec_vs_fields].
    rewrite label_dec by reflexivity. cbn [bind].
    change (bytes_eqb (s2b "sig") (s2b "authority")) with false.
    change (bytes_eqb (s2b "sig") (s2b "sig")) with true. cbv iota.
    rewrite (decode_encode_bytes _ _ Hs). cbn [bind vs_authority vs_sig vs_signed].
    rewrite label_dec by reflexivity. cbn [bind].
    change (bytes_eqb (s2b "signed") (s2b "authority")) with false.
    change (bytes_eqb (s2b "signed") (s2b "sig")) with false.
    change (bytes_eqb (s2b "signed") (s2b "signed")) with true. cbv iota.
    rewrite (decode_encode_bytes _ _ Hd). cbn [bind vs_authority vs_sig vs_signed].
    rewrite label_dec by reflexivity. cbn [bind].
    change (bytes_eqb (s2b "authority") (s2b "authority")) with true. cbv iota.
    rewrite (decode_encode_uint _ _ Ha). cbn [bind vs_authority vs_sig vs_signed].
    destruct v. reflexivity.
  Qed.

  Lemma dec_vouched_S (f : nat) (n : N) (bs : bytes) (acc : list vouched) :
    dec_vouched (S f) n bs acc =
    if n =? 0 then Ok (acc, bs)
    else let* (m, r) := decode_map_header bs in
         if negb (m =? 3) then Err
         else let* (v, r') := dec_vs_fields 3 r {| vs_authority := 0; vs_sig := []; vs_signed := [] |} in
              dec_vouched f (n - 1) r' (acc ++ [v]).
  Proof. reflexivity. Qed.

  Lemma dec_vouched_encode (l : list vouched) : forall (fuel : nat) (acc : list vouched) (rest : bytes),
    (List.length l < fuel)%nat -> Forall vouched_ok l ->
    dec_vouched fuel (lenN l) (flat_map vouched_bytes l ++ rest) acc = Ok (acc ++ l, rest).
  Proof.
    induction l as [|v t IH]; intros fuel acc rest Hf Hl;
      (destruct fuel as [|f]; [cbn [List.length] in Hf; lia|]); rewrite dec_vouched_S.
    - cbn [lenN flat_map app]. rewrite app_nil_r. reflexivity.
    - cbn [lenN flat_map]. replace (N.succ (lenN t) =? 0) with false by lia.
      inversion Hl as [|? ? Hv Ht]; subst.
      unfold vouched_bytes at 1. change [163] with (enc_map_header 3). rewrite <- !app_assoc.
      rewrite decode_encode_map_header by reflexivity. cbn [bind].
      change (negb (3 =? 3)) with false. cbv iota.
      pose proof (dec_vs_fields_encode v (flat_map vouched_bytes t ++ rest) Hv) as Hd.
      rewrite <- !app_assoc in Hd. rewrite Hd. cbn [bind].
      replace (N.succ (lenN t) - 1) with (lenN t) by lia.
      rewrite IH; [|cbn [List.length] in Hf; lia|assumption].
      rewrite <- app_assoc. reflexivity.
  Qed.

  Lemma flat_vouched_len (l : list vouched) : (List.length l <= List.length (flat_map vouched_bytes l))%nat.
  Proof.
    induction l as [|v t IH]; cbn [flat_map List.length]; [lia|].
    rewrite app_length. unfold vouched_bytes at 1. cbn [app List.length]. lia.
  Qed.

  Definition sigs_ok (s : signatures) : Prop :=
    lenN (sg_auth s) < two64 /\ lenN (sg_vouched s) < two64 /\
    Forall (fun a => x509_ok (ac_cert a) = true) (sg_auth s) /\
    Forall (aug_lt two63) (sg_auth s) /\ Forall vouched_ok (sg_vouched s).

  (* write, then read: the same value *)
  Theorem signatures_section_roundtrip (s : signatures) (bs : bytes) :
    sigs_ok s -> signatures_section s = Ok bs -> parse_signatures x509_ok bs = Ok s.
  Proof.
    intros [La [Lv [Hx [Hl Hv]]]] H. rewrite signatures_section_ok in H. injection H as <-.
    unfold parse_signatures. cbv zeta.
    assert (F1 : (List.length (sg_auth s) < S (List.length (section_bytes s)))%nat).
    { unfold section_bytes. rewrite !app_length. pose proof (flat_aug_len x509_ok (sg_auth s)). lia. }
    assert (F2 : (List.length (sg_vouched s) < S (List.length (section_bytes s)))%nat).
    { unfold section_bytes. rewrite !app_length. pose proof (flat_vouched_len (sg_vouched s)). lia. }
    generalize dependent (S (List.length (section_bytes s))). intros fuel F1 F2.
    unfold section_bytes.
    rewrite decode_encode_array_header by reflexivity. cbn [bind].
    change (negb (2 =? 2)) with false. cbv iota.
    rewrite (decode_encode_array_header _ _ La). cbn [bind].
    rewrite (dec_auths_encode _ fuel [] _ F1 Hx Hl). cbn [bind app].
    rewrite (decode_encode_array_header _ _ Lv). cbn [bind].
    rewrite <- (app_nil_r (flat_map vouched_bytes (sg_vouched s))).
    rewrite (dec_vouched_encode _ fuel [] [] F2 Hv). cbn [bind app].
    destruct s. reflexivity.
  Qed.
End Read.
