(* C14, second half: decoding the stream produced by the specification (hence,
   by encode_refines_spec, by Encode) with the specified digest header yields
   the payload, whatever destination buffer sizes the caller uses. *)
From Coq Require Import Lia ZifyN ZifyNat ZifyBool.
From WP Require Import Base.Prelude Base.Base64 Model.Mice Spec.Mice
  Proofs.MiceLemmas Proofs.MiceEncode Proofs.MiceRead.
Open Scope N_scope.

Section Decode.
  Variable H : bytes -> bytes.
  Hypothesis Hlen : forall x, List.length (H x) = 32%nat.
  Hypothesis Hwf : forall x, wfb (H x).

  (* ---- the digest header parses back ---------------------------------- *)
  Lemma split_eq_header d rest :
    split_eq (content_encoding d ++ [61] ++ rest) [] = Some (content_encoding d, rest).
  Proof. destruct d; reflexivity. Qed.

  Lemma parse_format d x :
    parse_digest_header d (format_digest_header d (H x)) = Ok (H x).
  Proof.
    unfold parse_digest_header, format_digest_header.
    rewrite split_eq_header, bytes_eqb_refl. cbn [negb].
    rewrite (b64_roundtrip _ _ _ (Hwf x)).
    rewrite lenN_length, Hlen. reflexivity.
  Qed.

  Lemma hd_chain_hash recs : recs <> [] -> exists x, hd [] (proof_chain H recs) = H x.
  Proof.
    destruct recs as [|c t]; [congruence|]. intros _.
    rewrite proof_chain_cons. cbn [hd]. eexists. reflexivity.
  Qed.

  Lemma digest_hash d rs p : exists x, digest H d rs p = H x.
  Proof.
    unfold digest. destruct (proof_chain H (records d rs p)) as [|q qs] eqn:E.
    - eexists. reflexivity.
    - assert (NE : records d rs p <> []).
      { intros C. rewrite C in E. discriminate. }
      destruct (hd_chain_hash _ NE) as [x X]. rewrite E in X. exists x. exact X.
  Qed.

  (* ---- the decoder on the honest stream ------------------------------- *)
  (* suf: records not yet read from the underlying stream *)
  Definition HonestInv (d : draft) (rs : N) (suf : list bytes) (s : dec) : Prop :=
    d_enc s = d /\ (suf <> [] -> d_rs s = rs) /\ d_r s = body H suf /\
    d_next s = match suf with [] => None | _ => Some (hd [] (proof_chain H suf)) end /\
    Shape rs (allow_empty d) suf.

  Lemma honest_transfer d rs suf s s' :
    HonestInv d rs suf s ->
    d_enc s' = d_enc s -> d_rs s' = d_rs s -> d_r s' = d_r s -> d_next s' = d_next s ->
    HonestInv d rs suf s'.
  Proof.
    intros (I1 & I2 & I3 & I4 & I5) E1 E2 E3 E4. unfold HonestInv.
    rewrite E1, E2, E3, E4. auto.
  Qed.

  Lemma honest_rnr d rs c t s :
    1 <= rs -> HonestInv d rs (c :: t) s ->
    exists s' st,
      read_next_record H s (hd [] (proof_chain H (c :: t))) = (s', st) /\
      ((st = ROk /\ HonestInv d rs t s' /\ d_out s' = c /\ c <> []) \/
       (st = REOF /\ c = [] /\ t = [])).
  Proof.
    intros Hrs (I1 & I2 & I3 & I4 & I5).
    assert (NEc : c :: t <> []) by discriminate. specialize (I2 NEc).
    unfold read_next_record. rewrite I3, I2, proof_chain_cons. cbn [hd body].
    destruct t as [|c' t'].
    - (* last record *)
      cbn [proof_chain hd body app]. rewrite app_nil_r.
      assert (Lc := shape_head_le _ _ _ _ I5).
      rewrite splitN_short by lia.
      destruct c as [|g got].
      + assert (Ed : d = D02).
        { inversion I5 as [|c0 L0 E0|c0 t0 L0 N0 S0]; [|exfalso; apply N0; reflexivity].
          specialize (E0 eq_refl). destruct d; [reflexivity|discriminate]. }
        rewrite I1, Ed.
        assert (V : validate_record H [] (H ([] ++ [0])) true = true)
          by exact (validate_refl H [] true).
        rewrite V. do 2 eexists. split; [reflexivity|]. right. auto.
      + destruct (N.ltb_spec rs (lenN (g :: got))) as [C|_]; [lia|].
        assert (V : validate_record H (g :: got) (H ((g :: got) ++ [0])) true = true)
          by exact (validate_refl H (g :: got) true).
        rewrite V. do 2 eexists. split; [reflexivity|]. left.
        split; [reflexivity|]. split; [|split; [reflexivity|discriminate]].
        unfold HonestInv. cbn [d_enc d_rs d_r d_next body].
        split; [exact I1|]. split; [intros _; reflexivity|]. split; [reflexivity|].
        split; [reflexivity|constructor].
    - (* a full record followed by the proof of the next one *)
      assert (NEt : c' :: t' <> []) by discriminate.
      assert (Lc := shape_head_full _ _ _ _ I5 NEt).
      destruct (hd_chain_hash _ NEt) as [x Q].
      set (q := hd [] (proof_chain H (c' :: t'))) in *.
      assert (Lq : lenN q = 32) by (rewrite Q, lenN_length, Hlen; reflexivity).
      rewrite (app_assoc c q).
      rewrite (splitN_app_eq (c ++ q)) by (rewrite lenN_app; lia).
      assert (V : validate_record H (c ++ q) (H (c ++ q ++ [1])) false = true).
      { assert (V0 := validate_refl H (c ++ q) false). cbv iota in V0.
        rewrite <- app_assoc in V0. exact V0. }
      rewrite V. rewrite (splitN_app_eq c q) by lia.
      do 2 eexists. split; [reflexivity|]. left.
      split; [reflexivity|]. split; [|split; [reflexivity|]].
      + unfold HonestInv. cbn [d_enc d_rs d_r d_next].
        split; [exact I1|]. split; [intros _; reflexivity|]. split; [reflexivity|].
        split; [reflexivity|]. exact (shape_tail _ _ _ _ I5).
      + intros C. subst c. cbn [lenN] in Lc. lia.
  Qed.

  (* one Read call on the honest stream *)
  Lemma honest_read d rs suf s k s' o st :
    1 <= rs -> HonestInv d rs suf s -> read H s k = (s', o, st) ->
    match st with
    | RErr => False
    | REOF => o = [] /\ d_out s ++ List.concat suf = []
    | ROk => exists suf', HonestInv d rs suf' s' /\
                          d_out s ++ List.concat suf = o ++ d_out s' ++ List.concat suf' /\
                          (1 <= k -> o <> [])
    end.
  Proof.
    intros Hrs Inv R. rewrite read_unfold in R.
    destruct (d_out s) as [|b bs] eqn:Eo.
    - destruct suf as [|c t].
      + destruct Inv as (_ & _ & _ & I4 & _). rewrite I4 in R.
        inversion R as [[R1 R2 R3]]. split; reflexivity.
      + assert (I4 : d_next s = Some (hd [] (proof_chain H (c :: t))))
          by (destruct Inv as (_ & _ & _ & I4 & _); exact I4).
        rewrite I4 in R.
        destruct (honest_rnr _ _ _ _ _ Hrs Inv) as (s1 & st1 & Rn & [(X1 & X2 & X3 & X4)|(X1 & X2 & X3)]);
          rewrite Rn in R; subst st1.
        * apply deliver_spec in R as (D0 & D1 & D2 & D3 & D4 & D5 & D6). subst st.
          exists t. split; [exact (honest_transfer _ _ _ _ _ X2 D1 D2 D3 D4)|].
          rewrite X3 in D5, D6. split.
          -- cbn [app List.concat]. rewrite D5 at 1. rewrite <- app_assoc. reflexivity.
          -- intros K. exact (D6 K X4).
        * inversion R as [[R1 R2 R3]]. subst c t. split; reflexivity.
    - apply deliver_spec in R as (D0 & D1 & D2 & D3 & D4 & D5 & D6). subst st.
      exists suf. split; [exact (honest_transfer _ _ _ _ _ Inv D1 D2 D3 D4)|].
      split.
      + rewrite <- Eo. rewrite D5 at 1. rewrite <- app_assoc. reflexivity.
      + intros K. apply (D6 K). rewrite Eo. discriminate.
  Qed.

  (* any history of Read calls: never an error, output is a prefix of what
     remains, clean EOF only at the end *)
  Lemma honest_trace d rs : 1 <= rs -> forall sizes s suf acc out st,
    HonestInv d rs suf s -> read_trace H s sizes acc = (out, st) ->
    st <> RErr /\
    (exists rest, acc ++ d_out s ++ List.concat suf = out ++ rest) /\
    (st = REOF -> out = acc ++ d_out s ++ List.concat suf).
  Proof.
    intros Hrs. induction sizes as [|k t IH]; intros s suf acc out st Inv T.
    - cbn [read_trace] in T. inversion T as [[T1 T2]]; subst out st.
      split; [discriminate|]. split; [eexists; reflexivity|discriminate].
    - rewrite read_trace_cons in T.
      destruct (read H s k) as [[s1 o] st1] eqn:R.
      assert (X := honest_read _ _ _ _ _ _ _ _ Hrs Inv R).
      destruct st1.
      + destruct X as (suf' & X1 & X2 & _).
        destruct (IH _ _ _ _ _ X1 T) as (Y1 & Y2 & Y3).
        rewrite X2, app_assoc. auto.
      + destruct X as [X1 X2]. inversion T as [[T1 T2]]; subst out st o.
        rewrite X2, !app_nil_r. split; [discriminate|].
        split; [exists []; rewrite app_nil_r; reflexivity|reflexivity].
      + contradiction.
  Qed.

  (* enough non-empty reads reach the end *)
  Lemma honest_trace_complete d rs : 1 <= rs -> forall sizes s suf acc out st,
    HonestInv d rs suf s -> Forall (fun k => 1 <= k) sizes ->
    (List.length (d_out s ++ List.concat suf) < List.length sizes)%nat ->
    read_trace H s sizes acc = (out, st) -> st = REOF.
  Proof.
    intros Hrs. induction sizes as [|k t IH]; intros s suf acc out st Inv F L T.
    - cbn [List.length] in L. lia.
    - rewrite read_trace_cons in T.
      destruct (read H s k) as [[s1 o] st1] eqn:R.
      assert (X := honest_read _ _ _ _ _ _ _ _ Hrs Inv R).
      inversion F as [|k0 t0 K F']; subst k0 t0.
      destruct st1.
      + destruct X as (suf' & X1 & X2 & X3). specialize (X3 K).
        apply (IH s1 suf' (acc ++ o) out st X1 F'); [|exact T].
        rewrite X2, app_length in L. cbn [List.length] in L.
        destruct o; [congruence|cbn [List.length] in L; lia].
      + inversion T; reflexivity.
      + contradiction.
  Qed.

  Lemma body_length recs :
    (List.length (List.concat recs) <= List.length (body H recs))%nat.
  Proof.
    induction recs as [|c t IH]; cbn [List.concat body]; [lia|].
    rewrite !app_length. lia.
  Qed.

  (* ---- NewDecoder on the honest stream -------------------------------- *)
  Lemma new_decoder_honest d rs maxrs p :
    1 <= rs -> rs <= maxrs -> rs < two64 ->
    exists s0,
      new_decoder H d (stream H d rs p) (digest_header H d rs p) maxrs = Ok s0 /\
      HonestInv d rs (records d rs p) s0 /\ d_out s0 = [].
  Proof.
    intros Hrs Hmax H64. unfold new_decoder.
    rewrite digest_header_format. destruct (digest_hash d rs p) as [x Dx].
    rewrite Dx, parse_format, <- Dx. cbn [bind].
    destruct (records_spec d rs p Hrs) as [Sh Cc].
    unfold stream. destruct (records d rs p) as [|r t] eqn:Er.
    - assert (Ed : d = D03).
      { destruct p as [|b p].
        - destruct d; [discriminate|reflexivity].
        - exfalso. assert (NE : b :: p <> []) by discriminate.
          destruct (chunks_spec rs _ Hrs NE) as [_ [_ N0]]. apply N0. exact Er. }
      subst d. cbn [splitN]. change (8 =? 0) with false. cbv iota.
      assert (Dg : digest H D03 rs p = H ([] ++ [0])).
      { unfold digest. rewrite Er. reflexivity. }
      rewrite Dg.
      assert (V : validate_record H [] (H ([] ++ [0])) true = true)
        by exact (validate_refl H [] true).
      rewrite V. eexists. split; [reflexivity|].
      split; [|reflexivity]. unfold HonestInv. cbn [d_enc d_rs d_r d_next body].
      split; [reflexivity|]. split; [intros C; congruence|]. split; [reflexivity|].
      split; [reflexivity|constructor].
    - rewrite (splitN_app_eq (be 8 rs)) by (rewrite be_lenN; reflexivity).
      rewrite (unbe_be8 rs H64).
      destruct (N.eqb_spec rs 0) as [C|_]; [lia|].
      destruct (N.ltb_spec maxrs rs) as [C|_]; [lia|]. cbn [orb].
      eexists. split; [reflexivity|]. split; [|reflexivity].
      unfold HonestInv. cbn [d_enc d_rs d_r d_next].
      split; [reflexivity|]. split; [reflexivity|]. split; [reflexivity|].
      split; [|exact Sh].
      unfold digest. rewrite Er.
      assert (NE : r :: t <> []) by discriminate.
      assert (NEp := proof_chain_nonempty H _ NE).
      destruct (proof_chain H (r :: t)); [congruence|reflexivity].
  Qed.

  Lemma stream_length d rs p : 1 <= rs ->
    (List.length p <= List.length (stream H d rs p))%nat.
  Proof.
    intros Hrs. destruct (records_spec d rs p Hrs) as [_ Cc].
    unfold stream. destruct (records d rs p) as [|r t] eqn:Er.
    - rewrite <- Cc. cbn [List.concat List.length]. lia.
    - rewrite app_length, <- Cc. assert (B := body_length (r :: t)). lia.
  Qed.

  (* ---- the round trip --------------------------------------------------- *)
  Theorem mi_roundtrip d rs maxrs p :
    1 <= rs -> rs <= maxrs -> rs < two64 ->
    exists s0,
      new_decoder H d (stream H d rs p) (digest_header H d rs p) maxrs = Ok s0 /\
      (* any history of reads, buffer sizes 0 allowed *)
      (forall sizes out st, read_trace H s0 sizes [] = (out, st) ->
         st <> RErr /\ (exists rest, p = out ++ rest) /\ (st = REOF -> out = p)) /\
      (* more than |p| reads into non-empty buffers: everything, then EOF *)
      (forall sizes out st, Forall (fun k => 1 <= k) sizes ->
         (List.length p < List.length sizes)%nat ->
         read_trace H s0 sizes [] = (out, st) -> out = p /\ st = REOF) /\
      (* ReadAll with a fixed buffer size *)
      (forall k fuel, 1 <= k -> (List.length p < fuel)%nat ->
         read_all H fuel s0 k [] = (p, REOF)).
  Proof.
    intros Hrs Hmax H64.
    destruct (new_decoder_honest d rs maxrs p Hrs Hmax H64) as (s0 & N0 & Inv & Eo).
    destruct (records_spec d rs p Hrs) as [_ Cc].
    exists s0. split; [exact N0|].
    assert (A : forall sizes out st, read_trace H s0 sizes [] = (out, st) ->
         st <> RErr /\ (exists rest, p = out ++ rest) /\ (st = REOF -> out = p)).
    { intros sizes out st T.
      assert (X := honest_trace d rs Hrs _ _ _ _ _ _ Inv T).
      rewrite Eo, Cc in X. cbn [app] in X. exact X. }
    assert (B : forall sizes out st, Forall (fun k => 1 <= k) sizes ->
         (List.length p < List.length sizes)%nat ->
         read_trace H s0 sizes [] = (out, st) -> out = p /\ st = REOF).
    { intros sizes out st F L T.
      assert (E : st = REOF).
      { apply (honest_trace_complete d rs Hrs sizes s0 (records d rs p) [] out st Inv F); [|exact T].
        rewrite Eo, Cc. exact L. }
      destruct (A _ _ _ T) as (_ & _ & A3). split; [exact (A3 E)|exact E]. }
    split; [exact A|]. split; [exact B|].
    intros k fuel K L. rewrite read_all_trace.
    destruct (read_trace H s0 (repeat k fuel) []) as [out st] eqn:T.
    assert (F : Forall (fun k => 1 <= k) (repeat k fuel)).
    { apply Forall_forall. intros y Y. apply repeat_spec in Y. subst y. exact K. }
    assert (L' : (List.length p < List.length (repeat k fuel))%nat)
      by (rewrite repeat_length; exact L).
    destruct (B _ _ _ F L' T) as [-> ->]. reflexivity.
  Qed.

  Theorem decode_all_roundtrip d rs maxrs k p :
    1 <= rs -> rs <= maxrs -> rs < two64 -> 1 <= k ->
    decode_all H d (stream H d rs p) (digest_header H d rs p) maxrs k = Ok (p, REOF).
  Proof.
    intros Hrs Hmax H64 K.
    destruct (mi_roundtrip d rs maxrs p Hrs Hmax H64) as (s0 & N0 & _ & _ & A).
    unfold decode_all. rewrite N0. cbn [bind].
    rewrite A; [reflexivity|exact K|]. assert (L := stream_length d rs p Hrs). lia.
  Qed.

  (* Encode then decode, stated on the model functions only *)
  Theorem encode_decode_roundtrip d rs maxrs k p :
    1 <= rs -> rs <= maxrs -> rs < two64 -> 1 <= k ->
    exists strm hdr, encode H d rs p = Ok (strm, hdr) /\
                     decode_all H d strm hdr maxrs k = Ok (p, REOF).
  Proof.
    intros Hrs Hmax H64 K. exists (stream H d rs p), (digest_header H d rs p).
    split; [apply encode_refines_spec; exact Hrs|apply decode_all_roundtrip; assumption].
  Qed.
End Decode.
