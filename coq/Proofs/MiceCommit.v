(* C15: a digest commits to one record list (or exhibits a hash collision), and
   the decoder only ever releases a prefix of that list's concatenation,
   whatever the byte stream is.  No assumption on the hash H. *)
From Coq Require Import Lia ZifyN ZifyNat ZifyBool.
From WP Require Import Base.Prelude Base.Base64 Model.Mice Spec.Mice
  Proofs.MiceLemmas Proofs.MiceEncode Proofs.MiceRead.
Open Scope N_scope.

Section Commit.
  Variable H : bytes -> bytes.

  Lemma flag_differs (a b : bytes) : a ++ [0] <> b ++ [1].
  Proof. intros E. apply app_inj_tail in E as [_ E]. discriminate. Qed.

  (* a unit validated as "last record" against a committing proof *)
  Lemma commits_step_last q suf rec :
    Commits H q suf -> H (rec ++ [0]) = q -> suf = [rec] \/ Collision H.
  Proof.
    intros C E. inversion C as [dg r E1|dg r p rs NE Lp E1 C']; subst dg suf.
    - destruct (bytes_eq_dec rec r) as [D|D]; [left; congruence|right].
      exists (rec ++ [0]), (r ++ [0]). split; [|congruence].
      intros X. apply app_inv_tail in X. contradiction.
    - right. exists (rec ++ [0]), (r ++ p ++ [1]). split; [|congruence].
      rewrite app_assoc. apply flag_differs.
  Qed.

  (* a unit validated as "record followed by a 32-byte proof" *)
  Lemma commits_step_more q suf rec np :
    Commits H q suf -> H (rec ++ np ++ [1]) = q -> List.length np = 32%nat ->
    (exists t, suf = rec :: t /\ Commits H np t) \/ Collision H.
  Proof.
    intros C E L. inversion C as [dg r E1|dg r p rs NE Lp E1 C']; subst dg suf.
    - right. exists (r ++ [0]), (rec ++ np ++ [1]). split; [|congruence].
      rewrite app_assoc. apply flag_differs.
    - destruct (bytes_eq_dec (rec ++ np ++ [1]) (r ++ p ++ [1])) as [X|D].
      + rewrite !app_assoc in X. apply app_inv_tail in X.
        apply app_inj_len_tail in X; [|congruence]. destruct X as [X1 X2]. subst r p.
        left. exists rs. split; [reflexivity|exact C'].
      + right. exists (rec ++ np ++ [1]), (r ++ p ++ [1]). split; [exact D|congruence].
  Qed.

  Theorem commits_unique d r1 r2 :
    Commits H d r1 -> Commits H d r2 -> r1 = r2 \/ Collision H.
  Proof.
    intros C1. revert r2.
    induction C1 as [dg r E|dg r p rs NE Lp E C' IH]; intros r2 C2.
    - destruct (commits_step_last _ _ r C2 (eq_sym E)) as [X|X]; [left; congruence|right; exact X].
    - destruct (commits_step_more _ _ r p C2 (eq_sym E) Lp) as [[t [X1 X2]]|X]; [|right; exact X].
      destruct (IH t X2) as [Y|Y]; [left; congruence|right; exact Y].
  Qed.

  (* ---- the encoder's digest commits to the records -------------------- *)
  Hypothesis Hlen : forall x, List.length (H x) = 32%nat.

  Lemma proof_chain_commits recs :
    recs <> [] -> Commits H (hd [] (proof_chain H recs)) recs.
  Proof.
    induction recs as [|c t IH]; intros NE; [congruence|].
    rewrite proof_chain_cons. cbn [hd]. destruct t as [|c' t'].
    - apply CLast. reflexivity.
    - assert (NEt : c' :: t' <> []) by discriminate.
      apply (CMore H _ c (hd [] (proof_chain H (c' :: t')))); [exact NEt| |reflexivity|exact (IH NEt)].
      rewrite proof_chain_cons. cbn [hd]. apply Hlen.
  Qed.

  Theorem encode_commits d rs p :
    1 <= rs -> records d rs p <> [] -> Commits H (digest H d rs p) (records d rs p).
  Proof.
    intros _ NE. rewrite digest_hd by exact NE. apply proof_chain_commits. exact NE.
  Qed.

  Lemma records_nonempty d rs p :
    1 <= rs -> records d rs p = [] -> d = D03 /\ p = [].
  Proof.
    intros Hrs E. destruct p as [|x p].
    - destruct d; [discriminate|auto].
    - exfalso. assert (NE : x :: p <> []) by discriminate.
      destruct (chunks_spec rs _ Hrs NE) as [_ [_ N]]. apply N. exact E.
  Qed.

  (* draft 03, empty payload: the digest is the commitment to one empty record *)
  Theorem encode_commits_empty03 rs :
    digest H D03 rs [] = H [0] /\ Commits H (digest H D03 rs []) [[]].
  Proof. split; [reflexivity|]. apply CLast. reflexivity. Qed.
End Commit.

(* ---- the decoder ------------------------------------------------------- *)
Section Safety.
  Variable H : bytes -> bytes.

  (* acc: bytes already handed out.  The released bytes plus the buffered
     ones are exactly the records consumed so far, and the pending proof
     commits to the remaining ones (None iff nothing remains). *)
  Definition SafeInv (recs : list bytes) (s : dec) (acc : bytes) : Prop :=
    exists done suf,
      recs = done ++ suf /\ acc ++ d_out s = List.concat done /\
      match d_next s with None => suf = [] | Some q => Commits H q suf end.

  Lemma concat_snoc (done : list bytes) (r : bytes) :
    List.concat (done ++ [r]) = List.concat done ++ r.
  Proof. rewrite concat_app. cbn [List.concat]. rewrite app_nil_r. reflexivity. Qed.

  Lemma safe_prefix recs s acc :
    SafeInv recs s acc -> exists rest, List.concat recs = acc ++ rest.
  Proof.
    intros (done & suf & E1 & E2 & _). exists (d_out s ++ List.concat suf).
    rewrite E1, concat_app, <- E2, app_assoc. reflexivity.
  Qed.

  (* readNextRecord, started with an empty output buffer *)
  Lemma rnr_safe recs s acc proof s' st :
    SafeInv recs s acc -> d_out s = [] -> d_next s = Some proof ->
    read_next_record H s proof = (s', st) ->
    Collision H \/
    match st with
    | ROk => SafeInv recs s' acc
    | REOF => acc = List.concat recs
    | RErr => True
    end.
  Proof.
    intros (done & suf & E1 & E2 & E3) Eo En R.
    rewrite Eo, app_nil_r in E2. rewrite En in E3.
    unfold read_next_record in R.
    destruct (splitN (d_r s) (d_rs s + 32)) as [[buf rest]|] eqn:Sp.
    - destruct (validate_record H buf proof false) eqn:V.
      + destruct (splitN buf (d_rs s)) as [[rec np]|] eqn:Sp2.
        * inversion R as [[R1 R2]]; subst s' st.
          apply splitN_Some in Sp as [_ Lb]. apply splitN_Some in Sp2 as [Eb Lr].
          apply validate_true in V. subst buf.
          rewrite <- app_assoc in V.
          assert (Lnp : List.length np = 32%nat).
          { rewrite lenN_app, !lenN_length in Lb. rewrite lenN_length in Lr. lia. }
          destruct (commits_step_more H _ _ _ _ E3 V Lnp) as [[t [X1 X2]]|X]; [|left; exact X].
          right. exists (done ++ [rec]), t. cbn [d_out d_next].
          split; [|split; [|exact X2]].
          -- rewrite E1, X1, <- app_assoc. reflexivity.
          -- rewrite concat_snoc, E2. reflexivity.
        * inversion R; subst. right. exact I.
      + inversion R; subst. right. exact I.
    - destruct (d_r s) as [|g got] eqn:Eg.
      + destruct (d_enc s).
        * destruct (validate_record H [] proof true) eqn:V.
          -- inversion R as [[R1 R2]]; subst s' st.
             apply validate_true in V.
             destruct (commits_step_last H _ _ _ E3 V) as [X|X]; [|left; exact X].
             right. rewrite E1, X, concat_snoc, app_nil_r. exact E2.
          -- inversion R; subst. right. exact I.
        * inversion R; subst. right. exact I.
      + destruct (d_rs s <? lenN (g :: got)).
        * inversion R; subst. right. exact I.
        * destruct (validate_record H (g :: got) proof true) eqn:V.
          -- inversion R as [[R1 R2]]; subst s' st.
             apply validate_true in V.
             destruct (commits_step_last H _ _ _ E3 V) as [X|X]; [|left; exact X].
             right. exists (done ++ [g :: got]), []. cbn [d_out d_next].
             split; [|split; [|reflexivity]].
             ++ rewrite E1, X, app_nil_r. reflexivity.
             ++ rewrite concat_snoc, E2. reflexivity.
          -- inversion R; subst. right. exact I.
  Qed.

  Lemma deliver_safe recs s acc k s' o st :
    SafeInv recs s acc -> deliver s k = (s', o, st) ->
    st = ROk /\ SafeInv recs s' (acc ++ o).
  Proof.
    intros (done & suf & E1 & E2 & E3) D.
    apply deliver_spec in D as (D0 & _ & _ & _ & D4 & D5 & _).
    split; [exact D0|]. exists done, suf.
    split; [exact E1|]. split; [|rewrite D4; exact E3].
    rewrite <- E2, D5, app_assoc. reflexivity.
  Qed.

  (* one Read call *)
  Lemma read_safe recs s acc k s' o st :
    SafeInv recs s acc -> read H s k = (s', o, st) ->
    Collision H \/
    match st with
    | ROk => SafeInv recs s' (acc ++ o)
    | REOF => o = [] /\ acc = List.concat recs
    | RErr => o = []
    end.
  Proof.
    intros Inv R. rewrite read_unfold in R.
    destruct (d_out s) as [|b bs] eqn:Eo.
    - destruct (d_next s) as [proof|] eqn:En.
      + destruct (read_next_record H s proof) as [s1 st1] eqn:Rn.
        destruct (rnr_safe _ _ _ _ _ _ Inv Eo En Rn) as [X|X]; [left; exact X|].
        destruct st1.
        * destruct (deliver_safe _ _ _ _ _ _ _ X R) as [D0 D1]. subst st. right. exact D1.
        * inversion R as [[R1 R2 R3]]; subst s' o st. right. split; [reflexivity|exact X].
        * inversion R as [[R1 R2 R3]]; subst s' o st. right. reflexivity.
      + inversion R as [[R1 R2 R3]]; subst s' o st. right. split; [reflexivity|].
        destruct Inv as (done & suf & E1 & E2 & E3). rewrite En in E3. subst suf.
        rewrite Eo, app_nil_r in E2. rewrite E1, app_nil_r. exact E2.
    - destruct (deliver_safe _ _ _ _ _ _ _ Inv R) as [D0 D1]. subst st. right. exact D1.
  Qed.

  (* any history of Read calls *)
  Lemma trace_safe recs : forall sizes s acc out st,
    SafeInv recs s acc -> read_trace H s sizes acc = (out, st) ->
    ((exists rest, List.concat recs = out ++ rest) /\ (st = REOF -> out = List.concat recs))
    \/ Collision H.
  Proof.
    induction sizes as [|k t IH]; intros s acc out st Inv T.
    - cbn [read_trace] in T. inversion T as [[T1 T2]]; subst out st. left.
      split; [exact (safe_prefix _ _ _ Inv)|discriminate].
    - rewrite read_trace_cons in T.
      destruct (read H s k) as [[s1 o] st1] eqn:R.
      destruct (read_safe _ _ _ _ _ _ _ Inv R) as [X|X]; [right; exact X|].
      destruct st1.
      + exact (IH _ _ _ _ X T).
      + destruct X as [X1 X2]. inversion T as [[T1 T2]]; subst out st o. left. rewrite app_nil_r.
        split; [exists []; rewrite app_nil_r; symmetry; exact X2|intros _; exact X2].
      + inversion T as [[T1 T2]]; subst out st o. left. rewrite app_nil_r.
        split; [exact (safe_prefix _ _ _ Inv)|discriminate].
  Qed.

  Lemma parse_digest_header_cases d dg :
    parse_digest_header d dg = Err \/ exists top, parse_digest_header d dg = Ok top.
  Proof.
    unfold parse_digest_header.
    destruct (split_eq dg []) as [[alg dig]|]; [|left; reflexivity].
    destruct (negb (bytes_eqb alg (content_encoding d))); [left; reflexivity|].
    destruct (b64_decode (b64pad d) (b64url d) dig) as [pf|]; [|left; reflexivity].
    destruct (lenN pf =? 32); [right; exists pf; reflexivity|left; reflexivity].
  Qed.

  Lemma new_decoder_safe d s dg maxrs top recs s0 :
    parse_digest_header d dg = Ok top -> Commits H top recs ->
    new_decoder H d s dg maxrs = Ok s0 ->
    SafeInv recs s0 [] \/ Collision H.
  Proof.
    intros P C N. unfold new_decoder in N. rewrite P in N. cbn [bind] in N.
    destruct (splitN s 8) as [[hd rest]|] eqn:Sp.
    - destruct ((unbe hd =? 0) || (maxrs <? unbe hd)); [discriminate|].
      inversion N; subst s0. left. exists [], recs. cbn [d_out d_next app List.concat].
      split; [reflexivity|]. split; [reflexivity|exact C].
    - destruct s as [|b s]; [|discriminate]. destruct d; [discriminate|].
      destruct (validate_record H [] top true) eqn:V; [|discriminate].
      inversion N; subst s0. apply validate_true in V.
      destruct (commits_step_last H _ _ _ C V) as [X|X]; [|right; exact X].
      left. exists [[]], []. cbn [d_out d_next app List.concat].
      split; [exact X|]. split; reflexivity.
  Qed.

  Theorem decoder_releases_only_committed d s dg maxrs sizes recs top s0 out st :
    parse_digest_header d dg = Ok top -> Commits H top recs ->
    new_decoder H d s dg maxrs = Ok s0 ->
    read_trace H s0 sizes [] = (out, st) ->
    ((exists rest, List.concat recs = out ++ rest) /\ (st = REOF -> out = List.concat recs))
    \/ Collision H.
  Proof.
    intros P C N T.
    destruct (new_decoder_safe _ _ _ _ _ _ _ P C N) as [Inv|X]; [|right; exact X].
    exact (trace_safe _ _ _ _ _ _ Inv T).
  Qed.

  (* the ReadAll-style loop, any buffer size (0 included), any fuel *)
  Theorem decode_all_only_committed d s dg maxrs k recs top out st :
    parse_digest_header d dg = Ok top -> Commits H top recs ->
    decode_all H d s dg maxrs k = Ok (out, st) ->
    ((exists rest, List.concat recs = out ++ rest) /\ (st = REOF -> out = List.concat recs))
    \/ Collision H.
  Proof.
    intros P C D. unfold decode_all in D.
    destruct (new_decoder H d s dg maxrs) as [s0| | |] eqn:N; try discriminate.
    cbn [bind] in D. rewrite read_all_trace in D.
    assert (D1 : read_trace H s0 (repeat k (S (S (List.length s)))) [] = (out, st)) by congruence.
    exact (decoder_releases_only_committed _ _ _ _ _ _ _ _ _ _ P C N D1).
  Qed.

  Theorem record_size_refused d s dg maxrs hd rest :
    splitN s 8 = Some (hd, rest) -> (unbe hd = 0 \/ maxrs < unbe hd) ->
    new_decoder H d s dg maxrs = Err.
  Proof.
    intros Sp B. unfold new_decoder.
    destruct (parse_digest_header_cases d dg) as [P|[top P]]; rewrite P; [reflexivity|].
    cbn [bind]. rewrite Sp.
    assert (T : (unbe hd =? 0) || (maxrs <? unbe hd) = true).
    { apply orb_true_iff. destruct B as [B|B]; [left; apply N.eqb_eq|right; apply N.ltb_lt]; exact B. }
    rewrite T. reflexivity.
  Qed.
End Safety.
