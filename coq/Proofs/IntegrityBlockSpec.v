(* Proofs/IntegrityBlockSpec.v - C07, part 5: the model meets Spec/IntegrityBlock.v.
   - the attributes map / the block are the deterministic token encodings the
     explainer's CDDL describes, and the independent tokeniser reads them back;
   - data_to_be_signed is Spec.dtbs;
   - Base/Base32.v is RFC 4648 base32 (bit-level spec) on whole groups, so the
     Web Bundle ID is the spec's. *)
From Coq Require Import Lia ZifyN ZifyNat ZifyBool Permutation Sorted.
From WP Require Import Base.Prelude Base.Base32 Model.Cbor Model.Det Model.IntegrityBlock.
From WP Require Import Spec.Cbor Spec.IntegrityBlock.
From WP Require Import Proofs.BaseLemmas Proofs.CborHead Proofs.CborMap Proofs.CborUtf8 Proofs.CborTokens.
From WP Require Import Proofs.IntegrityBlockBase Proofs.IntegrityBlockCbor Proofs.IntegrityBlockId.
Ltac Zify.zify_post_hook ::= Z.div_mod_to_equations.
Open Scope N_scope.

(* ---- strings and heads ------------------------------------------------------ *)
Lemma enc_text_token_bytes (k : bytes) : enc_bytes_of MText k = senc_token (TText k).
Proof. unfold enc_bytes_of. rewrite (typed_uint_senc_head MText) by exact MText_const. reflexivity. Qed.

Lemma enc_bytes_token_bytes (v : bytes) : enc_bytes v = senc_token (TBytes v).
Proof.
  unfold enc_bytes, enc_bytes_of. rewrite (typed_uint_senc_head MBytes) by exact MBytes_const.
  reflexivity.
Qed.

Lemma enc_array_header_token (n : N) : enc_array_header n = senc_token (TArr n).
Proof. unfold enc_array_header. rewrite (typed_uint_senc_head TArray) by exact MArray_const. reflexivity. Qed.

Lemma enc_map_header_token (n : N) : enc_map_header n = senc_token (TMap n).
Proof. unfold enc_map_header. rewrite (typed_uint_senc_head MMap) by exact MMap_const. reflexivity. Qed.

Lemma senc_tokens_cons (t : token) (l : list token) :
  senc_tokens (t :: l) = senc_token t ++ senc_tokens l.
Proof. reflexivity. Qed.

(* ---- attributes ---------------------------------------------------------------- *)
Lemma StronglySorted_weaken {A} (R R' : A -> A -> Prop) (l : list A) :
  (forall x y, R x y -> R' x y) -> StronglySorted R l -> StronglySorted R' l.
Proof.
  intros HR. induction 1 as [|x l HS IH HF]; constructor; [exact IH|].
  eapply Forall_impl; [|exact HF]. intros y. apply HR.
Qed.

Lemma attr_entries_tokens (s : attrs) :
  flat_map attr_entry_bytes s =
  senc_tokens (flat_map (fun kv => [TText (fst kv); TBytes (snd kv)]) s).
Proof.
  induction s as [|[k v] s IH]; [reflexivity|].
  cbn [flat_map]. rewrite senc_tokens_app, <- IH.
  unfold attr_entry_bytes at 1. cbn [fst snd].
  rewrite enc_text_token_bytes, enc_bytes_token_bytes.
  rewrite !senc_tokens_cons. unfold senc_tokens at 1. cbn [flat_map].
  rewrite app_nil_r, <- app_assoc. reflexivity.
Qed.

Theorem attrs_cbor_spec (a : attrs) (ab : bytes) : attrs_cbor a = Ok ab -> AttrBytes a ab.
Proof.
  intros H. destruct (attrs_cbor_sorted a ab H) as [s [HP [HS HE]]].
  exists s. split; [exact HP|]. split.
  - unfold key_sorted. eapply StronglySorted_weaken; [|exact HS].
    intros x y Hxy. rewrite <- !enc_text_token_bytes. exact Hxy.
  - unfold attr_tokens. rewrite senc_tokens_cons, <- attr_entries_tokens,
      <- enc_map_header_token, (lenN_perm _ _ HP). exact HE.
Qed.

(* ---- data to be signed ------------------------------------------------------- *)
Lemma dtbs_bytes_spec (h blk ab : bytes) : dtbs_bytes h blk ab = Spec.IntegrityBlock.dtbs h blk ab.
Proof. unfold dtbs_bytes, Spec.IntegrityBlock.dtbs, len64. rewrite !sbe_be. reflexivity. Qed.

Theorem dtbs_spec (h blk : bytes) (a : attrs) (d : bytes) :
  data_to_be_signed h blk a = Ok d <->
  exists ab, attrs_cbor a = Ok ab /\ d = Spec.IntegrityBlock.dtbs h blk ab.
Proof.
  rewrite dtbs_ok_iff. split; intros [ab [H1 H2]]; exists ab; split; try exact H1.
  - rewrite <- dtbs_bytes_spec. exact H2.
  - rewrite dtbs_bytes_spec. exact H2.
Qed.

(* ---- the block ---------------------------------------------------------------- *)
Definition ssig_of (s : isig) : ssig := (is_attrs s, is_sig s).

Lemma sig_item_tokens (a' : sattrs) (sg : bytes) :
  sig_item_bytes (senc_tokens (attr_tokens a')) sg = senc_tokens (sig_tokens (a', sg)).
Proof.
  unfold sig_item_bytes, sig_tokens. cbn [fst snd].
  rewrite senc_tokens_cons, senc_tokens_app, senc_tokens_single.
  rewrite enc_array_header_token, enc_bytes_token_bytes. reflexivity.
Qed.

Lemma StackBytes_spec (l : list isig) (items : list bytes) :
  StackBytes l items ->
  exists st', Canon (map ssig_of l) st' /\ List.concat items = senc_tokens (flat_map sig_tokens st').
Proof.
  induction 1 as [|s t ab items Ha HS IH].
  - exists []. split; [constructor|reflexivity].
  - destruct IH as [st' [HC HE]].
    destruct (attrs_cbor_spec _ _ Ha) as [a' [HP [HK Eab]]].
    exists ((a', is_sig s) :: st'). split.
    + cbn [map]. constructor; [|exact HC]. cbn [fst snd ssig_of]. auto.
    + cbn [List.concat flat_map]. rewrite senc_tokens_app, <- HE, Eab, sig_item_tokens.
      reflexivity.
Qed.

Lemma Canon_lenN (st st' : list ssig) : Canon st st' -> lenN st' = lenN st.
Proof. induction 1 as [|x y l l' Hxy HF IH]; cbn [lenN]; [reflexivity|]. rewrite IH. reflexivity. Qed.

Theorem block_cbor_spec (b : iblock) (bs : bytes) :
  block_cbor b = Ok bs -> BlockBytes (map ssig_of (ib_stack b)) bs.
Proof.
  intros H. apply block_cbor_layout in H. destruct H as [items [HS E]].
  destruct (StackBytes_spec _ _ HS) as [st' [HC HE]].
  exists st'. split; [exact HC|]. subst bs. unfold block_bytes, block_tokens.
  rewrite senc_tokens_app, <- HE.
  rewrite (Canon_lenN _ _ HC), lenN_map.
  unfold senc_tokens at 1. cbn [flat_map].
  change (senc_token (TArr 3)) with [131].
  change (senc_token (TBytes magic)) with (72 :: ib_magic).
  change (senc_token (TBytes version_b1)) with (68 :: ib_version_b1).
  rewrite <- enc_array_header_token, app_nil_r, <- !app_assoc. reflexivity.
Qed.

(* the independent tokeniser reads the block back: [3-array, magic, version,
   n-array, then per signature 2-array, map, name/value..., signature], every
   head in shortest form *)
Definition ssig_small (s : ssig) : Prop :=
  lenN (fst s) < two64 /\
  Forall (fun kv => lenN (fst kv) < two64 /\ lenN (snd kv) < two64) (fst s) /\
  lenN (snd s) < two64.

Lemma attr_tokens_wf (a : sattrs) :
  lenN a < two64 -> Forall (fun kv => lenN (fst kv) < two64 /\ lenN (snd kv) < two64) a ->
  Forall (fun kv => Utf8Valid (fst kv)) a -> Forall tok_wf (attr_tokens a).
Proof.
  intros HL HF HU. unfold attr_tokens. constructor; [split; [exact HL|exact I]|].
  induction a as [|[k v] a IH]; cbn [flat_map]; [constructor|].
  inversion HF as [|x l [Hk Hv] HF']; subst. inversion HU as [|x l Hu HU']; subst.
  cbn [fst snd] in *. cbn [lenN] in HL.
  constructor; [split; [exact Hk|exact Hu]|].
  constructor; [split; [exact Hv|exact I]|]. cbn [app]. apply IH; [lia|assumption|assumption].
Qed.

Theorem block_cbor_reads_back (b : iblock) (bs : bytes) :
  lenN (ib_stack b) < two64 ->
  Forall (fun s => ssig_small (ssig_of s)) (ib_stack b) ->
  block_cbor b = Ok bs ->
  exists st', Canon (map ssig_of (ib_stack b)) st' /\
              bs = senc_tokens (block_tokens st') /\
              stokens bs = Some (map with_width (block_tokens st')) /\
              Forall tok_shortest (map with_width (block_tokens st')).
Proof.
  intros HL HF H.
  assert (HU : Forall (fun s => Forall (fun kv => Utf8Valid (fst kv)) (is_attrs s)) (ib_stack b)).
  { apply block_cbor_layout in H. destruct H as [items [HS _]]. clear - HS.
    induction HS as [|s t ab items Ha HS IH]; constructor; [|exact IH].
    apply attrs_cbor_ok_iff in Ha. destruct Ha as [Hu _]. unfold keys_utf8 in Hu.
    rewrite forallb_forall in Hu. apply Forall_forall. intros kv Hin.
    apply utf8_dfa_correct. apply Hu. exact Hin. }
  destruct (block_cbor_spec b bs H) as [st' [HC E]].
  exists st'. split; [exact HC|]. split; [exact E|]. split; [|apply with_width_shortest].
  rewrite E. apply stokens_senc_tokens. unfold block_tokens.
  apply Forall_app. split.
  - rewrite (Canon_lenN _ _ HC), lenN_map.
    repeat constructor; try exact I; try exact HL; cbn [tok_arg]; reflexivity.
  - clear E H HL. revert st' HC. induction (ib_stack b) as [|s t IH]; intros st' HC.
    + inversion HC; subst. constructor.
    + cbn [map] in HC. inversion HC as [|x y l l' [HP [HK ES]] HC']; subst.
      inversion HF as [|x0 l0 [S1 [S2 S3]] HF']; subst.
      inversion HU as [|x1 l1 U1 HU']; subst.
      cbn [flat_map]. apply Forall_app. split; [|apply IH; assumption].
      destruct y as [a' sg']. cbn [fst snd ssig_of] in *. subst sg'.
      unfold sig_tokens. cbn [fst snd]. constructor; [split; [reflexivity|exact I]|].
      apply Forall_app. split.
      * apply attr_tokens_wf.
        -- rewrite (lenN_perm _ _ HP). exact S1.
        -- eapply Permutation_Forall; [apply Permutation_sym; exact HP|exact S2].
        -- eapply Permutation_Forall; [apply Permutation_sym; exact HP|exact U1].
      * constructor; [split; [exact S3|exact I]|constructor].
Qed.

(* ---- base32 ------------------------------------------------------------------- *)
Lemma b32_sym_char (d : N) : d < 32 -> b32_sym d = b32_char d.
Proof.
  intros Hd.
  assert (Hall : forallb (fun x => b32_sym x =? b32_char x) (map N.of_nat (seq 0 32)) = true)
    by (vm_compute; reflexivity).
  rewrite forallb_forall in Hall. apply N.eqb_eq. apply Hall.
  apply in_map_iff. exists (N.to_nat d). split; [lia|]. apply in_seq. lia.
Qed.

Lemma ascii_lower_eq (c : N) : ascii_lower c = lower_byte c.
Proof. reflexivity. Qed.

(* Horner value of a digit string, most significant first *)
Definition horner (B : N) (l : list N) : N := fold_left (fun acc d => acc * B + d) l 0.

Lemma horner_snoc (B : N) (l : list N) (d : N) : horner B (l ++ [d]) = horner B l * B + d.
Proof. unfold horner. rewrite fold_left_app. reflexivity. Qed.

Lemma dg_horner (B : N) (l : list N) : B <> 0 -> forall k,
  List.length l = k -> Forall (fun d => d < B) l -> dg B k (horner B l) = l.
Proof.
  intros HB. induction l as [|d l IH] using rev_ind; intros k HL HF.
  - cbn [List.length] in HL. subst k. reflexivity.
  - rewrite app_length in HL. cbn [List.length] in HL.
    destruct k as [|k]; [lia|].
    apply Forall_app in HF. destruct HF as [HF Hd]. inversion Hd as [|x y Hd' _]; subst.
    rewrite dg_snoc by exact HB. rewrite horner_snoc.
    assert (Eq : (horner B l * B + d) / B = horner B l).
    { rewrite N.add_comm, N.div_add by exact HB.
      rewrite (N.div_small d B Hd'). reflexivity. }
    assert (Er : (horner B l * B + d) mod B = d).
    { rewrite N.add_comm, N.mod_add by exact HB. apply N.mod_small. exact Hd'. }
    rewrite Eq, Er. rewrite IH; [reflexivity|lia|exact HF].
Qed.

Lemma byte_bits_sum (a : N) : a < 256 ->
  a = 128 * (a / 128 mod 2) + 64 * (a / 64 mod 2) + 32 * (a / 32 mod 2) + 16 * (a / 16 mod 2)
      + 8 * (a / 8 mod 2) + 4 * (a / 4 mod 2) + 2 * (a / 2 mod 2) + a mod 2.
Proof.
  intros Ha.
  assert (Hall : forallb (fun x => x =? 128 * (x / 128 mod 2) + 64 * (x / 64 mod 2)
      + 32 * (x / 32 mod 2) + 16 * (x / 16 mod 2) + 8 * (x / 8 mod 2) + 4 * (x / 4 mod 2)
      + 2 * (x / 2 mod 2) + x mod 2) (map N.of_nat (seq 0 256)) = true)
    by (vm_compute; reflexivity).
  rewrite forallb_forall in Hall. apply N.eqb_eq. apply Hall.
  apply in_map_iff. exists (N.to_nat a). split; [lia|]. apply in_seq. lia.
Qed.

Lemma byte_bits (a : N) : a < 256 ->
  exists b7 b6 b5 b4 b3 b2 b1 b0,
    bits8 a = [b7; b6; b5; b4; b3; b2; b1; b0] /\
    a = 128 * b7 + 64 * b6 + 32 * b5 + 16 * b4 + 8 * b3 + 4 * b2 + 2 * b1 + b0 /\
    b7 < 2 /\ b6 < 2 /\ b5 < 2 /\ b4 < 2 /\ b3 < 2 /\ b2 < 2 /\ b1 < 2 /\ b0 < 2.
Proof.
  intros Ha. do 8 eexists. split; [reflexivity|]. split; [apply byte_bits_sum; exact Ha|].
  repeat split; apply N.mod_lt; discriminate.
Qed.

(* the 40 bits of five bytes, cut into eight quintets, are the base-32 digits
   of the 40-bit number *)
Lemma quintets_group (a b c d e : N) (rest : list N) :
  a < 256 -> b < 256 -> c < 256 -> d < 256 -> e < 256 ->
  quintets (bits [a; b; c; d; e] ++ rest) = dg 32 8 (unbe [a; b; c; d; e]) ++ quintets rest.
Proof.
  intros Ha Hb Hc Hd He.
  destruct (byte_bits a Ha) as [a7 [a6 [a5 [a4 [a3 [a2 [a1 [a0 [Ea [Sa Ba]]]]]]]]]].
  destruct (byte_bits b Hb) as [b7 [b6 [b5 [b4 [b3 [b2 [b1 [b0 [Eb [Sb Bb]]]]]]]]]].
  destruct (byte_bits c Hc) as [c7 [c6 [c5 [c4 [c3 [c2 [c1 [c0 [Ec [Sc Bc]]]]]]]]]].
  destruct (byte_bits d Hd) as [d7 [d6 [d5 [d4 [d3 [d2 [d1 [d0 [Ed [Sd Bd]]]]]]]]]].
  destruct (byte_bits e He) as [e7 [e6 [e5 [e4 [e3 [e2 [e1 [e0 [Ee [Se Be]]]]]]]]]].
  unfold bits. cbn [flat_map]. rewrite Ea, Eb, Ec, Ed, Ee. cbn [app quintets].
  set (q0 := bval [a7; a6; a5; a4; a3]). set (q1 := bval [a2; a1; a0; b7; b6]).
  set (q2 := bval [b5; b4; b3; b2; b1]). set (q3 := bval [b0; c7; c6; c5; c4]).
  set (q4 := bval [c3; c2; c1; c0; d7]). set (q5 := bval [d6; d5; d4; d3; d2]).
  set (q6 := bval [d1; d0; e7; e6; e5]). set (q7 := bval [e4; e3; e2; e1; e0]).
  assert (EV : unbe [a; b; c; d; e] = horner 32 [q0; q1; q2; q3; q4; q5; q6; q7]).
  { unfold unbe, horner, q0, q1, q2, q3, q4, q5, q6, q7, bval. cbn [fold_left]. lia. }
  rewrite EV. rewrite (dg_horner 32 [q0; q1; q2; q3; q4; q5; q6; q7]); [reflexivity|discriminate|reflexivity|].
  unfold q0, q1, q2, q3, q4, q5, q6, q7, bval. cbn [fold_left].
  repeat constructor; lia.
Qed.

Lemma bits_app (x y : bytes) : bits (x ++ y) = bits x ++ bits y.
Proof. apply flat_map_app. Qed.

Lemma quintets_groups (gs : list bytes) :
  groups5 gs -> Forall wfb gs ->
  quintets (bits (List.concat gs)) = flat_map (fun g => dg 32 8 (unbe g)) gs.
Proof.
  induction 1 as [|g gs Hg HF IH]; intros W; [reflexivity|].
  inversion W as [|x l Wg W']; subst.
  destruct g as [|a [|b [|c [|d [|e [|x t]]]]]]; try discriminate Hg.
  cbn [List.concat flat_map]. rewrite bits_app.
  unfold wfb in Wg.
  inversion Wg as [|? ? Ha Wg1]; subst. inversion Wg1 as [|? ? Hb Wg2]; subst.
  inversion Wg2 as [|? ? Hc Wg3]; subst. inversion Wg3 as [|? ? Hd Wg4]; subst.
  inversion Wg4 as [|? ? He Wg5]; subst.
  rewrite quintets_group by assumption. rewrite IH by exact W'. reflexivity.
Qed.

Lemma flat_map_b32_group (gs : list bytes) :
  groups5 gs ->
  flat_map b32_group gs = map b32_char (flat_map (fun g => dg 32 8 (unbe g)) gs).
Proof.
  induction 1 as [|g gs Hg HF IH]; [reflexivity|].
  cbn [flat_map]. rewrite map_app, <- IH, (b32_group_5 g Hg). reflexivity.
Qed.

Lemma flat_dg_lt (gs : list bytes) :
  Forall (fun d => d < 32) (flat_map (fun g => dg 32 8 (unbe g)) gs).
Proof.
  induction gs as [|g gs IH]; cbn [flat_map]; [constructor|].
  apply Forall_app. split; [apply dg_lt; discriminate|exact IH].
Qed.

Lemma map_ext_Forall {A B} (f g : A -> B) (P : A -> Prop) (l : list A) :
  (forall x, P x -> f x = g x) -> Forall P l -> map f l = map g l.
Proof.
  intros Hfg. induction 1 as [|x l Hx HF IH]; cbn [map]; [reflexivity|].
  rewrite (Hfg x Hx), IH. reflexivity.
Qed.

(* Base/Base32.v agrees with RFC 4648 on every input made of whole groups *)
Theorem b32_encode_rfc4648 (k : nat) (bs : bytes) :
  wfb bs -> List.length bs = (5 * k)%nat ->
  b32_encode bs = sb32 bs /\ sb32 bs = sb32_nopad bs.
Proof.
  intros W HL. destruct (split_groups5 k bs HL) as [gs [E [HG HK]]]. subst bs.
  assert (Wg : Forall wfb gs) by (apply wfb_groups; exact W).
  assert (E1 : b32_encode (List.concat gs) = sb32_nopad (List.concat gs)).
  { rewrite (b32_encode_groups gs HG), (flat_map_b32_group gs HG).
    unfold sb32_nopad. rewrite (quintets_groups gs HG Wg).
    symmetry. apply (map_ext_Forall _ _ (fun d => d < 32)); [exact b32_sym_char|apply flat_dg_lt]. }
  assert (E2 : sb32 (List.concat gs) = sb32_nopad (List.concat gs)).
  { unfold sb32. cbv zeta. rewrite <- E1, (b32_encode_groups gs HG).
    assert (HLn : List.length (flat_map b32_group gs) = (8 * List.length gs)%nat).
    { clear - HG. induction HG as [|g gs Hg HF IH]; [reflexivity|].
      cbn [flat_map List.length]. rewrite app_length, IH, (b32_group_5 g Hg), map_length, dg_length. lia. }
    rewrite HLn.
    assert (Hz : ((8 - (8 * List.length gs) mod 8) mod 8 = 0)%nat).
    { rewrite Nat.mul_comm, Nat.mod_mul by discriminate. reflexivity. }
    rewrite Hz. cbn [repeat]. apply app_nil_r. }
  split; [rewrite E2; exact E1|exact E2].
Qed.

Theorem web_bundle_id_spec (pk : bytes) :
  wfb pk -> List.length pk = 32%nat -> web_bundle_id pk = bundle_id pk.
Proof.
  intros W HL. unfold web_bundle_id, bundle_id, lower.
  assert (W35 : wfb (pk ++ [0; 1; 2])) by (apply wfb_app; split; [exact W|repeat constructor]).
  assert (H35 : List.length (pk ++ [0; 1; 2]) = (5 * 7)%nat) by (rewrite app_length, HL; reflexivity).
  destruct (b32_encode_rfc4648 7 _ W35 H35) as [E1 E2]. rewrite E1, E2. reflexivity.
Qed.
