(* Proofs/BundleReadTotal.v - the bundle reader is total: every loop of
   decoder.go finishes within the fuel the model gives it (each iteration
   consumes at least one input byte or returns), and no slice expression can
   be out of range (the section-table check keeps every offset inside the
   file, without 64-bit wrap-around). *)
From Coq Require Import Lia ZifyN ZifyNat ZifyBool.
From WP Require Import Base.Prelude Base.Decimal Model.Cbor Model.Http Model.Url Model.UrlRef
  Model.StructHdr Model.Variants Model.CertChain Model.Bundle Spec.Cbor Spec.BundleRead.
From WP Require Import Proofs.BaseLemmas Proofs.CborHead Proofs.CborDecode Proofs.SHItem
  Proofs.SHParse Proofs.BundleReadBase.
Ltac Zify.zify_post_hook ::= Z.div_mod_to_equations.
Open Scope N_scope.

Tactic Notation "beta_pair" := cbv beta iota.
Tactic Notation "beta_pair" "in" hyp(H) := cbv beta iota in H.

(* ================= decodeSectionLengthsCBOR ==================================== *)
Lemma dec_section_lengths_S f i n bs acc :
  dec_section_lengths (S f) i n bs acc =
  if n <=? i then Ok acc
  else
    let* (name, r1) := decode_text bs in
    if existsb (fun s => bytes_eqb (fst s) name) acc then Err
    else
      let* (len, r2) := decode_uint r1 in
      dec_section_lengths f (w64 (i + 2)) n r2 (acc ++ [(name, len)]).
Proof. reflexivity. Qed.

Lemma dec_section_lengths_total : forall fuel i n bs acc,
  (List.length bs < fuel)%nat -> ok_or_err (dec_section_lengths fuel i n bs acc).
Proof.
  induction fuel as [|f IH]; intros i n bs acc Hf; [lia|].
  rewrite dec_section_lengths_S.
  destruct (n <=? i); [exact I|].
  apply ok_or_err_bind; [apply decode_text_total|]. intros [name r1] E1. beta_pair.
  destruct (existsb _ acc); [exact I|].
  apply ok_or_err_bind; [apply decode_uint_total|]. intros [len r2] E2. beta_pair.
  apply IH. apply decode_text_shrinks in E1. apply decode_uint_shrinks in E2. lia.
Qed.

Lemma decode_section_lengths_total bs : ok_or_err (decode_section_lengths bs).
Proof.
  unfold decode_section_lengths.
  apply ok_or_err_bind; [apply decode_array_header_total|]. intros [n r] E. beta_pair.
  apply dec_section_lengths_total. lia.
Qed.

(* ================= decodeCborHeaders / loadResponse ============================== *)
Lemma dec_cbor_headers_S f n bs h ps :
  dec_cbor_headers (S f) n bs h ps =
  if n =? 0 then Ok (h, ps, bs)
  else
    let* (name, r1) := decode_bytes bs in
    let* (value, r2) := decode_bytes r1 in
    if negb (is_ascii_b name) then Err
    else if negb (is_ascii_b value) then Err
    else if negb (bytes_eqb (lower name) name) then Err
    else
      match name with
      | 58 :: _ =>
          if existsb (fun p => bytes_eqb (fst p) name) ps then Err
          else dec_cbor_headers f (n - 1) r2 h (ps ++ [(name, value)])
      | _ =>
          let k := canonical_key name in
          if existsb (fun nv => bytes_eqb (fst nv) k) h then Err
          else dec_cbor_headers f (n - 1) r2 (h ++ [(k, [value])]) ps
      end.
Proof. reflexivity. Qed.

(* the two-way split on the name that the Go code makes with HasPrefix(":") *)
Lemma dec_cbor_headers_step f n bs h ps :
  dec_cbor_headers (S f) n bs h ps =
  if n =? 0 then Ok (h, ps, bs)
  else
    let* (name, r1) := decode_bytes bs in
    let* (value, r2) := decode_bytes r1 in
    if negb (is_ascii_b name) then Err
    else if negb (is_ascii_b value) then Err
    else if negb (bytes_eqb (lower name) name) then Err
    else if is_pseudo name then
      if existsb (fun p => bytes_eqb (fst p) name) ps then Err
      else dec_cbor_headers f (n - 1) r2 h (ps ++ [(name, value)])
    else
      if existsb (fun nv => bytes_eqb (fst nv) (canonical_key name)) h then Err
      else dec_cbor_headers f (n - 1) r2 (h ++ [(canonical_key name, [value])]) ps.
Proof.
  rewrite dec_cbor_headers_S. destruct (n =? 0); [reflexivity|].
  destruct (decode_bytes bs) as [[name r1]| | |]; cbn [bind]; try reflexivity.
  destruct (decode_bytes r1) as [[value r2]| | |]; cbn [bind]; try reflexivity.
  destruct (negb (is_ascii_b name)); [reflexivity|].
  destruct (negb (is_ascii_b value)); [reflexivity|].
  destruct (negb (bytes_eqb (lower name) name)); [reflexivity|].
  destruct name as [|c name']; [reflexivity|].
  unfold is_pseudo.
  destruct c as [|p]; [reflexivity|].
  do 6 (destruct p as [p|p|]; try reflexivity).
Qed.

Lemma dec_cbor_headers_total : forall fuel n bs h ps,
  (List.length bs < fuel)%nat -> ok_or_err (dec_cbor_headers fuel n bs h ps).
Proof.
  induction fuel as [|f IH]; intros n bs h ps Hf; [lia|].
  rewrite dec_cbor_headers_step.
  destruct (n =? 0); [exact I|].
  apply ok_or_err_bind; [apply decode_bytes_total|]. intros [name r1] E1. beta_pair.
  apply ok_or_err_bind; [apply decode_bytes_total|]. intros [value r2] E2. beta_pair.
  apply decode_bytes_shrinks in E1. apply decode_bytes_shrinks in E2.
  destruct (negb (is_ascii_b name)); [exact I|].
  destruct (negb (is_ascii_b value)); [exact I|].
  destruct (negb (bytes_eqb (lower name) name)); [exact I|].
  destruct (is_pseudo name).
  - destruct (existsb _ ps); [exact I|]. apply IH. lia.
  - destruct (existsb _ h); [exact I|]. apply IH. lia.
Qed.

Lemma load_response_total item : ok_or_err (load_response item).
Proof.
  unfold load_response. destruct item as [|b0 r]; [exact I|].
  destruct (negb (b0 =? 130)); [exact I|].
  apply ok_or_err_bind; [apply decode_bytes_total|]. intros [hc r1] E1. beta_pair.
  apply ok_or_err_bind; [apply decode_map_header_total|]. intros [n hr] E2. beta_pair.
  apply ok_or_err_bind; [apply dec_cbor_headers_total; lia|]. intros [[h ps] rest] E3. beta_pair.
  destruct ps as [|[k st] [|p2 ps]]; try exact I.
  destruct (negb (bytes_eqb k (s2b ":status"))); [exact I|].
  destruct st as [|a [|b [|c [|d st]]]]; try exact I.
  destruct (is_digit_n a && is_digit_n b && is_digit_n c); [|exact I].
  apply ok_or_err_bind; [apply decode_bytes_total|]. intros [body r2] E4. beta_pair.
  destruct r2; exact I.
Qed.

(* ================= the index section ============================================== *)
Lemma read_locs_S f k bs u rl ro acc :
  read_locs (S f) k bs u rl ro acc =
  if k =? 0 then Ok (acc, bs)
  else
    let* (o, r1) := decode_uint bs in
    let* (l, r2) := decode_uint r1 in
    let* (o', l') := make_relative rl ro o l in
    read_locs f (k - 1) r2 u rl ro (acc ++ [{| l_url := u; l_off := o'; l_len := l' |}]).
Proof. reflexivity. Qed.

Lemma read_locs_total : forall fuel k bs u rl ro acc,
  (N.to_nat k < fuel)%nat -> ok_or_err (read_locs fuel k bs u rl ro acc).
Proof.
  induction fuel as [|f IH]; intros k bs u rl ro acc Hf; [lia|].
  rewrite read_locs_S. destruct (N.eqb_spec k 0) as [E|E]; [exact I|].
  apply ok_or_err_bind; [apply decode_uint_total|]. intros [o r1] E1. beta_pair.
  apply ok_or_err_bind; [apply decode_uint_total|]. intros [l r2] E2. beta_pair.
  apply ok_or_err_bind; [apply make_relative_total|]. intros [o' l'] E3. beta_pair.
  apply IH. lia.
Qed.

Lemma read_locs_length : forall fuel k bs u rl ro acc ls rest,
  read_locs fuel k bs u rl ro acc = Ok (ls, rest) ->
  (List.length rest <= List.length bs)%nat.
Proof.
  induction fuel as [|f IH]; intros k bs u rl ro acc ls rest H; [discriminate|].
  rewrite read_locs_S in H. destruct (k =? 0).
  - inversion H; subst. lia.
  - apply bind_ok in H. destruct H as [[o r1] [E1 H]]. beta_pair in H.
    apply bind_ok in H. destruct H as [[l r2] [E2 H]]. beta_pair in H.
    apply bind_ok in H. destruct H as [[o' l'] [E3 H]]. beta_pair in H.
    apply IH in H. apply decode_uint_shrinks in E1. apply decode_uint_shrinks in E2. lia.
Qed.

Lemma num_possible_keys_from_total : forall v n, ok_or_err (num_possible_keys_from v n).
Proof.
  induction v as [|vals t IH]; intros n; cbn [num_possible_keys_from]; [exact I|].
  destruct vals as [|x [|y poss]]; try exact I.
  destruct (max_variants <? _); [exact I|]. apply IH.
Qed.

Lemma parse_list_of_string_lists_total s : ok_or_err (parse_list_of_string_lists s).
Proof.
  unfold parse_list_of_string_lists.
  apply ok_or_err_bind; [exact (parse_lol_total s)|]. intros ll _. apply ok_or_err_of_opt.
Qed.

(* one iteration of parseIndexSection[WithVariants]: the entry after the key *)
Definition index_value (v : bversion) (items : N) (r2 : bytes) (u : bytes) (rl ro : N)
  : R (list loc * bytes) :=
  match v with
  | BV2 => if negb (items =? 2) then Err else read_locs 2 1 r2 u rl ro []
  | BV1 =>
      if items =? 0 then Err
      else
        let* (vv, r3) := decode_bytes r2 in
        match vv with
        | [] => if negb (items =? 3) then Err else read_locs 2 1 r3 u rl ro []
        | _ =>
            let* vs := parse_list_of_string_lists vv in
            let* nk := num_possible_keys vs in
            if negb (items =? 2 * nk + 1) then Err
            else read_locs (S (N.to_nat nk)) nk r3 u rl ro []
        end
  end.

Lemma parse_index_S f v n bs rl ro acc taint :
  parse_index (S f) v n bs rl ro acc taint =
  if n =? 0 then Ok (acc, taint)
  else
    let* (u, r1) := decode_text bs in
    if negb (fst (index_url_ok u)) then Err
    else
      let* (items, r2) := decode_array_header r1 in
      let* (ls, r4) := index_value v items r2 u rl ro in
      parse_index f v (n - 1) r4 rl ro (acc ++ ls) (taint || snd (index_url_ok u)).
Proof.
  cbn [parse_index]. destruct (n =? 0); [reflexivity|].
  destruct (decode_text bs) as [[u r1]| | |]; cbn [bind]; try reflexivity.
  destruct (index_url_ok u) as [ok t]. cbn [fst snd].
  destruct (negb ok); [reflexivity|].
  destruct (decode_array_header r1) as [[items r2]| | |]; cbn [bind]; try reflexivity.
  unfold index_value. destruct v.
  - destruct (items =? 0); [reflexivity|].
    destruct (decode_bytes r2) as [[vv r3]| | |]; cbn [bind]; try reflexivity.
    destruct vv as [|c vv].
    + destruct (negb (items =? 3)); reflexivity.
    + destruct (parse_list_of_string_lists (c :: vv)) as [vs| | |]; cbn [bind]; try reflexivity.
      destruct (num_possible_keys vs) as [nk| | |]; cbn [bind]; try reflexivity.
      destruct (negb (items =? 2 * nk + 1)); reflexivity.
  - destruct (negb (items =? 2)); reflexivity.
Qed.

Lemma index_value_total v items r2 u rl ro : ok_or_err (index_value v items r2 u rl ro).
Proof.
  unfold index_value. destruct v.
  - destruct (items =? 0); [exact I|].
    apply ok_or_err_bind; [apply decode_bytes_total|]. intros [vv r3] E1. beta_pair.
    destruct vv as [|c vv].
    + destruct (negb (items =? 3)); [exact I|]. apply read_locs_total. cbn. lia.
    + apply ok_or_err_bind; [apply parse_list_of_string_lists_total|]. intros vs E2.
      apply ok_or_err_bind; [apply num_possible_keys_from_total|]. intros nk E3.
      destruct (negb (items =? 2 * nk + 1)); [exact I|]. apply read_locs_total. lia.
  - destruct (negb (items =? 2)); [exact I|]. apply read_locs_total. cbn. lia.
Qed.

Lemma index_value_length v items r2 u rl ro ls r4 :
  index_value v items r2 u rl ro = Ok (ls, r4) -> (List.length r4 <= List.length r2)%nat.
Proof.
  unfold index_value. destruct v.
  - destruct (items =? 0); [discriminate|]. intros H.
    apply bind_ok in H. destruct H as [[vv r3] [E1 H]]. beta_pair in H.
    apply decode_bytes_shrinks in E1.
    destruct vv as [|c vv].
    + destruct (negb (items =? 3)); [discriminate|]. apply read_locs_length in H. lia.
    + apply bind_ok in H. destruct H as [vs [E2 H]].
      apply bind_ok in H. destruct H as [nk [E3 H]].
      destruct (negb (items =? 2 * nk + 1)); [discriminate|]. apply read_locs_length in H. lia.
  - destruct (negb (items =? 2)); [discriminate|]. intros H. apply read_locs_length in H. lia.
Qed.

Lemma parse_index_total : forall fuel v n bs rl ro acc taint,
  (List.length bs < fuel)%nat -> ok_or_err (parse_index fuel v n bs rl ro acc taint).
Proof.
  induction fuel as [|f IH]; intros v n bs rl ro acc taint Hf; [lia|].
  rewrite parse_index_S. destruct (n =? 0); [exact I|].
  apply ok_or_err_bind; [apply decode_text_total|]. intros [u r1] E1. beta_pair.
  destruct (negb (fst (index_url_ok u))); [exact I|].
  apply ok_or_err_bind; [apply decode_array_header_total|]. intros [items r2] E2. beta_pair.
  apply ok_or_err_bind; [apply index_value_total|]. intros [ls r4] E3. beta_pair.
  apply IH. apply decode_text_shrinks in E1. apply decode_array_header_shrinks in E2.
  apply index_value_length in E3. lia.
Qed.

(* ================= the signatures section ============================================ *)
Section Read.
  Variable x509_ok : bytes -> bool.

  Lemma dec_entries_total : forall fuel m bs c o s,
    (List.length bs < fuel)%nat -> ok_or_err (dec_entries x509_ok fuel m bs c o s).
  Proof.
    induction fuel as [|f IH]; intros m bs c o s Hf; [lia|].
    cbn [dec_entries]. destruct (m =? 0); [exact I|].
    apply ok_or_err_bind; [apply decode_text_total|]. intros [k r1] E1. beta_pair.
    apply ok_or_err_bind; [apply decode_bytes_total|]. intros [v r2] E2. beta_pair.
    apply decode_text_shrinks in E1. apply decode_bytes_shrinks in E2.
    destruct (bytes_eqb k _).
    { destruct (x509_ok v); [|exact I]. apply IH. lia. }
    destruct (bytes_eqb k _); [apply IH; lia|].
    destruct (bytes_eqb k _); apply IH; lia.
  Qed.

  Lemma dec_entries_length : forall fuel m bs c o s c' o' s' rest,
    dec_entries x509_ok fuel m bs c o s = Ok (c', o', s', rest) ->
    (List.length rest <= List.length bs)%nat.
  Proof.
    induction fuel as [|f IH]; intros m bs c o s c' o' s' rest H; [discriminate|].
    cbn [dec_entries] in H. destruct (m =? 0).
    - inversion H; subst. lia.
    - apply bind_ok in H. destruct H as [[k r1] [E1 H]]. beta_pair in H.
      apply bind_ok in H. destruct H as [[v r2] [E2 H]]. beta_pair in H.
      apply decode_text_shrinks in E1. apply decode_bytes_shrinks in E2.
      destruct (bytes_eqb k _).
      { destruct (x509_ok v); [|discriminate]. apply IH in H. lia. }
      destruct (bytes_eqb k _); [apply IH in H; lia|].
      destruct (bytes_eqb k _); apply IH in H; lia.
  Qed.

  Lemma decode_augcert_total bs : ok_or_err (decode_augcert x509_ok bs).
  Proof.
    unfold decode_augcert.
    apply ok_or_err_bind; [apply decode_map_header_total|]. intros [m r] E1. beta_pair.
    apply ok_or_err_bind; [apply dec_entries_total; lia|]. intros [[[c o] s] r'] E2. beta_pair.
    destruct c; exact I.
  Qed.

  Lemma decode_augcert_shrinks bs a rest :
    decode_augcert x509_ok bs = Ok (a, rest) -> (List.length rest < List.length bs)%nat.
  Proof.
    unfold decode_augcert. intros H.
    apply bind_ok in H. destruct H as [[m r] [E1 H]]. beta_pair in H.
    apply bind_ok in H. destruct H as [[[[c o] s] r'] [E2 H]]. beta_pair in H.
    destruct c; [|discriminate]. inversion H; subst.
    apply decode_map_header_shrinks in E1. apply dec_entries_length in E2. lia.
  Qed.

  Lemma dec_auths_total : forall fuel n bs acc,
    (List.length bs < fuel)%nat -> ok_or_err (dec_auths x509_ok fuel n bs acc).
  Proof.
    induction fuel as [|f IH]; intros n bs acc Hf; [lia|].
    cbn [dec_auths]. destruct (n =? 0); [exact I|].
    apply ok_or_err_bind; [apply decode_augcert_total|]. intros [a r] E1. beta_pair.
    apply IH. apply decode_augcert_shrinks in E1. lia.
  Qed.

  Lemma dec_auths_length : forall fuel n bs acc l rest,
    dec_auths x509_ok fuel n bs acc = Ok (l, rest) -> (List.length rest <= List.length bs)%nat.
  Proof.
    induction fuel as [|f IH]; intros n bs acc l rest H; [discriminate|].
    cbn [dec_auths] in H. destruct (n =? 0).
    - inversion H; subst. lia.
    - apply bind_ok in H. destruct H as [[a r] [E1 H]]. beta_pair in H.
      apply decode_augcert_shrinks in E1. apply IH in H. lia.
  Qed.

  Lemma dec_vs_fields_total : forall k bs v, ok_or_err (dec_vs_fields k bs v).
  Proof.
    induction k as [|k IH]; intros bs v; cbn [dec_vs_fields]; [exact I|].
    apply ok_or_err_bind; [apply decode_text_total|]. intros [label r] E1. beta_pair.
    destruct (bytes_eqb label _).
    { apply ok_or_err_bind; [apply decode_uint_total|]. intros [a r'] E2. beta_pair. apply IH. }
    destruct (bytes_eqb label _).
    { apply ok_or_err_bind; [apply decode_bytes_total|]. intros [a r'] E2. beta_pair. apply IH. }
    destruct (bytes_eqb label _); [|exact I].
    apply ok_or_err_bind; [apply decode_bytes_total|]. intros [a r'] E2. beta_pair. apply IH.
  Qed.

  Lemma dec_vs_fields_length : forall k bs v v' rest,
    dec_vs_fields k bs v = Ok (v', rest) -> (List.length rest <= List.length bs)%nat.
  Proof.
    induction k as [|k IH]; intros bs v v' rest H; cbn [dec_vs_fields] in H.
    - inversion H; subst. lia.
    - apply bind_ok in H. destruct H as [[label r] [E1 H]]. beta_pair in H.
      apply decode_text_shrinks in E1.
      destruct (bytes_eqb label _).
      { apply bind_ok in H. destruct H as [[a r'] [E2 H]]. beta_pair in H.
        apply decode_uint_shrinks in E2. apply IH in H. lia. }
      destruct (bytes_eqb label _).
      { apply bind_ok in H. destruct H as [[a r'] [E2 H]]. beta_pair in H.
        apply decode_bytes_shrinks in E2. apply IH in H. lia. }
      destruct (bytes_eqb label _); [|discriminate].
      apply bind_ok in H. destruct H as [[a r'] [E2 H]]. beta_pair in H.
      apply decode_bytes_shrinks in E2. apply IH in H. lia.
  Qed.

  Lemma dec_vouched_total : forall fuel n bs acc,
    (List.length bs < fuel)%nat -> ok_or_err (dec_vouched fuel n bs acc).
  Proof.
    induction fuel as [|f IH]; intros n bs acc Hf; [lia|].
    cbn [dec_vouched]. destruct (n =? 0); [exact I|].
    apply ok_or_err_bind; [apply decode_map_header_total|]. intros [m r] E1. beta_pair.
    destruct (negb (m =? 3)); [exact I|].
    apply ok_or_err_bind; [apply dec_vs_fields_total|]. intros [v r'] E2. beta_pair.
    apply IH. apply decode_map_header_shrinks in E1. apply dec_vs_fields_length in E2. lia.
  Qed.

  Lemma parse_signatures_total bs : ok_or_err (parse_signatures x509_ok bs).
  Proof.
    unfold parse_signatures.
    apply ok_or_err_bind; [apply decode_array_header_total|]. intros [two r0] E0. beta_pair.
    destruct (negb (two =? 2)); [exact I|].
    apply ok_or_err_bind; [apply decode_array_header_total|]. intros [na r1] E1. beta_pair.
    apply decode_array_header_shrinks in E0. apply decode_array_header_shrinks in E1.
    apply ok_or_err_bind; [apply dec_auths_total; lia|]. intros [auths r2] E2. beta_pair.
    apply dec_auths_length in E2.
    apply ok_or_err_bind; [apply decode_array_header_total|]. intros [nv r3] E3. beta_pair.
    apply decode_array_header_shrinks in E3.
    apply ok_or_err_bind; [apply dec_vouched_total; lia|]. intros [vss r4] E4. beta_pair.
    exact I.
  Qed.
End Read.
