(* Proofs/PathUrlEscape.v - facts about the percent-escaping of a relative file
   path (Model/PathUrl.escape_path, i.e. net/url's EscapedPath for
   url.URL{Path: rel}): it is invertible, its output is made of harmless
   characters only, every '%' starts a well-formed escape, '/' is kept. *)
From Coq Require Import Lia ZifyN ZifyNat ZifyBool.
From WP Require Import Base.Prelude Model.Url Model.UrlRef Model.Cbor Model.PathUrl.
From WP Require Import Proofs.BaseLemmas.
Ltac Zify.zify_post_hook ::= Z.div_mod_to_equations.
Open Scope N_scope.

(* ---- finite sweeps over the 256 byte values ---------------------------- *)
Definition all_bytes : list N := map N.of_nat (seq 0 256).

Lemma in_all_bytes (c : N) : c < 256 -> In c all_bytes.
Proof.
  intros Hc. unfold all_bytes. apply in_map_iff. exists (N.to_nat c). split.
  - apply N2Nat.id.
  - apply in_seq. lia.
Qed.

Lemma byte_sweep (P : N -> bool) :
  forallb P all_bytes = true -> forall c, c < 256 -> P c = true.
Proof.
  intros Hs c Hc. rewrite forallb_forall in Hs. apply Hs, in_all_bytes, Hc.
Qed.

(* one input byte -> its escaped form *)
Definition esc1 (c : N) : bytes :=
  if path_safe c then [c] else [37; hexd (c / 16); hexd (c mod 16)].

Lemma escape_path_nil : escape_path [] = [].
Proof. reflexivity. Qed.

Lemma escape_path_cons (c : N) (p : bytes) : escape_path (c :: p) = esc1 c ++ escape_path p.
Proof. reflexivity. Qed.

Lemma escape_path_app (a b : bytes) : escape_path (a ++ b) = escape_path a ++ escape_path b.
Proof. unfold escape_path. apply flat_map_app. Qed.

(* ---- unescape_path, one step ------------------------------------------- *)
Lemma unescape_pct (a b : N) (r : bytes) :
  unescape_path (37 :: a :: b :: r) =
  match unhex a, unhex b, unescape_path r with
  | Some x, Some y, Some t => Some (x * 16 + y :: t)
  | _, _, _ => None
  end.
Proof. reflexivity. Qed.

Lemma unescape_plain (c : N) (r : bytes) :
  c <> 37 ->
  unescape_path (c :: r) =
  match unescape_path r with Some t => Some (c :: t) | None => None end.
Proof.
  intros Hc. destruct c as [|q]; [reflexivity|].
  repeat (match goal with
          | q' : positive |- _ => destruct q' as [q'|q'|]; try reflexivity
          end).
  exfalso. apply Hc. reflexivity.
Qed.

Definition rt_ok (c : N) : bool :=
  if path_safe c then negb (c =? 37)
  else match unhex (hexd (c / 16)), unhex (hexd (c mod 16)) with
       | Some x, Some y => x * 16 + y =? c
       | _, _ => false
       end.

Lemma rt_sweep : forallb rt_ok all_bytes = true.
Proof. vm_compute. reflexivity. Qed.

Lemma unescape_esc1 (c : N) (r : bytes) :
  c < 256 ->
  unescape_path (esc1 c ++ r) =
  match unescape_path r with Some t => Some (c :: t) | None => None end.
Proof.
  intros Hc. pose proof (byte_sweep rt_ok rt_sweep c Hc) as Hs.
  unfold rt_ok in Hs. unfold esc1. destruct (path_safe c).
  - cbn [app]. apply unescape_plain. intros E. subst c. discriminate Hs.
  - cbn [app]. rewrite unescape_pct.
    destruct (unhex (hexd (c / 16))) as [x|]; [|discriminate Hs].
    destruct (unhex (hexd (c mod 16))) as [y|]; [|discriminate Hs].
    apply N.eqb_eq in Hs. rewrite Hs. reflexivity.
Qed.

Lemma escape_roundtrip_app (p r : bytes) :
  wfb p ->
  unescape_path (escape_path p ++ r) =
  match unescape_path r with Some t => Some (p ++ t) | None => None end.
Proof.
  intros Hp. induction Hp as [|c p Hc Hp IH].
  - cbn [escape_path flat_map app]. destruct (unescape_path r); reflexivity.
  - rewrite escape_path_cons, <- app_assoc, unescape_esc1 by exact Hc.
    rewrite IH. destruct (unescape_path r); reflexivity.
Qed.

Theorem escape_roundtrip (p : bytes) : wfb p -> unescape_path (escape_path p) = Some p.
Proof.
  intros Hp. pose proof (escape_roundtrip_app p [] Hp) as H.
  cbn [unescape_path] in H. rewrite !app_nil_r in H. exact H.
Qed.

Theorem escape_injective (p q : bytes) :
  wfb p -> wfb q -> escape_path p = escape_path q -> p = q.
Proof.
  intros Hp Hq E. apply escape_roundtrip in Hp. apply escape_roundtrip in Hq.
  rewrite E in Hp. congruence.
Qed.

(* ---- the output alphabet ----------------------------------------------- *)
(* what every output character is: a path_safe character (letters, digits,
   - _ . ~ $ & + , / : ; = @) or '%'; after a '%' come two upper-case hex digits *)
Definition out_char (c : N) : bool := path_safe c || (c =? 37).

Definition clean_char (c : N) : Prop :=
  c < 128 /\ c <> 35 /\ c <> 63 /\ c <> 32 /\ 32 < c /\ c <> 127.

Definition clean_charb (c : N) : bool :=
  (c <? 128) && negb (c =? 35) && negb (c =? 63) && negb (c =? 32) && (32 <? c) && negb (c =? 127).

Lemma clean_charb_ok (c : N) : clean_charb c = true -> clean_char c.
Proof. unfold clean_charb, clean_char. lia. Qed.

Definition esc1_ok (c : N) : bool :=
  forallb (fun d => out_char d && clean_charb d && stable_char d && negb (is_ctl d)) (esc1 c) &&
  match esc1 c with
  | [d] => negb (d =? 37) && (d =? c)
  | [p; a; b] => (p =? 37) && is_hex_u a && is_hex_u b && negb (a =? 37) && negb (b =? 37)
                 && negb (b =? 47) && negb (c =? 47)
  | _ => false
  end.

Lemma esc1_sweep : forallb esc1_ok all_bytes = true.
Proof. vm_compute. reflexivity. Qed.

Lemma esc1_facts (c : N) : c < 256 -> esc1_ok c = true.
Proof. apply (byte_sweep esc1_ok esc1_sweep). Qed.

Lemma esc1_forall (c : N) :
  c < 256 ->
  forallb (fun d => out_char d && clean_charb d && stable_char d && negb (is_ctl d)) (esc1 c) = true.
Proof.
  intros Hc. pose proof (esc1_facts c Hc) as H. unfold esc1_ok in H.
  apply andb_true_iff in H. apply H.
Qed.

Lemma escape_forall (p : bytes) :
  wfb p ->
  forallb (fun d => out_char d && clean_charb d && stable_char d && negb (is_ctl d)) (escape_path p) = true.
Proof.
  intros Hp. induction Hp as [|c p Hc Hp IH]; [reflexivity|].
  rewrite escape_path_cons, forallb_app, IH, esc1_forall by exact Hc. reflexivity.
Qed.

Lemma escape_forall_each (p : bytes) (d : N) :
  wfb p -> In d (escape_path p) ->
  out_char d = true /\ clean_charb d = true /\ stable_char d = true /\ is_ctl d = false.
Proof.
  intros Hp Hd. pose proof (escape_forall p Hp) as H. rewrite forallb_forall in H.
  specialize (H d Hd). rewrite !andb_true_iff, negb_true_iff in H. tauto.
Qed.

Theorem escape_clean (p : bytes) : wfb p -> Forall clean_char (escape_path p).
Proof.
  intros Hp. apply Forall_forall. intros d Hd.
  apply clean_charb_ok. apply (escape_forall_each p d Hp Hd).
Qed.

Theorem escape_alphabet (p : bytes) :
  wfb p -> Forall (fun c => path_safe c = true \/ c = 37) (escape_path p).
Proof.
  intros Hp. apply Forall_forall. intros d Hd.
  destruct (escape_forall_each p d Hp Hd) as [H _]. unfold out_char in H.
  apply orb_true_iff in H. destruct H as [H|H]; [left; exact H|right; apply N.eqb_eq, H].
Qed.

Theorem escape_stable (p : bytes) : wfb p -> forallb stable_char (escape_path p) = true.
Proof.
  intros Hp. apply forallb_forall. intros d Hd. apply (escape_forall_each p d Hp Hd).
Qed.

Theorem escape_no_ctl (p : bytes) : wfb p -> existsb is_ctl (escape_path p) = false.
Proof.
  intros Hp. destruct (existsb is_ctl (escape_path p)) eqn:E; [|reflexivity].
  apply existsb_exists in E. destruct E as [d [Hd Hc]].
  destruct (escape_forall_each p d Hp Hd) as [_ [_ [_ H]]]. congruence.
Qed.

(* ---- every '%' is followed by two hex digits ---------------------------- *)
Lemma escapes_ok_plain (c : N) (r : bytes) : c <> 37 -> escapes_ok (c :: r) = escapes_ok r.
Proof.
  intros Hc. cbn [escapes_ok]. apply N.eqb_neq in Hc. rewrite Hc. reflexivity.
Qed.

Lemma escapes_ok_pct (a b : N) (r : bytes) :
  escapes_ok (37 :: a :: b :: r) = is_hex_u a && is_hex_u b && escapes_ok r.
Proof. reflexivity. Qed.

Lemma escapes_ok_esc1 (c : N) (r : bytes) : c < 256 -> escapes_ok (esc1 c ++ r) = escapes_ok r.
Proof.
  intros Hc. pose proof (esc1_facts c Hc) as H. unfold esc1_ok in H.
  apply andb_true_iff in H. destruct H as [_ H].
  destruct (esc1 c) as [|d [|a [|b [|e t]]]]; try discriminate H; cbv beta iota in H.
  - cbn [app]. apply escapes_ok_plain. lia.
  - cbn [app]. rewrite !andb_true_iff in H.
    destruct H as [[[[[[Hd Ha] Hb] _] _] _] _].
    apply N.eqb_eq in Hd. subst d. rewrite escapes_ok_pct, Ha, Hb. reflexivity.
Qed.

Lemma escapes_ok_escape_app (p r : bytes) :
  wfb p -> escapes_ok (escape_path p ++ r) = escapes_ok r.
Proof.
  intros Hp. induction Hp as [|c p Hc Hp IH]; [reflexivity|].
  rewrite escape_path_cons, <- app_assoc, escapes_ok_esc1 by exact Hc. exact IH.
Qed.

Theorem escape_escapes_ok (p : bytes) : wfb p -> escapes_ok (escape_path p) = true.
Proof.
  intros Hp. pose proof (escapes_ok_escape_app p [] Hp) as H.
  rewrite app_nil_r in H. exact H.
Qed.

(* a prefix without '%' does not matter *)
Lemma escapes_ok_nopct_app (d r : bytes) :
  forallb (fun c => negb (c =? 37)) d = true -> escapes_ok (d ++ r) = escapes_ok r.
Proof.
  induction d as [|c d IH]; intros H; [reflexivity|].
  cbn [forallb] in H. apply andb_true_iff in H. destruct H as [Hc Hd].
  cbn [app]. rewrite escapes_ok_plain by lia. apply IH, Hd.
Qed.

(* ---- '/' is kept, and nothing else becomes '/' -------------------------- *)
Lemma path_safe_slash : path_safe 47 = true.
Proof. reflexivity. Qed.

Theorem escape_preserves_slashes (a b : bytes) :
  escape_path (a ++ [47] ++ b) = escape_path a ++ [47] ++ escape_path b.
Proof. rewrite !escape_path_app. reflexivity. Qed.

(* an output '/' comes from an input '/' : a component without '/' escapes to
   a string without '/' *)
Lemma esc1_slash (c : N) : c < 256 -> In 47 (esc1 c) -> c = 47.
Proof.
  intros Hc Hin. pose proof (esc1_facts c Hc) as H. unfold esc1_ok in H.
  apply andb_true_iff in H. destruct H as [Hall H].
  destruct (esc1 c) as [|d [|a [|b [|e t]]]]; try discriminate H; cbv beta iota in H.
  - destruct Hin as [E|[]]. lia.
  - exfalso. rewrite forallb_forall in Hall. specialize (Hall 47 Hin).
    (* 47 would have to be '%' or a hex digit *)
    destruct Hin as [E|[E|[E|[]]]]; subst; unfold is_hex_u, is_digit_u in H; lia.
Qed.

Theorem escape_no_new_slash (p : bytes) :
  wfb p -> ~ In 47 p -> ~ In 47 (escape_path p).
Proof.
  intros Hp. induction Hp as [|c p Hc Hp IH]; intros Hn Hin; [exact Hin|].
  rewrite escape_path_cons in Hin. apply in_app_or in Hin. destruct Hin as [Hin|Hin].
  - apply Hn. left. apply esc1_slash; assumption.
  - apply IH; [|exact Hin]. intros H. apply Hn. right. exact H.
Qed.

(* first and last character *)
Lemma escape_head_not_slash (p : bytes) :
  wfb p -> (forall t, p <> 47 :: t) -> forall t, escape_path p <> 47 :: t.
Proof.
  intros Hp Hn t E. destruct Hp as [|c p Hc Hp]; [discriminate E|].
  rewrite escape_path_cons in E.
  assert (In 47 (esc1 c)) as Hin.
  { pose proof (esc1_facts c Hc) as H. unfold esc1_ok in H.
    apply andb_true_iff in H. destruct H as [_ H].
    destruct (esc1 c) as [|d l]; [discriminate H|].
    cbn [app] in E. injection E as E1 E2. left. exact E1. }
  apply esc1_slash in Hin; [|exact Hc]. subst c. apply (Hn p). reflexivity.
Qed.

Lemma esc1_last (c : N) :
  c < 256 -> c <> 47 -> exists t z, esc1 c = t ++ [z] /\ z <> 47.
Proof.
  intros Hc Hn. pose proof (esc1_facts c Hc) as H. unfold esc1_ok in H.
  apply andb_true_iff in H. destruct H as [_ H].
  destruct (esc1 c) as [|d [|a [|b [|e t]]]]; try discriminate H; cbv beta iota in H.
  - exists [], d. split; [reflexivity|lia].
  - exists [d; a], b. split; [reflexivity|lia].
Qed.

Lemma escape_last_not_slash (p : bytes) :
  wfb p -> p <> [] -> (forall t, p <> t ++ [47]) ->
  exists t z, escape_path p = t ++ [z] /\ z <> 47.
Proof.
  intros Hp Hne Hn. destruct (exists_last Hne) as [q [c E]]. subst p.
  apply wfb_app in Hp. destruct Hp as [Hq Hc].
  assert (c < 256) as Hc' by (inversion Hc; assumption).
  assert (c <> 47) as Hc47 by (intros E; subst c; apply (Hn q); reflexivity).
  destruct (esc1_last c Hc' Hc47) as [t [z [E Hz]]].
  exists (escape_path q ++ t), z. split; [|exact Hz].
  rewrite escape_path_app, escape_path_cons, escape_path_nil, app_nil_r, E, app_assoc.
  reflexivity.
Qed.
