(* Proofs/SHEnc.v - the three lexical encodings against their declarative
   descriptions: decimal (DecVal), quoted strings (StrBody), base64 (B64). *)
From Coq Require Import Lia ZifyN ZifyNat ZifyBool.
From WP Require Import Base.Prelude Base.Base64 Base.Decimal Model.StructHdr Spec.StructHdr.
From WP Require Import Proofs.SHLemmas.
Ltac Zify.zify_post_hook ::= Z.div_mod_to_equations.
Open Scope N_scope.
Local Arguments N.add : simpl never.
Local Arguments N.sub : simpl never.
Local Arguments N.mul : simpl never.
Local Arguments N.div : simpl never.
Local Arguments N.modulo : simpl never.
Local Arguments N.pow : simpl never.

(* ---- decimal -------------------------------------------------------------- *)
Lemma DecVal_eq ds n m : DecVal ds n -> n = m -> DecVal ds m.
Proof. intros H E. subst. exact H. Qed.

Lemma digits_val_snoc ds c : digits_val (ds ++ [c]) = digits_val ds * 10 + (c - 48).
Proof. unfold digits_val. rewrite fold_left_app. reflexivity. Qed.

Lemma digits_val_one c : digits_val [c] = c - 48.
Proof. unfold digits_val. cbn [fold_left]. lia. Qed.

Lemma DecVal_spec ds n : DecVal ds n -> ds <> [] /\ Forall DIGIT ds /\ digits_val ds = n.
Proof.
  induction 1 as [c Hc|ds n c Hd IH Hc].
  - split; [discriminate|]. split; [constructor; [exact Hc|constructor]|]. apply digits_val_one.
  - destruct IH as (Hne & Hall & Hv). split; [destruct ds; discriminate|]. split.
    + apply Forall_app. split; [exact Hall|]. constructor; [exact Hc|constructor].
    + rewrite digits_val_snoc, Hv. lia.
Qed.

Lemma DecVal_of_digits ds : ds <> [] -> Forall DIGIT ds -> DecVal ds (digits_val ds).
Proof.
  induction ds as [|c l IH] using rev_ind; intros Hne Hall; [contradiction|].
  apply Forall_app in Hall. destruct Hall as [Hl Hc]. inversion Hc as [|? ? Hc' _]; subst.
  destruct l as [|c0 l0].
  - cbn [app]. eapply DecVal_eq; [apply DV_one; exact Hc'|]. symmetry. apply digits_val_one.
  - eapply DecVal_eq; [apply DV_snoc; [apply IH; [discriminate|exact Hl]|exact Hc']|].
    rewrite digits_val_snoc. lia.
Qed.

Lemma pos_size_nat_gt p : N.pos p < 2 ^ N.of_nat (Pos.size_nat p).
Proof.
  induction p as [p IH|p IH|]; cbn [Pos.size_nat]; rewrite ?Nat2N.inj_succ, ?N.pow_succ_r'.
  - change (N.pos p~1) with (2 * N.pos p + 1). lia.
  - change (N.pos p~0) with (2 * N.pos p). lia.
  - cbn. lia.
Qed.

Lemma size_nat_bound n : n < 10 ^ N.of_nat (S (N.size_nat n)).
Proof.
  rewrite Nat2N.inj_succ, N.pow_succ_r'. destruct n as [|p].
  - cbn [N.size_nat]. change (N.of_nat 0) with 0. rewrite N.pow_0_r. lia.
  - cbn [N.size_nat]. pose proof (pos_size_nat_gt p) as H1.
    pose proof (N.pow_le_mono_l 2 10 (N.of_nat (Pos.size_nat p))) as H2. lia.
Qed.

Lemma dec_digits_spec : forall fuel n acc, n < 10 ^ N.of_nat (S fuel) ->
  exists ds, dec_digits (S fuel) n acc = ds ++ acc /\ DecVal ds n.
Proof.
  induction fuel as [|f IH]; intros n acc Hn.
  - change (N.of_nat 1) with 1 in Hn. rewrite N.pow_1_r in Hn.
    exists [48 + n mod 10]. split.
    + cbn [dec_digits]. destruct (n / 10 =? 0); reflexivity.
    + eapply DecVal_eq; [apply DV_one; unfold DIGIT; lia|]. lia.
  - rewrite Nat2N.inj_succ, N.pow_succ_r' in Hn.
    cbn [dec_digits]. fold (dec_digits (S f)). destruct (N.eqb_spec (n / 10) 0) as [E|NE].
    + exists [48 + n mod 10]. split; [reflexivity|].
      eapply DecVal_eq; [apply DV_one; unfold DIGIT; lia|]. lia.
    + destruct (IH (n / 10) ((48 + n mod 10) :: acc)) as (ds & E & Hd).
      { set (m := 10 ^ N.of_nat (S f)) in *. lia. }
      exists (ds ++ [48 + n mod 10]). split.
      * change (dec_digits (S f) (n / 10) ((48 + n mod 10) :: acc)
                = (ds ++ [48 + n mod 10]) ++ acc).
        rewrite E, <- app_assoc. reflexivity.
      * eapply DecVal_eq; [apply DV_snoc; [exact Hd|unfold DIGIT; lia]|]. lia.
Qed.

Lemma dec_of_N_DecVal n : DecVal (dec_of_N n) n.
Proof.
  unfold dec_of_N. destruct (dec_digits_spec (N.size_nat n) n [] (size_nat_bound n)) as (ds & E & Hd).
  rewrite E, app_nil_r. exact Hd.
Qed.

(* ---- quoted strings ------------------------------------------------------- *)
Lemma parse_string_body_complete body v : StrBody body v ->
  forall acc rest, parse_string_body (body ++ 34 :: rest) acc = Ok (rev acc ++ v, rest).
Proof.
  induction 1 as [|c s v Hc Hs IH|c s v Hc Hs IH]; intros acc rest.
  - cbn [app parse_string_body]. rewrite app_nil_r. reflexivity.
  - cbn [app parse_string_body].
    assert (E1 : (c =? 92) = false) by (unfold UNESCAPED in Hc; lia).
    assert (E2 : (c =? 34) = false) by (unfold UNESCAPED in Hc; lia).
    assert (E3 : ((c <? 32) || (126 <? c)) = false) by (unfold UNESCAPED in Hc; lia).
    rewrite E1, E2, E3, IH. cbn [rev]. rewrite <- app_assoc. reflexivity.
  - cbn [app parse_string_body].
    assert (E1 : ((c =? 34) || (c =? 92)) = true) by lia.
    rewrite E1, IH. cbn [rev]. rewrite <- app_assoc. reflexivity.
Qed.

Lemma parse_string_body_sound : forall n s acc res rest, (List.length s <= n)%nat ->
  parse_string_body s acc = Ok (res, rest) ->
  exists body v, s = body ++ 34 :: rest /\ StrBody body v /\ res = rev acc ++ v.
Proof.
  induction n as [|n IH]; intros s acc res rest Hlen H.
  - destruct s; [discriminate H|cbn [List.length] in Hlen; lia].
  - destruct s as [|c r]; [discriminate H|]. cbn [List.length] in Hlen.
    cbn [parse_string_body] in H. destruct (N.eqb_spec c 92) as [E92|N92].
    + destruct r as [|c2 r2]; [discriminate H|]. cbn [List.length] in Hlen.
      destruct ((c2 =? 34) || (c2 =? 92)) eqn:Ec2; [|discriminate H].
      apply IH in H; [|lia]. destruct H as (body & v & E & Hb & Hr). subst.
      exists (92 :: c2 :: body), (c2 :: v). split; [reflexivity|]. split.
      * apply SB_esc; [lia|exact Hb].
      * cbn [rev]. rewrite <- app_assoc. reflexivity.
    + destruct (N.eqb_spec c 34) as [E34|N34].
      * inversion H; subst. exists [], []. split; [reflexivity|]. split; [constructor|].
        rewrite app_nil_r. reflexivity.
      * destruct ((c <? 32) || (126 <? c)) eqn:Ec; [discriminate H|].
        apply IH in H; [|lia]. destruct H as (body & v & E & Hb & Hr). subst.
        exists (c :: body), (c :: v). split; [reflexivity|]. split.
        -- apply SB_plain; [unfold UNESCAPED; lia|exact Hb].
        -- cbn [rev]. rewrite <- app_assoc. reflexivity.
Qed.

Definition esc (c : N) : bytes := if (c =? 34) || (c =? 92) then [92; c] else [c].

Lemma quote_eq s : quote s = 34 :: flat_map esc s ++ [34].
Proof. reflexivity. Qed.

Lemma esc_StrBody s : Forall PRINTABLE s -> StrBody (flat_map esc s) s.
Proof.
  induction 1 as [|c s Hc _ IH]; cbn [flat_map]; [constructor|].
  unfold esc at 1. destruct ((c =? 34) || (c =? 92)) eqn:E; cbn [app].
  - apply SB_esc; [lia|exact IH].
  - apply SB_plain; [unfold PRINTABLE in Hc; unfold UNESCAPED; lia|exact IH].
Qed.

Lemma StrBody_printable body v : StrBody body v -> Forall PRINTABLE v.
Proof.
  induction 1 as [|c s v Hc _ IH|c s v Hc _ IH]; constructor; try exact IH.
  - unfold UNESCAPED in Hc. unfold PRINTABLE. lia.
  - unfold PRINTABLE. lia.
Qed.

(* ---- base64 ---------------------------------------------------------------- *)
Lemma B64_eq s d d' : B64 s d -> d = d' -> B64 s d'.
Proof. intros H E. subst. exact H. Qed.

Lemma B64Idx_val c v : B64Idx c v -> b64_val false c = Some v.
Proof.
  unfold B64Idx, b64_val. intros H.
  repeat match goal with |- context [if ?b then _ else _] => destruct b eqn:? end;
    first [f_equal; lia | exfalso; lia].
Qed.

Lemma b64_val_Idx c v : b64_val false c = Some v -> B64Idx c v.
Proof.
  unfold B64Idx, b64_val. intros H.
  repeat match type of H with context [if ?b then _ else _] => destruct b eqn:? end;
    inversion H; subst; lia.
Qed.

Lemma B64Idx_lt c v : B64Idx c v -> v < 64.
Proof. unfold B64Idx. lia. Qed.

Lemma B64Idx_char c v : B64Idx c v -> is_b64char c = true /\ c <> 42 /\ c <> 61.
Proof. unfold B64Idx, is_b64char, is_alpha, is_lcalpha, is_digit. lia. Qed.

Lemma b64_char_Idx v : v < 64 -> B64Idx (b64_char false v) v.
Proof.
  intros Hv. unfold b64_char.
  repeat match goal with |- context [if ?b then _ else _] => destruct b eqn:? end;
    unfold B64Idx; lia.
Qed.

Lemma b64_val_pad : b64_val false 61 = None.
Proof. reflexivity. Qed.

Lemma b64char_cases c : is_b64char c = true ->
  (exists v, B64Idx c v /\ b64_val false c = Some v) \/ (c = 61 /\ b64_val false c = None).
Proof.
  intros Hc. destruct (b64_val false c) as [v|] eqn:E.
  - left. exists v. split; [apply b64_val_Idx; exact E|reflexivity].
  - right. split; [|reflexivity]. revert Hc E.
    unfold is_b64char, is_alpha, is_lcalpha, is_digit, b64_val.
    repeat match goal with |- context [if ?b then _ else _] => destruct b eqn:? end;
      intros; try discriminate; lia.
Qed.

Lemma b64char_not_nl c : is_b64char c = true -> is_nl c = false.
Proof. unfold is_b64char, is_alpha, is_lcalpha, is_digit, is_nl. lia. Qed.

Lemma skipnl_b64 s : forallb is_b64char s = true -> skipnl s = s.
Proof.
  destruct s as [|c r]; [reflexivity|]. cbn [forallb skipnl]. intros H.
  apply andb_true_iff in H. destruct H as [H _]. rewrite (b64char_not_nl c H). reflexivity.
Qed.

(* the standard padded encoding is a B64 text for the bytes *)
Lemma b64_encode_B64 : forall n bs, (List.length bs <= n)%nat -> wfb bs ->
  B64 (b64_encode true false bs) bs.
Proof.
  induction n as [|n IH]; intros bs Hlen Hw.
  - destruct bs; [constructor|cbn [List.length] in Hlen; lia].
  - destruct bs as [|a [|b [|c r]]].
    + constructor.
    + inversion Hw as [|? ? Ha _]; subst. cbn [b64_encode app].
      eapply B64_eq; [apply B64_2pad; apply b64_char_Idx|]; [lia|lia|]. f_equal. lia.
    + inversion Hw as [|? ? Ha Hw1]; subst. inversion Hw1 as [|? ? Hb _]; subst.
      cbn [b64_encode app].
      eapply B64_eq; [apply B64_3pad; apply b64_char_Idx|]; [lia|lia|lia|]. f_equal; [lia|]. f_equal. lia.
    + inversion Hw as [|? ? Ha Hw1]; subst. inversion Hw1 as [|? ? Hb Hw2]; subst.
      inversion Hw2 as [|? ? Hc Hw3]; subst. cbn [List.length] in Hlen.
      cbn [b64_encode].
      eapply B64_eq; [apply B64_quad; [apply b64_char_Idx|apply b64_char_Idx|apply b64_char_Idx|apply b64_char_Idx|apply (IH r); [lia|exact Hw3]]|];
        [lia|lia|lia|lia|]. f_equal; [lia|]. f_equal; [lia|]. f_equal. lia.
Qed.

Lemma B64_wfb s d : B64 s d -> wfb d.
Proof.
  induction 1 as [|c1 c2 c3 c4 v1 v2 v3 v4 r d H1 H2 H3 H4 _ IH|c1 c2 v1 v2 H1 H2|c1 c2 c3 v1 v2 v3 H1 H2 H3
                  |c1 c2 v1 v2 H1 H2|c1 c2 c3 v1 v2 v3 H1 H2 H3];
    repeat match goal with H : B64Idx _ _ |- _ => apply B64Idx_lt in H end;
    unfold wfb; repeat (constructor; [lia|]); try exact IH; constructor.
Qed.

Lemma B64_chars s d : B64 s d -> forallb is_b64char s = true /\ forallb (fun x => negb (x =? 42)) s = true.
Proof.
  induction 1 as [|c1 c2 c3 c4 v1 v2 v3 v4 r d H1 H2 H3 H4 _ IH|c1 c2 v1 v2 H1 H2|c1 c2 c3 v1 v2 v3 H1 H2 H3
                  |c1 c2 v1 v2 H1 H2|c1 c2 c3 v1 v2 v3 H1 H2 H3];
    repeat match goal with H : B64Idx _ _ |- _ => apply B64Idx_char in H; destruct H as (? & ? & ?) end;
    cbn [forallb]; try (destruct IH as [IH1 IH2]; rewrite IH1, IH2);
    repeat match goal with H : is_b64char _ = true |- _ => rewrite H; clear H end;
    repeat match goal with H : ?c <> 42 |- _ => replace (c =? 42) with false by lia; clear H end;
    split; reflexivity.
Qed.

Lemma b64_go_val pad c v r q out : b64_val false c = Some v ->
  b64_go pad false (c :: r) q out =
  match q with
  | [a; b; c3] => b64_go pad false r [] (out ++ emit [a; b; c3; v])
  | _ => b64_go pad false r (q ++ [v]) out
  end.
Proof. intros H. cbn [b64_go]. rewrite H. reflexivity. Qed.

Lemma lenN_mod4_quad {A} (a b c d : A) r :
  (lenN (a :: b :: c :: d :: r) mod 4 =? 0) = (lenN r mod 4 =? 0).
Proof. cbn [lenN]. lia. Qed.

(* B64 texts are accepted by the Go-style decoder (padded iff length is a multiple of 4) *)
Lemma b64_go_complete body data : B64 body data ->
  forall out, b64_go (lenN body mod 4 =? 0) false body [] out = Some (out ++ data).
Proof.
  induction 1 as [|c1 c2 c3 c4 v1 v2 v3 v4 r d H1 H2 H3 H4 _ IH|c1 c2 v1 v2 H1 H2|c1 c2 c3 v1 v2 v3 H1 H2 H3
                  |c1 c2 v1 v2 H1 H2|c1 c2 c3 v1 v2 v3 H1 H2 H3]; intros out;
    repeat match goal with H : B64Idx _ _ |- _ => apply B64Idx_val in H end.
  - cbn [b64_go]. rewrite app_nil_r. reflexivity.
  - rewrite lenN_mod4_quad.
    rewrite (b64_go_val _ c1 v1) by exact H1. cbn [app].
    rewrite (b64_go_val _ c2 v2) by exact H2. cbn [app].
    rewrite (b64_go_val _ c3 v3) by exact H3. cbn [app].
    rewrite (b64_go_val _ c4 v4) by exact H4.
    rewrite IH. cbn [emit]. rewrite <- app_assoc. reflexivity.
  - change (lenN [c1; c2; 61; 61] mod 4 =? 0) with true.
    rewrite (b64_go_val _ c1 v1) by exact H1. cbn [app].
    rewrite (b64_go_val _ c2 v2) by exact H2. cbn [app].
    reflexivity.
  - change (lenN [c1; c2; c3; 61] mod 4 =? 0) with true.
    rewrite (b64_go_val _ c1 v1) by exact H1. cbn [app].
    rewrite (b64_go_val _ c2 v2) by exact H2. cbn [app].
    rewrite (b64_go_val _ c3 v3) by exact H3. cbn [app].
    reflexivity.
  - change (lenN [c1; c2] mod 4 =? 0) with false.
    rewrite (b64_go_val _ c1 v1) by exact H1. cbn [app].
    rewrite (b64_go_val _ c2 v2) by exact H2. cbn [app].
    reflexivity.
  - change (lenN [c1; c2; c3] mod 4 =? 0) with false.
    rewrite (b64_go_val _ c1 v1) by exact H1. cbn [app].
    rewrite (b64_go_val _ c2 v2) by exact H2. cbn [app].
    rewrite (b64_go_val _ c3 v3) by exact H3. cbn [app].
    reflexivity.
Qed.

Lemma b64_decode_complete body data : B64 body data ->
  b64_decode (lenN body mod 4 =? 0) false body = Some data.
Proof. intros H. unfold b64_decode. rewrite (b64_go_complete _ _ H). reflexivity. Qed.

Lemma b64_go_pad pad r q out :
  b64_go pad false (61 :: r) q out =
  if pad then
    match q with
    | [a; b] =>
        match skipnl r with
        | c2 :: r2 => if (c2 =? 61) && (match skipnl r2 with [] => true | _ => false end)
                      then Some (out ++ emit [a; b]) else None
        | [] => None
        end
    | [a; b; c3] => match skipnl r with [] => Some (out ++ emit [a; b; c3]) | _ => None end
    | _ => None
    end
  else None.
Proof. cbn [b64_go]. rewrite b64_val_pad. destruct pad; reflexivity. Qed.

(* whatever the decoder accepts among alphabet-only strings is a B64 text *)
Lemma b64_go_sound : forall n pad s out res, (List.length s <= n)%nat ->
  forallb is_b64char s = true -> b64_go pad false s [] out = Some res ->
  exists d, res = out ++ d /\ B64 s d.
Proof.
  induction n as [|n IH]; intros pad s out res Hlen Hs H.
  { destruct s; [|cbn [List.length] in Hlen; lia]. cbn [b64_go] in H. inversion H; subst.
    exists []. split; [rewrite app_nil_r; reflexivity|constructor]. }
  destruct s as [|c1 s1].
  { cbn [b64_go] in H. inversion H; subst.
    exists []. split; [rewrite app_nil_r; reflexivity|constructor]. }
  cbn [forallb] in Hs. apply andb_true_iff in Hs. destruct Hs as [Hc1 Hs1].
  destruct (b64char_cases c1 Hc1) as [(v1 & I1 & V1)|[E1 _]].
  2:{ subst c1. rewrite b64_go_pad in H. destruct pad; discriminate H. }
  rewrite (b64_go_val _ _ _ _ _ _ V1) in H. cbn [app] in H.
  destruct s1 as [|c2 s2]; [cbn [b64_go] in H; discriminate H|].
  cbn [forallb] in Hs1. apply andb_true_iff in Hs1. destruct Hs1 as [Hc2 Hs2].
  destruct (b64char_cases c2 Hc2) as [(v2 & I2 & V2)|[E2 _]].
  2:{ subst c2. rewrite b64_go_pad in H. destruct pad; discriminate H. }
  rewrite (b64_go_val _ _ _ _ _ _ V2) in H. cbn [app] in H.
  destruct s2 as [|c3 s3].
  { cbn [b64_go] in H. destruct pad; [discriminate H|]. inversion H; subst.
    eexists. split; [reflexivity|]. cbn [emit]. apply B64_2raw; assumption. }
  cbn [forallb] in Hs2. apply andb_true_iff in Hs2. destruct Hs2 as [Hc3 Hs3].
  destruct (b64char_cases c3 Hc3) as [(v3 & I3 & V3)|[E3 _]].
  2:{ subst c3. rewrite b64_go_pad in H. destruct pad; [|discriminate H].
      rewrite (skipnl_b64 _ Hs3) in H. destruct s3 as [|c4 s4]; [discriminate H|].
      cbn [forallb] in Hs3. apply andb_true_iff in Hs3. destruct Hs3 as [Hc4 Hs4].
      rewrite (skipnl_b64 _ Hs4) in H.
      destruct (N.eqb_spec c4 61) as [E4|N4]; [|discriminate H]. subst c4.
      destruct s4; [|discriminate H]. cbn [andb] in H. inversion H; subst.
      eexists. split; [reflexivity|]. cbn [emit]. apply B64_2pad; assumption. }
  rewrite (b64_go_val _ _ _ _ _ _ V3) in H. cbn [app] in H.
  destruct s3 as [|c4 s4].
  { cbn [b64_go] in H. destruct pad; [discriminate H|]. inversion H; subst.
    eexists. split; [reflexivity|]. cbn [emit]. apply B64_3raw; assumption. }
  cbn [forallb] in Hs3. apply andb_true_iff in Hs3. destruct Hs3 as [Hc4 Hs4].
  destruct (b64char_cases c4 Hc4) as [(v4 & I4 & V4)|[E4 _]].
  2:{ subst c4. rewrite b64_go_pad in H. destruct pad; [|discriminate H].
      rewrite (skipnl_b64 _ Hs4) in H. destruct s4; [|discriminate H]. inversion H; subst.
      eexists. split; [reflexivity|]. cbn [emit]. apply B64_3pad; assumption. }
  rewrite (b64_go_val _ _ _ _ _ _ V4) in H.
  apply IH in H; [|cbn [List.length] in Hlen; lia|exact Hs4].
  destruct H as (d & E & Hd). subst res. cbn [emit]. rewrite <- app_assoc.
  eexists. split; [reflexivity|]. cbn [app]. apply B64_quad; assumption.
Qed.

Lemma b64_decode_sound pad s data : forallb is_b64char s = true ->
  b64_decode pad false s = Some data -> B64 s data.
Proof.
  intros Hs H. unfold b64_decode in H.
  destruct (b64_go_sound (List.length s) pad s [] data (le_n _) Hs H) as (d & E & Hd).
  cbn [app] in E. subst. exact Hd.
Qed.

(* the round trip the task asks for, as a corollary *)
Lemma b64_roundtrip bs : wfb bs ->
  b64_decode true false (b64_encode true false bs) = Some bs
  /\ lenN (b64_encode true false bs) mod 4 = 0
  /\ forallb is_b64char (b64_encode true false bs) = true
  /\ forallb (fun x => negb (x =? 42)) (b64_encode true false bs) = true.
Proof.
  intros Hw. pose proof (b64_encode_B64 _ bs (le_n _) Hw) as HB.
  assert (Hlen : lenN (b64_encode true false bs) mod 4 = 0).
  { clear HB Hw. assert (G : forall n l, (List.length l <= n)%nat -> lenN (b64_encode true false l) mod 4 = 0).
    { induction n as [|n IH]; intros l Hl.
      - destruct l; [reflexivity|cbn [List.length] in Hl; lia].
      - destruct l as [|a [|b [|c r]]]; try reflexivity.
        cbn [b64_encode lenN]. cbn [List.length] in Hl. specialize (IH r ltac:(lia)). lia. }
    apply (G _ _ (le_n _)). }
  split; [|split; [exact Hlen|apply (B64_chars _ _ HB)]].
  pose proof (b64_decode_complete _ _ HB) as HD. rewrite Hlen in HD. exact HD.
Qed.
