(* Part of the tie between the Go sources and the model: constants re-generated
   from the working tree by `harness params` (Generated/Params.v) equal the ones
   the model and the theorems use.  A changed constant in /repo makes one of
   these `reflexivity` proofs fail. *)
From WP Require Import Base.Prelude Generated.Params.
From WP Require Import Model.Mice.
Open Scope N_scope.

Lemma params_complete_mice : p_translator_complete = true.
Proof. reflexivity. Qed.

(* ---- MICE (C14 C15) ------------------------------------------------------ *)
Lemma params_mice :
  p_mi_draft02 = content_encoding D02 /\ p_mi_draft03 = content_encoding D03 /\
  p_mi_digest_header_names = map digest_header_name [D02; D03] /\
  p_mi_integrity_identifiers = map integrity_identifier [D02; D03].
Proof. repeat split. Qed.

