(* Proofs/BaseLemmas.v - reusable facts about Base/Prelude.v: lenN, splitN,
   be/unbe, bytes_cmp / bytes_eqb, insertion sort.  Nothing CBOR specific. *)
From Coq Require Import Lia ZifyN ZifyNat ZifyBool Permutation Sorted.
From WP Require Import Base.Prelude.
Ltac Zify.zify_post_hook ::= Z.div_mod_to_equations.
Open Scope N_scope.

(* ---- lenN / splitN ------------------------------------------------------ *)
Lemma lenN_length {A} (l : list A) : lenN l = N.of_nat (List.length l).
Proof.
  induction l as [|x t IH]; [reflexivity|].
  cbn [lenN List.length]. rewrite IH, Nat2N.inj_succ. reflexivity.
Qed.

Lemma lenN_app {A} (a b : list A) : lenN (a ++ b) = lenN a + lenN b.
Proof. rewrite !lenN_length, app_length. lia. Qed.

Lemma lenN_nil_inv {A} (l : list A) : lenN l = 0 -> l = [].
Proof. destruct l; [reflexivity|]. cbn [lenN]. lia. Qed.

Lemma lenN_map {A B} (f : A -> B) (l : list A) : lenN (map f l) = lenN l.
Proof. rewrite !lenN_length, map_length. reflexivity. Qed.

Lemma lenN_perm {A} (l l' : list A) : Permutation l l' -> lenN l = lenN l'.
Proof. intros HP. rewrite !lenN_length, (Permutation_length HP). reflexivity. Qed.

Lemma splitN_0 {A} (l : list A) : splitN l 0 = Some ([], l).
Proof. destruct l; reflexivity. Qed.

Lemma splitN_cons {A} (x : A) (t : list A) (n : N) :
  n <> 0 ->
  splitN (x :: t) n =
  match splitN t (N.pred n) with Some (a, b) => Some (x :: a, b) | None => None end.
Proof.
  intros Hn. cbn [splitN]. destruct (N.eqb_spec n 0) as [E|_]; [contradiction|reflexivity].
Qed.

Lemma splitN_nil {A} (n : N) : n <> 0 -> @splitN A [] n = None.
Proof. intros Hn. cbn [splitN]. destruct (N.eqb_spec n 0); [contradiction|reflexivity]. Qed.

Lemma splitN_app {A} (a b : list A) : splitN (a ++ b) (lenN a) = Some (a, b).
Proof.
  induction a as [|x a IH]; cbn [app lenN].
  - apply splitN_0.
  - rewrite splitN_cons by lia. rewrite N.pred_succ, IH. reflexivity.
Qed.

Lemma splitN_spec {A} (l : list A) : forall n a b,
  splitN l n = Some (a, b) -> l = a ++ b /\ lenN a = n.
Proof.
  induction l as [|x t IH]; intros n a b H.
  - destruct (N.eq_dec n 0) as [E|E].
    + subst n. cbn in H. inversion H; subst. split; reflexivity.
    + rewrite splitN_nil in H by assumption. discriminate.
  - destruct (N.eq_dec n 0) as [E|E].
    + subst n. rewrite splitN_0 in H. inversion H; subst. split; reflexivity.
    + rewrite splitN_cons in H by assumption.
      destruct (splitN t (N.pred n)) as [[a' b']|] eqn:Hs; [|discriminate].
      inversion H; subst. destruct (IH _ _ _ Hs) as [E1 E2]. subst t.
      split; [reflexivity|]. cbn [lenN]. lia.
Qed.

Lemma splitN_some_iff {A} (l : list A) (n : N) (a b : list A) :
  splitN l n = Some (a, b) <-> (l = a ++ b /\ lenN a = n).
Proof.
  split; [apply splitN_spec|]. intros [E1 E2]. subst. apply splitN_app.
Qed.

(* splitN fails exactly when fewer than n elements remain *)
Lemma splitN_none_iff {A} (l : list A) : forall n, splitN l n = None <-> lenN l < n.
Proof.
  induction l as [|x t IH]; intros n.
  - destruct (N.eq_dec n 0) as [E|E].
    + subst. cbn. split; [discriminate|lia].
    + rewrite splitN_nil by assumption. cbn [lenN]. split; [lia|reflexivity].
  - destruct (N.eq_dec n 0) as [E|E].
    + subst. rewrite splitN_0. split; [discriminate|lia].
    + rewrite splitN_cons by assumption. cbn [lenN].
      specialize (IH (N.pred n)).
      destruct (splitN t (N.pred n)) as [[a b]|].
      * split; [discriminate|]. intros Hlt.
        assert (Hx : lenN t < N.pred n) by lia. apply IH in Hx. discriminate.
      * split; [|reflexivity]. intros _.
        assert (Hx : lenN t < N.pred n) by (apply IH; reflexivity). lia.
Qed.

Lemma splitN_total {A} (l : list A) (n : N) :
  n <= lenN l -> exists a b, splitN l n = Some (a, b).
Proof.
  intros Hle. destruct (splitN l n) as [[a b]|] eqn:Hs; [eauto|].
  apply splitN_none_iff in Hs. lia.
Qed.

(* ---- wfb ---------------------------------------------------------------- *)
Lemma wfb_app (a b : bytes) : wfb (a ++ b) <-> wfb a /\ wfb b.
Proof. unfold wfb. apply Forall_app. Qed.

Lemma wfbb_wfb (bs : bytes) : wfbb bs = true <-> wfb bs.
Proof.
  unfold wfbb, wfb. rewrite forallb_forall, Forall_forall.
  split; intros H x Hx; specialize (H x Hx); lia.
Qed.

(* ---- be / unbe ---------------------------------------------------------- *)
Lemma be_length (k : nat) (n : N) : List.length (be k n) = k.
Proof. induction k as [|k IH]; cbn [be List.length]; [reflexivity|]. rewrite IH. reflexivity. Qed.

Lemma be_lenN (k : nat) (n : N) : lenN (be k n) = N.of_nat k.
Proof. rewrite lenN_length, be_length. reflexivity. Qed.

Lemma be_wfb (k : nat) (n : N) : wfb (be k n).
Proof.
  unfold wfb. induction k as [|k IH]; cbn [be]; constructor; [|exact IH].
  apply N.mod_lt. discriminate.
Qed.

Lemma unbe_acc (l : bytes) : forall acc,
  fold_left (fun a b => a * 256 + b) l acc = acc * 256 ^ lenN l + unbe l.
Proof.
  unfold unbe. induction l as [|x t IH]; intros acc; cbn [fold_left lenN].
  - rewrite N.pow_0_r. lia.
  - rewrite (IH (acc * 256 + x)), (IH (0 * 256 + x)), N.pow_succ_r'.
    lia.
Qed.

Lemma unbe_cons (x : N) (t : bytes) : unbe (x :: t) = x * 256 ^ lenN t + unbe t.
Proof.
  unfold unbe at 1. cbn [fold_left]. rewrite unbe_acc. lia.
Qed.

Lemma unbe_nil : unbe [] = 0.
Proof. reflexivity. Qed.

Lemma unbe_be (k : nat) (n : N) : unbe (be k n) = n mod 256 ^ N.of_nat k.
Proof.
  induction k as [|k IH]; cbn [be].
  - cbn. rewrite N.mod_1_r. reflexivity.
  - rewrite unbe_cons, IH, be_lenN, Nat2N.inj_succ, N.pow_succ_r'.
    assert (Hp : 256 ^ N.of_nat k <> 0) by (apply N.pow_nonzero; discriminate).
    rewrite (N.mul_comm 256), N.mod_mul_r by (assumption || discriminate).
    lia.
Qed.

Lemma unbe_be_small (k : nat) (n : N) : n < 256 ^ N.of_nat k -> unbe (be k n) = n.
Proof. intros Hlt. rewrite unbe_be. apply N.mod_small. exact Hlt. Qed.

Lemma unbe_lt (l : bytes) : wfb l -> unbe l < 256 ^ lenN l.
Proof.
  unfold wfb. induction 1 as [|x t Hx Ht IH].
  - cbn. lia.
  - rewrite unbe_cons. cbn [lenN]. rewrite N.pow_succ_r'. nia.
Qed.

(* ---- bytes_eqb / bytes_cmp --------------------------------------------- *)
Lemma bytes_eqb_eq (a : bytes) : forall b, bytes_eqb a b = true <-> a = b.
Proof.
  induction a as [|x a IH]; intros [|y b]; cbn [bytes_eqb]; split; intros H;
    try reflexivity; try discriminate.
  - apply andb_true_iff in H. destruct H as [H1 H2].
    apply N.eqb_eq in H1. apply IH in H2. subst. reflexivity.
  - inversion H; subst. rewrite N.eqb_refl. cbn. apply IH. reflexivity.
Qed.

Lemma bytes_eqb_refl (a : bytes) : bytes_eqb a a = true.
Proof. apply bytes_eqb_eq. reflexivity. Qed.

Lemma bytes_eqb_neq (a b : bytes) : bytes_eqb a b = false <-> a <> b.
Proof.
  split.
  - intros H E. apply bytes_eqb_eq in E. congruence.
  - intros H. destruct (bytes_eqb a b) eqn:E; [|reflexivity].
    apply bytes_eqb_eq in E. contradiction.
Qed.

Lemma bytes_cmp_refl (a : bytes) : bytes_cmp a a = Eq.
Proof. induction a as [|x a IH]; cbn [bytes_cmp]; [reflexivity|]. rewrite N.compare_refl. exact IH. Qed.

Lemma bytes_cmp_eq (a : bytes) : forall b, bytes_cmp a b = Eq -> a = b.
Proof.
  induction a as [|x a IH]; intros [|y b] H; cbn [bytes_cmp] in H;
    try reflexivity; try discriminate.
  destruct (N.compare_spec x y) as [E|L|G]; try discriminate.
  subst. f_equal. apply IH. exact H.
Qed.

Lemma bytes_cmp_eq_iff (a b : bytes) : bytes_cmp a b = Eq <-> a = b.
Proof. split; [apply bytes_cmp_eq|]. intros ->. apply bytes_cmp_refl. Qed.

Lemma bytes_cmp_antisym (a : bytes) : forall b, bytes_cmp b a = CompOpp (bytes_cmp a b).
Proof.
  induction a as [|x a IH]; intros [|y b]; cbn [bytes_cmp]; try reflexivity.
  rewrite (N.compare_antisym x y).
  destruct (x ?= y); cbn [CompOpp]; [apply IH|reflexivity|reflexivity].
Qed.

Lemma bytes_cmp_gt_lt (a b : bytes) : bytes_cmp a b = Gt <-> bytes_cmp b a = Lt.
Proof.
  rewrite (bytes_cmp_antisym a b). destruct (bytes_cmp a b); cbn; split; congruence.
Qed.

Lemma bytes_cmp_lt_trans (a : bytes) : forall b c,
  bytes_cmp a b = Lt -> bytes_cmp b c = Lt -> bytes_cmp a c = Lt.
Proof.
  induction a as [|x a IH]; intros [|y b] [|z c] H1 H2; cbn [bytes_cmp] in *;
    try discriminate; try reflexivity.
  destruct (N.compare_spec x y) as [E1|L1|G1]; try discriminate;
    destruct (N.compare_spec y z) as [E2|L2|G2]; try discriminate.
  - subst. rewrite N.compare_refl. eapply IH; eassumption.
  - subst. rewrite (proj2 (N.compare_lt_iff _ _)) by assumption. reflexivity.
  - subst. rewrite (proj2 (N.compare_lt_iff _ _)) by assumption. reflexivity.
  - rewrite (proj2 (N.compare_lt_iff x z)) by lia. reflexivity.
Qed.

Lemma bytes_cmp_lt_irrefl (a : bytes) : bytes_cmp a a <> Lt.
Proof. rewrite bytes_cmp_refl. discriminate. Qed.

Lemma bytes_cmp_trichotomy (a b : bytes) :
  bytes_cmp a b = Lt \/ a = b \/ bytes_cmp b a = Lt.
Proof.
  destruct (bytes_cmp a b) eqn:E.
  - right; left. apply bytes_cmp_eq. exact E.
  - left. reflexivity.
  - right; right. apply bytes_cmp_gt_lt. exact E.
Qed.

Lemma bytes_ltb_lt (a b : bytes) : bytes_ltb a b = true <-> bytes_cmp a b = Lt.
Proof. unfold bytes_ltb. destruct (bytes_cmp a b); split; congruence. Qed.

Lemma bytes_ltb_asym (a b : bytes) : bytes_ltb a b = true -> bytes_ltb b a = false.
Proof.
  unfold bytes_ltb. rewrite (bytes_cmp_antisym a b).
  destruct (bytes_cmp a b); cbn; congruence.
Qed.

(* "a <= b" written as  bytes_ltb b a = false *)
Lemma bytes_leb_trans (a b c : bytes) :
  bytes_ltb b a = false -> bytes_ltb c b = false -> bytes_ltb c a = false.
Proof.
  intros H1 H2. destruct (bytes_ltb c a) eqn:H3; [|reflexivity].
  apply bytes_ltb_lt in H3.
  destruct (bytes_cmp_trichotomy b a) as [L|[E|L]].
  - apply bytes_ltb_lt in L. congruence.
  - subst b. apply bytes_ltb_lt in H3. congruence.
  - assert (L' : bytes_cmp c b = Lt) by (eapply bytes_cmp_lt_trans; eassumption).
    apply bytes_ltb_lt in L'. congruence.
Qed.

(* a <= b and a <> b  gives  a < b *)
Lemma bytes_leb_neq_lt (a b : bytes) :
  bytes_ltb b a = false -> a <> b -> bytes_cmp a b = Lt.
Proof.
  intros H1 H2. destruct (bytes_cmp_trichotomy a b) as [L|[E|L]];
    [exact L|contradiction|]. apply bytes_ltb_lt in L. congruence.
Qed.

Lemma bytes_lt_leb_trans (a b c : bytes) :
  bytes_cmp a b = Lt -> bytes_ltb c b = false -> bytes_cmp a c = Lt.
Proof.
  intros H1 H2. destruct (bytes_cmp_trichotomy b c) as [L|[E|L]].
  - eapply bytes_cmp_lt_trans; eassumption.
  - subst. exact H1.
  - apply bytes_ltb_lt in L. congruence.
Qed.

(* ---- insertion sort, generic in lt ------------------------------------- *)
Section SortLemmas.
  Context {A : Type} (lt : A -> A -> bool).

  Lemma insert_perm (x : A) (l : list A) : Permutation (insert lt x l) (x :: l).
  Proof.
    induction l as [|y t IH]; cbn [insert]; [apply Permutation_refl|].
    destruct (lt y x).
    - eapply perm_trans; [apply perm_skip; exact IH|apply perm_swap].
    - apply Permutation_refl.
  Qed.

  Lemma isort_perm (l : list A) : Permutation (isort lt l) l.
  Proof.
    induction l as [|x t IH]; cbn [isort]; [constructor|].
    eapply perm_trans; [apply insert_perm|]. apply perm_skip. exact IH.
  Qed.

  Lemma isort_lenN (l : list A) : lenN (isort lt l) = lenN l.
  Proof. apply lenN_perm, isort_perm. Qed.

  (* le a b  :=  not (b < a) *)
  Definition le_of (a b : A) : Prop := lt b a = false.

  Hypothesis lt_asym : forall a b, lt a b = true -> lt b a = false.
  Hypothesis le_trans : forall a b c, lt b a = false -> lt c b = false -> lt c a = false.

  Lemma insert_sorted (x : A) (l : list A) :
    StronglySorted le_of l -> StronglySorted le_of (insert lt x l).
  Proof.
    induction 1 as [|y t Hs IH Hall]; cbn [insert].
    - constructor; constructor.
    - destruct (lt y x) eqn:Hyx.
      + constructor; [exact IH|].
        rewrite Forall_forall in *. intros z Hz.
        apply (Permutation_in _ (insert_perm x t)) in Hz. destruct Hz as [->|Hz].
        * apply lt_asym. exact Hyx.
        * apply Hall. exact Hz.
      + constructor; [constructor; assumption|].
        constructor; [exact Hyx|].
        rewrite Forall_forall in *. intros z Hz. unfold le_of.
        eapply le_trans; [exact Hyx|]. apply Hall. exact Hz.
  Qed.

  Lemma isort_sorted (l : list A) : StronglySorted le_of (isort lt l).
  Proof.
    induction l as [|x t IH]; cbn [isort]; [constructor|].
    apply insert_sorted. exact IH.
  Qed.
End SortLemmas.

(* sorting commutes with an order-reflecting map *)
Lemma insert_map {A B} (f : A -> B) (lt : B -> B -> bool) (x : A) (l : list A) :
  map f (insert (fun a b => lt (f a) (f b)) x l) = insert lt (f x) (map f l).
Proof.
  induction l as [|y t IH]; cbn [insert map]; [reflexivity|].
  destruct (lt (f y) (f x)); cbn [map]; [rewrite IH|]; reflexivity.
Qed.

Lemma isort_map {A B} (f : A -> B) (lt : B -> B -> bool) (l : list A) :
  map f (isort (fun a b => lt (f a) (f b)) l) = isort lt (map f l).
Proof.
  induction l as [|x t IH]; cbn [isort map]; [reflexivity|].
  rewrite insert_map, IH. reflexivity.
Qed.

(* a strictly sorted list is determined by its set of elements *)
Lemma sorted_perm_unique {A} (R : A -> A -> Prop) :
  (forall x y, R x y -> R y x -> False) ->
  forall l1 l2, StronglySorted R l1 -> StronglySorted R l2 ->
                Permutation l1 l2 -> l1 = l2.
Proof.
  intros Hasym l1. induction l1 as [|a t1 IH]; intros l2 S1 S2 HP.
  - apply Permutation_nil in HP. subst. reflexivity.
  - destruct l2 as [|b t2].
    + apply Permutation_sym, Permutation_nil in HP. discriminate.
    + apply StronglySorted_inv in S1. destruct S1 as [S1 F1].
      apply StronglySorted_inv in S2. destruct S2 as [S2 F2].
      rewrite Forall_forall in F1, F2.
      assert (Hab : a = b).
      { assert (Ha : In a (b :: t2)) by (eapply Permutation_in; [exact HP|left; reflexivity]).
        assert (Hb : In b (a :: t1))
          by (eapply Permutation_in; [apply Permutation_sym; exact HP|left; reflexivity]).
        destruct Ha as [E|Ha]; [symmetry; exact E|].
        destruct Hb as [E|Hb]; [exact E|].
        exfalso. eapply Hasym; [apply F1; exact Hb|apply F2; exact Ha]. }
      subst b. f_equal. apply IH; try assumption.
      eapply Permutation_cons_inv. exact HP.
Qed.

Lemma sorted_nodup_map {A B} (f : A -> B) (R : B -> B -> Prop) (l : list A) :
  (forall x, ~ R x x) ->
  StronglySorted (fun a b => R (f a) (f b)) l -> NoDup (map f l).
Proof.
  intros Hirr. induction 1 as [|x t Hs IH Hall]; cbn [map]; constructor; [|exact IH].
  intros Hin. apply in_map_iff in Hin. destruct Hin as [y [E Hy]].
  rewrite Forall_forall in Hall. specialize (Hall y Hy). rewrite E in Hall.
  exact (Hirr _ Hall).
Qed.
