(* Proofs/BundleSigCover.v - C06, part 3: completeness.  What the signer
   produces (AddPayloadIntegrity, NewSigner, AddExchange, Encode,
   UpdateSignatures) is accepted by NewVerifier inside the validity window, and
   VerifyExchange hands back the ORIGINAL body and the signer's own leaf. *)
From Coq Require Import Lia ZifyN ZifyNat ZifyBool Permutation Sorted.
From WP Require Import Base.Prelude Model.Cbor Model.Http Model.Url Model.Mice Model.CertChain
  Model.Bundle Model.Sxg Model.BundleSig.
From WP Require Import Spec.Mice.
From WP Require Import Proofs.BaseLemmas Proofs.MiceEncode Proofs.MiceDecode.
From WP Require Import Proofs.BundleSigBase Proofs.BundleSigRoundtrip.
Ltac Zify.zify_post_hook ::= Z.div_mod_to_equations.
Open Scope N_scope.

(* ---- http.Header.Add / Get ---------------------------------------------------------- *)
Lemma hdr_lookup_add_same (h : headers) (k v : bytes) :
  hdr_lookup (hdr_add_raw h k v) k = hdr_lookup h k ++ [v].
Proof.
  induction h as [|[k' vs] t IH]; cbn [hdr_add_raw hdr_lookup].
  - rewrite bytes_eqb_refl. reflexivity.
  - destruct (bytes_eqb k' k) eqn:E; cbn [hdr_lookup]; rewrite E; [reflexivity|exact IH].
Qed.

Lemma hdr_lookup_add_other (h : headers) (k v k2 : bytes) :
  k <> k2 -> hdr_lookup (hdr_add_raw h k v) k2 = hdr_lookup h k2.
Proof.
  intros Hne. induction h as [|[k' vs] t IH]; cbn [hdr_add_raw hdr_lookup].
  - destruct (bytes_eqb k k2) eqn:E; [apply bytes_eqb_eq in E; contradiction|reflexivity].
  - destruct (bytes_eqb k' k) eqn:E; cbn [hdr_lookup].
    + apply bytes_eqb_eq in E. subst k'.
      destruct (bytes_eqb k k2) eqn:E2; [apply bytes_eqb_eq in E2; contradiction|reflexivity].
    + destruct (bytes_eqb k' k2); [reflexivity|exact IH].
Qed.

Lemma hdr_get_after_add (h : headers) (ce dg : bytes) :
  hdr_values h (s2b "Digest") = [] ->
  hdr_get (hdr_add (hdr_add h (s2b "Content-Encoding") ce) (s2b "Digest") dg) (s2b "Digest") = dg.
Proof.
  intros Hn. unfold hdr_get, hdr_values, hdr_add in *.
  rewrite hdr_lookup_add_same, hdr_lookup_add_other, Hn; [reflexivity|].
  vm_compute. discriminate.
Qed.

Section Cover.
  Variable H256 : bytes -> bytes.
  Hypothesis Hlen : forall m, List.length (H256 m) = 32%nat.
  Hypothesis Hwf : forall m, wfb (H256 m).
  Variable x509_key : bytes -> option (option N).
  Variable sig_ok : N -> bytes -> bytes -> bool.

  (* ---- AddPayloadIntegrity ------------------------------------------------------------ *)
  Definition with_integrity (x : bexchange) (rs : N) : bexchange :=
    {| bx_url := bx_url x; bx_status := bx_status x;
       bx_hdr := hdr_add (hdr_add (bx_hdr x) (s2b "Content-Encoding") (content_encoding D03))
                         (s2b "Digest") (digest_header H256 D03 rs (bx_body x));
       bx_body := stream H256 D03 rs (bx_body x) |}.

  Theorem add_payload_integrity_ok (x : bexchange) (rs : N) :
    1 <= rs -> rs <= 16384 -> hdr_values (bx_hdr x) (s2b "Digest") = [] ->
    add_payload_integrity H256 x rs = Ok (with_integrity x rs, integrity_identifier D03).
  Proof using.
    clear sig_ok x509_key Hlen Hwf.
    intros Hrs Hrs2 Hg. unfold add_payload_integrity. rewrite Hg.
    replace ((rs <? 1) || (16384 <? rs)) with false by lia.
    rewrite (encode_refines_spec H256 D03 rs (bx_body x) Hrs). reflexivity.
  Qed.

  (* what a successful AddPayloadIntegrity implies: no Digest value of any kind
     before (not even an empty one), a record size every verifier accepts, and
     exactly the MI-encoded exchange *)
  Theorem add_payload_integrity_ok_inv (x : bexchange) (rs : N) (x' : bexchange) (integ : bytes) :
    add_payload_integrity H256 x rs = Ok (x', integ) ->
    hdr_values (bx_hdr x) (s2b "Digest") = [] /\ 1 <= rs /\ rs <= 16384 /\
    x' = with_integrity x rs /\ integ = integrity_identifier D03.
  Proof using.
    clear sig_ok x509_key Hlen Hwf.
    unfold add_payload_integrity.
    destruct (hdr_values (bx_hdr x) (s2b "Digest")) eqn:Eg; [|discriminate].
    destruct ((rs <? 1) || (16384 <? rs)) eqn:Er; [discriminate|].
    assert (Hrs : 1 <= rs) by lia.
    rewrite (encode_refines_spec H256 D03 rs (bx_body x) Hrs). cbn [bind].
    intros H. injection H as <- <-. repeat split; try reflexivity; lia.
  Qed.

  Theorem add_payload_integrity_ok_iff (x : bexchange) (rs : N) (x' : bexchange) (integ : bytes) :
    add_payload_integrity H256 x rs = Ok (x', integ) <->
    hdr_values (bx_hdr x) (s2b "Digest") = [] /\ 1 <= rs /\ rs <= 16384 /\
    x' = with_integrity x rs /\ integ = integrity_identifier D03.
  Proof using.
    clear sig_ok x509_key Hlen Hwf.
    split; [apply add_payload_integrity_ok_inv|].
    intros [Hg [H1 [H2 [-> ->]]]]. apply add_payload_integrity_ok; assumption.
  Qed.

  (* it refuses - an error, never a panic - in every other case *)
  Theorem add_payload_integrity_refuses (x : bexchange) (rs : N) :
    hdr_values (bx_hdr x) (s2b "Digest") <> [] \/ rs < 1 \/ 16384 < rs ->
    add_payload_integrity H256 x rs = Err.
  Proof using.
    clear sig_ok x509_key Hlen Hwf.
    intros Hg. unfold add_payload_integrity.
    destruct (hdr_values (bx_hdr x) (s2b "Digest")); [|reflexivity].
    destruct Hg as [Hg|Hg]; [contradiction|].
    replace ((rs <? 1) || (16384 <? rs)) with true by lia. reflexivity.
  Qed.

  Theorem add_payload_integrity_ok_or_err (x : bexchange) (rs : N) :
    add_payload_integrity H256 x rs = Err \/
    add_payload_integrity H256 x rs = Ok (with_integrity x rs, integrity_identifier D03).
  Proof using.
    clear sig_ok x509_key Hlen Hwf.
    destruct (hdr_values (bx_hdr x) (s2b "Digest")) eqn:Eg.
    - destruct (N.lt_ge_cases rs 1) as [C|C]; [left; apply add_payload_integrity_refuses; auto|].
      destruct (N.lt_ge_cases 16384 rs) as [C'|C']; [left; apply add_payload_integrity_refuses; auto|].
      right. apply add_payload_integrity_ok; assumption.
    - left. apply add_payload_integrity_refuses. left. rewrite Eg. discriminate.
  Qed.

  Lemma digest_header_nonempty (rs : N) (p : bytes) : digest_header H256 D03 rs p <> [].
  Proof. unfold digest_header, header_prefix. discriminate. Qed.

  (* the MICE-encoded exchange decodes, under its own Digest header, to the
     original body *)
  Lemma with_integrity_decodes (x : bexchange) (rs : N) :
    1 <= rs -> rs <= 16384 -> hdr_values (bx_hdr x) (s2b "Digest") = [] ->
    hdr_get (bx_hdr (with_integrity x rs)) (s2b "Digest") = digest_header H256 D03 rs (bx_body x) /\
    decode_all H256 D03 (bx_body (with_integrity x rs))
               (digest_header H256 D03 rs (bx_body x)) 16384 512 = Ok (bx_body x, REOF).
  Proof.
    intros H1 H2 Hn. cbn [with_integrity bx_hdr bx_body]. split.
    - apply hdr_get_after_add. exact Hn.
    - apply (decode_all_roundtrip H256 Hlen Hwf); [exact H1|exact H2|unfold two64; lia|lia].
  Qed.

  (* ---- VerifyExchange on a listed exchange ---------------------------------------------- *)
  Lemma find_url_in (l : list hentry) (u : bytes) (rh : resp_hashes) :
    NoDup (map fst l) -> In (u, rh) l ->
    find (fun e => bytes_eqb (fst e) u) l = Some (u, rh).
  Proof.
    induction l as [|[u' rh'] l IH]; intros HN Hin; [contradiction|].
    cbn [find fst map] in *. inversion HN as [|a b Hnin HN']; subst.
    destruct Hin as [E|Hin].
    - injection E as -> ->. rewrite bytes_eqb_refl. reflexivity.
    - destruct (bytes_eqb u' u) eqn:E.
      + apply bytes_eqb_eq in E. subst u'. exfalso. apply Hnin.
        apply (in_map fst) in Hin. exact Hin.
      + apply IH; assumption.
  Qed.

  Lemma find_hashes_app (pre post : list (signed_subset * augcert * bool)) (u : bytes)
      (ss : signed_subset) (cert : augcert) (t : bool) (rh : resp_hashes) :
    Forall (fun e => ~ lists_url u e) pre ->
    find (fun e => bytes_eqb (fst e) u) (ss_hashes ss) = Some (u, rh) ->
    find_hashes (pre ++ (ss, cert, t) :: post) u = Some (rh, cert).
  Proof.
    induction 1 as [|[[s0 c0] t0] pre Hx HF IH]; intros Hf; cbn [app find_hashes].
    - rewrite Hf. reflexivity.
    - assert (Hn : find (fun e => bytes_eqb (fst e) u) (ss_hashes s0) = None)
        by (apply find_url_none; exact Hx).
      rewrite Hn. apply IH. exact Hf.
  Qed.

  Theorem covered_verifies_vx (vss pre post : list (signed_subset * augcert * bool))
      (ss : signed_subset) (cert : augcert) (t : bool) (x : bexchange) (rs : N) (hs : bytes) :
    1 <= rs -> rs <= 16384 -> hdr_values (bx_hdr x) (s2b "Digest") = [] ->
    existsb (fun e => snd e) vss = false ->
    vss = pre ++ (ss, cert, t) :: post ->
    Forall (fun e => ~ lists_url (bx_url x) e) pre ->
    NoDup (map fst (ss_hashes ss)) ->
    In (bx_url x, {| rh_variants := [];
                     rh_hashes := [{| ri_hsha := hs; ri_integ := integrity_identifier D03 |}] |})
       (ss_hashes ss) ->
    header_sha256 H256 (with_integrity x rs) = Ok hs ->
    verify_exchange H256 vss (with_integrity x rs) = VxOk (bx_body x) (ac_cert cert).
  Proof.
    intros H1 H2 Hn Ht Ev HF HN Hin Hh.
    destruct (with_integrity_decodes x rs H1 H2 Hn) as [Eg Ed].
    unfold verify_exchange. rewrite Ht, Ev.
    change (bx_url (with_integrity x rs)) with (bx_url x).
    rewrite (find_hashes_app pre post (bx_url x) ss cert t _ HF (find_url_in _ _ _ HN Hin)).
    cbn [rh_variants rh_hashes]. rewrite Hh. cbn [ri_hsha ri_integ].
    rewrite !bytes_eqb_refl. cbn [negb]. rewrite Eg.
    pose proof (digest_header_nonempty rs (bx_body x)) as Hne.
    destruct (digest_header H256 D03 rs (bx_body x)) as [|d0 dt] eqn:Edg; [contradiction|].
    rewrite Ed. reflexivity.
  Qed.

  (* ---- the signer ------------------------------------------------------------------------- *)
  Lemma new_signer_ok (certs : list augcert) (validity : bytes) (date duration : Z) (ss : signed_subset) :
    new_signer H256 certs validity date duration = Ok ss ->
    validate certs = true /\
    exists leaf rest, certs = leaf :: rest /\
      ss = {| ss_validity := validity; ss_auth := H256 (ac_cert leaf); ss_date := date;
              ss_expires := (date + duration)%Z; ss_hashes := [] |}.
  Proof.
    unfold new_signer. destruct (validate certs) eqn:Ev; cbn [negb]; [|discriminate].
    destruct certs as [|leaf rest]; [discriminate|]. intros H. injection H as <-.
    split; [reflexivity|]. exists leaf, rest. auto.
  Qed.

  Definition one_hash (hs integ : bytes) : resp_hashes :=
    {| rh_variants := []; rh_hashes := [{| ri_hsha := hs; ri_integ := integ |}] |}.

  Lemma add_exchange_ok (s : signed_subset) (x : bexchange) (integ : bytes) (s' : signed_subset) :
    add_exchange H256 s x integ = Ok s' ->
    exists hs, header_sha256 H256 x = Ok hs /\ ~ In (bx_url x) (map fst (ss_hashes s)) /\
               s' = with_hashes s (ss_hashes s ++ [(bx_url x, one_hash hs integ)]).
  Proof.
    unfold add_exchange. destruct (header_sha256 H256 x) as [hs| | |]; cbn [bind]; try discriminate.
    destruct (existsb (fun e => bytes_eqb (fst e) (bx_url x)) (ss_hashes s)) eqn:Ee; [discriminate|].
    intros H. injection H as <-. exists hs. split; [reflexivity|]. split; [|reflexivity].
    intros Hin. apply in_map_iff in Hin. destruct Hin as [[u rh] [Eu Hin]]. cbn [fst] in Eu. subst u.
    assert (Ht : existsb (fun e => bytes_eqb (fst e) (bx_url x)) (ss_hashes s) = true).
    { apply existsb_exists. exists (bx_url x, rh). split; [exact Hin|apply bytes_eqb_refl]. }
    congruence.
  Qed.

  (* a second exchange for the same URL is refused *)
  Lemma add_exchange_dup (s : signed_subset) (x : bexchange) (integ : bytes) :
    In (bx_url x) (map fst (ss_hashes s)) -> add_exchange H256 s x integ <> Ok s.
  Proof.
    intros Hin H. apply add_exchange_ok in H. destruct H as [hs [_ [Hn _]]]. contradiction.
  Qed.

  Fixpoint add_all (s : signed_subset) (xs : list (bexchange * bytes)) : R signed_subset :=
    match xs with
    | [] => Ok s
    | (x, i) :: t => let* s' := add_exchange H256 s x i in add_all s' t
    end.

  Lemma add_all_ok (xs : list (bexchange * bytes)) : forall s s',
    add_all s xs = Ok s' ->
    ss_validity s' = ss_validity s /\ ss_auth s' = ss_auth s /\ ss_date s' = ss_date s /\
    ss_expires s' = ss_expires s /\
    (forall e, In e (ss_hashes s) -> In e (ss_hashes s')) /\
    (forall x i, In (x, i) xs ->
       exists hs, header_sha256 H256 x = Ok hs /\ In (bx_url x, one_hash hs i) (ss_hashes s')).
  Proof.
    induction xs as [|[x i] t IH]; intros s s' H; cbn [add_all] in H.
    - injection H as <-. repeat (split; [reflexivity|]). split; [auto|]. intros x i [].
    - destruct (add_exchange H256 s x i) as [s1| | |] eqn:E1; cbn [bind] in H; try discriminate.
      apply add_exchange_ok in E1. destruct E1 as [hs [Hh [Hn ->]]].
      destruct (IH _ _ H) as [A1 [A2 [A3 [A4 [A5 A6]]]]].
      cbn [with_hashes ss_validity ss_auth ss_date ss_expires ss_hashes] in *.
      repeat (split; [assumption|]). split.
      + intros e He. apply A5. apply in_or_app. left. exact He.
      + intros x0 i0 [E|Hin].
        * injection E as <- <-. exists hs. split; [exact Hh|]. apply A5. apply in_or_app. right. left. reflexivity.
        * apply A6. exact Hin.
  Qed.

  (* ---- one signer's vouched subset is accepted --------------------------------------------- *)
  Theorem signer_subset_verifies (ss : signed_subset) (signed : bytes) (v : vouched)
      (auths : list augcert) (leaf : augcert) (kid : N) (tsec tnsec : Z) (ver : bversion) :
    ss_ok ss -> encode_subset ss = Ok signed ->
    ss_auth ss = H256 (ac_cert leaf) ->
    vs_signed v = signed ->
    vs_authority v < lenN auths -> nth_error auths (N.to_nat (vs_authority v)) = Some leaf ->
    x509_key (ac_cert leaf) = Some (Some kid) ->
    sig_ok kid (generate_signed_message signed ver) (vs_sig v) = true ->
    verify_timestamps (ss_date ss) (ss_expires ss) tsec tnsec = true ->
    exists sh, Permutation sh (ss_hashes ss) /\ url_sorted sh /\ NoDup (map fst sh) /\
      verify_vouched H256 x509_key sig_ok v auths tsec tnsec ver =
      Ok (with_hashes ss sh, leaf, url_taint (ss_validity ss)).
  Proof.
    intros Hok He Ha Es Hi Hn Hk Hs Ht.
    destruct (encode_subset_ok ss signed He) as [sh0 [_ [_ [_ [_ [HN _]]]]]].
    destruct (signed_subset_roundtrip ss signed Hok He) as [sh [HP [HS Hd]]].
    exists sh. split; [exact HP|]. split; [exact HS|]. split.
    - eapply Permutation_NoDup; [apply Permutation_map, Permutation_sym; exact HP|exact HN].
    - apply (verify_vouched_complete H256 x509_key sig_ok v auths tsec tnsec ver _ leaf _ kid);
        try assumption; rewrite ?Es; try assumption.
  Qed.

  Lemma Forall2_nth_l {A B} (P : A -> B -> Prop) (l : list A) (l' : list B) :
    Forall2 P l l' -> forall i a, nth_error l i = Some a ->
    exists b, nth_error l' i = Some b /\ P a b.
  Proof.
    induction 1 as [|x y l l' Hxy HF IH]; intros i a Hi; [destruct i; discriminate|].
    destruct i as [|i]; cbn [nth_error] in *.
    - injection Hi as <-. exists y. auto.
    - apply IH. exact Hi.
  Qed.

  (* ---- MAIN ------------------------------------------------------------------------------------ *)
  (* ss : what the signer accumulated (NewSigner, then AddExchange for every
     covered exchange, each after AddPayloadIntegrity); signed = Encode ss;
     the i-th vouched subset of sigs carries it and points at the signer's
     leaf.  If NewVerifier accepts sigs at (tsec, tnsec) then every covered
     exchange verifies with its ORIGINAL body and the signer's leaf DER, unless
     an earlier subset already lists its URL. *)
  Theorem covered_verifies_gen (certs : list augcert) (validity : bytes) (date duration : Z)
      (ss0 ss : signed_subset) (xs : list (bexchange * bytes)) (signed : bytes)
      (sigs : signatures) (i : nat) (v : vouched) (leaf : augcert)
      (tsec tnsec : Z) (ver : bversion) (vss : list (signed_subset * augcert * bool))
      (x : bexchange) (rs : N) :
    new_signer H256 certs validity date duration = Ok ss0 ->
    add_all ss0 xs = Ok ss -> ss_ok ss -> encode_subset ss = Ok signed ->
    nth_error (sg_vouched sigs) i = Some v -> vs_signed v = signed ->
    nth_error (sg_auth sigs) (N.to_nat (vs_authority v)) = Some leaf ->
    new_verifier H256 x509_key sig_ok sigs tsec tnsec ver = Ok vss ->
    existsb (fun e => snd e) vss = false ->
    1 <= rs -> rs <= 16384 -> hdr_values (bx_hdr x) (s2b "Digest") = [] ->
    In (with_integrity x rs, integrity_identifier D03) xs ->
    Forall (fun e => ~ lists_url (bx_url x) e) (firstn i vss) ->
    verify_exchange H256 vss (with_integrity x rs) = VxOk (bx_body x) (ac_cert leaf).
  Proof.
    intros Hns Hadd Hok He Hv Es Hl Hnv Ht H1 H2 Hnd Hin Hpre.
    destruct (add_all_ok xs ss0 ss Hadd) as [_ [_ [_ [_ [_ A6]]]]].
    destruct (A6 _ _ Hin) as [hs [Hh Hin']].
    apply new_verifier_ok_iff in Hnv.
    destruct (Forall2_nth_l _ _ _ Hnv i v Hv) as [[[ssd cert] t] [Hr Hvv]].
    apply verify_vouched_sound in Hvv.
    destruct Hvv as [_ [Hc [_ [Hd _]]]]. rewrite Hl in Hc. injection Hc as <-.
    destruct (encode_subset_ok ss signed He) as [sh0 [_ [_ [_ [_ [HN _]]]]]].
    destruct (signed_subset_roundtrip ss signed Hok He) as [sh [HP [_ Hd']]].
    rewrite Es, Hd' in Hd. injection Hd as <- <-.
    apply (covered_verifies_vx vss (firstn i vss) (skipn (S i) vss) (with_hashes ss sh) leaf
             (url_taint (ss_validity ss)) x rs hs); try assumption.
    - apply nth_error_split_firstn. exact Hr.
    - cbn [with_hashes ss_hashes].
      eapply Permutation_NoDup; [apply Permutation_map, Permutation_sym; exact HP|exact HN].
    - cbn [with_hashes ss_hashes]. eapply Permutation_in; [apply Permutation_sym; exact HP|exact Hin'].
  Qed.

  (* the same, for what AddPayloadIntegrity actually returned: its success already
     says that the record size is 1..16384 and that there was no Digest value *)
  Theorem covered_verifies (certs : list augcert) (validity : bytes) (date duration : Z)
      (ss0 ss : signed_subset) (xs : list (bexchange * bytes)) (signed : bytes)
      (sigs : signatures) (i : nat) (v : vouched) (leaf : augcert)
      (tsec tnsec : Z) (ver : bversion) (vss : list (signed_subset * augcert * bool))
      (x x' : bexchange) (rs : N) (integ : bytes) :
    new_signer H256 certs validity date duration = Ok ss0 ->
    add_all ss0 xs = Ok ss -> ss_ok ss -> encode_subset ss = Ok signed ->
    nth_error (sg_vouched sigs) i = Some v -> vs_signed v = signed ->
    nth_error (sg_auth sigs) (N.to_nat (vs_authority v)) = Some leaf ->
    new_verifier H256 x509_key sig_ok sigs tsec tnsec ver = Ok vss ->
    existsb (fun e => snd e) vss = false ->
    add_payload_integrity H256 x rs = Ok (x', integ) ->
    In (x', integ) xs ->
    Forall (fun e => ~ lists_url (bx_url x) e) (firstn i vss) ->
    verify_exchange H256 vss x' = VxOk (bx_body x) (ac_cert leaf).
  Proof.
    intros Hns Hadd Hok He Hv Es Hl Hnv Ht Hapi Hin Hpre.
    apply add_payload_integrity_ok_inv in Hapi. destruct Hapi as [Hnd [H1 [H2 [-> ->]]]].
    eapply covered_verifies_gen; eassumption.
  Qed.

  (* NewVerifier accepts when every vouched subset is some signer's, correctly
     indexed, correctly signed, inside its window *)
  Definition subset_good (auths : list augcert) (tsec tnsec : Z) (ver : bversion) (v : vouched) : Prop :=
    exists ss leaf kid,
      ss_ok ss /\ encode_subset ss = Ok (vs_signed v) /\ ss_auth ss = H256 (ac_cert leaf) /\
      vs_authority v < lenN auths /\ nth_error auths (N.to_nat (vs_authority v)) = Some leaf /\
      x509_key (ac_cert leaf) = Some (Some kid) /\
      sig_ok kid (generate_signed_message (vs_signed v) ver) (vs_sig v) = true /\
      verify_timestamps (ss_date ss) (ss_expires ss) tsec tnsec = true.

  Theorem new_verifier_accepts (sigs : signatures) (tsec tnsec : Z) (ver : bversion) :
    Forall (subset_good (sg_auth sigs) tsec tnsec ver) (sg_vouched sigs) ->
    exists vss, new_verifier H256 x509_key sig_ok sigs tsec tnsec ver = Ok vss /\
                List.length vss = List.length (sg_vouched sigs).
  Proof.
    intros HF.
    assert (H : exists vss,
      Forall2 (fun v r => verify_vouched H256 x509_key sig_ok v (sg_auth sigs) tsec tnsec ver = Ok r)
              (sg_vouched sigs) vss).
    { induction HF as [|v t Hv HF IH]; [exists []; constructor|].
      destruct IH as [vss IH].
      destruct Hv as [ss [leaf [kid [G1 [G2 [G3 [G4 [G5 [G6 [G7 G8]]]]]]]]]].
      destruct (signer_subset_verifies ss (vs_signed v) v (sg_auth sigs) leaf kid tsec tnsec ver
                  G1 G2 G3 eq_refl G4 G5 G6 G7 G8) as [sh [_ [_ [_ E]]]].
      eexists. constructor; [exact E|exact IH]. }
    destruct H as [vss H]. exists vss. split; [apply new_verifier_ok_iff; exact H|].
    clear - H. induction H as [|a b l l' Hab HF IH]; cbn [List.length]; [reflexivity|]. rewrite IH. reflexivity.
  Qed.
End Cover.
