(* Proofs/BundleWriteDet.v - C04 corollary: a well-formed b2 bundle is, as a whole,
   ONE deterministically encoded CBOR item in the sense of Spec.Det (RFC 8949
   4.2.1): the 5-element array [magic, version, section-lengths, sections, length].
   (In b1 the primary URL makes it a 6-element array; the same proof would go
   through with one more text item.) *)
From Coq Require Import Lia ZifyN ZifyNat ZifyBool Permutation Sorted.
From WP Require Import Base.Prelude Model.Cbor Model.Bundle.
From WP Require Import Spec.Cbor Spec.Det Spec.Bundle.
From WP Require Import Proofs.BaseLemmas Proofs.CborHead Proofs.CborMap Proofs.BundleWriteBasics
  Proofs.BundleWriteSig Proofs.BundleWriteForm Proofs.BundleWriteWF.
From WP Require Proofs.DetLemmas Proofs.DetEnc Proofs.Det.
Open Scope N_scope.

Local Notation two64v := 18446744073709551616.

Lemma senc_Head (mt n : N) : mt < 8 -> n < two64v -> Head mt n (senc_head mt n).
Proof.
  intros M L. pose proof (DetEnc.typed_uint_Head mt n M L) as H.
  rewrite typed_uint_senc_head in H by (unfold major_const; lia).
  replace (mt * 32 / 32) with mt in H by lia. exact H.
Qed.

Lemma bstr_det (s : bytes) : wfb s -> lenN s < two64v -> DetItem (bstr_item s).
Proof. intros W L. unfold bstr_item. cbn [senc_token]. apply DI_bytes; [apply senc_Head; lia|exact W]. Qed.
Lemma text_det (s : bytes) : wfb s -> lenN s < two64v -> DetItem (text_item s).
Proof. intros W L. unfold text_item. cbn [senc_token]. apply DI_text; [apply senc_Head; lia|exact W]. Qed.
Lemma uint_det (n : N) : n < two64v -> DetItem (uint_item n).
Proof. intros L. apply (DI_uint n). apply senc_Head; lia. Qed.
Lemma array_det' (items : list bytes) :
  Forall DetItem items -> lenN items < two64v -> DetItem (arr_head (lenN items) ++ List.concat items).
Proof. intros F L. apply DI_array; [apply senc_Head; lia|exact F]. Qed.

Lemma wfb_bstr_inv (s : bytes) : wfb (bstr_item s) -> wfb s.
Proof. unfold bstr_item. cbn [senc_token]. intros W. apply DetLemmas.wfb_app in W. apply W. Qed.
Lemma wfb_text_inv (s : bytes) : wfb (text_item s) -> wfb s.
Proof. unfold text_item. cbn [senc_token]. intros W. apply DetLemmas.wfb_app in W. apply W. Qed.
Lemma lenN_bstr_ge (s : bytes) : lenN s <= lenN (bstr_item s).
Proof. unfold bstr_item. cbn [senc_token]. rewrite lenN_app. lia. Qed.
Lemma lenN_text_ge (s : bytes) : lenN s <= lenN (text_item s).
Proof. unfold text_item. cbn [senc_token]. rewrite lenN_app. lia. Qed.

(* ---- responses ---------------------------------------------------------------------------- *)
Lemma rsp_det (r : rsp) : wfb (rsp_bytes r) -> lenN (rsp_bytes r) < two64v -> DetItem (rsp_bytes r).
Proof.
  unfold rsp_bytes. intros W L.
  assert (E : arr_head 2 ++ bstr_item (hmap_bytes (r_fields r)) ++ bstr_item (r_payload r)
              = arr_head (lenN [bstr_item (hmap_bytes (r_fields r)); bstr_item (r_payload r)])
                ++ List.concat [bstr_item (hmap_bytes (r_fields r)); bstr_item (r_payload r)]).
  { cbn [List.concat lenN]. rewrite app_nil_r. reflexivity. }
  rewrite E. apply DetLemmas.wfb_app in W. destruct W as [_ W]. apply DetLemmas.wfb_app in W. destruct W as [W1 W2].
  rewrite !lenN_app in L.
  apply array_det'; [|cbn [lenN]; lia].
  pose proof (lenN_bstr_ge (hmap_bytes (r_fields r))). pose proof (lenN_bstr_ge (r_payload r)).
  repeat (apply Forall_cons || apply Forall_nil); apply bstr_det; try (apply wfb_bstr_inv; assumption); lia.
Qed.

Lemma responses_det (rs : list rsp) :
  wfb (responses_body rs) -> lenN (responses_body rs) < two64v -> DetItem (responses_body rs).
Proof.
  unfold responses_body. intros W L. rewrite flat_map_concat_map, <- (lenN_map rsp_bytes rs).
  apply DetLemmas.wfb_app in W. destruct W as [_ W]. rewrite flat_map_concat_map in W, L. rewrite lenN_app in L.
  assert (F : Forall DetItem (map rsp_bytes rs)).
  { apply DetLemmas.wfb_concat in W. rewrite Forall_forall in W. apply Forall_forall. intros it Hit.
    pose proof (W it Hit) as Wi. pose proof (lenN_concat_in _ _ Hit) as Li.
    apply in_map_iff in Hit. destruct Hit as [r [E _]]. subst it. apply rsp_det; [exact Wi|unfold bytes in *; lia]. }
  apply array_det'; [exact F|]. pose proof (DetComplete.concat_len_ge _ F). unfold bytes in *. lia.
Qed.

(* ---- the b2 index ------------------------------------------------------------------------------ *)
Definition ix_pair (e : bytes * bytes * list (N * N)) : bytes * bytes := (index_key e, index_val BV2 e).

Lemma index_det (idx : list (bytes * bytes * list (N * N))) :
  StronglySorted (fun a c => blt (index_key a) (index_key c)) idx ->
  Forall (fun e => exists o l, ix_locs e = [(o, l)] /\ o < two64v /\ l < two64v) idx ->
  wfb (index_body BV2 idx) -> lenN (index_body BV2 idx) < two64v ->
  DetItem (index_body BV2 idx).
Proof.
  intros S F W L. unfold index_body in *.
  assert (G : lenN idx <= lenN (flat_map (fun e => index_key e ++ index_val BV2 e) idx)).
  { apply lenN_flat_map_ge. intros e. unfold index_key, text_item. cbn [senc_token]. rewrite !lenN_app.
    pose proof (senc_head_len_ge 3 (lenN (ix_url e))). lia. }
  assert (E : flat_map (fun e => index_key e ++ index_val BV2 e) idx
              = List.concat (map entry_bytes (map ix_pair idx))).
  { rewrite map_map, flat_map_concat_map. reflexivity. }
  rewrite E in *. rewrite <- (lenN_map ix_pair idx).
  apply DetLemmas.wfb_app in W. destruct W as [_ W]. rewrite lenN_app in L.
  assert (Fp : Forall (fun kv => DetItem (fst kv) /\ DetItem (snd kv)) (map ix_pair idx)).
  { apply DetLemmas.wfb_concat in W. rewrite Forall_forall in W, F. apply Forall_forall. intros kv Hkv.
    apply in_map_iff in Hkv. destruct Hkv as [e [Ee He]]. subst kv.
    assert (Hin : In (entry_bytes (ix_pair e)) (map entry_bytes (map ix_pair idx))) by (apply in_map, in_map; exact He).
    pose proof (W _ Hin) as We. pose proof (lenN_concat_in _ _ Hin) as Le.
    change (entry_bytes (ix_pair e)) with (index_key e ++ index_val BV2 e) in We, Le.
    cbn [ix_pair fst snd].
    apply DetLemmas.wfb_app in We. destruct We as [Wk Wv]. rewrite lenN_app in Le.
    split.
    - unfold index_key in *. apply text_det; [apply wfb_text_inv; exact Wk|].
      pose proof (lenN_text_ge (ix_url e)). unfold bytes in *. lia.
    - destruct (F e He) as [o [l [El [Lo Ll]]]]. unfold index_val. rewrite El. cbn [lenN flat_map].
      unfold loc_bytes. cbn [fst snd]. rewrite app_nil_r.
      assert (E2 : arr_head (2 * N.succ 0) ++ uint_item o ++ uint_item l
                   = arr_head (lenN [uint_item o; uint_item l]) ++ List.concat [uint_item o; uint_item l]).
      { cbn [List.concat lenN]. rewrite app_nil_r. reflexivity. }
      rewrite E2. apply array_det'; [|cbn [lenN]; lia].
      repeat (apply Forall_cons || apply Forall_nil); apply uint_det; assumption. }
  apply DI_map.
  - apply senc_Head; [lia|]. rewrite lenN_map. unfold bytes in *. lia.
  - exact Fp.
  - unfold KeysAscending. rewrite map_map. cbn [ix_pair fst].
    apply StronglySorted_Sorted in S. clear - S. induction S as [|a t St IH Hd]; cbn [map]; constructor; [exact IH|].
    destruct Hd as [|c t' Hc]; cbn [map]; constructor. unfold key_lt. apply blt_cmp. exact Hc.
Qed.

(* ---- sections ---------------------------------------------------------------------------------- *)
Lemma delimits_bound (rs : list rsp) (l : N * N) :
  Delimits rs l -> fst l + snd l <= lenN (responses_body rs).
Proof.
  intros [i [r [Hi [Eo El]]]]. unfold responses_body. rewrite lenN_app, Eo, El.
  assert (G : lenN (flat_map rsp_bytes (firstn i rs)) + lenN (rsp_bytes r) <= lenN (flat_map rsp_bytes rs)).
  { clear Eo El. revert i Hi. induction rs as [|y t IH]; intros [|i] Hi; try discriminate.
    - inversion Hi; subst. cbn [firstn flat_map lenN]. rewrite lenN_app. lia.
    - cbn [firstn flat_map]. rewrite !lenN_app. specialize (IH i Hi). lia. }
  lia.
Qed.

Lemma section_det (bs : bytes) (p : parsed) (s : bytes * bytes) :
  lenN bs < two64v -> lenN (responses_body (p_responses p)) <= lenN bs ->
  IndexOK BV2 p -> SectionOK BV2 p s -> wfb (snd s) -> lenN (snd s) <= lenN bs -> DetItem (snd s).
Proof.
  intros L Lr [S [Fe _]] [_ H] W Ls.
  destruct (bytes_eqb (fst s) n_index).
  - rewrite H in *. apply index_det; [exact S| |exact W|lia].
    eapply Forall_impl; [|exact Fe]. intros e [_ [_ [Fd [L1 _]]]].
    destruct (ix_locs e) as [|[o l] [|? ?]]; try (cbn in L1; lia).
    exists o, l. split; [reflexivity|]. inversion Fd as [|? ? D _]; subst.
    apply delimits_bound in D. cbn [fst snd] in D. lia.
  - destruct (bytes_eqb (fst s) n_responses).
    + rewrite H in *. apply responses_det; [exact W|lia].
    + destruct (bytes_eqb (fst s) n_primary || bytes_eqb (fst s) n_manifest).
      * destruct H as [u [_ E]]. rewrite E in *. apply text_det; [apply wfb_text_inv; exact W|].
        pose proof (lenN_text_ge u). lia.
      * exact H.
Qed.

(* C04 corollary: the whole b2 file is one deterministic CBOR item *)
Theorem WF_b2_detitem (bs : bytes) (p : parsed) : WF BV2 bs p -> DetItem bs.
Proof.
  intros [W [L [E [Hp [_ [Last [_ [Fs Ix]]]]]]]].
  destruct (p_primary p) eqn:Pp; [contradiction|].
  unfold file_body in E. rewrite Pp in E. cbn [app] in E. unfold magic in E. rewrite <- !app_assoc in E.
  set (m8 := utf8_enc 127760 ++ utf8_enc 128230) in *.
  set (secs := p_sections p) in *.
  set (body := arr_head (lenN secs) ++ List.concat (map snd secs)).
  set (items := [bstr_item m8; bstr_item [98; 50; 0; 0]; bstr_item (table_body secs); body;
                 bstr_item (sbe 8 (lenN bs))]).
  assert (E' : bs = arr_head (lenN items) ++ List.concat items).
  { unfold items, body. cbn [lenN List.concat]. rewrite app_nil_r, <- !app_assoc. exact E. }
  assert (Wi : Forall wfb items).
  { apply DetLemmas.wfb_concat. rewrite E' in W. apply DetLemmas.wfb_app in W. apply W. }
  assert (Li : forall it, In it items -> lenN it <= lenN bs).
  { intros it Hit. pose proof (lenN_concat_in _ _ Hit) as Lc. rewrite E' at 1. rewrite lenN_app. lia. }
  unfold two64 in L.
  rewrite E'. apply array_det'; [|unfold items; cbn [lenN]; lia].
  rewrite Forall_forall in Wi.
  assert (Hb : forall s, In (bstr_item s) items -> DetItem (bstr_item s)).
  { intros s Hs. apply bstr_det; [apply wfb_bstr_inv; apply Wi; exact Hs|].
    pose proof (Li _ Hs). pose proof (lenN_bstr_ge s). lia. }
  assert (Wbody : wfb body) by (apply Wi; unfold items; cbn [In]; tauto).
  assert (Lbody : lenN body <= lenN bs) by (apply Li; unfold items; cbn [In]; tauto).
  unfold items at 1.
  repeat (apply Forall_cons || apply Forall_nil); try (apply Hb; unfold items; cbn [In]; tauto).
  (* the sections array *)
  unfold body in *. rewrite <- (lenN_map snd secs).
  apply DetLemmas.wfb_app in Wbody. destruct Wbody as [_ Wc]. rewrite lenN_app in Lbody.
  assert (Lr : lenN (responses_body (p_responses p)) <= lenN bs).
  { destruct Last as [front [rb El]].
    assert (Hs : In (n_responses, rb) secs) by (rewrite El; apply in_or_app; right; left; reflexivity).
    pose proof Fs as Fs'. rewrite Forall_forall in Fs'. destruct (Fs' _ Hs) as [_ Hsec]. cbn [fst snd] in Hsec.
    replace (bytes_eqb n_responses n_index) with false in Hsec by reflexivity.
    replace (bytes_eqb n_responses n_responses) with true in Hsec by reflexivity.
    rewrite <- Hsec. pose proof (lenN_concat_in _ _ (in_map snd _ _ Hs)) as Lc. cbn [snd] in Lc. lia. }
  assert (Fd : Forall DetItem (map snd secs)).
  { apply DetLemmas.wfb_concat in Wc. rewrite Forall_forall in Wc. apply Forall_forall. intros sb Hsb.
    pose proof (Wc sb Hsb) as Wsb. pose proof (lenN_concat_in _ _ Hsb) as Lsb.
    apply in_map_iff in Hsb. destruct Hsb as [s [Es Hs]]. subst sb.
    apply (section_det bs p s); try assumption; try lia.
    rewrite Forall_forall in Fs. apply Fs. exact Hs. }
  apply array_det'; [exact Fd|]. pose proof (DetComplete.concat_len_ge _ Fd). lia.
Qed.

Theorem write_b2_detitem (b : bundle) (bs : bytes) :
  b_ver b = BV2 -> b_write b = Ok bs -> wfb bs -> lenN bs < two64 -> sig_u64 b -> DetItem bs.
Proof.
  intros V H W L S. destruct (write_wf b bs H W L S) as [ts [_ Wf]]. rewrite V in Wf.
  eapply WF_b2_detitem. exact Wf.
Qed.

(* hence the package's own Deterministic checker (C13) accepts every b2 bundle the writer emits *)
Corollary write_b2_det_accept (b : bundle) (bs : bytes) :
  b_ver b = BV2 -> b_write b = Ok bs -> wfb bs -> lenN bs < two64 -> sig_u64 b ->
  WP.Model.Det.det_check bs = WP.Model.Det.Accept.
Proof.
  intros V H W L S. apply (proj2 (WP.Proofs.Det.det_iff_proof bs W)).
  exists [bs]. split; [constructor; [eapply write_b2_detitem; eassumption|constructor]|].
  cbn [List.concat]. rewrite app_nil_r. reflexivity.
Qed.
