(* Proofs/BundleWriteOk.v - C03/C04: what a successful Bundle.WriteTo implies about
   the bundle that was written.  Since the writer refuses what the reader refuses
   (Response.EncodeHeader: status, header names and values; checkURL: fragment,
   credentials, absoluteness), these facts are CONSEQUENCES of b_write b = Ok bs and
   need not be assumed by the round trip theorem. *)
From Coq Require Import Lia ZifyN ZifyNat ZifyBool Permutation Sorted.
From WP Require Import Base.Prelude Base.Decimal Model.Cbor Model.Http Model.UrlRef Model.Variants
  Model.CertChain Model.Bundle.
From WP Require Import Spec.Cbor Spec.Bundle.
From WP Require Import Proofs.BaseLemmas Proofs.CborHead Proofs.CborMap Proofs.CborUtf8
  Proofs.Variants Proofs.BundleWriteBasics Proofs.BundleWriteSpec Proofs.BundleWriteSig
  Proofs.BundleWriteForm Proofs.BundleWriteWF Proofs.BundleWriteCases Proofs.BundleRoundtripResp.
Open Scope N_scope.

Lemma nodupb_complete (l : list bytes) : NoDup l -> nodupb l = true.
Proof.
  induction 1 as [|x t Hx _ IH]; [reflexivity|]. cbn [nodupb]. rewrite IH, andb_true_r.
  apply negb_true_iff. apply not_true_is_false. intros E. apply existsb_bytes_In in E. contradiction.
Qed.

(* ---- one header map ------------------------------------------------------------------------- *)
(* Response.EncodeHeader succeeds exactly on the exchanges the reader can load *)
Lemma erh_ok_iff (st : Z) (h : headers) :
  (exists hc, encode_response_header st h = Ok hc) <->
  (100 <= st <= 999)%Z /\ forallb hdr_writable_b h = true
  /\ NoDup (status_name :: map (fun nv => lower (fst nv)) h).
Proof.
  pose proof (erh_err_iff st h) as Hi. split.
  - intros [hc E].
    assert (NE : encode_response_header st h <> Err) by (rewrite E; discriminate).
    split; [|split].
    + destruct (Z_lt_ge_dec st 100) as [C|C]; [exfalso; apply NE, Hi; left; lia|].
      destruct (Z_lt_ge_dec 999 st) as [C'|C']; [exfalso; apply NE, Hi; left; lia|lia].
    + destruct (forallb hdr_writable_b h) eqn:F; [reflexivity|]. exfalso. apply NE, Hi. right; left. reflexivity.
    + destruct (erh_ok_guard st h hc E) as [_ Em]. apply enc_map_ok in Em. destruct Em as [_ S].
      rewrite sort_enc_fields in S. apply StronglySorted_map_inv' in S.
      assert (ND : NoDup (map field_key (rsp_fields st h))).
      { apply (sorted_nodup_map field_key blt); [apply blt_irrefl|exact S]. }
      assert (ND' : NoDup (map field_key (raw_fields st h))).
      { eapply Permutation_NoDup; [apply Permutation_map, rsp_fields_perm|exact ND]. }
      unfold raw_fields in ND'. cbn [map] in ND'.
      assert (E' : field_key (status_name, dec_of_Z st) :: map field_key (map fold_hdr h)
                   = map bstr_item (status_name :: map (fun nv => lower (fst nv)) h)).
      { cbn [map]. f_equal. rewrite !map_map. apply map_ext. reflexivity. }
      rewrite E' in ND'. eapply NoDup_map_inv'. exact ND'.
  - intros [S [F ND]]. destruct (erh_cases st h) as [E|E]; [|exact E].
    exfalso. apply Hi in E. destruct E as [E|[E|E]]; [lia|congruence|contradiction].
Qed.

Lemma erh_ok_xwritable (x : bexchange) (hc : bytes) :
  encode_response_header (bx_status x) (bx_hdr x) = Ok hc -> xwritable x = true.
Proof.
  intros E. destruct (proj1 (erh_ok_iff _ _) (ex_intro _ hc E)) as [S [F ND]].
  unfold xwritable. rewrite F. apply NoDup_cons_iff in ND. destruct ND as [_ ND].
  rewrite (nodupb_complete _ ND). replace ((100 <=? bx_status x)%Z && (bx_status x <=? 999)%Z) with true by lia.
  reflexivity.
Qed.

(* ---- the whole bundle ------------------------------------------------------------------------ *)
Lemma headers_ok_xwritable (b : bundle) :
  headers_ok b = true -> Forall (fun x => xwritable x = true) (b_exchanges b).
Proof.
  unfold headers_ok. intros H. rewrite forallb_forall in H. apply Forall_forall. intros x Hx.
  specialize (H x Hx).
  destruct (encode_response_header (bx_status x) (bx_hdr x)) as [hc| | |] eqn:E; try discriminate.
  eapply erh_ok_xwritable. exact E.
Qed.

Theorem b_write_ok_xwritable (b : bundle) (bs : bytes) :
  b_write b = Ok bs -> Forall (fun x => xwritable x = true) (b_exchanges b).
Proof.
  intros H. apply b_write_ok_iff in H. destruct H as [ts [Hh _]]. apply headers_ok_xwritable. exact Hh.
Qed.

(* every status is a three-digit number *)
Theorem b_write_ok_status (b : bundle) (bs : bytes) :
  b_write b = Ok bs -> Forall (fun x => (100 <= bx_status x <= 999)%Z) (b_exchanges b).
Proof.
  intros H. eapply Forall_impl; [|apply (b_write_ok_xwritable b bs H)]. intros x W.
  apply (xw_status x W).
Qed.

(* header names: ASCII, not starting with ':', pairwise distinct after case folding
   (the latter is enc_map's duplicate-key check); comma-joined values: ASCII *)
Theorem b_write_ok_headers (b : bundle) (bs : bytes) :
  b_write b = Ok bs ->
  Forall (fun x =>
            Forall (fun nv => (match fst nv with 58 :: _ => False | _ => True end)
                              /\ is_ascii_b (fst nv) = true
                              /\ is_ascii_b (join_comma (snd nv)) = true) (bx_hdr x)
            /\ NoDup (map (fun nv => lower (fst nv)) (bx_hdr x))) (b_exchanges b).
Proof.
  intros H. eapply Forall_impl; [|apply (b_write_ok_xwritable b bs H)]. intros x W. split.
  - eapply Forall_impl; [|apply (xw_hdrs x W)]. intros nv Hw. apply hdr_writable_parts in Hw.
    destruct Hw as [P [A1 A2]]. split; [|auto].
    rewrite (match58 (fst nv) False True). unfold bytes in *. rewrite P. exact I.
  - apply (xw_nodup x W).
Qed.

(* the URLs of the groups are the URLs of the exchanges *)
Lemma index_pres_urls_utf8 (b : bundle) ts :
  index_pres (b_ver b) (groups_of (ients_of b)) = Ok ts ->
  Forall (fun x => utf8_valid (bx_url x) = true) (b_exchanges b).
Proof.
  intros Ht. apply index_pres_ok in Ht. apply Forall_forall. intros x Hx.
  assert (Hu : In (bx_url x) (map fst (groups_of (ients_of b)))).
  { rewrite groups_of_keys. apply (first_urls_spec (ients_of b)). unfold ients_of.
    rewrite mk_ients_urls. apply in_map. exact Hx. }
  apply in_map_iff in Hu. destruct Hu as [[u es] [Eu Hg]]. cbn [fst] in Eu. subst u.
  clear Hx. induction Ht as [|g t gs ts' Hgt _ IH]; [contradiction|].
  destruct Hg as [->|Hg]; [|apply IH; exact Hg].
  apply index_entry_pre_ok in Hgt. apply Hgt.
Qed.

(* exchange URLs pass checkURL (no fragment, no credentials) and are valid UTF-8; the
   b2 primary URL and the b1 manifest URL are absolute as well; a b1 bundle has a
   primary URL and it parses; a manifest only occurs in b1 *)
Theorem b_write_ok_urls (b : bundle) (bs : bytes) :
  b_write b = Ok bs ->
  Forall (fun x => fst (index_url_ok (bx_url x)) = true /\ utf8_valid (bx_url x) = true) (b_exchanges b)
  /\ (match b_ver b, b_primary b with
      | BV1, None => False
      | BV1, Some u => fst (any_url_ok u) = true /\ utf8_valid u = true
      | BV2, Some u => fst (abs_url_ok u) = true /\ utf8_valid u = true
      | BV2, None => True end)
  /\ (match b_manifest b with
      | Some u => b_ver b = BV1 /\ fst (abs_url_ok u) = true /\ utf8_valid u = true
      | None => True end).
Proof.
  intros H. apply b_write_ok_iff in H. destruct H as [ts [_ [[Hu [Hpa Hma]] [Ht [Hp [Hm _]]]]]].
  split; [|split].
  - unfold urls_ok in Hu. rewrite forallb_forall in Hu. apply Forall_forall. intros x Hx.
    specialize (Hu x Hx). unfold url_writable in Hu. apply andb_true_iff in Hu. destruct Hu; auto.
  - unfold prim_ok in Hp. destruct (b_ver b); destruct (b_primary b); auto.
  - unfold man_ok in Hm. destruct (b_manifest b); [|exact I]. destruct Hm as [V Um]. auto.
Qed.

(* the b1 primary URL written into the header parses (writePrimaryURL -> checkURL) *)
Theorem b_write_ok_b1_primary (b : bundle) (bs : bytes) :
  b_write b = Ok bs -> b_ver b = BV1 ->
  exists u, b_primary b = Some u /\ fst (any_url_ok u) = true /\ utf8_valid u = true.
Proof.
  intros H V. destruct (b_write_ok_urls b bs H) as [_ [P _]]. rewrite V in P.
  destruct (b_primary b) as [u|]; [|contradiction]. exists u. split; [reflexivity|exact P].
Qed.
