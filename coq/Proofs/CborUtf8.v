(* Proofs/CborUtf8.v - the model's table-driven utf8.Valid accepts exactly the
   byte strings that are a concatenation of UTF-8 encodings of Unicode scalar
   values (the declarative Spec.Utf8Valid); so does the spec's executable
   reference checker.  No assumption that the elements are < 256 is needed:
   every accepted byte is range-checked. *)
From Coq Require Import Lia ZifyN ZifyNat ZifyBool.
From WP Require Import Base.Prelude Model.Cbor Spec.Cbor Proofs.BaseLemmas.
Ltac Zify.zify_post_hook ::= Z.div_mod_to_equations.
Open Scope N_scope.

(* ---- one step of the model's automaton, both directions ---------------- *)
Lemma uv1 (b0 : N) (r : bytes) : b0 < 128 -> utf8_valid (b0 :: r) = utf8_valid r.
Proof.
  intros H0. cbn [utf8_valid]. replace (b0 <? 128) with true by lia. reflexivity.
Qed.

Lemma uv2 (b0 b1 : N) (r : bytes) :
  194 <= b0 <= 223 -> 128 <= b1 <= 191 ->
  utf8_valid (b0 :: b1 :: r) = utf8_valid r.
Proof.
  intros H0 H1. cbn [utf8_valid].
  replace (b0 <? 128) with false by lia.
  replace (inr 194 223 b0) with true by (unfold inr; lia).
  replace (cont b1) with true by (unfold cont; lia). reflexivity.
Qed.

Lemma uv3 (b0 b1 b2 : N) (r : bytes) :
  224 <= b0 <= 239 -> (b0 = 224 -> 160 <= b1) -> (b0 = 237 -> b1 <= 159) ->
  128 <= b1 <= 191 -> 128 <= b2 <= 191 ->
  utf8_valid (b0 :: b1 :: b2 :: r) = utf8_valid r.
Proof.
  intros H0 Ha Hb H1 H2. cbn [utf8_valid].
  replace (b0 <? 128) with false by lia.
  replace (inr 194 223 b0) with false by (unfold inr; lia).
  replace (inr 224 239 b0) with true by (unfold inr; lia).
  assert (E : (if b0 =? 224 then inr 160 191 b1
               else if b0 =? 237 then inr 128 159 b1 else cont b1) = true).
  { destruct (N.eqb_spec b0 224) as [E1|E1]; [unfold inr; lia|].
    destruct (N.eqb_spec b0 237) as [E2|E2]; unfold inr, cont; lia. }
  rewrite E. replace (cont b2) with true by (unfold cont; lia). reflexivity.
Qed.

Lemma uv4 (b0 b1 b2 b3 : N) (r : bytes) :
  240 <= b0 <= 244 -> (b0 = 240 -> 144 <= b1) -> (b0 = 244 -> b1 <= 143) ->
  128 <= b1 <= 191 -> 128 <= b2 <= 191 -> 128 <= b3 <= 191 ->
  utf8_valid (b0 :: b1 :: b2 :: b3 :: r) = utf8_valid r.
Proof.
  intros H0 Ha Hb H1 H2 H3. cbn [utf8_valid].
  replace (b0 <? 128) with false by lia.
  replace (inr 194 223 b0) with false by (unfold inr; lia).
  replace (inr 224 239 b0) with false by (unfold inr; lia).
  replace (inr 240 244 b0) with true by (unfold inr; lia).
  assert (E : (if b0 =? 240 then inr 144 191 b1
               else if b0 =? 244 then inr 128 143 b1 else cont b1) = true).
  { destruct (N.eqb_spec b0 240) as [E1|E1]; [unfold inr; lia|].
    destruct (N.eqb_spec b0 244) as [E2|E2]; unfold inr, cont; lia. }
  rewrite E. replace (cont b2) with true by (unfold cont; lia).
  replace (cont b3) with true by (unfold cont; lia). reflexivity.
Qed.

(* what an accepting step of the automaton has seen *)
Inductive uv_step (b0 : N) (r : bytes) : Prop :=
| uvs1 : b0 < 128 -> utf8_valid r = true -> uv_step b0 r
| uvs2 : forall b1 r1, r = b1 :: r1 -> 194 <= b0 <= 223 -> 128 <= b1 <= 191 ->
         utf8_valid r1 = true -> uv_step b0 r
| uvs3 : forall b1 b2 r2, r = b1 :: b2 :: r2 -> 224 <= b0 <= 239 ->
         (b0 = 224 -> 160 <= b1) -> (b0 = 237 -> b1 <= 159) ->
         128 <= b1 <= 191 -> 128 <= b2 <= 191 -> utf8_valid r2 = true -> uv_step b0 r
| uvs4 : forall b1 b2 b3 r3, r = b1 :: b2 :: b3 :: r3 -> 240 <= b0 <= 244 ->
         (b0 = 240 -> 144 <= b1) -> (b0 = 244 -> b1 <= 143) ->
         128 <= b1 <= 191 -> 128 <= b2 <= 191 -> 128 <= b3 <= 191 ->
         utf8_valid r3 = true -> uv_step b0 r.

Lemma utf8_valid_inv (b0 : N) (r : bytes) : utf8_valid (b0 :: r) = true -> uv_step b0 r.
Proof.
  intros H. cbn [utf8_valid] in H.
  destruct (b0 <? 128) eqn:C0.
  { apply uvs1; [lia|exact H]. }
  destruct (inr 194 223 b0) eqn:C1.
  { destruct r as [|b1 r1]; [discriminate|].
    apply andb_true_iff in H. destruct H as [Hc Hv].
    apply (uvs2 _ _ b1 r1); [reflexivity| | |exact Hv]; unfold inr, cont in *; lia. }
  destruct (inr 224 239 b0) eqn:C2.
  { destruct r as [|b1 [|b2 r2]]; try discriminate.
    apply andb_true_iff in H. destruct H as [H Hv].
    apply andb_true_iff in H. destruct H as [Hb1 Hb2].
    apply (uvs3 _ _ b1 b2 r2); [reflexivity| | | | | |exact Hv];
      destruct (N.eqb_spec b0 224) as [E1|E1];
      destruct (N.eqb_spec b0 237) as [E2|E2]; unfold inr, cont in *; lia. }
  destruct (inr 240 244 b0) eqn:C3; [|discriminate].
  destruct r as [|b1 [|b2 [|b3 r3]]]; try discriminate.
  apply andb_true_iff in H. destruct H as [H Hv].
  apply andb_true_iff in H. destruct H as [H Hb3].
  apply andb_true_iff in H. destruct H as [Hb1 Hb2].
  apply (uvs4 _ _ b1 b2 b3 r3); [reflexivity| | | | | | |exact Hv];
    destruct (N.eqb_spec b0 240) as [E1|E1];
    destruct (N.eqb_spec b0 244) as [E2|E2]; unfold inr, cont in *; lia.
Qed.

(* ---- shape of utf8_enc on its four ranges ------------------------------- *)
Lemma utf8_enc_1 (c : N) : c < 128 -> utf8_enc c = [c].
Proof. intros H. unfold utf8_enc. replace (c <? 128) with true by lia. reflexivity. Qed.

Lemma utf8_enc_2 (c : N) : 128 <= c < 2048 ->
  utf8_enc c = [192 + c / 64; 128 + c mod 64].
Proof.
  intros H. unfold utf8_enc. replace (c <? 128) with false by lia.
  replace (c <? 2048) with true by lia. reflexivity.
Qed.

Lemma utf8_enc_3 (c : N) : 2048 <= c < 65536 ->
  utf8_enc c = [224 + c / 4096; 128 + (c / 64) mod 64; 128 + c mod 64].
Proof.
  intros H. unfold utf8_enc. replace (c <? 128) with false by lia.
  replace (c <? 2048) with false by lia. replace (c <? 65536) with true by lia. reflexivity.
Qed.

Lemma utf8_enc_4 (c : N) : 65536 <= c ->
  utf8_enc c = [240 + c / 262144; 128 + (c / 4096) mod 64; 128 + (c / 64) mod 64; 128 + c mod 64].
Proof.
  intros H. unfold utf8_enc. replace (c <? 128) with false by lia.
  replace (c <? 2048) with false by lia. replace (c <? 65536) with false by lia. reflexivity.
Qed.

Lemma utf8_enc_nonempty (c : N) : utf8_enc c <> [].
Proof.
  unfold utf8_enc. destruct (c <? 128); [discriminate|].
  destruct (c <? 2048); [discriminate|]. destruct (c <? 65536); discriminate.
Qed.

(* every encoding of a scalar value is swallowed by the automaton *)
Lemma utf8_valid_enc (c : N) (r : bytes) :
  scalar c -> utf8_valid (utf8_enc c ++ r) = utf8_valid r.
Proof.
  intros Hs. unfold scalar in Hs.
  destruct (N.lt_ge_cases c 128) as [C0|C0].
  { rewrite utf8_enc_1 by exact C0. cbn [app]. apply uv1. exact C0. }
  destruct (N.lt_ge_cases c 2048) as [C1|C1].
  { rewrite utf8_enc_2 by lia. cbn [app]. apply uv2; lia. }
  destruct (N.lt_ge_cases c 65536) as [C2|C2].
  { rewrite utf8_enc_3 by lia. cbn [app]. apply uv3; lia. }
  rewrite utf8_enc_4 by lia. cbn [app]. apply uv4; lia.
Qed.

(* every accepted group of bytes is the encoding of a scalar value *)
Lemma enc_of_2 (b0 b1 : N) : 194 <= b0 <= 223 -> 128 <= b1 <= 191 ->
  exists c, scalar c /\ utf8_enc c = [b0; b1].
Proof.
  intros H0 H1. exists ((b0 - 192) * 64 + (b1 - 128)).
  split; [unfold scalar; lia|]. rewrite utf8_enc_2 by lia.
  assert (E0 : 192 + ((b0 - 192) * 64 + (b1 - 128)) / 64 = b0) by lia.
  assert (E1 : 128 + ((b0 - 192) * 64 + (b1 - 128)) mod 64 = b1) by lia.
  rewrite E0, E1. reflexivity.
Qed.

Lemma enc_of_3 (b0 b1 b2 : N) :
  224 <= b0 <= 239 -> (b0 = 224 -> 160 <= b1) -> (b0 = 237 -> b1 <= 159) ->
  128 <= b1 <= 191 -> 128 <= b2 <= 191 ->
  exists c, scalar c /\ utf8_enc c = [b0; b1; b2].
Proof.
  intros H0 Ha Hb H1 H2.
  exists ((b0 - 224) * 4096 + (b1 - 128) * 64 + (b2 - 128)).
  set (c := (b0 - 224) * 4096 + (b1 - 128) * 64 + (b2 - 128)).
  assert (Hlo : 2048 <= c < 65536).
  { subst c. destruct (N.eq_dec b0 224) as [E|E]; [specialize (Ha E)|]; lia. }
  split.
  - unfold scalar. subst c.
    destruct (N.lt_ge_cases b0 237) as [L|G]; [left; lia|].
    destruct (N.eq_dec b0 237) as [E|E]; [specialize (Hb E); left; lia|right; lia].
  - rewrite utf8_enc_3 by exact Hlo.
    assert (E0 : 224 + c / 4096 = b0) by (subst c; lia).
    assert (E1 : 128 + (c / 64) mod 64 = b1) by (subst c; lia).
    assert (E2 : 128 + c mod 64 = b2) by (subst c; lia).
    rewrite E0, E1, E2. reflexivity.
Qed.

Lemma enc_of_4 (b0 b1 b2 b3 : N) :
  240 <= b0 <= 244 -> (b0 = 240 -> 144 <= b1) -> (b0 = 244 -> b1 <= 143) ->
  128 <= b1 <= 191 -> 128 <= b2 <= 191 -> 128 <= b3 <= 191 ->
  exists c, scalar c /\ utf8_enc c = [b0; b1; b2; b3].
Proof.
  intros H0 Ha Hb H1 H2 H3.
  exists ((b0 - 240) * 262144 + (b1 - 128) * 4096 + (b2 - 128) * 64 + (b3 - 128)).
  set (c := (b0 - 240) * 262144 + (b1 - 128) * 4096 + (b2 - 128) * 64 + (b3 - 128)).
  assert (Hlo : 65536 <= c < 1114112).
  { subst c. destruct (N.eq_dec b0 240) as [E|E]; [specialize (Ha E)|];
      (destruct (N.eq_dec b0 244) as [E'|E']; [specialize (Hb E')|]); lia. }
  split; [unfold scalar; lia|].
  rewrite utf8_enc_4 by lia.
  assert (E0 : 240 + c / 262144 = b0) by (subst c; lia).
  assert (E1 : 128 + (c / 4096) mod 64 = b1) by (subst c; lia).
  assert (E2 : 128 + (c / 64) mod 64 = b2) by (subst c; lia).
  assert (E3 : 128 + c mod 64 = b3) by (subst c; lia).
  rewrite E0, E1, E2, E3. reflexivity.
Qed.

(* ---- C11 utf8_dfa_correct ------------------------------------------------ *)
Lemma utf8_valid_complete (bs : bytes) : Utf8Valid bs -> utf8_valid bs = true.
Proof.
  intros [cps [Hs E]]. subst bs.
  induction Hs as [|c cps Hc Hs IH]; [reflexivity|].
  cbn [flat_map]. rewrite utf8_valid_enc by exact Hc. exact IH.
Qed.

Lemma utf8_valid_sound_len (n : nat) : forall bs,
  (List.length bs <= n)%nat -> utf8_valid bs = true -> Utf8Valid bs.
Proof.
  induction n as [|n IH]; intros bs Hlen Hv.
  - destruct bs; [|cbn in Hlen; lia]. exists []. split; [constructor|reflexivity].
  - destruct bs as [|b0 r]; [exists []; split; [constructor|reflexivity]|].
    cbn [List.length] in Hlen.
    destruct (utf8_valid_inv b0 r Hv)
      as [H0 Hr
         |b1 r1 Er H0 H1 Hr
         |b1 b2 r2 Er H0 Ha Hb H1 H2 Hr
         |b1 b2 b3 r3 Er H0 Ha Hb H1 H2 H3 Hr].
    + destruct (IH r ltac:(lia) Hr) as [cps [Hs E]].
      exists (b0 :: cps). split; [constructor; [unfold scalar; lia|exact Hs]|].
      cbn [flat_map]. rewrite utf8_enc_1 by exact H0. rewrite <- E. reflexivity.
    + subst r. cbn [List.length] in Hlen.
      destruct (IH r1 ltac:(lia) Hr) as [cps [Hs E]].
      destruct (enc_of_2 b0 b1 H0 H1) as [c [Hc Ec]].
      exists (c :: cps). split; [constructor; assumption|].
      cbn [flat_map]. rewrite Ec, <- E. reflexivity.
    + subst r. cbn [List.length] in Hlen.
      destruct (IH r2 ltac:(lia) Hr) as [cps [Hs E]].
      destruct (enc_of_3 b0 b1 b2 H0 Ha Hb H1 H2) as [c [Hc Ec]].
      exists (c :: cps). split; [constructor; assumption|].
      cbn [flat_map]. rewrite Ec, <- E. reflexivity.
    + subst r. cbn [List.length] in Hlen.
      destruct (IH r3 ltac:(lia) Hr) as [cps [Hs E]].
      destruct (enc_of_4 b0 b1 b2 b3 H0 Ha Hb H1 H2 H3) as [c [Hc Ec]].
      exists (c :: cps). split; [constructor; assumption|].
      cbn [flat_map]. rewrite Ec, <- E. reflexivity.
Qed.

Theorem utf8_dfa_correct (bs : bytes) : utf8_valid bs = true <-> Utf8Valid bs.
Proof.
  split; [apply (utf8_valid_sound_len (List.length bs)); apply Nat.le_refl
         |apply utf8_valid_complete].
Qed.

(* bytes of a valid string are bytes, as a consequence *)
Lemma utf8_enc_wfb (c : N) : scalar c -> wfb (utf8_enc c).
Proof.
  intros Hs. unfold scalar in Hs. unfold wfb.
  destruct (N.lt_ge_cases c 128) as [C0|C0].
  { rewrite utf8_enc_1 by exact C0. repeat constructor. lia. }
  destruct (N.lt_ge_cases c 2048) as [C1|C1].
  { rewrite utf8_enc_2 by lia. repeat constructor; lia. }
  destruct (N.lt_ge_cases c 65536) as [C2|C2].
  { rewrite utf8_enc_3 by lia. repeat constructor; lia. }
  rewrite utf8_enc_4 by lia. repeat constructor; lia.
Qed.

Lemma Utf8Valid_wfb (bs : bytes) : Utf8Valid bs -> wfb bs.
Proof.
  intros [cps [Hs E]]. subst bs. induction Hs as [|c cps Hc Hs IH]; [constructor|].
  cbn [flat_map]. apply wfb_app. split; [apply utf8_enc_wfb; exact Hc|exact IH].
Qed.

(* ---- the spec's executable reference checker ---------------------------- *)
Lemma scalarb_scalar (c : N) : scalarb c = true <-> scalar c.
Proof. unfold scalarb, scalar. lia. Qed.

Lemma utf8_dec1_sound (bs : bytes) (c : N) (r : bytes) :
  utf8_dec1 bs = Some (c, r) -> scalar c /\ bs = utf8_enc c ++ r.
Proof.
  unfold utf8_dec1. destruct bs as [|b0 t]; [discriminate|].
  cbv zeta.
  set (k := if b0 <? 128 then 1%nat else if b0 <? 224 then 2%nat
            else if b0 <? 240 then 3%nat else 4%nat).
  set (cp := match firstn k (b0 :: t) with
             | [a] => a
             | [a; b] => a mod 32 * 64 + b mod 64
             | [a; b; d] => a mod 16 * 4096 + b mod 64 * 64 + d mod 64
             | [a; b; d; e] => a mod 8 * 262144 + b mod 64 * 4096 + d mod 64 * 64 + e mod 64
             | _ => 0
             end).
  destruct (scalarb cp && bytes_eqb (utf8_enc cp) (firstn k (b0 :: t))) eqn:E; [|discriminate].
  intros H. inversion H; subst c r.
  apply andb_true_iff in E. destruct E as [E1 E2].
  split; [apply scalarb_scalar; exact E1|].
  apply bytes_eqb_eq in E2. rewrite E2. symmetry. apply firstn_skipn.
Qed.

Lemma dec1_1 (b0 : N) (r : bytes) : b0 < 128 -> utf8_dec1 (b0 :: r) = Some (b0, r).
Proof.
  intros H0. unfold utf8_dec1. replace (b0 <? 128) with true by lia.
  cbn [firstn skipn]. rewrite utf8_enc_1 by exact H0.
  replace (scalarb b0) with true by (unfold scalarb; lia).
  rewrite bytes_eqb_refl. reflexivity.
Qed.

Lemma dec1_2 (b0 b1 c : N) (r : bytes) :
  128 <= b0 < 224 -> (b0 mod 32) * 64 + b1 mod 64 = c -> scalar c ->
  utf8_enc c = [b0; b1] -> utf8_dec1 (b0 :: b1 :: r) = Some (c, r).
Proof.
  intros H0 Hc Hs He. unfold utf8_dec1. replace (b0 <? 128) with false by lia.
  replace (b0 <? 224) with true by lia. cbn [firstn skipn].
  rewrite Hc, He, bytes_eqb_refl, (proj2 (scalarb_scalar c) Hs). reflexivity.
Qed.

Lemma dec1_3 (b0 b1 b2 c : N) (r : bytes) :
  224 <= b0 < 240 -> (b0 mod 16) * 4096 + (b1 mod 64) * 64 + b2 mod 64 = c -> scalar c ->
  utf8_enc c = [b0; b1; b2] -> utf8_dec1 (b0 :: b1 :: b2 :: r) = Some (c, r).
Proof.
  intros H0 Hc Hs He. unfold utf8_dec1. replace (b0 <? 128) with false by lia.
  replace (b0 <? 224) with false by lia. replace (b0 <? 240) with true by lia.
  cbn [firstn skipn].
  rewrite Hc, He, bytes_eqb_refl, (proj2 (scalarb_scalar c) Hs). reflexivity.
Qed.

Lemma dec1_4 (b0 b1 b2 b3 c : N) (r : bytes) :
  240 <= b0 ->
  (b0 mod 8) * 262144 + (b1 mod 64) * 4096 + (b2 mod 64) * 64 + b3 mod 64 = c -> scalar c ->
  utf8_enc c = [b0; b1; b2; b3] -> utf8_dec1 (b0 :: b1 :: b2 :: b3 :: r) = Some (c, r).
Proof.
  intros H0 Hc Hs He. unfold utf8_dec1. replace (b0 <? 128) with false by lia.
  replace (b0 <? 224) with false by lia. replace (b0 <? 240) with false by lia.
  cbn [firstn skipn].
  rewrite Hc, He, bytes_eqb_refl, (proj2 (scalarb_scalar c) Hs). reflexivity.
Qed.

Lemma utf8_dec1_enc (c : N) (r : bytes) :
  scalar c -> utf8_dec1 (utf8_enc c ++ r) = Some (c, r).
Proof.
  intros Hs. pose proof Hs as Hs'. unfold scalar in Hs'.
  destruct (N.lt_ge_cases c 128) as [C0|C0].
  { rewrite utf8_enc_1 by exact C0. cbn [app]. apply dec1_1. exact C0. }
  destruct (N.lt_ge_cases c 2048) as [C1|C1].
  { pose proof (utf8_enc_2 c ltac:(lia)) as He. rewrite He. cbn [app].
    apply dec1_2; [lia|lia|exact Hs|exact He]. }
  destruct (N.lt_ge_cases c 65536) as [C2|C2].
  { pose proof (utf8_enc_3 c ltac:(lia)) as He. rewrite He. cbn [app].
    apply dec1_3; [lia|lia|exact Hs|exact He]. }
  pose proof (utf8_enc_4 c ltac:(lia)) as He. rewrite He. cbn [app].
  apply dec1_4; [lia|lia|exact Hs|exact He].
Qed.

Lemma sutf8_fuel_sound (fuel : nat) : forall bs, sutf8_fuel fuel bs = true -> Utf8Valid bs.
Proof.
  induction fuel as [|f IH]; intros bs H.
  - destruct bs; [|discriminate]. exists []. split; [constructor|reflexivity].
  - destruct bs as [|b0 t]; [exists []; split; [constructor|reflexivity]|].
    cbn [sutf8_fuel] in H.
    destruct (utf8_dec1 (b0 :: t)) as [[c r]|] eqn:Hd; [|discriminate].
    apply utf8_dec1_sound in Hd. destruct Hd as [Hc E].
    destruct (IH r H) as [cps [Hs E']].
    exists (c :: cps). split; [constructor; assumption|].
    cbn [flat_map]. rewrite <- E'. exact E.
Qed.

Lemma sutf8_fuel_complete (cps : list N) : Forall scalar cps ->
  forall fuel, (List.length (flat_map utf8_enc cps) <= fuel)%nat ->
               sutf8_fuel fuel (flat_map utf8_enc cps) = true.
Proof.
  induction 1 as [|c cps Hc Hs IH]; intros fuel Hlen.
  - destruct fuel; reflexivity.
  - cbn [flat_map] in *.
    pose proof (utf8_dec1_enc c (flat_map utf8_enc cps) Hc) as Hd.
    destruct (utf8_enc c) as [|x l] eqn:Ec; [exfalso; exact (utf8_enc_nonempty c Ec)|].
    cbn [app] in *. cbn [List.length] in Hlen.
    destruct fuel as [|f]; [lia|].
    cbn [sutf8_fuel]. rewrite Hd. apply IH.
    rewrite app_length in Hlen. lia.
Qed.

Theorem sutf8_valid_correct (bs : bytes) : sutf8_valid bs = true <-> Utf8Valid bs.
Proof.
  unfold sutf8_valid. split; [apply sutf8_fuel_sound|].
  intros [cps [Hs E]]. subst bs. apply sutf8_fuel_complete; [exact Hs|apply Nat.le_refl].
Qed.

(* the model's automaton and the spec's reference checker are the same function *)
Corollary utf8_valid_sutf8 (bs : bytes) : utf8_valid bs = sutf8_valid bs.
Proof.
  destruct (utf8_valid bs) eqn:E1; destruct (sutf8_valid bs) eqn:E2; try reflexivity.
  - apply utf8_dfa_correct, sutf8_valid_correct in E1. congruence.
  - apply sutf8_valid_correct, utf8_dfa_correct in E2. congruence.
Qed.
