(* Proofs/SxgRoundtripVerifySigned.v - C02, the Verify half, part 2: an exchange
   signed the way the library signs it (MiEncodePayload, then AddSignatureHeader)
   verifies at every instant of [date, expires] and hands back the ORIGINAL,
   un-encoded payload - directly, and after Write / ReadExchange.

   The signing steps are the model's own functions:
     mi_encode_payload H256 e0 rs                          = Ok e1
     signed_message e1 (Some (H256 der)) validity date expires = Ok m
     (the signer returns sg for m)
     signature_header_value H256 e1 [der] cert_url validity date expires sg = Ok hdr
     e2 := e1 with Signature := hdr
   Premises about the outside world (oracles): the certificate chain served at
   cert_url parses and starts with the signing certificate der, whose key is
   supported, and the signature the signer obtained verifies under that key
   (scheme correctness); H256 returns 32 bytes.
   Premise about the exchange: [policy_ok] (a boolean; the verifier's policy
   for the version).  That the digest header was absent before MiEncodePayload
   is no longer a premise: since the repair of F20 MiEncodePayload refuses any
   existing value under the canonical key, and a key spelled differently
   ("digest") would make the header block unencodable (two names equal up to
   letter case), contradicting signed_message .. = Ok.                          *)
From Coq Require Import Lia ZifyN ZifyNat ZifyBool Permutation.
From WP Require Import Base.Prelude Base.Base64 Base.Decimal.
From WP Require Import Model.Cbor Model.BigEndian Model.Http Model.Url Model.Mice Model.StructHdr
                       Model.CertChain Model.Sxg.
From WP Require Import Spec.Mice Spec.SxgPolicy.
From WP Require Spec.StructHdr.
From WP Require Import Proofs.BaseLemmas Proofs.HdrCi Proofs.SHLemmas Proofs.SHRoundtrip Proofs.MiceEncode
                       Proofs.MiceDecode Proofs.SxgSign Proofs.SxgLoop Proofs.SxgReadDefs
                       Proofs.SxgRoundtrip Proofs.SxgVerifyMsg Proofs.SxgVerifySound
                       Proofs.SxgRoundtripVerify.
Open Scope N_scope.

Module SS := WP.Spec.StructHdr.

Definition set_sig (e : exchange) (sv : bytes) : exchange :=
  {| e_ver := e_ver e; e_uri := e_uri e; e_method := e_method e; e_reqh := e_reqh e;
     e_status := e_status e; e_resph := e_resph e; e_sig := sv; e_payload := e_payload e;
     e_taint := e_taint e |}.

(* ---- Header.Add and lookups -------------------------------------------------------------- *)
Lemma lookup_add_raw_same (h : headers) (k v : bytes) :
  hdr_lookup (hdr_add_raw h k v) k = hdr_lookup h k ++ [v].
Proof.
  induction h as [|[k' vs] t IH]; cbn [hdr_add_raw hdr_lookup].
  - rewrite bytes_eqb_refl. reflexivity.
  - destruct (bytes_eqb k' k) eqn:E; cbn [hdr_lookup]; rewrite E; [reflexivity|exact IH].
Qed.

Lemma lookup_add_raw_other (h : headers) (k k2 v : bytes) : k <> k2 ->
  hdr_lookup (hdr_add_raw h k v) k2 = hdr_lookup h k2.
Proof.
  intros Hne. induction h as [|[k' vs] t IH]; cbn [hdr_add_raw hdr_lookup].
  - replace (bytes_eqb k k2) with false; [reflexivity|]. symmetry. apply bytes_eqb_neq. exact Hne.
  - destruct (bytes_eqb k' k) eqn:E; cbn [hdr_lookup].
    + apply bytes_eqb_eq in E. subst k'.
      replace (bytes_eqb k k2) with false; [reflexivity|]. symmetry. apply bytes_eqb_neq. exact Hne.
    + rewrite IH. reflexivity.
Qed.

(* ---- MiEncodePayload ------------------------------------------------------------------------ *)
Lemma mi_encode_payload_inv (H : bytes -> bytes) (e0 e1 : exchange) (rs : N) : 1 <= rs ->
  mi_encode_payload H e0 rs = Ok e1 ->
  hdr_values (e_resph e0) (digest_header_name (mice_of (e_ver e0))) = [] /\
  e1 = {| e_ver := e_ver e0; e_uri := e_uri e0; e_method := e_method e0; e_reqh := e_reqh e0;
          e_status := e_status e0;
          e_resph := hdr_add (hdr_add (e_resph e0) (s2b "Content-Encoding")
                                      (content_encoding (mice_of (e_ver e0))))
                             (digest_header_name (mice_of (e_ver e0)))
                             (digest_header H (mice_of (e_ver e0)) rs (e_payload e0));
          e_sig := e_sig e0;
          e_payload := stream H (mice_of (e_ver e0)) rs (e_payload e0);
          e_taint := e_taint e0 |}.
Proof.
  intros Hrs. unfold mi_encode_payload.
  destruct (hdr_values (e_resph e0) (digest_header_name (mice_of (e_ver e0)))); [|discriminate].
  rewrite (encode_refines_spec H _ rs (e_payload e0) Hrs). cbn [bind]. intros E. injection E as <-.
  split; reflexivity.
Qed.

Lemma digest_name_ne_ce (d : draft) :
  canonical_key (s2b "Content-Encoding") <> canonical_key (digest_header_name d).
Proof. destruct d; discriminate. Qed.

Lemma digest_header_nonempty (H : bytes -> bytes) d rs p : digest_header H d rs p <> [].
Proof. unfold digest_header. destruct d; discriminate. Qed.

Lemma lookup_cons_in (h : headers) (k v : bytes) (vs : list bytes) :
  hdr_lookup h k = v :: vs -> In (k, v :: vs) h.
Proof.
  induction h as [|[k' vs'] t IH]; cbn [hdr_lookup]; [discriminate|].
  destruct (bytes_eqb k' k) eqn:E.
  - apply bytes_eqb_eq in E. subst k'. intros ->. left. reflexivity.
  - intros H. right. apply IH. exact H.
Qed.

(* the digest header MiEncodePayload added is what the verifier's headerValue
   finds, when the resulting map can be signed at all *)
Lemma mi_encoded_digest_value (h : headers) (d : draft) (ce dg : bytes) :
  hdr_values h (digest_header_name d) = [] ->
  NoDup (map lname (hdr_add (hdr_add h (s2b "Content-Encoding") ce) (digest_header_name d) dg)) ->
  hdr_value_ci (hdr_add (hdr_add h (s2b "Content-Encoding") ce) (digest_header_name d) dg)
               (digest_header_name d) = dg.
Proof.
  intros Habs Hnd. set (h1 := hdr_add (hdr_add h (s2b "Content-Encoding") ce) (digest_header_name d) dg) in *.
  assert (Hl : hdr_lookup h1 (canonical_key (digest_header_name d)) = [dg]).
  { unfold h1, hdr_values, hdr_add in *.
    rewrite lookup_add_raw_same, (lookup_add_raw_other _ _ _ _ (digest_name_ne_ce d)), Habs.
    reflexivity. }
  apply lookup_cons_in in Hl.
  rewrite (hdr_value_ci_unique h1 _ _ _ Hnd Hl (lower_canonical_key _)). reflexivity.
Qed.

(* ---- the Signature header, parsed back ------------------------------------------------------- *)
Lemma sort_seven_key (v1 v2 v3 v4 v5 v6 v7 : option sh_item) :
  isort SS.key_lt [(s2b "sig", v1); (s2b "validity-url", v2); (s2b "integrity", v3);
                   (s2b "cert-url", v4); (s2b "cert-sha256", v5); (s2b "date", v6);
                   (s2b "expires", v7)]
  = [(s2b "cert-sha256", v5); (s2b "cert-url", v4); (s2b "date", v6); (s2b "expires", v7);
     (s2b "integrity", v3); (s2b "sig", v1); (s2b "validity-url", v2)].
Proof. exact (sort_seven v1 v2 v3 v4 v5 v6 v7). Qed.

Lemma extract_sorted (lbl sg vu ig cu cs : bytes) (d x : Z) :
  extract_signature
    {| pi_label := lbl;
       pi_params := [(s2b "cert-sha256", Some (ShBytes cs)); (s2b "cert-url", Some (ShStr cu));
                     (s2b "date", Some (ShInt d)); (s2b "expires", Some (ShInt x));
                     (s2b "integrity", Some (ShStr ig)); (s2b "sig", Some (ShBytes sg));
                     (s2b "validity-url", Some (ShStr vu))] |}
  = Some {| s_sig := sg; s_integrity := ig; s_cert_url := cu; s_cert_sha := cs;
            s_validity := vu; s_date := d; s_expires := x |}.
Proof. reflexivity. Qed.

Definition i64b' (z : Z) : bool := SS.int64_range_b z.

Lemma sig_pi_valid (H : bytes -> bytes) (v : version) (der cert_url validity : bytes)
      (date expires : Z) (sg : bytes) :
  wfb sg -> wfb (H der) ->
  forallb SS.printable_b cert_url = true -> forallb SS.printable_b validity = true ->
  SS.int64_range date -> SS.int64_range expires ->
  SS.valid_plist [{| pi_label := s2b "label";
                     pi_params := sig_params H v [der] cert_url validity date expires sg |}].
Proof.
  intros Wsg Wh Pc Pv Rd Rx. apply valid_plist_b_iff.
  unfold SS.valid_plist_b, SS.valid_pi_b, SS.valid_params_b. cbn [forallb pi_label pi_params].
  rewrite andb_true_r.
  assert (K1 : SS.token_b (s2b "label") = true) by reflexivity.
  assert (K2 : forallb SS.key_b (SS.keys (sig_params H v [der] cert_url validity date expires sg)) = true)
    by reflexivity.
  assert (K3 : SS.nodup_b (SS.keys (sig_params H v [der] cert_url validity date expires sg)) = true)
    by reflexivity.
  rewrite K1, K2, K3. cbn [andb].
  unfold sig_params. cbn [map snd forallb SS.valid_value_b SS.valid_item_b cert_sha256].
  apply wfbb_iff in Wsg. apply wfbb_iff in Wh. rewrite Wsg, Wh, Pc, Pv.
  replace (forallb SS.printable_b (integrity_identifier (mice_of v))) with true
    by (destruct v; reflexivity).
  unfold SS.int64_range_b. unfold SS.int64_range in Rd, Rx.
  replace ((-9223372036854775808 <=? date)%Z) with true by lia.
  replace ((date <? 9223372036854775808)%Z) with true by lia.
  replace ((-9223372036854775808 <=? expires)%Z) with true by lia.
  replace ((expires <? 9223372036854775808)%Z) with true by lia.
  reflexivity.
Qed.

(* what the verifier's parser makes of the header the signer wrote *)
Theorem signature_header_parsed (H : bytes -> bytes) (e : exchange) (der cert_url validity : bytes)
        (date expires : Z) (sg hdr : bytes) :
  wfb sg -> wfb (H der) -> SS.int64_range date -> SS.int64_range expires ->
  signature_header_value H e [der] cert_url validity date expires sg = Ok hdr ->
  exists pi, parse_parameterised_list hdr = Ok [pi] /\
    extract_signature pi
    = Some {| s_sig := sg; s_integrity := integrity_identifier (mice_of (e_ver e));
              s_cert_url := cert_url; s_cert_sha := H der; s_validity := validity;
              s_date := date; s_expires := expires |}.
Proof.
  intros Wsg Wh Rd Rx Eh.
  assert (Hp : forallb SS.printable_b cert_url = true /\ forallb SS.printable_b validity = true).
  { apply (signature_header_ok_iff H e der [] cert_url validity date expires sg).
    exists hdr. exact Eh. }
  destruct Hp as [Pc Pv].
  pose proof (sig_pi_valid H (e_ver e) der cert_url validity date expires sg Wsg Wh Pc Pv Rd Rx) as Hv.
  destruct (serialize_parse_plist _ Hv) as (s & Es & Ep & _).
  cbn [serialize_plist map join_R] in Es. rewrite <- signature_header_value_pi, Eh in Es.
  injection Es as <-. cbn [map] in Ep.
  eexists. split; [exact Ep|].
  unfold SS.canon_pi, sig_params. cbn [pi_label pi_params]. rewrite sort_seven_key.
  cbn [cert_sha256]. apply extract_sorted.
Qed.

(* ---- e_sig does not enter the signed message ----------------------------------------------------- *)
Lemma signed_message_set_sig (e : exchange) (sv : bytes) cs v d x :
  signed_message (set_sig e sv) cs v d x = signed_message e cs v d x.
Proof. reflexivity. Qed.

(* ---- the policy premises, as one boolean ----------------------------------------------------------- *)
Definition i64z (z : Z) : bool := ((-9223372036854775808 <=? z) && (z <? 9223372036854775808))%Z.

Definition policy_ok (status_known : Z -> bool) (e : exchange) (validity : bytes)
           (date expires : Z) (rs : N) : bool :=
  (* validity URL and request URL parse, and are decided to be same-origin *)
  (match same_origin validity (e_uri e) with Some (Some true) => true | _ => false end)
  (* b1/b2: GET or HEAD, no stateful request header; b3: IsCacheable;
     all: no uncached response header *)
  && post_ok status_known e
  (* b3: Content-Type present *)
  && (has_request (e_ver e)
      || negb (match hdr_value_ci (e_resph e) (s2b "Content-Type") with [] => true | _ => false end))
  && negb (e_taint e)
  (* MI record size *)
  && (1 <=? rs) && (rs <=? 16384)
  (* lifetime at most 7 days; date and expires are int64 *)
  && (expires - date <=? 604800)%Z && i64z date && i64z expires.

Section Signed.
  Variable H256 : bytes -> bytes.
  Variable x509_key : bytes -> option (option N).
  Variable sig_ok : N -> bytes -> bytes -> bool.
  Variable status_known : Z -> bool.
  Variable fetch : bytes -> R bytes.
  Hypothesis Hlen : forall x, List.length (H256 x) = 32%nat.
  Hypothesis Hwf : forall x, wfb (H256 x).

  Notation x509ok := (fun der => match x509_key der with Some _ => true | None => false end).
  Notation vfy := (verify H256 x509_key sig_ok status_known fetch).

  (* C02: what the library signs verifies throughout [date, expires] and yields the
     original payload *)
  Theorem signed_exchange_verifies
          (e0 e1 : exchange) (rs : N) (der cert_url validity : bytes) (date expires : Z)
          (m sg hdr chain : bytes) (main : augcert) (rest : list augcert) (kid : N)
          (tsec tnsec : Z) :
    (* the signing steps *)
    mi_encode_payload H256 e0 rs = Ok e1 ->
    signed_message e1 (Some (H256 der)) validity date expires = Ok m ->
    signature_header_value H256 e1 [der] cert_url validity date expires sg = Ok hdr ->
    wfb sg ->
    (* the oracles *)
    fetch cert_url = Ok chain ->
    cc_read x509ok chain = Ok (main :: rest) ->
    ac_cert main = der ->
    x509_key der = Some (Some kid) ->
    sig_ok kid m sg = true ->
    (* the policy *)
    policy_ok status_known (set_sig e1 hdr) validity date expires rs = true ->
    (* any instant of the validity window *)
    time_ok tsec tnsec ->
    (date * 1000000000 <= tsec * 1000000000 + tnsec <= expires * 1000000000)%Z ->
    vfy (set_sig e1 hdr) tsec tnsec = Valid (e_payload e0).
  Proof.
    intros Hmi Hm Hh Wsg Hf Hcc Hder Hk Hso Hpol Ht Hwin.
    unfold policy_ok in Hpol. rewrite !andb_true_iff in Hpol.
    destruct Hpol as ((((((((Pso & Ppost) & Pct) & Ptaint) & Prs1) & Prs2) & Plife) & Pd) & Px).
    apply N.leb_le in Prs1. apply N.leb_le in Prs2. apply Z.leb_le in Plife.
    unfold i64z in Pd, Px.
    assert (Rd : SS.int64_range date) by (unfold SS.int64_range; lia).
    assert (Rx : SS.int64_range expires) by (unfold SS.int64_range; lia).
    destruct (signature_header_parsed H256 e1 der cert_url validity date expires sg hdr
                Wsg (Hwf der) Rd Rx Hh) as (pi & Eparse & Eext).
    destruct (mi_encode_payload_inv H256 e0 e1 rs Prs1 Hmi) as [Habs E1].
    assert (Hnd1 : NoDup (map lname (e_resph e1))).
    { destruct (signed_message_ok_headers _ _ _ _ _ _ Hm) as [hb Ehb]. exact (encode_headers_ok_nodup e1 hb Ehb). }
    assert (Ever : e_ver e1 = e_ver e0) by (rewrite E1; reflexivity).
    set (s := {| s_sig := sg; s_integrity := integrity_identifier (mice_of (e_ver e1));
                 s_cert_url := cert_url; s_cert_sha := H256 der; s_validity := validity;
                 s_date := date; s_expires := expires |}) in *.
    set (e2 := set_sig e1 hdr) in *.
    (* the signature verifies *)
    assert (Hv : verify_signature H256 x509_key sig_ok fetch e2 tsec tnsec s = Some (e_payload e0)).
    { apply verify_signature_iff. split; [|split; [|split]].
      - exists chain, main, rest, kid, m. cbn [s s_cert_url s_cert_sha s_validity s_date s_expires s_sig].
        rewrite Hder. repeat split; try assumption;
          try (unfold e2; rewrite signed_message_set_sig; exact Hm).
      - cbn [s s_date s_expires]. apply verify_timestamps_spec; [unfold i64, two63; lia|unfold i64, two63; lia|exact Ht|].
        unfold InWindow, nano. lia.
      - intros Hr. change (e_ver e2) with (e_ver e1) in Hr. change (e_ver e2) with (e_ver e1) in Pct.
        rewrite Hr in Pct. cbn [orb] in Pct.
        destruct (hdr_value_ci (e_resph e2) (s2b "Content-Type")); [discriminate Pct|discriminate].
      - unfold SxgPolicy.PayloadOk. change (e_ver e2) with (e_ver e1).
        change (e_resph e2) with (e_resph e1). change (e_payload e2) with (e_payload e1).
        split; [cbn [s s_integrity]; apply SxgVerifySound.integrity_of_eq|].
        rewrite <- (SxgVerifySound.digest_field_of_eq (e_ver e1)),
                <- (SxgVerifySound.mice_draft_of_eq (e_ver e1)).
        assert (Edg : hdr_value_ci (e_resph e1) (digest_header_name (mice_of (e_ver e1)))
                      = digest_header H256 (mice_of (e_ver e0)) rs (e_payload e0)).
        { rewrite Ever. revert Hnd1. rewrite E1. cbn [e_resph]. intros Hnd1.
          apply mi_encoded_digest_value; [exact Habs|exact Hnd1]. }
        rewrite Edg. split; [apply digest_header_nonempty|].
        rewrite Ever. replace (e_payload e1) with (stream H256 (mice_of (e_ver e0)) rs (e_payload e0))
          by (rewrite E1; reflexivity).
        apply (decode_all_roundtrip H256 Hlen Hwf); try assumption; unfold two64; lia. }
    (* the loop over the one signature *)
    unfold verify. change (e_sig e2) with hdr. rewrite Eparse, verify_sigs_cons, Eext.
    fold s. change (s_validity s) with validity.
    destruct (same_origin validity (e_uri e2)) as [[[|]|]|]; try discriminate Pso.
    cbv zeta. rewrite Hv, Ppost. change (e_taint e2) with (e_taint e1).
    change (e_taint e2) with (e_taint e1) in Ptaint.
    destruct (e_taint e1); [cbn [negb] in Ptaint; discriminate Ptaint|reflexivity].
  Qed.

  (* ... and the same after Write / ReadExchange *)
  Theorem signed_exchange_verifies_after_roundtrip
          (e0 e1 : exchange) (rs : N) (der cert_url validity : bytes) (date expires : Z)
          (m sg hdr chain : bytes) (main : augcert) (rest : list augcert) (kid : N)
          (bs : bytes) :
    mi_encode_payload H256 e0 rs = Ok e1 ->
    signed_message e1 (Some (H256 der)) validity date expires = Ok m ->
    signature_header_value H256 e1 [der] cert_url validity date expires sg = Ok hdr ->
    wfb sg ->
    fetch cert_url = Ok chain ->
    cc_read x509ok chain = Ok (main :: rest) ->
    ac_cert main = der ->
    x509_key der = Some (Some kid) ->
    sig_ok kid m sg = true ->
    policy_ok status_known (set_sig e1 hdr) validity date expires rs = true ->
    (* the file *)
    readable (set_sig e1 hdr) = true ->
    write (set_sig e1 hdr) = Ok bs ->
    exists e', read bs = Ok e' /\
      forall tsec tnsec, time_ok tsec tnsec ->
        (date * 1000000000 <= tsec * 1000000000 + tnsec <= expires * 1000000000)%Z ->
        vfy e' tsec tnsec = Valid (e_payload e0) /\
        vfy e' tsec tnsec = vfy (set_sig e1 hdr) tsec tnsec.
  Proof.
    intros Hmi Hm Hh Wsg Hf Hcc Hder Hk Hso Hpol Hr Hw.
    destruct (verdict_same_after_roundtrip H256 x509_key sig_ok status_known fetch _ bs Hr Hw)
      as (e' & Erd & Hsame).
    exists e'. split; [exact Erd|]. intros tsec tnsec Ht Hwin.
    rewrite Hsame. split; [|reflexivity].
    eapply signed_exchange_verifies; eassumption.
  Qed.
End Signed.

