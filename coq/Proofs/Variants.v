(* Proofs/Variants.v - the Variants / Variant-Key arithmetic of go/bundle/encoder.go
   (Model/Variants.v): possible keys are numbered in row-major order of the
   Variants axes; indexInPossibleKeys and possibleKeyAt are mutually inverse
   (up to "first occurrence" when an axis lists a value twice). *)
From Coq Require Import Lia ZifyN ZifyNat ZifyBool Permutation.
From WP Require Import Base.Prelude Model.StructHdr Model.Variants Proofs.BaseLemmas.
From WP Require Proofs.SHRoundtrip.
Open Scope N_scope.

(* ---- the result monad ------------------------------------------------------- *)
Lemma bindR_ok {A B} (x : R A) (k : A -> R B) (y : B) :
  bind x k = Ok y -> exists a, x = Ok a /\ k a = Ok y.
Proof. destruct x; cbn [bind]; intros H; try discriminate. eauto. Qed.

Lemma of_opt_ok {A} (o : option A) (a : A) : of_opt o = Ok a -> o = Some a.
Proof. destruct o; cbn; intros H; inversion H; reflexivity. Qed.

(* ---- axes ---------------------------------------------------------------------- *)
(* an axis is  header-name :: possible values *)
Definition axis_ok (vals : list bytes) : Prop := tl vals <> [].
Definition axis_nodup (vals : list bytes) : Prop := NoDup (tl vals).
(* the number of possible keys: the product of the axis sizes *)
Fixpoint prodN (v : variants) : N :=
  match v with [] => 1 | vals :: t => lenN (tl vals) * prodN t end.

Lemma prodN_app (a b : variants) : prodN (a ++ b) = prodN a * prodN b.
Proof. induction a as [|x a IH]; cbn [app prodN]; [lia|]. rewrite IH. lia. Qed.

Lemma prodN_pos (v : variants) : Forall axis_ok v -> 1 <= prodN v.
Proof.
  induction 1 as [|vals t Hv _ IH]; cbn [prodN]; [lia|].
  assert (1 <= lenN (tl vals)).
  { unfold axis_ok in Hv. destruct (tl vals); [contradiction|]. cbn [lenN]. lia. }
  nia.
Qed.

Lemma npk_from_spec (v : variants) : forall m n,
  num_possible_keys_from v m = Ok n ->
  n = m * prodN v /\ Forall axis_ok v /\ (n <= max_variants \/ v = []).
Proof.
  induction v as [|vals t IH]; intros m n H; cbn [num_possible_keys_from prodN] in *.
  - inversion H; subst. split; [lia|]. split; [constructor|]. right. reflexivity.
  - destruct vals as [|name [|p ps]]; try discriminate.
    cbn [tl]. destruct (N.ltb_spec max_variants (m * lenN (p :: ps))) as [L|L]; [discriminate|].
    apply IH in H. destruct H as [E [F B]]. split; [lia|]. split.
    + constructor; [unfold axis_ok; cbn [tl]; discriminate|exact F].
    + left. destruct B as [B|B]; [exact B|]. subst t. cbn [prodN] in E. lia.
Qed.

Lemma npk_spec (v : variants) (n : N) :
  num_possible_keys v = Ok n ->
  n = prodN v /\ Forall axis_ok v /\ 1 <= n <= max_variants.
Proof.
  unfold num_possible_keys. intros H. apply npk_from_spec in H. destruct H as [E [F B]].
  split; [lia|]. split; [exact F|]. pose proof (prodN_pos v F) as P.
  split; [lia|]. destruct B as [B|B]; [exact B|]. subst v. cbn [prodN] in E. subst n.
  unfold max_variants. lia.
Qed.

(* ---- index_of ------------------------------------------------------------------ *)
Lemma index_of_some (x : bytes) (l : list bytes) : forall s j,
  index_of x l s = Some j ->
  s <= j /\ j < s + lenN l /\ nth (N.to_nat (j - s)) l [] = x.
Proof.
  induction l as [|y t IH]; intros s j H; cbn [index_of] in H; [discriminate|].
  destruct (bytes_eqb y x) eqn:E.
  - inversion H; subst j. apply bytes_eqb_eq in E. subst y. cbn [lenN].
    replace (N.to_nat (s - s)) with 0%nat by lia. cbn [nth]. repeat split; lia.
  - apply IH in H. destruct H as [H1 [H2 H3]]. cbn [lenN]. split; [lia|]. split; [lia|].
    replace (N.to_nat (j - s)) with (S (N.to_nat (j - (s + 1)))) by lia. cbn [nth]. exact H3.
Qed.

(* looking up the m-th value finds its first occurrence *)
Lemma index_of_nth (l : list bytes) : forall s m,
  m < lenN l ->
  exists j, index_of (nth (N.to_nat m) l []) l s = Some j /\ s <= j <= s + m /\
            nth (N.to_nat (j - s)) l [] = nth (N.to_nat m) l [] /\
            (NoDup l -> j = s + m).
Proof.
  induction l as [|y t IH]; intros s m H; cbn [lenN] in H; [lia|].
  destruct (N.eq_dec m 0) as [Z|NZ].
  - subst m. cbn [N.to_nat nth index_of]. rewrite bytes_eqb_refl. exists s.
    replace (N.to_nat (s - s)) with 0%nat by lia. cbn [nth]. repeat split; try lia.
  - replace (N.to_nat m) with (S (N.to_nat (m - 1))) by lia. cbn [nth index_of].
    destruct (bytes_eqb y (nth (N.to_nat (m - 1)) t [])) eqn:E.
    + apply bytes_eqb_eq in E. exists s. replace (N.to_nat (s - s)) with 0%nat by lia.
      cbn [nth]. split; [reflexivity|]. split; [lia|]. split; [exact E|].
      intros ND. apply NoDup_cons_iff in ND. destruct ND as [Hn _]. exfalso. apply Hn. rewrite E.
      apply nth_In. rewrite lenN_length in H. lia.
    + destruct (IH (s + 1) (m - 1)) as [j [J1 [J2 [J3 J4]]]]; [lia|].
      exists j. split; [exact J1|]. split; [lia|]. split.
      * replace (N.to_nat (j - s)) with (S (N.to_nat (j - (s + 1)))) by lia. cbn [nth]. exact J3.
      * intros ND. apply NoDup_cons_iff in ND. destruct ND as [_ ND]. specialize (J4 ND). lia.
Qed.

(* ---- indexInPossibleKeys ------------------------------------------------------- *)
Lemma iipk_from_app (v1 : variants) : forall k1 v2 k2 idx,
  List.length k1 = List.length v1 ->
  index_in_possible_keys_from (v1 ++ v2) (k1 ++ k2) idx =
  match index_in_possible_keys_from v1 k1 idx with
  | Some m => index_in_possible_keys_from v2 k2 m
  | None => None
  end.
Proof.
  induction v1 as [|vals vt IH]; intros [|k kt] v2 k2 idx L; cbn [List.length] in L; try lia.
  - reflexivity.
  - cbn [app index_in_possible_keys_from].
    destruct (index_of k (tl vals) 0); [|reflexivity]. apply IH. lia.
Qed.

Lemma iipk_from_length (v : variants) : forall key idx r,
  index_in_possible_keys_from v key idx = Some r -> List.length key = List.length v.
Proof.
  induction v as [|vals vt IH]; intros [|k kt] idx r H; cbn [index_in_possible_keys_from] in H;
    try discriminate; [reflexivity|].
  destruct (index_of k (tl vals) 0); [|discriminate]. cbn [List.length]. f_equal. eapply IH. exact H.
Qed.

(* the index lies in the block of size prodN v that starts at idx * prodN v: row-major *)
Lemma iipk_from_range (v : variants) : forall key idx r,
  index_in_possible_keys_from v key idx = Some r ->
  idx * prodN v <= r /\ r < (idx + 1) * prodN v.
Proof.
  induction v as [|vals vt IH]; intros [|k kt] idx r H; cbn [index_in_possible_keys_from prodN] in *;
    try discriminate.
  - inversion H; subst. lia.
  - destruct (index_of k (tl vals) 0) as [j|] eqn:E; [|discriminate].
    apply index_of_some in E. destruct E as [_ [E _]]. apply IH in H. nia.
Qed.

(* every coordinate of the key is one of the axis' possible values *)
Lemma iipk_from_member (v : variants) : forall key idx r,
  index_in_possible_keys_from v key idx = Some r ->
  Forall2 (fun vals x => In x (tl vals)) v key.
Proof.
  induction v as [|vals vt IH]; intros [|k kt] idx r H; cbn [index_in_possible_keys_from] in H;
    try discriminate; [constructor|].
  destruct (index_of k (tl vals) 0) as [j|] eqn:E; [|discriminate].
  constructor; [|eapply IH; exact H].
  apply index_of_some in E. destruct E as [_ [E1 E2]]. rewrite <- E2. apply nth_In.
  rewrite lenN_length in E1. lia.
Qed.

Lemma pka_step (vals : list bytes) (rest : variants) (idx j : N) (acc : list bytes) :
  j < lenN (tl vals) ->
  possible_key_at_rev (vals :: rest) (idx * lenN (tl vals) + j) acc =
  possible_key_at_rev rest idx (nth (N.to_nat j) (tl vals) [] :: acc).
Proof.
  intros J. cbn [possible_key_at_rev].
  destruct (N.eqb_spec (lenN (tl vals)) 0) as [Z|NZ]; [lia|].
  assert (D : (idx * lenN (tl vals) + j) / lenN (tl vals) = idx).
  { rewrite N.div_add_l by exact NZ. rewrite N.div_small by exact J. lia. }
  assert (M : (idx * lenN (tl vals) + j) mod lenN (tl vals) = j).
  { rewrite N.add_comm, N.mod_add by exact NZ. apply N.mod_small. exact J. }
  rewrite D, M. reflexivity.
Qed.

(* possibleKeyAt undoes indexInPossibleKeys (no distinctness needed) *)
Lemma pka_of_iipk_from (v : variants) : forall key idx r rest acc,
  index_in_possible_keys_from v key idx = Some r ->
  possible_key_at_rev (rev v ++ rest) r acc = possible_key_at_rev rest idx (key ++ acc).
Proof.
  induction v as [|vals vt IH]; intros [|k kt] idx r rest acc H;
    cbn [index_in_possible_keys_from] in H; try discriminate.
  - inversion H; subst. reflexivity.
  - destruct (index_of k (tl vals) 0) as [j|] eqn:E; [|discriminate].
    apply index_of_some in E. destruct E as [_ [E1 E2]].
    cbn [rev]. rewrite <- app_assoc. cbn [app].
    rewrite (IH _ _ _ (vals :: rest) acc H).
    rewrite pka_step by lia. replace (N.to_nat (j - 0)) with (N.to_nat j) in E2 by lia.
    rewrite E2. reflexivity.
Qed.

Theorem index_to_key (v : variants) (k : list bytes) (i : N) :
  index_in_possible_keys v k = Some i ->
  i < prodN v /\ possible_key_at v i = Some k /\
  Forall2 (fun vals x => In x (tl vals)) v k.
Proof.
  unfold index_in_possible_keys, possible_key_at. intros H.
  pose proof (iipk_from_range _ _ _ _ H) as R.
  split; [lia|]. split; [|eapply iipk_from_member; exact H].
  pose proof (pka_of_iipk_from v k 0 i [] [] H) as P. rewrite !app_nil_r in P.
  rewrite P. reflexivity.
Qed.

(* ---- possibleKeyAt, then indexInPossibleKeys ----------------------------------- *)
Lemma pka_rev_spec (rv : variants) : forall r acc,
  Forall axis_ok rv -> r < prodN rv ->
  exists key r',
    possible_key_at_rev rv r acc = Some (key ++ acc) /\
    List.length key = List.length rv /\
    index_in_possible_keys_from (rev rv) key 0 = Some r' /\ r' <= r /\
    (Forall axis_nodup rv -> r' = r).
Proof.
  induction rv as [|vals t IH]; intros r acc F R; cbn [prodN] in R.
  - assert (r = 0) by lia. subst r. exists [], 0. cbn. repeat split; lia.
  - inversion F as [|? ? Fv Ft]; subst. set (n := lenN (tl vals)) in *.
    assert (NZ : n <> 0).
    { unfold n. unfold axis_ok in Fv. destruct (tl vals); [contradiction|]. cbn [lenN]. lia. }
    assert (Rq : r / n < prodN t) by (apply N.div_lt_upper_bound; [exact NZ|exact R]).
    assert (Rm : r mod n < n) by (apply N.mod_lt; exact NZ).
    destruct (IH (r / n) (nth (N.to_nat (r mod n)) (tl vals) [] :: acc) Ft Rq)
      as [key [q [P [L [I [Q1 Q2]]]]]].
    destruct (index_of_nth (tl vals) 0 (r mod n) Rm) as [j [J1 [J2 [J3 J4]]]].
    exists (key ++ [nth (N.to_nat (r mod n)) (tl vals) []]), (q * n + j).
    split.
    { cbn [possible_key_at_rev]. fold n. destruct (N.eqb_spec n 0); [contradiction|].
      rewrite P, <- app_assoc. reflexivity. }
    split; [rewrite app_length; cbn [List.length]; lia|].
    split.
    { cbn [rev]. rewrite iipk_from_app by (rewrite rev_length; exact L).
      rewrite I. cbn [index_in_possible_keys_from]. rewrite J1. reflexivity. }
    pose proof (N.div_mod r n NZ) as DM.
    split; [nia|].
    intros ND. inversion ND as [|? ? NDv NDt]; subst. specialize (Q2 NDt). specialize (J4 NDv).
    subst q. nia.
Qed.

(* the i-th possible key exists; looking it up gives i back when the axes list
   pairwise distinct values, and otherwise the index i' <= i of the same key
   built from first occurrences *)
Theorem key_to_index (v : variants) (n i : N) :
  num_possible_keys v = Ok n -> i < n ->
  exists k i',
    possible_key_at v i = Some k /\ index_in_possible_keys v k = Some i' /\ i' <= i /\
    possible_key_at v i' = Some k /\
    (Forall axis_nodup v -> i' = i).
Proof.
  intros Hn Hi. apply npk_spec in Hn. destruct Hn as [E [F _]]. subst n.
  assert (Fr : Forall axis_ok (rev v)) by (apply Forall_rev; exact F).
  assert (Pr : prodN (rev v) = prodN v).
  { clear. induction v as [|x t IH]; [reflexivity|]. cbn [rev prodN]. rewrite prodN_app, IH.
    cbn [prodN]. lia. }
  destruct (pka_rev_spec (rev v) i [] Fr ltac:(lia)) as [k [i' [P [_ [I [Q1 Q2]]]]]].
  rewrite rev_involutive, app_nil_r in *.
  exists k, i'. unfold possible_key_at, index_in_possible_keys.
  split; [exact P|]. split; [exact I|]. split; [exact Q1|]. split.
  - apply (index_to_key v k i' I).
  - intros ND. apply Q2. apply Forall_rev. exact ND.
Qed.

(* the statement the property quotes: row-major numbering is a bijection
   between 0..n-1 and the possible keys *)
Theorem variants_row_major (v : variants) (n i : N) :
  Forall axis_nodup v -> num_possible_keys v = Ok n -> i < n ->
  exists k, possible_key_at v i = Some k /\ index_in_possible_keys v k = Some i.
Proof.
  intros ND Hn Hi. destruct (key_to_index v n i Hn Hi) as [k [i' [P [I [_ [_ Q]]]]]].
  exists k. rewrite (Q ND) in I. auto.
Qed.

Theorem variants_row_major_inv (v : variants) (n i : N) (k : list bytes) :
  num_possible_keys v = Ok n -> index_in_possible_keys v k = Some i ->
  i < n /\ possible_key_at v i = Some k.
Proof.
  intros Hn I. apply npk_spec in Hn. destruct Hn as [E _]. subst n.
  destruct (index_to_key v k i I) as [H1 [H2 _]]. auto.
Qed.

(* row-major: the last axis varies fastest *)
Theorem row_major_step (v : variants) (vals : list bytes) (k : list bytes) (x : bytes) (i j : N) :
  List.length k = List.length v ->
  index_in_possible_keys v k = Some i -> index_of x (tl vals) 0 = Some j ->
  index_in_possible_keys (v ++ [vals]) (k ++ [x]) = Some (i * lenN (tl vals) + j).
Proof.
  unfold index_in_possible_keys. intros L I J. rewrite iipk_from_app by exact L.
  rewrite I. cbn [index_in_possible_keys_from]. rewrite J. reflexivity.
Qed.

(* ======================= entriesInPossibleKeyOrder ============================== *)
Lemma plsl_ok_or_err (s : bytes) :
  parse_list_of_string_lists s = Err \/ exists l, parse_list_of_string_lists s = Ok l.
Proof.
  unfold parse_list_of_string_lists.
  destruct (WP.Proofs.SHRoundtrip.parse_lol_no_panic_no_fuel s) as [NP NF].
  destruct (parse_list_of_lists s) as [ll| | |]; cbn [bind]; try contradiction; [|left; reflexivity].
  destruct (lists_to_strings ll); cbn [of_opt]; [right; eauto|left; reflexivity].
Qed.

Lemma plsl_nonempty (s : bytes) (l : list (list bytes)) :
  parse_list_of_string_lists s = Ok l -> l <> [].
Proof.
  unfold parse_list_of_string_lists. intros H. apply bindR_ok in H. destruct H as [ll [P H]].
  apply of_opt_ok in H. apply WP.Proofs.SHRoundtrip.parse_lol_valid in P. destruct P as [Hne _].
  destruct ll as [|x t]; [contradiction|]. cbn [lists_to_strings] in H.
  destruct (items_to_strings x); [|discriminate]. destruct (lists_to_strings t); [|discriminate].
  inversion H. discriminate.
Qed.

Section Order.
  Context {A : Type}.
  Notation ventry := (@ventry A).

  (* ---- set_nth ---- *)
  Lemma set_nth_spec (l : list (option A)) : forall i x l',
    set_nth l i x = Some l' ->
    nth_error l i = Some None /\ List.length l' = List.length l /\
    nth_error l' i = Some (Some x) /\ (forall j, j <> i -> nth_error l' j = nth_error l j).
  Proof.
    induction l as [|h t IH]; intros i x l' H; [destruct i; discriminate|].
    destruct i as [|i].
    - destruct h; cbn [set_nth] in H; [discriminate|]. inversion H; subst.
      cbn [nth_error List.length]. repeat split. intros [|j] Hj; [contradiction|reflexivity].
    - assert (H' : match set_nth t i x with Some t' => Some (h :: t') | None => None end = Some l')
        by (destruct h; exact H).
      destruct (set_nth t i x) as [t'|] eqn:E; [|discriminate]. inversion H'; subst.
      destruct (IH _ _ _ E) as [H1 [H2 [H3 H4]]]. cbn [nth_error List.length].
      split; [exact H1|]. split; [lia|]. split; [exact H3|].
      intros [|j] Hj; [reflexivity|]. cbn [nth_error]. apply H4. lia.
  Qed.

  Lemma set_nth_total (l : list (option A)) : forall i x,
    nth_error l i = Some None -> exists l', set_nth l i x = Some l'.
  Proof.
    induction l as [|h t IH]; intros i x H; [destruct i; discriminate|].
    destruct i as [|i]; cbn [nth_error] in H.
    - inversion H; subst. cbn. eauto.
    - destruct (IH _ x H) as [t' E]. exists (h :: t'). destruct h; cbn [set_nth]; rewrite E; reflexivity.
  Qed.

  (* ---- all placements of a set of entries, in the order the loops make them ---- *)
  Fixpoint key_indices (v : variants) (vks : list (list bytes)) : option (list N) :=
    match vks with
    | [] => Some []
    | vk :: t =>
        match index_in_possible_keys v vk, key_indices v t with
        | Some i, Some r => Some (i :: r)
        | _, _ => None
        end
    end.

  Fixpoint placements (v : variants) (es : list ventry) : option (list (N * A)) :=
    match es with
    | [] => Some []
    | (_, vk, x) :: t =>
        match parse_list_of_string_lists vk with
        | Ok vks =>
            match key_indices v vks, placements v t with
            | Some idxs, Some r => Some (map (fun i => (i, x)) idxs ++ r)
            | _, _ => None
            end
        | _ => None
        end
    end.

  Fixpoint place_all (pl : list (N * A)) (res : list (option A)) : option (list (option A)) :=
    match pl with
    | [] => Some res
    | (i, x) :: t =>
        match set_nth res (N.to_nat i) x with
        | Some r => place_all t r
        | None => None
        end
    end.

  Lemma place_all_app (a b : list (N * A)) (res : list (option A)) :
    place_all (a ++ b) res =
    match place_all a res with Some r => place_all b r | None => None end.
  Proof.
    revert res. induction a as [|[i x] a IH]; intros res; cbn [app place_all]; [reflexivity|].
    destruct (set_nth res (N.to_nat i) x); [apply IH|reflexivity].
  Qed.

  Lemma place_keys_spec (v : variants) (x : A) (vks : list (list bytes)) : forall res res',
    place_keys v vks x res = Ok res' ->
    exists idxs, key_indices v vks = Some idxs /\
                 place_all (map (fun i => (i, x)) idxs) res = Some res'.
  Proof.
    induction vks as [|vk t IH]; intros res res' H; cbn [place_keys key_indices] in *.
    - inversion H; subst. exists []. split; reflexivity.
    - destruct (index_in_possible_keys v vk) as [i|]; [|discriminate].
      destruct (set_nth res (N.to_nat i) x) as [r|] eqn:E; [|discriminate].
      destruct (IH _ _ H) as [idxs [K P]]. rewrite K. exists (i :: idxs).
      split; [reflexivity|]. cbn [map place_all]. rewrite E. exact P.
  Qed.

  Lemma place_keys_complete (v : variants) (x : A) (vks : list (list bytes)) : forall idxs res res',
    key_indices v vks = Some idxs ->
    place_all (map (fun i => (i, x)) idxs) res = Some res' ->
    place_keys v vks x res = Ok res'.
  Proof.
    induction vks as [|vk t IH]; intros idxs res res' K P; cbn [place_keys key_indices] in *.
    - inversion K; subst. cbn in P. inversion P; reflexivity.
    - destruct (index_in_possible_keys v vk) as [i|]; [|discriminate].
      destruct (key_indices v t) as [r|]; [|discriminate]. inversion K; subst.
      cbn [map place_all] in P. destruct (set_nth res (N.to_nat i) x); [|discriminate].
      eapply IH; [reflexivity|exact P].
  Qed.

  Lemma place_entries_spec (v : variants) (v0 : bytes) (es : list ventry) : forall res res',
    place_entries v v0 es res = Ok res' ->
    Forall (fun e => fst (fst e) = v0) es /\
    exists pl, placements v es = Some pl /\ place_all pl res = Some res'.
  Proof.
    induction es as [|[[vv vk] x] t IH]; intros res res' H; cbn [place_entries placements] in *.
    - inversion H; subst. split; [constructor|]. exists []. split; reflexivity.
    - destruct (bytes_eqb vv v0) eqn:E; cbn [negb] in H; [|discriminate].
      apply bytes_eqb_eq in E. subst vv.
      apply bindR_ok in H. destruct H as [vks [Pk H]].
      apply bindR_ok in H. destruct H as [r1 [P1 H]].
      destruct (IH _ _ H) as [F [pl [Pl Pa]]].
      split; [constructor; [reflexivity|exact F]|].
      destruct (place_keys_spec _ _ _ _ _ P1) as [idxs [K P]].
      rewrite Pk, K, Pl. eexists. split; [reflexivity|].
      rewrite place_all_app, P. exact Pa.
  Qed.

  Lemma place_entries_complete (v : variants) (v0 : bytes) (es : list ventry) : forall pl res res',
    Forall (fun e => fst (fst e) = v0) es ->
    placements v es = Some pl -> place_all pl res = Some res' ->
    place_entries v v0 es res = Ok res'.
  Proof.
    induction es as [|[[vv vk] x] t IH]; intros pl res res' F Pl Pa; cbn [place_entries placements] in *.
    - inversion Pl; subst. cbn in Pa. inversion Pa; reflexivity.
    - inversion F as [|? ? Fv Ft]; subst. cbn [fst] in *. rewrite bytes_eqb_refl. cbn [negb].
      destruct (parse_list_of_string_lists vk) as [vks| | |]; try discriminate.
      destruct (key_indices v vks) as [idxs|] eqn:K; [|discriminate].
      destruct (placements v t) as [r|] eqn:Pt; [|discriminate]. inversion Pl; subst pl.
      rewrite place_all_app in Pa.
      destruct (place_all (map (fun i => (i, x)) idxs) res) as [r1|] eqn:P1; [|discriminate].
      cbn [bind]. rewrite (place_keys_complete _ _ _ _ _ _ K P1). cbn [bind].
      eapply IH; [exact Ft|reflexivity|exact Pa].
  Qed.

  (* what a successful sequence of placements means *)
  Lemma place_all_spec (pl : list (N * A)) : forall res res',
    place_all pl res = Some res' ->
    NoDup (map fst pl) /\
    (forall i x, In (i, x) pl -> nth_error res (N.to_nat i) = Some None) /\
    List.length res' = List.length res /\
    (forall i x, In (i, x) pl -> nth_error res' (N.to_nat i) = Some (Some x)) /\
    (forall j, ~ In (N.of_nat j) (map fst pl) -> nth_error res' j = nth_error res j).
  Proof.
    induction pl as [|[i x] t IH]; intros res res' H; cbn [place_all] in H.
    - inversion H; subst. split; [constructor|]. repeat split; intros; try contradiction; reflexivity.
    - destruct (set_nth res (N.to_nat i) x) as [r|] eqn:E; [|discriminate].
      destruct (set_nth_spec _ _ _ _ E) as [S1 [S2 [S3 S4]]].
      destruct (IH _ _ H) as [N1 [N2 [N3 [N4 N5]]]]. cbn [map fst].
      assert (Hni : ~ In i (map fst t)).
      { intros Hin. apply in_map_iff in Hin. destruct Hin as [[i' y] [Ei Hy]]. cbn [fst] in Ei.
        subst i'. specialize (N2 _ _ Hy). rewrite S3 in N2. discriminate. }
      split; [constructor; assumption|]. split.
      { intros i' y [Hy|Hy]; [inversion Hy; subst; exact S1|].
        specialize (N2 _ _ Hy). rewrite S4 in N2; [exact N2|].
        intros Heq. apply Hni. apply in_map_iff. exists (i', y). split; [cbn; lia|exact Hy]. }
      split; [lia|]. split.
      { intros i' y [Hy|Hy]; [|apply N4; exact Hy]. inversion Hy; subst i' y.
        rewrite N5; [exact S3|]. rewrite N2Nat.id. exact Hni. }
      intros j Hj. cbn [In] in Hj. rewrite N5 by tauto. apply S4. lia.
  Qed.

  Lemma place_all_total (pl : list (N * A)) : forall res,
    NoDup (map fst pl) ->
    (forall i x, In (i, x) pl -> nth_error res (N.to_nat i) = Some None) ->
    exists res', place_all pl res = Some res'.
  Proof.
    induction pl as [|[i x] t IH]; intros res ND Hn; cbn [place_all]; [eauto|].
    destruct (set_nth_total res (N.to_nat i) x (Hn i x (or_introl eq_refl))) as [r E]. rewrite E.
    destruct (set_nth_spec _ _ _ _ E) as [S1 [S2 [S3 S4]]].
    inversion ND as [|? ? Hni ND']; subst. apply IH; [exact ND'|].
    intros i' y Hy. rewrite S4; [apply (Hn i' y); right; exact Hy|].
    intros Heq. apply Hni. apply in_map_iff. exists (i', y). split; [cbn; lia|exact Hy].
  Qed.

  Lemma all_some_spec (l : list (option A)) : forall r,
    all_some l = Some r -> l = map Some r.
  Proof.
    induction l as [|[a|] t IH]; intros r H; cbn [all_some] in H; try discriminate.
    - inversion H; reflexivity.
    - destruct (all_some t) as [r'|]; [|discriminate]. inversion H; subst.
      cbn [map]. f_equal. apply IH. reflexivity.
  Qed.

  Lemma all_some_complete (l : list (option A)) :
    (forall j, (j < List.length l)%nat -> exists x, nth_error l j = Some (Some x)) ->
    exists r, all_some l = Some r.
  Proof.
    induction l as [|h t IH]; intros H; [exists []; reflexivity|].
    destruct (H 0%nat) as [x Hx]; [cbn; lia|]. cbn in Hx. inversion Hx; subst h.
    destruct IH as [r Hr].
    { intros j Hj. apply (H (S j)). cbn [List.length]. lia. }
    exists (x :: r). cbn [all_some]. rewrite Hr. reflexivity.
  Qed.

  Lemma nth_error_repeat_None (n j : nat) :
    nth_error (repeat (@None A) n) j = if (j <? n)%nat then Some None else None.
  Proof.
    revert j. induction n as [|n IH]; intros [|j]; cbn [repeat nth_error]; try reflexivity.
    rewrite IH. reflexivity.
  Qed.

  (* the declarative content of entriesInPossibleKeyOrder *)
  Definition Covers (v : variants) (n : N) (es : list ventry) (l : list A) : Prop :=
    exists pl,
      placements v es = Some pl /\
      NoDup (map fst pl) /\                         (* no two keys share an index *)
      (forall i, In i (map fst pl) <-> i < n) /\    (* every index is covered     *)
      lenN l = n /\
      (forall i x, nth_error l (N.to_nat i) = Some x <-> In (i, x) pl).

  Theorem entries_order_spec (es : list ventry) (l : list A) :
    entries_in_possible_key_order es = Ok l ->
    exists v0 vk0 x0 t v n,
      es = (v0, vk0, x0) :: t /\ v0 <> [] /\
      Forall (fun e => fst (fst e) = v0) es /\      (* one Variants value for all *)
      parse_list_of_string_lists v0 = Ok v /\ num_possible_keys v = Ok n /\
      Covers v n es l.
  Proof.
    unfold entries_in_possible_key_order. intros H.
    destruct es as [|[[v0 vk0] x0] t]; [discriminate|].
    destruct v0 as [|c0 v0']; [discriminate|]. set (v0 := c0 :: v0') in *.
    apply bindR_ok in H. destruct H as [v [Pv H]].
    apply bindR_ok in H. destruct H as [n [Pn H]].
    apply bindR_ok in H. destruct H as [res [Pr H]].
    apply of_opt_ok in H. apply all_some_spec in H.
    destruct (place_entries_spec _ _ _ _ _ Pr) as [F [pl [Pl Pa]]].
    destruct (place_all_spec _ _ _ Pa) as [N1 [N2 [N3 [N4 N5]]]].
    rewrite repeat_length in N3.
    exists v0, vk0, x0, t, v, n. split; [reflexivity|]. split; [discriminate|].
    split; [exact F|]. split; [exact Pv|]. split; [exact Pn|].
    assert (Ll : List.length l = N.to_nat n) by (rewrite <- N3, H, map_length; reflexivity).
    exists pl. split; [exact Pl|]. split; [exact N1|]. split.
    { intros i. split.
      - intros Hin. apply in_map_iff in Hin. destruct Hin as [[i' y] [Ei Hy]]. cbn in Ei. subst i'.
        specialize (N2 _ _ Hy). rewrite nth_error_repeat_None in N2.
        destruct (N.to_nat i <? N.to_nat n)%nat eqn:Lt; [lia|discriminate].
      - intros Hi. destruct (in_dec N.eq_dec i (map fst pl)) as [Y|Nn]; [exact Y|exfalso].
        specialize (N5 (N.to_nat i)). rewrite N2Nat.id in N5. specialize (N5 Nn).
        rewrite nth_error_repeat_None in N5. replace (N.to_nat i <? N.to_nat n)%nat with true in N5 by lia.
        rewrite H, nth_error_map in N5. destruct (nth_error l (N.to_nat i)); discriminate. }
    split; [rewrite lenN_length; lia|].
    intros i x. split.
    - intros Hx.
      assert (Hi : i < n).
      { assert (nth_error l (N.to_nat i) <> None) by congruence. apply nth_error_Some in H0. lia. }
      destruct (in_dec N.eq_dec i (map fst pl)) as [Y|Nn].
      + apply in_map_iff in Y. destruct Y as [[i' y] [Ei Hy]]. cbn in Ei. subst i'.
        pose proof (N4 _ _ Hy) as Hy'. rewrite H, nth_error_map, Hx in Hy'. inversion Hy'; subst. exact Hy.
      + exfalso. specialize (N5 (N.to_nat i)). rewrite N2Nat.id in N5. specialize (N5 Nn).
        rewrite nth_error_repeat_None in N5. replace (N.to_nat i <? N.to_nat n)%nat with true in N5 by lia.
        rewrite H, nth_error_map, Hx in N5. discriminate.
    - intros Hy. pose proof (N4 _ _ Hy) as Hy'. rewrite H, nth_error_map in Hy'.
      destruct (nth_error l (N.to_nat i)); inversion Hy'; reflexivity.
  Qed.

  (* and conversely: complete, non-overlapping coverage is accepted *)
  Theorem entries_order_complete (v0 vk0 : bytes) (x0 : A) (t : list ventry) (v : variants) (n : N)
          (pl : list (N * A)) :
    let es := (v0, vk0, x0) :: t in
    v0 <> [] -> Forall (fun e => fst (fst e) = v0) es ->
    parse_list_of_string_lists v0 = Ok v -> num_possible_keys v = Ok n ->
    placements v es = Some pl -> NoDup (map fst pl) ->
    (forall i, In i (map fst pl) <-> i < n) ->
    exists l, entries_in_possible_key_order es = Ok l.
  Proof.
    intros es Hv0 F Pv Pn Pl ND Cov. subst es.
    assert (Hres : exists res, place_all pl (repeat None (N.to_nat n)) = Some res).
    { apply place_all_total; [exact ND|]. intros i x Hx. rewrite nth_error_repeat_None.
      assert (Hi : i < n) by (apply Cov; apply in_map_iff; exists (i, x); auto).
      replace (N.to_nat i <? N.to_nat n)%nat with true by lia. reflexivity. }
    destruct Hres as [res Pa].
    destruct (place_all_spec _ _ _ Pa) as [_ [_ [N3 [N4 _]]]]. rewrite repeat_length in N3.
    assert (Hl : exists l, all_some res = Some l).
    { apply all_some_complete. intros j Hj.
      assert (Hin : In (N.of_nat j) (map fst pl)) by (apply Cov; lia).
      apply in_map_iff in Hin. destruct Hin as [[i x] [Ei Hx]]. cbn in Ei. subst i.
      exists x. specialize (N4 _ _ Hx). rewrite Nat2N.id in N4. exact N4. }
    destruct Hl as [l Hl]. exists l.
    unfold entries_in_possible_key_order. destruct v0 as [|c0 v0']; [contradiction|].
    rewrite Pv. cbn [bind]. rewrite Pn. cbn [bind].
    rewrite (place_entries_complete _ _ _ _ _ _ F Pl Pa). cbn [bind]. rewrite Hl. reflexivity.
  Qed.

  (* nothing but Ok and Err comes out for a non-empty set *)
  Lemma place_keys_ok_or_err v vks (x : A) res :
    place_keys v vks x res = Err \/ exists r, place_keys v vks x res = Ok r.
  Proof.
    revert res. induction vks as [|vk t IH]; intros res; cbn [place_keys]; [right; eauto|].
    destruct (index_in_possible_keys v vk); [|left; reflexivity].
    destruct (set_nth res (N.to_nat n) x); [apply IH|left; reflexivity].
  Qed.

  Lemma place_entries_ok_or_err v v0 (es : list ventry) res :
    place_entries v v0 es res = Err \/ exists r, place_entries v v0 es res = Ok r.
  Proof.
    revert res. induction es as [|[[vv vk] x] t IH]; intros res; cbn [place_entries]; [right; eauto|].
    destruct (negb (bytes_eqb vv v0)); [left; reflexivity|].
    destruct (plsl_ok_or_err vk) as [E|[vks E]]; rewrite E; cbn [bind]; [left; reflexivity|].
    destruct (place_keys_ok_or_err v vks x res) as [E1|[r E1]]; rewrite E1; cbn [bind];
      [left; reflexivity|apply IH].
  Qed.

  Lemma eipko_ok_or_err (es : list ventry) :
    es <> [] ->
    entries_in_possible_key_order es = Err \/ exists l, entries_in_possible_key_order es = Ok l.
  Proof.
    intros Hne. unfold entries_in_possible_key_order. destruct es as [|[[v0 vk0] x0] t]; [contradiction|].
    destruct v0 as [|c0 v0']; [left; reflexivity|].
    destruct (plsl_ok_or_err (c0 :: v0')) as [E|[v E]]; rewrite E; cbn [bind]; [left; reflexivity|].
    destruct (num_possible_keys v) as [n| | |] eqn:En; cbn [bind]; try (left; reflexivity).
    - match goal with
      | |- context [place_entries ?a ?b ?c ?d] =>
          destruct (place_entries_ok_or_err a b c d) as [E1|[r E1]]; rewrite E1; cbn [bind];
            [left; reflexivity|]
      end.
      destruct (all_some r); cbn [of_opt]; [right; eauto|left; reflexivity].
    - exfalso. clear -En. unfold num_possible_keys in En. revert En. generalize 1.
      induction v as [|vals t IH]; intros m En; cbn [num_possible_keys_from] in En; [discriminate|].
      destruct vals as [|? [|? ?]]; try discriminate.
      destruct (max_variants <? _); [discriminate|]. eapply IH. exact En.
    - exfalso. clear -En. unfold num_possible_keys in En. revert En. generalize 1.
      induction v as [|vals t IH]; intros m En; cbn [num_possible_keys_from] in En; [discriminate|].
      destruct vals as [|? [|? ?]]; try discriminate.
      destruct (max_variants <? _); [discriminate|]. eapply IH. exact En.
  Qed.

  (* two Variant-Keys (of the same or of different entries) with the same index:
     refused *)
  Theorem overlap_refused (es : list ventry) (v : variants) (v0 : bytes) (pl : list (N * A)) :
    hd_error (map (fun e => fst (fst e)) es) = Some v0 ->
    parse_list_of_string_lists v0 = Ok v ->
    placements v es = Some pl -> ~ NoDup (map fst pl) ->
    entries_in_possible_key_order es = Err.
  Proof.
    intros Hd Pv Pl ND.
    assert (Hne : es <> []) by (destruct es; [discriminate|discriminate]).
    destruct (eipko_ok_or_err es Hne) as [E|[l E]]; [exact E|exfalso].
    destruct (entries_order_spec _ _ E) as [v0' [vk0 [x0 [t [v' [n [Ees [_ [_ [Pv' [_ [pl' C]]]]]]]]]]]].
    subst es. cbn in Hd. inversion Hd; subst v0'. rewrite Pv in Pv'. inversion Pv'; subst v'.
    destruct C as [Pl' [ND' _]]. rewrite Pl in Pl'. inversion Pl'; subst pl'. contradiction.
  Qed.

  (* some possible key has no entry: refused *)
  Theorem incomplete_refused (es : list ventry) (v : variants) (v0 : bytes) (n i : N)
          (pl : list (N * A)) :
    hd_error (map (fun e => fst (fst e)) es) = Some v0 ->
    parse_list_of_string_lists v0 = Ok v -> num_possible_keys v = Ok n ->
    placements v es = Some pl -> i < n -> ~ In i (map fst pl) ->
    entries_in_possible_key_order es = Err.
  Proof.
    intros Hd Pv Pn Pl Hi Nin.
    assert (Hne : es <> []) by (destruct es; [discriminate|discriminate]).
    destruct (eipko_ok_or_err es Hne) as [E|[l E]]; [exact E|exfalso].
    destruct (entries_order_spec _ _ E) as [v0' [vk0 [x0 [t [v' [n' [Ees [_ [_ [Pv' [Pn' [pl' C]]]]]]]]]]]].
    subst es. cbn in Hd. inversion Hd; subst v0'. rewrite Pv in Pv'. inversion Pv'; subst v'.
    rewrite Pn in Pn'. inversion Pn'; subst n'.
    destruct C as [Pl' [_ [Cov _]]]. rewrite Pl in Pl'. inversion Pl'; subst pl'.
    apply Nin. apply Cov. exact Hi.
  Qed.

  (* a Variant-Key that is not a possible key, an unparsable Variant-Key, or a
     different Variants value on some entry: refused *)
  Theorem uncovered_refused (es : list ventry) (v : variants) (v0 : bytes) :
    hd_error (map (fun e => fst (fst e)) es) = Some v0 ->
    parse_list_of_string_lists v0 = Ok v ->
    (placements v es = None \/ ~ Forall (fun e => fst (fst e) = v0) es) ->
    entries_in_possible_key_order es = Err.
  Proof.
    intros Hd Pv Bad.
    assert (Hne : es <> []) by (destruct es; [discriminate|discriminate]).
    destruct (eipko_ok_or_err es Hne) as [E|[l E]]; [exact E|exfalso].
    destruct (entries_order_spec _ _ E) as [v0' [vk0 [x0 [t [v' [n' [Ees [_ [F [Pv' [_ [pl' C]]]]]]]]]]]].
    subst es. cbn in Hd. inversion Hd; subst v0'. rewrite Pv in Pv'. inversion Pv'; subst v'.
    destruct C as [Pl' _]. destruct Bad as [B|B]; [congruence|contradiction].
  Qed.

  (* the part the bundle writer's well-formedness proof needs *)
  Corollary entries_order_members (es : list ventry) (l : list A) :
    entries_in_possible_key_order es = Ok l ->
    l <> [] /\ Forall (fun x => exists vv vk, In (vv, vk, x) es) l.
  Proof.
    intros H. destruct (entries_order_spec _ _ H) as [v0 [vk0 [x0 [t [v [n [Ees [_ [_ [_ [Pn C]]]]]]]]]]].
    destruct C as [pl [Pl [_ [_ [Ln Nth]]]]].
    apply npk_spec in Pn. destruct Pn as [_ [_ [Pn _]]].
    split; [intros ->; cbn in Ln; lia|].
    assert (Mem : forall i x, In (i, x) pl -> exists vv vk, In (vv, vk, x) es).
    { clear -Pl. revert pl Pl. induction es as [|[[vv vk] y] t' IH]; intros pl Pl i x Hin;
        cbn [placements] in Pl.
      - inversion Pl; subst. contradiction.
      - destruct (parse_list_of_string_lists vk) as [vks| | |]; try discriminate.
        destruct (key_indices v vks) as [idxs|]; [|discriminate].
        destruct (placements v t') as [r|]; [|discriminate]. inversion Pl; subst pl.
        apply in_app_or in Hin. destruct Hin as [Hin|Hin].
        + apply in_map_iff in Hin. destruct Hin as [j [Ej _]]. inversion Ej; subst.
          exists vv, vk. left. reflexivity.
        + destruct (IH _ eq_refl _ _ Hin) as [vv' [vk' H']]. exists vv', vk'. right. exact H'. }
    apply Forall_forall. intros x Hx. apply In_nth_error in Hx. destruct Hx as [j Hj].
    rewrite <- (Nat2N.id j) in Hj. apply Nth in Hj. eapply Mem. exact Hj.
  Qed.
  (* every entry carries at least one Variant-Key, so every entry shows up *)
  Lemma placements_cover (v : variants) (es : list ventry) : forall pl,
    placements v es = Some pl ->
    forall vv vk x, In (vv, vk, x) es -> exists i, In (i, x) pl.
  Proof.
    induction es as [|[[vv0 vk0] x0] t IH]; intros pl Pl vv vk x Hin; [contradiction|].
    cbn [placements] in Pl.
    destruct (parse_list_of_string_lists vk0) as [vks| | |] eqn:Pk; try discriminate.
    destruct (key_indices v vks) as [idxs|] eqn:K; [|discriminate].
    destruct (placements v t) as [r|] eqn:Pt; [|discriminate]. inversion Pl; subst pl.
    destruct Hin as [Hin|Hin].
    - inversion Hin; subst. apply plsl_nonempty in Pk.
      destruct vks as [|vk1 vks']; [contradiction|]. cbn [key_indices] in K.
      destruct (index_in_possible_keys v vk1) as [i|]; [|discriminate].
      destruct (key_indices v vks'); [|discriminate]. inversion K; subst.
      exists i. cbn [map app]. left. reflexivity.
    - destruct (IH _ eq_refl _ _ _ Hin) as [i Hi]. exists i. apply in_or_app. right. exact Hi.
  Qed.

  Corollary entries_order_all_placed (es : list ventry) (l : list A) :
    entries_in_possible_key_order es = Ok l ->
    forall vv vk x, In (vv, vk, x) es -> In x l.
  Proof.
    intros H vv vk x Hin.
    destruct (entries_order_spec _ _ H) as [v0 [vk0 [x0 [t [v [n [_ [_ [_ [_ [_ C]]]]]]]]]]].
    destruct C as [pl [Pl [_ [_ [_ Nth]]]]].
    destruct (placements_cover _ _ _ Pl _ _ _ Hin) as [i Hi].
    apply Nth in Hi. eapply nth_error_In. exact Hi.
  Qed.
  (* ---- entries with exactly one Variant-Key each: the result is a rearrangement -------- *)
  Definition single_keyed (es : list ventry) : Prop :=
    Forall (fun e => exists k, parse_list_of_string_lists (snd (fst e)) = Ok [k]) es.

  Lemma placements_single (v : variants) (es : list ventry) : forall pl,
    single_keyed es -> placements v es = Some pl -> map snd pl = map snd es.
  Proof.
    induction es as [|[[vv vk] x] t IH]; intros pl S Pl; cbn [placements] in Pl.
    - inversion Pl; reflexivity.
    - apply Forall_cons_iff in S. destruct S as [[k Pk] S]. cbn [fst snd] in Pk. rewrite Pk in Pl.
      cbn [key_indices] in Pl. destruct (index_in_possible_keys v k) as [i|]; [|discriminate].
      destruct (placements v t) as [r|] eqn:Pt; [|discriminate]. inversion Pl; subst pl.
      cbn [map app snd]. f_equal. apply IH; [exact S|reflexivity].
  Qed.

  Definition indexed (l : list A) : list (N * A) := combine (map N.of_nat (seq 0 (List.length l))) l.

  Lemma indexed_in (l : list A) (i : N) (x : A) :
    In (i, x) (indexed l) <-> nth_error l (N.to_nat i) = Some x.
  Proof.
    unfold indexed.
    assert (G : forall s, In (i, x) (combine (map N.of_nat (seq s (List.length l))) l)
                          <-> (s <= N.to_nat i)%nat /\ nth_error l (N.to_nat i - s) = Some x).
    { induction l as [|y t IH]; intros s; cbn [List.length seq map combine In].
      - split; [contradiction|]. intros [_ H]. destruct (N.to_nat i - s)%nat; discriminate.
      - rewrite IH. split.
        + intros [E|[H1 H2]].
          * inversion E; subst. rewrite Nat2N.id, Nat.sub_diag. split; [lia|reflexivity].
          * split; [lia|]. replace (N.to_nat i - s)%nat with (S (N.to_nat i - S s)) by lia. exact H2.
        + intros [H1 H2]. destruct (Nat.eq_dec (N.to_nat i) s) as [E|NE].
          * left. rewrite E, Nat.sub_diag in H2. cbn in H2. inversion H2. f_equal. lia.
          * right. split; [lia|]. replace (N.to_nat i - s)%nat with (S (N.to_nat i - S s)) in H2 by lia.
            exact H2. }
    rewrite G. rewrite Nat.sub_0_r. split; [intros [_ H]; exact H|intros H; split; [lia|exact H]].
  Qed.

  Lemma indexed_snd (l : list A) : map snd (indexed l) = l.
  Proof.
    unfold indexed. generalize 0%nat. induction l as [|y t IH]; intros s; [reflexivity|].
    cbn [List.length seq map combine snd]. rewrite IH. reflexivity.
  Qed.

  Lemma indexed_fst_nodup (l : list A) : NoDup (map fst (indexed l)).
  Proof.
    unfold indexed. assert (E : map fst (combine (map N.of_nat (seq 0 (List.length l))) l)
                                = map N.of_nat (seq 0 (List.length l))).
    { generalize 0%nat. induction l as [|y t IH]; intros s; [reflexivity|].
      cbn [List.length seq map combine fst]. rewrite IH. reflexivity. }
    rewrite E. apply FinFun.Injective_map_NoDup; [intros a c H; lia|apply seq_NoDup].
  Qed.

  Lemma NoDup_of_fst {B} (l : list (N * B)) : NoDup (map fst l) -> NoDup l.
  Proof.
    induction l as [|p t IH]; cbn [map]; intros H; [constructor|].
    apply NoDup_cons_iff in H. destruct H as [H1 H2]. constructor; [|apply IH; exact H2].
    intros Hin. apply H1. apply in_map. exact Hin.
  Qed.

  Theorem entries_order_perm (es : list ventry) (l : list A) :
    entries_in_possible_key_order es = Ok l -> single_keyed es -> Permutation l (map snd es).
  Proof.
    intros H S. destruct (entries_order_spec _ _ H) as [v0 [vk0 [x0 [t [v [n [_ [_ [_ [_ [_ C]]]]]]]]]]].
    destruct C as [pl [Pl [ND [_ [_ Nth]]]]].
    rewrite <- (placements_single v es pl S Pl), <- (indexed_snd l) at 1.
    apply Permutation_map. apply NoDup_Permutation.
    - apply NoDup_of_fst, indexed_fst_nodup.
    - apply NoDup_of_fst. exact ND.
    - intros [i x]. rewrite indexed_in. apply Nth.
  Qed.
End Order.

(* ---- examples ------------------------------------------------------------------ *)
(* Variants: Accept-Language;en;fr, Accept-Encoding;gzip;br *)
Definition ex_v : variants :=
  [[s2b "Accept-Language"; s2b "en"; s2b "fr"]; [s2b "Accept-Encoding"; s2b "gzip"; s2b "br"]].

Example ex_row_major :
  num_possible_keys ex_v = Ok 4 /\
  map (possible_key_at ex_v) [0; 1; 2; 3; 4] =
    [Some [s2b "en"; s2b "gzip"]; Some [s2b "en"; s2b "br"];
     Some [s2b "fr"; s2b "gzip"]; Some [s2b "fr"; s2b "br"]; None] /\
  map (index_in_possible_keys ex_v)
      [[s2b "en"; s2b "gzip"]; [s2b "en"; s2b "br"]; [s2b "fr"; s2b "gzip"]; [s2b "fr"; s2b "br"];
       [s2b "de"; s2b "br"]; [s2b "en"]]
    = [Some 0; Some 1; Some 2; Some 3; None; None].
Proof. vm_compute. repeat split. Qed.

Example ex_axis_nodup : Forall axis_nodup ex_v.
Proof. repeat constructor; cbn; intuition discriminate. Qed.

(* with a value listed twice, the second occurrence is never found *)
Definition ex_dup : variants := [[s2b "A"; s2b "x"; s2b "x"; s2b "y"]].
Example ex_dup_first :
  possible_key_at ex_dup 1 = Some [s2b "x"] /\ index_in_possible_keys ex_dup [s2b "x"] = Some 0.
Proof. vm_compute. split; reflexivity. Qed.

(* a 2x2 grid supplied in shuffled order comes out row-major; a multi-key entry
   appears once per key *)
Definition ex_vv : bytes := s2b "Accept-Language;en;fr, Accept-Encoding;gzip;br".
Example ex_order :
  entries_in_possible_key_order
    [(ex_vv, s2b "fr;br", 30); (ex_vv, s2b "en;gzip", 10); (ex_vv, s2b "fr;gzip", 20); (ex_vv, s2b "en;br", 11)]
  = Ok [10; 11; 20; 30] /\
  entries_in_possible_key_order [(ex_vv, s2b "en;gzip, fr;gzip", 1); (ex_vv, s2b "fr;br", 3); (ex_vv, s2b "en;br", 2)]
  = Ok [1; 2; 1; 3].
Proof. vm_compute. split; reflexivity. Qed.

Example ex_refused :
  (* incomplete *)
  entries_in_possible_key_order [(ex_vv, s2b "fr;br", 30); (ex_vv, s2b "en;gzip", 10); (ex_vv, s2b "fr;gzip", 20)] = Err /\
  (* overlapping *)
  entries_in_possible_key_order
    [(ex_vv, s2b "fr;br", 30); (ex_vv, s2b "en;gzip", 10); (ex_vv, s2b "fr;gzip", 20); (ex_vv, s2b "en;br", 11);
     (ex_vv, s2b "en;br", 12)] = Err /\
  (* not a possible key *)
  entries_in_possible_key_order [(ex_vv, s2b "de;br", 1)] = Err /\
  (* no Variants header *)
  entries_in_possible_key_order [([], s2b "en;br", 1)] = Err.
Proof. vm_compute. repeat split. Qed.
