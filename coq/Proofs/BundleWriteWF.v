(* Proofs/BundleWriteWF.v - C04: what Bundle.WriteTo emits without error is a
   well-formed bundle in the sense of Spec.Bundle.WF, and the parsed view agrees
   with the bundle that was written. *)
From Coq Require Import Lia ZifyN ZifyNat ZifyBool Permutation Sorted.
From WP Require Import Base.Prelude Base.Decimal Model.Cbor Model.Http Model.Variants
  Model.CertChain Model.Bundle.
From WP Require Import Spec.Cbor Spec.Det Spec.Bundle.
From WP Require Import Proofs.BaseLemmas Proofs.CborHead Proofs.CborMap Proofs.CborUtf8
  Proofs.Variants Proofs.BundleWriteBasics Proofs.BundleWriteSig Proofs.BundleWriteForm.
From WP Require Proofs.DetLemmas Proofs.SHRoundtrip.
Open Scope N_scope.

(* ---- when the writer succeeds --------------------------------------------------------- *)
Definition prim_ok (b : bundle) : Prop :=
  match b_ver b, b_primary b with
  | BV1, None => False
  | _, Some u => utf8_valid u = true
  | BV2, None => True
  end.
Definition man_ok (b : bundle) : Prop :=
  match b_manifest b with Some u => b_ver b = BV1 /\ utf8_valid u = true | None => True end.

(* the URL tests of the writer (checkURL): every exchange URL without fragment /
   credentials; the b2 primary URL and the manifest URL absolute as well *)
Definition url_checks (b : bundle) : Prop :=
  urls_ok b = true
  /\ (match b_ver b, b_primary b with
      | BV2, Some u => fst (abs_url_ok u) = true
      | BV1, Some u => fst (any_url_ok u) = true        (* the header primary URL parses *)
      | _, None => True end)
  /\ (match b_manifest b with Some u => fst (abs_url_ok u) = true | None => True end).

Theorem b_write_ok_iff (b : bundle) (bs : bytes) :
  b_write b = Ok bs <->
  exists ts, headers_ok b = true /\ url_checks b
             /\ index_pres (b_ver b) (groups_of (ients_of b)) = Ok ts
             /\ prim_ok b /\ man_ok b /\ bs = final_bytes (b_ver b) (parsed_of b ts).
Proof.
  rewrite b_write_eq. unfold b_write_nf, prim_ok, man_ok, url_checks. split.
  - intros H. destruct (headers_ok b); cbn [chk bind] in H; [|discriminate].
    destruct (urls_ok b); cbn [chk bind] in H; [|discriminate].
    destruct (index_pres (b_ver b) (groups_of (ients_of b))) as [ts| | |]; cbn [bind] in H; try discriminate.
    exists ts. split; [reflexivity|].
    destruct (b_ver b); destruct (b_primary b) as [pu|]; destruct (b_manifest b) as [mu|];
      try destruct (fst (any_url_ok pu)); try destruct (fst (abs_url_ok pu)); try destruct (fst (abs_url_ok mu));
      try destruct (utf8_valid pu); try destruct (utf8_valid mu); cbn [andb chk bind] in H;
      try discriminate; inversion H; repeat split; auto.
  - intros [ts [Hh [[Hu [Hpa Hma]] [Ht [Hp [Hm E]]]]]]. rewrite Hh, Hu, Ht. cbn [chk bind]. subst bs.
    destruct (b_ver b); destruct (b_primary b) as [pu|]; destruct (b_manifest b) as [mu|];
      try contradiction; try (destruct Hm as [Hv' Hm']; try discriminate);
      rewrite ?Hpa, ?Hma, ?Hp, ?Hm'; reflexivity.
Qed.

Lemma headers_ok_rsp (b : bundle) :
  headers_ok b = true -> Forall RspOK (map rsp_of (b_exchanges b)).
Proof.
  unfold headers_ok. intros H. rewrite forallb_forall in H. apply Forall_map. apply Forall_forall.
  intros x Hx. specialize (H x Hx).
  destruct (encode_response_header (bx_status x) (bx_hdr x)) as [hc| | |] eqn:E; try discriminate.
  apply erh_ok in E. destruct E as [_ S]. split; [exact S|apply rsp_fields_status].
Qed.

(* ---- the footer ---------------------------------------------------------------------------- *)
Lemma bstr8_lenN (s : bytes) : lenN s = 8 -> lenN (bstr_item s) = 9.
Proof.
  intros L. unfold bstr_item. cbn [senc_token]. rewrite lenN_app, senc_head_lenN, L. reflexivity.
Qed.

Lemma final_bytes_footer (v : bversion) (p : parsed) (bs : bytes) :
  bs = final_bytes v p -> lenN bs < two64 ->
  bs = file_body v p ++ bstr_item (sbe 8 (lenN bs)) /\ lenN bs = lenN (file_body v p) + 9.
Proof.
  unfold final_bytes. intros E L.
  assert (Ln : lenN bs = lenN (file_body v p) + 9).
  { rewrite E, lenN_app, bstr8_lenN by apply be_lenN. reflexivity. }
  split; [|exact Ln]. rewrite sbe_be, Ln. unfold w64 in E. rewrite N.mod_small in E by lia. exact E.
Qed.

(* ---- every entry of the index delimits one response item ----------------------------------- *)
Lemma ients_delimit (b : bundle) (e : ientry) :
  In e (ients_of b) -> Delimits (map rsp_of (b_exchanges b)) (loc_of e).
Proof.
  unfold ients_of. intros Hin. apply In_nth_error in Hin. destruct Hin as [i Hi].
  apply mk_ients_nth in Hi. destruct Hi as [x [Hx [_ [_ [_ [Ho Hl]]]]]].
  exists i, (rsp_of x). split; [apply map_nth_error; exact Hx|].
  unfold loc_of. cbn [fst snd]. rewrite Ho, Hl. unfold off0.
  rewrite lenN_map, firstn_map, flat_map_map. split; reflexivity.
Qed.

Lemma group_members (b : bundle) (u : bytes) (es : list ientry) (e : ientry) :
  In (u, es) (groups_of (ients_of b)) -> In e es -> In e (ients_of b) /\ ie_url e = u.
Proof.
  intros Hg He. apply groups_of_in in Hg. destruct Hg as [E _]. subst es.
  apply filter_In in He. destruct He as [H1 H2]. split; [exact H1|].
  unfold url_is in H2. apply bytes_eqb_eq in H2. auto.
Qed.

Lemma eipko_payload_in (es : list ientry) (ordered : list ientry) :
  entries_in_possible_key_order (map (fun e => (ie_variants e, ie_vkey e, e)) es) = Ok ordered ->
  ordered <> [] /\ incl ordered es /\ (exists e0 r, es = e0 :: r /\ ie_variants e0 <> []).
Proof.
  intros H. pose proof (entries_order_members _ _ H) as [Hne Hall]. split; [exact Hne|]. split.
  - intros x Hx. rewrite Forall_forall in Hall. destruct (Hall x Hx) as [vv [vk Hin]].
    apply in_map_iff in Hin. destruct Hin as [e [Ee He]]. inversion Ee; subst. exact He.
  - destruct (entries_order_spec _ _ H) as [v0 [vk0 [x0 [t [v [n [Ees [Hv0 _]]]]]]]].
    destruct es as [|e0 r]; [discriminate|]. cbn [map] in Ees. injection Ees as E1 E2 E3 E4.
    exists e0, r. split; [reflexivity|]. rewrite E1. exact Hv0.
Qed.

Lemma entry_ok_of_group (b : bundle) (u : bytes) (es : list ientry) t :
  In (u, es) (groups_of (ients_of b)) ->
  index_entry_pre (b_ver b) (u, es) = Ok t ->
  EntryOK (b_ver b) (map rsp_of (b_exchanges b)) (triple_of t).
Proof.
  intros Hg Ht. pose proof (groups_of_in _ _ _ Hg) as [_ [Hne _]].
  apply index_entry_pre_ok in Ht. destruct Ht as [Eu [U Hv]].
  unfold EntryOK, triple_of, ix_url, ix_vv, ix_locs. cbn [fst snd]. rewrite Eu.
  split; [apply utf8_dfa_correct; exact U|].
  assert (Del : forall l, incl l es -> Forall (Delimits (map rsp_of (b_exchanges b))) (map loc_of l)).
  { intros l Hl. apply Forall_map. apply Forall_forall. intros e He. apply ients_delimit.
    apply (group_members b u es e Hg). apply Hl. exact He. }
  destruct (b_ver b).
  - destruct es as [|e0 [|e1 r]]; [contradiction| |].
    + destruct Hv as [Hvv Hs]. rewrite Hs, Hvv. cbn [map lenN].
      split; [discriminate|]. split; [apply (Del [e0]); apply incl_refl|]. intros _. reflexivity.
    + destruct Hv as [Hvv Ho]. apply eipko_payload_in in Ho. destruct Ho as [Hn [Hi [e0' [r' [Ee Hv0]]]]].
      inversion Ee; subst e0' r'.
      split; [destruct (snd t); [contradiction|discriminate]|].
      split; [apply Del; exact Hi|]. intros Hvv'. rewrite Hvv in Hvv'. contradiction.
  - destruct Hv as [e [Ees [Hvv Hs]]]. rewrite Hs, Hvv. cbn [map lenN].
    split; [discriminate|]. split; [|split; reflexivity]. subst es. apply (Del [e]). apply incl_refl.
Qed.

Lemma Forall2_In_r {A B} (P : A -> B -> Prop) (Q : B -> Prop) (l : list A) (l' : list B) :
  Forall2 P l l' -> (forall a c, In a l -> P a c -> Q c) -> Forall Q l'.
Proof.
  induction 1 as [|a c l l' Hp F IH]; intros H; [constructor|].
  constructor; [apply (H a c); [left; reflexivity|exact Hp]|].
  apply IH. intros a' c' Ha' Hp'. apply (H a' c'); [right; exact Ha'|exact Hp'].
Qed.

Lemma index_entries_ok (b : bundle) (ts : list (bytes * bytes * list ientry)) :
  index_pres (b_ver b) (groups_of (ients_of b)) = Ok ts ->
  Forall (EntryOK (b_ver b) (map rsp_of (b_exchanges b))) (sorted_index ts).
Proof.
  intros Ht. apply index_pres_ok in Ht.
  assert (F : Forall (EntryOK (b_ver b) (map rsp_of (b_exchanges b))) (map triple_of ts)).
  { apply Forall_map. eapply Forall2_In_r; [exact Ht|].
    intros [u es] t Hg Hgt. eapply entry_ok_of_group; eassumption. }
  unfold sorted_index. apply Forall_forall. intros e He. rewrite Forall_forall in F. apply F.
  eapply Permutation_in; [apply isort_perm|exact He].
Qed.

Lemma sorted_index_sorted (b : bundle) (ts : list (bytes * bytes * list ientry)) :
  index_pres (b_ver b) (groups_of (ients_of b)) = Ok ts ->
  StronglySorted (fun a c => blt (index_key a) (index_key c)) (sorted_index ts).
Proof.
  intros Ht.
  assert (H : index_section (b_ver b) (ients_of b) = Ok (index_body (b_ver b) (sorted_index ts))).
  { rewrite index_section_eq, Ht. reflexivity. }
  apply index_section_ok in H. destruct H as [ts' [Ht' [_ S]]]. rewrite Ht in Ht'. inversion Ht'; subst. exact S.
Qed.

(* ---- the sections --------------------------------------------------------------------------- *)
Definition sig_u64 (b : bundle) : Prop :=
  match b_sigs b with
  | Some s => Forall (fun v => vs_authority v < two64) (sg_vouched s)
  | None => True
  end.

Lemma ascii_name_utf8 (s : bytes) : utf8_valid s = true -> Utf8Valid s.
Proof. apply utf8_dfa_correct. Qed.

Lemma section_names (b : bundle) ts :
  exists l, map fst (sections_of b ts) = n_index :: l ++ [n_responses] /\
            l = (match b_ver b, b_primary b with BV2, Some _ => [n_primary] | _, _ => [] end)
                ++ (match b_manifest b with Some _ => [n_manifest] | None => [] end)
                ++ (match b_sigs b with Some _ => [n_signatures] | None => [] end).
Proof.
  eexists. split; [|reflexivity]. unfold sections_of, prim_sec_of, man_sec_of, sig_sec_of.
  rewrite !map_app. cbn [map fst app]. f_equal. rewrite <- !app_assoc. f_equal.
  - destruct (b_ver b), (b_primary b); reflexivity.
  - f_equal; [destruct (b_manifest b); reflexivity|]. f_equal. destruct (b_sigs b); reflexivity.
Qed.

Lemma section_names_nodup (b : bundle) ts : NoDup (map fst (sections_of b ts)).
Proof.
  destruct (section_names b ts) as [l [E El]]. rewrite E, El. clear.
  destruct (b_ver b), (b_primary b), (b_manifest b), (b_sigs b); vm_compute;
    repeat constructor; cbn [In]; intuition discriminate.
Qed.

Lemma concat_in_wfb (l : list bytes) (x : bytes) : wfb (List.concat l) -> In x l -> wfb x.
Proof. intros W Hin. apply DetLemmas.wfb_concat in W. rewrite Forall_forall in W. apply W. exact Hin. Qed.

Lemma sections_ok (b : bundle) ts (bs : bytes) :
  wfb bs -> lenN bs < two64 -> sig_u64 b -> prim_ok b -> man_ok b ->
  bs = final_bytes (b_ver b) (parsed_of b ts) ->
  Forall (SectionOK (b_ver b) (parsed_of b ts)) (sections_of b ts).
Proof.
  intros W L Su Hp Hm E.
  (* the bodies are parts of the file *)
  assert (Wc : wfb (List.concat (map snd (sections_of b ts)))
               /\ lenN (List.concat (map snd (sections_of b ts))) <= lenN bs).
  { rewrite E in W |- *. unfold final_bytes, file_body in *. cbn [parsed_of p_sections] in *.
    repeat (apply DetLemmas.wfb_app in W; destruct W as [? W]).
    repeat match goal with Hx : wfb (_ ++ _) |- _ => apply DetLemmas.wfb_app in Hx; destruct Hx end.
    split; [assumption|]. rewrite !lenN_app. lia. }
  destruct Wc as [Wc Lc].
  unfold sections_of in *. rewrite !map_app, !concat_app in Wc, Lc.
  repeat match goal with Hx : wfb (_ ++ _) |- _ => apply DetLemmas.wfb_app in Hx; destruct Hx end.
  rewrite !lenN_app in Lc.
  repeat (apply Forall_app; split).
  - constructor; [|constructor]. split; [apply ascii_name_utf8; reflexivity|]. reflexivity.
  - unfold prim_sec_of, prim_ok in *. destruct (b_ver b); [constructor|].
    destruct (b_primary b) as [u|]; constructor; [|constructor].
    split; [apply ascii_name_utf8; reflexivity|]. cbn [fst snd]. 
    replace (bytes_eqb n_primary n_index) with false by reflexivity.
    replace (bytes_eqb n_primary n_responses) with false by reflexivity.
    replace (bytes_eqb n_primary n_primary) with true by reflexivity. cbn [orb].
    exists u. split; [apply utf8_dfa_correct; exact Hp|reflexivity].
  - unfold man_sec_of, man_ok in *. destruct (b_manifest b) as [u|]; constructor; [|constructor].
    split; [apply ascii_name_utf8; reflexivity|]. cbn [fst snd].
    replace (bytes_eqb n_manifest n_index) with false by reflexivity.
    replace (bytes_eqb n_manifest n_responses) with false by reflexivity.
    replace (bytes_eqb n_manifest n_primary || bytes_eqb n_manifest n_manifest) with true by reflexivity.
    exists u. split; [apply utf8_dfa_correct; apply Hm|reflexivity].
  - unfold sig_sec_of, sig_bytes_of, sig_u64 in *. destruct (b_sigs b) as [s|]; constructor; [|constructor].
    split; [apply ascii_name_utf8; reflexivity|]. cbn [fst snd].
    replace (bytes_eqb n_signatures n_index) with false by reflexivity.
    replace (bytes_eqb n_signatures n_responses) with false by reflexivity.
    replace (bytes_eqb n_signatures n_primary || bytes_eqb n_signatures n_manifest) with false by reflexivity.
    destruct (signatures_section_total s) as [sb Es]. rewrite Es in *.
    cbn [map snd List.concat] in *. rewrite app_nil_r in *.
    eapply signatures_section_det; [exact Es|assumption| |exact Su].
    rewrite !lenN_app in Lc. unfold two64 in L. lia.
  - constructor; [|constructor]. split; [apply ascii_name_utf8; reflexivity|]. cbn [fst snd].
    replace (bytes_eqb n_responses n_index) with false by reflexivity.
    replace (bytes_eqb n_responses n_responses) with true by reflexivity. reflexivity.
Qed.

(* ---- C04, main theorem -------------------------------------------------------------------------- *)
Theorem write_wf (b : bundle) (bs : bytes) :
  b_write b = Ok bs -> wfb bs -> lenN bs < two64 -> sig_u64 b ->
  exists ts, index_pres (b_ver b) (groups_of (ients_of b)) = Ok ts /\
             WF (b_ver b) bs (parsed_of b ts).
Proof.
  intros H W L Su. apply b_write_ok_iff in H. destruct H as [ts [Hh [_ [Ht [Hp [Hm E]]]]]].
  exists ts. split; [exact Ht|].
  destruct (final_bytes_footer _ _ _ E L) as [Ef _].
  split; [exact W|]. split; [exact L|]. split; [exact Ef|].
  split.
  { unfold prim_ok in Hp. cbn [parsed_of p_primary]. destruct (b_ver b); [|exact I].
    destruct (b_primary b); [apply utf8_dfa_correct; exact Hp|contradiction]. }
  split; [apply (section_names_nodup b ts)|].
  split.
  { cbn [parsed_of p_sections]. unfold sections_of. eexists. eexists. rewrite !app_assoc. reflexivity. }
  split; [cbn [parsed_of p_sections]; unfold sections_of; left; reflexivity|].
  split; [eapply sections_ok; eassumption|].
  split; [exact (sorted_index_sorted b ts Ht)|].
  split; [exact (index_entries_ok b ts Ht)|exact (headers_ok_rsp b Hh)].
Qed.
