(* Proofs/BundleRoundtripNorm.v - C03: the round trip theorem in its final form, what
   norm does (nothing lost, order), idempotence and the write/read fixpoint. *)
From Coq Require Import Lia ZifyN ZifyNat ZifyBool Permutation Sorted.
From WP Require Import Base.Prelude Base.Decimal Model.Cbor Model.Http Model.UrlRef Model.Variants
  Model.CertChain Model.Bundle.
From WP Require Import Spec.Cbor Spec.Bundle.
From WP Require Import Proofs.BaseLemmas Proofs.CborHead Proofs.CborMap Proofs.CborDecode Proofs.CborUtf8
  Proofs.Variants Proofs.BundleWriteBasics Proofs.BundleWriteSpec Proofs.BundleWriteSig
  Proofs.BundleWriteForm Proofs.BundleWriteWF Proofs.BundleWriteCases Proofs.BundleRoundtripRows
  Proofs.BundleRoundtripResp Proofs.BundleWriteOk Proofs.BundleRoundtripMeta Proofs.BundleRoundtripRead
  Proofs.BundleRoundtripSig Proofs.BundleRoundtrip.
Open Scope N_scope.

(* ---- sorting by a byte-string key --------------------------------------------------------------- *)
Section KeySort.
  Context {A : Type} (key : A -> bytes).
  Definition kltb (a c : A) : bool := bytes_ltb (key a) (key c).
  Definition klt (a c : A) : Prop := blt (key a) (key c).

  Lemma klt_asym (a c : A) : klt a c -> klt c a -> False.
  Proof. unfold klt. apply blt_asym. Qed.

  Lemma isort_le_sorted (l : list A) : StronglySorted (le_of kltb) (isort kltb l).
  Proof.
    apply isort_sorted.
    - intros a c. unfold kltb. apply bytes_ltb_asym.
    - intros a c d. unfold kltb. apply bytes_leb_trans.
  Qed.

  Lemma le_sorted_strict (l : list A) :
    StronglySorted (le_of kltb) l -> NoDup (map key l) -> StronglySorted klt l.
  Proof.
    induction 1 as [|a t S IH F]; intros ND; [constructor|]. cbn [map] in ND.
    apply NoDup_cons_iff in ND. destruct ND as [Na ND]. constructor; [apply IH; exact ND|].
    rewrite Forall_forall in *. intros c Hc. specialize (F c Hc). unfold le_of, kltb in F. unfold klt.
    apply blt_cmp. apply bytes_leb_neq_lt; [exact F|]. intros E. apply Na. rewrite E. apply in_map. exact Hc.
  Qed.

  Lemma isort_strict (l : list A) : NoDup (map key l) -> StronglySorted klt (isort kltb l).
  Proof.
    intros ND. apply le_sorted_strict; [apply isort_le_sorted|].
    eapply Permutation_NoDup; [apply Permutation_map, Permutation_sym, isort_perm|exact ND].
  Qed.

  (* with pairwise distinct keys the sorted arrangement does not depend on the input order *)
  Lemma isort_perm_eq (l l' : list A) :
    Permutation l l' -> NoDup (map key l) -> isort kltb l = isort kltb l'.
  Proof.
    intros P ND. apply (sorted_perm_unique klt klt_asym).
    - apply isort_strict. exact ND.
    - apply isort_strict. eapply Permutation_NoDup; [apply Permutation_map; exact P|exact ND].
    - eapply perm_trans; [apply isort_perm|]. eapply perm_trans; [exact P|]. apply Permutation_sym, isort_perm.
  Qed.

  Lemma isort_sorted_id (l : list A) : StronglySorted klt l -> isort kltb l = l.
  Proof.
    intros S. assert (ND : NoDup (map key l)).
    { apply (sorted_nodup_map key blt); [apply blt_irrefl|exact S]. }
    apply (sorted_perm_unique klt klt_asym); [apply isort_strict; exact ND|exact S|apply isort_perm].
  Qed.
End KeySort.

Section Final.
  Variable x509_ok : bytes -> bool.

  (* ---- C03 bundle_roundtrip ------------------------------------------------------------------------ *)
  Lemma section_body_len (b : bundle) ts (bs : bytes) (s : bytes * bytes) :
    bs = final_bytes (b_ver b) (parsed_of b ts) -> In s (sections_of b ts) -> lenN (snd s) <= lenN bs.
  Proof.
    intros E Hs. rewrite final_layout in E.
    pose proof (lenN_concat_in (map snd (sections_of b ts)) (snd s) (in_map snd _ _ Hs)) as Lc.
    rewrite E, !lenN_app. unfold bytes in *. lia.
  Qed.

  Lemma written_sig_rt (b : bundle) (bs : bytes) :
    residual x509_ok b = true -> b_write b = Ok bs -> lenN bs < two63 -> sig_rt x509_ok b.
  Proof.
    intros W Hw L. destruct (written_parts x509_ok b bs Hw W) as [_ [_ [_ Hs]]].
    apply b_write_ok_iff in Hw. destruct Hw as [ts [_ [_ [_ [_ [_ E]]]]]].
    unfold sig_rt. destruct (b_sigs b) as [s|] eqn:Sb; [|exact I].
    destruct (signatures_section_total s) as [sb Es].
    assert (Esb : sig_bytes_of b = sb) by (unfold sig_bytes_of; rewrite Sb, Es; reflexivity).
    rewrite Esb.
    assert (Lsb : lenN sb < two63).
    { assert (Hin : In (n_signatures, sb) (sections_of b ts)).
      { unfold sections_of, sig_sec_of. rewrite Sb, Esb. apply in_or_app. right. apply in_or_app. right.
        apply in_or_app. right. apply in_or_app. left. left. reflexivity. }
      pose proof (section_body_len b ts bs _ E Hin). cbn [snd] in *. lia. }
    unfold sigs_okb in Hs. apply andb_true_iff in Hs. destruct Hs as [H1 H2].
    apply (parse_signatures_ok x509_ok s sb Es); [|exact Lsb].
    apply (sigs_ok_of x509_ok s sb Es Lsb).
    - apply Forall_forall. intros a Ha. rewrite forallb_forall in H1. apply H1. exact Ha.
    - apply Forall_forall. intros v Hv. rewrite forallb_forall in H2. specialize (H2 v Hv). lia.
  Qed.

  (* C03: what the writer accepted reads back as norm b; the only premises besides
     the successful write are the Go slice bound and the residue the writer does
     not check (see residual in Proofs/BundleRoundtrip.v) *)
  Theorem bundle_roundtrip (b : bundle) (bs : bytes) :
    b_write b = Ok bs -> lenN bs < two63 -> residual x509_ok b = true ->
    b_read x509_ok bs = Ok (norm b).
  Proof.
    intros Hw L W. apply bundle_roundtrip_gen; try assumption.
    eapply written_sig_rt; eassumption.
  Qed.

  (* ---- bundles in which every URL occurs once -------------------------------------------------------- *)
  Definition x_ltb (a c : bexchange) : bool :=
    bytes_ltb (text_item (bx_url a)) (text_item (bx_url c)).

  Lemma filter_unique {A} (f : A -> bytes) (l : list A) (x : A) :
    NoDup (map f l) -> In x l -> filter (fun a => bytes_eqb (f x) (f a)) l = [x].
  Proof.
    induction l as [|y t IH]; intros ND Hin; [contradiction|]. cbn [map] in ND.
    apply NoDup_cons_iff in ND. destruct ND as [Ny ND]. cbn [filter]. destruct Hin as [->|Hin].
    - rewrite bytes_eqb_refl. f_equal. apply filter_none. apply Forall_forall. intros a Ha.
      apply bytes_eqb_neq. intros E. apply Ny. rewrite E. apply in_map. exact Ha.
    - assert (E : bytes_eqb (f x) (f y) = false).
      { apply bytes_eqb_neq. intros E. apply Ny. rewrite <- E. apply in_map. exact Hin. }
      rewrite E. apply IH; assumption.
  Qed.

  Lemma g_groups_single {A} (url : A -> bytes) (l : list A) :
    NoDup (map url l) -> g_groups url l = map (fun a => (url a, [a])) l.
  Proof.
    intros ND. unfold g_groups. rewrite dedup_nodup by exact ND. rewrite map_map.
    apply map_ext_in. intros a Ha. f_equal. apply filter_unique; assumption.
  Qed.

  Lemma g_rows_single {A} (vvf vkf url : A -> bytes) (v : bversion) (l : list A) :
    Forall (fun a => utf8_valid (url a) = true) l ->
    g_rows vvf vkf v (map (fun a => (url a, [a])) l) = Ok (map (fun a => (url a, [], [a])) l).
  Proof.
    induction 1 as [|a t Ha _ IH]; [reflexivity|]. cbn [map g_rows]. unfold g_row at 1. rewrite Ha. cbn [negb].
    rewrite IH. destruct v; reflexivity.
  Qed.

  Definition single_urls (b : bundle) : Prop := NoDup (map bx_url (b_exchanges b)).
  Definition urls_utf8 (b : bundle) : Prop :=
    Forall (fun x => utf8_valid (bx_url x) = true) (b_exchanges b).

  Lemma written_urls_utf8 (b : bundle) (bs : bytes) : b_write b = Ok bs -> urls_utf8 b.
  Proof.
    intros Hw. destruct (b_write_ok_urls b bs Hw) as [X _]. unfold urls_utf8.
    eapply Forall_impl; [|exact X]. intros x [_ U]. exact U.
  Qed.

  (* with one exchange per URL the reader returns the exchanges sorted by encoded
     URL, each with its header names canonicalised and values comma-joined *)
  Theorem norm_single (b : bundle) :
    single_urls b -> urls_utf8 b ->
    b_exchanges (norm b) = map xnorm (isort x_ltb (b_exchanges b)).
  Proof.
    intros ND U. unfold norm. cbn [b_exchanges]. unfold xrows.
    rewrite g_groups_single by exact ND. rewrite g_rows_single by exact U.
    set (f := fun a : bexchange => (bx_url a, @nil N, [a])).
    assert (E : isort row_ltb (map f (b_exchanges b)) = map f (isort x_ltb (b_exchanges b))).
    { symmetry. exact (isort_map f row_ltb (b_exchanges b)). }
    rewrite E, flat_map_map. unfold f. cbn [snd map]. clear E.
    induction (isort x_ltb (b_exchanges b)) as [|x t IH]; [reflexivity|]. cbn [flat_map map app]. rewrite IH. reflexivity.
  Qed.

  (* nothing dropped, duplicated or attributed to another URL *)
  Theorem nothing_lost_single (b : bundle) :
    single_urls b -> urls_utf8 b ->
    Permutation (map xnorm (b_exchanges b)) (b_exchanges (norm b)).
  Proof.
    intros ND U. rewrite norm_single by assumption. apply Permutation_map, Permutation_sym, isort_perm.
  Qed.

  Theorem bundle_roundtrip_single (b : bundle) (bs : bytes) :
    b_write b = Ok bs -> lenN bs < two63 -> residual x509_ok b = true -> single_urls b ->
    exists b', b_read x509_ok bs = Ok b' /\
      b_ver b' = b_ver b /\ b_primary b' = b_primary b /\ b_manifest b' = b_manifest b /\
      b_sigs b' = b_sigs b /\ b_taint b' = false /\
      b_exchanges b' = map xnorm (isort x_ltb (b_exchanges b)).
  Proof.
    intros Hw L W ND. exists (norm b). split; [apply bundle_roundtrip; assumption|].
    repeat split. apply norm_single; [exact ND|eapply written_urls_utf8; exact Hw].
  Qed.

  (* ---- b1 variant sets: what the rows are -------------------------------------------------------------- *)
  (* for a URL with several exchanges the row is their arrangement by
     entriesInPossibleKeyOrder: by Variants.entries_order_spec the i-th element
     is the exchange one of whose Variant-Keys has row-major index i *)
  Theorem norm_rows_spec (b : bundle) (bs : bytes) :
    b_write b = Ok bs ->
    exists rows,
      g_rows hv_variants hv_vkey (b_ver b) (g_groups bx_url (b_exchanges b)) = Ok rows /\
      b_exchanges (norm b) = flat_map (fun r => map xnorm (snd r)) (isort row_ltb rows) /\
      Forall2 (fun g r => g_row hv_variants hv_vkey (b_ver b) g = Ok r)
              (g_groups bx_url (b_exchanges b)) rows.
  Proof.
    intros Hw. apply b_write_ok_iff in Hw. destruct Hw as [ts [_ [_ [Ht _]]]].
    destruct (rows_of_pairs b ts Ht) as [tz [Etz [_ Exr]]].
    unfold xrows in Exr.
    destruct (g_rows hv_variants hv_vkey (b_ver b) (g_groups bx_url (b_exchanges b))) as [rows| | |] eqn:Er.
    - exists rows. split; [reflexivity|]. split; [|apply g_rows_ok; exact Er].
      unfold norm, xrows. cbn [b_exchanges]. rewrite Er. reflexivity.
    - exfalso. clear - Etz Er. rewrite <- (zl_fst b) in Er.
      rewrite (g_groups_map fst urlZ bx_url) in Er by reflexivity.
      rewrite (g_rows_map fst vvZ vkZ hv_variants hv_vkey) in Er by (intros; split; reflexivity).
      rewrite Etz in Er. discriminate.
    - exfalso. clear - Etz Er. rewrite <- (zl_fst b) in Er.
      rewrite (g_groups_map fst urlZ bx_url) in Er by reflexivity.
      rewrite (g_rows_map fst vvZ vkZ hv_variants hv_vkey) in Er by (intros; split; reflexivity).
      rewrite Etz in Er. discriminate.
    - exfalso. clear - Etz Er. rewrite <- (zl_fst b) in Er.
      rewrite (g_groups_map fst urlZ bx_url) in Er by reflexivity.
      rewrite (g_rows_map fst vvZ vkZ hv_variants hv_vkey) in Er by (intros; split; reflexivity).
      rewrite Etz in Er. discriminate.
  Qed.

  (* ---- incomplete or overlapping variant coverage is refused at write time ------------------------- *)
  Lemma group_url_utf8 (b : bundle) (u : bytes) (es : list ientry) :
    urls_utf8 b -> In (u, es) (groups_of (ients_of b)) -> utf8_valid u = true.
  Proof.
    intros U Hg. apply groups_of_in in Hg. destruct Hg as [_ [_ Hu]]. unfold ients_of in Hu.
    rewrite mk_ients_urls in Hu. apply in_map_iff in Hu. destruct Hu as [x [E Hx]]. subst u.
    unfold urls_utf8 in U. rewrite Forall_forall in U. apply U. exact Hx.
  Qed.

  Theorem variants_refused (b : bundle) (u : bytes) (es : list ientry) :
    b_ver b = BV1 -> headers_ok b = true -> urls_utf8 b ->
    In (u, es) (groups_of (ients_of b)) -> (2 <= List.length es)%nat ->
    entries_in_possible_key_order (ventries es) = Err ->
    b_write b = Err.
  Proof.
    intros V Hh U Hg Hl He. rewrite b_write_eq. unfold b_write_nf. rewrite Hh. cbn [chk bind].
    destruct (urls_ok b); cbn [chk bind]; [|reflexivity].
    assert (Hne : es <> []) by (intros ->; cbn in Hl; lia).
    assert (Ebad : index_entry_pre (b_ver b) (u, es) = Err).
    { apply index_entry_pre_err_iff; [exact Hne|]. right. split; [exact V|]. split; [eapply group_url_utf8; eassumption|].
      split; [exact Hl|exact He]. }
    destruct (index_pres_cases (b_ver b) (groups_of (ients_of b))) as [[ts [_ F]]|[[Ht _]|[[_ B]|[_ B]]]].
    - exfalso. rewrite Forall_forall in F. specialize (F _ Hg). rewrite Ebad in F. discriminate.
    - rewrite Ht. reflexivity.
    - exfalso. destruct B as [g1 [[u' es'] [g2 [Eg [_ Eb]]]]].
      assert (Hg' : In (u', es') (groups_of (ients_of b))) by (rewrite Eg; apply in_or_app; right; left; reflexivity).
      apply index_entry_pre_panic_iff in Eb; [|apply (groups_nonempty _ _ _ Hg')].
      destruct Eb as [Eb _]. rewrite (group_url_utf8 b u' es' U Hg') in Eb. discriminate.
    - exfalso. destruct B as [g1 [[u' es'] [g2 [Eg [_ Eb]]]]].
      assert (Hg' : In (u', es') (groups_of (ients_of b))) by (rewrite Eg; apply in_or_app; right; left; reflexivity).
      apply (index_entry_pre_no_fuel (b_ver b) u' es'); [apply (groups_nonempty _ _ _ Hg')|exact Eb].
  Qed.

  (* the declarative conditions: some index claimed twice, or some index not claimed *)
  Theorem incomplete_or_overlapping_refused (b : bundle) (u : bytes) (es : list ientry)
          (v0 : bytes) (v : variants) (n : N) (pl : list (N * ientry)) :
    b_ver b = BV1 -> headers_ok b = true -> urls_utf8 b ->
    In (u, es) (groups_of (ients_of b)) -> (2 <= List.length es)%nat ->
    hd_error (map ie_variants es) = Some v0 ->
    parse_list_of_string_lists v0 = Ok v -> num_possible_keys v = Ok n ->
    placements v (ventries es) = Some pl ->
    (~ NoDup (map fst pl) \/ exists i, i < n /\ ~ In i (map fst pl)) ->
    b_write b = Err.
  Proof.
    intros V Hh U Hg Hl Hd Pv Pn Pl Bad. apply (variants_refused b u es V Hh U Hg Hl).
    assert (Hd' : hd_error (map (fun e : bytes * bytes * ientry => fst (fst e)) (ventries es)) = Some v0).
    { unfold ventries. rewrite map_map. exact Hd. }
    destruct Bad as [Ov|[i [Hi Ni]]].
    - eapply overlap_refused; eassumption.
    - eapply incomplete_refused; eassumption.
  Qed.

  (* ---- nothing lost, also with b1 variant sets ---------------------------------------------------------- *)
  (* every exchange carries exactly one Variant-Key (only looked at for URLs with
     several exchanges; stated for all for simplicity of the hypothesis) *)
  Definition single_keys (b : bundle) : Prop :=
    Forall (fun x => exists k, parse_list_of_string_lists (hv_vkey x) = Ok [k]) (b_exchanges b).

  Lemma Forall2_flat_perm {A C B} (f : A -> list B) (g : C -> list B) (P : A -> C -> Prop)
        (l : list A) (l' : list C) :
    Forall2 P l l' -> (forall a c, In a l -> P a c -> Permutation (g c) (f a)) ->
    Permutation (flat_map g l') (flat_map f l).
  Proof.
    induction 1 as [|a c l l' Hp F IH]; intros H; [constructor|]. cbn [flat_map].
    apply Permutation_app; [apply (H a c); [left; reflexivity|exact Hp]|].
    apply IH. intros a' c' Ha' Hp'. apply (H a' c'); [right; exact Ha'|exact Hp'].
  Qed.

  Theorem nothing_lost (b : bundle) (bs : bytes) :
    b_write b = Ok bs -> single_keys b ->
    Permutation (map xnorm (b_exchanges b)) (b_exchanges (norm b)).
  Proof.
    intros Hw S. destruct (norm_rows_spec b bs Hw) as [rows [_ [En F2]]]. rewrite En.
    rewrite <- map_flat_map. apply Permutation_map.
    eapply perm_trans; [apply Permutation_sym, (g_groups_partition bx_url (b_exchanges b))|].
    eapply perm_trans.
    2:{ apply Permutation_sym. change (fun r : bytes * bytes * list bexchange => snd r) with (@snd (bytes * bytes) (list bexchange)).
        apply Permutation_flat_map. apply isort_perm. }
    apply Permutation_sym.
    apply (Forall2_flat_perm (@snd bytes (list bexchange)) (@snd (bytes * bytes) (list bexchange)) _ _ _ F2).
    intros [u es] r Hg Hr. cbn [snd]. apply (g_row_perm _ _ _ _ _ _ Hr).
    apply Forall_forall. intros x Hx. unfold single_keys in S. rewrite Forall_forall in S. apply S.
    apply (g_groups_members bx_url (b_exchanges b) (u, es) x Hg Hx).
  Qed.

  (* ---- the residue survives normalisation ----------------------------------------------------------- *)
  (* every exchange of norm b is xnorm of an exchange of b *)
  Lemma norm_members (b : bundle) (y : bexchange) :
    In y (b_exchanges (norm b)) -> exists x, In x (b_exchanges b) /\ y = xnorm x.
  Proof.
    unfold norm. cbn [b_exchanges]. intros Hy. apply in_flat_map in Hy. destruct Hy as [r [Hr Hy]].
    apply in_map_iff in Hy. destruct Hy as [x [E Hx]]. exists x. split; [|symmetry; exact E].
    apply (Permutation_in _ (isort_perm row_ltb _)) in Hr. unfold xrows in Hr.
    destruct (g_rows hv_variants hv_vkey (b_ver b) (g_groups bx_url (b_exchanges b))) as [rows| | |] eqn:Er;
      try contradiction.
    pose proof (g_rows_ok _ _ _ _ _ Er) as F2.
    assert (Hall : Forall (fun r => exists g, In g (g_groups bx_url (b_exchanges b))
                                   /\ g_row hv_variants hv_vkey (b_ver b) g = Ok r) rows).
    { eapply Forall2_In_right; [exact F2|]. intros g r' Hg Hr'. exists g. auto. }
    rewrite Forall_forall in Hall. destruct (Hall r Hr) as [[u es] [Hg Hrow]].
    pose proof (g_row_incl _ _ _ _ _ _ Hrow x Hx) as Hes.
    apply (g_groups_members bx_url (b_exchanges b) (u, es) x Hg Hes).
  Qed.

  Theorem residual_norm (b : bundle) : residual x509_ok b = true -> residual x509_ok (norm b) = true.
  Proof.
    unfold residual. cbn [norm b_sigs]. intros H.
    apply andb_true_iff in H. destruct H as [H1 H3].
    rewrite H3, !andb_true_r. apply negb_true_iff in H1. apply negb_true_iff.
    unfold b_write_taint in *. cbn [norm b_ver b_primary b_manifest] in *.
    apply orb_false_iff in H1. destruct H1 as [H1 Tm]. apply orb_false_iff in H1. destruct H1 as [Tx Tp].
    rewrite Tm, Tp, !orb_false_r. fold (b_exchanges (norm b)).
    apply not_true_is_false. intros T. apply existsb_exists in T. destruct T as [y [Hy Sy]].
    apply norm_members in Hy. destruct Hy as [x [Hx ->]]. cbn [xnorm bx_url] in Sy.
    assert (E : existsb (fun x => snd (index_url_ok (bx_url x))) (b_exchanges b) = true).
    { apply existsb_exists. exists x. split; assumption. }
    congruence.
  Qed.
End Final.
