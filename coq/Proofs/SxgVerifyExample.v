(* Proofs/SxgVerifyExample.v - concrete signed exchanges for the Examples of C01
   and C09 (the only place where SHA-256 is executed).  Toy oracles:
     - a "certificate" is any non-empty byte string, its first byte the key id
       (0 = unsupported key type);
     - a signature of m under key kid is sha256 (kid :: m);
     - the certificate chain is served at one URL.                             *)
From WP Require Import Base.Prelude Base.Base64 Base.Sha256.
From WP Require Import Model.Cbor Model.Http Model.Url Model.Mice Model.StructHdr Model.CertChain
                       Model.Sxg.
Open Scope N_scope.

Definition toy_x509 (der : bytes) : option (option N) :=
  match der with [] => None | b :: _ => if b =? 0 then Some None else Some (Some b) end.
Definition toy_sig_ok (kid : N) (m sg : bytes) : bool := bytes_eqb sg (sha256 (kid :: m)).
Definition toy_status (z : Z) : bool := existsb (Z.eqb z) [200; 301; 302; 404; 418; 500]%Z.
Definition toy_cert : bytes := [7; 1; 2; 3; 4; 5].
Definition toy_cert_url : bytes := s2b "https://cert.example/cert.cbor".
Definition toy_chain : bytes :=
  Eval vm_compute in
    match cc_write [{| ac_cert := toy_cert; ac_ocsp := Some [9; 9]; ac_sct := None |}] with
    | Ok b => b | _ => [] end.
Definition toy_fetch (u : bytes) : R bytes := if bytes_eqb u toy_cert_url then Ok toy_chain else Err.

Definition toy_validity : bytes := s2b "https://example.com/resource.validity".
Definition toy_date : Z := 1700000000.
Definition toy_expires : Z := 1700604800.       (* date + 7 days *)
Definition toy_body : bytes := s2b "<html>When I grow up, I want to be a watermelon</html>".

Definition with_sig (e : exchange) (sv : bytes) : exchange :=
  {| e_ver := e_ver e; e_uri := e_uri e; e_method := e_method e; e_reqh := e_reqh e;
     e_status := e_status e; e_resph := e_resph e; e_sig := sv; e_payload := e_payload e;
     e_taint := e_taint e |}.
Definition with_payload (e : exchange) (p : bytes) : exchange :=
  {| e_ver := e_ver e; e_uri := e_uri e; e_method := e_method e; e_reqh := e_reqh e;
     e_status := e_status e; e_resph := e_resph e; e_sig := e_sig e; e_payload := p;
     e_taint := e_taint e |}.
Definition with_status (e : exchange) (st : Z) : exchange :=
  {| e_ver := e_ver e; e_uri := e_uri e; e_method := e_method e; e_reqh := e_reqh e;
     e_status := st; e_resph := e_resph e; e_sig := e_sig e; e_payload := e_payload e;
     e_taint := e_taint e |}.
Definition with_uri (e : exchange) (u : bytes) : exchange :=
  {| e_ver := e_ver e; e_uri := u; e_method := e_method e; e_reqh := e_reqh e;
     e_status := e_status e; e_resph := e_resph e; e_sig := e_sig e; e_payload := e_payload e;
     e_taint := e_taint e |}.
Definition with_method (e : exchange) (m : bytes) : exchange :=
  {| e_ver := e_ver e; e_uri := e_uri e; e_method := m; e_reqh := e_reqh e;
     e_status := e_status e; e_resph := e_resph e; e_sig := e_sig e; e_payload := e_payload e;
     e_taint := e_taint e |}.
Definition with_reqh (e : exchange) (h : headers) : exchange :=
  {| e_ver := e_ver e; e_uri := e_uri e; e_method := e_method e; e_reqh := h;
     e_status := e_status e; e_resph := e_resph e; e_sig := e_sig e; e_payload := e_payload e;
     e_taint := e_taint e |}.
Definition with_resph (e : exchange) (h : headers) : exchange :=
  {| e_ver := e_ver e; e_uri := e_uri e; e_method := e_method e; e_reqh := e_reqh e;
     e_status := e_status e; e_resph := h; e_sig := e_sig e; e_payload := e_payload e;
     e_taint := e_taint e |}.

(* an unsigned exchange: response headers given as (name, value) pairs added
   with Header.Add, followed by raw map entries (to get non-canonical keys) *)
Definition plain (v : version) (st : Z) (hs : list (bytes * bytes)) (raw : headers) : exchange :=
  {| e_ver := v; e_uri := s2b "https://example.com/index.html"; e_method := s2b "GET";
     e_reqh := []; e_status := st; e_resph := hdr_of_pairs hs ++ raw;
     e_sig := []; e_payload := toy_body; e_taint := false |}.

(* MiEncodePayload(16) + AddSignatureHeader with the toy signer *)
Definition toy_sign_v (e0 : exchange) (validity : bytes) (d x : Z) : R exchange :=
  let* e1 := mi_encode_payload sha256 e0 16 in
  let* m := signed_message e1 (Some (sha256 toy_cert)) validity d x in
  let* sv := signature_header_value sha256 e1 [toy_cert] toy_cert_url validity d x
               (sha256 (7 :: m)) in
  Ok (with_sig e1 sv).
Definition toy_sign (e0 : exchange) (d x : Z) : R exchange := toy_sign_v e0 toy_validity d x.
Definition get (r : R exchange) : exchange :=
  match r with Ok e => e | _ => plain V1b3 0 [] [] end.

Definition std_headers : list (bytes * bytes) :=
  [(s2b "Content-Type", s2b "text/html"); (s2b "Cache-Control", s2b "max-age=600")].
Definition ex3 : exchange := Eval vm_compute in get (toy_sign (plain V1b3 200 std_headers []) toy_date toy_expires).
Definition ex2 : exchange := Eval vm_compute in get (toy_sign (plain V1b2 200 std_headers []) toy_date toy_expires).
Definition ex1 : exchange := Eval vm_compute in get (toy_sign (plain V1b1 200 std_headers []) toy_date toy_expires).

Definition toy_verify := verify sha256 toy_x509 toy_sig_ok toy_status toy_fetch.
