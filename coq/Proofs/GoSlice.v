(* Proofs/GoSlice.v - C18, part (iii): a small model of Go slices and of the
   built-in [append], to argue that the package-level byte constants shared by
   all goroutines (magic numbers, version strings, the web-bundle-id suffix)
   are never written to.

   A slice is a window (offset, length) on a backing array; its capacity is
   what is left of the array after the offset.  [append s xs]
     - writes IN PLACE when  len + |xs| <= cap : the cells after the window
       are overwritten in the backing array, which every other slice on that
       array sees;
     - otherwise allocates a fresh array holding contents ++ xs and leaves the
       old array alone.  (Go over-allocates the fresh array; the model gives
       it cap = len, which is the conservative choice: spare room in a fresh
       array is shared with nobody.)
   [append] returns the resulting slice and, as second component, the state
   of the ORIGINAL backing array after the call, so "unchanged" can be stated.

   Facts about the Go sources used below:
     version.go       return append(HeaderMagicBytesB1, VersionMagicBytesB1...)
                      with both operands composite literals (cap = len);
     web-bundle-id.go before commit 44d0b33:  append([]byte(publicKey), suffix...)
                      after:  make([]byte, 0, n+3); append(.., key...); append(.., suffix...)
   Scheduling is not modelled: data races are looked for by the Go race
   detector in the correspondence run.                                        *)
From Coq Require Import List Arith Lia.
From WP Require Import Base.Prelude Base.Base32 Model.Bundle Model.IntegrityBlock.
Import ListNotations.
Local Open Scope nat_scope.

Record slice := { arr : list N; off : nat; len : nat }.
Definition cap (s : slice) : nat := List.length (arr s) - off s.
Definition contents (s : slice) : list N := firstn (len s) (skipn (off s) (arr s)).
(* what the Go run time guarantees of every slice value *)
Definition wf (s : slice) : Prop := off s + len s <= List.length (arr s).

(* overwrite |xs| cells of [a] from position [p] on *)
Definition write_at (a : list N) (p : nat) (xs : list N) : list N :=
  firstn p a ++ xs ++ skipn (p + List.length xs) a.

Definition append (s : slice) (xs : list N) : slice * list N :=
  if len s + List.length xs <=? cap s then
    let a' := write_at (arr s) (off s + len s) xs in
    ({| arr := a'; off := off s; len := len s + List.length xs |}, a')
  else
    ({| arr := contents s ++ xs; off := 0; len := len s + List.length xs |}, arr s).

(* []byte{...}: a fresh array exactly as long as the literal *)
Definition literal (c : list N) : slice := {| arr := c; off := 0; len := List.length c |}.
(* make([]byte, 0, n) *)
Definition make0 (n : nat) : slice := {| arr := repeat 0%N n; off := 0; len := 0 |}.
(* s[:k] of a slice (k <= cap) *)
Definition reslice (s : slice) (k : nat) : slice := {| arr := arr s; off := off s; len := k |}.

(* ---- list helpers ---------------------------------------------------------------- *)
Lemma write_at_length (a : list N) (p : nat) (xs : list N) :
  p + List.length xs <= List.length a -> List.length (write_at a p xs) = List.length a.
Proof.
  intros H. unfold write_at. rewrite !app_length, firstn_length, skipn_length. lia.
Qed.

Lemma skipn_firstn_window (a : list N) (o l : nat) :
  skipn o (firstn (o + l) a) = firstn l (skipn o a).
Proof. rewrite skipn_firstn_comm. f_equal. lia. Qed.

Lemma contents_length_le (s : slice) : List.length (contents s) <= len s.
Proof. unfold contents. apply firstn_le_length. Qed.

Lemma contents_length (s : slice) : wf s -> List.length (contents s) = len s.
Proof.
  unfold wf, contents. intros H. rewrite firstn_length, skipn_length. lia.
Qed.

(* the window of the array written by an in-place append *)
Lemma window_after_write (a : list N) (o l : nat) (xs : list N) :
  o + l <= List.length a ->
  firstn (l + List.length xs) (skipn o (write_at a (o + l) xs)) = firstn l (skipn o a) ++ xs.
Proof.
  intros H. unfold write_at.
  rewrite skipn_app. rewrite firstn_length, (Nat.min_l _ _ H).
  replace (o - (o + l)) with 0 by lia. cbn [skipn].
  rewrite skipn_firstn_window.
  assert (L : List.length (firstn l (skipn o a)) = l).
  { rewrite firstn_length, skipn_length. lia. }
  rewrite firstn_app, L.
  replace (l + List.length xs - l) with (List.length xs) by lia.
  rewrite (firstn_all2 (firstn l (skipn o a))) by lia.
  f_equal. rewrite firstn_app, Nat.sub_diag. cbn [firstn].
  rewrite firstn_all, app_nil_r. reflexivity.
Qed.

(* ---- append -------------------------------------------------------------------- *)
(* whichever branch is taken, the result reads as contents ++ xs; no
   well-formedness premise is needed *)
Theorem append_contents (s : slice) (xs : list N) :
  contents (fst (append s xs)) = contents s ++ xs.
Proof.
  unfold append. destruct (len s + List.length xs <=? cap s) eqn:E; cbn [fst].
  - apply Nat.leb_le in E. unfold cap in E. unfold contents at 1. cbn [arr off len].
    destruct (le_gt_dec (off s + len s) (List.length (arr s))) as [W|W].
    + apply window_after_write. exact W.
    + assert (L0 : len s = 0) by lia. assert (X0 : List.length xs = 0) by lia.
      apply length_zero_iff_nil in X0. subst xs. unfold contents. rewrite L0. reflexivity.
  - unfold contents at 1. cbn [arr off len skipn].
    apply firstn_all2. rewrite app_length. pose proof (contents_length_le s). lia.
Qed.

Theorem append_len (s : slice) (xs : list N) :
  len (fst (append s xs)) = len s + List.length xs.
Proof. unfold append. destruct (len s + List.length xs <=? cap s); reflexivity. Qed.

Theorem append_wf (s : slice) (xs : list N) : wf s -> wf (fst (append s xs)).
Proof.
  unfold append, wf. intros W. destruct (len s + List.length xs <=? cap s) eqn:E; cbn [fst arr off len].
  - apply Nat.leb_le in E. unfold cap in E. rewrite write_at_length; lia.
  - rewrite app_length, contents_length by exact W. lia.
Qed.

(* a full slice: append must allocate; the original backing array is unchanged *)
Theorem append_full_allocates (s : slice) (xs : list N) :
  cap s = len s -> xs <> [] ->
  snd (append s xs) = arr s /\
  arr (fst (append s xs)) = contents s ++ xs /\ off (fst (append s xs)) = 0.
Proof.
  intros C NE. unfold append.
  assert (L : 1 <= List.length xs). { destruct xs; [contradiction|cbn; lia]. }
  destruct (len s + List.length xs <=? cap s) eqn:E.
  - apply Nat.leb_le in E. lia.
  - cbn [fst snd arr off]. auto.
Qed.

(* spare capacity: append writes into the shared array ... *)
Theorem append_spare_in_place (s : slice) (xs : list N) :
  wf s -> len s + List.length xs <= cap s ->
  snd (append s xs) = arr (fst (append s xs)) /\
  snd (append s xs) = write_at (arr s) (off s + len s) xs /\
  List.length (snd (append s xs)) = List.length (arr s).
Proof.
  intros W C. unfold append. apply Nat.leb_le in C. rewrite C. cbn [fst snd arr].
  apply Nat.leb_le in C. unfold cap in C. unfold wf in W.
  split; [reflexivity|]. split; [reflexivity|]. apply write_at_length. lia.
Qed.

(* ... exactly the |xs| cells after the window now hold xs, everything else is as before *)
Theorem append_spare_overwrites (s : slice) (xs : list N) :
  wf s -> len s + List.length xs <= cap s ->
  firstn (List.length xs) (skipn (off s + len s) (snd (append s xs))) = xs /\
  firstn (off s + len s) (snd (append s xs)) = firstn (off s + len s) (arr s) /\
  skipn (off s + len s + List.length xs) (snd (append s xs))
  = skipn (off s + len s + List.length xs) (arr s).
Proof.
  intros W C. destruct (append_spare_in_place s xs W C) as [_ [E _]]. rewrite E. clear E.
  unfold cap in C. unfold wf in W. unfold write_at.
  set (p := off s + len s).
  assert (Lp : List.length (firstn p (arr s)) = p) by (rewrite firstn_length; lia).
  repeat split.
  - rewrite skipn_app, Lp, Nat.sub_diag. cbn [skipn].
    rewrite (skipn_all2 (firstn p (arr s))) by lia. cbn [app].
    rewrite firstn_app, Nat.sub_diag. cbn [firstn]. rewrite firstn_all, app_nil_r. reflexivity.
  - rewrite firstn_app, Lp, Nat.sub_diag. cbn [firstn]. rewrite app_nil_r.
    apply firstn_all2. lia.
  - rewrite skipn_app, Lp. rewrite (skipn_all2 (firstn p (arr s))) by lia. cbn [app].
    replace (p + List.length xs - p) with (List.length xs) by lia.
    rewrite skipn_app, Nat.sub_diag. cbn [skipn]. rewrite skipn_all. reflexivity.
Qed.

(* REFUTED: "append never modifies memory visible through another slice".
   [key] is a 3-byte prefix of a 6-byte buffer (spare capacity 3); [other] is
   the rest of the same buffer.  Appending the suffix 0,1,2 to [key] - what
   GetWebBundleId did before commit 44d0b33 - changes what [other] reads. *)
Theorem append_spare_mutates_refuted :
  exists (key other : slice) (xs : list N),
    wf key /\ wf other /\ arr other = arr key /\
    len key + List.length xs <= cap key /\ len key < cap key /\
    contents other = [9; 9; 9]%N /\
    contents {| arr := snd (append key xs); off := off other; len := len other |} = [0; 1; 2]%N /\
    snd (append key xs) <> arr key.
Proof.
  exists {| arr := [7; 7; 7; 9; 9; 9]%N; off := 0; len := 3 |},
         {| arr := [7; 7; 7; 9; 9; 9]%N; off := 3; len := 3 |}, [0; 1; 2]%N.
  unfold wf, cap. cbn. repeat split; try lia. discriminate.
Qed.

(* ---- composite literals and the shared constants --------------------------------- *)
Theorem literal_full (c : list N) :
  cap (literal c) = len (literal c) /\ contents (literal c) = c /\ wf (literal c).
Proof.
  unfold cap, contents, literal, wf. cbn [arr off len skipn].
  rewrite Nat.sub_0_r, firstn_all. auto.
Qed.

(* appending anything to a composite literal leaves the literal's array alone *)
Theorem literal_never_mutated (c xs : list N) :
  xs <> [] -> snd (append (literal c) xs) = arr (literal c) /\ arr (literal c) = c.
Proof.
  intros NE. destruct (literal_full c) as [C _].
  destruct (append_full_allocates (literal c) xs C NE) as [E _]. split; [exact E|reflexivity].
Qed.

(* appending nothing writes nothing either *)
Theorem append_nil_unchanged (s : slice) : wf s -> snd (append s []) = arr s.
Proof.
  intros W. unfold append, wf in *. cbn [List.length]. rewrite Nat.add_0_r.
  destruct (len s <=? cap s); cbn [snd]; [|reflexivity].
  unfold write_at. cbn [List.length app]. rewrite Nat.add_0_r. apply firstn_skipn.
Qed.

Definition web_bundle_id_suffix : list N := [0; 1; 2]%N.

Definition shared_constants : list (list N) :=
  [hdr_magic_b1; hdr_magic_b2; ver_magic_b1; ver_magic_b2; ib_magic; ib_version_b1;
   web_bundle_id_suffix].

Theorem constant_never_mutated :
  Forall (fun c => forall xs, xs <> [] ->
                   snd (append (literal c) xs) = c /\ arr (literal c) = c) shared_constants.
Proof.
  unfold shared_constants.
  repeat (apply Forall_cons;
          [intros xs NE; split; [apply (literal_never_mutated _ xs NE)|reflexivity]|]).
  apply Forall_nil.
Qed.

(* each constant separately, for reference by name *)
Corollary hdr_magic_b1_never_mutated xs : xs <> [] -> snd (append (literal hdr_magic_b1) xs) = hdr_magic_b1.
Proof. intros NE. apply (literal_never_mutated _ xs NE). Qed.
Corollary hdr_magic_b2_never_mutated xs : xs <> [] -> snd (append (literal hdr_magic_b2) xs) = hdr_magic_b2.
Proof. intros NE. apply (literal_never_mutated _ xs NE). Qed.
Corollary ver_magic_b1_never_mutated xs : xs <> [] -> snd (append (literal ver_magic_b1) xs) = ver_magic_b1.
Proof. intros NE. apply (literal_never_mutated _ xs NE). Qed.
Corollary ver_magic_b2_never_mutated xs : xs <> [] -> snd (append (literal ver_magic_b2) xs) = ver_magic_b2.
Proof. intros NE. apply (literal_never_mutated _ xs NE). Qed.
Corollary ib_magic_never_mutated xs : xs <> [] -> snd (append (literal ib_magic) xs) = ib_magic.
Proof. intros NE. apply (literal_never_mutated _ xs NE). Qed.
Corollary ib_version_b1_never_mutated xs : xs <> [] -> snd (append (literal ib_version_b1) xs) = ib_version_b1.
Proof. intros NE. apply (literal_never_mutated _ xs NE). Qed.
Corollary suffix_never_mutated xs : xs <> [] -> snd (append (literal web_bundle_id_suffix) xs) = web_bundle_id_suffix.
Proof. intros NE. apply (literal_never_mutated _ xs NE). Qed.

(* Version.HeaderMagicBytes(): append(HeaderMagicBytesBx, VersionMagicBytesBx...) is
   the model's [header_magic_bytes], and both constants survive the call *)
Theorem header_magic_bytes_append (v : bversion) :
  let h := match v with BV1 => hdr_magic_b1 | BV2 => hdr_magic_b2 end in
  let m := match v with BV1 => ver_magic_b1 | BV2 => ver_magic_b2 end in
  contents (fst (append (literal h) m)) = header_magic_bytes v /\
  snd (append (literal h) m) = h.
Proof.
  destruct v; cbn zeta; (split; [rewrite append_contents; reflexivity|]);
    apply literal_never_mutated; discriminate.
Qed.

(* ---- make + append + append: the fixed GetWebBundleId -------------------------- *)
(* make([]byte, 0, n+k), then two appends of total length n+k: both appends are
   in place IN THE FRESH ARRAY (no third allocation, offset 0, the array keeps
   its length n+k); [a] and [b] are only read (through [contents]); no array
   other than the fresh one is produced as "written". *)
Theorem fresh_then_append_safe (a b : slice) :
  let s0 := make0 (len a + len b) in
  let r1 := append s0 (contents a) in
  let r2 := append (fst r1) (contents b) in
  contents (fst r2) = contents a ++ contents b /\
  snd r1 = arr (fst r1) /\ snd r2 = arr (fst r2) /\
  off (fst r1) = 0 /\ off (fst r2) = 0 /\
  List.length (arr (fst r2)) = len a + len b.
Proof.
  cbn zeta.
  pose proof (contents_length_le a) as La. pose proof (contents_length_le b) as Lb.
  assert (W0 : wf (make0 (len a + len b))).
  { unfold wf, make0. cbn [arr off len]. rewrite repeat_length. lia. }
  assert (C0 : len (make0 (len a + len b)) + List.length (contents a) <= cap (make0 (len a + len b))).
  { unfold cap, make0. cbn [arr off len]. rewrite repeat_length. lia. }
  destruct (append_spare_in_place _ _ W0 C0) as [E1 [_ L1]].
  pose proof (append_wf _ (contents a) W0) as W1.
  pose proof (append_len (make0 (len a + len b)) (contents a)) as N1.
  assert (O1 : off (fst (append (make0 (len a + len b)) (contents a))) = 0).
  { unfold append. destruct (_ <=? _); reflexivity. }
  set (s1 := fst (append (make0 (len a + len b)) (contents a))) in *.
  assert (A1 : List.length (arr s1) = len a + len b).
  { rewrite <- E1, L1. unfold make0. cbn [arr]. apply repeat_length. }
  assert (C1 : len s1 + List.length (contents b) <= cap s1).
  { unfold cap. rewrite A1, O1, N1. unfold make0. cbn [len]. lia. }
  destruct (append_spare_in_place _ _ W1 C1) as [E2 [_ L2]].
  split; [|split; [exact E1|split; [exact E2|split; [exact O1|split]]]].
  - rewrite append_contents. unfold s1. rewrite append_contents. reflexivity.
  - unfold append. destruct (_ <=? _); [exact O1|reflexivity].
  - rewrite <- E2, L2. exact A1.
Qed.

(* The two versions of GetWebBundleId compute the same bytes; only the old
   one can write into the caller's array. *)
Definition id_input_old (pk : slice) : slice * list N := append pk web_bundle_id_suffix.
Definition id_input_new (pk : slice) : slice :=
  let s0 := make0 (len pk + List.length web_bundle_id_suffix) in
  fst (append (fst (append s0 (contents pk))) web_bundle_id_suffix).

Theorem id_input_same (pk : slice) :
  contents (fst (id_input_old pk)) = contents (id_input_new pk) /\
  web_bundle_id (contents pk) = lower (b32_encode (contents (id_input_new pk))).
Proof.
  unfold id_input_old, id_input_new. rewrite !append_contents.
  unfold make0, contents at 2. cbn [len firstn app]. split; reflexivity.
Qed.

(* the old version, called with a key that is a full slice (the usual case:
   ed25519.PublicKey made by GenerateKey has cap = len = 32), is harmless ... *)
Theorem id_input_old_full_safe (pk : slice) :
  cap pk = len pk -> snd (id_input_old pk) = arr pk.
Proof. intros C. apply append_full_allocates; [exact C|discriminate]. Qed.

(* ... but with 3 or more spare cells it overwrites them *)
Theorem id_input_old_spare_mutates (pk : slice) :
  wf pk -> len pk + 3 <= cap pk ->
  firstn 3 (skipn (off pk + len pk) (snd (id_input_old pk))) = web_bundle_id_suffix.
Proof.
  intros W C. apply (append_spare_overwrites pk web_bundle_id_suffix W). exact C.
Qed.

(* ---- examples -------------------------------------------------------------------- *)
Example ex_append_in_place :
  append {| arr := [1; 2; 3; 4; 5]%N; off := 1; len := 2 |} [8; 9]%N
  = ({| arr := [1; 2; 3; 8; 9]%N; off := 1; len := 4 |}, [1; 2; 3; 8; 9]%N).
Proof. reflexivity. Qed.

Example ex_append_allocates :
  append {| arr := [1; 2; 3; 4; 5]%N; off := 1; len := 2 |} [7; 8; 9]%N
  = ({| arr := [2; 3; 7; 8; 9]%N; off := 0; len := 5 |}, [1; 2; 3; 4; 5]%N).
Proof. reflexivity. Qed.

Example ex_magic_append :
  append (literal hdr_magic_b2) ver_magic_b2
  = ({| arr := header_magic_bytes BV2; off := 0; len := 15 |}, hdr_magic_b2).
Proof. reflexivity. Qed.

(* hypotheses of the theorems are satisfiable *)
Example ex_hyps :
  let key := {| arr := [7; 7; 7; 9; 9; 9]%N; off := 0; len := 3 |} in
  wf key /\ len key + 3 <= cap key /\ cap (reslice key 6) = len (reslice key 6) /\
  snd (id_input_old key) = [7; 7; 7; 0; 1; 2]%N /\
  snd (id_input_old (reslice key 6)) = [7; 7; 7; 9; 9; 9]%N /\
  contents (id_input_new key) = [7; 7; 7; 0; 1; 2]%N.
Proof. unfold wf, cap. cbn. repeat split; lia. Qed.
