(* Proofs/CertChainSct.v - SerializeSCTList against RFC 6962 section 3.3.    *)
From Coq Require Import Lia ZifyN ZifyNat ZifyBool.
From WP Require Import Base.Prelude Model.Cbor Model.CertChain Spec.Cbor Spec.CertChain.
From WP Require Import Proofs.BaseLemmas Proofs.CborHead Proofs.CborDecode.
Ltac Zify.zify_post_hook ::= Z.div_mod_to_equations.
Open Scope N_scope.

(* ---- the running total is the sum -------------------------------------------- *)
Lemma sct_fold_acc (l : list bytes) : forall acc,
  fold_left (fun a s => a + lenN s + 2) l acc = acc + sct_sum l.
Proof.
  induction l as [|s t IH]; intros acc; cbn [fold_left sct_sum]; [lia|].
  rewrite IH. lia.
Qed.

Lemma sct_total_sum (l : list bytes) : sct_total l = sct_sum l.
Proof. unfold sct_total. rewrite sct_fold_acc. lia. Qed.

Lemma sct_body_flat (l : list bytes) :
  flat_map (fun s => be 2 (lenN s) ++ s) l = sct_body l.
Proof.
  unfold sct_body. rewrite flat_map_concat_map. f_equal.
  apply map_ext. intros s. rewrite sbe_be. reflexivity.
Qed.

Lemma sct_body_cons (s : bytes) (t : list bytes) :
  sct_body (s :: t) = sbe 2 (lenN s) ++ s ++ sct_body t.
Proof. unfold sct_body. cbn [map List.concat]. rewrite <- app_assoc. reflexivity. Qed.

Lemma sbe2_lenN (n : N) : lenN (sbe 2 n) = 2.
Proof. rewrite sbe_be, be_lenN. reflexivity. Qed.

Lemma sct_body_lenN (l : list bytes) : lenN (sct_body l) = sct_sum l.
Proof.
  induction l as [|s t IH]; [reflexivity|].
  rewrite sct_body_cons, !lenN_app, sbe2_lenN, IH. cbn [sct_sum]. lia.
Qed.

(* ---- the size checks ------------------------------------------------------------ *)
Lemma too_long_exists (l : list bytes) :
  existsb (fun s => 65535 <? lenN s) l = true <-> Exists (fun s => 65535 < lenN s) l.
Proof.
  rewrite existsb_exists, Exists_exists.
  split; intros [s [Hin Hs]]; exists s; (split; [exact Hin|lia]).
Qed.

Lemma too_long_forall (l : list bytes) :
  existsb (fun s => 65535 <? lenN s) l = false <-> Forall (fun s => lenN s <= 65535) l.
Proof.
  rewrite Forall_forall. split.
  - intros H s Hin. destruct (N.leb_spec (lenN s) 65535) as [L|L]; [exact L|].
    assert (Hx : existsb (fun s => 65535 <? lenN s) l = true).
    { apply existsb_exists. exists s. split; [exact Hin|lia]. }
    congruence.
  - intros H. destruct (existsb (fun s => 65535 <? lenN s) l) eqn:E; [|reflexivity].
    apply existsb_exists in E. destruct E as [s [Hin Hs]]. specialize (H s Hin). lia.
Qed.

Definition sct_bytes (l : list bytes) : bytes :=
  be 2 (sct_total l) ++ flat_map (fun s => be 2 (lenN s) ++ s) l.

Lemma sct_cases (l : list bytes) :
  (Forall (fun s => lenN s <= 65535) l /\ sct_total l <= 65535 /\
   serialize_sct_list l = Ok (sct_bytes l))
  \/ ((Exists (fun s => 65535 < lenN s) l \/ 65535 < sct_total l) /\
      serialize_sct_list l = Err).
Proof.
  unfold serialize_sct_list.
  destruct (existsb (fun s => 65535 <? lenN s) l) eqn:E1.
  - right. split; [left; apply too_long_exists; exact E1|reflexivity].
  - destruct (65535 <? sct_total l) eqn:E2.
    + right. split; [right; lia|reflexivity].
    + left. split; [apply too_long_forall; exact E1|]. split; [lia|reflexivity].
Qed.

Theorem sct_ok (l : list bytes) (bs : bytes) :
  serialize_sct_list l = Ok bs <->
  (Forall (fun s => lenN s <= 65535) l /\ sct_total l <= 65535) /\ bs = sct_bytes l.
Proof.
  destruct (sct_cases l) as [[HF [Ht E]]|[Hbad E]]; rewrite E.
  - split.
    + intros H. inversion H. repeat split; assumption.
    + intros [_ Hb]. subst bs. reflexivity.
  - split; [discriminate|]. intros [[HF Ht] _]. exfalso.
    destruct Hbad as [Hex|Hgt]; [|lia].
    apply Exists_exists in Hex. destruct Hex as [s [Hin Hs]].
    rewrite Forall_forall in HF. specialize (HF s Hin). lia.
Qed.

Theorem sct_err_iff (l : list bytes) :
  serialize_sct_list l = Err <->
  (Exists (fun s => 65535 < lenN s) l \/ 65535 < sct_total l).
Proof.
  destruct (sct_cases l) as [[HF [Ht E]]|[Hbad E]]; rewrite E.
  - split; [discriminate|]. intros [Hex|Hgt]; [|lia]. exfalso.
    apply Exists_exists in Hex. destruct Hex as [s [Hin Hs]].
    rewrite Forall_forall in HF. specialize (HF s Hin). lia.
  - split; [intros _; exact Hbad|reflexivity].
Qed.

Theorem sct_total_fn (l : list bytes) : ok_or_err (serialize_sct_list l).
Proof. destruct (sct_cases l) as [[_ [_ E]]|[_ E]]; rewrite E; exact I. Qed.

(* ---- the output is the RFC 6962 vector, and conversely --------------------------- *)
Lemma sct_bytes_spec (l : list bytes) : sct_bytes l = sbe 2 (sct_sum l) ++ sct_body l.
Proof. unfold sct_bytes. rewrite sct_body_flat, sct_total_sum, sbe_be. reflexivity. Qed.

Theorem sct_vector (l : list bytes) (bs : bytes) :
  serialize_sct_list l = Ok bs -> SctVector bs l.
Proof.
  intros H. apply sct_ok in H. destruct H as [[HF Ht] Hb].
  unfold SctVector. rewrite <- sct_total_sum.
  split; [exact HF|]. split; [exact Ht|]. rewrite Hb, sct_bytes_spec, sct_total_sum. reflexivity.
Qed.

Theorem sct_vector_iff (l : list bytes) (bs : bytes) :
  serialize_sct_list l = Ok bs <-> SctVector bs l.
Proof.
  split; [apply sct_vector|]. intros [HF [Ht Hb]]. apply sct_ok.
  rewrite sct_total_sum. split; [split; assumption|]. rewrite sct_bytes_spec. exact Hb.
Qed.

(* a failing call: no vector exists for this list *)
Theorem sct_err_no_vector (l : list bytes) :
  serialize_sct_list l = Err <-> forall bs, ~ SctVector bs l.
Proof.
  split.
  - intros E bs Hv. apply sct_vector_iff in Hv. congruence.
  - intros Hno. destruct (sct_cases l) as [[_ [_ E]]|[_ E]]; [|exact E].
    exfalso. apply (Hno (sct_bytes l)). apply sct_vector_iff. exact E.
Qed.

(* ---- the 2-byte prefixes carry the true lengths (no uint16 wrap-around) ---------- *)
Theorem sct_prefix_exact (l : list bytes) (bs : bytes) :
  serialize_sct_list l = Ok bs ->
  unbe (be 2 (sct_total l)) = sct_total l /\
  Forall (fun s => unbe (be 2 (lenN s)) = lenN s) l /\
  lenN bs = 2 + sct_total l.
Proof.
  intros H. apply sct_ok in H. destruct H as [[HF Ht] Hb].
  split; [apply unbe_be_small; cbn; lia|].
  split.
  - eapply Forall_impl; [|exact HF]. cbn beta. intros s Hs. apply unbe_be_small. cbn. lia.
  - subst bs. rewrite sct_bytes_spec, lenN_app, sbe2_lenN, sct_body_lenN, sct_total_sum.
    reflexivity.
Qed.

(* ---- the independent parser inverts the serializer ------------------------------- *)
Lemma splitN_sbe2 (n : N) (r : bytes) : splitN (sbe 2 n ++ r) 2 = Some (sbe 2 n, r).
Proof. pose proof (splitN_app (sbe 2 n) r) as H. rewrite sbe2_lenN in H. exact H. Qed.

Lemma be_val_sbe2 (n : N) : n <= 65535 -> be_val (sbe 2 n) = n.
Proof. intros Hn. rewrite sbe_be. apply be_val_be_small. cbn. lia. Qed.

Lemma sct_items_S (f : nat) (bs : bytes) :
  bs <> [] ->
  sct_items (S f) bs =
  match splitN bs 2 with
  | None => None
  | Some (h, r) =>
      match splitN r (be_val h) with
      | None => None
      | Some (s, r') =>
          match sct_items f r' with Some l => Some (s :: l) | None => None end
      end
  end.
Proof. destruct bs; [contradiction|reflexivity]. Qed.

Lemma sct_items_0 (f : nat) : sct_items f [] = Some [].
Proof. destruct f; reflexivity. Qed.

Lemma sbe2_nonempty (n : N) (r : bytes) : sbe 2 n ++ r <> [].
Proof.
  intros H. apply (f_equal lenN) in H. rewrite lenN_app, sbe2_lenN in H. cbn [lenN] in H. lia.
Qed.

Lemma sct_items_body (l : list bytes) : forall fuel,
  Forall (fun s => lenN s <= 65535) l ->
  (List.length (sct_body l) <= fuel)%nat ->
  sct_items fuel (sct_body l) = Some l.
Proof.
  induction l as [|s t IH]; intros fuel HF Hf.
  - apply sct_items_0.
  - inversion HF as [|? ? Hs Ht]; subst.
    rewrite sct_body_cons in *.
    assert (Hlen : (2 <= List.length (sbe 2 (lenN s)))%nat).
    { pose proof (sbe2_lenN (lenN s)) as H. rewrite lenN_length in H. lia. }
    rewrite !app_length in Hf.
    destruct fuel as [|f]; [lia|].
    rewrite sct_items_S by apply sbe2_nonempty.
    rewrite splitN_sbe2, be_val_sbe2 by exact Hs.
    rewrite splitN_app. rewrite IH; [reflexivity|exact Ht|lia].
Qed.

Theorem sct_parse_inverse (l : list bytes) (bs : bytes) :
  serialize_sct_list l = Ok bs -> sct_parse bs = Some l.
Proof.
  intros H. apply sct_ok in H. destruct H as [[HF Ht] Hb]. subst bs.
  rewrite sct_bytes_spec. rewrite sct_total_sum in Ht.
  unfold sct_parse. rewrite splitN_sbe2, be_val_sbe2 by exact Ht.
  rewrite sct_body_lenN, N.eqb_refl.
  apply sct_items_body; [exact HF|apply Nat.le_refl].
Qed.

(* ... and accepts nothing else: on byte input, whatever it parses is a vector *)
Lemma sbe2_be_val (h : bytes) : wfb h -> lenN h = 2 -> sbe 2 (be_val h) = h /\ be_val h <= 65535.
Proof.
  intros Hw Hl. destruct h as [|a [|b [|c h]]]; cbn [lenN] in Hl; try lia.
  unfold wfb in Hw. inversion Hw as [|? ? Ha Hw']; subst. inversion Hw' as [|? ? Hb _]; subst.
  cbn [be_val lenN sbe app]. change (256 ^ N.succ 0) with 256. change (256 ^ 0) with 1.
  split; [|lia].
  f_equal; [|f_equal]; lia.
Qed.

Lemma sct_items_sound (fuel : nat) : forall bs l,
  wfb bs -> sct_items fuel bs = Some l ->
  bs = sct_body l /\ Forall (fun s => lenN s <= 65535) l.
Proof.
  induction fuel as [|f IH]; intros bs l Hw H.
  - destruct bs; [|discriminate]. inversion H; subst. split; [reflexivity|constructor].
  - destruct bs as [|b0 bs0].
    + inversion H; subst. split; [reflexivity|constructor].
    + rewrite sct_items_S in H by discriminate.
      destruct (splitN (b0 :: bs0) 2) as [[h r]|] eqn:E1; [|discriminate].
      destruct (splitN r (be_val h)) as [[s r']|] eqn:E2; [|discriminate].
      destruct (sct_items f r') as [l0|] eqn:E3; [|discriminate].
      inversion H; subst l.
      apply splitN_spec in E1. destruct E1 as [E1 L1].
      apply splitN_spec in E2. destruct E2 as [E2 L2]. subst r.
      rewrite E1 in Hw. apply wfb_app in Hw. destruct Hw as [Hh Hw].
      apply wfb_app in Hw. destruct Hw as [_ Hr'].
      destruct (IH r' l0 Hr' E3) as [Eb HF].
      destruct (sbe2_be_val h Hh L1) as [Eh Hle].
      split.
      * rewrite E1, sct_body_cons, L2, Eh, <- Eb. reflexivity.
      * constructor; [lia|exact HF].
Qed.

Theorem sct_parse_sound (bs : bytes) (l : list bytes) :
  wfb bs -> sct_parse bs = Some l -> SctVector bs l.
Proof.
  unfold sct_parse. intros Hw H.
  destruct (splitN bs 2) as [[h r]|] eqn:E1; [|discriminate].
  destruct (N.eqb_spec (be_val h) (lenN r)) as [E|E]; [|discriminate].
  apply splitN_spec in E1. destruct E1 as [E1 L1]. subst bs.
  apply wfb_app in Hw. destruct Hw as [Hh Hr].
  destruct (sct_items_sound _ _ _ Hr H) as [Eb HF].
  destruct (sbe2_be_val h Hh L1) as [Eh Hle].
  assert (Es : sct_sum l = be_val h) by (rewrite E, Eb, sct_body_lenN; reflexivity).
  unfold SctVector. split; [exact HF|]. split; [lia|].
  rewrite Es, Eh, <- Eb. reflexivity.
Qed.

Corollary sct_parse_iff (bs : bytes) (l : list bytes) :
  wfb bs -> (sct_parse bs = Some l <-> serialize_sct_list l = Ok bs).
Proof.
  intros Hw. split.
  - intros H. apply sct_vector_iff. apply sct_parse_sound; assumption.
  - apply sct_parse_inverse.
Qed.

(* ---- the RFC's lower bounds are NOT enforced -------------------------------------- *)
(* SerializeSCTList accepts an empty list and empty elements; gen-certurl reaches
   the first with a -sctDir that holds no *.sct file, the second with an empty file *)
Theorem sct_rfc_floor_refuted :
  (exists l bs, serialize_sct_list l = Ok bs /\ ~ SctVectorRfc bs l) /\
  serialize_sct_list [] = Ok [0; 0] /\
  serialize_sct_list [[]] = Ok [0; 2; 0; 0] /\
  ~ SctVectorRfc [0; 0] [] /\ ~ SctVectorRfc [0; 2; 0; 0] [[]].
Proof.
  assert (H1 : ~ SctVectorRfc [0; 0] []) by (intros [_ [H _]]; apply H; reflexivity).
  assert (H2 : ~ SctVectorRfc [0; 2; 0; 0] [[]]).
  { intros [_ [_ H]]. inversion H as [|? ? Hs _]; subst. cbn [lenN] in Hs. lia. }
  split; [exists [], [0; 0]; split; [reflexivity|exact H1]|].
  repeat split; try reflexivity; assumption.
Qed.

(* with the floor as a precondition the output does meet the RFC definition *)
Theorem sct_vector_rfc (l : list bytes) (bs : bytes) :
  l <> [] -> Forall (fun s => 1 <= lenN s) l ->
  serialize_sct_list l = Ok bs -> SctVectorRfc bs l.
Proof.
  intros Hne Hpos H. split; [apply sct_vector; exact H|]. split; assumption.
Qed.
