(* Proofs/BundleWriteSig.v - the signatures section writer: it never fails, and
   its output is one deterministic CBOR item (Spec.Det.DetItem). *)
From Coq Require Import Lia ZifyN ZifyNat ZifyBool Permutation Sorted.
From WP Require Import Base.Prelude Model.Cbor Model.CertChain Model.Bundle Spec.Det.
From WP Require Import Proofs.BaseLemmas Proofs.CborMap Proofs.Variants.
From WP Require Proofs.DetLemmas Proofs.DetSound Proofs.DetEnc.
Open Scope N_scope.

Local Notation two64v := 18446744073709551616.

(* ---- enc_map: what the output tells about the entries ---------------------------- *)
Lemma wfb_flat_map {A} (f : A -> bytes) (l : list A) :
  wfb (flat_map f l) <-> Forall (fun a => wfb (f a)) l.
Proof.
  induction l as [|x t IH]; cbn [flat_map].
  - split; [constructor|intros; constructor].
  - rewrite DetLemmas.wfb_app, IH. split.
    + intros [H1 H2]. constructor; assumption.
    + intros H. inversion H; subst. auto.
Qed.

Lemma lenN_flat_map_in {A} (f : A -> bytes) (l : list A) (a : A) :
  In a l -> lenN (f a) <= lenN (flat_map f l).
Proof.
  induction l as [|x t IH]; intros H; [contradiction|]. cbn [flat_map]. rewrite lenN_app.
  destruct H as [->|H]; [lia|]. specialize (IH H). lia.
Qed.

Lemma enc_map_inv (es : list (bytes * bytes)) (out : bytes) :
  enc_map es = Ok out ->
  (wfb out -> Forall (fun e => wfb (fst e) /\ wfb (snd e)) es) /\
  Forall (fun e => lenN (fst e) + lenN (snd e) <= lenN out) es.
Proof.
  intros H. apply enc_map_ok in H. destruct H as [E _]. subst out. split.
  - intros W. apply DetLemmas.wfb_app in W. destruct W as [_ W]. apply wfb_flat_map in W.
    apply Forall_forall. intros e He. rewrite Forall_forall in W.
    assert (He' : In e (sort_entries es)).
    { eapply Permutation_in; [apply Permutation_sym, sort_entries_perm|exact He]. }
    specialize (W e He'). apply DetLemmas.wfb_app in W. exact W.
  - apply Forall_forall. intros e He.
    assert (He' : In e (sort_entries es)).
    { eapply Permutation_in; [apply Permutation_sym, sort_entries_perm|exact He]. }
    pose proof (lenN_flat_map_in (fun e => fst e ++ snd e) _ _ He') as L.
    cbv beta in L. rewrite lenN_app in L. rewrite lenN_app. lia.
Qed.

Lemma wfb_enc_bytes (s : bytes) : wfb (enc_bytes s) -> wfb s.
Proof. unfold enc_bytes, enc_bytes_of. intros W. apply DetLemmas.wfb_app in W. apply W. Qed.
Lemma lenN_enc_bytes (s : bytes) : lenN s <= lenN (enc_bytes s).
Proof. unfold enc_bytes, enc_bytes_of. rewrite lenN_app. lia. Qed.

(* a constant text key is a deterministic item *)
Lemma key_det (k : string) (kb : bytes) :
  enc_text (s2b k) = Ok kb -> wfbb (s2b k) = true -> lenN (s2b k) <? two64v = true -> DetItem kb.
Proof.
  intros E W L. eapply DetEnc.enc_text_det; [apply wfbb_wfb; exact W| |exact E]. lia.
Qed.

(* ---- AugmentedCertificate.EncodeTo ---------------------------------------------------- *)
Lemma encode_augcert_total (a : augcert) : exists out, encode_augcert a = Ok out.
Proof.
  unfold encode_augcert.
  match goal with |- exists out, enc_map ?es = Ok out => destruct (enc_map_ok_or_err es) as [E|E] end;
    [exfalso|exact E].
  apply enc_map_dup in E. apply E. clear E.
  destruct (ac_ocsp a), (ac_sct a); cbn [opt_entry app map fst]; vm_compute;
    repeat constructor; cbn [In]; intuition discriminate.
Qed.

Lemma pair_ok (ks : string) (s : bytes) :
  In ks ["cert"; "ocsp"; "sct"]%string -> wfb s -> lenN s < two64v ->
  DetSound.PairOK (enc_bytes_of Model.Cbor.TText (s2b ks), enc_bytes s).
Proof.
  intros Hin W L. split; cbn [fst snd].
  - cbn [In] in Hin.
    destruct Hin as [<-|[<-|[<-|[]]]].
    + apply (key_det "cert"); [vm_compute; reflexivity|reflexivity|reflexivity].
    + apply (key_det "ocsp"); [vm_compute; reflexivity|reflexivity|reflexivity].
    + apply (key_det "sct"); [vm_compute; reflexivity|reflexivity|reflexivity].
  - apply DetEnc.enc_bytes_det; assumption.
Qed.

Definition is_field (e : bytes * bytes) : Prop :=
  exists (ks : string) (s : bytes),
    In ks ["cert"; "ocsp"; "sct"]%string /\
    e = (enc_bytes_of Model.Cbor.TText (s2b ks), enc_bytes s).

Lemma opt_entry_fields (k : string) (o : option bytes) :
  In k ["cert"; "ocsp"; "sct"]%string -> Forall is_field (opt_entry k o).
Proof.
  intros Hk. destruct o as [b|]; cbn [opt_entry]; [|constructor].
  constructor; [|constructor]. exists k, b. auto.
Qed.

Lemma encode_augcert_det (a : augcert) (out : bytes) :
  encode_augcert a = Ok out -> wfb out -> lenN out < two64v -> DetItem out.
Proof.
  unfold encode_augcert. intros E W L.
  destruct (enc_map_inv _ _ E) as [IW IL]. specialize (IW W).
  eapply DetEnc.enc_map_det; [| |exact E].
  2:{ destruct (ac_ocsp a), (ac_sct a); cbn [opt_entry app lenN]; lia. }
  assert (Fs : Forall is_field ([(enc_bytes_of Model.Cbor.TText (s2b "cert"), enc_bytes (ac_cert a))]
                                ++ opt_entry "ocsp" (ac_ocsp a) ++ opt_entry "sct" (ac_sct a))).
  { apply Forall_app. split.
    - constructor; [|constructor]. exists "cert"%string, (ac_cert a). split; [cbn; auto|reflexivity].
    - apply Forall_app. split; apply opt_entry_fields; cbn; auto. }
  rewrite Forall_forall in IW, IL, Fs. apply Forall_forall. intros e He.
  specialize (IW _ He). specialize (IL _ He). destruct (Fs _ He) as [ks [s [Hks Ee]]].
  rewrite Ee in *. cbn [fst snd] in IW, IL. destruct IW as [_ Wv].
  apply pair_ok; [exact Hks|apply wfb_enc_bytes; exact Wv|].
  pose proof (lenN_enc_bytes s). lia.
Qed.

Lemma encode_all_spec (l : list augcert) :
  exists items, encode_all l = Ok (List.concat items) /\
                Forall2 (fun a it => encode_augcert a = Ok it) l items.
Proof.
  induction l as [|a t [items [E F]]]; cbn [encode_all].
  - exists []. split; [reflexivity|constructor].
  - destruct (encode_augcert_total a) as [it Ea]. rewrite Ea, E. cbn [bind].
    exists (it :: items). split; [reflexivity|constructor; assumption].
Qed.

(* ---- vouched subsets ------------------------------------------------------------------ *)
Definition vouched_entries (v : vouched) : list (bytes * bytes) :=
  [(enc_bytes_of Model.Cbor.TText (s2b "authority"), enc_uint (vs_authority v));
   (enc_bytes_of Model.Cbor.TText (s2b "sig"), enc_bytes (vs_sig v));
   (enc_bytes_of Model.Cbor.TText (s2b "signed"), enc_bytes (vs_signed v))].

Fixpoint vouched_go (l : list vouched) : R bytes :=
  match l with
  | [] => Ok []
  | v :: t => let* m := enc_map (vouched_entries v) in let* r := vouched_go t in Ok (m ++ r)
  end.

Lemma signatures_section_eq (s : signatures) :
  signatures_section s =
  let* auths := encode_all (sg_auth s) in
  let* vss := vouched_go (sg_vouched s) in
  Ok (enc_array_header 2 ++ enc_array_header (lenN (sg_auth s)) ++ auths
      ++ enc_array_header (lenN (sg_vouched s)) ++ vss).
Proof. reflexivity. Qed.

Lemma vouched_total (v : vouched) : exists out, enc_map (vouched_entries v) = Ok out.
Proof.
  destruct (enc_map_ok_or_err (vouched_entries v)) as [E|E]; [exfalso|exact E].
  apply enc_map_dup in E. apply E. unfold vouched_entries. cbn [map fst]. vm_compute.
  repeat constructor; cbn [In]; intuition discriminate.
Qed.

Lemma vouched_go_spec (l : list vouched) :
  exists items, vouched_go l = Ok (List.concat items) /\
                Forall2 (fun v it => enc_map (vouched_entries v) = Ok it) l items.
Proof.
  induction l as [|v t [items [E F]]]; cbn [vouched_go].
  - exists []. split; [reflexivity|constructor].
  - destruct (vouched_total v) as [it Ev]. rewrite Ev, E. cbn [bind].
    exists (it :: items). split; [reflexivity|constructor; assumption].
Qed.

Lemma vouched_det (v : vouched) (out : bytes) :
  enc_map (vouched_entries v) = Ok out -> wfb out -> lenN out < two64v ->
  vs_authority v < two64v -> DetItem out.
Proof.
  intros E W L A. destruct (enc_map_inv _ _ E) as [IW IL]. specialize (IW W).
  eapply DetEnc.enc_map_det; [| |exact E]; [|cbn [vouched_entries lenN]; lia].
  rewrite Forall_forall in IW, IL.
  assert (Wv : forall k x, In (k, x) (vouched_entries v) -> wfb x /\ lenN x <= lenN out).
  { intros k x Hin. specialize (IW _ Hin). specialize (IL _ Hin). cbn [fst snd] in *. split; [tauto|lia]. }
  unfold vouched_entries in *.
  destruct (Wv _ _ (or_intror (or_introl eq_refl))) as [W2 L2].
  destruct (Wv _ _ (or_intror (or_intror (or_introl eq_refl)))) as [W3 L3].
  repeat (apply Forall_cons || apply Forall_nil); (split; cbn [fst snd]).
  - apply (key_det "authority"); [vm_compute; reflexivity|reflexivity|reflexivity].
  - apply DetEnc.enc_uint_det. exact A.
  - apply (key_det "sig"); [vm_compute; reflexivity|reflexivity|reflexivity].
  - apply DetEnc.enc_bytes_det; [apply wfb_enc_bytes; exact W2|].
    pose proof (lenN_enc_bytes (vs_sig v)). lia.
  - apply (key_det "signed"); [vm_compute; reflexivity|reflexivity|reflexivity].
  - apply DetEnc.enc_bytes_det; [apply wfb_enc_bytes; exact W3|].
    pose proof (lenN_enc_bytes (vs_signed v)). lia.
Qed.

(* ---- the whole section ------------------------------------------------------------------ *)
Theorem signatures_section_total (s : signatures) : exists out, signatures_section s = Ok out.
Proof.
  rewrite signatures_section_eq.
  destruct (encode_all_spec (sg_auth s)) as [ia [Ea _]].
  destruct (vouched_go_spec (sg_vouched s)) as [iv [Ev _]].
  rewrite Ea, Ev. cbn [bind]. eauto.
Qed.

Lemma lenN_concat_in (items : list bytes) (it : bytes) :
  In it items -> lenN it <= lenN (List.concat items).
Proof.
  induction items as [|x t IH]; intros H; [contradiction|]. cbn [List.concat]. rewrite lenN_app.
  destruct H as [->|H]; [lia|]. specialize (IH H). lia.
Qed.

Lemma Forall2_lenN {A B} (P : A -> B -> Prop) (l : list A) (l' : list B) :
  Forall2 P l l' -> lenN l = lenN l'.
Proof. induction 1; cbn [lenN]; [reflexivity|]. lia. Qed.

(* an array head for the items, then the items, all deterministic *)
Lemma array_det {A} (P : A -> bytes -> Prop) (l : list A) (items : list bytes) :
  Forall2 P l items ->
  (forall a it, P a it -> In a l -> wfb it -> lenN it < two64v -> DetItem it) ->
  wfb (List.concat items) -> lenN (List.concat items) < two64v ->
  DetItem (enc_array_header (lenN l) ++ List.concat items).
Proof.
  intros F Hdet W L.
  assert (D : Forall DetItem items).
  { apply DetLemmas.wfb_concat in W. rewrite Forall_forall in W.
    assert (G : forall a it, In a l -> P a it -> In it items -> DetItem it).
    { intros a it Ha Hp Hi. apply (Hdet a it Hp Ha); [apply W; exact Hi|].
      pose proof (lenN_concat_in _ _ Hi). lia. }
    clear Hdet W L. induction F as [|a it l' items' Hp F IH]; [constructor|].
    constructor.
    - apply (G a it); [left; reflexivity|exact Hp|left; reflexivity].
    - apply IH. intros a' it' Ha' Hp' Hi'. apply (G a' it'); [right; exact Ha'|exact Hp'|right; exact Hi']. }
  rewrite (Forall2_lenN _ _ _ F). apply DetEnc.enc_array_det; [exact D|].
  pose proof (DetComplete.concat_len_ge items D). lia.
Qed.

Theorem signatures_section_det (s : signatures) (out : bytes) :
  signatures_section s = Ok out -> wfb out -> lenN out < two64v ->
  Forall (fun v => vs_authority v < two64v) (sg_vouched s) -> DetItem out.
Proof.
  rewrite signatures_section_eq.
  destruct (encode_all_spec (sg_auth s)) as [ia [Ea Fa]].
  destruct (vouched_go_spec (sg_vouched s)) as [iv [Ev Fv]].
  rewrite Ea, Ev. cbn [bind]. intros H W L A. injection H as H. subst out.
  pose (x := enc_array_header (lenN (sg_auth s)) ++ List.concat ia).
  pose (y := enc_array_header (lenN (sg_vouched s)) ++ List.concat iv).
  assert (E : enc_array_header 2 ++ enc_array_header (lenN (sg_auth s)) ++ List.concat ia
              ++ enc_array_header (lenN (sg_vouched s)) ++ List.concat iv
              = enc_array_header (lenN [x; y]) ++ List.concat [x; y]).
  { unfold x, y. cbn [List.concat]. rewrite app_nil_r, <- !app_assoc. reflexivity. }
  change (enc_array_header 2) with [130] in E. cbn [app] in E. rewrite E in *. clear E.
  apply DetLemmas.wfb_app in W. destruct W as [_ W]. cbn [List.concat] in W. rewrite app_nil_r in W.
  apply DetLemmas.wfb_app in W. destruct W as [Wx Wy].
  rewrite lenN_app in L. cbn [List.concat] in L. rewrite app_nil_r, lenN_app in L.
  apply DetEnc.enc_array_det; [|cbn [lenN]; lia].
  unfold x, y in *. apply DetLemmas.wfb_app in Wx. apply DetLemmas.wfb_app in Wy.
  rewrite !lenN_app in L.
  constructor; [|constructor; [|constructor]].
  - eapply array_det; [exact Fa| |apply Wx|lia].
    intros a it Ha _ Wi Li. cbv beta in Ha. eapply encode_augcert_det; eassumption.
  - eapply array_det; [exact Fv| |apply Wy|lia].
    intros v it Hv Hin Wi Li. cbv beta in Hv. eapply vouched_det; try eassumption.
    rewrite Forall_forall in A. apply A. exact Hin.
Qed.
