(* Proofs/BundleWriteSig.v - the signatures section writer: it never fails, and
   its output is one deterministic CBOR item (Spec.Det.DetItem). *)
From Coq Require Import Lia ZifyN ZifyNat ZifyBool Permutation Sorted.
From WP Require Import Base.Prelude Model.Cbor Model.CertChain Model.Bundle Spec.Det.
From WP Require Import Proofs.BaseLemmas Proofs.CborMap Proofs.Variants.
From WP Require Proofs.DetLemmas Proofs.DetSound Proofs.DetEnc.
Open Scope N_scope.

Local Notation two64v := 18446744073709551616.

(* ---- enc_map: what the output tells about the entries ---------------------------- *)
Lemma wfb_flat_map {A} (f : A -> bytes) (l : list A) :
  wfb (flat_map f l) <-> Forall (fun a => wfb (f a)) l.
Proof.
  induction l as [|x t IH]; cbn [flat_map].
  - split; [constructor|intros; constructor].
  - rewrite DetLemmas.wfb_app, IH. split.
    + intros [H1 H2]. constructor; assumption.
    + intros H. inversion H; subst. auto.
Qed.

Lemma lenN_flat_map_in {A} (f : A -> bytes) (l : list A) (a : A) :
  In a l -> lenN (f a) <= lenN (flat_map f l).
Proof.
  induction l as [|x t IH]; intros H; [contradiction|]. cbn [flat_map]. rewrite lenN_app.
  destruct H as [->|H]; [lia|]. specialize (IH H). lia.
Qed.

Lemma enc_map_inv (es : list (bytes * bytes)) (out : bytes) :
  enc_map es = Ok out ->
  (wfb out -> Forall (fun e => wfb (fst e) /\ wfb (snd e)) es) /\
  Forall (fun e => lenN (fst e) + lenN (snd e) <= lenN out) es.
Proof.
  intros H. apply enc_map_ok in H. destruct H as [E _]. subst out. split.
  - intros W. apply DetLemmas.wfb_app in W. destruct W as [_ W]. apply wfb_flat_map in W.
    apply Forall_forall. intros e He. rewrite Forall_forall in W.
    assert (He' : In e (sort_entries es)).
    { eapply Permutation_in; [apply Permutation_sym, sort_entries_perm|exact He]. }
    specialize (W e He'). apply DetLemmas.wfb_app in W. exact W.
  - apply Forall_forall. intros e He.
    assert (He' : In e (sort_entries es)).
    { eapply Permutation_in; [apply Permutation_sym, sort_entries_perm|exact He]. }
    pose proof (lenN_flat_map_in (fun e => fst e ++ snd e) _ _ He') as L.
    cbv beta in L. rewrite lenN_app in L. rewrite lenN_app. lia.
Qed.

Lemma wfb_enc_bytes (s : bytes) : wfb (enc_bytes s) -> wfb s.
Proof. unfold enc_bytes, enc_bytes_of. intros W. apply DetLemmas.wfb_app in W. apply W. Qed.
Lemma lenN_enc_bytes (s : bytes) : lenN s <= lenN (enc_bytes s).
Proof. unfold enc_bytes, enc_bytes_of. rewrite lenN_app. lia. Qed.

(* a constant text key is a deterministic item *)
Lemma key_det (k : string) (kb : bytes) :
  enc_text (s2b k) = Ok kb -> wfbb (s2b k) = true -> lenN (s2b k) <? two64v = true -> DetItem kb.
Proof.
  intros E W L. eapply DetEnc.enc_text_det; [apply wfbb_wfb; exact W| |exact E]. lia.
Qed.

(* ---- AugmentedCertificate.EncodeTo ---------------------------------------------------- *)
Lemma encode_augcert_total (a : augcert) : exists out, encode_augcert a = Ok out.
Proof.
  unfold encode_augcert.
  match goal with |- exists out, enc_map ?es = Ok out => destruct (enc_map_ok_or_err es) as [E|E] end;
    [exfalso|exact E].
  apply enc_map_dup in E. apply E. clear E.
  destruct (ac_ocsp a), (ac_sct a); cbn [opt_entry app map fst]; vm_compute;
    repeat constructor; cbn [In]; intuition discriminate.
Qed.

Lemma pair_ok (ks : string) (s : bytes) :
  In ks ["cert"; "ocsp"; "sct"]%string -> wfb s -> lenN s < two64v ->
  DetSound.PairOK (enc_bytes_of Model.Cbor.TText (s2b ks), enc_bytes s).
Proof.
  intros Hin W L. split; cbn [fst snd].
  - cbn [In] in Hin.
    destruct Hin as [<-|[<-|[<-|[]]]].
    + apply (key_det "cert"); [vm_compute; reflexivity|reflexivity|reflexivity].
    + apply (key_det "ocsp"); [vm_compute; reflexivity|reflexivity|reflexivity].
    + apply (key_det "sct"); [vm_compute; reflexivity|reflexivity|reflexivity].
  - apply DetEnc.enc_bytes_det; assumption.
Qed.

Definition is_field (e : bytes * bytes) : Prop :=
  exists ks s, In ks ["cert"; "ocsp"; "sct"]%string /               e = (enc_bytes_of Model.Cbor.TText (s2b ks), enc_bytes s).

Lemma opt_entry_fields (k : string) (o : option bytes) :
  In k ["cert"; "ocsp"; "sct"]%string -> Forall is_field (opt_entry k o).
Proof.
  intros Hk. destruct o as [b|]; cbn [opt_entry]; [|constructor].
  constructor; [|constructor]. exists k, b. auto.
Qed.

Lemma encode_augcert_det (a : augcert) (out : bytes) :
  encode_augcert a = Ok out -> wfb out -> lenN out < two64v -> DetItem out.
Proof.
  unfold encode_augcert. intros E W L.
  destruct (enc_map_inv _ _ E) as [IW IL]. specialize (IW W).
  eapply DetEnc.enc_map_det; [| |exact E].
  2:{ destruct (ac_ocsp a), (ac_sct a); cbn [opt_entry app lenN]; lia. }
  assert (Fs : Forall is_field ([(enc_bytes_of Model.Cbor.TText (s2b "cert"), enc_bytes (ac_cert a))]
                                ++ opt_entry "ocsp" (ac_ocsp a) ++ opt_entry "sct" (ac_sct a))).
  { apply Forall_app. split.
    - constructor; [|constructor]. exists "cert"%string, (ac_cert a). split; [cbn; auto|reflexivity].
    - apply Forall_app. split; apply opt_entry_fields; cbn; auto. }
  rewrite Forall_forall in IW, IL, Fs. apply Forall_forall. intros e He.
  specialize (IW _ He). specialize (IL _ He). destruct (Fs _ He) as [ks [s [Hks Ee]]].
  rewrite Ee in *. cbn [fst snd] in IW, IL. destruct IW as [_ Wv].
  apply pair_ok; [exact Hks|apply wfb_enc_bytes; exact Wv|].
  pose proof (lenN_enc_bytes s). lia.
Qed.
