(* Proofs/TotalitySize.v - C10, "declared lengths and counts are never trusted
   for allocation": what a parser hands back is made of bytes it actually
   consumed, so its size is bounded by the size of the input whatever lengths
   the input announces.

   - CBOR byte/text strings: the returned string and the remaining input are
     disjoint parts of the input (plus at least one head byte);
   - signed exchange: fallback URL + Signature header + payload fit in the file;
   - certificate chain: the DER / OCSP / SCT strings of all certificates fit in
     the file (even when a map repeats a key: the later value replaces the
     earlier one, it does not add to it). *)
From Coq Require Import Lia ZifyN ZifyNat ZifyBool.
From WP Require Import Base.Prelude Model.Cbor Model.Http Model.CertChain Model.Sxg.
From WP Require Import Spec.Cbor.
From WP Require Import Proofs.BaseLemmas Proofs.CborHead Proofs.CborDecode Proofs.CertChainRead.
Open Scope N_scope.

Lemma bind_ok_inv {A B} (x : R A) (f : A -> R B) (b : B) :
  bind x f = Ok b -> exists a, x = Ok a /\ f a = Ok b.
Proof. destruct x as [a| | |]; cbn [bind]; try discriminate. intros H. exists a. auto. Qed.

Lemma of_opt_ok_inv {A} (o : option A) (a : A) : of_opt o = Ok a -> o = Some a.
Proof. destruct o; cbn [of_opt]; [intros H; inversion H; reflexivity|discriminate]. Qed.

(* ---- CBOR ------------------------------------------------------------------------- *)
Theorem decode_head_size (t n : N) (bs r : bytes) :
  major_const t -> decode_of_type t bs = Ok (n, r) -> lenN r < lenN bs /\ lenN bs <= lenN r + 9.
Proof.
  intros Ht H. destruct (decode_consumes t n bs r Ht H) as (h & E & Hl). subst bs.
  rewrite lenN_app. lia.
Qed.

Theorem decode_bytes_size (bs s r : bytes) :
  decode_bytes bs = Ok (s, r) -> lenN s + lenN r < lenN bs.
Proof.
  intros H. destruct (decode_bytes_sound bs s r H) as (h & w & E & Hl & _). subst bs.
  rewrite !lenN_app. lia.
Qed.

Theorem decode_text_size (bs s r : bytes) :
  decode_text bs = Ok (s, r) -> lenN s + lenN r < lenN bs.
Proof.
  intros H. destruct (decode_text_sound bs s r H) as (h & w & E & Hl & _). subst bs.
  rewrite !lenN_app. lia.
Qed.

(* the string is literally a segment of the input *)
Theorem decode_bytes_segment (bs s r : bytes) :
  decode_bytes bs = Ok (s, r) -> exists h, bs = h ++ s ++ r /\ 1 <= lenN h <= 9.
Proof.
  intros H. destruct (decode_bytes_sound bs s r H) as (h & w & E & Hl & Hs).
  exists h. split; [exact E|]. pose proof (shead_width _ _ _ _ _ Hs). lia.
Qed.

Lemma mc_array : major_const TArray. Proof. split; reflexivity. Qed.
Lemma mc_map : major_const MMap. Proof. split; reflexivity. Qed.

(* ---- signed exchange --------------------------------------------------------------- *)
Lemma dec_response_map_uri : forall (fuel : nat) (n : N) (bs : bytes) (s s' : hstate) (r : bytes),
  dec_response_map fuel n bs s = Ok (s', r) -> h_uri s' = h_uri s.
Proof.
  induction fuel as [|f IH]; intros n bs s s' r E; [discriminate|].
  cbn [dec_response_map] in E. destruct (n =? 0); [inversion E; reflexivity|].
  destruct (decode_bytes bs) as [[key r1]| | |]; cbn [bind] in E; try discriminate.
  assert (G : forall t,
    (let* (value, r2) := decode_bytes r1 in
     if bytes_eqb key key_status then
       match atoi value with
       | None => Err
       | Some st =>
           dec_response_map f (n - 1) r2
             {| h_method := h_method s; h_uri := h_uri s; h_req := h_req s; h_status := st;
                h_resp := h_resp s; h_taint := t |}
       end
     else
       dec_response_map f (n - 1) r2
         {| h_method := h_method s; h_uri := h_uri s; h_req := h_req s; h_status := h_status s;
            h_resp := hdr_add (h_resp s) key value; h_taint := t |}) = Ok (s', r) ->
    h_uri s' = h_uri s).
  { intros t G. destruct (decode_bytes r1) as [[value r2]| | |]; cbn [bind] in G; try discriminate.
    destruct (bytes_eqb key key_status).
    - destruct (atoi value); [|discriminate]. apply IH in G. exact G.
    - apply IH in G. exact G. }
  destruct (lower_check key) as [[|]|]; [apply (G _ E)|discriminate|apply (G _ E)].
Qed.

(* the URL a b1 request map may set is a string decoded from the map's bytes *)
Lemma dec_request_map_uri (v : version) : forall (fuel : nat) (n : N) (bs : bytes) (s s' : hstate) (r : bytes),
  dec_request_map fuel v n bs s = Ok (s', r) ->
  lenN (h_uri s') <= N.max (lenN (h_uri s)) (lenN bs).
Proof.
  induction fuel as [|f IH]; intros n bs s s' r E; [discriminate|].
  cbn [dec_request_map] in E. destruct (n =? 0); [inversion E; lia|].
  destruct (decode_bytes bs) as [[key r1]| | |] eqn:D1; cbn [bind] in E; try discriminate.
  apply decode_bytes_size in D1.
  assert (G : forall t,
    (let* (value, r2) := decode_bytes r1 in
     if bytes_eqb key key_method then
       dec_request_map f v (n - 1) r2
         {| h_method := value; h_uri := h_uri s; h_req := h_req s; h_status := h_status s;
            h_resp := h_resp s; h_taint := t |}
     else if bytes_eqb key key_url then
       match v with
       | V1b1 =>
           let '(ok, tn) := validate_fallback value in
           if ok then
             dec_request_map f v (n - 1) r2
               {| h_method := h_method s; h_uri := value; h_req := h_req s;
                  h_status := h_status s; h_resp := h_resp s; h_taint := t || tn |}
           else Err
       | _ => Err
       end
     else
       dec_request_map f v (n - 1) r2
         {| h_method := h_method s; h_uri := h_uri s; h_req := hdr_add (h_req s) key value;
            h_status := h_status s; h_resp := h_resp s; h_taint := t |}) = Ok (s', r) ->
    lenN (h_uri s') <= N.max (lenN (h_uri s)) (lenN bs)).
  { intros t G. destruct (decode_bytes r1) as [[value r2]| | |] eqn:D2; cbn [bind] in G; try discriminate.
    apply decode_bytes_size in D2.
    destruct (bytes_eqb key key_method); [apply IH in G; cbn [h_uri] in G; lia|].
    destruct (bytes_eqb key key_url); [|apply IH in G; cbn [h_uri] in G; lia].
    destruct v; try discriminate. destruct (validate_fallback value) as [ok tn].
    destruct ok; [apply IH in G; cbn [h_uri] in G; lia|discriminate]. }
  destruct (lower_check key) as [[|]|]; [apply (G _ E)|discriminate|apply (G _ E)].
Qed.

Lemma decode_exchange_headers_uri (v : version) (bs : bytes) (s s' : hstate) :
  decode_exchange_headers v bs s = Ok s' ->
  lenN (h_uri s') <= N.max (lenN (h_uri s)) (lenN bs).
Proof.
  unfold decode_exchange_headers. cbv zeta. destruct (has_request v).
  - intros E. apply bind_ok_inv in E. destruct E as ([n r] & E1 & E).
    apply decode_head_size in E1; [|exact mc_array].
    destruct (negb (n =? 2)); [discriminate|].
    apply bind_ok_inv in E. destruct E as ([m r1] & E2 & E).
    apply decode_head_size in E2; [|exact mc_map].
    apply bind_ok_inv in E. destruct E as ([s1 r2] & E3 & E).
    apply dec_request_map_uri in E3.
    apply bind_ok_inv in E. destruct E as ([m2 r3] & E4 & E).
    apply bind_ok_inv in E. destruct E as ([s2 r4] & E5 & E).
    apply dec_response_map_uri in E5. inversion E; subst s'. rewrite E5. lia.
  - intros E. apply bind_ok_inv in E. destruct E as ([m2 r3] & E4 & E).
    apply bind_ok_inv in E. destruct E as ([s2 r4] & E5 & E).
    apply dec_response_map_uri in E5. inversion E; subst s'. rewrite E5. cbn [h_uri]. lia.
Qed.

Theorem read_prologue_size (bs : bytes) (e : exchange) (rest : bytes) :
  read_prologue bs = Ok (e, rest) ->
  lenN (e_uri e) + lenN (e_sig e) + lenN rest <= lenN bs.
Proof.
  unfold read_prologue. intros E.
  apply bind_ok_inv in E. destruct E as ([magic r0] & S0 & E).
  apply of_opt_ok_inv, splitN_spec in S0. destruct S0 as [B0 L0].
  apply bind_ok_inv in E. destruct E as (v & _ & E).
  apply bind_ok_inv in E. destruct E as ([[uri taint] r1] & EU & E).
  assert (HU : lenN uri + lenN r1 <= lenN r0).
  { destruct v.
    - inversion EU; subst. cbn [lenN]. lia.
    - apply bind_ok_inv in EU. destruct EU as ([lb ra] & S1 & EU).
      apply of_opt_ok_inv, splitN_spec in S1. destruct S1 as [B1 L1].
      apply bind_ok_inv in EU. destruct EU as ([u rb] & S2 & EU).
      apply of_opt_ok_inv, splitN_spec in S2. destruct S2 as [B2 L2].
      destruct (validate_fallback u) as [ok t]. destruct ok; [|discriminate].
      inversion EU; subst. rewrite !lenN_app. lia.
    - apply bind_ok_inv in EU. destruct EU as ([lb ra] & S1 & EU).
      apply of_opt_ok_inv, splitN_spec in S1. destruct S1 as [B1 L1].
      apply bind_ok_inv in EU. destruct EU as ([u rb] & S2 & EU).
      apply of_opt_ok_inv, splitN_spec in S2. destruct S2 as [B2 L2].
      destruct (validate_fallback u) as [ok t]. destruct ok; [|discriminate].
      inversion EU; subst. rewrite !lenN_app. lia. }
  apply bind_ok_inv in E. destruct E as ([sl r2] & S3 & E).
  apply of_opt_ok_inv, splitN_spec in S3. destruct S3 as [B3 L3].
  apply bind_ok_inv in E. destruct E as ([hl r3] & S4 & E).
  apply of_opt_ok_inv, splitN_spec in S4. destruct S4 as [B4 L4].
  apply bind_ok_inv in E. destruct E as ([sig r4] & S5 & E).
  apply of_opt_ok_inv, splitN_spec in S5. destruct S5 as [B5 L5].
  apply bind_ok_inv in E. destruct E as ([hdr r5] & S6 & E).
  apply of_opt_ok_inv, splitN_spec in S6. destruct S6 as [B6 L6].
  apply bind_ok_inv in E. destruct E as (s & ED & E).
  apply decode_exchange_headers_uri in ED. cbn [h_uri] in ED.
  inversion E; subst e rest. cbn [e_uri e_sig].
  subst bs r1 r2 r3 r4. rewrite !lenN_app in *. lia.
Qed.

Theorem read_size (bs : bytes) (e : exchange) :
  read bs = Ok e -> lenN (e_uri e) + lenN (e_sig e) + lenN (e_payload e) <= lenN bs.
Proof.
  unfold read. intros E. apply bind_ok_inv in E. destruct E as ([e0 rest] & E0 & E).
  apply read_prologue_size in E0. inversion E; subst e. cbn [e_uri e_sig e_payload]. exact E0.
Qed.

(* ---- certificate chain ----------------------------------------------------------- *)
Definition osize (o : option bytes) : N := match o with Some b => lenN b | None => 0 end.
Definition aug_size (a : augcert) : N := lenN (ac_cert a) + osize (ac_ocsp a) + osize (ac_sct a).
Fixpoint chain_size (c : list augcert) : N :=
  match c with [] => 0 | a :: t => aug_size a + chain_size t end.

Lemma chain_size_app (a b : list augcert) : chain_size (a ++ b) = chain_size a + chain_size b.
Proof. induction a as [|x a IH]; cbn [app chain_size]; [reflexivity|]. rewrite IH. lia. Qed.

Lemma chain_size_rev (a : list augcert) : chain_size (rev a) = chain_size a.
Proof.
  induction a as [|x a IH]; cbn [rev chain_size]; [reflexivity|].
  rewrite chain_size_app, IH. cbn [chain_size]. lia.
Qed.

Section Read.
  Variable x509_ok : bytes -> bool.

  Lemma dec_entries_size : forall (f : nat) (m : N) (bs : bytes) (c o s c' o' s' : option bytes) (r : bytes),
    dec_entries x509_ok f m bs c o s = Ok (c', o', s', r) ->
    osize c' + osize o' + osize s' + lenN r <= osize c + osize o + osize s + lenN bs.
  Proof.
    induction f as [|f IH]; intros m bs c o s c' o' s' r E; [discriminate|].
    rewrite dec_entries_S in E. destruct (m =? 0); [inversion E; subst; lia|].
    destruct (decode_text bs) as [[k r1]| | |] eqn:E1; cbn [bind] in E; try discriminate.
    destruct (decode_bytes r1) as [[v r2]| | |] eqn:E2; cbn [bind] in E; try discriminate.
    apply decode_text_size in E1. apply decode_bytes_size in E2.
    destruct (bytes_eqb k kcert && negb (x509_ok v)); [discriminate|].
    apply IH in E.
    destruct (bytes_eqb k kcert) eqn:K1.
    - apply bytes_eqb_eq in K1. subst k.
      change (bytes_eqb kcert kocsp) with false in E. change (bytes_eqb kcert ksct) with false in E.
      cbn [osize] in E. lia.
    - destruct (bytes_eqb k kocsp) eqn:K2.
      + apply bytes_eqb_eq in K2. subst k. change (bytes_eqb kocsp ksct) with false in E.
        cbn [osize] in E. lia.
      + destruct (bytes_eqb k ksct); cbn [osize] in E; lia.
  Qed.

  Lemma decode_augcert_size (bs : bytes) (a : augcert) (r : bytes) :
    decode_augcert x509_ok bs = Ok (a, r) -> aug_size a + lenN r < lenN bs.
  Proof.
    unfold decode_augcert. intros E.
    apply bind_ok_inv in E. destruct E as ([m r0] & E0 & E).
    apply decode_head_size in E0; [|exact mc_map].
    apply bind_ok_inv in E. destruct E as ([[[c o] s] r'] & E1 & E).
    apply dec_entries_size in E1. cbn [osize] in E1.
    destruct c as [der|]; [|discriminate]. inversion E; subst a r.
    unfold aug_size. cbn [ac_cert ac_ocsp ac_sct osize] in *. lia.
  Qed.

  Lemma dec_chain_size : forall (f : nat) (n : N) (bs : bytes) (acc c : list augcert) (r : bytes),
    dec_chain x509_ok f n bs acc = Ok (c, r) ->
    chain_size c + lenN r <= chain_size acc + lenN bs.
  Proof.
    induction f as [|f IH]; intros n bs acc c r E; [discriminate|].
    rewrite dec_chain_S in E. destruct (n =? 0).
    - inversion E; subst. rewrite chain_size_rev. lia.
    - apply bind_ok_inv in E. destruct E as ([a r0] & E0 & E).
      apply decode_augcert_size in E0. apply IH in E. cbn [chain_size] in E. lia.
  Qed.

  (* all the byte strings of all the certificates together are shorter than the file *)
  Theorem cc_read_size (bs : bytes) (c : list augcert) :
    cc_read x509_ok bs = Ok c -> chain_size c < lenN bs.
  Proof.
    unfold cc_read. intros E.
    apply bind_ok_inv in E. destruct E as ([n r] & E0 & E).
    apply decode_head_size in E0; [|exact mc_array].
    destruct (n <? 2); [discriminate|].
    apply bind_ok_inv in E. destruct E as ([magic r1] & E1 & E).
    apply decode_text_size in E1.
    destruct (negb (bytes_eqb magic cc_magic)); [discriminate|].
    apply bind_ok_inv in E. destruct E as ([c0 r2] & E2 & E).
    apply dec_chain_size in E2. cbn [chain_size] in E2.
    destruct (validate c0); [|discriminate]. inversion E; subst c. lia.
  Qed.

  (* ... and the number of certificates is bounded by the input too, whatever
     the array header says *)
  Lemma dec_chain_count : forall (f : nat) (n : N) (bs : bytes) (acc c : list augcert) (r : bytes),
    dec_chain x509_ok f n bs acc = Ok (c, r) -> lenN c + lenN r <= lenN acc + lenN bs.
  Proof.
    induction f as [|f IH]; intros n bs acc c r E; [discriminate|].
    rewrite dec_chain_S in E. destruct (n =? 0).
    - inversion E; subst. rewrite !lenN_length, rev_length. lia.
    - apply bind_ok_inv in E. destruct E as ([a r0] & E0 & E).
      apply decode_augcert_size in E0. apply IH in E. cbn [lenN] in E. lia.
  Qed.

  Theorem cc_read_count (bs : bytes) (c : list augcert) :
    cc_read x509_ok bs = Ok c -> lenN c < lenN bs.
  Proof.
    unfold cc_read. intros E.
    apply bind_ok_inv in E. destruct E as ([n r] & E0 & E).
    apply decode_head_size in E0; [|exact mc_array].
    destruct (n <? 2); [discriminate|].
    apply bind_ok_inv in E. destruct E as ([magic r1] & E1 & E).
    apply decode_text_size in E1.
    destruct (negb (bytes_eqb magic cc_magic)); [discriminate|].
    apply bind_ok_inv in E. destruct E as ([c0 r2] & E2 & E).
    apply dec_chain_count in E2. cbn [lenN] in E2.
    destruct (validate c0); [|discriminate]. inversion E; subst c. lia.
  Qed.
End Read.
