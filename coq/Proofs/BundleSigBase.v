(* Proofs/BundleSigBase.v - C06, part 1 (Model/BundleSig.v):
   - generateSignedMessage is injective in (signed bytes, version);
   - UpdateSignatures over any sequence of signers: authority indices;
   - what a successful verifyVouchedSubset / NewVerifier establishes;
   - what VerifyExchange = VxOk establishes (binding), unsigned exchanges. *)
From Coq Require Import Lia ZifyN ZifyNat ZifyBool Permutation.
From WP Require Import Base.Prelude Model.Cbor Model.Http Model.Url Model.Mice Model.CertChain
  Model.Bundle Model.Sxg Model.BundleSig.
From WP Require Import Spec.Mice.
From WP Require Import Proofs.BaseLemmas Proofs.MiceCommit.
Ltac Zify.zify_post_hook ::= Z.div_mod_to_equations.
Open Scope N_scope.

(* ---- generateSignedMessage ------------------------------------------------------ *)
Lemma sig_context_length (v : bversion) : lenN (sig_context v) = 16.
Proof. destruct v; reflexivity. Qed.

Lemma sig_context_inj (v v' : bversion) : sig_context v = sig_context v' -> v = v'.
Proof. destruct v, v'; intros H; try reflexivity; vm_compute in H; discriminate H. Qed.

Lemma app_inv_lenN' {A} (a : list A) : forall a' b b',
  lenN a = lenN a' -> a ++ b = a' ++ b' -> a = a' /\ b = b'.
Proof.
  induction a as [|x a IH]; intros [|y a'] b b' HL HE; cbn [lenN] in HL; try lia.
  - split; [reflexivity|exact HE].
  - cbn [app] in HE. inversion HE as [[Hx Ht]]. subst y.
    assert (HL' : lenN a = lenN a') by lia.
    destruct (IH a' b b' HL' Ht) as [E1 E2]. subst. split; reflexivity.
Qed.

Theorem generate_signed_message_injective (signed signed' : bytes) (v v' : bversion) :
  generate_signed_message signed v = generate_signed_message signed' v' ->
  signed = signed' /\ v = v'.
Proof.
  unfold generate_signed_message. intros H. apply app_inv_head in H.
  apply app_inv_lenN' in H; [|rewrite !sig_context_length; reflexivity].
  destruct H as [H1 H2]. apply sig_context_inj in H1. cbn [app] in H2.
  injection H2 as H2. auto.
Qed.

(* the layout: 64 spaces, "Web Package 1 bN", a zero byte, the signed bytes *)
Lemma generate_signed_message_layout (signed : bytes) (v : bversion) :
  generate_signed_message signed v = repeat 32 64 ++ sig_context v ++ 0 :: signed /\
  lenN (generate_signed_message signed v) = 81 + lenN signed.
Proof.
  split; [reflexivity|]. unfold generate_signed_message.
  rewrite !lenN_app, sig_context_length. cbn [lenN]. change (lenN (repeat 32 64)) with 64. lia.
Qed.

(* ---- UpdateSignatures over a sequence of signers ---------------------------------- *)
(* one signer's contribution: its chain, the signed-subset bytes, the signature *)
Definition signer := (list augcert * bytes * bytes)%type.
Definition s_certs (s : signer) : list augcert := fst (fst s).
Definition s_signed (s : signer) : bytes := snd (fst s).
Definition s_sig (s : signer) : bytes := snd s.

Fixpoint apply_signers (sigs : option signatures) (l : list signer) : option signatures :=
  match l with
  | [] => sigs
  | s :: t => apply_signers (Some (update_signatures sigs (s_certs s) (s_signed s) (s_sig s))) t
  end.

Fixpoint vouched_from (n : N) (l : list signer) : list vouched :=
  match l with
  | [] => []
  | s :: t => {| vs_authority := n; vs_sig := s_sig s; vs_signed := s_signed s |}
              :: vouched_from (n + lenN (s_certs s)) t
  end.

Definition all_certs (l : list signer) : list augcert := List.concat (map s_certs l).

Lemma apply_signers_some (l : list signer) : forall s0,
  exists final, apply_signers (Some s0) l = Some final /\
    sg_auth final = sg_auth s0 ++ all_certs l /\
    sg_vouched final = sg_vouched s0 ++ vouched_from (lenN (sg_auth s0)) l.
Proof.
  induction l as [|s t IH]; intros s0; cbn [apply_signers].
  - exists s0. unfold all_certs. cbn [map List.concat vouched_from]. rewrite !app_nil_r. auto.
  - destruct (IH (update_signatures (Some s0) (s_certs s) (s_signed s) (s_sig s))) as [final [E [A V]]].
    exists final. split; [exact E|]. unfold update_signatures in A, V. cbn [sg_auth sg_vouched] in A, V.
    unfold all_certs in *. cbn [map List.concat vouched_from]. split.
    + rewrite A, <- app_assoc. reflexivity.
    + rewrite V, <- app_assoc, lenN_app. reflexivity.
Qed.

Lemma apply_signers_app (l1 l2 : list signer) (sigs : option signatures) :
  apply_signers sigs (l1 ++ l2) = apply_signers (apply_signers sigs l1) l2.
Proof. revert sigs. induction l1 as [|s t IH]; intros sigs; cbn [app apply_signers]; [reflexivity|apply IH]. Qed.

(* from a nil *bundle.Signatures *)
Theorem apply_signers_none (l : list signer) (final : signatures) :
  apply_signers None l = Some final ->
  sg_auth final = all_certs l /\ sg_vouched final = vouched_from 0 l.
Proof.
  destruct l as [|s t]; cbn [apply_signers]; [discriminate|]. intros H.
  destruct (apply_signers_some t (update_signatures None (s_certs s) (s_signed s) (s_sig s)))
    as [f [E [A V]]].
  rewrite E in H. injection H as <-. unfold update_signatures in A, V.
  cbn [sg_auth sg_vouched app lenN] in A, V.
  unfold all_certs in *. cbn [map List.concat vouched_from]. split; [exact A|].
  rewrite V. cbn [app]. reflexivity.
Qed.

Lemma apply_signers_nonempty (s : signer) (t : list signer) :
  exists final, apply_signers None (s :: t) = Some final.
Proof.
  cbn [apply_signers].
  destruct (apply_signers_some t (update_signatures None (s_certs s) (s_signed s) (s_sig s)))
    as [f [E _]]. exists f. exact E.
Qed.

Lemma vouched_from_nth (l : list signer) : forall n i s,
  nth_error l i = Some s ->
  nth_error (vouched_from n l) i =
  Some {| vs_authority := n + lenN (all_certs (firstn i l)); vs_sig := s_sig s; vs_signed := s_signed s |}.
Proof.
  induction l as [|s0 t IH]; intros n i s H; [destruct i; discriminate|].
  destruct i as [|i]; cbn [nth_error] in H.
  - injection H as <-. cbn [vouched_from nth_error firstn]. unfold all_certs. cbn [map List.concat lenN].
    rewrite N.add_0_r. reflexivity.
  - cbn [vouched_from nth_error firstn]. rewrite (IH _ _ _ H).
    unfold all_certs. cbn [map List.concat]. rewrite lenN_app, N.add_assoc. reflexivity.
Qed.

Lemma nth_error_lenN_app {A} (a b : list A) (x : A) :
  nth_error (a ++ x :: b) (N.to_nat (lenN a)) = Some x.
Proof.
  rewrite lenN_length, Nat2N.id. rewrite nth_error_app2 by apply Nat.le_refl.
  rewrite Nat.sub_diag. reflexivity.
Qed.

Lemma nth_error_split_firstn {A} (l : list A) : forall i x,
  nth_error l i = Some x -> l = firstn i l ++ x :: skipn (S i) l.
Proof.
  induction l as [|y t IH]; intros i x H; [destruct i; discriminate|].
  destruct i as [|i]; cbn [nth_error] in H.
  - injection H as <-. reflexivity.
  - cbn [firstn skipn app]. f_equal. apply IH. exact H.
Qed.

(* the i-th signer's vouched subset points at the i-th signer's own leaf:
   authority index = number of certificates of all earlier signers *)
Theorem authority_index_invariant (l : list signer) (final : signatures) (i : nat) (s : signer)
    (leaf : augcert) (rest : list augcert) :
  apply_signers None l = Some final ->
  nth_error l i = Some s -> s_certs s = leaf :: rest ->
  exists v, nth_error (sg_vouched final) i = Some v /\
            vs_authority v = lenN (all_certs (firstn i l)) /\
            vs_signed v = s_signed s /\ vs_sig v = s_sig s /\
            vs_authority v < lenN (sg_auth final) /\
            nth_error (sg_auth final) (N.to_nat (vs_authority v)) = Some leaf.
Proof.
  intros H Hi Hc. destruct (apply_signers_none l final H) as [A V].
  eexists. split; [rewrite V; apply (vouched_from_nth l 0 i s Hi)|].
  cbn [vs_authority vs_signed vs_sig]. rewrite N.add_0_l.
  split; [reflexivity|]. split; [reflexivity|]. split; [reflexivity|].
  pose proof (nth_error_split_firstn l i s Hi) as El.
  assert (Eall : all_certs l =
                 all_certs (firstn i l) ++ leaf :: (rest ++ all_certs (skipn (S i) l))).
  { rewrite El at 1. unfold all_certs. rewrite map_app, concat_app. cbn [map List.concat].
    rewrite Hc. reflexivity. }
  rewrite A, Eall. split.
  - rewrite !lenN_app. cbn [lenN]. lia.
  - apply nth_error_lenN_app.
Qed.

(* later signers only append: what earlier signers wrote stays in place *)
Theorem later_signers_preserve (l1 l2 : list signer) (mid final : signatures) :
  apply_signers None l1 = Some mid -> apply_signers None (l1 ++ l2) = Some final ->
  exists a v, sg_auth final = sg_auth mid ++ a /\ sg_vouched final = sg_vouched mid ++ v.
Proof.
  intros H1 H2. rewrite apply_signers_app, H1 in H2.
  destruct (apply_signers_some l2 mid) as [f [E [A V]]]. rewrite E in H2. injection H2 as <-.
  eauto.
Qed.

(* ---- verifier ------------------------------------------------------------------------ *)
Section Verify.
  Variable H256 : bytes -> bytes.
  Variable x509_key : bytes -> option (option N).
  Variable sig_ok : N -> bytes -> bytes -> bool.

  (* everything a successfully verified vouched subset went through *)
  Theorem verify_vouched_sound (v : vouched) (auths : list augcert) (tsec tnsec : Z) (ver : bversion)
      (ss : signed_subset) (cert : augcert) (t : bool) :
    verify_vouched H256 x509_key sig_ok v auths tsec tnsec ver = Ok (ss, cert, t) ->
    vs_authority v < lenN auths /\
    nth_error auths (N.to_nat (vs_authority v)) = Some cert /\
    (exists kid, x509_key (ac_cert cert) = Some (Some kid) /\
                 sig_ok kid (generate_signed_message (vs_signed v) ver) (vs_sig v) = true) /\
    decode_signed_subset (vs_signed v) = Ok (ss, t) /\
    ss_auth ss = H256 (ac_cert cert) /\
    verify_timestamps (ss_date ss) (ss_expires ss) tsec tnsec = true.
  Proof.
    unfold verify_vouched. destruct (N.leb_spec (lenN auths) (vs_authority v)) as [C|C]; [discriminate|].
    destruct (nth_error auths (N.to_nat (vs_authority v))) as [c|] eqn:En; [|discriminate].
    destruct (x509_key (ac_cert c)) as [[kid|]|] eqn:Ek; try discriminate.
    destruct (sig_ok kid _ (vs_sig v)) eqn:Es; cbn [negb]; [|discriminate].
    destruct (decode_signed_subset (vs_signed v)) as [[ss0 t0]| | |] eqn:Ed; cbn [bind]; try discriminate.
    destruct (bytes_eqb (ss_auth ss0) (H256 (ac_cert c))) eqn:Ea; cbn [negb]; [|discriminate].
    destruct (verify_timestamps (ss_date ss0) (ss_expires ss0) tsec tnsec) eqn:Et; cbn [negb]; [|discriminate].
    intros H. injection H as <- <- <-.
    apply bytes_eqb_eq in Ea.
    split; [exact C|]. split; [reflexivity|]. split; [exists kid; auto|]. auto.
  Qed.

  Theorem verify_vouched_complete (v : vouched) (auths : list augcert) (tsec tnsec : Z) (ver : bversion)
      (ss : signed_subset) (cert : augcert) (t : bool) (kid : N) :
    vs_authority v < lenN auths ->
    nth_error auths (N.to_nat (vs_authority v)) = Some cert ->
    x509_key (ac_cert cert) = Some (Some kid) ->
    sig_ok kid (generate_signed_message (vs_signed v) ver) (vs_sig v) = true ->
    decode_signed_subset (vs_signed v) = Ok (ss, t) ->
    ss_auth ss = H256 (ac_cert cert) ->
    verify_timestamps (ss_date ss) (ss_expires ss) tsec tnsec = true ->
    verify_vouched H256 x509_key sig_ok v auths tsec tnsec ver = Ok (ss, cert, t).
  Proof.
    intros C En Ek Es Ed Ea Et. unfold verify_vouched.
    destruct (N.leb_spec (lenN auths) (vs_authority v)) as [C'|_]; [lia|].
    rewrite En, Ek, Es. cbn [negb]. rewrite Ed. cbn [bind].
    rewrite Ea, bytes_eqb_refl. cbn [negb]. rewrite Et. reflexivity.
  Qed.

  (* each refusal *)
  Theorem verify_vouched_refuses (v : vouched) (auths : list augcert) (tsec tnsec : Z) (ver : bversion) :
    (lenN auths <= vs_authority v ->
     verify_vouched H256 x509_key sig_ok v auths tsec tnsec ver = Err) /\
    (forall cert kid, nth_error auths (N.to_nat (vs_authority v)) = Some cert ->
       x509_key (ac_cert cert) = Some (Some kid) ->
       sig_ok kid (generate_signed_message (vs_signed v) ver) (vs_sig v) = false ->
       verify_vouched H256 x509_key sig_ok v auths tsec tnsec ver = Err) /\
    (forall cert ss t, nth_error auths (N.to_nat (vs_authority v)) = Some cert ->
       decode_signed_subset (vs_signed v) = Ok (ss, t) ->
       (ss_auth ss <> H256 (ac_cert cert) \/
        verify_timestamps (ss_date ss) (ss_expires ss) tsec tnsec = false) ->
       verify_vouched H256 x509_key sig_ok v auths tsec tnsec ver = Err).
  Proof.
    unfold verify_vouched. split; [|split].
    - intros C. destruct (N.leb_spec (lenN auths) (vs_authority v)); [reflexivity|lia].
    - intros cert kid En Ek Es. destruct (lenN auths <=? vs_authority v); [reflexivity|].
      rewrite En, Ek, Es. reflexivity.
    - intros cert ss t En Ed Hbad. destruct (lenN auths <=? vs_authority v); [reflexivity|].
      rewrite En. destruct (x509_key (ac_cert cert)) as [[kid|]|]; try reflexivity.
      destruct (negb _); [reflexivity|]. rewrite Ed. cbn [bind].
      destruct Hbad as [Hb|Hb].
      + apply bytes_eqb_neq in Hb. rewrite Hb. reflexivity.
      + destruct (negb (bytes_eqb _ _)); [reflexivity|]. rewrite Hb. reflexivity.
  Qed.

  Lemma verify_all_ok_iff (vs : list vouched) (auths : list augcert) (tsec tnsec : Z) (ver : bversion)
      (vss : list (signed_subset * augcert * bool)) :
    verify_all H256 x509_key sig_ok vs auths tsec tnsec ver = Ok vss <->
    Forall2 (fun v r => verify_vouched H256 x509_key sig_ok v auths tsec tnsec ver = Ok r) vs vss.
  Proof.
    revert vss. induction vs as [|v t IH]; intros vss; cbn [verify_all].
    - split; [intros H; injection H as <-; constructor|intros H; inversion H; reflexivity].
    - destruct (verify_vouched H256 x509_key sig_ok v auths tsec tnsec ver) as [r| | |] eqn:Ev; cbn [bind].
      + destruct (verify_all H256 x509_key sig_ok t auths tsec tnsec ver) as [rs| | |] eqn:Et; cbn [bind].
        * split.
          -- intros H. injection H as <-. constructor; [exact Ev|]. apply IH. reflexivity.
          -- intros H. inversion H as [|x y l l' Hxy HF]; subst.
             rewrite Ev in Hxy. injection Hxy as <-.
             apply IH in HF. injection HF as <-. reflexivity.
        * split; [discriminate|]. intros H. inversion H as [|x y l l' Hxy HF]; subst.
          apply IH in HF. discriminate.
        * split; [discriminate|]. intros H. inversion H as [|x y l l' Hxy HF]; subst.
          apply IH in HF. discriminate.
        * split; [discriminate|]. intros H. inversion H as [|x y l l' Hxy HF]; subst.
          apply IH in HF. discriminate.
      + split; [discriminate|]. intros H. inversion H as [|x y l l' Hxy HF]; subst.
        rewrite Ev in Hxy. discriminate.
      + split; [discriminate|]. intros H. inversion H as [|x y l l' Hxy HF]; subst.
        rewrite Ev in Hxy. discriminate.
      + split; [discriminate|]. intros H. inversion H as [|x y l l' Hxy HF]; subst.
        rewrite Ev in Hxy. discriminate.
  Qed.

  (* NewVerifier succeeds exactly when every vouched subset verifies *)
  Theorem new_verifier_ok_iff (sigs : signatures) (tsec tnsec : Z) (ver : bversion)
      (vss : list (signed_subset * augcert * bool)) :
    new_verifier H256 x509_key sig_ok sigs tsec tnsec ver = Ok vss <->
    Forall2 (fun v r => verify_vouched H256 x509_key sig_ok v (sg_auth sigs) tsec tnsec ver = Ok r)
            (sg_vouched sigs) vss.
  Proof. apply verify_all_ok_iff. Qed.

  (* one failing subset fails the whole verifier *)
  Theorem new_verifier_err (sigs : signatures) (tsec tnsec : Z) (ver : bversion) (v : vouched) :
    In v (sg_vouched sigs) ->
    verify_vouched H256 x509_key sig_ok v (sg_auth sigs) tsec tnsec ver = Err ->
    (forall v', In v' (sg_vouched sigs) ->
       verify_vouched H256 x509_key sig_ok v' (sg_auth sigs) tsec tnsec ver <> Panic /\
       verify_vouched H256 x509_key sig_ok v' (sg_auth sigs) tsec tnsec ver <> Fuel) ->
    new_verifier H256 x509_key sig_ok sigs tsec tnsec ver = Err.
  Proof.
    unfold new_verifier. generalize (sg_auth sigs) as auths. intros auths.
    induction (sg_vouched sigs) as [|v0 t IH]; intros Hin He Hnp; [contradiction|].
    cbn [verify_all].
    destruct (Hnp v0 (or_introl eq_refl)) as [N1 N2].
    destruct Hin as [->|Hin].
    - rewrite He. reflexivity.
    - destruct (verify_vouched H256 x509_key sig_ok v0 auths tsec tnsec ver) as [r| | |]; cbn [bind];
        try reflexivity; try contradiction.
      rewrite IH; [reflexivity|exact Hin|exact He|].
      intros v' Hv'. apply Hnp. right. exact Hv'.
  Qed.

  (* ---- VerifyExchange ------------------------------------------------------------------ *)
  Definition lists_url (u : bytes) (e : signed_subset * augcert * bool) : Prop :=
    exists rh, In (u, rh) (ss_hashes (fst (fst e))).

  Lemma find_url_none (u : bytes) (l : list (bytes * resp_hashes)) :
    find (fun e => bytes_eqb (fst e) u) l = None <-> ~ exists rh, In (u, rh) l.
  Proof.
    induction l as [|[u' rh'] l IH]; cbn [find fst].
    - split; [intros _ [rh []]|reflexivity].
    - destruct (bytes_eqb u' u) eqn:E.
      + apply bytes_eqb_eq in E. subst u'. split; [discriminate|].
        intros H. exfalso. apply H. exists rh'. left. reflexivity.
      + apply bytes_eqb_neq in E. rewrite IH. split.
        * intros H [rh [Hin|Hin]]; [injection Hin as E1 _; contradiction|]. apply H. exists rh. exact Hin.
        * intros H [rh Hin]. apply H. exists rh. right. exact Hin.
  Qed.

  Lemma find_url_some (u : bytes) (l : list (bytes * resp_hashes)) (u' : bytes) (rh : resp_hashes) :
    find (fun e => bytes_eqb (fst e) u) l = Some (u', rh) ->
    u' = u /\ exists pre post, l = pre ++ (u, rh) :: post /\ ~ exists rh', In (u, rh') pre.
  Proof.
    induction l as [|[u0 rh0] l IH]; cbn [find fst]; [discriminate|].
    destruct (bytes_eqb u0 u) eqn:E.
    - apply bytes_eqb_eq in E. subst u0. intros H. injection H as <- <-.
      split; [reflexivity|]. exists [], l. split; [reflexivity|]. intros [rh' []].
    - apply bytes_eqb_neq in E. intros H. destruct (IH H) as [E1 [pre [post [E2 Hn]]]].
      split; [exact E1|]. exists ((u0, rh0) :: pre), post. split; [rewrite E2; reflexivity|].
      intros [rh' [Hin|Hin]]; [injection Hin as E3 _; contradiction|]. apply Hn. exists rh'. exact Hin.
  Qed.

  (* findResponseHashes: the FIRST verified subset that lists the URL, and the
     first entry for that URL in it *)
  Lemma find_hashes_some (vss : list (signed_subset * augcert * bool)) (u : bytes)
      (rh : resp_hashes) (cert : augcert) :
    find_hashes vss u = Some (rh, cert) ->
    exists pre ss t post,
      vss = pre ++ (ss, cert, t) :: post /\
      Forall (fun e => ~ lists_url u e) pre /\
      exists p q, ss_hashes ss = p ++ (u, rh) :: q /\ ~ exists rh', In (u, rh') p.
  Proof.
    induction vss as [|[[ss0 c0] t0] vss IH]; cbn [find_hashes]; [discriminate|].
    destruct (find (fun e => bytes_eqb (fst e) u) (ss_hashes ss0)) as [[u' rh']|] eqn:Ef.
    - intros H. injection H as <- <-. apply find_url_some in Ef. destruct Ef as [_ [p [q [E Hn]]]].
      exists [], ss0, t0, vss. split; [reflexivity|]. split; [constructor|]. exists p, q. auto.
    - intros H. destruct (IH H) as [pre [ss [t [post [E [HF Hr]]]]]].
      exists ((ss0, c0, t0) :: pre), ss, t, post. split; [rewrite E; reflexivity|].
      split; [|exact Hr]. constructor; [|exact HF].
      apply find_url_none in Ef. exact Ef.
  Qed.

  Lemma find_hashes_none (vss : list (signed_subset * augcert * bool)) (u : bytes) :
    find_hashes vss u = None <-> Forall (fun e => ~ lists_url u e) vss.
  Proof.
    induction vss as [|[[ss0 c0] t0] vss IH]; cbn [find_hashes].
    - split; [constructor|reflexivity].
    - destruct (find (fun e => bytes_eqb (fst e) u) (ss_hashes ss0)) as [[u' rh']|] eqn:Ef.
      + split; [discriminate|]. intros H. inversion H as [|x l Hx _]; subst.
        apply find_url_some in Ef. destruct Ef as [_ [p [q [E _]]]].
        exfalso. apply Hx. exists rh'. cbn [fst]. rewrite E. apply in_or_app. right. left. reflexivity.
      + apply find_url_none in Ef. rewrite IH. split.
        * intros H. constructor; [exact Ef|exact H].
        * intros H. inversion H; assumption.
  Qed.

  (* an exchange no verified subset lists is reported as unsigned *)
  Theorem uncovered_unsigned (vss : list (signed_subset * augcert * bool)) (x : bexchange) :
    existsb (fun e => snd e) vss = false ->
    Forall (fun e => ~ lists_url (bx_url x) e) vss ->
    verify_exchange H256 vss x = VxUnsigned.
  Proof.
    intros Ht HF. unfold verify_exchange. rewrite Ht.
    rewrite (proj2 (find_hashes_none vss (bx_url x)) HF). reflexivity.
  Qed.

  (* and conversely *)
  Theorem unsigned_uncovered (vss : list (signed_subset * augcert * bool)) (x : bexchange) :
    verify_exchange H256 vss x = VxUnsigned ->
    existsb (fun e => snd e) vss = false /\ Forall (fun e => ~ lists_url (bx_url x) e) vss.
  Proof.
    unfold verify_exchange. destruct (existsb (fun e => snd e) vss); [discriminate|].
    destruct (find_hashes vss (bx_url x)) as [[rh cert]|] eqn:Ef.
    - destruct (rh_variants rh); [|discriminate].
      destruct (rh_hashes rh) as [|r [|r' l]]; try discriminate.
      destruct (header_sha256 H256 x); try discriminate.
      destruct (negb _); [discriminate|]. destruct (negb _); [discriminate|].
      destruct (hdr_get _ _); [discriminate|].
      destruct (decode_all _ _ _ _ _ _) as [[o [| |]]| | |]; discriminate.
    - intros _. split; [reflexivity|]. apply find_hashes_none. exact Ef.
  Qed.

  (* what VxOk establishes *)
  Theorem verify_exchange_binds (vss : list (signed_subset * augcert * bool)) (x : bexchange)
      (p a : bytes) :
    verify_exchange H256 vss x = VxOk p a ->
    existsb (fun e => snd e) vss = false /\
    exists pre ss cert t post r dg,
      vss = pre ++ (ss, cert, t) :: post /\
      Forall (fun e => ~ lists_url (bx_url x) e) pre /\
      (exists hp hq, ss_hashes ss = hp ++ (bx_url x, {| rh_variants := []; rh_hashes := [r] |}) :: hq /\
                     ~ exists rh', In (bx_url x, rh') hp) /\
      a = ac_cert cert /\
      header_sha256 H256 x = Ok (ri_hsha r) /\
      ri_integ r = integrity_identifier D03 /\
      dg = hdr_get (bx_hdr x) (s2b "Digest") /\ dg <> [] /\
      decode_all H256 D03 (bx_body x) dg 16384 512 = Ok (p, REOF) /\
      (forall top recs, parse_digest_header D03 dg = Ok top -> Commits H256 top recs ->
                        p = List.concat recs \/ Collision H256).
  Proof.
    unfold verify_exchange. destruct (existsb (fun e => snd e) vss) eqn:Ht; [discriminate|].
    destruct (find_hashes vss (bx_url x)) as [[rh cert]|] eqn:Ef; [|discriminate].
    destruct rh as [vv hs]. cbn [rh_variants rh_hashes].
    destruct vv; [|discriminate]. destruct hs as [|r [|r' l]]; try discriminate.
    destruct (header_sha256 H256 x) as [hsv| | |] eqn:Eh; try discriminate.
    destruct (bytes_eqb hsv (ri_hsha r)) eqn:E1; cbn [negb]; [|discriminate].
    destruct (bytes_eqb (integrity_identifier D03) (ri_integ r)) eqn:E2; cbn [negb]; [|discriminate].
    destruct (hdr_get (bx_hdr x) (s2b "Digest")) as [|d0 dt] eqn:Eg; [discriminate|].
    destruct (decode_all H256 D03 (bx_body x) (d0 :: dt) 16384 512) as [[o st]| | |] eqn:Ed; try discriminate.
    destruct st; try discriminate. intros H. injection H as <- <-.
    apply bytes_eqb_eq in E1. apply bytes_eqb_eq in E2. subst hsv.
    split; [reflexivity|].
    destruct (find_hashes_some _ _ _ _ Ef) as [pre [ss [t [post [E [HF [hp [hq [Eh' Hn]]]]]]]]].
    exists pre, ss, cert, t, post, r, (d0 :: dt).
    split; [exact E|]. split; [exact HF|]. split; [exists hp, hq; auto|].
    split; [reflexivity|]. split; [reflexivity|]. split; [symmetry; exact E2|].
    split; [reflexivity|]. split; [discriminate|]. split; [exact Ed|].
    intros top recs Hp Hc.
    destruct (decode_all_only_committed H256 D03 _ _ _ _ recs top o REOF Hp Hc Ed) as [[_ Hfin]|Hcol].
    - left. apply Hfin. reflexivity.
    - right. exact Hcol.
  Qed.

  (* a verifier with a subset whose validity URL the URL model cannot classify
     decides nothing (correspondence runs skip these) *)
  Theorem tainted_undecided (vss : list (signed_subset * augcert * bool)) (x : bexchange) :
    existsb (fun e => snd e) vss = true -> verify_exchange H256 vss x = VxUndecided.
  Proof. intros H. unfold verify_exchange. rewrite H. reflexivity. Qed.

  (* tampering with status or header fields: two exchanges for the same URL that
     both verify have header maps with the same SHA-256 *)
  Theorem verified_same_header_hash (vss : list (signed_subset * augcert * bool)) (x x' : bexchange)
      (p a p' a' : bytes) :
    bx_url x' = bx_url x ->
    verify_exchange H256 vss x = VxOk p a -> verify_exchange H256 vss x' = VxOk p' a' ->
    a' = a /\ header_sha256 H256 x' = header_sha256 H256 x.
  Proof.
    intros Eu. unfold verify_exchange. rewrite Eu.
    destruct (existsb (fun e => snd e) vss); [discriminate|].
    destruct (find_hashes vss (bx_url x)) as [[rh cert]|]; [|discriminate].
    destruct (rh_variants rh); [|discriminate].
    destruct (rh_hashes rh) as [|r [|r' l]]; try discriminate.
    destruct (header_sha256 H256 x) as [h| | |]; try discriminate.
    destruct (header_sha256 H256 x') as [h'| | |]; try discriminate.
    destruct (bytes_eqb h (ri_hsha r)) eqn:E1; cbn [negb]; [|discriminate].
    destruct (bytes_eqb h' (ri_hsha r)) eqn:E1'; cbn [negb]; [|discriminate].
    apply bytes_eqb_eq in E1. apply bytes_eqb_eq in E1'.
    destruct (negb _); [discriminate|].
    destruct (hdr_get (bx_hdr x) _); [discriminate|].
    destruct (hdr_get (bx_hdr x') _); [discriminate|].
    destruct (decode_all _ _ (bx_body x) _ _ _) as [[o [| |]]| | |]; try discriminate.
    destruct (decode_all _ _ (bx_body x') _ _ _) as [[o' [| |]]| | |]; try discriminate.
    intros H1 H2. injection H1 as <- <-. injection H2 as <- <-.
    split; [reflexivity|]. congruence.
  Qed.
End Verify.
