(* Proofs/BundleWriteAgree.v - C04: consequences of well-formedness (footer, tiling,
   sorted index) and agreement of the parsed view with the bundle written. *)
From Coq Require Import Lia ZifyN ZifyNat ZifyBool Permutation Sorted.
From WP Require Import Base.Prelude Base.Decimal Model.Cbor Model.Http Model.Variants
  Model.CertChain Model.Bundle.
From WP Require Import Spec.Cbor Spec.Det Spec.Bundle.
From WP Require Import Proofs.BaseLemmas Proofs.CborHead Proofs.CborMap Proofs.CborUtf8
  Proofs.Variants Proofs.BundleWriteBasics Proofs.BundleWriteSig Proofs.BundleWriteForm
  Proofs.BundleWriteWF.
Open Scope N_scope.

(* ---- consequences of WF, for any producer -------------------------------------------------- *)
Lemma bstr8_form (s : bytes) : lenN s = 8 -> bstr_item s = 72 :: s.
Proof. intros L. unfold bstr_item. cbn [senc_token]. rewrite L. reflexivity. Qed.

(* the last nine bytes are 0x48 and the total length, big-endian *)
Theorem WF_footer (v : bversion) (bs : bytes) (p : parsed) :
  WF v bs p ->
  bs = file_body v p ++ [72] ++ be 8 (lenN bs) /\ lenN (file_body v p) + 9 = lenN bs.
Proof.
  intros [_ [_ [E _]]]. rewrite sbe_be, bstr8_form in E by apply be_lenN.
  split; [exact E|]. rewrite E at 1. rewrite lenN_app. cbn [app lenN]. rewrite be_lenN. lia.
Qed.

(* the file is: header, section table, the section bodies one after another in
   table order with exactly the listed lengths, footer - nothing else *)
Theorem WF_sections_tile (v : bversion) (bs : bytes) (p : parsed) :
  WF v bs p ->
  let hdr := magic v ++ (match p_primary p with Some u => text_item u | None => [] end)
             ++ bstr_item (arr_head (2 * lenN (p_sections p))
                           ++ flat_map (fun s => text_item (fst s) ++ uint_item (lenN (snd s)))
                                       (p_sections p))
             ++ arr_head (lenN (p_sections p)) in
  bs = hdr ++ List.concat (map snd (p_sections p)) ++ [72] ++ be 8 (lenN bs)
  /\ lenN hdr + lenN (List.concat (map snd (p_sections p))) + 9 = lenN bs
  /\ (exists front rb, p_sections p = front ++ [(n_responses, rb)]).
Proof.
  intros W. destruct (WF_footer _ _ _ W) as [E L]. destruct W as [_ [_ [_ [_ [_ [Last _]]]]]].
  unfold file_body, table_body in *. cbv zeta. rewrite <- !app_assoc in *.
  split; [exact E|]. split; [|exact Last]. rewrite !lenN_app in *. lia.
Qed.

Theorem WF_index_sorted_nodup (v : bversion) (bs : bytes) (p : parsed) :
  WF v bs p ->
  StronglySorted (fun a c => blt (index_key a) (index_key c)) (p_index p)
  /\ NoDup (map ix_url (p_index p)).
Proof.
  intros [_ [_ [_ [_ [_ [_ [_ [_ [S _]]]]]]]]]. split; [exact S|].
  apply (sorted_nodup_map index_key blt) in S; [|apply blt_irrefl].
  unfold index_key in S. rewrite <- (map_map ix_url text_item) in S.
  eapply NoDup_map_inv'. exact S.
Qed.

(* ---- agreement with the bundle ----------------------------------------------------------------- *)
Lemma sorted_index_urls (b : bundle) (ts : list (bytes * bytes * list ientry)) :
  index_pres (b_ver b) (groups_of (ients_of b)) = Ok ts ->
  forall u, In u (map ix_url (sorted_index ts)) <-> In u (map bx_url (b_exchanges b)).
Proof.
  intros Ht u.
  assert (P : Permutation (map ix_url (sorted_index ts)) (map (fun t => fst (fst t)) ts)).
  { unfold sorted_index. eapply perm_trans; [apply Permutation_map, isort_perm|].
    rewrite map_map. apply Permutation_refl. }
  rewrite (index_pres_urls _ _ _ Ht), groups_of_keys in P.
  split; intros H.
  - apply (Permutation_in _ P) in H. apply first_urls_spec in H. unfold ients_of in H.
    rewrite mk_ients_urls in H. exact H.
  - apply (Permutation_in _ (Permutation_sym P)). apply first_urls_spec. unfold ients_of.
    rewrite mk_ients_urls. exact H.
Qed.

(* the group of a URL keeps every entry of that URL *)
Lemma group_keeps (b : bundle) (ts : list (bytes * bytes * list ientry)) (e : ientry) :
  index_pres (b_ver b) (groups_of (ients_of b)) = Ok ts -> In e (ients_of b) ->
  exists t, In t ts /\ fst (fst t) = ie_url e /\ In e (snd t).
Proof.
  intros Ht He. pose proof (index_pres_ok _ _ _ Ht) as F.
  set (u := ie_url e). set (es := filter (url_is u) (ients_of b)).
  assert (Hg : In (u, es) (groups_of (ients_of b))).
  { unfold groups_of. apply in_map_iff. exists u. split; [reflexivity|].
    apply first_urls_spec. apply in_map. exact He. }
  assert (Hes : In e es).
  { apply filter_In. split; [exact He|]. unfold url_is, u. apply bytes_eqb_refl. }
  assert (X : exists t, In t ts /\ index_entry_pre (b_ver b) (u, es) = Ok t).
  { clear -F Hg. induction F as [|g t gs ts' Hp F IH]; [contradiction|].
    destruct Hg as [Hg|Hg].
    - subst g. exists t. split; [left; reflexivity|exact Hp].
    - destruct (IH Hg) as [t' [Ht' Hp']]. exists t'. split; [right; exact Ht'|exact Hp']. }
  destruct X as [t [Hin Hp]]. exists t. split; [exact Hin|].
  apply index_entry_pre_ok in Hp. destruct Hp as [Eu [_ Hv]]. split; [exact Eu|].
  destruct (b_ver b).
  - destruct es as [|e0 [|e1 r]] eqn:Ees.
    + contradiction.
    + destruct Hv as [_ Hs]. rewrite Hs. exact Hes.
    + destruct Hv as [_ Ho].
      eapply (entries_order_all_placed _ _ Ho (ie_variants e) (ie_vkey e) e).
      apply in_map_iff. exists e. split; [reflexivity|exact Hes].
  - destruct Hv as [e' [Ees [_ Hs]]]. rewrite Hs, <- Ees. exact Hes.
Qed.

(* C04 "p agrees with b" *)
Theorem write_agrees (b : bundle) (bs : bytes) (ts : list (bytes * bytes * list ientry)) :
  b_write b = Ok bs -> index_pres (b_ver b) (groups_of (ients_of b)) = Ok ts ->
  let p := parsed_of b ts in
  (* the sections present are exactly those the bundle's fields call for *)
  map fst (p_sections p)
    = n_index :: (match b_ver b, b_primary b with BV2, Some _ => [n_primary] | _, _ => [] end)
      ++ (match b_manifest b with Some _ => [n_manifest] | None => [] end)
      ++ (match b_sigs b with Some _ => [n_signatures] | None => [] end) ++ [n_responses]
  /\ p_primary p = (match b_ver b with BV1 => b_primary b | BV2 => None end)
  /\ (forall u, In (n_primary, text_item u) (p_sections p) -> b_primary b = Some u)
  /\ (forall u, In (n_manifest, text_item u) (p_sections p) -> b_manifest b = Some u)
  (* the index lists exactly the exchange URLs, each once *)
  /\ (forall u, In u (map ix_url (p_index p)) <-> In u (map bx_url (b_exchanges b)))
  /\ NoDup (map ix_url (p_index p))
  (* one response item per exchange, in order: status, folded headers, body *)
  /\ Forall2 (fun x r => r_payload r = bx_body x /\
                         Permutation (r_fields r)
                           ((status_name, dec_of_Z (bx_status x)) ::
                            map (fun nv => (lower (fst nv), join_comma (snd nv))) (bx_hdr x)))
             (b_exchanges b) (p_responses p)
  (* and the i-th exchange is found at one of the locations listed for its URL *)
  /\ (forall i x, nth_error (b_exchanges b) i = Some x ->
        exists e, In e (p_index p) /\ ix_url e = bx_url x /\
                  In (lenN (arr_head (lenN (p_responses p)))
                        + lenN (flat_map rsp_bytes (firstn i (p_responses p))),
                      lenN (rsp_bytes (rsp_of x))) (ix_locs e)).
Proof.
  intros H Ht p. subst p. cbn [parsed_of p_sections p_primary p_index p_responses].
  split.
  { destruct (section_names b ts) as [l [E El]]. rewrite E, El. cbn [app]. rewrite <- !app_assoc. reflexivity. }
  split; [reflexivity|].
  split.
  { intros u Hin. unfold sections_of, prim_sec_of, man_sec_of, sig_sec_of in Hin.
    cbn [app In] in Hin. destruct Hin as [Hin|Hin]; [inversion Hin|].
    repeat (apply in_app_or in Hin; destruct Hin as [Hin|Hin]).
    - destruct (b_ver b); [contradiction|]. destruct (b_primary b) as [pu|]; [|contradiction].
      destruct Hin as [Hin|[]]. inversion Hin as [E]. apply text_item_inj in E. congruence.
    - destruct (b_manifest b); [|contradiction]. destruct Hin as [Hin|[]]. inversion Hin.
    - destruct (b_sigs b); [|contradiction]. destruct Hin as [Hin|[]]. inversion Hin.
    - destruct Hin as [Hin|[]]. inversion Hin. }
  split.
  { intros u Hin. unfold sections_of, prim_sec_of, man_sec_of, sig_sec_of in Hin.
    cbn [app In] in Hin. destruct Hin as [Hin|Hin]; [inversion Hin|].
    repeat (apply in_app_or in Hin; destruct Hin as [Hin|Hin]).
    - destruct (b_ver b); [contradiction|]. destruct (b_primary b) as [pu|]; [|contradiction].
      destruct Hin as [Hin|[]]. inversion Hin.
    - destruct (b_manifest b) as [mu|]; [|contradiction]. destruct Hin as [Hin|[]].
      inversion Hin as [E]. apply text_item_inj in E. congruence.
    - destruct (b_sigs b); [|contradiction]. destruct Hin as [Hin|[]]. inversion Hin.
    - destruct Hin as [Hin|[]]. inversion Hin. }
  split; [apply sorted_index_urls; exact Ht|].
  split.
  { pose proof (sorted_index_sorted b ts Ht) as S.
    apply (sorted_nodup_map index_key blt) in S; [|apply blt_irrefl].
    unfold index_key in S. rewrite <- (map_map ix_url text_item) in S. eapply NoDup_map_inv'. exact S. }
  split.
  { induction (b_exchanges b) as [|x t IH]; cbn [map]; constructor; [|exact IH].
    cbn [rsp_of r_payload r_fields]. split; [reflexivity|apply rsp_fields_perm]. }
  intros i x Hx.
  assert (He : exists e, nth_error (ients_of b) i = Some e).
  { destruct (nth_error (ients_of b) i) as [e|] eqn:E; [eauto|]. apply nth_error_None in E.
    unfold ients_of in E. rewrite mk_ients_length in E.
    assert (nth_error (b_exchanges b) i <> None) by congruence. apply nth_error_Some in H0. lia. }
  destruct He as [e He]. pose proof He as He'. unfold ients_of in He'.
  apply mk_ients_nth in He'. destruct He' as [x' [Hx' [Eu [_ [_ [Eo El]]]]]].
  rewrite Hx in Hx'. inversion Hx'; subst x'.
  destruct (group_keeps b ts e Ht (nth_error_In _ _ He)) as [t [Hin [Et Hes]]].
  exists (triple_of t). split.
  { unfold sorted_index. eapply Permutation_in; [apply Permutation_sym, isort_perm|]. apply in_map. exact Hin. }
  split; [unfold triple_of, ix_url; cbn [fst]; congruence|].
  unfold triple_of, ix_locs. cbn [snd].
  replace (lenN (arr_head (lenN (map rsp_of (b_exchanges b))))
           + lenN (flat_map rsp_bytes (firstn i (map rsp_of (b_exchanges b))))) with (ie_off e).
  2:{ rewrite Eo. unfold off0. rewrite lenN_map, firstn_map, flat_map_map. reflexivity. }
  replace (lenN (rsp_bytes (rsp_of x))) with (ie_len e) by (rewrite El; reflexivity).
  change (ie_off e, ie_len e) with (loc_of e). apply in_map. exact Hes.
Qed.

(* ---- the same consequences straight from the writer (no side conditions but size) ----------- *)
Theorem write_footer (b : bundle) (bs : bytes) :
  b_write b = Ok bs -> lenN bs < two64 ->
  exists body, bs = body ++ [72] ++ be 8 (lenN bs) /\ lenN body + 9 = lenN bs.
Proof.
  intros H L. apply b_write_ok_iff in H. destruct H as [ts [_ [_ [_ [_ [_ E]]]]]].
  destruct (final_bytes_footer _ _ _ E L) as [Ef Ln].
  exists (file_body (b_ver b) (parsed_of b ts)). split; [|lia].
  rewrite sbe_be, bstr8_form in Ef by apply be_lenN. exact Ef.
Qed.

Theorem write_sections_tile (b : bundle) (bs : bytes) :
  b_write b = Ok bs -> lenN bs < two64 ->
  exists secs front rb,
    secs = front ++ [(n_responses, rb)] /\
    let hdr := magic (b_ver b)
               ++ (match b_ver b, b_primary b with BV1, Some u => text_item u | _, _ => [] end)
               ++ bstr_item (arr_head (2 * lenN secs)
                             ++ flat_map (fun s => text_item (fst s) ++ uint_item (lenN (snd s))) secs)
               ++ arr_head (lenN secs) in
    bs = hdr ++ List.concat (map snd secs) ++ [72] ++ be 8 (lenN bs)
    /\ lenN hdr + lenN (List.concat (map snd secs)) + 9 = lenN bs.
Proof.
  intros H L. apply b_write_ok_iff in H. destruct H as [ts [_ [_ [_ [_ [_ E]]]]]].
  destruct (final_bytes_footer _ _ _ E L) as [Ef Ln].
  rewrite sbe_be, bstr8_form in Ef by apply be_lenN.
  exists (sections_of b ts). unfold sections_of at 1. eexists. eexists.
  split; [rewrite !app_assoc; reflexivity|]. cbv zeta.
  unfold file_body, table_body in Ef, Ln. cbn [parsed_of p_primary p_sections] in Ef, Ln.
  rewrite <- !app_assoc in *.
  destruct (b_ver b) eqn:V; destruct (b_primary b) eqn:P; cbv iota beta in Ef, Ln |- *;
    (split; [exact Ef|]); rewrite !lenN_app in *; rewrite Ln, !N.add_assoc; reflexivity.
Qed.

Theorem write_index_sorted_nodup (b : bundle) (bs : bytes) :
  b_write b = Ok bs ->
  exists idx,
    In (n_index, index_body (b_ver b) idx) (sections_of b
         (match index_pres (b_ver b) (groups_of (ients_of b)) with Ok ts => ts | _ => [] end))
    /\ StronglySorted (fun a c => blt (index_key a) (index_key c)) idx
    /\ NoDup (map ix_url idx)
    /\ (forall u, In u (map ix_url idx) <-> In u (map bx_url (b_exchanges b))).
Proof.
  intros H. pose proof H as H'. apply b_write_ok_iff in H'. destruct H' as [ts [_ [_ [Ht _]]]].
  rewrite Ht. exists (sorted_index ts).
  split; [unfold sections_of; left; reflexivity|].
  destruct (write_agrees b bs ts H Ht) as [_ [_ [_ [_ [U [ND _]]]]]].
  split; [apply (sorted_index_sorted b ts Ht)|]. split; [exact ND|exact U].
Qed.
