(* C19: a sequence of Write calls against a destination that fails after
   accepting k bytes, for ANY chunking of the output. *)
From Coq Require Import Lia ZifyN ZifyNat ZifyBool.
From WP Require Import Base.Prelude Proofs.BaseLemmas Model.Bundle.
Open Scope N_scope.

Definition dest0 (k : N) (m : fmode) : dest := {| d_acc := []; d_budget := Some k; d_mode := m |}.

Lemma dwrite_spec (a : bytes) (b : N) (m : fmode) (c : bytes) :
  let d := {| d_acc := a; d_budget := Some b; d_mode := m |} in
  (lenN c <= b /\
   dwrite d c = ({| d_acc := a ++ c; d_budget := Some (b - lenN c); d_mode := m |}, lenN c, true))
  \/
  ((b < lenN c /\ exists p rest b', c = p ++ rest /\ lenN p <= b /\
    dwrite d c = ({| d_acc := a ++ p; d_budget := Some b'; d_mode := m |}, lenN p, false))
   \/
   (b < lenN c /\ dwrite d c = (d, 0, false))).
Proof.
  intros d. unfold dwrite, d; cbn [d_budget d_acc d_mode].
  destruct (lenN c <=? b) eqn:E.
  - left. split; [lia | reflexivity].
  - right. destruct m.
    + right. split; [lia | reflexivity].
    + destruct (splitN c b) as [[p rest]|] eqn:S.
      * left. apply splitN_spec in S. destruct S as [Hc Hl]. split; [lia|].
        exists p, rest, 0. split; [exact Hc|]. split; [lia|].
        subst b. reflexivity.
      * right. split; [lia | reflexivity].
Qed.

(* generalised invariant *)
Lemma run_writes_inv : forall cs a b m cnt d n ok,
  run_writes cs {| d_acc := a; d_budget := Some b; d_mode := m |} cnt = (d, n, ok) ->
  exists p rest,
    List.concat cs = p ++ rest /\ d_acc d = a ++ p /\ lenN p <= b /\ n = cnt + lenN p /\
    (b < lenN (List.concat cs) -> ok = false) /\
    (lenN (List.concat cs) <= b -> ok = true /\ rest = []).
Proof.
  induction cs as [|c cs IH]; intros a b m cnt d n ok H.
  - cbn in H. inversion H; subst. exists [], []. cbn [List.concat lenN app d_acc].
    rewrite app_nil_r.
    split; [reflexivity|]. split; [reflexivity|]. split; [lia|]. split; [lia|].
    split; [intros Hx; lia|]. intros _. split; reflexivity.
  - cbn [run_writes] in H. cbn [List.concat].
    destruct (dwrite_spec a b m c) as [[Hle E] | [[Hlt [p [rest [b' [Hc [Hp E]]]]]] | [Hlt E]]];
      cbn zeta in E; rewrite E in H.
    + apply IH in H. destruct H as [p [rest [Hcat [Hacc [Hp [Hn [Hf Hs]]]]]]].
      exists (c ++ p), rest. rewrite !lenN_app.
      split. { rewrite Hcat. rewrite app_assoc. reflexivity. }
      split. { rewrite Hacc. rewrite app_assoc. reflexivity. }
      split; [lia|]. split; [lia|].
      split; intros Hx; [apply Hf | apply Hs]; lia.
    + inversion H; subst d n ok. exists p, (rest ++ List.concat cs).
      cbn [d_acc]. rewrite !lenN_app.
      split. { rewrite Hc. rewrite <- app_assoc. reflexivity. }
      split; [reflexivity|]. split; [lia|]. split; [lia|].
      split; [reflexivity|]. intros Hx. lia.
    + inversion H; subst d n ok. exists [], (c ++ List.concat cs). cbn [d_acc lenN].
      rewrite app_nil_r, !lenN_app.
      split; [reflexivity|]. split; [reflexivity|]. split; [lia|]. split; [lia|].
      split; [reflexivity|]. intros Hx. lia.
Qed.

(* The statement of C19 for any serializer output [out] delivered through any
   chunking [cs], any fault position k and both fault modes. *)
Lemma run_writes_fault (cs : list bytes) (k : N) (m : fmode) (d : dest) (n : N) (ok : bool) :
  run_writes cs (dest0 k m) 0 = (d, n, ok) ->
  let out := List.concat cs in
  (exists rest, out = d_acc d ++ rest)          (* accepted is a prefix of the fault-free output *)
  /\ lenN (d_acc d) <= k                         (* never more than the destination took *)
  /\ n = lenN (d_acc d)                          (* the count equals what was accepted *)
  /\ (k < lenN out -> ok = false)                (* a fault below the full length is an error *)
  /\ (lenN out <= k -> ok = true /\ d_acc d = out).   (* the no-fault control *)
Proof.
  intros H out. apply run_writes_inv in H.
  destruct H as [p [rest [Hcat [Hacc [Hp [Hn [Hf Hs]]]]]]]. cbn in Hacc.
  rewrite Hacc. split. { exists rest. exact Hcat. }
  split; [exact Hp|]. split; [lia|]. split; [exact Hf|].
  intros Hx. destruct (Hs Hx) as [Hok Hr]. split; [exact Hok|].
  unfold out. rewrite Hcat, Hr, app_nil_r. reflexivity.
Qed.

(* an unlimited destination accepts everything *)
Lemma run_writes_nofault : forall cs a m cnt,
  run_writes cs {| d_acc := a; d_budget := None; d_mode := m |} cnt =
  ({| d_acc := a ++ List.concat cs; d_budget := None; d_mode := m |}, cnt + lenN (List.concat cs), true).
Proof.
  induction cs as [|c cs IH]; intros a m cnt.
  - cbn. rewrite app_nil_r, N.add_0_r. reflexivity.
  - cbn [run_writes dwrite d_budget d_acc d_mode List.concat]. rewrite IH, lenN_app, <- app_assoc.
    f_equal. f_equal. lia.
Qed.
