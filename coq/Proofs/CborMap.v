(* Proofs/CborMap.v - the spec's bytewise order is a strict total order that
   coincides with bytes.Compare; EncodeMap emits the entries in that order,
   independent of the order supplied, and refuses exactly duplicate keys.  *)
From Coq Require Import Lia Permutation Sorted.
From WP Require Import Base.Prelude Model.Cbor Spec.Cbor Proofs.BaseLemmas.
Open Scope N_scope.

(* ---- blt ------------------------------------------------------------------ *)
Lemma blt_cmp (a b : bytes) : blt a b <-> bytes_cmp a b = Lt.
Proof.
  split.
  - induction 1 as [y b|x y a b Hxy|x a b Hab IH]; cbn [bytes_cmp].
    + reflexivity.
    + rewrite (proj2 (N.compare_lt_iff x y)) by exact Hxy. reflexivity.
    + rewrite N.compare_refl. exact IH.
  - revert b. induction a as [|x a IH]; intros [|y b] H; cbn [bytes_cmp] in H;
      try discriminate.
    + constructor.
    + destruct (N.compare_spec x y) as [E|L|G]; try discriminate.
      * subst. apply blt_tail. apply IH. exact H.
      * apply blt_head. exact L.
Qed.

Lemma blt_ltb (a b : bytes) : bytes_ltb a b = true <-> blt a b.
Proof. rewrite bytes_ltb_lt. symmetry. apply blt_cmp. Qed.

Lemma blt_irrefl (a : bytes) : ~ blt a a.
Proof. rewrite blt_cmp. apply bytes_cmp_lt_irrefl. Qed.

Lemma blt_trans (a b c : bytes) : blt a b -> blt b c -> blt a c.
Proof. rewrite !blt_cmp. apply bytes_cmp_lt_trans. Qed.

Lemma blt_trichotomy (a b : bytes) : blt a b \/ a = b \/ blt b a.
Proof. rewrite !blt_cmp. apply bytes_cmp_trichotomy. Qed.

Lemma blt_asym (a b : bytes) : blt a b -> blt b a -> False.
Proof. intros H1 H2. exact (blt_irrefl a (blt_trans _ _ _ H1 H2)). Qed.

(* exactly one of the three holds *)
Lemma blt_exclusive (a b : bytes) :
  (blt a b -> a <> b) /\ (blt a b -> ~ blt b a).
Proof.
  split.
  - intros H E. subst. exact (blt_irrefl _ H).
  - intros H1 H2. exact (blt_asym _ _ H1 H2).
Qed.

(* ---- sorted entries -------------------------------------------------------- *)
Definition key_lt (a b : bytes * bytes) : Prop := blt (fst a) (fst b).

Lemma key_lt_asym (x y : bytes * bytes) : key_lt x y -> key_lt y x -> False.
Proof. unfold key_lt. apply blt_asym. Qed.

Lemma sort_entries_perm (es : list (bytes * bytes)) : Permutation (sort_entries es) es.
Proof. apply isort_perm. Qed.

Lemma sort_entries_le (es : list (bytes * bytes)) :
  StronglySorted (le_of entry_lt) (sort_entries es).
Proof.
  apply isort_sorted; unfold entry_lt.
  - intros a b. apply bytes_ltb_asym.
  - intros a b c. apply bytes_leb_trans.
Qed.

Lemma adjacent_dup_false_strict (s : list (bytes * bytes)) :
  StronglySorted (le_of entry_lt) s -> adjacent_dup s = false -> StronglySorted key_lt s.
Proof.
  induction 1 as [|a t Hs IH Hall]; intros Hd; [constructor|].
  destruct t as [|b t']; [constructor; constructor|].
  cbn [adjacent_dup] in Hd. apply orb_false_iff in Hd. destruct Hd as [Hne Hd].
  specialize (IH Hd).
  constructor; [exact IH|].
  assert (Hab : key_lt a b).
  { unfold key_lt. apply blt_cmp. apply bytes_leb_neq_lt.
    - apply Forall_inv in Hall. exact Hall.
    - apply bytes_eqb_neq. exact Hne. }
  constructor; [exact Hab|].
  apply StronglySorted_inv in IH. destruct IH as [_ Hb].
  rewrite Forall_forall in *. intros z Hz. unfold key_lt in *.
  eapply blt_trans; [exact Hab|apply Hb; exact Hz].
Qed.

Lemma adjacent_dup_true_dup (s : list (bytes * bytes)) :
  adjacent_dup s = true -> ~ NoDup (map fst s).
Proof.
  induction s as [|a t IH]; [discriminate|].
  destruct t as [|b t']; [discriminate|].
  cbn [adjacent_dup]. intros Hd Hnd. apply orb_true_iff in Hd.
  cbn [map] in Hnd. inversion Hnd as [|k ks Hnotin Hnd']; subst.
  destruct Hd as [He|Hd].
  - apply bytes_eqb_eq in He. apply Hnotin. left. symmetry. exact He.
  - exact (IH Hd Hnd').
Qed.

Lemma strict_nodup (s : list (bytes * bytes)) :
  StronglySorted key_lt s -> NoDup (map fst s).
Proof.
  intros H. apply (sorted_nodup_map fst blt s blt_irrefl). exact H.
Qed.

(* the duplicate test on the sorted list decides NoDup of the supplied keys *)
Lemma sort_nodup_iff (es : list (bytes * bytes)) :
  adjacent_dup (sort_entries es) = false <-> NoDup (map fst es).
Proof.
  assert (HP : Permutation (map fst (sort_entries es)) (map fst es))
    by (apply Permutation_map, sort_entries_perm).
  split.
  - intros Hd. eapply Permutation_NoDup; [exact HP|].
    apply strict_nodup, adjacent_dup_false_strict; [apply sort_entries_le|exact Hd].
  - intros Hnd. destruct (adjacent_dup (sort_entries es)) eqn:Hd; [|reflexivity].
    exfalso. apply (adjacent_dup_true_dup _ Hd).
    eapply Permutation_NoDup; [apply Permutation_sym; exact HP|exact Hnd].
Qed.

(* ---- C11 enc_map_* ---------------------------------------------------------- *)
Theorem enc_map_sorted (es : list (bytes * bytes)) (out : bytes) :
  enc_map es = Ok out ->
  exists s, Permutation s es /\ StronglySorted key_lt s /\
            out = enc_map_header (lenN es) ++ flat_map (fun e => fst e ++ snd e) s.
Proof.
  unfold enc_map. cbv zeta.
  destruct (adjacent_dup (sort_entries es)) eqn:Hd; [discriminate|].
  intros H. inversion H; subst out. exists (sort_entries es).
  split; [apply sort_entries_perm|]. split; [|reflexivity].
  apply adjacent_dup_false_strict; [apply sort_entries_le|exact Hd].
Qed.

Theorem enc_map_dup (es : list (bytes * bytes)) :
  enc_map es = Err <-> ~ NoDup (map fst es).
Proof.
  unfold enc_map. cbv zeta. rewrite <- sort_nodup_iff.
  destruct (adjacent_dup (sort_entries es)); split; intros H;
    try reflexivity; try discriminate; congruence.
Qed.

Lemma enc_map_ok_or_err (es : list (bytes * bytes)) :
  enc_map es = Err \/ exists out, enc_map es = Ok out.
Proof.
  unfold enc_map. cbv zeta. destruct (adjacent_dup (sort_entries es)); eauto.
Qed.

(* strictly sorted permutation of duplicate-free keys is unique *)
Lemma strict_sorted_unique (s s' : list (bytes * bytes)) :
  StronglySorted key_lt s -> StronglySorted key_lt s' -> Permutation s s' -> s = s'.
Proof. apply sorted_perm_unique. exact key_lt_asym. Qed.

Theorem enc_map_perm (es es' : list (bytes * bytes)) :
  Permutation es es' -> enc_map es = enc_map es'.
Proof.
  intros HP.
  assert (Hk : NoDup (map fst es) <-> NoDup (map fst es')).
  { split; apply Permutation_NoDup; [|apply Permutation_sym]; apply Permutation_map; exact HP. }
  unfold enc_map. cbv zeta.
  destruct (adjacent_dup (sort_entries es)) eqn:Hd;
    destruct (adjacent_dup (sort_entries es')) eqn:Hd'.
  - reflexivity.
  - exfalso. apply sort_nodup_iff, Hk, sort_nodup_iff in Hd'. congruence.
  - exfalso. apply sort_nodup_iff, Hk, sort_nodup_iff in Hd. congruence.
  - rewrite (lenN_perm _ _ HP). f_equal. f_equal. f_equal.
    apply strict_sorted_unique.
    + apply adjacent_dup_false_strict; [apply sort_entries_le|exact Hd].
    + apply adjacent_dup_false_strict; [apply sort_entries_le|exact Hd'].
    + eapply perm_trans; [apply sort_entries_perm|].
      eapply perm_trans; [exact HP|]. apply Permutation_sym, sort_entries_perm.
Qed.

(* consequence used for nested programs: what a successful EncodeMap writes *)
Lemma enc_map_ok (es : list (bytes * bytes)) (out : bytes) :
  enc_map es = Ok out ->
  out = enc_map_header (lenN es) ++ flat_map (fun e => fst e ++ snd e) (sort_entries es)
  /\ StronglySorted key_lt (sort_entries es).
Proof.
  unfold enc_map. cbv zeta.
  destruct (adjacent_dup (sort_entries es)) eqn:Hd; [discriminate|].
  intros H. inversion H. split; [reflexivity|].
  apply adjacent_dup_false_strict; [apply sort_entries_le|exact Hd].
Qed.
