(* Proofs/BundleReadResponse.v - loadResponse succeeds only on an item of the
   shape Spec.BundleRead.ResponseItem and returns exactly the status, headers
   and body found in it. *)
From Coq Require Import Lia ZifyN ZifyNat ZifyBool.
From WP Require Import Base.Prelude Base.Decimal Model.Cbor Model.Http Model.Bundle
  Spec.Cbor Spec.BundleRead.
From WP Require Import Proofs.BaseLemmas Proofs.CborHead Proofs.CborDecode
  Proofs.BundleReadBase Proofs.BundleReadTotal.
Ltac Zify.zify_post_hook ::= Z.div_mod_to_equations.
Open Scope N_scope.

(* ---- character classes --------------------------------------------------------- *)
Lemma is_ascii_b_ascii s : is_ascii_b s = true -> ascii s.
Proof.
  unfold is_ascii_b, ascii. induction s as [|c s IH]; cbn [forallb]; intros H; constructor.
  - apply Bool.andb_true_iff in H. lia.
  - apply IH. apply Bool.andb_true_iff in H. tauto.
Qed.

Lemma lower_fix_lower_ascii s : ascii s -> lower s = s -> lower_ascii s.
Proof.
  unfold ascii, lower_ascii, lower. induction s as [|c s IH]; intros Ha Hl; constructor.
  - inversion Ha as [|x xs Hc Ha']; subst. cbn [map] in Hl. injection Hl as Hc' Hs.
    split; [exact Hc|]. unfold lower_byte in Hc'.
    destruct (N.leb_spec 65 c); destruct (N.leb_spec c 90); cbn [andb] in Hc'; lia.
  - inversion Ha; subst. cbn [map] in Hl. injection Hl as Hc' Hs. apply IH; assumption.
Qed.

Lemma is_digit_n_digit c : is_digit_n c = true -> digit c.
Proof. unfold is_digit_n, digit. intros H. apply Bool.andb_true_iff in H. lia. Qed.

Lemma digits_val3 a b c :
  digits_val [a; b; c] = 100 * (a - 48) + 10 * (b - 48) + (c - 48).
Proof. unfold digits_val. cbn [fold_left]. lia. Qed.

(* ---- no duplicates ---------------------------------------------------------------- *)
Lemma existsb_key_false {V} (l : list (bytes * V)) (k : bytes) :
  existsb (fun p => bytes_eqb (fst p) k) l = false -> ~ In k (map fst l).
Proof.
  induction l as [|[n v] t IH]; cbn [existsb map fst In]; intros H; [tauto|].
  apply Bool.orb_false_iff in H. destruct H as [H1 H2]. apply bytes_eqb_neq in H1.
  intros [X|X]; [congruence|]. apply IH; assumption.
Qed.

Lemma NoDup_snoc' {A} (l : list A) (x : A) : NoDup l -> ~ In x l -> NoDup (l ++ [x]).
Proof.
  intros Hd Hn. induction Hd as [|y l Hy Hd IH]; cbn [app].
  - constructor; [intros []|constructor].
  - constructor.
    + intros X. apply in_app_or in X. destruct X as [X|[X|[]]]; [contradiction|].
      subst. apply Hn. left. reflexivity.
    + apply IH. intros X. apply Hn. right. exact X.
Qed.

Lemma NoDup_filter_split {A B} (f : A -> B) (p : B -> bool) (l : list A) :
  NoDup (map f (filter (fun x => p (f x)) l)) ->
  NoDup (map f (filter (fun x => negb (p (f x))) l)) ->
  NoDup (map f l).
Proof.
  induction l as [|x t IH]; intros H1 H2; cbn [map]; [constructor|].
  cbn [filter] in H1, H2.
  assert (Hin : forall q : bool, p (f x) = q -> In (f x) (map f t) ->
                In (f x) (map f (filter (fun y => Bool.eqb (p (f y)) q) t))).
  { intros q Hq Hi. apply in_map_iff in Hi. destruct Hi as [y [Ey Hy]].
    apply in_map_iff. exists y. split; [exact Ey|]. apply filter_In. split; [exact Hy|].
    rewrite Ey, Hq. apply Bool.eqb_reflx. }
  assert (F1 : forall t', filter (fun y => Bool.eqb (p (f y)) true) t' = filter (fun y => p (f y)) t').
  { intros t'. apply filter_ext. intros a. destruct (p (f a)); reflexivity. }
  assert (F2 : forall t', filter (fun y => Bool.eqb (p (f y)) false) t' = filter (fun y => negb (p (f y))) t').
  { intros t'. apply filter_ext. intros a. destruct (p (f a)); reflexivity. }
  destruct (p (f x)) eqn:Hp; cbn [negb map] in H1, H2.
  - inversion H1 as [|y ys Hn Hd]; subst. constructor; [|apply IH; assumption].
    intros X. apply Hn. rewrite <- F1. apply Hin; [reflexivity|exact X].
  - inversion H2 as [|y ys Hn Hd]; subst. constructor; [|apply IH; assumption].
    intros X. apply Hn. rewrite <- F2. apply Hin; [reflexivity|exact X].
Qed.

(* ---- the header loop ------------------------------------------------------------------ *)
Definition pair_ok (nv : bytes * bytes) : Prop := lower_ascii (fst nv) /\ ascii (snd nv).
Definition hdr_of (nv : bytes * bytes) : bytes * list bytes := (canonical_key (fst nv), [snd nv]).
Definition pseudo_p (nv : bytes * bytes) : bool := is_pseudo (fst nv).
Definition regular_p (nv : bytes * bytes) : bool := negb (is_pseudo (fst nv)).

Lemma dec_cbor_headers_sound : forall fuel n bs h ps h' ps' rest,
  dec_cbor_headers fuel n bs h ps = Ok (h', ps', rest) ->
  exists pairs,
    HeaderPairs bs pairs rest /\ n = lenN pairs /\ Forall pair_ok pairs /\
    h' = h ++ map hdr_of (filter regular_p pairs) /\
    ps' = ps ++ filter pseudo_p pairs /\
    (NoDup (map fst h) -> NoDup (map fst h')) /\
    (NoDup (map fst ps) -> NoDup (map fst ps')).
Proof.
  induction fuel as [|f IH]; intros n bs h ps h' ps' rest H; [discriminate|].
  rewrite dec_cbor_headers_step in H.
  destruct (N.eqb_spec n 0) as [En|En].
  { inversion H; subst. exists []. cbn [filter map lenN]. rewrite !app_nil_r.
    repeat split; auto. constructor. }
  apply bind_ok in H. destruct H as [[name r1] [E1 H]]. beta_pair in H.
  apply bind_ok in H. destruct H as [[value r2] [E2 H]]. beta_pair in H.
  destruct (is_ascii_b name) eqn:An; cbn [negb] in H; [|discriminate].
  destruct (is_ascii_b value) eqn:Av; cbn [negb] in H; [|discriminate].
  destruct (bytes_eqb (lower name) name) eqn:Ln; cbn [negb] in H; [|discriminate].
  apply bytes_eqb_eq in Ln.
  assert (Hok : pair_ok (name, value)).
  { split; cbn [fst snd]; [apply lower_fix_lower_ascii; [apply is_ascii_b_ascii; exact An|exact Ln]
                          |apply is_ascii_b_ascii; exact Av]. }
  apply decode_bytes_bstr_at in E1. apply decode_bytes_bstr_at in E2.
  destruct (is_pseudo name) eqn:Pn.
  - destruct (existsb _ ps) eqn:Ex; [discriminate|].
    destruct (IH _ _ _ _ _ _ _ H) as [pairs [HP [Hn [Hf [Eh [Ep [Dh Dp]]]]]]].
    exists ((name, value) :: pairs).
    split; [econstructor; eassumption|]. split; [cbn [lenN]; lia|].
    split; [constructor; assumption|].
    unfold regular_p, pseudo_p in *. cbn [filter fst]. rewrite Pn. cbn [negb].
    split; [exact Eh|]. split; [rewrite Ep, <- app_assoc; reflexivity|].
    split; [exact Dh|]. intros D. apply Dp. rewrite map_app. cbn [map fst].
    apply NoDup_snoc'; [exact D|]. apply existsb_key_false. exact Ex.
  - destruct (existsb _ h) eqn:Ex; [discriminate|].
    destruct (IH _ _ _ _ _ _ _ H) as [pairs [HP [Hn [Hf [Eh [Ep [Dh Dp]]]]]]].
    exists ((name, value) :: pairs).
    split; [econstructor; eassumption|]. split; [cbn [lenN]; lia|].
    split; [constructor; assumption|].
    unfold regular_p, pseudo_p in *. cbn [filter fst]. rewrite Pn. cbn [negb map].
    split; [rewrite Eh, <- app_assoc; reflexivity|]. split; [exact Ep|].
    split; [|exact Dp]. intros D. apply Dh. rewrite map_app. cbn [map fst].
    apply NoDup_snoc'; [exact D|]. apply existsb_key_false. exact Ex.
Qed.

(* ---- loadResponse ------------------------------------------------------------------------ *)
Theorem load_response_sound (item : bytes) (st : Z) (h : headers) (body : bytes) :
  load_response item = Ok (st, h, body) -> ResponseItem item st h body.
Proof.
  unfold load_response. destruct item as [|b0 r]; [discriminate|].
  destruct (N.eqb_spec b0 130) as [Eb|Eb]; cbn [negb]; [|discriminate]. subst b0.
  intros H.
  apply bind_ok in H. destruct H as [[hc r1] [E1 H]]. beta_pair in H.
  apply bind_ok in H. destruct H as [[n hr] [E2 H]]. beta_pair in H.
  apply bind_ok in H. destruct H as [[[h' ps] rest] [E3 H]]. beta_pair in H.
  destruct ps as [|[k stb] [|p2 ps]]; try discriminate.
  destruct (bytes_eqb k (s2b ":status")) eqn:Ek; cbn [negb] in H; [|discriminate].
  apply bytes_eqb_eq in Ek. subst k.
  destruct stb as [|a [|b [|c [|d stb]]]]; try discriminate.
  destruct (is_digit_n a) eqn:Da; cbn [andb] in H; [|discriminate].
  destruct (is_digit_n b) eqn:Db; cbn [andb] in H; [|discriminate].
  destruct (is_digit_n c) eqn:Dc; [|discriminate].
  apply bind_ok in H. destruct H as [[body' r2] [E4 H]]. beta_pair in H.
  destruct r2 as [|x r2]; [|discriminate]. inversion H; subst st h' body'. clear H.
  destruct (dec_cbor_headers_sound _ _ _ _ _ _ _ _ E3)
    as [pairs [HP [Hn [Hf [Eh [Ep [Dh Dp]]]]]]].
  cbn [app] in Eh, Ep.
  exists hc, r, r1. split; [reflexivity|].
  split; [apply decode_bytes_bstr_at; exact E1|].
  split; [apply decode_bytes_bstr_at; exact E4|].
  exists hr, pairs, rest, a, b, c.
  split; [subst n; apply decode_map_header_head_at; exact E2|].
  split; [exact HP|]. split; [exact Hf|].
  split; [symmetry; exact Ep|].
  split; [apply is_digit_n_digit; exact Da|].
  split; [apply is_digit_n_digit; exact Db|].
  split; [apply is_digit_n_digit; exact Dc|].
  split; [rewrite digits_val3; reflexivity|].
  assert (Dh' : NoDup (map fst h)) by (apply Dh; constructor).
  assert (Dp' : NoDup (map fst (filter pseudo_p pairs))).
  { rewrite <- Ep. apply Dp. constructor. }
  split.
  - apply (NoDup_filter_split fst is_pseudo); [exact Dp'|].
    rewrite Eh in Dh'. rewrite map_map in Dh'. unfold hdr_of in Dh'. cbn [fst] in Dh'.
    rewrite <- (map_map fst canonical_key) in Dh'. apply NoDup_map_inv in Dh'. exact Dh'.
  - split; [exact Eh|exact Dh'].
Qed.
