(* List / byte-string / big-endian lemmas used by the C13 proofs.
   Self-contained on purpose (does not depend on Proofs/BaseLemmas.v). *)
From Coq Require Import Lia ZifyN ZifyNat ZifyBool.
From WP Require Import Base.Prelude Model.Cbor.
Open Scope N_scope.
Ltac Zify.zify_post_hook ::= Z.div_mod_to_equations.

(* ---- lenN --------------------------------------------------------------- *)
Lemma lenN_length {A} (l : list A) : lenN l = N.of_nat (List.length l).
Proof.
  induction l as [|x t IH]; [reflexivity|].
  cbn [lenN List.length]. rewrite IH. lia.
Qed.

Lemma lenN_nil {A} : lenN (@nil A) = 0.
Proof. reflexivity. Qed.

Lemma lenN_cons {A} (x : A) (l : list A) : lenN (x :: l) = 1 + lenN l.
Proof. cbn [lenN]. lia. Qed.

Lemma lenN_app {A} (a b : list A) : lenN (a ++ b) = lenN a + lenN b.
Proof. rewrite !lenN_length, app_length. lia. Qed.

Lemma lenN_zero_nil {A} (l : list A) : lenN l = 0 -> l = [].
Proof. destruct l as [|x t]; [reflexivity|]. rewrite lenN_cons. lia. Qed.

Lemma lenN_map {A B} (g : A -> B) (l : list A) : lenN (map g l) = lenN l.
Proof. rewrite !lenN_length, map_length. reflexivity. Qed.

(* ---- splitN ------------------------------------------------------------- *)
Lemma splitN_eq {A} (l : list A) (n : N) :
  splitN l n =
  if n =? 0 then Some ([], l)
  else match l with
       | [] => None
       | x :: t => match splitN t (N.pred n) with
                   | Some (a, b) => Some (x :: a, b)
                   | None => None
                   end
       end.
Proof. destruct l; reflexivity. Qed.

Lemma splitN_app {A} (a b : list A) : splitN (a ++ b) (lenN a) = Some (a, b).
Proof.
  induction a as [|x a IH].
  - rewrite splitN_eq. reflexivity.
  - rewrite splitN_eq. rewrite lenN_cons.
    destruct (N.eqb_spec (1 + lenN a) 0) as [E|E]; [lia|].
    cbn [app]. replace (N.pred (1 + lenN a)) with (lenN a) by lia.
    rewrite IH. reflexivity.
Qed.

Lemma splitN_some {A} (l : list A) : forall n a b,
  splitN l n = Some (a, b) -> l = a ++ b /\ lenN a = n.
Proof.
  induction l as [|x t IH]; intros n a b H; rewrite splitN_eq in H.
  - destruct (N.eqb_spec n 0) as [E|E]; [|discriminate].
    inversion H; subst. split; reflexivity.
  - destruct (N.eqb_spec n 0) as [E|E].
    + inversion H; subst. split; reflexivity.
    + destruct (splitN t (N.pred n)) as [[a' b']|] eqn:S; [|discriminate].
      inversion H; subst. destruct (IH _ _ _ S) as [E1 E2].
      split; [cbn [app]; congruence|]. rewrite lenN_cons. lia.
Qed.

Lemma splitN_none {A} (l : list A) : forall n, splitN l n = None -> lenN l < n.
Proof.
  induction l as [|x t IH]; intros n H; rewrite splitN_eq in H.
  - destruct (N.eqb_spec n 0) as [E|E]; [discriminate|]. cbn [lenN]. lia.
  - destruct (N.eqb_spec n 0) as [E|E]; [discriminate|].
    destruct (splitN t (N.pred n)) as [[a' b']|] eqn:S; [discriminate|].
    apply IH in S. rewrite lenN_cons. lia.
Qed.

(* l = pre ++ suf: l[|pre|:] = suf *)
Lemma splitN_app_inv {A} (pre suf a b : list A) :
  splitN (pre ++ suf) (lenN pre) = Some (a, b) -> a = pre /\ b = suf.
Proof. rewrite splitN_app. intros H; inversion H; split; reflexivity. Qed.

(* ---- wfb ---------------------------------------------------------------- *)
Lemma wfb_app (a b : bytes) : wfb (a ++ b) <-> wfb a /\ wfb b.
Proof. unfold wfb. apply Forall_app. Qed.

Lemma wfb_cons (x : N) (a : bytes) : wfb (x :: a) <-> x < 256 /\ wfb a.
Proof.
  unfold wfb. split; intros H.
  - inversion H; subst; split; assumption.
  - destruct H; constructor; assumption.
Qed.

Lemma wfb_nil : wfb [].
Proof. constructor. Qed.

Lemma wfb_concat (l : list bytes) : wfb (List.concat l) <-> Forall wfb l.
Proof. unfold wfb. apply Forall_concat. Qed.

(* ---- be / unbe ---------------------------------------------------------- *)
Lemma unbe_nil : unbe [] = 0.
Proof. reflexivity. Qed.

Lemma unbe_snoc (f : bytes) (b : N) : unbe (f ++ [b]) = unbe f * 256 + b.
Proof. unfold unbe. rewrite fold_left_app. reflexivity. Qed.

Lemma be_S (k : nat) (n : N) :
  be (S k) n = (n / 256 ^ N.of_nat k) mod 256 :: be k n.
Proof. reflexivity. Qed.

Lemma be_snoc (k : nat) : forall n, be (S k) n = be k (n / 256) ++ [n mod 256].
Proof.
  induction k as [|k IH]; intros n.
  - rewrite be_S. cbn [be app N.of_nat]. rewrite N.pow_0_r, N.div_1_r. reflexivity.
  - rewrite be_S. rewrite IH. rewrite (be_S k (n / 256)). cbn [app].
    f_equal. rewrite N.div_div by (try apply N.pow_nonzero; lia).
    rewrite Nat2N.inj_succ, N.pow_succ_r'. reflexivity.
Qed.

Lemma length_be (k : nat) (n : N) : List.length (be k n) = k.
Proof. induction k as [|k IH]; [reflexivity|]. rewrite be_S. cbn [List.length]. rewrite IH. reflexivity. Qed.

Lemma lenN_be (k : nat) (n : N) : lenN (be k n) = N.of_nat k.
Proof. rewrite lenN_length, length_be. reflexivity. Qed.

Lemma wfb_be (k : nat) (n : N) : wfb (be k n).
Proof.
  induction k as [|k IH]; [constructor|]. rewrite be_S. constructor; [|exact IH].
  apply N.mod_lt. lia.
Qed.

Lemma be_unbe (f : bytes) : wfb f -> be (List.length f) (unbe f) = f.
Proof.
  induction f as [|b f IH] using rev_ind; intros W; [reflexivity|].
  apply wfb_app in W. destruct W as [Wf Wb]. apply wfb_cons in Wb. destruct Wb as [Hb _].
  rewrite app_length. cbn [List.length]. rewrite Nat.add_1_r.
  rewrite be_snoc, unbe_snoc.
  replace ((unbe f * 256 + b) / 256) with (unbe f) by lia.
  replace ((unbe f * 256 + b) mod 256) with b by lia.
  rewrite IH by exact Wf. reflexivity.
Qed.

Lemma unbe_lt (f : bytes) : wfb f -> unbe f < 256 ^ N.of_nat (List.length f).
Proof.
  induction f as [|b f IH] using rev_ind; intros W; [cbn; lia|].
  apply wfb_app in W. destruct W as [Wf Wb]. apply wfb_cons in Wb. destruct Wb as [Hb _].
  rewrite app_length. cbn [List.length]. rewrite Nat.add_1_r.
  rewrite Nat2N.inj_succ, N.pow_succ_r', unbe_snoc.
  specialize (IH Wf). nia.
Qed.

Lemma unbe_be (k : nat) : forall n, n < 256 ^ N.of_nat k -> unbe (be k n) = n.
Proof.
  induction k as [|k IH]; intros n H.
  - cbn in H. cbn [be]. rewrite unbe_nil. lia.
  - rewrite be_snoc, unbe_snoc. rewrite IH.
    + lia.
    + rewrite Nat2N.inj_succ, N.pow_succ_r' in H.
      apply N.div_lt_upper_bound; [lia|exact H].
Qed.

(* ---- first byte: major / addinfo --------------------------------------- *)
Lemma major_mk (mt a : N) : a < 32 -> major (mt * 32 + a) = mt * 32.
Proof. intros H. unfold major. lia. Qed.

Lemma addinfo_mk (mt a : N) : a < 32 -> addinfo (mt * 32 + a) = a.
Proof. intros H. unfold addinfo. lia. Qed.

Lemma byte_split (b : N) : b = (b / 32) * 32 + b mod 32.
Proof. lia. Qed.

(* ---- bytes_cmp ---------------------------------------------------------- *)
Lemma bytes_cmp_nil_l (k : bytes) : k <> [] -> bytes_cmp [] k = Lt.
Proof. destruct k; [congruence|reflexivity]. Qed.

Lemma bytes_cmp_lt_trans (a : bytes) : forall b c,
  bytes_cmp a b = Lt -> bytes_cmp b c = Lt -> bytes_cmp a c = Lt.
Proof.
  induction a as [|x a IH]; intros b c H1 H2.
  - destruct b as [|y b]; [discriminate|]. destruct c as [|z c]; [discriminate|]. reflexivity.
  - destruct b as [|y b]; [discriminate|]. destruct c as [|z c]; [discriminate|].
    cbn [bytes_cmp] in *.
    destruct (N.compare_spec x y) as [E1|L1|G1]; try discriminate;
    destruct (N.compare_spec y z) as [E2|L2|G2]; try discriminate.
    + subst. rewrite N.compare_refl. eapply IH; eassumption.
    + subst. rewrite (proj2 (N.compare_lt_iff _ _) L2). reflexivity.
    + subst. rewrite (proj2 (N.compare_lt_iff _ _) L1). reflexivity.
    + rewrite (proj2 (N.compare_lt_iff x z)) by lia. reflexivity.
Qed.
