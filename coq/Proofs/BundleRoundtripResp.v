(* Proofs/BundleRoundtripResp.v - C03, part 1: loadResponse reads back the item the
   writer stored for an exchange: same status, the header fields with names
   case-folded / canonicalised and repeated values comma-joined, same body. *)
From Coq Require Import Lia ZifyN ZifyNat ZifyBool Permutation Sorted.
From WP Require Import Base.Prelude Base.Decimal Model.Cbor Model.Http Model.Bundle.
From WP Require Import Spec.Cbor Spec.Bundle.
From WP Require Import Proofs.BaseLemmas Proofs.CborHead Proofs.CborMap Proofs.CborDecode
  Proofs.Variants Proofs.BundleWriteBasics Proofs.BundleWriteSpec Proofs.BundleWriteSig
  Proofs.BundleWriteForm.
Open Scope N_scope.

(* ---- decoding what the spec-side encoders produce ---------------------------------------- *)
Lemma decode_bytes_item (s rest : bytes) :
  lenN s < two63 -> decode_bytes (bstr_item s ++ rest) = Ok (s, rest).
Proof. intros L. rewrite <- enc_bytes_item. apply decode_encode_bytes. exact L. Qed.

Lemma decode_text_item (s rest : bytes) :
  lenN s < two63 -> utf8_valid s = true -> decode_text (text_item s ++ rest) = Ok (s, rest).
Proof.
  intros L U. rewrite <- enc_text_item. apply (decode_encode_text s); [exact L|].
  unfold enc_text. rewrite U. reflexivity.
Qed.

Lemma decode_uint_item (n : N) (rest : bytes) :
  n < two64 -> decode_uint (uint_item n ++ rest) = Ok (n, rest).
Proof. intros L. rewrite <- enc_uint_item. apply decode_encode_uint. exact L. Qed.

Lemma decode_arr_item (n : N) (rest : bytes) :
  n < two64 -> decode_array_header (arr_head n ++ rest) = Ok (n, rest).
Proof. intros L. rewrite <- enc_arr_item. apply decode_encode_array_header. exact L. Qed.

Lemma decode_map_item (n : N) (rest : bytes) :
  n < two64 -> decode_map_header (map_head n ++ rest) = Ok (n, rest).
Proof. intros L. rewrite <- enc_map_item. apply decode_encode_map_header. exact L. Qed.

(* ---- header names: tokens, case folding, canonical keys ------------------------------------- *)
Lemma is_tchar_ascii (c : N) : is_tchar c = true -> c < 128 /\ c <> 58.
Proof.
  unfold is_tchar, is_digit_b, is_lower_b, is_upper_b. cbn [existsb]. lia.
Qed.

Lemma lower_byte_tchar (c : N) : is_tchar c = true -> is_tchar (lower_byte c) = true.
Proof.
  unfold lower_byte. destruct ((65 <=? c) && (c <=? 90)) eqn:U; [|auto].
  intros _. unfold is_tchar, is_digit_b, is_lower_b, is_upper_b. cbn [existsb]. lia.
Qed.

Lemma lower_byte_idem (c : N) : lower_byte (lower_byte c) = lower_byte c.
Proof. unfold lower_byte. repeat match goal with |- context [if ?b then _ else _] => destruct b eqn:? end; lia. Qed.

Lemma lower_idem (s : bytes) : lower (lower s) = lower s.
Proof. unfold lower. rewrite map_map. apply map_ext. apply lower_byte_idem. Qed.

Lemma lower_canon_go (s : bytes) : forall up, lower (canon_go s up) = lower s.
Proof.
  induction s as [|c r IH]; intros up; [reflexivity|]. cbn [canon_go lower map]. f_equal; [|apply IH].
  unfold lower_byte, is_lower_b, is_upper_b.
  destruct up; cbn [andb negb];
    repeat match goal with |- context [if ?b then _ else _] => destruct b eqn:? end; lia.
Qed.

Lemma lower_canonical_key (s : bytes) : lower (canonical_key s) = lower s.
Proof. unfold canonical_key. destruct (forallb is_tchar s); [apply lower_canon_go|reflexivity]. Qed.

Lemma forallb_tchar_lower (s : bytes) : forallb is_tchar s = true -> forallb is_tchar (lower s) = true.
Proof.
  intros H. rewrite forallb_forall in *. intros c Hc. unfold lower in Hc. apply in_map_iff in Hc.
  destruct Hc as [c0 [E Hc0]]. subst c. apply lower_byte_tchar. apply H. exact Hc0.
Qed.

Lemma tchars_ascii (s : bytes) : forallb is_tchar s = true -> is_ascii_b s = true.
Proof.
  intros H. unfold is_ascii_b. rewrite forallb_forall in *. intros c Hc.
  destruct (is_tchar_ascii c (H c Hc)) as [L _]. lia.
Qed.

(* ---- the status line ----------------------------------------------------------------------------- *)
Definition st_ok (n : N) : bool :=
  match dec_of_N n with
  | [a; b; c] => is_digit_n a && is_digit_n b && is_digit_n c && (digits_val [a; b; c] =? n)
  | _ => false
  end.
Lemma st_all : forallb st_ok (map N.of_nat (seq 100 900)) = true.
Proof. vm_compute. reflexivity. Qed.

Lemma status_digits (z : Z) : (100 <= z <= 999)%Z ->
  exists a b c, dec_of_Z z = [a; b; c] /\ is_digit_n a && is_digit_n b && is_digit_n c = true
                /\ Z.of_N (digits_val [a; b; c]) = z.
Proof.
  intros Hz. unfold dec_of_Z. replace (z <? 0)%Z with false by lia.
  assert (Hin : In (Z.to_N z) (map N.of_nat (seq 100 900))).
  { apply in_map_iff. exists (Z.to_nat z). split; [lia|]. apply in_seq. lia. }
  pose proof st_all as H. rewrite forallb_forall in H. specialize (H _ Hin). unfold st_ok in H.
  destruct (dec_of_N (Z.to_N z)) as [|a [|b [|c [|d r]]]]; try discriminate.
  exists a, b, c. split; [reflexivity|].
  apply andb_true_iff in H. destruct H as [H1 H2]. split; [exact H1|]. apply N.eqb_eq in H2. lia.
Qed.

(* ---- decodeCborHeaders on a canonical header map ---------------------------------------------------- *)
Definition pseudo_name (n : bytes) : bool := match n with c :: _ => c =? 58 | [] => false end.
Definition pseudo (f : bytes * bytes) : bool := pseudo_name (fst f).
Definition regular (f : bytes * bytes) : bool := negb (pseudo_name (fst f)).
Definition hdr_of (f : bytes * bytes) : bytes * list bytes := (canonical_key (fst f), [snd f]).

Lemma match58 {T} (n : bytes) (X Y : T) :
  match n with 58 :: _ => X | _ => Y end = if pseudo_name n then X else Y.
Proof.
  destruct n as [|c r]; [reflexivity|]. cbn [pseudo_name].
  destruct (N.eqb_spec c 58) as [->|Hne]; [reflexivity|].
  destruct c as [|p]; [reflexivity|].
  repeat (match goal with q : positive |- _ => destruct q; try reflexivity end).
  exfalso. apply Hne. reflexivity.
Qed.

Lemma dch_S (f : nat) (n : N) (bs : bytes) (h : headers) (ps : list (bytes * bytes)) :
  dec_cbor_headers (S f) n bs h ps =
  if n =? 0 then Ok (h, ps, bs)
  else
    let* (name, r1) := decode_bytes bs in
    let* (value, r2) := decode_bytes r1 in
    if negb (is_ascii_b name) then Err
    else if negb (is_ascii_b value) then Err
    else if negb (bytes_eqb (lower name) name) then Err
    else if pseudo_name name then
      (if existsb (fun p => bytes_eqb (fst p) name) ps then Err
       else dec_cbor_headers f (n - 1) r2 h (ps ++ [(name, value)]))
    else
      (if existsb (fun nv => bytes_eqb (fst nv) (canonical_key name)) h then Err
       else dec_cbor_headers f (n - 1) r2 (h ++ [(canonical_key name, [value])]) ps).
Proof.
  cbn [dec_cbor_headers]. destruct (n =? 0); [reflexivity|].
  destruct (decode_bytes bs) as [[name r1]| | |]; cbn [bind]; try reflexivity.
  destruct (decode_bytes r1) as [[value r2]| | |]; cbn [bind]; try reflexivity.
  destruct (negb (is_ascii_b name)); [reflexivity|].
  destruct (negb (is_ascii_b value)); [reflexivity|].
  destruct (negb (bytes_eqb (lower name) name)); [reflexivity|].
  apply match58.
Qed.

Definition fld_ok (f : bytes * bytes) : Prop :=
  lenN (fst f) < two63 /\ lenN (snd f) < two63 /\
  is_ascii_b (fst f) = true /\ is_ascii_b (snd f) = true /\ lower (fst f) = fst f.

Lemma existsb_key_false {V} (l : list (bytes * V)) (k : bytes) :
  ~ In k (map fst l) -> existsb (fun p => bytes_eqb (fst p) k) l = false.
Proof.
  intros H. apply not_true_is_false. intros T. apply existsb_exists in T.
  destruct T as [p [Hp E]]. apply bytes_eqb_eq in E. apply H. subst k. apply in_map. exact Hp.
Qed.

Lemma dch_run (fs : list (bytes * bytes)) : forall fuel h ps rest,
  (List.length fs < fuel)%nat -> Forall fld_ok fs ->
  NoDup (map fst ps ++ map fst (filter pseudo fs)) ->
  NoDup (map fst h ++ map (fun f => canonical_key (fst f)) (filter regular fs)) ->
  dec_cbor_headers fuel (lenN fs) (flat_map field_bytes fs ++ rest) h ps
  = Ok (h ++ map hdr_of (filter regular fs), ps ++ filter pseudo fs, rest).
Proof.
  induction fs as [|[name value] t IH]; intros fuel h ps rest Hf F Np Nh.
  - destruct fuel as [|f]; [cbn in Hf; lia|]. cbn [dec_cbor_headers lenN flat_map filter map app].
    rewrite !app_nil_r. reflexivity.
  - destruct fuel as [|f]; [cbn in Hf; lia|]. cbn [List.length] in Hf.
    inversion F as [|? ? [L1 [L2 [A1 [A2 Lo]]]] Ft]; subst. cbn [fst snd] in *.
    rewrite dch_S. cbn [lenN]. replace (N.succ (lenN t) =? 0) with false by lia.
    cbn [flat_map]. unfold field_bytes at 1. cbn [fst snd]. rewrite <- !app_assoc.
    rewrite decode_bytes_item by exact L1. cbn [bind]. rewrite decode_bytes_item by exact L2. cbn [bind].
    rewrite A1, A2, Lo, bytes_eqb_refl. cbn [negb].
    replace (N.succ (lenN t) - 1) with (lenN t) by lia.
    cbn [filter] in Np, Nh |- *.
    assert (Ep : pseudo (name, value) = pseudo_name name) by reflexivity.
    assert (Er : regular (name, value) = negb (pseudo_name name)) by reflexivity.
    rewrite Ep in Np. rewrite Er in Nh. rewrite Ep, Er. clear Ep Er.
    destruct (pseudo_name name) eqn:P; cbn [negb] in *.
    + cbn [map fst] in Np.
      rewrite existsb_key_false.
      2:{ intros Hin. apply NoDup_remove_2 in Np. apply Np. apply in_or_app. left. exact Hin. }
      rewrite IH; [|lia|exact Ft| |exact Nh].
      * rewrite <- !app_assoc. reflexivity.
      * rewrite map_app. cbn [map fst]. rewrite <- app_assoc. cbn [app].
        exact Np.
    + cbn [map fst] in Nh.
      rewrite existsb_key_false.
      2:{ intros Hin. apply NoDup_remove_2 in Nh. apply Nh. apply in_or_app. left. exact Hin. }
      rewrite IH; [|lia|exact Ft|exact Np|].
      * cbn [map]. unfold hdr_of at 2. cbn [fst snd]. rewrite <- !app_assoc. reflexivity.
      * rewrite map_app. cbn [map fst]. rewrite <- app_assoc. cbn [app].
        exact Nh.
Qed.

(* ---- which exchanges read back ------------------------------------------------------------------------ *)
(* exactly what Response.EncodeHeader insists on (encode_response_header = Ok _
   implies it, see Proofs/BundleWriteOk.v): a three-digit status, ASCII names not
   starting with ':', ASCII comma-joined values, names distinct after case
   folding.  Names need not be RFC 7230 tokens and may be empty. *)
Definition xwritable (x : bexchange) : bool :=
  (100 <=? bx_status x)%Z && (bx_status x <=? 999)%Z
  && forallb hdr_writable_b (bx_hdr x)
  && nodupb (map (fun nv => lower (fst nv)) (bx_hdr x)).

Lemma hdr_writable_parts (nv : bytes * list bytes) : hdr_writable_b nv = true ->
  pseudo_name (fst nv) = false /\ is_ascii_b (fst nv) = true /\ is_ascii_b (join_comma (snd nv)) = true.
Proof.
  unfold hdr_writable_b. rewrite (match58 (fst nv) true false). intros H.
  apply andb_true_iff in H. destruct H as [H H3]. apply andb_true_iff in H. destruct H as [H1 H2].
  destruct (pseudo_name (fst nv)); [discriminate|]. auto.
Qed.

Lemma lower_byte_ascii (c : N) : c < 128 -> lower_byte c < 128.
Proof. unfold lower_byte. destruct ((65 <=? c) && (c <=? 90)) eqn:U; lia. Qed.

Lemma lower_ascii (s : bytes) : is_ascii_b s = true -> is_ascii_b (lower s) = true.
Proof.
  unfold is_ascii_b, lower. rewrite !forallb_forall. intros H c Hc. apply in_map_iff in Hc.
  destruct Hc as [c0 [E Hc0]]. subst c. specialize (H c0 Hc0). pose proof (lower_byte_ascii c0). lia.
Qed.

Lemma lower_not_pseudo (n : bytes) : pseudo_name n = false -> pseudo_name (lower n) = false.
Proof.
  destruct n as [|c r]; [reflexivity|]. cbn [lower map pseudo_name]. unfold lower_byte.
  destruct ((65 <=? c) && (c <=? 90)) eqn:U; lia.
Qed.

(* what comes back: canonical name, one comma-joined value, in the order of the
   encoded lower-case names *)
Definition norm_hdr (st : Z) (h : headers) : headers :=
  map hdr_of (filter regular (rsp_fields st h)).
Definition xnorm (x : bexchange) : bexchange :=
  {| bx_url := bx_url x; bx_status := bx_status x;
     bx_hdr := norm_hdr (bx_status x) (bx_hdr x); bx_body := bx_body x |}.

Lemma join_comma_ascii (vs : list bytes) :
  forallb is_ascii_b vs = true -> is_ascii_b (join_comma vs) = true.
Proof.
  induction vs as [|v t IH]; intros H; [reflexivity|]. cbn [forallb] in H.
  apply andb_true_iff in H. destruct H as [Hv Ht]. cbn [join_comma].
  destruct t as [|v2 t']; [exact Hv|]. unfold is_ascii_b in *. rewrite !forallb_app, Hv, (IH Ht). reflexivity.
Qed.

Lemma Permutation_filter {A} (f : A -> bool) (l l' : list A) :
  Permutation l l' -> Permutation (filter f l) (filter f l').
Proof.
  induction 1 as [|x l l' _ IH|x y l|l l' l'' _ IH1 _ IH2]; cbn [filter].
  - constructor.
  - destruct (f x); [constructor; exact IH|exact IH].
  - destruct (f x), (f y); try apply Permutation_refl. apply perm_swap.
  - eapply perm_trans; eassumption.
Qed.

Lemma filter_all {A} (f : A -> bool) (l : list A) : Forall (fun a => f a = true) l -> filter f l = l.
Proof. induction 1 as [|x t Hx _ IH]; cbn [filter]; [reflexivity|]. rewrite Hx, IH. reflexivity. Qed.
Lemma filter_none {A} (f : A -> bool) (l : list A) : Forall (fun a => f a = false) l -> filter f l = [].
Proof. induction 1 as [|x t Hx _ IH]; cbn [filter]; [reflexivity|]. rewrite Hx, IH. reflexivity. Qed.

Section OneExchange.
  Variable x : bexchange.
  Hypothesis W : xwritable x = true.

  Let st := bx_status x.
  Let h := bx_hdr x.

  Lemma xw_status : (100 <= st <= 999)%Z.
  Proof. unfold xwritable in W. fold st in W. lia. Qed.

  Lemma xw_hdrs : Forall (fun nv => hdr_writable_b nv = true) h.
  Proof.
    unfold xwritable in W. fold h in W.
    apply andb_true_iff in W. destruct W as [W1 _]. apply andb_true_iff in W1. destruct W1 as [_ W1].
    rewrite forallb_forall in W1. apply Forall_forall. exact W1.
  Qed.

  Lemma xw_nodup : NoDup (map (fun nv => lower (fst nv)) h).
  Proof.
    unfold xwritable in W. fold h in W. apply andb_true_iff in W. destruct W as [_ W2].
    apply nodupb_sound. exact W2.
  Qed.

  Lemma folded_regular : Forall (fun f => regular f = true) (map fold_hdr h).
  Proof.
    apply Forall_map. eapply Forall_impl; [|exact xw_hdrs]. intros nv Hw.
    apply hdr_writable_parts in Hw. destruct Hw as [Hp _].
    unfold regular, fold_hdr. cbn [fst]. rewrite (lower_not_pseudo _ Hp). reflexivity.
  Qed.

  Lemma raw_regular : filter regular (raw_fields st h) = map fold_hdr h.
  Proof.
    unfold raw_fields. cbn [filter].
    replace (regular (status_name, dec_of_Z st)) with false by reflexivity.
    apply filter_all. exact folded_regular.
  Qed.

  Lemma raw_pseudo : filter pseudo (raw_fields st h) = [(status_name, dec_of_Z st)].
  Proof.
    unfold raw_fields. cbn [filter].
    replace (pseudo (status_name, dec_of_Z st)) with true by reflexivity. f_equal. apply filter_none.
    eapply Forall_impl; [|exact folded_regular]. intros f Hf. unfold regular in Hf. unfold pseudo.
    apply negb_true_iff in Hf. exact Hf.
  Qed.

  Lemma sorted_pseudo : filter pseudo (rsp_fields st h) = [(status_name, dec_of_Z st)].
  Proof.
    pose proof (Permutation_filter pseudo _ _ (rsp_fields_perm st h)) as P. rewrite raw_pseudo in P.
    apply Permutation_sym, Permutation_length_1_inv in P. exact P.
  Qed.

  Lemma sorted_regular_perm : Permutation (filter regular (rsp_fields st h)) (map fold_hdr h).
  Proof. rewrite <- raw_regular. apply Permutation_filter, rsp_fields_perm. Qed.

  Lemma canon_keys_nodup :
    NoDup (map (fun f => canonical_key (fst f)) (filter regular (rsp_fields st h))).
  Proof.
    eapply Permutation_NoDup; [apply Permutation_map, Permutation_sym, sorted_regular_perm|].
    rewrite map_map. cbn [fold_hdr fst].
    pose proof xw_nodup as ND.
    assert (E : map (fun nv : bytes * list bytes => lower (fst nv)) h
                = map lower (map (fun nv => canonical_key (lower (fst nv))) h)).
    { rewrite map_map. apply map_ext. intros nv. rewrite lower_canonical_key, lower_idem. reflexivity. }
    rewrite E in ND. eapply NoDup_map_inv'. exact ND.
  Qed.

  Lemma folded_fld_ok (B : N) : B <= two63 ->
    Forall (fun f => lenN (fst f) < B /\ lenN (snd f) < B) (raw_fields st h) ->
    Forall fld_ok (rsp_fields st h).
  Proof.
    intros HB HL. apply Forall_forall. intros f Hf.
    apply (Permutation_in _ (rsp_fields_perm st h)) in Hf.
    rewrite Forall_forall in HL. specialize (HL f Hf). destruct HL as [L1 L2].
    unfold fld_ok. split; [eapply N.lt_le_trans; eassumption|]. split; [eapply N.lt_le_trans; eassumption|].
    unfold raw_fields in Hf. destruct Hf as [Hf|Hf].
    - subst f. cbn [fst snd]. split; [reflexivity|]. split; [|reflexivity].
      destruct (status_digits st xw_status) as [a [b [c [E [D _]]]]]. rewrite E.
      unfold is_ascii_b. cbn [forallb]. unfold is_digit_n in D. lia.
    - apply in_map_iff in Hf. destruct Hf as [[n vs] [E Hin]]. subst f. unfold fold_hdr. cbn [fst snd].
      pose proof xw_hdrs as X. rewrite Forall_forall in X.
      destruct (hdr_writable_parts _ (X _ Hin)) as [_ [Hn Hv]]. cbn [fst snd] in *.
      split; [apply lower_ascii; exact Hn|].
      split; [exact Hv|apply lower_idem].
  Qed.

  (* C03, one exchange *)
  Theorem load_response_item :
    lenN (item_of x) < two63 ->
    load_response (item_of x) = Ok (bx_status x, norm_hdr (bx_status x) (bx_hdr x), bx_body x).
  Proof.
    intros L. unfold item_of, rsp_bytes, rsp_of in *. cbn [r_fields r_payload] in *. fold st h in L |- *.
    set (fs := rsp_fields st h) in *. change (arr_head 2) with [130] in *. cbn [app] in *.
    cbn [lenN] in L. rewrite !lenN_app in L.
    assert (Lh : lenN (hmap_bytes fs) < two63).
    { unfold bstr_item in L. cbn [senc_token] in L. rewrite !lenN_app in L. lia. }
    assert (Lb : lenN (bx_body x) < two63).
    { unfold bstr_item in L. cbn [senc_token] in L. rewrite !lenN_app in L. lia. }
    unfold load_response. cbn [N.eqb Pos.eqb negb].
    rewrite decode_bytes_item by exact Lh. cbn [bind].
    unfold hmap_bytes at 1. rewrite <- (app_nil_r (flat_map field_bytes fs)).
    unfold hmap_bytes in Lh. rewrite lenN_app in Lh.
    assert (Ln : lenN fs <= lenN (flat_map field_bytes fs)).
    { apply lenN_flat_map_ge. intros f. unfold field_bytes, bstr_item. cbn [senc_token].
      rewrite !lenN_app. pose proof (senc_head_len_ge 2 (lenN (fst f))). lia. }
    rewrite decode_map_item by (unfold two63, two64 in *; lia). cbn [bind].
    assert (Fo : Forall fld_ok fs).
    { apply (folded_fld_ok (lenN (flat_map field_bytes fs))); [lia|].
      apply Forall_forall. intros f Hf.
      apply (Permutation_in _ (Permutation_sym (rsp_fields_perm st h))) in Hf. fold fs in Hf.
      pose proof (lenN_flat_map_in field_bytes fs f Hf) as Lf.
      unfold field_bytes at 1 in Lf. unfold bstr_item in Lf. cbn [senc_token] in Lf. rewrite !lenN_app in Lf.
      pose proof (senc_head_len_ge 2 (lenN (fst f))) as G1. pose proof (senc_head_len_ge 2 (lenN (snd f))) as G2.
      clear - Lf G1 G2. unfold bytes in *. lia. }
    rewrite (dch_run fs (S (List.length (flat_map field_bytes fs ++ []))) [] [] []).
    - cbn [app bind]. pose proof sorted_pseudo as SP. fold fs in SP. rewrite SP.
      replace (bytes_eqb status_name (s2b ":status")) with true by reflexivity. cbn [negb].
      destruct (status_digits st xw_status) as [a [b [c [E [D V]]]]]. rewrite E, D.
      rewrite <- (app_nil_r (bstr_item (bx_body x))). rewrite decode_bytes_item by exact Lb. cbn [bind].
      rewrite V. reflexivity.
    - rewrite app_nil_r. rewrite lenN_length in Ln. rewrite lenN_length in Ln. lia.
    - exact Fo.
    - cbn [map app]. unfold fs. rewrite sorted_pseudo. cbn [map fst]. repeat constructor. intros [].
    - cbn [map app]. exact canon_keys_nodup.
  Qed.
End OneExchange.
