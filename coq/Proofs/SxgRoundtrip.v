(* Proofs/SxgRoundtrip.v - C02, write / read half: what Write emits is read back
   as canon_exchange; Write refuses what does not fit; canon_exchange is a
   fixpoint; ReadExchange never panics nor diverges. *)
From Coq Require Import Lia ZifyN ZifyNat ZifyBool Permutation Sorted.
From WP Require Import Base.Prelude Base.Decimal.
From WP Require Import Model.Cbor Model.BigEndian Model.Http Model.Url Model.Sxg.
From WP Require Import Spec.Cbor Spec.Sxg.
From WP Require Import Proofs.BaseLemmas Proofs.CborHead Proofs.CborMap Proofs.CborDecode.
From WP Require Import Proofs.SxgCanon Proofs.SxgSign Proofs.SxgReadDefs Proofs.SxgLoop.
Ltac Zify.zify_post_hook ::= Z.div_mod_to_equations.
Open Scope N_scope.

(* ---- the order of the written pairs --------------------------------------------- *)
Definition pair_lt (a b : bytes * bytes) : bool := bytes_ltb (enc_bytes (fst a)) (enc_bytes (fst b)).

Lemma pair_lt_asym (a b : bytes * bytes) : pair_lt a b = true -> pair_lt b a = false.
Proof. apply bytes_ltb_asym. Qed.
Lemma pair_lt_trans (a b c : bytes * bytes) :
  pair_lt b a = false -> pair_lt c b = false -> pair_lt c a = false.
Proof. apply bytes_leb_trans. Qed.
Lemma lt_name_asym (a b : bytes * list bytes) : lt_name a b = true -> lt_name b a = false.
Proof. apply bytes_ltb_asym. Qed.
Lemma lt_name_trans (a b c : bytes * list bytes) :
  lt_name b a = false -> lt_name c b = false -> lt_name c a = false.
Proof. apply bytes_leb_trans. Qed.

Lemma flat_map_map {A B C} (f : B -> list C) (g : A -> B) (l : list A) :
  flat_map f (map g l) = flat_map (fun x => f (g x)) l.
Proof. induction l as [|x t IH]; [reflexivity|]. cbn [map flat_map]. rewrite IH. reflexivity. Qed.

Lemma enc_map_pairs_ok (P : list (bytes * bytes)) (out : bytes) :
  enc_map (map epair P) = Ok out -> out = enc_map_header (lenN P) ++ enc_pairs (isort pair_lt P).
Proof.
  intros H. apply enc_map_ok in H. destruct H as [E _]. rewrite E, lenN_map. f_equal.
  unfold sort_entries. rewrite <- (isort_map epair entry_lt P), flat_map_map. reflexivity.
Qed.

Lemma sorted_raw (h : headers) : isort pair_lt (raw_pairs h) = map raw_pair (isort lt_name h).
Proof. unfold raw_pairs. symmetry. apply (isort_map raw_pair pair_lt h). Qed.

(* ---- sizes ---------------------------------------------------------------------- *)
Lemma typed_uint_len (t n : N) : 1 <= lenN (typed_uint t n).
Proof.
  unfold typed_uint. destruct (n <? 24); [cbn; lia|]. destruct (n <? 256); [cbn [lenN]; lia|].
  destruct (n <? 65536); [cbn [lenN]; lia|]. destruct (n <? 4294967296); cbn [lenN]; lia.
Qed.

Lemma enc_pair_len (kv : bytes * bytes) : lenN (fst kv) + lenN (snd kv) + 2 <= lenN (enc_pair kv).
Proof.
  unfold enc_pair, enc_bytes, enc_bytes_of. rewrite !lenN_app.
  pose proof (typed_uint_len MBytes (lenN (fst kv))). pose proof (typed_uint_len MBytes (lenN (snd kv))). lia.
Qed.

Lemma enc_pairs_bounds (L : list (bytes * bytes)) :
  2 * lenN L <= lenN (enc_pairs L) /\
  forall kv, In kv L -> lenN (fst kv) + lenN (snd kv) + 2 <= lenN (enc_pairs L).
Proof.
  induction L as [|a L [IH1 IH2]]; [split; [cbn; lia|intros kv []]|].
  unfold enc_pairs. cbn [flat_map lenN]. fold (enc_pairs L). rewrite lenN_app.
  pose proof (enc_pair_len a) as Ha. split; [lia|].
  intros kv [E|Hin]; [subst; lia|]. specialize (IH2 kv Hin). lia.
Qed.

Lemma written_map_sizes (P : list (bytes * bytes)) (out : bytes) (B : N) :
  enc_map (map epair P) = Ok out -> lenN out <= B ->
  2 * lenN P <= B /\ Forall (fun kv => lenN (fst kv) <= B /\ lenN (snd kv) <= B) P.
Proof.
  intros H HB. apply enc_map_pairs_ok in H. subst out. rewrite lenN_app in HB.
  destruct (enc_pairs_bounds (isort pair_lt P)) as [H1 H2]. rewrite isort_lenN in H1.
  split; [lia|]. apply Forall_forall. intros kv Hin.
  assert (Hin' : In kv (isort pair_lt P))
    by (eapply Permutation_in; [apply Permutation_sym, isort_perm|exact Hin]).
  specialize (H2 kv Hin'). unfold bytes, byte in *. split; lia.
Qed.

(* ---- readable, unpacked ---------------------------------------------------------- *)
Lemma headers_ok_inv (h : headers) : headers_ok h = true ->
  Forall (fun nv => name_ok (fst nv) = true) h.
Proof. unfold headers_ok. intros H1. apply Forall_forall. rewrite forallb_forall in H1. exact H1. Qed.

Lemma readable_inv (e : exchange) : readable e = true ->
  snd (validate_fallback (e_uri e)) = false /\ headers_ok (e_resph e) = true /\
  (-9223372036854775808 <= e_status e < 9223372036854775808)%Z /\ e_taint e = false /\
  match e_ver e with
  | V1b3 => e_method e = s2b "GET" /\ e_reqh e = []
  | _ => headers_ok (e_reqh e) = true
  end.
Proof.
  unfold readable. rewrite !andb_true_iff. intros ((((Hu & Hs) & Hz) & Ht) & Hv).
  split.
  { unfold write_taint in Hu. destruct (snd (validate_fallback (e_uri e))); [discriminate|reflexivity]. }
  split; [exact Hs|]. split; [unfold int64_b in Hz; lia|].
  split; [destruct (e_taint e); [discriminate|reflexivity]|].
  destruct (e_ver e); try exact Hv.
  apply andb_true_iff in Hv. destruct Hv as [Hm Hq]. split; [apply bytes_eqb_eq; exact Hm|].
  destruct (e_reqh e); [reflexivity|discriminate].
Qed.

(* ---- Write's own refusals -------------------------------------------------------------- *)
Theorem write_ok_url (e : exchange) (bs : bytes) :
  write e = Ok bs -> fst (validate_fallback (e_uri e)) = true.
Proof.
  intros H. apply write_ok_body in H. destruct H as [Hr _]. unfold write_refuses in Hr.
  apply orb_false_iff in Hr. destruct Hr as [Hu _].
  destruct (fst (validate_fallback (e_uri e))); [reflexivity|discriminate].
Qed.

Theorem write_ok_no_url_key (e : exchange) (bs : bytes) :
  write e = Ok bs -> e_ver e = V1b2 ->
  existsb (fun nv => bytes_eqb (lower (fst nv)) (s2b ":url")) (e_reqh e) = false.
Proof.
  intros H Ev. apply write_ok_body in H. destruct H as [Hr _]. unfold write_refuses in Hr.
  apply orb_false_iff in Hr. destruct Hr as [_ Hk]. rewrite Ev in Hk. exact Hk.
Qed.

Lemma validate_fallback_pair (u : bytes) :
  fst (validate_fallback u) = true -> snd (validate_fallback u) = false ->
  validate_fallback u = (true, false).
Proof. destruct (validate_fallback u) as [a b]. cbn [fst snd]. intros -> ->. reflexivity. Qed.

(* ---- ASCII names ------------------------------------------------------------------------ *)
Lemma is_ascii_lower (n : bytes) : is_ascii n = true -> is_ascii (lower n) = true.
Proof.
  unfold is_ascii, lower. intros H. rewrite forallb_forall in *. intros c Hc.
  apply in_map_iff in Hc. destruct Hc as [c0 [<- Hc0]]. specialize (H c0 Hc0).
  unfold lower_byte. destruct ((65 <=? c0) && (c0 <=? 90)) eqn:E; lia.
Qed.

Lemma ascii_lower_check (n : bytes) : is_ascii n = true -> lower_check (lower n) = Some true.
Proof.
  intros H. unfold lower_check. rewrite (is_ascii_lower n H), lower_idem, bytes_eqb_refl. reflexivity.
Qed.

Lemma raw_pairs_facts (h : headers) : Forall (fun nv => name_ok (fst nv) = true) h ->
  Forall (fun kv => lower_check (fst kv) = Some true) (raw_pairs h).
Proof.
  intros H. unfold raw_pairs. apply Forall_map. eapply Forall_impl; [|exact H].
  intros [n vs] Hn. cbn [fst] in Hn. unfold raw_pair. cbn [fst snd].
  apply ascii_lower_check. exact Hn.
Qed.

(* a key that heads a duplicate-free key list is the key of no later pair *)
Lemma nodup_head_not_key (k : bytes) (P : list (bytes * bytes)) :
  NoDup (k :: map fst P) -> Forall (fun kv => bytes_eqb (fst kv) k = false) P.
Proof.
  intros Hn. inversion Hn as [|? ? Hni _]; subst. apply Forall_forall. intros kv Hin.
  apply bytes_eqb_neq. intros E. apply Hni. rewrite <- E. apply in_map. exact Hin.
Qed.

Lemma NoDup_map_via {A B C} (f : A -> B) (g : A -> C) (l : list A) :
  NoDup (map f l) -> (forall x y, g x = g y -> f x = f y) -> NoDup (map g l).
Proof.
  intros Hn Hinj. induction l as [|x t IH]; [constructor|].
  cbn [map] in *. inversion Hn as [|? ? Hx Ht]; subst. constructor; [|apply IH; exact Ht].
  intros Hin. apply in_map_iff in Hin. destruct Hin as [y [E Hy]].
  apply Hx. apply in_map_iff. exists y. split; [apply Hinj; exact E|exact Hy].
Qed.

(* EncodeMap succeeded: the keys, hence the lower-cased names, are distinct *)
Lemma enc_map_ok_nodup (P : list (bytes * bytes)) (out : bytes) :
  enc_map (map epair P) = Ok out -> NoDup (map fst P).
Proof.
  intros H. apply distinct_iff. destruct (distinct (map fst P)) eqn:E; [reflexivity|]. exfalso.
  assert (Herr : enc_map (map epair P) = Err).
  { apply enc_map_dup. intros Hnd. rewrite map_map in Hnd.
    assert (Hn : NoDup (map fst P)).
    { apply (NoDup_map_via (fun kv => fst (epair kv)) fst P Hnd).
      intros x y Exy. unfold epair. cbn [fst]. rewrite Exy. reflexivity. }
    apply distinct_iff in Hn. congruence. }
  congruence.
Qed.

Lemma NoDup_app_tail {A} (a b : list A) : NoDup (a ++ b) -> NoDup b.
Proof. induction a as [|x a IH]; [trivial|]. cbn [app]. intros H. inversion H; subst. apply IH. assumption. Qed.

Lemma raw_names (h : headers) : map fst (raw_pairs h) = map (fun nv => lower (fst nv)) h.
Proof. unfold raw_pairs. rewrite map_map. reflexivity. Qed.

Lemma fields_fold (h : headers) : NoDup (map (fun nv => lower (fst nv)) h) ->
  fold_left add_field (map raw_pair (isort lt_name h)) [] = canon_headers h.
Proof.
  intros Hn. rewrite add_fields_fresh.
  - cbn [app]. unfold canon_headers. rewrite map_map. reflexivity.
  - cbn [map app]. rewrite map_map.
    eapply Permutation_NoDup; [apply Permutation_map, Permutation_sym, isort_perm|].
    apply (NoDup_map_via (fun nv => lower (fst nv))); [exact Hn|].
    intros [n vs] [n' vs'] E. cbn [raw_pair fst] in *.
    apply (f_equal lower) in E. rewrite !lower_canonical_key, !lower_idem in E. exact E.
Qed.

(* ---- the response map, read back ---------------------------------------------------- *)
Lemma hstate_eq (a b : hstate) :
  h_method a = h_method b -> h_uri a = h_uri b -> h_req a = h_req b -> h_status a = h_status b ->
  h_resp a = h_resp b -> h_taint a = h_taint b -> a = b.
Proof. destruct a, b. cbn. intros; subst; reflexivity. Qed.

Lemma Forall_isort {A} (lt : A -> A -> bool) (Q : A -> Prop) (l : list A) :
  Forall Q l -> Forall Q (isort lt l).
Proof.
  intros H. apply Forall_forall. intros x Hx. rewrite Forall_forall in H. apply H.
  eapply Permutation_in; [apply isort_perm|exact Hx].
Qed.

Lemma length_isort {A} (lt : A -> A -> bool) (l : list A) : List.length (isort lt l) = List.length l.
Proof. apply Permutation_length, isort_perm. Qed.

Lemma read_response_map (e : exchange) (rs rest : bytes) (s : hstate) (fuel : nat) (B : N) :
  Forall (fun nv => name_ok (fst nv) = true) (e_resph e) ->
  (-9223372036854775808 <= e_status e < 9223372036854775808)%Z ->
  encode_response_map e = Ok rs -> lenN rs <= B -> B < two63 ->
  (List.length rs < fuel)%nat -> h_resp s = [] ->
  exists m r, decode_map_header (rs ++ rest) = Ok (m, r) /\
  dec_response_map fuel m r s
  = Ok ({| h_method := h_method s; h_uri := h_uri s; h_req := h_req s; h_status := e_status e;
           h_resp := canon_headers (e_resph e); h_taint := h_taint s |}, rest).
Proof.
  intros Hnames Hz Henc HB HB63 Hfuel Hs0.
  rewrite encode_response_map_pairs in Henc.
  assert (Hnd : NoDup (map (fun nv => lower (fst nv)) (e_resph e))).
  { pose proof (enc_map_ok_nodup _ _ Henc) as Hn. unfold resp_pairs in Hn. cbn [map] in Hn.
    inversion Hn; subst. rewrite <- raw_names. assumption. }
  destruct (written_map_sizes _ _ B Henc HB) as [Hcnt Hsz].
  pose proof (enc_map_pairs_ok _ _ Henc) as Ers.
  set (P := resp_pairs e) in *. set (S' := isort pair_lt P) in *.
  assert (Hlen : (List.length S' <= List.length rs)%nat).
  { destruct (enc_pairs_bounds S') as [H1 _]. subst rs. rewrite app_length.
    rewrite !lenN_length in H1. lia. }
  rewrite Ers, <- app_assoc.
  exists (lenN P), (enc_pairs S' ++ rest).
  split; [apply decode_encode_map_header; unfold two63, two64 in *; lia|].
  replace (lenN P) with (lenN S') by (apply isort_lenN).
  assert (Hraw : Forall (fun kv => True /\ True /\ is_st kv = false /\
                                   lower_check (fst kv) = Some true) (raw_pairs (e_resph e))).
  { pose proof (enc_map_ok_nodup _ _ Henc) as Hnk. unfold P, resp_pairs in Hnk. cbn [map fst] in Hnk.
    pose proof (nodup_head_not_key _ _ Hnk) as Hst. pose proof (raw_pairs_facts _ Hnames) as Hlc.
    rewrite Forall_forall in *. intros kv Hin. specialize (Hst kv Hin). specialize (Hlc kv Hin).
    repeat split; assumption. }
  assert (HP : Forall (fun kv => pair_readable kv /\ (is_st kv = true -> atoi (snd kv) <> None)) P).
  { apply Forall_forall. intros kv Hin. rewrite Forall_forall in Hsz. destruct (Hsz kv Hin) as [Hk Hx].
    assert (Hk63 : lenN (fst kv) < two63 /\ lenN (snd kv) < two63)
      by (unfold bytes, byte in *; split; lia).
    unfold P, resp_pairs in Hin. destruct Hin as [E|Hin].
    - subst kv. split; [split; [reflexivity|exact Hk63]|].
      intros _. cbn [snd]. rewrite (atoi_itoa _ Hz). discriminate.
    - rewrite Forall_forall in Hraw. destruct (Hraw kv Hin) as (_ & _ & Est & Hlc).
      split; [split; [exact Hlc|exact Hk63]|]. intros Hst. congruence. }
  rewrite dec_response_map_pairs; [|lia|apply Forall_isort; exact HP].
  f_equal. f_equal.
  destruct (resp_fold S' s) as (F1 & F2 & F3 & F4 & F5 & F6).
  apply hstate_eq; cbn [h_method h_uri h_req h_status h_resp h_taint]; try assumption.
  - rewrite F4. unfold S'. rewrite (filter_isort pair_lt is_st pair_lt_trans pair_lt_asym).
    unfold P, resp_pairs. cbn [filter]. change (is_st (key_status, dec_of_Z (e_status e))) with true.
    cbv iota. rewrite filter_none by (eapply Forall_impl; [|exact Hraw]; intros kv H; cbv beta in *; tauto).
    cbn [isort insert fold_left]. unfold last_status. cbn [snd]. rewrite (atoi_itoa _ Hz). reflexivity.
  - rewrite F5, Hs0. unfold S'. rewrite (filter_isort pair_lt is_field_s pair_lt_trans pair_lt_asym).
    unfold P, resp_pairs. cbn [filter].
    change (is_field_s (key_status, dec_of_Z (e_status e))) with false. cbv iota.
    rewrite filter_all.
    + rewrite sorted_raw. apply fields_fold. exact Hnd.
    + eapply Forall_impl; [|exact Hraw]. intros kv (_ & _ & Est & _). unfold is_field_s. rewrite Est.
      reflexivity.
Qed.

(* ---- the request map, read back ------------------------------------------------------ *)
Lemma read_request_map (e : exchange) (rq rest : bytes) (s : hstate) (fuel : nat) (B : N) :
  e_ver e <> V1b3 ->
  Forall (fun nv => name_ok (fst nv) = true) (e_reqh e) ->
  validate_fallback (e_uri e) = (true, false) ->
  encode_request_map e = Ok rq -> lenN rq <= B -> B < two63 ->
  (List.length rq < fuel)%nat -> h_req s = [] ->
  (e_ver e = V1b2 -> h_uri s = e_uri e) ->
  (e_ver e = V1b2 -> existsb (fun nv => bytes_eqb (lower (fst nv)) (s2b ":url")) (e_reqh e) = false) ->
  exists m r, decode_map_header (rq ++ rest) = Ok (m, r) /\
  dec_request_map fuel (e_ver e) m r s
  = Ok ({| h_method := e_method e; h_uri := e_uri e; h_req := canon_headers (e_reqh e);
           h_status := h_status s; h_resp := h_resp s; h_taint := h_taint s |}, rest).
Proof.
  intros Hv Hnames Hurl Henc HB HB63 Hfuel Hs0 Hu0 Hnourl.
  rewrite encode_request_map_pairs in Henc.
  assert (Hnd : NoDup (map (fun nv => lower (fst nv)) (e_reqh e))).
  { pose proof (enc_map_ok_nodup _ _ Henc) as Hn. unfold req_pairs in Hn. cbn [map] in Hn.
    inversion Hn as [|? ? _ Hn']; subst. rewrite map_app in Hn'. apply NoDup_app_tail in Hn'.
    rewrite <- raw_names. exact Hn'. }
  destruct (written_map_sizes _ _ B Henc HB) as [Hcnt Hsz].
  pose proof (enc_map_pairs_ok _ _ Henc) as Erq.
  set (P := req_pairs e) in *. set (S' := isort pair_lt P) in *.
  assert (Hlen : (List.length S' <= List.length rq)%nat).
  { destruct (enc_pairs_bounds S') as [H1 _]. subst rq. rewrite app_length.
    rewrite !lenN_length in H1. lia. }
  rewrite Erq, <- app_assoc.
  exists (lenN P), (enc_pairs S' ++ rest).
  split; [apply decode_encode_map_header; unfold two63, two64 in *; lia|].
  replace (lenN P) with (lenN S') by (apply isort_lenN).
  set (U := match e_ver e with V1b1 => [(key_url, e_uri e)] | _ => [] end).
  assert (EP : P = (key_method, e_method e) :: U ++ raw_pairs (e_reqh e)) by reflexivity.
  assert (Hraw : Forall (fun kv => is_m kv = false /\ is_u kv = false /\ True /\
                                   lower_check (fst kv) = Some true) (raw_pairs (e_reqh e))).
  { pose proof (enc_map_ok_nodup _ _ Henc) as Hnk. fold P in Hnk. rewrite EP in Hnk. cbn [map fst] in Hnk.
    pose proof (nodup_head_not_key _ _ Hnk) as Hm. apply Forall_app in Hm. destruct Hm as [_ Hm].
    pose proof (raw_pairs_facts _ Hnames) as Hlc.
    assert (Hu : Forall (fun kv => is_u kv = false) (raw_pairs (e_reqh e))).
    { inversion Hnk as [|? ? _ Hnk']; subst. unfold U in Hnk'. destruct (e_ver e) eqn:Ev.
      - cbn [app map fst] in Hnk'. exact (nodup_head_not_key _ _ Hnk').
      - specialize (Hnourl eq_refl). unfold raw_pairs. apply Forall_map. apply Forall_forall.
        intros nv Hin. unfold is_u, raw_pair. cbn [fst].
        destruct (bytes_eqb (lower (fst nv)) key_url) eqn:E; [|reflexivity].
        rewrite <- Hnourl. symmetry. apply existsb_exists. exists nv. split; [exact Hin|exact E].
      - contradiction Hv. reflexivity. }
    rewrite Forall_forall in *. intros kv Hin.
    specialize (Hm kv Hin). specialize (Hu kv Hin). specialize (Hlc kv Hin).
    repeat split; assumption. }
  assert (HP : Forall (fun kv => pair_readable kv /\
              (is_u kv = true -> e_ver e = V1b1 /\ validate_fallback (snd kv) = (true, false))) P).
  { apply Forall_forall. intros kv Hin. rewrite Forall_forall in Hsz. destruct (Hsz kv Hin) as [Hk Hx].
    assert (Hk63 : lenN (fst kv) < two63 /\ lenN (snd kv) < two63)
      by (unfold bytes, byte in *; split; lia).
    rewrite EP in Hin. destruct Hin as [E|Hin].
    - subst kv. split; [split; [reflexivity|exact Hk63]|]. intros H; discriminate H.
    - apply in_app_or in Hin. destruct Hin as [Hin|Hin].
      + unfold U in Hin. destruct (e_ver e) eqn:Ev; try contradiction. destruct Hin as [E|[]]. subst kv.
        split; [split; [reflexivity|exact Hk63]|].
        intros _. split; [reflexivity|exact Hurl].
      + rewrite Forall_forall in Hraw. destruct (Hraw kv Hin) as (_ & Eu & _ & Hlc).
        split; [split; [exact Hlc|exact Hk63]|]. intros H. congruence. }
  rewrite dec_request_map_pairs; [|lia|apply Forall_isort; exact HP].
  f_equal. f_equal.
  destruct (req_fold S' s) as (F1 & F2 & F3 & F4 & F5 & F6).
  assert (HrawM : Forall (fun kv => is_m kv = false) (raw_pairs (e_reqh e)))
    by (eapply Forall_impl; [|exact Hraw]; intros kv H; cbv beta in *; tauto).
  assert (HrawU : Forall (fun kv => is_u kv = false) (raw_pairs (e_reqh e)))
    by (eapply Forall_impl; [|exact Hraw]; intros kv H; cbv beta in *; tauto).
  apply hstate_eq; cbn [h_method h_uri h_req h_status h_resp h_taint]; try assumption.
  - rewrite F1. unfold S'. rewrite (filter_isort pair_lt is_m pair_lt_trans pair_lt_asym), EP.
    cbn [filter]. change (is_m (key_method, e_method e)) with true. cbv iota.
    rewrite filter_app, (filter_none is_m (raw_pairs (e_reqh e)) HrawM), app_nil_r.
    replace (filter is_m U) with (@nil (bytes * bytes)) by (unfold U; destruct (e_ver e); reflexivity).
    reflexivity.
  - rewrite F2. unfold S'. rewrite (filter_isort pair_lt is_u pair_lt_trans pair_lt_asym), EP.
    cbn [filter]. change (is_u (key_method, e_method e)) with false. cbv iota.
    rewrite filter_app, (filter_none is_u (raw_pairs (e_reqh e)) HrawU), app_nil_r.
    unfold U. destruct (e_ver e) eqn:Ev; [reflexivity|cbn; apply Hu0; reflexivity|contradiction].
  - rewrite F3, Hs0. unfold S'. rewrite (filter_isort pair_lt is_field_q pair_lt_trans pair_lt_asym), EP.
    cbn [filter]. change (is_field_q (key_method, e_method e)) with false. cbv iota.
    rewrite filter_app.
    replace (filter is_field_q U) with (@nil (bytes * bytes)) by (unfold U; destruct (e_ver e); reflexivity).
    cbn [app]. rewrite filter_all.
    + rewrite sorted_raw. apply fields_fold. exact Hnd.
    + eapply Forall_impl; [|exact Hraw]. intros kv (Em & Eu & _ & _). unfold is_field_q.
      rewrite Em, Eu. reflexivity.
Qed.

(* ---- Write, inverted -------------------------------------------------------------------- *)
Lemma write_inv (e : exchange) (bs : bytes) : write e = Ok bs ->
  exists hdr, encode_exchange_headers e = Ok hdr /\
    match e_ver e with
    | V1b1 =>
        lenN (e_sig e) < 16777216 /\ lenN hdr < 16777216 /\
        bs = header_magic V1b1 ++ be 3 (lenN (e_sig e)) ++ be 3 (lenN hdr)
             ++ e_sig e ++ hdr ++ e_payload e
    | v =>
        lenN (e_uri e) < 65536 /\ lenN (e_sig e) <= 16384 /\ lenN hdr <= 524288 /\
        bs = header_magic v ++ be 2 (lenN (e_uri e)) ++ e_uri e ++ be 3 (lenN (e_sig e))
             ++ be 3 (lenN hdr) ++ e_sig e ++ hdr ++ e_payload e
    end.
Proof.
  intros H0. apply write_ok_body in H0. destruct H0 as [_ H0]. revert H0.
  unfold write_body. destruct (encode_exchange_headers e) as [hdr| | |]; cbn [bind]; try discriminate.
  intros H. exists hdr. split; [reflexivity|]. rewrite !be_encode_len in H by lia.
  change (2 ^ (8 * 3)) with 16777216 in H. change (2 ^ (8 * 2)) with 65536 in H.
  change (N.to_nat 3) with 3%nat in H. change (N.to_nat 2) with 2%nat in H.
  destruct (e_ver e).
  - destruct (N.ltb_spec (lenN (e_sig e)) 16777216); cbn [bind] in H; [|discriminate].
    destruct (N.ltb_spec (lenN hdr) 16777216); cbn [bind] in H; [|discriminate].
    inversion H. repeat split; assumption.
  - destruct (N.ltb_spec (lenN (e_uri e)) 65536); cbn [bind] in H; [|discriminate].
    destruct (N.ltb_spec 16384 (lenN (e_sig e))); [discriminate|].
    destruct (N.ltb_spec (lenN (e_sig e)) 16777216); cbn [bind] in H; [|discriminate].
    destruct (N.ltb_spec 524288 (lenN hdr)); [discriminate|].
    destruct (N.ltb_spec (lenN hdr) 16777216); cbn [bind] in H; [|discriminate].
    inversion H. repeat split; assumption.
  - destruct (N.ltb_spec (lenN (e_uri e)) 65536); cbn [bind] in H; [|discriminate].
    destruct (N.ltb_spec 16384 (lenN (e_sig e))); [discriminate|].
    destruct (N.ltb_spec (lenN (e_sig e)) 16777216); cbn [bind] in H; [|discriminate].
    destruct (N.ltb_spec 524288 (lenN hdr)); [discriminate|].
    destruct (N.ltb_spec (lenN hdr) 16777216); cbn [bind] in H; [|discriminate].
    inversion H. repeat split; assumption.
Qed.

(* C02 write_refuses_overflow *)
Theorem write_refuses_overflow (e : exchange) (bs : bytes) : write e = Ok bs ->
  exists hdr, encode_exchange_headers e = Ok hdr /\
    match e_ver e with
    | V1b1 => lenN (e_sig e) < 16777216 /\ lenN hdr < 16777216
    | _ => lenN (e_uri e) < 65536 /\ lenN (e_sig e) <= 16384 /\ lenN hdr <= 524288
    end.
Proof.
  intros H. destruct (write_inv e bs H) as (hdr & Eh & Hv). exists hdr. split; [exact Eh|].
  destruct (e_ver e); tauto.
Qed.

(* C02 write_err_iff (b2 / b3) *)
Lemma write_body_err_iff (e : exchange) : e_ver e <> V1b1 ->
  (write_body e = Err <->
   encode_exchange_headers e = Err \/
   exists hdr, encode_exchange_headers e = Ok hdr /\
     (65536 <= lenN (e_uri e) \/ 16384 < lenN (e_sig e) \/ 524288 < lenN hdr)).
Proof.
  intros Hv. unfold write_body. pose proof (encode_exchange_headers_ok_or_err e) as Hoe.
  destruct (encode_exchange_headers e) as [hdr| | |]; cbn [bind]; try contradiction.
  2:{ split; [intros _; left; reflexivity|reflexivity]. }
  rewrite !be_encode_len by lia.
  change (2 ^ (8 * 3)) with 16777216. change (2 ^ (8 * 2)) with 65536.
  assert (G : (let* ul := (if lenN (e_uri e) <? 65536 then Ok (be (N.to_nat 2) (lenN (e_uri e))) else Err) in
      if 16384 <? lenN (e_sig e) then Err else
      let* a := (if lenN (e_sig e) <? 16777216 then Ok (be (N.to_nat 3) (lenN (e_sig e))) else Err) in
      if 524288 <? lenN hdr then Err else
      let* b := (if lenN hdr <? 16777216 then Ok (be (N.to_nat 3) (lenN hdr)) else Err) in
      Ok (header_magic (e_ver e) ++ ul ++ e_uri e ++ a ++ b ++ e_sig e ++ hdr ++ e_payload e)) = Err
      <-> (65536 <= lenN (e_uri e) \/ 16384 < lenN (e_sig e) \/ 524288 < lenN hdr)).
  { destruct (N.ltb_spec (lenN (e_uri e)) 65536); cbn [bind]; [|split; [lia|reflexivity]].
    destruct (N.ltb_spec 16384 (lenN (e_sig e))); [split; [lia|reflexivity]|].
    destruct (N.ltb_spec (lenN (e_sig e)) 16777216); cbn [bind]; [|lia].
    destruct (N.ltb_spec 524288 (lenN hdr)); [split; [lia|reflexivity]|].
    destruct (N.ltb_spec (lenN hdr) 16777216); cbn [bind]; [|lia].
    split; [discriminate|lia]. }
  destruct (e_ver e); [contradiction| |]; rewrite G; split.
  - intros H. right. exists hdr. split; [reflexivity|exact H].
  - intros [H|(h & E & H)]; [discriminate|]. inversion E; subst. exact H.
  - intros H. right. exists hdr. split; [reflexivity|exact H].
  - intros [H|(h & E & H)]; [discriminate|]. inversion E; subst. exact H.
Qed.

Theorem write_err_iff (e : exchange) : e_ver e <> V1b1 ->
  (write e = Err <->
   write_refuses e = true \/
   encode_exchange_headers e = Err \/
   exists hdr, encode_exchange_headers e = Ok hdr /\
     (65536 <= lenN (e_uri e) \/ 16384 < lenN (e_sig e) \/ 524288 < lenN hdr)).
Proof.
  intros Hv. rewrite write_unfold. destruct (write_refuses e).
  - split; [intros _; left; reflexivity|reflexivity].
  - rewrite (write_body_err_iff e Hv). split; [intros H; right; exact H|].
    intros [H|H]; [discriminate H|exact H].
Qed.

(* ---- the header block, read back ------------------------------------------------------- *)
Lemma encode_headers_inv (e : exchange) (hdr : bytes) : encode_exchange_headers e = Ok hdr ->
  exists rs, encode_response_map e = Ok rs /\
    match e_ver e with
    | V1b3 => hdr = rs
    | _ => exists rq, encode_request_map e = Ok rq /\ hdr = enc_array_header 2 ++ rq ++ rs
    end.
Proof.
  unfold encode_exchange_headers. destruct (e_ver e); cbn [has_request].
  - destruct (encode_request_map e) as [rq| | |]; cbn [bind]; try discriminate.
    destruct (encode_response_map e) as [rs| | |]; cbn [bind]; try discriminate.
    intros H. inversion H. exists rs. split; [reflexivity|]. exists rq. split; reflexivity.
  - destruct (encode_request_map e) as [rq| | |]; cbn [bind]; try discriminate.
    destruct (encode_response_map e) as [rs| | |]; cbn [bind]; try discriminate.
    intros H. inversion H. exists rs. split; [reflexivity|]. exists rq. split; reflexivity.
  - intros H. exists hdr. split; [exact H|reflexivity].
Qed.

Definition start_state (e : exchange) : hstate :=
  {| h_method := []; h_uri := match e_ver e with V1b1 => [] | _ => e_uri e end; h_req := [];
     h_status := 0%Z; h_resp := []; h_taint := false |}.

Definition final_state (e : exchange) : hstate :=
  {| h_method := e_method e; h_uri := e_uri e; h_req := canon_headers (e_reqh e);
     h_status := e_status e; h_resp := canon_headers (e_resph e); h_taint := false |}.

Lemma decode_written_headers (e : exchange) (hdr : bytes) :
  readable e = true -> fst (validate_fallback (e_uri e)) = true ->
  (e_ver e = V1b2 -> existsb (fun nv => bytes_eqb (lower (fst nv)) (s2b ":url")) (e_reqh e) = false) ->
  encode_exchange_headers e = Ok hdr -> lenN hdr < 16777216 ->
  decode_exchange_headers (e_ver e) hdr (start_state e) = Ok (final_state e).
Proof.
  intros Hr Hacc Hnourl Henc Hlen. destruct (readable_inv e Hr) as (Hdec & Hs & Hz & Ht & Hv).
  pose proof (validate_fallback_pair _ Hacc Hdec) as Hurl.
  pose proof (headers_ok_inv _ Hs) as Hsn.
  destruct (encode_headers_inv e hdr Henc) as (rs & Ers & Hshape).
  unfold decode_exchange_headers. cbv zeta.
  destruct (e_ver e) eqn:Ev; cbn [has_request].
  - (* b1 *)
    destruct Hshape as (rq & Erq & Ehdr). pose proof (headers_ok_inv _ Hv) as Hqn.
    assert (L : lenN hdr = lenN (enc_array_header 2) + lenN rq + lenN rs)
      by (rewrite Ehdr, !lenN_app; lia).
    assert (LL : List.length hdr = (List.length (enc_array_header 2) + List.length rq + List.length rs)%nat)
      by (rewrite Ehdr, !app_length; lia).
    remember (S (List.length hdr)) as fuel eqn:Ef.
    rewrite Ehdr. rewrite decode_encode_array_header by (unfold two64; lia). cbn [bind].
    change (negb (2 =? 2)) with false. cbv iota.
    destruct (read_request_map e rq rs (start_state e) fuel 16777216) as (m & r & D1 & D2);
      try assumption; try (rewrite Ev; discriminate); try reflexivity; try (unfold two63; lia).
    rewrite Ev in D2. rewrite D1. cbn [bind]. rewrite D2. cbn [bind].
    destruct (read_response_map e rs [] {| h_method := e_method e; h_uri := e_uri e;
        h_req := canon_headers (e_reqh e); h_status := h_status (start_state e);
        h_resp := h_resp (start_state e); h_taint := h_taint (start_state e) |}
        fuel 16777216 Hsn Hz Ers) as (m2 & r3 & D3 & D4);
      try reflexivity; try (unfold two63; lia).
    rewrite app_nil_r in D3. rewrite D3. cbn [bind]. rewrite D4. reflexivity.
  - (* b2 *)
    destruct Hshape as (rq & Erq & Ehdr). pose proof (headers_ok_inv _ Hv) as Hqn.
    assert (L : lenN hdr = lenN (enc_array_header 2) + lenN rq + lenN rs)
      by (rewrite Ehdr, !lenN_app; lia).
    assert (LL : List.length hdr = (List.length (enc_array_header 2) + List.length rq + List.length rs)%nat)
      by (rewrite Ehdr, !app_length; lia).
    remember (S (List.length hdr)) as fuel eqn:Ef.
    rewrite Ehdr. rewrite decode_encode_array_header by (unfold two64; lia). cbn [bind].
    change (negb (2 =? 2)) with false. cbv iota.
    destruct (read_request_map e rq rs (start_state e) fuel 16777216) as (m & r & D1 & D2);
      try assumption; try (rewrite Ev; discriminate); try reflexivity; try (unfold two63; lia);
      try (intros _; apply Hnourl; reflexivity).
    { intros _. unfold start_state. rewrite Ev. reflexivity. }
    rewrite Ev in D2. rewrite D1. cbn [bind]. rewrite D2. cbn [bind].
    destruct (read_response_map e rs [] {| h_method := e_method e; h_uri := e_uri e;
        h_req := canon_headers (e_reqh e); h_status := h_status (start_state e);
        h_resp := h_resp (start_state e); h_taint := h_taint (start_state e) |}
        fuel 16777216 Hsn Hz Ers) as (m2 & r3 & D3 & D4);
      try reflexivity; try (unfold two63; lia).
    rewrite app_nil_r in D3. rewrite D3. cbn [bind]. rewrite D4. reflexivity.
  - (* b3 *)
    subst hdr. destruct Hv as [Hm Hq].
    destruct (read_response_map e rs []
      {| h_method := s2b "GET"; h_uri := h_uri (start_state e); h_req := h_req (start_state e);
         h_status := h_status (start_state e); h_resp := h_resp (start_state e);
         h_taint := h_taint (start_state e) |}
      (S (List.length rs)) 16777216 Hsn Hz Ers) as (m2 & r3 & D3 & D4);
      try reflexivity; try (unfold two63; lia).
    rewrite app_nil_r in D3. rewrite D3. cbn [bind]. rewrite D4. cbn [bind]. f_equal.
    unfold final_state, start_state. rewrite Ev, Hm, Hq. reflexivity.
Qed.

(* ---- C02 write_read ----------------------------------------------------------------------- *)
Lemma splitN_app_n {A} (a b : list A) (n : N) : lenN a = n -> splitN (a ++ b) n = Some (a, b).
Proof. intros <-. apply splitN_app. Qed.

Lemma from_magic_header (v : version) : from_magic (header_magic v) = Some v.
Proof. destruct v; reflexivity. Qed.
Lemma header_magic_len (v : version) : lenN (header_magic v) = 8.
Proof. destruct v; reflexivity. Qed.

Theorem write_read (e : exchange) (bs : bytes) :
  readable e = true -> write e = Ok bs -> read bs = Ok (canon_exchange e).
Proof.
  intros Hr Hw. destruct (write_inv e bs Hw) as (hdr & Henc & Hshape).
  destruct (readable_inv e Hr) as (Hund & _ & _ & Ht & _).
  pose proof (write_ok_url e bs Hw) as Hacc.
  pose proof (validate_fallback_pair _ Hacc Hund) as Hurl.
  assert (Hhl : lenN hdr < 16777216) by (destruct (e_ver e); lia).
  pose proof (decode_written_headers e hdr Hr Hacc (write_ok_no_url_key e bs Hw) Henc Hhl) as Hdec.
  unfold read, read_prologue.
  destruct (e_ver e) eqn:Ev.
  - destruct Hshape as (Hsl & _ & Ebs). subst bs.
    rewrite (splitN_app_n (header_magic V1b1)) by reflexivity. cbn [of_opt bind].
    rewrite from_magic_header. cbn [of_opt bind].
    rewrite (splitN_app_n (be 3 (lenN (e_sig e)))) by (apply be_lenN). cbn [of_opt bind].
    rewrite (splitN_app_n (be 3 (lenN hdr))) by (apply be_lenN). cbn [of_opt bind].
    unfold decode3. rewrite !unbe_be_small by (change (256 ^ N.of_nat 3) with 16777216; lia).
    rewrite (splitN_app_n (e_sig e)) by reflexivity. cbn [of_opt bind].
    rewrite (splitN_app_n hdr) by reflexivity. cbn [of_opt bind].
    unfold start_state in Hdec. rewrite Ev in Hdec. rewrite Hdec. cbn [bind final_state].
    unfold canon_exchange. cbn [e_ver e_uri e_method e_reqh e_status e_resph e_sig e_payload e_taint
      h_method h_uri h_req h_status h_resp h_taint]. rewrite Ev, Ht. reflexivity.
  - destruct Hshape as (Hul & Hsl & _ & Ebs). subst bs.
    rewrite (splitN_app_n (header_magic V1b2)) by reflexivity. cbn [of_opt bind].
    rewrite from_magic_header. cbn [of_opt bind].
    rewrite (splitN_app_n (be 2 (lenN (e_uri e)))) by (apply be_lenN). cbn [of_opt bind].
    rewrite unbe_be_small by (change (256 ^ N.of_nat 2) with 65536; lia).
    rewrite (splitN_app_n (e_uri e)) by reflexivity. cbn [of_opt bind]. rewrite Hurl. cbn [bind].
    rewrite (splitN_app_n (be 3 (lenN (e_sig e)))) by (apply be_lenN). cbn [of_opt bind].
    rewrite (splitN_app_n (be 3 (lenN hdr))) by (apply be_lenN). cbn [of_opt bind].
    unfold decode3. rewrite !unbe_be_small by (change (256 ^ N.of_nat 3) with 16777216; lia).
    rewrite (splitN_app_n (e_sig e)) by reflexivity. cbn [of_opt bind].
    rewrite (splitN_app_n hdr) by reflexivity. cbn [of_opt bind].
    unfold start_state in Hdec. rewrite Ev in Hdec. rewrite Hdec. cbn [bind final_state].
    unfold canon_exchange. cbn [e_ver e_uri e_method e_reqh e_status e_resph e_sig e_payload e_taint
      h_method h_uri h_req h_status h_resp h_taint]. rewrite Ev, Ht. reflexivity.
  - destruct Hshape as (Hul & Hsl & _ & Ebs). subst bs.
    rewrite (splitN_app_n (header_magic V1b3)) by reflexivity. cbn [of_opt bind].
    rewrite from_magic_header. cbn [of_opt bind].
    rewrite (splitN_app_n (be 2 (lenN (e_uri e)))) by (apply be_lenN). cbn [of_opt bind].
    rewrite unbe_be_small by (change (256 ^ N.of_nat 2) with 65536; lia).
    rewrite (splitN_app_n (e_uri e)) by reflexivity. cbn [of_opt bind]. rewrite Hurl. cbn [bind].
    rewrite (splitN_app_n (be 3 (lenN (e_sig e)))) by (apply be_lenN). cbn [of_opt bind].
    rewrite (splitN_app_n (be 3 (lenN hdr))) by (apply be_lenN). cbn [of_opt bind].
    unfold decode3. rewrite !unbe_be_small by (change (256 ^ N.of_nat 3) with 16777216; lia).
    rewrite (splitN_app_n (e_sig e)) by reflexivity. cbn [of_opt bind].
    rewrite (splitN_app_n hdr) by reflexivity. cbn [of_opt bind].
    unfold start_state in Hdec. rewrite Ev in Hdec. rewrite Hdec. cbn [bind final_state].
    unfold canon_exchange. cbn [e_ver e_uri e_method e_reqh e_status e_resph e_sig e_payload e_taint
      h_method h_uri h_req h_status h_resp h_taint]. rewrite Ev, Ht. reflexivity.
Qed.

(* b3 stores neither the method nor the request headers: whatever they are in
   memory, the file is that of the exchange with method GET and no request
   headers, and that is what comes back *)
Lemma write_b3_norm (e : exchange) : e_ver e = V1b3 -> write (b3_norm e) = write e.
Proof.
  intros Ev. rewrite !write_unfold.
  unfold write_refuses, write_body, encode_exchange_headers, encode_response_map.
  cbn [b3_norm e_ver e_uri e_status e_resph e_sig e_payload e_reqh]. rewrite Ev. reflexivity.
Qed.

Theorem b3_request_part_dropped (e : exchange) (bs : bytes) :
  e_ver e = V1b3 -> readable (b3_norm e) = true -> write e = Ok bs ->
  read bs = Ok (canon_exchange (b3_norm e)).
Proof.
  intros Ev Hr Hw. apply write_read; [exact Hr|]. rewrite (write_b3_norm e Ev). exact Hw.
Qed.

(* field by field, as the property lists them *)
Corollary write_read_fields (e : exchange) (bs : bytes) (e' : exchange) :
  readable e = true -> write e = Ok bs -> read bs = Ok e' ->
  e_ver e' = e_ver e /\ e_uri e' = e_uri e /\ e_method e' = e_method e /\
  e_status e' = e_status e /\ e_sig e' = e_sig e /\ e_payload e' = e_payload e /\
  e_reqh e' = canon_headers (e_reqh e) /\ e_resph e' = canon_headers (e_resph e) /\
  e_taint e' = false.
Proof.
  intros Hr Hw Hrd. rewrite (write_read e bs Hr Hw) in Hrd. inversion Hrd; subst e'.
  destruct (readable_inv e Hr) as (_ & _ & _ & Ht & _).
  cbn [canon_exchange e_ver e_uri e_method e_status e_sig e_payload e_reqh e_resph e_taint].
  repeat split; try reflexivity. exact Ht.
Qed.

(* ---- C02 canon_idempotent, fixpoint --------------------------------------------------------- *)
Lemma lt_name_canon_field (a b : bytes * list bytes) :
  lt_name (canon_field a) (canon_field b) = lt_name a b.
Proof. unfold lt_name, canon_field. cbn [fst]. rewrite !lower_canonical_key, !lower_idem. reflexivity. Qed.

Lemma sorted_map_canon (l : headers) :
  StronglySorted (le_of lt_name) l -> StronglySorted (le_of lt_name) (map canon_field l).
Proof.
  induction 1 as [|x t Hs IH Hall]; cbn [map]; constructor; [exact IH|].
  apply Forall_map. eapply Forall_impl; [|exact Hall]. intros y Hy. unfold le_of in *.
  rewrite lt_name_canon_field. exact Hy.
Qed.

Lemma canon_field_idem (nv : bytes * list bytes) : canon_field (canon_field nv) = canon_field nv.
Proof.
  unfold canon_field. cbn [fst snd]. rewrite lower_canonical_key, lower_idem. reflexivity.
Qed.

Theorem canon_headers_idempotent (h : headers) : canon_headers (canon_headers h) = canon_headers h.
Proof.
  unfold canon_headers at 1.
  rewrite (isort_sorted_id lt_name (canon_headers h)).
  - unfold canon_headers. rewrite map_map. apply map_ext. exact canon_field_idem.
  - unfold canon_headers. apply sorted_map_canon.
    apply BaseLemmas.isort_sorted; [exact lt_name_asym|exact lt_name_trans].
Qed.

Theorem canon_idempotent (e : exchange) : canon_exchange (canon_exchange e) = canon_exchange e.
Proof.
  unfold canon_exchange. cbn [e_ver e_uri e_method e_reqh e_status e_resph e_sig e_payload e_taint].
  rewrite !canon_headers_idempotent. reflexivity.
Qed.

(* canonicalising does not change a single written byte *)
Lemma header_entries_canon (h : headers) :
  Permutation (header_entries (canon_headers h)) (header_entries h).
Proof.
  unfold header_entries, canon_headers. rewrite map_map.
  eapply perm_trans; [|apply Permutation_map, isort_perm].
  erewrite map_ext; [apply Permutation_refl|].
  intros [n vs]. cbn [canon_field fst snd join_comma]. rewrite lower_canonical_key, lower_idem. reflexivity.
Qed.

Lemma existsb_map {A B} (p : B -> bool) (f : A -> B) (l : list A) :
  existsb p (map f l) = existsb (fun a => p (f a)) l.
Proof. induction l as [|x t IH]; [reflexivity|]. cbn [map existsb]. rewrite IH. reflexivity. Qed.

Lemma existsb_names_canon (p : bytes -> bool) (h : headers) :
  (forall n, p (canonical_key (lower n)) = p n) ->
  existsb (fun nv => p (fst nv)) (canon_headers h) = existsb (fun nv => p (fst nv)) h.
Proof.
  intros Hp. unfold canon_headers. rewrite existsb_map.
  rewrite (existsb_perm _ _ _ (isort_perm lt_name h)).
  induction h as [|[n vs] t IH]; [reflexivity|]. cbn [existsb]. rewrite IH. f_equal.
  exact (Hp n).
Qed.

Lemma write_refuses_canon (e : exchange) : write_refuses (canon_exchange e) = write_refuses e.
Proof.
  unfold write_refuses. cbn [canon_exchange e_uri e_ver e_reqh].
  rewrite (existsb_names_canon (fun n => bytes_eqb (lower n) (s2b ":url"))); [reflexivity|].
  intros n. rewrite lower_canonical_key, lower_idem. reflexivity.
Qed.

Theorem write_canon (e : exchange) : write (canon_exchange e) = write e.
Proof.
  assert (Hq : encode_request_map (canon_exchange e) = encode_request_map e).
  { unfold encode_request_map. cbn [canon_exchange e_ver e_uri e_method e_reqh].
    apply enc_map_perm. apply Permutation_app_head, Permutation_app_head, header_entries_canon. }
  assert (Hs : encode_response_map (canon_exchange e) = encode_response_map e).
  { unfold encode_response_map. cbn [canon_exchange e_status e_resph].
    apply enc_map_perm. apply perm_skip, header_entries_canon. }
  rewrite !write_unfold, write_refuses_canon. unfold write_body, encode_exchange_headers.
  rewrite Hq, Hs. reflexivity.
Qed.

Lemma canon_go_tchar (s : bytes) : forall u,
  forallb is_tchar s = true -> forallb is_tchar (canon_go s u) = true.
Proof.
  induction s as [|c r IH]; intros u Hs; [reflexivity|].
  cbn [forallb canon_go] in *. apply andb_true_iff in Hs. destruct Hs as [Hc Hr].
  rewrite (IH _ Hr), andb_true_r.
  unfold is_tchar, is_digit_b, is_lower_b, is_upper_b in *. cbn [existsb] in *.
  destruct u; cbn [andb negb];
    repeat match goal with |- context [if ?b then _ else _] => destruct b eqn:? end; lia.
Qed.

Lemma canon_go_ascii (s : bytes) : forall u,
  is_ascii s = true -> is_ascii (canon_go s u) = true.
Proof.
  unfold is_ascii. induction s as [|c r IH]; intros u Hs; [reflexivity|].
  cbn [forallb canon_go] in *. apply andb_true_iff in Hs. destruct Hs as [Hc Hr].
  rewrite (IH _ Hr), andb_true_r.
  unfold is_lower_b, is_upper_b.
  destruct u; cbn [andb negb];
    repeat match goal with |- context [if ?b then _ else _] => destruct b eqn:? end; lia.
Qed.

Lemma name_ok_canonical (n : bytes) : name_ok n = true -> name_ok (canonical_key (lower n)) = true.
Proof.
  intros Hn. unfold name_ok in *. pose proof (is_ascii_lower n Hn) as Hl.
  unfold canonical_key. destruct (forallb is_tchar (lower n)); [apply canon_go_ascii|]; exact Hl.
Qed.

Lemma headers_ok_canon (h : headers) : headers_ok h = true -> headers_ok (canon_headers h) = true.
Proof.
  intros H. pose proof (headers_ok_inv h H) as Hn. unfold headers_ok.
  apply forallb_forall. intros nv Hin. unfold canon_headers in Hin. apply in_map_iff in Hin.
  destruct Hin as [[n vs] [E Hin]]. subst nv. cbn [canon_field fst].
  apply name_ok_canonical. rewrite Forall_forall in Hn.
  apply (Hn (n, vs)). eapply Permutation_in; [apply isort_perm|exact Hin].
Qed.

Theorem readable_canon (e : exchange) : readable e = true -> readable (canon_exchange e) = true.
Proof.
  intros H. unfold readable in *. cbn [canon_exchange e_ver e_uri e_method e_reqh e_status e_resph e_taint].
  rewrite !andb_true_iff in *. destruct H as ((((Hu & Hs) & Hz) & Ht) & Hv).
  repeat split; try assumption; [apply headers_ok_canon; exact Hs|].
  destruct (e_ver e); try (apply headers_ok_canon; exact Hv).
  apply andb_true_iff in Hv. destruct Hv as [Hm Hq]. apply andb_true_iff. split; [exact Hm|].
  destruct (e_reqh e); [reflexivity|discriminate].
Qed.

(* write . read is a projection: the second generation is byte-identical *)
Theorem write_read_fixpoint (e : exchange) (bs : bytes) :
  readable e = true -> write e = Ok bs ->
  write (canon_exchange e) = Ok bs /\ read bs = Ok (canon_exchange e) /\
  canon_exchange (canon_exchange e) = canon_exchange e.
Proof.
  intros Hr Hw. split; [rewrite write_canon; exact Hw|].
  split; [apply write_read; assumption|apply canon_idempotent].
Qed.

(* ---- C02 read_never_panics ------------------------------------------------------------------ *)
Lemma bind_total {A B} (x : R A) (f : A -> R B) :
  ok_or_err x -> (forall a, x = Ok a -> ok_or_err (f a)) -> ok_or_err (bind x f).
Proof. destruct x; cbn; intros H1 H2; try contradiction; [apply H2; reflexivity|exact I]. Qed.

Lemma of_opt_total {A} (o : option A) : ok_or_err (of_opt o).
Proof. destruct o; exact I. Qed.

Lemma decode_head_shrinks (t n : N) (bs r : bytes) : major_const t ->
  decode_of_type t bs = Ok (n, r) -> (List.length r < List.length bs)%nat.
Proof.
  intros Ht H. destruct (decode_consumes t n bs r Ht H) as (h & E & Hl). subst bs.
  rewrite app_length. rewrite lenN_length in Hl. lia.
Qed.

Lemma decode_exchange_headers_total (v : version) (bs : bytes) (s : hstate) :
  ok_or_err (decode_exchange_headers v bs s).
Proof.
  unfold decode_exchange_headers. cbv zeta. destruct (has_request v).
  - apply bind_total; [apply decode_of_type_total|]. intros [n r] E1.
    apply decode_head_shrinks in E1; [|exact mc_array].
    destruct (negb (n =? 2)); [exact I|].
    apply bind_total; [apply decode_of_type_total|]. intros [m r1] E2.
    apply decode_head_shrinks in E2; [|exact mc_map].
    apply bind_total; [apply dec_request_map_total; lia|]. intros [s1 r2] E3.
    apply bind_total; [apply decode_of_type_total|]. intros [m2 r3] E4.
    assert (Hr2 : (List.length r2 <= List.length r1)%nat).
    { clear -E3. revert E3. generalize (S (List.length bs)). intros fuel. revert m r1 s.
      induction fuel as [|f IH]; intros m r1 s E3; [discriminate|].
      cbn [dec_request_map] in E3. destruct (m =? 0); [inversion E3; lia|].
      destruct (decode_bytes r1) as [[key ra]| | |] eqn:D1; cbn [bind] in E3; try discriminate.
      apply decode_bytes_shrinks in D1.
      assert (G : forall t,
        (let* (value, rb) := decode_bytes ra in
         if bytes_eqb key key_method then
           dec_request_map f v (m - 1) rb
             {| h_method := value; h_uri := h_uri s; h_req := h_req s; h_status := h_status s;
                h_resp := h_resp s; h_taint := t |}
         else if bytes_eqb key key_url then
           match v with
           | V1b1 =>
               let '(ok, tn) := validate_fallback value in
               if ok then
                 dec_request_map f v (m - 1) rb
                   {| h_method := h_method s; h_uri := value; h_req := h_req s;
                      h_status := h_status s; h_resp := h_resp s; h_taint := t || tn |}
               else Err
           | _ => Err
           end
         else
           dec_request_map f v (m - 1) rb
             {| h_method := h_method s; h_uri := h_uri s; h_req := hdr_add (h_req s) key value;
                h_status := h_status s; h_resp := h_resp s; h_taint := t |}) = Ok (s1, r2) ->
        (List.length r2 <= List.length r1)%nat).
      { intros t G. destruct (decode_bytes ra) as [[value rb]| | |] eqn:D2; cbn [bind] in G; try discriminate.
        apply decode_bytes_shrinks in D2.
        destruct (bytes_eqb key key_method); [apply IH in G; lia|].
        destruct (bytes_eqb key key_url); [|apply IH in G; lia].
        destruct v; try discriminate. destruct (validate_fallback value) as [ok tn].
        destruct ok; [apply IH in G; lia|discriminate]. }
      destruct (lower_check key) as [[|]|]; [apply (G _ E3)|discriminate|apply (G _ E3)]. }
    apply decode_head_shrinks in E4; [|exact mc_map].
    apply bind_total; [apply dec_response_map_total; lia|]. intros [s2 r4] _. exact I.
  - apply bind_total; [apply decode_of_type_total|]. intros [m2 r3] E4.
    apply decode_head_shrinks in E4; [|exact mc_map].
    apply bind_total; [apply dec_response_map_total; lia|]. intros [s2 r4] _. exact I.
Qed.

Theorem read_prologue_total (bs : bytes) : ok_or_err (read_prologue bs).
Proof.
  unfold read_prologue.
  apply bind_total; [apply of_opt_total|]. intros [magic r0] _.
  apply bind_total; [apply of_opt_total|]. intros v _.
  apply bind_total.
  { destruct v; try exact I;
      (apply bind_total; [apply of_opt_total|]; intros [lb ra] _;
       apply bind_total; [apply of_opt_total|]; intros [u rb] _;
       destruct (validate_fallback u) as [ok t]; destruct ok; exact I). }
  intros [[uri taint] r1] _.
  apply bind_total; [apply of_opt_total|]. intros [sl r2] _.
  apply bind_total; [apply of_opt_total|]. intros [hl r3] _.
  apply bind_total; [apply of_opt_total|]. intros [sig r4] _.
  apply bind_total; [apply of_opt_total|]. intros [hdr r5] _.
  apply bind_total; [apply decode_exchange_headers_total|]. intros s _. exact I.
Qed.

Theorem read_never_panics (bs : bytes) : ok_or_err (read bs).
Proof.
  unfold read. apply bind_total; [apply read_prologue_total|]. intros [e rest] _. exact I.
Qed.
