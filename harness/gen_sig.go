package main

import (
	"bytes"
	"crypto/ecdsa"
	"crypto/ed25519"
	"crypto/elliptic"
	"crypto/rand"
	"crypto/sha512"
	"crypto/x509"
	"encoding/binary"
	"fmt"
	"net/http"
	"sort"
	"sync"
	"time"

	"github.com/WICG/webpackage/go/bundle"
	"github.com/WICG/webpackage/go/bundle/signature"
	bver "github.com/WICG/webpackage/go/bundle/version"
	"github.com/WICG/webpackage/go/signedexchange/certurl"
)

var sigKeys []keyMat // leaf keys with DNS names; intermediates

var sigKeysOnceV sync.Once

func sigKeysOnce() {
	sigKeysOnceV.Do(func() {
		sigKeys = []keyMat{
			newECKey(elliptic.P256(), "example.com", 0, 0),
			newECKey(elliptic.P384(), "a.test", 1, 0),
			newECKey(elliptic.P256(), "intermediate.example", 2, 30),
			newECKey(elliptic.P256(), "www.example.org", 3, 0),
		}
	})
}

func sigX509Tab() Sx {
	sigKeysOnce()
	keysOnce()
	return x509Tab(append(append([]keyMat{}, sigKeys...), sxgEdKey)...)
}

func augSxOf(a *certurl.AugmentedCertificate) Sx {
	return L(B(a.Cert.Raw), optSx(a.OCSPResponse), optSx(a.SCTList))
}

func sigMessage(signed []byte, ver bver.Version) []byte {
	m := bytes.Repeat([]byte{0x20}, 64)
	if ver == bver.VersionB1 {
		m = append(m, "Web Package 1 b1"...)
	} else {
		m = append(m, "Web Package 1 b2"...)
	}
	m = append(m, 0)
	return append(m, signed...)
}

// sigTabFor lists every (authority key, message, signature) the standard library accepts
func sigTabFor(sigs *bundle.Signatures, ver bver.Version) Sx {
	out := []Sx{}
	if sigs == nil {
		return L()
	}
	for _, vs := range sigs.VouchedSubsets {
		msg := sigMessage(vs.Signed, ver)
		for _, k := range sigKeys {
			if ecdsaOK(k, msg, vs.Sig) {
				out = append(out, L(Zi(int64(k.kid)), B(msg), B(vs.Sig)))
			}
		}
	}
	return L(out...)
}

func cloneSigs(s *bundle.Signatures) *bundle.Signatures {
	if s == nil {
		return nil
	}
	c := &bundle.Signatures{}
	c.Authorities = append(c.Authorities, s.Authorities...)
	for _, v := range s.VouchedSubsets {
		c.VouchedSubsets = append(c.VouchedSubsets, &bundle.VouchedSubset{Authority: v.Authority, Sig: append([]byte{}, v.Sig...), Signed: append([]byte{}, v.Signed...)})
	}
	return c
}

func genC06(r *Rng, tier string) []Case {
	sigKeysOnce()
	cs := []Case{}
	// signed-subset encoding
	n := 150
	if tier == "thorough" {
		n = 4000
	}
	for i := 0; i < n; i++ {
		hs := []Sx{}
		seen := map[string]bool{}
		for j := r.Intn(5); j > 0; j-- {
			u := randBundleURL(r)
			if seen[u] {
				continue
			}
			seen[u] = true
			ris := []Sx{}
			for k := r.Intn(3); k >= 0; k-- {
				ris = append(ris, L(B(r.Bytes([]int{32, 0, 1, 31, 33}[r.Intn(5)])), B([]byte([]string{"digest/mi-sha256-03", "mi-draft2", ""}[r.Intn(3)]))))
			}
			hs = append(hs, L(B([]byte(u)), B(r.Bytes(r.Intn(3)*4)), L(ris...)))
		}
		date := baseDate + int64(r.Intn(1000))
		if r.Chance(1, 10) {
			date = []int64{0, -1, 23, 24, 1 << 32, -(1 << 40)}[r.Intn(6)]
		}
		cs = append(cs, Case{"bsig_encode", []Sx{L(B([]byte("https://"+randHost(r)+"/validity")), B(r.Bytes(32)), Zi(date), Zi(date+int64(r.Intn(700000))), L(hs...))}})
	}
	mkEx := func(u string, blen int) *bundle.Exchange {
		h := http.Header{}
		h.Add("Content-Type", "text/plain")
		for _, kv := range randExtra(r, r.Intn(2)) {
			h.Add(kv[0], kv[1])
		}
		return &bundle.Exchange{Request: bundle.Request{URL: mustURL(u), Header: http.Header{}}, Response: bundle.Response{Status: 200, Header: h, Body: r.Bytes(blen)}}
	}
	inSx := func(e *bundle.Exchange) Sx {
		b := &bundle.Bundle{Version: bver.VersionB2, Exchanges: []*bundle.Exchange{e}}
		return bundleInSx(b).L[4].L[0]
	}
	for i := 0; i < 60; i++ {
		e := mkEx(randBundleURL(r), []int{0, 1, 15, 16, 17, 40, 300}[r.Intn(7)])
		if r.Chance(1, 8) {
			e.Response.Header.Add("Digest", []string{"x", ""}[r.Intn(2)])
		}
		cs = append(cs, Case{"bsig_add_integrity", []Sx{inSx(e), Zi(int64([]int{1, 16, 17, 4096, 16384, 16385, 0, -1, 1 << 20}[r.Intn(9)]))}})
	}
	// CanSignForURL: host forms (port, letter case, sub-domain, trailing dot, user info)
	for _, ki := range []int{0, 1, 3} {
		leaf := sigKeys[ki]
		chainSx := L(augSxOf(&certurl.AugmentedCertificate{Cert: leaf.cert, OCSPResponse: []byte("ocsp")}), augSxOf(&certurl.AugmentedCertificate{Cert: sigKeys[2].cert}))
		for _, h := range []string{"example.com", "a.test", "www.example.org", "example.org", "deep.www.example.org", "uncovered.invalid", "EXAMPLE.com", "xexample.com", "example.com."} {
			for _, f := range []string{"https://%s/", "https://%s:8443/p", "https://%s:443/", "https://u@%s/q?x=1", "https://u:p@%s:1/", "http://%s/"} {
				cs = append(cs, Case{"bsig_can_sign", []Sx{chainSx, B([]byte(fmt.Sprintf(f, h)))}})
			}
		}
	}
	for i := 0; i < 2; i++ {
		cs = append(cs, Case{"bsig_two_bundles", []Sx{Zi(int64(i))}})
		cs = append(cs, Case{"bsig_add_retry", []Sx{Zi(int64(i))}})
	}
	// signer histories
	hosts := []string{"example.com", "a.test", "www.example.org", "uncovered.invalid"}
	nb := 8
	if tier == "thorough" {
		nb = 150
	}
	for bi := 0; bi < nb; bi++ {
		ver := []bver.Version{bver.VersionB1, bver.VersionB2}[bi%2]
		b := &bundle.Bundle{Version: ver, PrimaryURL: mustURL("https://example.com/")}
		for j := 0; j < 2+r.Intn(4); j++ {
			b.Exchanges = append(b.Exchanges, mkEx("https://"+hosts[r.Intn(len(hosts))]+"/r"+string(alnumBytes(r, 4))+[]string{"", "", "/%7Eu/x", "/a%2Fb", "/caf%c3%a9", "/p%41", "?q=%7e", "/x%20y"}[r.Intn(8)], []int{0, 1, 16, 33, 100}[r.Intn(5)]))
		}
		b.Exchanges = append(b.Exchanges, mkEx("https://example.com/", 10))
		if bi%4 == 1 { // two representations of one URL (a variant set): the signer supports one exchange per URL only
			b.Exchanges = append(b.Exchanges, mkEx("https://example.com/", 12))
		}
		rs := []int{1, 16, 17, 4096}[r.Intn(4)]
		date := baseDate + int64(r.Intn(100000))
		dur := int64([]int{3600, 604800, 1, 604801}[r.Intn(4)])
		if bi%3 != 0 {
			dur = int64([]int{3600, 604800}[r.Intn(2)])
		}
		if bi%4 == 3 { // a week that contains a daylight-saving change (167 h / 169 h of local time): 7 days are 604800 s
			date = []int64{1709830800, 1730307600}[(bi/4)%2] // 2024-03-07 17:00Z (before Mar 10), 2024-10-30 17:00Z (before Nov 3)
			dur = []int64{604800, 604801, 604800 + 3600, 604800 - 3600}[r.Intn(4)]
		}
		nsigners := 1 + r.Intn(3)
		leafIdx := func(si int) int { return []int{0, 1, 3}[(bi+si)%3] }
		if bi%3 == 2 { // the same publisher signs again later: A, B, A (its leaf is already among the authorities)
			nsigners = 3
			leafIdx = func(si int) int { return []int{0, 1, 3}[(bi+si%2)%3] }
		}
		// mock-algorithm flow (exact Signatures structure), chained through the library
		{
			mb := &bundle.Bundle{Version: ver}
			for _, e := range b.Exchanges {
				c := *e
				c.Response.Header = e.Response.Header.Clone()
				c.Response.Body = append([]byte{}, e.Response.Body...)
				mb.Exchanges = append(mb.Exchanges, &c)
			}
			var sigs *bundle.Signatures
			for si := 0; si < nsigners; si++ {
				leaf := sigKeys[leafIdx(si)]
				chain := certurl.CertChain{{Cert: leaf.cert, OCSPResponse: []byte("ocsp")}, {Cert: sigKeys[2].cert}}
				if r.Chance(1, 10) {
					chain[1].OCSPResponse = []byte("bad") // invalid chain
				}
				xs := []Sx{}
				for _, e := range mb.Exchanges {
					covered := leaf.cert.VerifyHostname(e.Request.URL.Hostname()) == nil && e.Response.Header.Get("Digest") == ""
					if si > 0 && r.Chance(1, 6) {
						covered = leaf.cert.VerifyHostname(e.Request.URL.Hostname()) == nil // may hit "already has Digest"
					}
					xs = append(xs, L(inSx(e), Bool(covered)))
				}
				chainSx := []Sx{}
				for _, a := range chain {
					chainSx = append(chainSx, augSxOf(a))
				}
				args := []Sx{Sym(string(ver)), sigsSx(sigs), L(chainSx...), B([]byte("https://" + leaf.cert.DNSNames[0] + "/validity")), Zi(date), Zi(dur), L(xs...), Zi(int64(rs))}
				cs = append(cs, Case{"bsig_sign_flow", args})
				res := ops["bsig_sign_flow"](args)
				if !res.L[0].IsSym("ok") {
					break
				}
				sigs = sigsOf(res.L[1].L[0])
				for k, x := range res.L[1].L[1].L {
					mb.Exchanges[k] = bexchangeOf(L(x.L[0], x.L[1], pairsOfHeaderSx(x.L[2]), x.L[3]))
				}
			}
		}
		// real ECDSA: sign through the library, then verify
		signedOK := true
		type signerInfo struct {
			leaf          keyMat
			date, expires int64
		}
		infos := []signerInfo{}
		func() {
			defer func() {
				if rec := recover(); rec != nil {
					signedOK = false
				}
			}()
			for si := 0; si < nsigners; si++ {
				leaf := sigKeys[leafIdx(si)]
				chain := certurl.CertChain{{Cert: leaf.cert, OCSPResponse: []byte("ocsp")}, {Cert: sigKeys[2].cert}}
				sd := date + int64(si)*10
				signer, err := signature.NewSigner(ver, chain, leaf.priv, mustURL("https://"+leaf.cert.DNSNames[0]+"/validity"), time.Unix(sd, 0), time.Duration(dur)*time.Second)
				if err != nil {
					signedOK = false
					return
				}
				for _, e := range b.Exchanges {
					if !signer.CanSignForURL(e.Request.URL) || e.Response.Header.Get("Digest") != "" {
						continue
					}
					id, err := e.AddPayloadIntegrity(ver, rs)
					if err != nil {
						signedOK = false
						return
					}
					if err := signer.AddExchange(e, id); err != nil {
						signedOK = false
						return
					}
				}
				ns, err := signer.UpdateSignatures(b.Signatures)
				if err != nil {
					signedOK = false
					return
				}
				b.Signatures = ns
				infos = append(infos, signerInfo{leaf, sd, sd + dur})
			}
		}()
		if !signedOK || b.Signatures == nil {
			continue
		}
		xt := sigX509Tab()
		verify := func(sigs *bundle.Signatures, xs []*bundle.Exchange, tsec, tnsec int64) {
			xsx := []Sx{}
			for _, e := range xs {
				xsx = append(xsx, inSx(e))
			}
			cs = append(cs, Case{"bsig_verify", []Sx{sigsSx(sigs), Zi(tsec), Zi(tnsec), Sym(string(ver)), L(xsx...), xt, sigTabFor(sigs, ver)}})
		}
		last := infos[len(infos)-1]
		first := infos[0]
		times := [][2]int64{{last.date, 0}, {(last.date + first.expires) / 2, 5}, {first.expires, 0}, {first.expires, 1}, {last.date - 1, 999999999}, {first.expires + 1, 0}}
		for _, t := range times {
			verify(b.Signatures, b.Exchanges, t[0], t[1])
		}
		// after write -> read
		var buf bytes.Buffer
		if _, err := b.WriteTo(&buf); err == nil {
			cs = append(cs, Case{"bundle_read", []Sx{B(buf.Bytes()), sigX509OkTab()}})
			if rb, err := bundle.Read(bytes.NewReader(buf.Bytes())); err == nil && rb.Signatures != nil {
				verify(rb.Signatures, rb.Exchanges, times[0][0], 0)
				verify(rb.Signatures, rb.Exchanges, times[2][0], 0)
			}
		}
		t0 := times[0][0]
		// mutations of exchanges
		for ei, e := range b.Exchanges {
			mut := func(f func(m *bundle.Exchange)) {
				xs := append([]*bundle.Exchange{}, b.Exchanges...)
				c := *e
				c.Response.Header = e.Response.Header.Clone()
				c.Response.Body = append([]byte{}, e.Response.Body...)
				f(&c)
				xs[ei] = &c
				verify(b.Signatures, xs, t0, 0)
			}
			mut(func(m *bundle.Exchange) { m.Response.Status = 201 })
			mut(func(m *bundle.Exchange) { m.Response.Header.Add("X-Injected", "1") })
			mut(func(m *bundle.Exchange) { m.Response.Header.Set("Content-Type", "text/html") })
			mut(func(m *bundle.Exchange) { m.Response.Header.Del("Digest") })
			mut(func(m *bundle.Exchange) { m.Response.Header.Del("Content-Encoding") })
			mut(func(m *bundle.Exchange) { m.Request.URL = mustURL(m.Request.URL.String() + "x") })
			if len(e.Response.Body) > 0 {
				for k := 0; k < 6; k++ {
					p := r.Intn(len(e.Response.Body) * 8)
					mut(func(m *bundle.Exchange) { m.Response.Body[p/8] ^= 1 << uint(p%8) })
				}
				mut(func(m *bundle.Exchange) { m.Response.Body = m.Response.Body[:len(m.Response.Body)-1] })
			}
			mut(func(m *bundle.Exchange) { m.Response.Body = append(m.Response.Body, 0) })
		}
		// a second certificate for the SAME key appended to the authorities: re-pointing a
		// subset at it must fail (auth-sha256 names the signer's own certificate)
		{
			leaf := infos[0].leaf
			twin := newCert(&leaf.priv.(*ecdsa.PrivateKey).PublicKey, leaf.priv, "twin."+leaf.cert.DNSNames[0], 7)
			twinCert, _ := x509.ParseCertificate(twin)
			c := cloneSigs(b.Signatures)
			c.Authorities = append(c.Authorities, &certurl.AugmentedCertificate{Cert: twinCert})
			xt2 := L(append(append([]Sx{}, xt.L...), L(B(twin), Zi(int64(leaf.kid))))...)
			for _, a := range []uint64{0, uint64(len(c.Authorities) - 1)} {
				c2 := cloneSigs(c)
				c2.VouchedSubsets[0].Authority = a
				xsx := []Sx{}
				for _, e := range b.Exchanges {
					xsx = append(xsx, inSx(e))
				}
				cs = append(cs, Case{"bsig_verify", []Sx{sigsSx(c2), Zi(t0), Zi(0), Sym(string(ver)), L(xsx...), xt2, sigTabFor(c2, ver)}})
			}
		}
		// mutations of the signatures section
		for vi := range b.Signatures.VouchedSubsets {
			ms := func(f func(s *bundle.Signatures)) {
				c := cloneSigs(b.Signatures)
				f(c)
				verify(c, b.Exchanges, t0, 0)
			}
			for a := uint64(0); a <= uint64(len(b.Signatures.Authorities)); a++ {
				a := a
				ms(func(s *bundle.Signatures) { s.VouchedSubsets[vi].Authority = a })
			}
			ms(func(s *bundle.Signatures) { s.VouchedSubsets[vi].Authority = 1 << 63 })
			sg := b.Signatures.VouchedSubsets[vi]
			for k := 0; k < 12; k++ {
				p := r.Intn(len(sg.Signed) * 8)
				ms(func(s *bundle.Signatures) { s.VouchedSubsets[vi].Signed[p/8] ^= 1 << uint(p%8) })
				q := r.Intn(len(sg.Sig) * 8)
				ms(func(s *bundle.Signatures) { s.VouchedSubsets[vi].Sig[q/8] ^= 1 << uint(q%8) })
			}
			ms(func(s *bundle.Signatures) {
				s.VouchedSubsets[vi].Signed = s.VouchedSubsets[vi].Signed[:len(sg.Signed)-1]
			})
			ms(func(s *bundle.Signatures) { s.VouchedSubsets[vi].Sig = nil })
			for _, pad := range [][]byte{{0}, {0, 0, 0}, {1}, {0x30, 0}} { // bytes after the DER signature
				pad := pad
				ms(func(s *bundle.Signatures) {
					s.VouchedSubsets[vi].Sig = append(append([]byte{}, s.VouchedSubsets[vi].Sig...), pad...)
				})
			}
			ms(func(s *bundle.Signatures) {
				s.Authorities[0], s.Authorities[len(s.Authorities)-1] = s.Authorities[len(s.Authorities)-1], s.Authorities[0]
			})
			ms(func(s *bundle.Signatures) { s.Authorities = s.Authorities[1:] })
			ms(func(s *bundle.Signatures) {
				s.VouchedSubsets = append(s.VouchedSubsets[:vi], s.VouchedSubsets[vi+1:]...)
			})
		}
	}
	return cs
}

func pairsOfHeaderSx(h Sx) Sx {
	out := []Sx{}
	for _, nv := range h.L {
		for _, v := range nv.L[1].L {
			out = append(out, L(nv.L[0], v))
		}
	}
	return L(out...)
}

func sigX509OkTab() Sx {
	sigKeysOnce()
	ents := []Sx{}
	for _, k := range sigKeys {
		ents = append(ents, L(B(k.der), Zi(1)))
	}
	return L(ents...)
}

// ---------------------------------------------------------------- C07
func ibAttrsCbor(attrs [][2][]byte) []byte {
	type kv struct{ k, v []byte }
	ents := []kv{}
	for _, a := range attrs {
		ents = append(ents, kv{append(canonHead(0x60, uint64(len(a[0]))), a[0]...), cborBytes(a[1])})
	}
	sort.SliceStable(ents, func(i, j int) bool { return bytes.Compare(ents[i].k, ents[j].k) < 0 })
	out := canonHead(0xa0, uint64(len(ents)))
	for _, e := range ents {
		out = append(out, e.k...)
		out = append(out, e.v...)
	}
	return out
}

type ibSig struct {
	attrs [][2][]byte
	sig   []byte
}

func ibBlockCbor(stack []ibSig) []byte {
	out := []byte{0x83}
	out = append(out, cborBytes([]byte{0xf0, 0x9f, 0x96, 0x8b, 0xf0, 0x9f, 0x93, 0xa6})...)
	out = append(out, cborBytes([]byte{0x31, 0x62, 0, 0})...)
	out = append(out, canonHead(0x80, uint64(len(stack)))...)
	for _, s := range stack {
		out = append(out, 0x82)
		out = append(out, ibAttrsCbor(s.attrs)...)
		out = append(out, cborBytes(s.sig)...)
	}
	return out
}

func ibDtbs(hash, block []byte, attrs [][2][]byte) []byte {
	ab := ibAttrsCbor(attrs)
	var buf bytes.Buffer
	binary.Write(&buf, binary.BigEndian, uint64(len(hash)))
	buf.Write(hash)
	binary.Write(&buf, binary.BigEndian, uint64(len(block)))
	buf.Write(block)
	binary.Write(&buf, binary.BigEndian, uint64(len(ab)))
	buf.Write(ab)
	return buf.Bytes()
}

func attrsSx(attrs [][2][]byte) Sx {
	out := []Sx{}
	for _, a := range attrs {
		out = append(out, L(B(a[0]), B(a[1])))
	}
	return L(out...)
}

func stackInSx(stack []ibSig) Sx {
	out := []Sx{}
	for _, s := range stack {
		out = append(out, L(attrsSx(s.attrs), B(s.sig)))
	}
	return L(out...)
}

func withTrailer(content []byte) []byte {
	out := append([]byte{}, content...)
	t := make([]byte, 8)
	binary.BigEndian.PutUint64(t, uint64(len(content)+8))
	return append(out, t...)
}

func genC07(r *Rng, tier string) []Case {
	cs := []Case{}
	for _, n := range []int{0, 1, 111, 112, 113, 127, 128, 129, 239, 240, 256, 1000} {
		cs = append(cs, Case{"sha512", []Sx{B(r.Bytes(n))}})
	}
	for i := 0; i < 60; i++ {
		n := 32
		if r.Chance(1, 3) {
			n = r.Intn(41)
		}
		cs = append(cs, Case{"ib_id", []Sx{B(r.Bytes(n))}})
	}
	// trailing-length handling
	for _, size := range []int{0, 1, 7, 8, 9, 16, 100} {
		for _, tr := range []uint64{0, uint64(size), uint64(size) - 1, uint64(size) + 1, 8, 1 << 32, 1<<63 - 1, 1 << 63, 1<<63 + uint64(size), 1<<64 - 1, ^uint64(0) - uint64(size) + 1} {
			f := r.Bytes(size)
			if size >= 8 {
				binary.BigEndian.PutUint64(f[size-8:], tr)
			}
			cs = append(cs, Case{"ib_obtain", []Sx{B(f)}})
		}
	}
	randAttrs := func(pk []byte) [][2][]byte {
		a := [][2][]byte{{[]byte("ed25519PublicKey"), pk}}
		for j := r.Intn(3); j > 0; j-- {
			a = append(a, [2][]byte{[]byte([]string{"a", "zzz", "ed25519PublicKez", "k" + string(alnumBytes(r, 3)), "é"}[r.Intn(5)]), r.Bytes(r.Intn(40))})
		}
		// distinct keys only (a Go map)
		seen := map[string]bool{}
		out := [][2][]byte{}
		for _, kv := range a {
			if !seen[string(kv[0])] {
				seen[string(kv[0])] = true
				out = append(out, kv)
			}
		}
		for i := len(out) - 1; i > 0; i-- {
			j := r.Intn(i + 1)
			out[i], out[j] = out[j], out[i]
		}
		return out
	}
	n := 40
	if tier == "thorough" {
		n = 1200
	}
	for i := 0; i < n; i++ {
		hash := r.Bytes(64)
		stack := []ibSig{}
		steps := 1 + r.Intn(4)
		for s := 0; s < steps; s++ {
			seed := r.Bytes(32)
			priv := ed25519.NewKeyFromSeed(seed)
			pk := []byte(priv.Public().(ed25519.PublicKey))
			recorded := pk
			mismatch := r.Chance(1, 5)
			if mismatch {
				recorded = []byte(ed25519.NewKeyFromSeed(r.Bytes(32)).Public().(ed25519.PublicKey))
			}
			attrs := randAttrs(recorded)
			block := ibBlockCbor(stack)
			dtbs := ibDtbs(hash, block, attrs)
			sig := ed25519.Sign(priv, dtbs)
			cs = append(cs, Case{"ib_block_cbor", stackInSx(stack).L})
			cs = append(cs, Case{"ib_dtbs", []Sx{B(hash), B(block), attrsSx(attrs)}})
			var seedSx Sx = B(seed)
			stab := L(L(B(dtbs), B(sig)))
			if r.Chance(1, 12) { // strategy that refuses to sign
				seedSx = L()
				stab = L()
			}
			var pad []byte
			if r.Chance(1, 8) && seedSx.K == 1 { // strategy returns the signature followed by extra bytes
				pad = r.Bytes(1 + r.Intn(16))
				sig = append(append([]byte{}, sig...), pad...)
				stab = L(L(B(dtbs), B(sig)))
			}
			vtab := L(L(B(recorded), B(dtbs), B(sig), Bool(len(recorded) == ed25519.PublicKeySize && ed25519.Verify(ed25519.PublicKey(recorded), dtbs, sig))))
			cs = append(cs, Case{"ib_sign_and_add", []Sx{B(hash), stackInSx(stack), B(recorded), attrsSx(attrs), stab, vtab, seedSx, B(pad)}})
			if pad != nil {
				break
			}
			if mismatch || seedSx.K != 1 {
				break
			}
			stack = append([]ibSig{{attrs, sig}}, stack...)
		}
	}
	// several attempts on one signer: failing calls interleaved with good ones
	na := 25
	if tier == "thorough" {
		na = 600
	}
	for i := 0; i < na; i++ {
		hash := r.Bytes(64)
		stack := []ibSig{}
		stack0 := stackInSx(stack)
		atts := []Sx{}
		mostlyGood := i%2 == 1 // every other history: mostly successful calls, signer objects alternating
		nAtt := 2 + r.Intn(4)
		if mostlyGood {
			nAtt = 4 + r.Intn(3)
		}
		for s := nAtt; s > 0; s-- {
			seed := r.Bytes(32)
			priv := ed25519.NewKeyFromSeed(seed)
			recorded := []byte(priv.Public().(ed25519.PublicKey))
			// 0,1 good; 2 key mismatch; 3 refusing strategy; 4 padded signature; 5 attribute name that is not
			// UTF-8; 6 attributes naming another key; 7 attributes without the key; 8 a 31/33-byte key
			// 9 attributes naming a NEAR-MISS key: one byte differs in its case bit (where it is an ASCII
			// letter), in bit 0, or one byte >= 0x80 is replaced by another (both invalid UTF-8)
			// 10 the strategy returns an EMPTY signature and no error; 11 a signature cut to 63 bytes
			kind := r.Intn(12)
			if mostlyGood && r.Chance(3, 4) {
				kind = 0
			}
			if kind == 2 {
				recorded = []byte(ed25519.NewKeyFromSeed(r.Bytes(32)).Public().(ed25519.PublicKey))
			}
			if kind == 8 {
				recorded = append(append([]byte{}, recorded...), 7)[:[]int{31, 33, 0}[r.Intn(3)]]
			}
			attrs := randAttrs(recorded)
			switch kind {
			case 5:
				attrs = append(attrs, [2][]byte{[]byte([]string{"\xff", "a\xc3", "\xed\xa0\x80"}[r.Intn(3)]), {1}})
			case 6, 7, 9:
				na := [][2][]byte{}
				for _, kv := range attrs {
					if string(kv[0]) == "ed25519PublicKey" {
						if kind == 6 {
							na = append(na, [2][]byte{kv[0], []byte(ed25519.NewKeyFromSeed(r.Bytes(32)).Public().(ed25519.PublicKey))})
						}
						if kind == 9 {
							near := append([]byte{}, kv[1]...)
							letters, high := []int{}, []int{}
							for p, c := range near {
								if (c|0x20) >= 'a' && (c|0x20) <= 'z' {
									letters = append(letters, p)
								}
								if c >= 0x80 {
									high = append(high, p)
								}
							}
							switch sub := r.Intn(3); {
							case sub == 0 && len(letters) > 0:
								near[letters[r.Intn(len(letters))]] ^= 0x20
							case sub == 1 && len(high) > 0:
								near[high[r.Intn(len(high))]] ^= 0x01
							case len(near) > 0:
								near[r.Intn(len(near))] ^= 0x01
							}
							na = append(na, [2][]byte{kv[0], near})
						}
						continue
					}
					na = append(na, kv)
				}
				attrs = na
			}
			dtbs := ibDtbs(hash, ibBlockCbor(stack), attrs)
			sig := ed25519.Sign(priv, dtbs)
			var seedSx Sx = B(seed)
			var pad []byte
			stab := L(L(B(dtbs), B(sig)))
			if kind == 3 {
				seedSx, stab = L(), L()
			}
			if kind == 4 {
				pad = r.Bytes(1 + r.Intn(8))
				sig = append(append([]byte{}, sig...), pad...)
				stab = L(L(B(dtbs), B(sig)))
			}
			var padSx Sx
			trimmed := kind == 10 || kind == 11
			if trimmed {
				n := map[int]int{10: 1, 11: 64}[kind]
				sig = append([]byte{}, sig[:n-1]...)
				stab = L(L(B(dtbs), B(sig)))
				padSx = L(Sym("trim"), Zi(int64(n)))
			}
			vtab := L(L(B(recorded), B(dtbs), B(sig), Bool(len(recorded) == ed25519.PublicKeySize && ed25519.Verify(ed25519.PublicKey(recorded), dtbs, sig))))
			which := int64(r.Intn(2))
			if mostlyGood {
				which = int64(s % 2)
			}
			if trimmed {
				atts = append(atts, L(B(recorded), attrsSx(attrs), stab, vtab, seedSx, padSx, Zi(which)))
			} else {
				atts = append(atts, L(B(recorded), attrsSx(attrs), stab, vtab, seedSx, B(pad), Zi(which)))
			}
			if kind < 2 {
				stack = append([]ibSig{{attrs, sig}}, stack...)
			}
		}
		cs = append(cs, Case{"ib_sign_attempts", []Sx{B(hash), stack0, L(atts...)}})
		cs = append(cs, Case{"ib_sign_shared", []Sx{B(hash), stack0, L(atts...)}})
	}
	// whole files through the sign-bundle binary
	m := 12
	if tier == "thorough" {
		m = 120
	}
	// files whose hashed part is an exact multiple of the buffer sizes a streaming hash would use
	fixed := [][]byte{}
	for _, total := range []int{4096, 32768, 65535, 65536, 65537, 131072} {
		fixed = append(fixed, withTrailer(r.Bytes(total-8)))
	}
	fixed = append(fixed, append(ibBlockCbor(nil), withTrailer(r.Bytes(65536-8))...))
	for i := 0; i < m+len(fixed); i++ {
		var file []byte
		switch r.Intn(4) {
		case 0:
			b := randBundle(r, bver.VersionB2, r.Intn(4))
			var buf bytes.Buffer
			if _, err := b.WriteTo(&buf); err == nil {
				file = buf.Bytes()
			} else {
				file = withTrailer(r.Bytes(20))
			}
		case 1:
			file = withTrailer(r.Bytes([]int{0, 1, 100, 5000, 70000}[r.Intn(5)]))
		case 2:
			file = withTrailer(r.Bytes(50))
			file[len(file)-1] ^= byte(1 + r.Intn(3)) // wrong trailing length
		default:
			inner := withTrailer(r.Bytes(30))
			file = append(ibBlockCbor(nil), inner...) // already carries a block: trailing length < size
		}
		if i >= m {
			file = fixed[i-m]
		}
		seed := r.Bytes(32)
		priv := ed25519.NewKeyFromSeed(seed)
		pk := []byte(priv.Public().(ed25519.PublicKey))
		h := sha512.Sum512(file)
		attrs := [][2][]byte{{[]byte("ed25519PublicKey"), pk}}
		dtbs := ibDtbs(h[:], ibBlockCbor(nil), attrs)
		sig := ed25519.Sign(priv, dtbs)
		cs = append(cs, Case{"ib_sign_file", []Sx{B(file), B(pk), L(L(B(dtbs), B(sig))), L(L(B(pk), B(dtbs), B(sig), Bool(ed25519.Verify(priv.Public().(ed25519.PublicKey), dtbs, sig)))), B(seed)}})
	}
	_ = rand.Reader
	_ = x509.ParseCertificate
	return cs
}

func genC06resign(r *Rng, tier string) []Case {
	cs := []Case{}
	for i := 0; i < 6; i++ {
		cs = append(cs, Case{"bsig_resign", []Sx{Sym(string(bverList()[i%2])), Zi(int64(i))}})
	}
	return cs
}

func init() {
	regGen("C06", genC06resign)
	regGen("C06", genC06)
	regGen("C07", genC07)
}
