package main

import (
	"errors"
	"bytes"
	"crypto/sha256"
	"encoding/base64"
	"io"
	"testing/iotest"

	"github.com/WICG/webpackage/go/signedexchange/mice"
)

func draftOf(s Sx) mice.Encoding {
	if s.IsSym("d02") {
		return mice.Draft02Encoding
	}
	return mice.Draft03Encoding
}

func b64Enc(pad, url bool) *base64.Encoding {
	switch {
	case pad && !url:
		return base64.StdEncoding
	case !pad && !url:
		return base64.RawStdEncoding
	case !pad && url:
		return base64.RawURLEncoding
	}
	return base64.URLEncoding
}

func opSha256(args []Sx) Sx {
	h := sha256.Sum256(args[0].B)
	return B(h[:])
}

func opB64(args []Sx) Sx {
	enc := b64Enc(args[0].Z.Sign() != 0, args[1].Z.Sign() != 0)
	e := []byte(enc.EncodeToString(args[2].B))
	d, err := enc.DecodeString(string(args[2].B))
	if err != nil {
		return L(B(e), L(Sym("none")))
	}
	return L(B(e), L(Sym("some"), B(d)))
}

// window returns b as a prefix of a larger buffer (len(b) bytes visible, 64 more behind them) and a
// function telling whether the hidden tail was written to
func window(b []byte) ([]byte, func() bool) {
	big := make([]byte, len(b)+64)
	copy(big, b)
	for i := len(b); i < len(big); i++ {
		big[i] = 0xa5
	}
	return big[:len(b)], func() bool {
		for i := len(b); i < len(big); i++ {
			if big[i] != 0xa5 {
				return true
			}
		}
		return false
	}
}

func opMiEnc(args []Sx) Sx {
	var buf bytes.Buffer
	payload, clobbered := window(args[2].B) // the payload is a window of a larger buffer of the caller
	dg, err := draftOf(args[0]).Encode(&buf, payload, args[1].Int())
	if clobbered() || !bytes.Equal(payload, args[2].B) {
		return L(Sym("wrote_into_callers_buffer"))
	}
	if err != nil {
		return ErrV()
	}
	return OkV(L(B(buf.Bytes()), B([]byte(dg))))
}

// countingReader is a plain source (no ReadByte, no Len) that counts what is taken from it
type countingReader struct {
	r io.Reader
	n int
}

func (c *countingReader) Read(p []byte) (int, error) {
	n, err := c.r.Read(p)
	c.n += n
	return n, err
}

// mi_new_consumed draft stream digest maxrs: how many bytes NewDecoder takes from a plain source: the 8-byte
// record size and nothing more (a stream it refuses is refused before any record data is read), nothing at
// all when the digest header does not parse
func opMiNewConsumed(args []Sx) Sx {
	src := &countingReader{r: bytes.NewReader(args[1].B)}
	_, err := draftOf(args[0]).NewDecoder(src, string(args[2].B), args[3].U64())
	tag := "ok"
	if err != nil {
		tag = "err"
	}
	return L(Sym(tag), Zi(int64(src.n)))
}

func opMiDec(args []Sx) Sx {
	enc := draftOf(args[0])
	stream, digest, maxrs := args[1].B, string(args[2].B), args[3].U64()
	sizes := args[4].L
	var rd io.Reader = bytes.NewReader(stream)
	if len(args) > 5 {
		switch string(args[5].B) {
		case "onebyte":
			rd = iotest.OneByteReader(rd)
		case "dataerr":
			rd = iotest.DataErrReader(rd)
		case "half":
			rd = iotest.HalfReader(rd)
		case "ioerr": // the source fails (not with EOF) after delivering the stream
			rd = io.MultiReader(rd, iotest.ErrReader(errors.New("injected read fault")))
		}
	}
	d, err := enc.NewDecoder(rd, digest, maxrs)
	if err != nil {
		return L(Sym("newerr"))
	}
	out := []byte{}
	limit := 4 * (len(stream) + 1)
	if len(sizes) == 0 {
		return L(Sym("dec"), B(out), Sym("more"))
	}
	for i := 0; i < limit; i++ {
		k := sizes[i%len(sizes)].Int()
		dst := make([]byte, k)
		n, err := d.Read(dst)
		out = append(out, dst[:n]...)
		if err == io.EOF {
			return L(Sym("dec"), B(out), Sym("eof"))
		}
		if err != nil {
			return L(Sym("dec"), B(out), Sym("err"))
		}
	}
	return L(Sym("dec"), B(out), Sym("more"))
}

// mi_dec_retry: like mi_dec on a plain reader, then n more Read calls on the same
// decoder after the first error / end of stream.
func opMiDecRetry(args []Sx) Sx {
	enc := draftOf(args[0])
	stream, digest, maxrs := args[1].B, string(args[2].B), args[3].U64()
	sizes := args[4].L
	d, err := enc.NewDecoder(bytes.NewReader(stream), digest, maxrs)
	if err != nil {
		return L(Sym("newerr"))
	}
	out := []byte{}
	limit := 4 * (len(stream) + 1)
	status := "more"
	if len(sizes) > 0 {
		for i := 0; i < limit; i++ {
			dst := make([]byte, sizes[i%len(sizes)].Int())
			n, err := d.Read(dst)
			out = append(out, dst[:n]...)
			if err == io.EOF {
				status = "eof"
				break
			}
			if err != nil {
				status = "err"
				break
			}
		}
	}
	retries := []Sx{}
	if status != "more" {
		for i := 0; i < args[5].Int(); i++ {
			dst := make([]byte, 64)
			n, err := d.Read(dst)
			st := "more"
			if err == io.EOF {
				st = "eof"
			} else if err != nil {
				st = "err"
			}
			retries = append(retries, L(B(dst[:n]), Sym(st)))
		}
	}
	return L(Sym("dec"), B(out), Sym(status), L(retries...))
}

func drain(d io.Reader, out []byte) Sx {
	buf := make([]byte, 1000000)
	for i := 0; i < 1000000; i++ {
		n, err := d.Read(buf)
		out = append(out, buf[:n]...)
		if err == io.EOF {
			return L(Sym("dec"), B(out), Sym("eof"))
		}
		if err != nil {
			return L(Sym("dec"), B(out), Sym("err"))
		}
	}
	return L(Sym("dec"), B(out), Sym("more"))
}

// two decoders in one process: A delivers k bytes, B is created and drained, A is drained
func opMiInterleave(a []Sx) Sx {
	enc := draftOf(a[0])
	da, err := enc.NewDecoder(bytes.NewReader(a[1].B), string(a[2].B), 16384)
	if err != nil {
		return L(L(Sym("newerr")), L(Sym("skipped")))
	}
	first := make([]byte, a[5].Int())
	n, rerr := da.Read(first)
	outA := append([]byte{}, first[:n]...)
	var resB Sx
	db, err := enc.NewDecoder(bytes.NewReader(a[3].B), string(a[4].B), 16384)
	if err != nil {
		resB = L(Sym("newerr"))
	} else {
		resB = drain(db, nil)
	}
	var resA Sx
	if rerr == io.EOF {
		resA = L(Sym("dec"), B(outA), Sym("eof"))
	} else if rerr != nil {
		resA = L(Sym("dec"), B(outA), Sym("err"))
	} else {
		resA = drain(da, outA)
	}
	return L(resA, resB)
}

func init() {
	regOp("mi_interleave", opMiInterleave)
	regOp("sha256", opSha256)
	regOp("b64", opB64)
	regOp("mi_enc", opMiEnc)
	regOp("mi_dec", opMiDec)
	regOp("mi_new_consumed", opMiNewConsumed)
	regOp("mi_dec_retry", opMiDecRetry)
}
