package main

import (
	"bytes"
	"encoding/binary"
	"fmt"
	"net/http"
	"net/url"
	"sort"
	"strings"

	"github.com/WICG/webpackage/go/bundle"
	bver "github.com/WICG/webpackage/go/bundle/version"
)

var bundleBodyLens = []int{0, 1, 5, 22, 23, 24, 25, 254, 255, 256, 257, 1000}

func stableURL(s string) bool {
	u, err := url.Parse(s)
	return err == nil && u.String() == s
}

func randBundleURL(r *Rng) string {
	for {
		var u string
		switch r.Intn(8) {
		case 0:
			u = "/rel/path.html"
		case 1:
			u = "rel.js"
		default:
			u = "https://" + randHost(r)
			if r.Chance(1, 4) {
				u += fmt.Sprintf(":%d", []int{443, 8443, 80, 8080}[r.Intn(4)])
			}
			u += "/" + string(alnumBytes(r, r.Intn(6)))
			if r.Chance(1, 3) {
				// incl. escapes that are not net/url's default spelling (kept in RawPath): %7E, %2F, lower-case hex, %41
				u += []string{"/x%20y", "/a;b=c", "/~u/", "/%E3%81%82", "/a:b", "/a@b", "/%7Eu/", "/a%2Fb", "/caf%c3%a9", "/p%41", "/%7e%2f"}[r.Intn(11)]
			}
			if r.Chance(1, 3) {
				u += []string{"?q=1", "?a=b&c=d", "?", "?x=%zz"}[r.Intn(4)]
			}
		}
		if stableURL(u) {
			return u
		}
	}
}

func randRespHeader(r *Rng) http.Header {
	h := http.Header{}
	for _, kv := range randExtra(r, r.Intn(4)) {
		h.Add(kv[0], kv[1])
	}
	if r.Chance(3, 4) {
		h.Add(randCase(r, "content-type"), "text/plain")
	}
	return h
}

func randBundle(r *Rng, ver bver.Version, n int) *bundle.Bundle {
	b := &bundle.Bundle{Version: ver}
	seen := map[string]bool{}
	for len(b.Exchanges) < n {
		u := randBundleURL(r)
		if seen[u] {
			continue
		}
		seen[u] = true
		blen := bundleBodyLens[r.Intn(len(bundleBodyLens))]
		if r.Chance(1, 60) {
			blen = []int{65535, 65536}[r.Intn(2)]
		}
		b.Exchanges = append(b.Exchanges, &bundle.Exchange{
			Request:  bundle.Request{URL: mustURL(u), Header: http.Header{}},
			Response: bundle.Response{Status: []int{200, 200, 200, 404, 301, 100, 999, 500}[r.Intn(8)], Header: randRespHeader(r), Body: r.Bytes(blen)}})
	}
	if n >= 2 && r.Chance(1, 5) { // byte-identical responses under different URLs
		src := b.Exchanges[r.Intn(n)]
		dst := b.Exchanges[r.Intn(n)]
		if src != dst {
			dst.Response.Status = src.Response.Status
			dst.Response.Header = src.Response.Header.Clone()
			dst.Response.Body = append([]byte{}, src.Response.Body...)
		}
	}
	if ver == bver.VersionB1 || r.Chance(1, 2) {
		if n > 0 && r.Chance(3, 4) {
			b.PrimaryURL = b.Exchanges[r.Intn(n)].Request.URL
		} else {
			b.PrimaryURL = mustURL("https://example.com/primary")
		}
	}
	if ver == bver.VersionB1 && r.Chance(1, 3) {
		b.ManifestURL = mustURL("https://example.com/manifest.json")
	}
	// things the reader refuses: the writer must refuse them too
	if n > 0 && r.Chance(1, 6) {
		e := b.Exchanges[r.Intn(n)]
		switch r.Intn(9) {
		case 0:
			e.Response.Header["X-Note"] = []string{[]string{"caf\u00e9", "\xff", "a\x80b", "ok", "\x7f"}[r.Intn(5)]}
		case 1:
			e.Response.Header[[]string{"X-\u00e9", "x-\xff", "\u212a-Kelvin", "X-Fine"}[r.Intn(4)]] = []string{"v"}
		case 2:
			e.Response.Header[[]string{":foo", ":path", ":", ":STATUS", "a:b"}[r.Intn(5)]] = []string{"v"}
		case 3:
			e.Response.Status = []int{99, 1000, 0, -5, 10000, 100, 999, -10, -42, -99, -100, 1200}[r.Intn(12)]
		case 4:
			u := e.Request.URL.String()
			if strings.HasPrefix(u, "https://") {
				e.Request.URL = mustURL([]string{u + "#frag", u + "#", u + "?x=1#top", u + "?#f", "https://u:p@" + u[8:], "https://u@" + u[8:], "https://@" + u[8:], "https://:@" + u[8:], u + "?q=\xff", "https://example.com/\xc3?x"}[r.Intn(10)])
			}
		case 5:
			b.PrimaryURL = mustURL([]string{"https://example.com/p?x=1#top", "https://example.com/p#frag", "https://u:p@example.com/", "/relative", "", "https://example.com/p#", "mailto:x@example.com", "//{", "https://example.com/?\xff"}[r.Intn(9)])
		case 6:
			if ver == bver.VersionB1 {
				b.ManifestURL = mustURL([]string{"https://example.com/m#frag", "https://u:p@example.com/m", "/relative.json", "", "https://example.com/m",
					"https://example.com/app/../manifest.json", "https://example.com/./a/./m.json", "https://example.com/a/b/../../m"}[r.Intn(8)])
			}
		case 7:
			if ver == bver.VersionB1 {
				b.PrimaryURL = nil
			}
		case 8:
			e.Response.Header["X-Multi"] = []string{"a", "caf\u00e9"}
		}
	}
	if r.Chance(1, 4) {
		sg := &bundle.Signatures{}
		for i := r.Intn(3); i > 0; i-- {
			keysOnce()
			der := sxgKeys[r.Intn(len(sxgKeys))].der
			if r.Chance(1, 6) {
				der = r.Bytes(1 + r.Intn(40))
			}
			var ocsp Sx = L()
			if r.Bool() {
				ocsp = B(r.Bytes(r.Intn(30)))
			}
			sg.Authorities = append(sg.Authorities, augOf(L(B(der), ocsp, L())))
		}
		for i := r.Intn(3); i > 0; i-- {
			sg.VouchedSubsets = append(sg.VouchedSubsets, &bundle.VouchedSubset{Authority: uint64(r.Intn(3)), Sig: r.Bytes(r.Intn(70)), Signed: r.Bytes(r.Intn(30))})
		}
		b.Signatures = sg
	}
	return b
}

// variant sets for b1: axes with possible values; entries with Variant-Key
func addVariantSet(r *Rng, b *bundle.Bundle, mode int) {
	axes := [][]string{{"Accept-Language", "en", "fr", "ja"}, {"Accept-Encoding", "gzip", "br"}, {"Accept", "a", "b"}}
	axes = axes[:1+r.Intn(3)]
	vs := []string{}
	for _, a := range axes {
		vs = append(vs, strings.Join(a, ";"))
	}
	variants := strings.Join(vs, ", ")
	// all keys in row-major order
	keys := [][]string{{}}
	for _, a := range axes {
		nk := [][]string{}
		for _, k := range keys {
			for _, v := range a[1:] {
				nk = append(nk, append(append([]string{}, k...), v))
			}
		}
		keys = nk
	}
	perm := make([]int, len(keys))
	for i := range perm {
		perm[i] = i
	}
	for i := len(perm) - 1; i > 0; i-- {
		j := r.Intn(i + 1)
		perm[i], perm[j] = perm[j], perm[i]
	}
	u := mustURL("https://example.com/variants" + string(alnumBytes(r, 3)))
	add := func(vk string, body []byte) {
		h := http.Header{}
		h.Add("Variants", variants)
		h.Add("Variant-Key", vk)
		h.Add("Content-Type", "text/plain")
		b.Exchanges = append(b.Exchanges, &bundle.Exchange{Request: bundle.Request{URL: u, Header: http.Header{}},
			Response: bundle.Response{Status: 200, Header: h, Body: body}})
	}
	n0 := len(b.Exchanges)
	skip := -1
	if mode == 1 { // incomplete coverage
		skip = r.Intn(len(keys))
	}
	for pi := 0; pi < len(perm); pi++ {
		i := perm[pi]
		if i == skip {
			continue
		}
		vk := strings.Join(keys[i], ";")
		if mode == 3 && pi+1 < len(perm) && perm[pi+1] != skip { // multi-key entry
			vk += ", " + strings.Join(keys[perm[pi+1]], ";")
			pi++
		}
		add(vk, []byte(vk))
	}
	if mode == 2 { // overlapping coverage
		add(strings.Join(keys[r.Intn(len(keys))], ";"), []byte("dup"))
	}
	if mode == 4 { // key outside the axes
		add("xx;yy", []byte("bad"))
	}
	if mode == 6 { // (replaces the set) a single representation that nevertheless carries Variants / Variant-Key
		b.Exchanges = b.Exchanges[:n0]
		add(strings.Join(keys[0], ";"), []byte("only one"))
	}
	if mode == 5 && len(b.Exchanges) > 0 { // a key that differs from an axis value in letter case only: no match
		e := b.Exchanges[len(b.Exchanges)-1]
		e.Response.Header.Set("Variant-Key", strings.ToUpper(e.Response.Header.Get("Variant-Key")))
	}
}

func genC03(r *Rng, tier string) []Case {
	cs := []Case{}
	n := 140
	if tier == "thorough" {
		n = 4000
	}
	for i := 0; i < n; i++ {
		ver := []bver.Version{bver.VersionB1, bver.VersionB2}[i%2]
		k := r.Intn(6)
		if r.Chance(1, 10) {
			k = 0
		}
		if r.Chance(1, 15) {
			k = 10 + r.Intn(30)
		}
		b := randBundle(r, ver, k)
		if ver == bver.VersionB1 && r.Chance(1, 3) {
			addVariantSet(r, b, []int{0, 0, 0, 1, 2, 3, 4, 5, 6}[r.Intn(9)])
		}
		if ver == bver.VersionB2 && r.Chance(1, 12) && k > 0 { // two resources for one URL: refused
			b.Exchanges = append(b.Exchanges, b.Exchanges[0])
		}
		if r.Chance(1, 15) && ver == bver.VersionB2 {
			b.ManifestURL = mustURL("https://example.com/m")
		}
		in := bundleInSx(b)
		cs = append(cs, Case{"bundle_write", []Sx{in, Sym([]string{"buffer", "plain", "counting"}[r.Intn(3)])}})
		cs = append(cs, Case{"bundle_cycle", []Sx{in, x509SigTab(nil)}})
		var buf bytes.Buffer
		func() {
			defer func() { recover() }()
			if _, err := b.WriteTo(&buf); err == nil {
				cs = append(cs, Case{"bundle_read", []Sx{B(buf.Bytes()), x509SigTab(nil)}})
			}
		}()
	}
	// statuses whose decimal form has three characters without being three digits, and neighbours
	for _, ver := range []bver.Version{bver.VersionB1, bver.VersionB2} {
		for _, st := range []int{-99, -42, -10, -9, -100, 99, 100, 999, 1000} {
			b := randBundle(r, ver, 1)
			for len(b.Exchanges) < 1 {
				b = randBundle(r, ver, 1)
			}
			b.Exchanges[0].Response.Status = st
			cs = append(cs, Case{"bundle_write", []Sx{bundleInSx(b), Sym("buffer")}})
		}
	}
	// URLs a caller may have assembled field by field: a fragment behind a query (hidden in RawQuery), in the exchange
	// URL, the primary URL, the manifest URL - the writer must judge the text it is about to write
	for _, ver := range []bver.Version{bver.VersionB1, bver.VersionB2} {
		for _, where := range []int{0, 1, 2} {
			for _, tail := range []string{"?x=1#top", "?#f", "?a=b&c=d#e=f"} {
				b := randBundle(r, ver, 2)
				for len(b.Exchanges) < 2 {
					b = randBundle(r, ver, 2)
				}
				switch where {
				case 0:
					b.Exchanges[1].Request.URL = mustURL("https://example.com/assembled" + tail)
				case 1:
					b.PrimaryURL = mustURL("https://example.com/primary" + tail)
				default:
					if ver != bver.VersionB1 {
						continue
					}
					b.ManifestURL = mustURL("https://example.com/manifest.json" + tail)
				}
				in := bundleInSx(b)
				cs = append(cs, Case{"bundle_write", []Sx{in, Sym("buffer")}})
				cs = append(cs, Case{"bundle_cycle", []Sx{in, x509SigTab(nil)}})
			}
		}
	}
	// variants machinery directly
	vstrs := []string{"Accept-Language;en;EN;fr", "A;x;X", "Accept-Language;en;fr, Accept-Encoding;gzip;br", "A;x", "A;x;y;z", "A", "", "A;x, B", "A;1;2", "\"Quoted Name\";\"v 1\";v2", "A;x;x", "A;x,B;y;z,C;p;q;r",
		"A;" + strings.Repeat("v;", 100) + "w, B;" + strings.Repeat("v;", 100) + "w", "A;*aGk=*"}
	for _, v := range vstrs {
		for _, key := range [][]string{{"en", "gzip"}, {"fr", "br"}, {"x"}, {"z"}, {}, {"x", "y"}, {"x", "z", "r"}, {"v 1"}, {"w", "w"}, {"EN"}, {"En"}, {"X"}, {"EN", "GZIP"}} {
			ks := []Sx{}
			for _, k := range key {
				ks = append(ks, B([]byte(k)))
			}
			cs = append(cs, Case{"variants", []Sx{B([]byte(v)), L(ks...), Zi(int64(r.Intn(12)))}})
		}
	}
	for i := 0; i < 300; i++ {
		nax := 1 + r.Intn(3)
		axes := []string{}
		dims := []int{}
		for a := 0; a < nax; a++ {
			d := 1 + r.Intn(3)
			dims = append(dims, d)
			vals := []string{fmt.Sprintf("H%d", a)}
			for j := 0; j < d; j++ {
				vals = append(vals, fmt.Sprintf("v%d", j))
			}
			axes = append(axes, strings.Join(vals, ";"))
		}
		v := strings.Join(axes, ", ")
		total := 1
		for _, d := range dims {
			total *= d
		}
		ents := []Sx{}
		used := r.Intn(2) == 0
		for idx := 0; idx < total; idx++ {
			if r.Chance(1, 12) {
				continue // hole
			}
			key := []string{}
			x := idx
			for a := nax - 1; a >= 0; a-- {
				key = append([]string{fmt.Sprintf("v%d", x%dims[a])}, key...)
				x /= dims[a]
			}
			vk := strings.Join(key, ";")
			if used && r.Chance(1, 6) {
				vk += ", " + vk // duplicate key inside one entry
			}
			vv := v
			if r.Chance(1, 25) {
				vv = v + " "
			}
			ents = append(ents, L(B([]byte(vv)), B([]byte(vk))))
		}
		for j := len(ents) - 1; j > 0; j-- {
			k := r.Intn(j + 1)
			ents[j], ents[k] = ents[k], ents[j]
		}
		cs = append(cs, Case{"entries_order", ents})
	}
	// groups the writer must refuse before looking at coverage: no / unparsable / overflowing Variants value,
	// unparsable or empty Variant-Key, Variants values that differ between the members
	many := []string{}
	for a := 0; a < 65; a++ {
		many = append(many, fmt.Sprintf("A%d;x;y", a))
	}
	ent := func(v, k string) Sx { return L(B([]byte(v)), B([]byte(k))) }
	for _, g := range [][]Sx{
		{ent("", "x"), ent("", "y")}, {ent("", ""), ent("A;x;y", "x")}, {ent("A;x;y", "x"), ent("", "y")},
		{ent("A;;", "x"), ent("A;;", "y")}, {ent("\"A;x;y", "x"), ent("\"A;x;y", "y")}, {ent("A;x;y,", "x"), ent("A;x;y,", "y")}, {ent("A", "x"), ent("A", "y")},
		{ent(strings.Join(many, ", "), "x"), ent(strings.Join(many, ", "), "y")},
		{ent("A;x;y", "\"x"), ent("A;x;y", "y")}, {ent("A;x;y", "x;;"), ent("A;x;y", "y")}, {ent("A;x;y", ""), ent("A;x;y", "y")}, {ent("A;x;y", "x,"), ent("A;x;y", "y")},
		{ent("A;x;y", "x"), ent("A;x;y", "*eQ==*")}, {ent("A;x;y", "x"), ent("A;x;y", "1")}, {ent("A;x;y", "x"), ent("A; x; y", "y")}, {ent("A;x;y", "x"), ent("a;x;y", "y")},
		{ent("A;x;y", "x")}, {ent("A;x;y", "x;y")}, {ent("A;x;y, B;p", "x"), ent("A;x;y, B;p", "y;p")},
	} {
		cs = append(cs, Case{"entries_order", g})
	}
	return cs
}

func genC04(r *Rng, tier string) []Case {
	cs := []Case{}
	// serializers must not touch their input: multi-valued headers stay multi-valued
	for i := 0; i < 30; i++ {
		b := randBundle(r, []bver.Version{bver.VersionB1, bver.VersionB2}[i%2], 1+r.Intn(3))
		for _, e := range b.Exchanges {
			if r.Bool() {
				e.Response.Header["X-Multi"] = []string{"a", string(alnumBytes(r, 3)), "c"}
			}
			if r.Chance(1, 3) {
				e.Response.Header.Add("Content-Encoding", "gzip")
				e.Response.Header.Add("Content-Encoding", "mi-sha256-03")
			}
		}
		cs = append(cs, Case{"bundle_write_keeps_input", []Sx{bundleInSx(b)}})
	}
	n := 150
	if tier == "thorough" {
		n = 4000
	}
	for i := 0; i < n; i++ {
		ver := []bver.Version{bver.VersionB1, bver.VersionB2}[i%2]
		b := randBundle(r, ver, r.Intn(8))
		if ver == bver.VersionB1 && r.Chance(1, 4) {
			addVariantSet(r, b, 0)
		}
		in := bundleInSx(b)
		cs = append(cs, Case{"bundle_write", []Sx{in, Sym("buffer")}})
		cs = append(cs, Case{"bundle_write", []Sx{in, Sym("plain")}})
	}
	// version names: only "b1" and "b2", as spelled
	for _, v := range []string{"b1", "b2", "B1", "B2", "b3", "b0", "", "b", "b1 ", " b1", "b1\x00", "1", "2", "b11", "bb1", "b２", "ｂ1"} {
		cs = append(cs, Case{"bver_parse", []Sx{B([]byte(v))}})
	}
	// URL model vs net/url (feeds the reader/writer domain)
	for _, u := range []string{"https://a.test/", "https://a.test", "/x", "x", "x:y", "a/b:c", "//h/p", "///p", "https://h/p#", "https://h/p#f", "https://u@h/", "https://h/%zz", "x#%zz",
		"HTTPS://h/", "https://H/", "https://h/ ", "https://h/\"", "https://h/^", "", "#", "?", "?q", "https:", "https:/p", "https://", "https:///p", "https://h//p", "mailto:a@b", "https://h/a?b?c", "https://h/a#b#c", "./a:b", "a%3Ab"} {
		cs = append(cs, Case{"urlref", []Sx{B([]byte(u))}})
	}
	for i := 0; i < 400; i++ {
		u := []byte(randBundleURL(r))
		if r.Bool() && len(u) > 0 {
			alt := []byte(":/?#%@[] ~\x00Az09.-+;=&!$'()*,_\\\"<>^`{|}")
			u[r.Intn(len(u))] = alt[r.Intn(len(alt))]
		}
		cs = append(cs, Case{"urlref", []Sx{B(u)}})
	}
	// CountingWriter.Write against a faulting destination
	for i := 0; i < 200; i++ {
		chunks := []Sx{}
		total := 0
		for j := r.Intn(6); j >= 0; j-- {
			l := r.Intn(8)
			total += l
			chunks = append(chunks, B(r.Bytes(l)))
		}
		for k := -1; k <= total; k++ {
			cs = append(cs, Case{"cw_writes", []Sx{L(chunks...), Zi(int64(k)), Zi(int64(r.Intn(2)))}})
			if i%2 == 0 { // the same through ReadFrom's own copy loop, the source ending in EOF or in an error
				cs = append(cs, Case{"cw_readfrom", []Sx{L(chunks...), Zi(int64(k)), Zi(int64(r.Intn(4))), Zi(int64(r.Intn(3)))}})
			}
		}
	}
	// a source chunk larger than ReadFrom's 32 KiB buffer
	for _, k := range []int{-1, 0, 1, 32767, 32768, 32769, 70000, 99999, 100000} {
		cs = append(cs, Case{"cw_readfrom", []Sx{L(B(r.Bytes(100000))), Zi(int64(k)), Zi(int64(r.Intn(4))), Zi(0)}})
	}
	return cs
}

// ---- hand-assembled bundles for the malformed stream (C05) -----------------

type bbSection struct {
	name string
	body []byte
	decl *uint64 // declared length override
}

type bbEntry struct {
	url      string
	variants []byte
	locs     [][2]uint64
	count    *uint64 // value-array count override
	tail     []byte  // raw bytes after the locations (half a pair, a foreign item)
}

type bb struct {
	magic        []byte // header + version magic override
	ver          bver.Version
	primary      string
	entries      []bbEntry
	indexCount   *uint64
	items        [][]byte
	respCount    *uint64
	extra        []bbSection // other sections in order: (before index if name starts with '<')
	tableCount   *uint64
	headCount    *uint64
	order        []string
	declOverride map[string]uint64
}

func cborBytes(b []byte) []byte { return append(canonHead(0x40, uint64(len(b))), b...) }
func cborText(s string) []byte  { return append(canonHead(0x60, uint64(len(s))), s...) }
func cborUint(v uint64) []byte  { return canonHead(0x00, v) }

func respItem(status string, hdrs [][2]string, body []byte) []byte {
	type kv struct{ k, v []byte }
	ents := []kv{{cborBytes([]byte(":status")), cborBytes([]byte(status))}}
	for _, h := range hdrs {
		ents = append(ents, kv{cborBytes([]byte(h[0])), cborBytes([]byte(h[1]))})
	}
	sort.SliceStable(ents, func(i, j int) bool { return bytes.Compare(ents[i].k, ents[j].k) < 0 })
	m := canonHead(0xa0, uint64(len(ents)))
	for _, e := range ents {
		m = append(m, e.k...)
		m = append(m, e.v...)
	}
	out := []byte{0x82}
	out = append(out, cborBytes(m)...)
	out = append(out, cborBytes(body)...)
	return out
}

func (b *bb) build() []byte {
	// responses
	rc := uint64(len(b.items))
	if b.respCount != nil {
		rc = *b.respCount
	}
	resp := canonHead(0x80, rc)
	for _, it := range b.items {
		resp = append(resp, it...)
	}
	// index
	ents := append([]bbEntry{}, b.entries...)
	sort.SliceStable(ents, func(i, j int) bool { return bytes.Compare(cborText(ents[i].url), cborText(ents[j].url)) < 0 })
	ic := uint64(len(ents))
	if b.indexCount != nil {
		ic = *b.indexCount
	}
	idx := canonHead(0xa0, ic)
	for _, e := range ents {
		idx = append(idx, cborText(e.url)...)
		var cnt uint64
		if b.ver == bver.VersionB1 {
			cnt = 1 + 2*uint64(len(e.locs))
		} else {
			cnt = 2 * uint64(len(e.locs))
		}
		if e.count != nil {
			cnt = *e.count
		}
		idx = append(idx, canonHead(0x80, cnt)...)
		if b.ver == bver.VersionB1 {
			idx = append(idx, cborBytes(e.variants)...)
		}
		for _, l := range e.locs {
			idx = append(idx, cborUint(l[0])...)
			idx = append(idx, cborUint(l[1])...)
		}
		idx = append(idx, e.tail...)
	}
	secs := map[string]bbSection{"index": {name: "index", body: idx}, "responses": {name: "responses", body: resp}}
	for _, s := range b.extra {
		secs[s.name] = s
	}
	order := b.order
	if order == nil {
		order = []string{"index"}
		for _, s := range b.extra {
			order = append(order, s.name)
		}
		order = append(order, "responses")
	}
	out := []byte{}
	if b.ver == bver.VersionB1 {
		out = append(out, bver.HeaderMagicBytesB1...)
		out = append(out, bver.VersionMagicBytesB1...)
	} else {
		out = append(out, bver.HeaderMagicBytesB2...)
		out = append(out, bver.VersionMagicBytesB2...)
	}
	if b.magic != nil {
		out = append([]byte{}, b.magic...)
	}
	if b.ver == bver.VersionB1 {
		out = append(out, cborText(b.primary)...)
	}
	tc := uint64(2 * len(order))
	if b.tableCount != nil {
		tc = *b.tableCount
	}
	table := canonHead(0x80, tc)
	for _, nm := range order {
		name := strings.TrimRight(nm, "#") // "index#" = a second section with the same name
		s := secs[nm]
		l := uint64(len(s.body))
		if s.decl != nil {
			l = *s.decl
		}
		if v, ok := b.declOverride[nm]; ok {
			l = v
		}
		table = append(table, cborText(name)...)
		table = append(table, cborUint(l)...)
	}
	out = append(out, cborBytes(table)...)
	hc := uint64(len(order))
	if b.headCount != nil {
		hc = *b.headCount
	}
	out = append(out, canonHead(0x80, hc)...)
	for _, nm := range order {
		out = append(out, secs[nm].body...)
	}
	foot := make([]byte, 8)
	binary.BigEndian.PutUint64(foot, uint64(len(out)+9))
	out = append(out, cborBytes(foot)...)
	return out
}

func u64p(v uint64) *uint64 { return &v }

func x509SigTab(b []byte) Sx {
	keysOnce()
	ents := []Sx{}
	for _, k := range sxgKeys {
		ents = append(ents, L(B(k.der), Zi(1)))
	}
	return L(ents...)
}

func genC05(r *Rng, tier string) []Case {
	cs := []Case{}
	read := func(b []byte) { cs = append(cs, Case{"bundle_read", []Sx{B(b), x509SigTab(b)}}) }
	mkBase := func(ver bver.Version, n int) *bb {
		b := &bb{ver: ver, primary: "https://example.com/"}
		off := uint64(len(canonHead(0x80, uint64(n))))
		for i := 0; i < n; i++ {
			body := r.Bytes([]int{0, 3, 23, 24, 100, 300}[r.Intn(6)])
			it := respItem(fmt.Sprintf("%03d", 200+r.Intn(3)), [][2]string{{"content-type", "text/plain"}, {"x-n", fmt.Sprint(i)}}, body)
			b.items = append(b.items, it)
			b.entries = append(b.entries, bbEntry{url: fmt.Sprintf("https://example.com/r%d", i), locs: [][2]uint64{{off, uint64(len(it))}}})
			off += uint64(len(it))
		}
		return b
	}
	reps := 2
	if tier == "thorough" {
		reps = 12
	}
	for rep := 0; rep < reps; rep++ {
		for _, ver := range []bver.Version{bver.VersionB1, bver.VersionB2} {
			n := 1 + r.Intn(4)
			base := mkBase(ver, n)
			good := base.build()
			read(good)
			fsize := uint64(len(good))
			edge := func(exact uint64) []uint64 {
				return []uint64{0, exact - 1, exact + 1, fsize, fsize - 1, fsize + 1, 1 << 32, 1<<63 - 1, 1 << 63, 1<<64 - 1, 1<<64 - 8, ^uint64(0) - exact + 1, exact + 512, 4096}
			}
			respLen := uint64(len(canonHead(0x80, uint64(n))))
			for _, it := range base.items {
				respLen += uint64(len(it))
			}
			clone := func() *bb {
				c := *base
				c.entries = append([]bbEntry{}, base.entries...)
				for i := range c.entries {
					c.entries[i].locs = append([][2]uint64{}, base.entries[i].locs...)
				}
				c.items = append([][]byte{}, base.items...)
				return &c
			}
			// every index offset / length in turn
			for ei := range base.entries {
				for f := 0; f < 2; f++ {
					for _, v := range edge(base.entries[ei].locs[0][f]) {
						c := clone()
						c.entries[ei].locs[0][f] = v
						read(c.build())
					}
				}
				// offset+length wrapping pairs
				for _, p := range [][2]uint64{{1<<64 - 8, 16}, {1 << 63, 1 << 63}, {respLen, 0}, {respLen - 1, 1}, {respLen - 1, 2}, {0, respLen}, {0, respLen + 1}, {1<<64 - 1, 2}} {
					c := clone()
					c.entries[ei].locs[0] = p
					read(c.build())
				}
				for _, v := range []uint64{0, 1, 2, 3, 4, 5, 1 << 32, 1<<64 - 1} {
					c := clone()
					c.entries[ei].count = u64p(v)
					read(c.build())
				}
			}
			// the section-lengths byte string at its limit: 8191 bytes is the longest the reader takes
			if rep == 0 {
				slLen := func(file []byte) int { // length of the byte string that follows the magic (and the b1 primary URL)
					p := 15
					if ver == bver.VersionB1 {
						p += len(cborText(base.primary))
					}
					switch {
					case file[p] < 0x58:
						return int(file[p] & 0x1f)
					case file[p] == 0x58:
						return int(file[p+1])
					default:
						return int(file[p+1])<<8 | int(file[p+2])
					}
				}
				for k := 8100; k < 8200; k++ {
					c := clone()
					c.extra = []bbSection{{name: strings.Repeat("u", k), body: []byte{}}}
					built := c.build()
					if n := slLen(built); n >= 8190 && n <= 8194 {
						read(built)
					}
				}
			}
			// b1: a variants-value whose number of possible keys overflows int64 (63, 64, 70 axes of two values)
			if ver == bver.VersionB1 {
				for _, nax := range []int{13, 14, 62, 63, 64, 65, 70, 128} {
					axes := []string{}
					for a := 0; a < nax; a++ {
						axes = append(axes, fmt.Sprintf("A%d;x;y", a))
					}
					c := clone()
					c.entries[0].variants = []byte(strings.Join(axes, ", "))
					read(c.build())
					c = clone() // ... and no location at all (what a key count wrapped to 0 would ask for)
					c.entries[0].variants = []byte(strings.Join(axes, ", "))
					c.entries[0].locs = nil
					read(c.build())
				}
			}
			// duplicated response header names: first value empty / both non-empty / three times
			for _, dup := range [][][2]string{{{"content-type", ""}, {"content-type", "injected"}}, {{"x-a", "1"}, {"x-a", "2"}}, {{"x-a", ""}, {"x-a", ""}, {"x-a", "z"}}, {{"x-a", ""}}} {
				c := clone()
				c.items[0] = respItem("200", dup, []byte("x"))
				c.entries[0].locs[0][1] = uint64(len(c.items[0]))
				off := c.entries[0].locs[0][0] + uint64(len(c.items[0]))
				for k := 1; k < len(c.entries); k++ {
					c.entries[k].locs[0][0] = off
					off += c.entries[k].locs[0][1]
				}
				read(c.build())
			}
			// :status spellings the reader must refuse (only three ASCII digits are a status)
			for _, st := range []string{"+200", "0200", "0000000301", "-200", "20", "2000", " 200", "200 ", "2e2", "٢٠٠", "", "099", "100", "999"} {
				c := clone()
				c.items[0] = respItem(st, [][2]string{{"content-type", "text/plain"}}, []byte("x"))
				c.entries[0].locs[0][1] = uint64(len(c.items[0]))
				off := c.entries[0].locs[0][0] + uint64(len(c.items[0]))
				for k := 1; k < len(c.entries); k++ {
					c.entries[k].locs[0][0] = off
					off += c.entries[k].locs[0][1]
				}
				read(c.build())
			}
			// the :status pseudo header twice / another pseudo header beside it
			for _, dup := range [][][2]string{{{":status", "201"}}, {{":status", "200"}}, {{":path", "/"}}, {{":status", "200"}, {"x-a", "1"}, {"x-a", "2"}}} {
				c := clone()
				c.items[0] = respItem("200", dup, []byte("x"))
				c.entries[0].locs[0][1] = uint64(len(c.items[0]))
				off := c.entries[0].locs[0][0] + uint64(len(c.items[0]))
				for k := 1; k < len(c.entries); k++ {
					c.entries[k].locs[0][0] = off
					off += c.entries[k].locs[0][1]
				}
				read(c.build())
			}
			// header and version magic that do not belong together, unknown version magic
			{
				h1, v1, h2, v2 := bver.HeaderMagicBytesB1, bver.VersionMagicBytesB1, bver.HeaderMagicBytesB2, bver.VersionMagicBytesB2
				cat := func(a, b []byte) []byte { return append(append([]byte{}, a...), b...) }
				for _, m := range [][]byte{cat(h1, v2), cat(h2, v1), cat(h1, []byte{0x44, 'b', '3', 0, 0}), cat(h2, []byte{0x44, 'b', '2', 0, 1}), cat(h1, v1[:3]), cat(h2[:5], v2)} {
					c := clone()
					c.magic = m
					read(c.build())
				}
			}
			// b1: a variants-value with the right count but locations that are short, cut in the middle of a
			// pair, of the wrong type, or out of range - for the first and for the last index entry
			if ver == bver.VersionB1 {
				for _, ei := range []int{0, len(base.entries) - 1} {
					l0 := base.entries[ei].locs[0]
					for _, t := range []struct {
						locs [][2]uint64
						tail []byte
					}{
						{[][2]uint64{l0}, nil}, {[][2]uint64{l0}, cborUint(l0[0])}, {nil, nil}, {nil, cborUint(l0[0])},
						{[][2]uint64{l0}, append(cborUint(l0[0]), cborText("x")...)}, {[][2]uint64{l0}, append(cborText("x"), cborUint(1)...)},
						{[][2]uint64{l0, {respLen, 1}}, nil}, {[][2]uint64{l0, {l0[0], respLen + 1}}, nil}, {[][2]uint64{{1 << 63, 1 << 63}, l0}, nil},
						{[][2]uint64{l0, l0}, cborUint(7)},
					} {
						c := clone()
						c.entries[ei].variants = []byte("A;x;y")
						c.entries[ei].locs = t.locs
						c.entries[ei].tail = t.tail
						c.entries[ei].count = u64p(5)
						read(c.build())
					}
				}
			}
			// b1: a non-empty variants-value with ONE ITEM TOO MANY in the value array (2k+2 items: a division-based
			// size check lets it through and the reader loses its place)
			if ver == bver.VersionB1 {
				for _, ei := range []int{0, len(base.entries) - 1} {
					l0 := base.entries[ei].locs[0]
					for _, extra := range [][]byte{cborUint(7), cborText("https://evil.example/"), cborBytes([]byte("x")), {0x80}} {
						for _, vv := range []string{"A;x", "A;x;y"} {
							c := clone()
							c.entries[ei].variants = []byte(vv)
							nk := strings.Count(vv, ";")
							c.entries[ei].locs = nil
							for k := 0; k < nk; k++ {
								c.entries[ei].locs = append(c.entries[ei].locs, l0)
							}
							c.entries[ei].tail = extra
							c.entries[ei].count = u64p(uint64(2*nk + 2))
							read(c.build())
						}
					}
				}
			}
			// a header with an EMPTY name
			for _, hs := range [][][2]string{{{"", "v"}}, {{"", ""}}, {{"", "v"}, {"x-a", "1"}}} {
				c := clone()
				c.items[0] = respItem("200", hs, []byte("x"))
				c.entries[0].locs[0][1] = uint64(len(c.items[0]))
				off := c.entries[0].locs[0][0] + uint64(len(c.items[0]))
				for k := 1; k < len(c.entries); k++ {
					c.entries[k].locs[0][0] = off
					off += c.entries[k].locs[0][1]
				}
				read(c.build())
			}
			// a signatures section cut at every byte, with the wrong map size, wrong value types
			{
				good := append([]byte{0x82, 0x80, 0x81, 0xa3}, append(append(append(cborText("authority"), 0x00), append(cborText("sig"), 0x41, 0x01)...), append(cborText("signed"), 0x41, 0x02)...)...)
				for cut := 0; cut < len(good); cut++ {
					c := clone()
					c.extra = []bbSection{{name: "signatures", body: good[:cut]}}
					read(c.build())
				}
				for _, p := range []struct {
					at int
					b  byte
				}{{3, 0xa2}, {3, 0xa4}, {3, 0x83}, {2, 0x82}, {1, 0x81}, {0, 0x81}, {0, 0xa2}, {14, 0x20}, {14, 0x40}, {19, 0x61}, {28, 0x61}, {4, 0x49}} {
					if p.at < len(good) {
						m := append([]byte{}, good...)
						m[p.at] = p.b
						c := clone()
						c.extra = []bbSection{{name: "signatures", body: m}}
						read(c.build())
					}
				}
			}
			// primary / manifest URLs that net/url refuses, of the wrong CBOR type, with bytes after them
			for _, s := range []bbSection{
				{name: "primary", body: cborText("https://example.com/%zz")}, {name: "primary", body: cborText("https://exa mple.com/")}, {name: "primary", body: cborText(":")},
				{name: "primary", body: cborText("https://example.com/\x7f")}, {name: "primary", body: append(cborText("https://example.com/"), 0x00)}, {name: "primary", body: cborUint(1)},
				{name: "manifest", body: cborText("https://example.com/%zz")}, {name: "manifest", body: cborText("https://exa mple.com/m")}, {name: "manifest", body: cborBytes([]byte("https://example.com/m"))},
				{name: "manifest", body: []byte{}}, {name: "manifest", body: cborUint(0)}, {name: "manifest", body: append(cborText("https://example.com/m"), 0x00)},
				{name: "manifest", body: cborText("https://example.com/m#f")}, {name: "manifest", body: cborText("https://u:p@example.com/m")},
			} {
				c := clone()
				c.extra = []bbSection{s}
				read(c.build())
			}
			if ver == bver.VersionB1 { // the fallback URL in the b1 header
				for _, p := range []string{"https://example.com/%zz", "https://exa mple.com/", ":", "", "rel", "https://example.com/\x01"} {
					c := clone()
					c.primary = p
					read(c.build())
				}
			}
			// a signatures section whose authority map has no "cert" entry (or only ocsp / sct)
			for _, auth := range [][]byte{{0xa0}, append([]byte{0xa1}, append(cborText("ocsp"), cborBytes([]byte("o"))...)...),
				append([]byte{0xa1}, append(cborText("sct"), cborBytes([]byte("s"))...)...)} {
				sec := []byte{0x82, 0x81}
				sec = append(sec, auth...)
				sec = append(sec, 0x81, 0xa3)
				sec = append(sec, append(cborText("authority"), 0x00)...)
				sec = append(sec, append(cborText("sig"), cborBytes([]byte{1, 2, 3})...)...)
				sec = append(sec, append(cborText("signed"), cborBytes([]byte{0xa0})...)...)
				c := clone()
				c.extra = []bbSection{{name: "signatures", body: sec}}
				read(c.build())
			}
			// two index entries at the same offset: the same length (legitimate sharing) and
			// different lengths (each entry must be checked with its own length)
			for ei := range base.entries {
				for ej := range base.entries {
					if ei == ej {
						continue
					}
					li, lj := base.entries[ei].locs[0], base.entries[ej].locs[0]
					for _, ln := range []uint64{li[1], lj[1], li[1] - 1, li[1] + 1, 1} {
						c := clone()
						c.entries[ej].locs[0] = [2]uint64{li[0], ln}
						read(c.build())
					}
					// both entries share one response: editing what Read returned for one of them
					// must not show through the other
					c := clone()
					c.entries[ej].locs[0] = li
					built := c.build()
					for k := 0; k < len(base.entries); k++ {
						cs = append(cs, Case{"bundle_read_edit", []Sx{B(built), x509SigTab(built), Zi(int64(k))}})
					}
				}
			}
			// offsets that wrap around 2^64: 2^64-k for k up to and beyond the distance back to the file start
			for ei := range base.entries {
				l := base.entries[ei].locs[0][1]
				for _, k := range []uint64{1, 8, 40, 60, 80, 100, 150, 200, 300, 500, 1000, 5000} {
					for _, ln := range []uint64{l, k, k + 1, 2 * k, l + k} {
						c := clone()
						c.entries[ei].locs[0] = [2]uint64{^uint64(0) - k + 1, ln}
						read(c.build())
					}
				}
			}
			// a valid response item parked in an unknown section BEFORE the responses section, reachable
			// only through an offset that wraps (must be refused: it is outside the responses section)
			{
				decoy := respItem("200", [][2]string{{"x-decoy", "1"}}, []byte("decoy body"))
				c := clone()
				c.extra = []bbSection{{name: "decoy-sec", body: decoy}}
				built := c.build()
				_ = built
				// distance from the start of responses back to the decoy = len(decoy)
				c.entries[0].locs[0] = [2]uint64{^uint64(0) - uint64(len(decoy)) + 1, uint64(len(decoy))}
				read(c.build())
			}
			// section declared lengths: index, responses, and an unknown section in between
			idxLen := uint64(len(good)) - respLen // upper bound is enough for the edge table
			for _, name := range []string{"index", "responses", "unknown-sec"} {
				exact := respLen
				if name == "index" {
					exact = idxLen
				}
				for _, v := range append(edge(exact), 1, 2, respLen, respLen+9, respLen+10) {
					c := clone()
					if name == "unknown-sec" {
						c.extra = []bbSection{{name: "unknown-sec", body: r.Bytes(5)}}
					}
					c.declOverride = map[string]uint64{name: v}
					read(c.build())
				}
			}
			// counts: index map, responses array, section table, section header
			for _, v := range []uint64{0, uint64(n) - 1, uint64(n) + 1, 23, 24, 1 << 32, 1 << 63, 1<<64 - 1} {
				c := clone()
				c.indexCount = u64p(v)
				read(c.build())
				c = clone()
				c.respCount = u64p(v)
				read(c.build())
			}
			for _, v := range []uint64{0, 1, 2, 3, 4, 5, 6, 1 << 63, 1<<64 - 1, 1<<64 - 2} {
				c := clone()
				c.tableCount = u64p(v)
				read(c.build())
				c = clone()
				c.headCount = u64p(v)
				read(c.build())
			}
			// unknown / duplicated / reordered / missing sections
			unk := bbSection{name: "unknown-sec", body: r.Bytes(1 + r.Intn(30))}
			crit := bbSection{name: "critical", body: cborBytes([]byte("x"))}
			for _, order := range [][]string{
				{"unknown-sec", "index", "responses"}, {"index", "unknown-sec", "responses"}, {"unknown-sec", "critical", "index", "responses"},
				{"index", "responses", "unknown-sec"}, {"responses", "index"}, {"index"}, {"responses"}, {}, {"index", "index#", "responses"},
				{"index", "responses", "responses#"}, {"unknown-sec", "unknown-sec#", "index", "responses"}, {"index", "critical", "unknown-sec", "responses"},
				// the same name twice with other sections in between (round 15)
				{"index", "responses", "index#"}, {"index", "unknown-sec", "index#", "responses"}, {"index#", "responses", "index"}, {"responses#", "index", "responses"},
				{"unknown-sec", "index", "unknown-sec#", "responses"}, {"index", "critical", "responses", "index#"}, {"index", "responses", "critical", "responses#"}} {
				c := clone()
				c.extra = []bbSection{unk, crit, {name: "index#", body: []byte{0xa0}}, {name: "responses#", body: []byte{0x80}}, {name: "unknown-sec#", body: []byte{1, 2, 3}}}
				c.order = order
				read(c.build())
			}
			// primary / manifest / signatures sections with good and bad content
			for _, s := range []bbSection{
				{name: "primary", body: cborText("https://example.com/r0")}, {name: "primary", body: cborText("/relative")}, {name: "primary", body: cborText("https://example.com/#f")},
				{name: "primary", body: cborText("https://u@example.com/")}, {name: "primary", body: cborBytes([]byte("https://example.com/"))}, {name: "primary", body: []byte{}},
				{name: "manifest", body: cborText("https://example.com/m")}, {name: "manifest", body: cborText("m")},
				{name: "signatures", body: []byte{0x82, 0x80, 0x80}}, {name: "signatures", body: []byte{0x82, 0x80}}, {name: "signatures", body: []byte{0x83, 0x80, 0x80, 0x80}},
				{name: "signatures", body: append([]byte{0x82, 0x80, 0x81, 0xa3}, append(append(append(cborText("authority"), 0x00), append(cborText("sig"), 0x41, 0x01)...), append(cborText("signed"), 0x41, 0x02)...)...)},
				{name: "signatures", body: append([]byte{0x82, 0x80, 0x81, 0xa3}, append(append(append(cborText("authority"), 0x00), append(cborText("sig"), 0x41, 0x01)...), append(cborText("bogus"), 0x41, 0x02)...)...)},
				{name: "signatures", body: []byte{0x82, 0x9b, 0xff, 0xff, 0xff, 0xff, 0xff, 0xff, 0xff, 0xff, 0x80}},
			} {
				c := clone()
				c.extra = []bbSection{s}
				read(c.build())
			}
			// response items: header map problems
			badItems := [][]byte{
				respItem("200", [][2]string{{"a", "1"}, {"a", "2"}}, []byte("x")),
				respItem("200", [][2]string{{"A", "1"}}, []byte("x")),
				respItem("200", [][2]string{{"a\x80", "1"}}, []byte("x")),
				respItem("200", [][2]string{{"a", "\xff"}}, []byte("x")),
				respItem("200", [][2]string{{":method", "GET"}}, []byte("x")),
				respItem("2000", nil, []byte("x")), respItem("20", nil, []byte("x")), respItem("2x0", nil, []byte("x")), respItem("+20", nil, []byte("x")), respItem("099", nil, []byte("x")), respItem("200\n", nil, []byte("x")),
				append(respItem("200", nil, []byte("x")), 0x00),
				respItem("200", nil, []byte("x"))[:5],
				{0x83, 0x40, 0x40, 0x40}, {0x82}, {},
			}
			noStatus := []byte{0x82}
			noStatus = append(noStatus, cborBytes([]byte{0xa0})...)
			noStatus = append(noStatus, cborBytes([]byte("x"))...)
			badItems = append(badItems, noStatus)
			for _, it := range badItems {
				c := clone()
				c.items[0] = it
				// keep locations consistent with the new layout
				off := uint64(len(canonHead(0x80, uint64(n))))
				for i := range c.items {
					c.entries[i].locs[0] = [2]uint64{off, uint64(len(c.items[i]))}
					off += uint64(len(c.items[i]))
				}
				read(c.build())
			}
			// URLs in the index
			for _, u := range []string{"https://example.com/#frag", "https://user@example.com/", "https://example.com/%zz", "rel", "/abs", "https://example.com/\x01", "a:b:c", "https://example.com/#"} {
				c := clone()
				c.entries[0].url = u
				read(c.build())
			}
			// b1 variants value
			if ver == bver.VersionB1 {
				for _, vv := range []string{"A;x;y", "A;x", "A", "A;1", "A;x;y, B;p;q"} {
					c := clone()
					c.entries[0].variants = []byte(vv)
					read(c.build())
					c = clone()
					c.entries[0].variants = []byte(vv)
					c.entries[0].locs = append(c.entries[0].locs, c.entries[0].locs[0])
					read(c.build())
					c = clone()
					c.entries[0].variants = []byte(vv)
					l := c.entries[0].locs[0]
					c.entries[0].locs = [][2]uint64{l, l, l, l}
					read(c.build())
				}
			}
			// truncation at every offset, bit flips
			step := 1
			if len(good) > 400 && tier == "quick" {
				step = 3
			}
			for i := 0; i < len(good); i += step {
				read(good[:i])
			}
			nf := 300
			if tier == "thorough" {
				nf = 3000
			}
			for i := 0; i < nf; i++ {
				c := append([]byte{}, good...)
				p := r.Intn(len(c))
				if r.Chance(2, 3) && len(c) > 120 {
					p = r.Intn(120)
				}
				c[p] ^= 1 << uint(r.Intn(8))
				read(c)
			}
			read(append(append([]byte{}, good...), 0, 0, 0))
		}
	}
	return cs
}

func init() {
	regGen("C03", genC03)
	regGen("C04", genC04)
	regGen("C05", genC05)
}

func bverList() []bver.Version { return []bver.Version{bver.VersionB1, bver.VersionB2} }
