package main

import (
	"bytes"
	"crypto/sha256"
	"encoding/base64"
	"strings"
	"encoding/binary"

	"github.com/WICG/webpackage/go/signedexchange/mice"
)

func sizesSx(ks ...int) Sx {
	out := []Sx{}
	for _, k := range ks {
		out = append(out, Zi(int64(k)))
	}
	return L(out...)
}

func draftSym(d int) Sx {
	if d == 0 {
		return Sym("d02")
	}
	return Sym("d03")
}

func miEncodeRef(d int, rs int, payload []byte) (out []byte, dgs string) {
	defer func() {
		if rec := recover(); rec != nil {
			out, dgs = nil, "encoder-panicked"
		}
	}()
	enc := mice.Draft03Encoding
	if d == 0 {
		enc = mice.Draft02Encoding
	}
	var buf bytes.Buffer
	dg, err := enc.Encode(&buf, payload, rs)
	if err != nil {
		return nil, "encoder-error"
	}
	return buf.Bytes(), dg
}

func genC14(r *Rng, tier string) []Case {
	cs := []Case{}
	// validate the Gallina SHA-256 / base64 against Go's (they execute the model)
	for _, n := range []int{0, 1, 3, 55, 56, 57, 63, 64, 65, 119, 120, 128, 1000} {
		cs = append(cs, Case{"sha256", []Sx{B(r.Bytes(n))}})
	}
	for i := 0; i < 300; i++ {
		var b []byte
		switch r.Intn(3) {
		case 0:
			b = r.Bytes(r.Intn(12))
		case 1:
			b = []byte(b64Enc(r.Bool(), r.Bool()).EncodeToString(r.Bytes(r.Intn(10))))
			if r.Chance(1, 3) && len(b) > 0 {
				p := r.Intn(len(b) + 1)
				b = append(append(append([]byte{}, b[:p]...), []byte{'\n', '\r', '=', 'A', ' ', '-', '/'}[r.Intn(7)]), b[p:]...)
			}
		default:
			al := []byte("AB+/-_=\n\r a9")
			n := r.Intn(8)
			b = make([]byte, n)
			for j := range b {
				b[j] = al[r.Intn(len(al))]
			}
		}
		cs = append(cs, Case{"b64", []Sx{Bool(r.Bool()), Bool(r.Bool()), B(b)}})
	}
	enc := func(d, rs int, payload []byte) {
		cs = append(cs, Case{"mi_enc", []Sx{draftSym(d), Zi(int64(rs)), B(payload)}})
		stream, dg := miEncodeRef(d, rs, payload)
		ks := [][]int{{1}, {7}, {rs}, {2*rs + 5}, {3, 1, 64}, {3, 0, 5}, {0, 1}, {2, 0, 0, 7}}
		k := ks[r.Intn(len(ks))]
		if len(stream) > 3000 {
			k = []int{rs}
		}
		cs = append(cs, Case{"mi_dec", []Sx{draftSym(d), B(stream), B([]byte(dg)), Zi(int64(16384)), sizesSx(k...), Sym([]string{"plain", "onebyte", "dataerr", "half"}[r.Intn(4)])}})
	}
	for d := 0; d < 2; d++ {
		for _, rs := range []int{1, 2, 3, 7, 16} {
			for n := 0; n <= 4*rs+1; n++ {
				enc(d, rs, r.Bytes(n))
			}
		}
		big := []int{255, 256, 4096, 16383, 16384}
		for _, rs := range big {
			lens := []int{0, 1, rs - 1, rs, rs + 1, 2 * rs}
			if tier == "thorough" {
				lens = append(lens, 2*rs+1, 3*rs-1, 3*rs, 5*rs+7)
			} else if rs >= 4096 {
				lens = []int{rs - 1, rs, rs + 1}
			}
			for _, n := range lens {
				enc(d, rs, r.Bytes(n))
			}
		}
		// a short final (or only) record of every length around 2^k and 2^k+32 (buffer-size classes
		// of a decoder: record, record + proof), under a larger record size and as the tail of a longer payload
		for k := 6; k <= 13; k++ {
			for _, dlt := range []int{-1, 0, 1, 31, 32, 33} {
				L := 1<<uint(k) + dlt
				rss := []int{16384, L + 1 + r.Intn(100)}
				if tier == "thorough" {
					rss = append(rss, L+1, 2*L, 9000)
				}
				for _, rs := range rss {
					if L < rs && rs <= 16384 {
						enc(d, rs, r.Bytes(L))
					}
				}
				if L+40 <= 16384 && (k <= 9 || tier == "thorough") {
					enc(d, L+40, r.Bytes(L+40+L))
				}
			}
		}
		n := 150
		if tier == "thorough" {
			n = 3000
		}
		for i := 0; i < n; i++ {
			rs := 1 + r.Intn(300)
			enc(d, rs, r.Bytes(r.Intn(4*rs+2)))
		}
	}
	// record sizes the encoder must refuse or survive: 0, negative, far above the payload
	for d := 0; d < 2; d++ {
		for _, rs := range []int64{0, -1, -16, 1 << 40, 1<<62 + 1, 1<<63 - 1} {
			for _, n := range []int{0, 1, 2, 17} {
				cs = append(cs, Case{"mi_enc", []Sx{draftSym(d), Zi(rs), B(r.Bytes(n))}})
			}
		}
	}
	return cs
}

func genC15(r *Rng, tier string) []Case {
	cs := []Case{}
	dec := func(d int, stream []byte, dg string, maxrs uint64, ks []int, rk string) {
		if r.Chance(1, 3) { // a caller that keeps reading after the error / end of stream
			cs = append(cs, Case{"mi_dec_retry", []Sx{draftSym(d), B(stream), B([]byte(dg)), Zu(maxrs), sizesSx(ks...), Zi(3)}})
			return
		}
		cs = append(cs, Case{"mi_dec", []Sx{draftSym(d), B(stream), B([]byte(dg)), Zu(maxrs), sizesSx(ks...), Sym(rk)}})
	}
	rks := []string{"plain", "onebyte", "dataerr", "half"}
	type cfg struct{ rs, n int }
	cfgs := []cfg{{1, 0}, {1, 1}, {1, 3}, {2, 4}, {2, 5}, {3, 7}, {7, 14}, {7, 20}, {16, 16}, {16, 33}, {16, 0}, {5, 5}}
	if tier == "thorough" {
		cfgs = append(cfgs, cfg{16, 64}, cfg{3, 12}, cfg{40, 100}, cfg{64, 128}, cfg{100, 250})
	}
	for d := 0; d < 2; d++ {
		for _, c := range cfgs {
			payload := r.Bytes(c.n)
			stream, dg := miEncodeRef(d, c.rs, payload)
			sz := [][]int{{1}, {7}, {c.rs}, {2*c.rs + 5}, {3, 0, 5}, {1, 0}}
			pick := func() []int { return sz[r.Intn(len(sz))] }
			dec(d, stream, dg, 16384, pick(), "plain")
			// every single-bit flip of the stream
			for i := 0; i < len(stream)*8; i++ {
				m := append([]byte{}, stream...)
				m[i/8] ^= 1 << uint(i%8)
				dec(d, m, dg, 16384, pick(), rks[r.Intn(4)])
			}
			// every truncation length
			for i := 0; i < len(stream); i++ {
				dec(d, stream[:i], dg, 16384, pick(), rks[r.Intn(4)])
			}
			// ... and the source failing (not with EOF) after every prefix, the complete stream included
			for i := 0; i <= len(stream); i++ {
				cs = append(cs, Case{"mi_dec", []Sx{draftSym(d), B(stream[:i]), B([]byte(dg)), Zu(16384), sizesSx(pick()...), Sym("ioerr")}})
			}
			// appended suffixes
			for _, k := range []int{1, c.rs, c.rs + 31, c.rs + 32, c.rs + 33} {
				dec(d, append(append([]byte{}, stream...), r.Bytes(k)...), dg, 16384, pick(), "plain")
				dec(d, append(append([]byte{}, stream...), make([]byte, k)...), dg, 16384, pick(), "plain")
			}
			// record swaps / duplications: treat the body as units of rs+32
			if len(stream) > 8+2*(c.rs+32) {
				u := c.rs + 32
				m := append([]byte{}, stream...)
				copy(m[8:8+u], stream[8+u:8+2*u])
				copy(m[8+u:8+2*u], stream[8:8+u])
				dec(d, m, dg, 16384, pick(), "plain")
				m2 := append(append([]byte{}, stream[:8+u]...), stream[8:]...)
				dec(d, m2, dg, 16384, pick(), "plain")
				m3 := append(append([]byte{}, stream[:8]...), stream[8+u:]...)
				dec(d, m3, dg, 16384, pick(), "plain")
			}
			// record-size field edits, limit edits
			if len(stream) >= 8 {
				for _, v := range []uint64{0, 1, uint64(c.rs) - 1, uint64(c.rs) + 1, uint64(c.rs) * 2, 16384, 16385, 1 << 32, 1 << 63, 1<<64 - 1} {
					m := append([]byte{}, stream...)
					binary.BigEndian.PutUint64(m, v)
					dec(d, m, dg, 16384, pick(), "plain")
				}
				for _, lim := range []uint64{0, uint64(c.rs) - 1, uint64(c.rs), uint64(c.rs) + 1} {
					dec(d, stream, dg, lim, pick(), "plain")
				}
			}
			// digest-header edits
			for i := 0; i < len(dg); i++ {
				m := []byte(dg)
				m[i] ^= 1 << uint(r.Intn(7))
				dec(d, stream, string(m), 16384, pick(), "plain")
			}
			dec(d, stream, dg+"=", 16384, pick(), "plain")
			dec(d, stream, dg+"\n", 16384, pick(), "plain")
			dec(d, stream, dg[:len(dg)-1], 16384, pick(), "plain")
			dec(1-d, stream, dg, 16384, pick(), "plain")
			// round 16: streams in the OTHER draft's layout under this draft's algorithm name and base64 alphabet
			// (k full records closed by an authenticated empty final record is draft-02 only)
			if c.n > 0 && c.n%c.rs == 0 {
				k := c.n / c.rs
				proof := sha256.Sum256([]byte{0})
				body := []byte{}
				for i := k - 1; i >= 0; i-- {
					rec := payload[i*c.rs : (i+1)*c.rs]
					body = append(append(append([]byte{}, rec...), proof[:]...), body...)
					proof = sha256.Sum256(append(append(append([]byte{}, rec...), proof[:]...), 1))
				}
				crafted := make([]byte, 8)
				binary.BigEndian.PutUint64(crafted, uint64(c.rs))
				crafted = append(crafted, body...)
				cdg := []string{"mi-sha256-draft2=" + base64.RawURLEncoding.EncodeToString(proof[:]), "mi-sha256-03=" + base64.StdEncoding.EncodeToString(proof[:])}[d]
				dec(d, crafted, cdg, 16384, pick(), "plain")
				dec(d, crafted[:len(crafted)-32], cdg, 16384, pick(), "plain")
				dec(d, crafted, cdg, 16384, []int{c.rs}, "onebyte")
			}
			// digest header values with no "=", nothing after it, nothing before it, the bare algorithm name
			alg := []string{"mi-sha256-draft2", "mi-sha256-03"}[d]
			for _, v := range []string{alg, alg + "=", "=", "", "=" + dg, alg + "==", strings.ToUpper(alg) + dg[len(alg):], alg[:len(alg)-1], alg + " " + dg[len(alg):], " " + dg, dg + " ", "sha-256" + dg[len(alg):], alg + ";" + dg[len(alg)+1:]} {
				dec(d, stream, v, 16384, pick(), "plain")
			}
		}
		// what NewDecoder takes from a plain source: honest streams, refused record sizes, short and bad headers
		for i := 0; i < 12; i++ {
			rs := []int{1, 16, 300, 5000}[r.Intn(4)]
			stream, dg := miEncodeRef(d, rs, r.Bytes(300+r.Intn(5000)))
			if len(stream) < 8 {
				continue
			}
			for _, v := range []uint64{uint64(rs), 0, 16385, 1 << 40, 1<<64 - 1} {
				m := append([]byte{}, stream...)
				binary.BigEndian.PutUint64(m, v)
				cs = append(cs, Case{"mi_new_consumed", []Sx{draftSym(d), B(m), B([]byte(dg)), Zu(16384)}})
			}
			cs = append(cs, Case{"mi_new_consumed", []Sx{draftSym(d), B(stream[:r.Intn(8)]), B([]byte(dg)), Zu(16384)}})
			cs = append(cs, Case{"mi_new_consumed", []Sx{draftSym(d), B(stream), B([]byte("garbage")), Zu(16384)}})
			cs = append(cs, Case{"mi_new_consumed", []Sx{draftSym(d), B(stream), B([]byte(dg)), Zu(uint64(rs) - 1)}})
		}
		// two decoders alive at the same time (hidden shared state would show here)
		for i := 0; i < 40; i++ {
			rs := []int{1, 7, 16, 64}[r.Intn(4)]
			pa := bytes.Repeat([]byte{'A'}, 1+r.Intn(3*rs+40))
			pb := bytes.Repeat([]byte{'B'}, 1+r.Intn(3*rs+40))
			sa, da := miEncodeRef(d, rs, pa)
			sb, db := miEncodeRef(d, rs, pb)
			k := 1 + r.Intn(rs+3)
			cs = append(cs, Case{"mi_interleave", []Sx{draftSym(d), B(sa), B([]byte(da)), B(sb), B([]byte(db)), Zi(int64(k))}})
		}
		// a junk record in front of an honest stream; the empty payload's digest with junk
		for i := 0; i < 20; i++ {
			rs := 1 + r.Intn(9)
			stream, dg := miEncodeRef(d, rs, r.Bytes(r.Intn(4*rs)))
			if len(stream) >= 8 {
				m := append(append(append([]byte{}, stream[:8]...), r.Bytes(rs+32)...), stream[8:]...)
				cs = append(cs, Case{"mi_dec_retry", []Sx{draftSym(d), B(m), B([]byte(dg)), Zu(16384), sizesSx(1 + r.Intn(2*rs)), Zi(4)}})
			}
			_, edg := miEncodeRef(d, rs, nil)
			m := append(make([]byte, 7), byte(rs))
			m = append(m, r.Bytes(r.Intn(rs+1))...)
			cs = append(cs, Case{"mi_dec_retry", []Sx{draftSym(d), B(m), B([]byte(edg)), Zu(16384), sizesSx(3), Zi(4)}})
		}
		// arbitrary streams against arbitrary digests
		n := 300
		if tier == "thorough" {
			n = 5000
		}
		for i := 0; i < n; i++ {
			_, dg := miEncodeRef(d, 1+r.Intn(8), r.Bytes(r.Intn(20)))
			stream := r.Bytes(r.Intn(80))
			if len(stream) >= 8 && r.Chance(3, 4) {
				binary.BigEndian.PutUint64(stream, uint64(1+r.Intn(10)))
			}
			dec(d, stream, dg, 16384, []int{1 + r.Intn(9)}, rks[r.Intn(4)])
		}
	}
	return cs
}

func init() {
	regGen("C14", genC14)
	regGen("C15", genC15)
}
