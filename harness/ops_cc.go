package main

import (
	"bytes"
	"crypto/x509"

	"github.com/WICG/webpackage/go/signedexchange/certurl"
)

func optB(s Sx) []byte {
	if s.K == 1 {
		if s.B == nil {
			return []byte{}
		}
		return s.B
	}
	return nil
}

func optSx(b []byte) Sx {
	if b == nil {
		return L()
	}
	return B(b)
}

func init() {
	regOp("cc_write", func(a []Sx) Sx {
		chain := certurl.CertChain{}
		byText := map[string]*certurl.AugmentedCertificate{} // equal items are ONE object placed several times
		for _, it := range a {
			if ac, ok := byText[it.String()]; ok {
				chain = append(chain, ac)
				continue
			}
			ac := &certurl.AugmentedCertificate{Cert: &x509.Certificate{Raw: it.L[0].B}, OCSPResponse: optB(it.L[1]), SCTList: optB(it.L[2])}
			byText[it.String()] = ac
			chain = append(chain, ac)
		}
		var first, buf bytes.Buffer
		err0 := chain.Write(&first) // written twice: both writes must agree
		err := chain.Write(&buf)
		if (err0 == nil) != (err == nil) || (err == nil && !bytes.Equal(first.Bytes(), buf.Bytes())) {
			return L(Sym("second_write_differs"))
		}
		if err != nil {
			return ErrV()
		}
		return OkV(B(buf.Bytes()))
	})
	// one chain object written, edited in place (a blob replaced by other bytes of the SAME length, as an
	// OCSP refresh does), written again: args (items) idx field
	regOp("cc_write_history", func(a []Sx) Sx {
		chain := certurl.CertChain{}
		for _, it := range a[0].L {
			chain = append(chain, augOf(it))
		}
		out := []Sx{}
		for step := 0; step < 2; step++ {
			var buf bytes.Buffer
			err := chain.Write(&buf)
			out = append(out, bytesR(buf.Bytes(), err))
			if step == 0 {
				if i := a[1].Int(); i < len(chain) {
					flip := func(b []byte) []byte {
						c := append([]byte{}, b...)
						for k := range c {
							c[k] ^= 0xff
						}
						return c
					}
					if a[2].IsSym("ocsp") && chain[i].OCSPResponse != nil {
						chain[i].OCSPResponse = flip(chain[i].OCSPResponse)
					} else if a[2].IsSym("sct") && chain[i].SCTList != nil {
						chain[i].SCTList = flip(chain[i].SCTList)
					}
				}
			}
		}
		return L(out...)
	})
	regOp("cc_read", func(a []Sx) Sx {
		src0, spoil0 := ownedSrc(a[0].B) // read, vandalise the result, read again
		if c0, err0 := certurl.ReadCertChain(src0); err0 == nil {
			for _, ac := range c0 {
				if ac != nil {
					scribble(ac.OCSPResponse)
					scribble(ac.SCTList)
					if ac.Cert != nil {
						scribble(ac.Cert.Raw)
					}
				}
			}
		}
		spoil0()
		src, spoil := ownedSrc(a[0].B)
		chain, err := certurl.ReadCertChain(src)
		spoil()
		if err != nil {
			return ErrV()
		}
		out := []Sx{}
		for _, ac := range chain {
			out = append(out, L(B(ac.Cert.Raw), optSx(ac.OCSPResponse), optSx(ac.SCTList)))
		}
		return OkV(L(out...))
	})
	regOp("sct_list", func(a []Sx) Sx {
		l := [][]byte{}
		for _, s := range a {
			l = append(l, s.B)
		}
		b, err := certurl.SerializeSCTList(l)
		if err != nil {
			return ErrV()
		}
		return OkV(B(b))
	})
}
