package main

import (
	"bytes"
	"encoding/hex"
	"fmt"
	"io"
	"math/big"
	"strings"
)

// Sx is the s-expression of the line protocol: integer, byte string or list.
type Sx struct {
	K int // 0 int, 1 bytes, 2 list
	Z *big.Int
	B []byte
	L []Sx
}

func Zi(i int64) Sx    { return Sx{K: 0, Z: big.NewInt(i)} }
func Zu(u uint64) Sx   { return Sx{K: 0, Z: new(big.Int).SetUint64(u)} }
func Zb(b *big.Int) Sx { return Sx{K: 0, Z: b} }
func B(b []byte) Sx    { return Sx{K: 1, B: append([]byte{}, b...)} }
func Sym(s string) Sx  { return Sx{K: 1, B: []byte(s)} }
func L(items ...Sx) Sx { return Sx{K: 2, L: items} }
func Bool(b bool) Sx {
	if b {
		return Zi(1)
	}
	return Zi(0)
}
func OkV(v Sx) Sx { return L(Sym("ok"), v) }
func ErrV() Sx    { return L(Sym("err")) }

func isWordStart(c byte) bool { return (c >= 'a' && c <= 'z' && c != 'x') || c == '_' }
func isWordChar(c byte) bool {
	return (c >= 'a' && c <= 'z') || (c >= '0' && c <= '9') || c == '_'
}

func (s Sx) write(sb *strings.Builder) {
	switch s.K {
	case 0:
		sb.WriteString(s.Z.String())
	case 1:
		wordy := len(s.B) > 0 && isWordStart(s.B[0])
		if wordy {
			for _, c := range s.B {
				if !isWordChar(c) {
					wordy = false
					break
				}
			}
		}
		if wordy {
			sb.Write(s.B)
		} else {
			sb.WriteByte('x')
			sb.WriteString(hex.EncodeToString(s.B))
		}
	default:
		sb.WriteByte('(')
		for i, x := range s.L {
			if i > 0 {
				sb.WriteByte(' ')
			}
			x.write(sb)
		}
		sb.WriteByte(')')
	}
}

func (s Sx) String() string {
	var sb strings.Builder
	s.write(&sb)
	return sb.String()
}

type sxParser struct {
	s   string
	pos int
}

func (p *sxParser) skip() {
	for p.pos < len(p.s) && p.s[p.pos] == ' ' {
		p.pos++
	}
}

func (p *sxParser) item() (Sx, error) {
	p.skip()
	if p.pos >= len(p.s) {
		return Sx{}, fmt.Errorf("eof")
	}
	if p.s[p.pos] == '(' {
		p.pos++
		items := []Sx{}
		for {
			p.skip()
			if p.pos >= len(p.s) {
				return Sx{}, fmt.Errorf("unclosed")
			}
			if p.s[p.pos] == ')' {
				p.pos++
				return Sx{K: 2, L: items}, nil
			}
			it, err := p.item()
			if err != nil {
				return Sx{}, err
			}
			items = append(items, it)
		}
	}
	st := p.pos
	for p.pos < len(p.s) && p.s[p.pos] != ' ' && p.s[p.pos] != '(' && p.s[p.pos] != ')' {
		p.pos++
	}
	tok := p.s[st:p.pos]
	if tok == "" {
		return Sx{}, fmt.Errorf("empty token")
	}
	c := tok[0]
	switch {
	case c == 'x':
		b, err := hex.DecodeString(tok[1:])
		if err != nil {
			return Sx{}, err
		}
		return Sx{K: 1, B: b}, nil
	case c == '-' || (c >= '0' && c <= '9'):
		z, ok := new(big.Int).SetString(tok, 10)
		if !ok {
			return Sx{}, fmt.Errorf("bad number %q", tok)
		}
		return Sx{K: 0, Z: z}, nil
	default:
		return Sx{K: 1, B: []byte(tok)}, nil
	}
}

func ParseSx(s string) (Sx, error) {
	p := &sxParser{s: s}
	it, err := p.item()
	if err != nil {
		return Sx{}, err
	}
	p.skip()
	if p.pos != len(p.s) {
		return Sx{}, fmt.Errorf("trailing garbage")
	}
	return it, nil
}

func (s Sx) IsSym(name string) bool { return s.K == 1 && string(s.B) == name }
func (s Sx) U64() uint64            { return s.Z.Uint64() }
func (s Sx) I64() int64             { return s.Z.Int64() }
func (s Sx) Int() int               { return int(s.Z.Int64()) }

// ownedSrc hands a parser its input the way a caller that recycles its transport buffer does: through a
// *bytes.Reader or a *bytes.Buffer over a private copy. spoil() overwrites that copy, spare capacity
// included (the caller reuses its buffer); whatever was parsed must still be what was read.
func ownedSrc(data []byte) (io.Reader, func()) {
	own := append(make([]byte, 0, len(data)+16), data...)
	spoil := func() {
		full := own[:cap(own)]
		for i := range full {
			full[i] ^= 0xff
		}
	}
	h := len(data)
	for i := 0; i < len(data) && i < 64; i++ {
		h = h*31 + int(data[i])
	}
	if h%2 == 0 {
		return bytes.NewReader(own), spoil
	}
	return bytes.NewBuffer(own), spoil
}
