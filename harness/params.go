package main

// Translator: reads named constants, tables and literal-returning functions of
// the Go sources with go/parser and emits coq/Generated/Params.v.  The lemmas
// of coq/Proofs/ParamsMatch.v compare every emitted value with the constant
// the model uses, so a changed constant in /repo breaks a proof obligation.

import (
	"fmt"
	"go/ast"
	"go/parser"
	"go/token"
	"os"
	"path/filepath"
	"sort"
	"strconv"
	"strings"
)

type paramOut struct {
	lines []string
	errs  []string
	notes []string
}

func (p *paramOut) emitBytes(name string, b []byte) {
	parts := []string{}
	for _, c := range b {
		parts = append(parts, strconv.Itoa(int(c)))
	}
	p.lines = append(p.lines, fmt.Sprintf("Definition %s : list N := [%s].", name, strings.Join(parts, "; ")))
}

func (p *paramOut) emitStrings(name string, ss []string) {
	items := []string{}
	for _, s := range ss {
		parts := []string{}
		for _, c := range []byte(s) {
			parts = append(parts, strconv.Itoa(int(c)))
		}
		items = append(items, "["+strings.Join(parts, "; ")+"]")
	}
	p.lines = append(p.lines, fmt.Sprintf("Definition %s : list (list N) := [%s].", name, strings.Join(items, ";\n  ")))
}

func (p *paramOut) emitInts(name string, vs []int64) {
	parts := []string{}
	for _, v := range vs {
		parts = append(parts, strconv.FormatInt(v, 10))
	}
	p.lines = append(p.lines, fmt.Sprintf("Definition %s : list Z := [%s]%%Z.", name, strings.Join(parts, "; ")))
}

func (p *paramOut) emitInt(name string, v int64) {
	p.lines = append(p.lines, fmt.Sprintf("Definition %s : N := %d.", name, v))
}

func (p *paramOut) emitBool(name string, v bool) {
	p.lines = append(p.lines, fmt.Sprintf("Definition %s : bool := %v.", name, v))
}

func parseFile(path string) *ast.File {
	f, err := parser.ParseFile(token.NewFileSet(), path, nil, 0)
	if err != nil {
		return nil
	}
	return f
}

// constant integer expressions: literals, *, <<, parentheses
func evalInt(e ast.Expr) (int64, bool) {
	switch v := e.(type) {
	case *ast.BasicLit:
		if v.Kind == token.INT {
			n, err := strconv.ParseInt(v.Value, 0, 64)
			return n, err == nil
		}
	case *ast.ParenExpr:
		return evalInt(v.X)
	case *ast.BinaryExpr:
		a, ok1 := evalInt(v.X)
		b, ok2 := evalInt(v.Y)
		if ok1 && ok2 {
			switch v.Op {
			case token.MUL:
				return a * b, true
			case token.SHL:
				return a << uint(b), true
			case token.ADD:
				return a + b, true
			case token.SUB:
				return a - b, true
			}
		}
	}
	return 0, false
}

func strLit(e ast.Expr) (string, bool) {
	if b, ok := e.(*ast.BasicLit); ok && b.Kind == token.STRING {
		s, err := strconv.Unquote(b.Value)
		return s, err == nil
	}
	return "", false
}

// value specs (const/var) anywhere in the file, including inside functions
func findValueIn(f *ast.File, name string) ast.Expr {
	var found ast.Expr
	if f == nil || f.Name == nil {
		return nil
	}
	ast.Inspect(f, func(n ast.Node) bool {
		switch v := n.(type) {
		case *ast.ValueSpec:
			for i, id := range v.Names {
				if id.Name == name && i < len(v.Values) {
					found = v.Values[i]
				}
			}
		case *ast.AssignStmt:
			if v.Tok == token.DEFINE {
				for i, l := range v.Lhs {
					if id, ok := l.(*ast.Ident); ok && id.Name == name && i < len(v.Rhs) {
						found = v.Rhs[i]
					}
				}
			}
		}
		return true
	})
	return found
}

// []byte{...} composite literal -> bytes; reports whether it IS a composite literal
func byteLit(e ast.Expr) ([]byte, bool) {
	cl, ok := e.(*ast.CompositeLit)
	if !ok {
		return nil, false
	}
	out := []byte{}
	for _, el := range cl.Elts {
		v, ok := evalInt(el)
		if !ok {
			return nil, false
		}
		out = append(out, byte(v))
	}
	return out, true
}

func stringsLit(e ast.Expr) ([]string, bool) {
	cl, ok := e.(*ast.CompositeLit)
	if !ok {
		return nil, false
	}
	out := []string{}
	for _, el := range cl.Elts {
		s, ok := strLit(el)
		if !ok {
			return nil, false
		}
		out = append(out, s)
	}
	return out, true
}

func intsLit(e ast.Expr) ([]int64, bool) {
	cl, ok := e.(*ast.CompositeLit)
	if !ok {
		return nil, false
	}
	out := []int64{}
	for _, el := range cl.Elts {
		v, ok := evalInt(el)
		if !ok {
			return nil, false
		}
		out = append(out, v)
	}
	return out, true
}

// all string literals returned (directly or through []byte("...")) by a function, in source order
func returnedStringsIn(f *ast.File, fn string) []string {
	out := []string{}
	if f == nil {
		return out
	}
	for _, d := range f.Decls {
		fd, ok := d.(*ast.FuncDecl)
		if !ok || fd.Name.Name != fn || fd.Body == nil {
			continue
		}
		ast.Inspect(fd.Body, func(n ast.Node) bool {
			r, ok := n.(*ast.ReturnStmt)
			if !ok {
				return true
			}
			for _, res := range r.Results {
				if s, ok := strLit(res); ok {
					out = append(out, s)
				} else if c, ok := res.(*ast.CallExpr); ok && len(c.Args) == 1 {
					if s, ok := strLit(c.Args[0]); ok {
						out = append(out, s)
					}
				}
			}
			return true
		})
	}
	return out
}

// the other non-test Go files of the directory of rel (a declaration may have moved to a sibling file)
func siblingFiles(repo, rel string) []*ast.File {
	dir := filepath.Dir(filepath.Join(repo, rel))
	out := []*ast.File{}
	ents, _ := os.ReadDir(dir)
	for _, e := range ents {
		n := e.Name()
		if e.IsDir() || !strings.HasSuffix(n, ".go") || strings.HasSuffix(n, "_test.go") || n == filepath.Base(rel) {
			continue
		}
		if f := parseFile(filepath.Join(dir, n)); f != nil {
			out = append(out, f)
		}
	}
	return out
}

func cmdParams(args []string) {
	repo := "/repo"
	if len(args) > 0 {
		repo = args[0]
	}
	p := &paramOut{}
	curRel := ""
	// findValue / returnedStrings in the named file, then in its siblings of the same package
	findValue := func(f *ast.File, name string) ast.Expr {
		if e := findValueIn(f, name); e != nil {
			return e
		}
		for _, g := range siblingFiles(repo, curRel) {
			if e := findValueIn(g, name); e != nil {
				return e
			}
		}
		return nil
	}
	returnedStrings := func(f *ast.File, fn string) []string {
		if ss := returnedStringsIn(f, fn); len(ss) > 0 {
			return ss
		}
		for _, g := range siblingFiles(repo, curRel) {
			if ss := returnedStringsIn(g, fn); len(ss) > 0 {
				return ss
			}
		}
		return nil
	}
	file := func(rel string) *ast.File {
		curRel = rel
		f := parseFile(filepath.Join(repo, rel))
		if f == nil {
			// the file was renamed or split up: look the declarations up in the rest of its package
			p.notes = append(p.notes, rel+" not found; declarations looked up in the other files of its directory")
			f = &ast.File{}
		}
		return f
	}
	bytesOf := func(f *ast.File, rel, name, coq string) {
		if f == nil {
			return
		}
		e := findValue(f, name)
		b, lit := byteLit(e)
		if e == nil || !lit {
			if d, ok := dynBytes(repo, coq); ok {
				p.notes = append(p.notes, fmt.Sprintf("%s: %s taken from the running code (source pattern not found)", rel, name))
				p.emitBytes(coq, d)
				return
			}
			p.errs = append(p.errs, fmt.Sprintf("%s: %s is not a []byte composite literal (cap = len is what makes append allocate)", rel, name))
			return
		}
		p.emitBytes(coq, b)
	}
	intOf := func(f *ast.File, rel, name, coq string) {
		if f == nil {
			return
		}
		v, ok := evalInt(findValue(f, name))
		if !ok {
			if d, ok := dynInt(repo, coq); ok {
				p.notes = append(p.notes, fmt.Sprintf("%s: %s taken from the running code (source pattern not found)", rel, name))
				p.emitInt(coq, d)
				return
			}
			p.errs = append(p.errs, fmt.Sprintf("%s: %s is not an integer constant", rel, name))
			return
		}
		p.emitInt(coq, v)
	}
	strOf := func(f *ast.File, rel, name, coq string) {
		if f == nil {
			return
		}
		s, ok := strLit(findValue(f, name))
		if !ok {
			if d, ok := dynBytes(repo, coq); ok {
				p.notes = append(p.notes, fmt.Sprintf("%s: %s taken from the running code (source pattern not found)", rel, name))
				p.emitBytes(coq, d)
				return
			}
			// typed constant: Encoding = "..."
			p.errs = append(p.errs, fmt.Sprintf("%s: %s is not a string constant", rel, name))
			return
		}
		p.emitBytes(coq, []byte(s))
	}
	stringsOf := func(f *ast.File, rel, name, coq string) {
		if f == nil {
			return
		}
		ss, ok := stringsLit(findValue(f, name))
		if !ok {
			if d, ok := dynStrings(repo, coq); ok {
				p.notes = append(p.notes, fmt.Sprintf("%s: %s taken from the running code (source pattern not found)", rel, name))
				p.emitStrings(coq, sortedUnique(d))
				return
			}
			p.errs = append(p.errs, fmt.Sprintf("%s: %s is not a []string literal", rel, name))
			return
		}
		p.emitStrings(coq, sortedUnique(ss)) // a set: compared with the model's list sorted
	}
	retOf := func(f *ast.File, rel, fn, coq string) {
		if f == nil {
			return
		}
		ss := returnedStrings(f, fn)
		if len(ss) == 0 {
			if d, ok := dynStrings(repo, coq); ok {
				p.notes = append(p.notes, fmt.Sprintf("%s: %s taken from the running code (source pattern not found)", rel, fn))
				p.emitStrings(coq, d)
				return
			}
			p.errs = append(p.errs, fmt.Sprintf("%s: no literal returns in %s", rel, fn))
			return
		}
		p.emitStrings(coq, ss)
	}

	rel := "go/bundle/version/version.go"
	f := file(rel)
	bytesOf(f, rel, "HeaderMagicBytesB1", "p_bundle_hdr_magic_b1")
	bytesOf(f, rel, "HeaderMagicBytesB2", "p_bundle_hdr_magic_b2")
	bytesOf(f, rel, "VersionMagicBytesB1", "p_bundle_ver_magic_b1")
	bytesOf(f, rel, "VersionMagicBytesB2", "p_bundle_ver_magic_b2")
	retOf(f, rel, "SignatureContextString", "p_bundle_sig_context")

	rel = "go/bundle/encoder.go"
	f = file(rel)
	intOf(f, rel, "maxNumVariantsForSingleURL", "p_max_variants")

	rel = "go/bundle/signature/verifier.go"
	f = file(rel)
	intOf(f, rel, "maxMIRecordSize", "p_bsig_max_mi_record_size")

	rel = "go/integrityblock/integrityblock.go"
	f = file(rel)
	bytesOf(f, rel, "IntegrityBlockMagic", "p_ib_magic")
	bytesOf(f, rel, "VersionB1", "p_ib_version_b1")
	strOf(f, rel, "Ed25519publicKeyAttributeName", "p_ib_pk_attr_name")

	rel = "go/integrityblock/webbundleid/web-bundle-id.go"
	f = file(rel)
	bytesOf(f, rel, "webBundleIdSuffix", "p_web_bundle_id_suffix")

	rel = "go/signedexchange/stateful_headers.go"
	f = file(rel)
	stringsOf(f, rel, "statefulRequestHeaders", "p_stateful_request_headers")
	stringsOf(f, rel, "uncachedHeaders", "p_uncached_headers")

	rel = "go/signedexchange/verifier.go"
	f = file(rel)
	intOf(f, rel, "maxMIRecordSize", "p_sxg_max_mi_record_size")
	if f != nil {
		vs, ok := intsLit(findValue(f, "CacheableStatusCodes"))
		if !ok {
			if vs, ok = dynInts(repo, "p_cacheable_status_codes"); ok {
				p.notes = append(p.notes, rel+": CacheableStatusCodes taken from the running code (source pattern not found)")
			}
		}
		if !ok {
			p.errs = append(p.errs, rel+": CacheableStatusCodes is not an []int literal")
		} else {
			sorted := sort.SliceIsSorted(vs, func(i, j int) bool { return vs[i] < vs[j] })
			p.emitInts("p_cacheable_status_codes", vs)
			p.emitBool("p_cacheable_status_codes_sorted", sorted) // sort.SearchInts needs it
		}
	}

	rel = "go/signedexchange/signedexchange.go"
	f = file(rel)
	intOf(f, rel, "maxSignatureHeaderValueLen", "p_max_signature_header_len")
	intOf(f, rel, "maxHeaderLen", "p_max_header_len")

	rel = "go/signedexchange/signer.go"
	f = file(rel)
	retOf(f, rel, "contextString", "p_sxg_context_strings")

	rel = "go/signedexchange/version/version.go"
	f = file(rel)
	retOf(f, rel, "HeaderMagicBytes", "p_sxg_header_magic")
	intOf(f, rel, "HeaderMagicBytesLen", "p_sxg_header_magic_len")

	rel = "go/signedexchange/mice/mice.go"
	f = file(rel)
	strOf(f, rel, "Draft02Encoding", "p_mi_draft02")
	strOf(f, rel, "Draft03Encoding", "p_mi_draft03")
	retOf(f, rel, "DigestHeaderName", "p_mi_digest_header_names")
	retOf(f, rel, "IntegrityIdentifier", "p_mi_integrity_identifiers")

	rel = "go/signedexchange/certurl/certchain.go"
	f = file(rel)
	strOf(f, rel, "magicString", "p_cc_magic")

	rel = "go/signedexchange/certurl/sct.go"
	f = file(rel)
	intOf(f, rel, "maxSerializedSCTLength", "p_max_sct_length")

	fmt.Println("(* GENERATED by `harness params` from the Go sources of the working tree on every run. DO NOT EDIT. *)")
	fmt.Println("From Coq Require Import List NArith ZArith.")
	fmt.Println("Import ListNotations.")
	fmt.Println("Open Scope N_scope.")
	for _, l := range p.lines {
		fmt.Println(l)
	}
	ok := len(p.errs) == 0
	fmt.Printf("Definition p_translator_complete : bool := %v.\n", ok)
	for _, e := range p.notes {
		fmt.Println("(* translator note: " + strings.ReplaceAll(e, "*)", "* )") + " *)")
		fmt.Fprintln(os.Stderr, "params note:", e)
	}
	for _, e := range p.errs {
		fmt.Println("(* translator: " + strings.ReplaceAll(e, "*)", "* )") + " *)")
		fmt.Fprintln(os.Stderr, "params:", e)
	}
}
