package main

import (
	"bytes"
	"encoding/binary"
	"math"
)

var u64Edges = func() []uint64 {
	out := []uint64{0, 1, 2}
	for _, b := range []uint64{24, 1 << 8, 1 << 16, 1 << 24, 1 << 32, 1 << 62, 1 << 63} {
		for d := -2; d <= 2; d++ {
			out = append(out, b+uint64(d))
		}
	}
	out = append(out, math.MaxUint64-2, math.MaxUint64-1, math.MaxUint64)
	return out
}()

func it(tag string, a Sx) Sx { return L(Sym(tag), a) }

func asciiBytes(r *Rng, n int) []byte {
	b := make([]byte, n)
	for i := range b {
		b[i] = byte(32 + r.Intn(95))
	}
	return b
}

var strLens = []int{0, 1, 2, 22, 23, 24, 25, 254, 255, 256, 257, 65534, 65535, 65536, 65537}

func randUtf8(r *Rng, n int) []byte {
	out := []byte{}
	for i := 0; i < n; i++ {
		var c rune
		switch r.Intn(4) {
		case 0:
			c = rune(r.Intn(0x80))
		case 1:
			c = rune(0x80 + r.Intn(0x800-0x80))
		case 2:
			c = rune(0x800 + r.Intn(0x10000-0x800))
			if c >= 0xD800 && c <= 0xDFFF {
				c = 0xE000
			}
		default:
			c = rune(0x10000 + r.Intn(0x110000-0x10000))
		}
		out = append(out, []byte(string(c))...)
	}
	return out
}

// random encoder item (depth-bounded)
func randItem(r *Rng, depth int) Sx {
	k := r.Intn(10)
	if depth <= 0 && k >= 8 {
		k = r.Intn(8)
	}
	switch k {
	case 0:
		return it("u", Zu(u64Edges[r.Intn(len(u64Edges))]))
	case 1:
		return it("u", Zu(r.U64()>>uint(r.Intn(64))))
	case 2:
		v := int64(r.U64() >> uint(r.Intn(64)))
		if r.Bool() {
			v = -v - 1
		}
		return it("i", Zi(v))
	case 3:
		return it("b", B(r.Bytes(r.Intn(40))))
	case 4:
		if r.Chance(1, 6) {
			return it("t", B(r.Bytes(1+r.Intn(4)))) // mostly invalid UTF-8
		}
		return it("t", B(randUtf8(r, r.Intn(12))))
	case 5:
		return it("a", Zi(int64(r.Intn(30))))
	case 6:
		return it("o", Bool(r.Bool()))
	case 7:
		return it("b", B(r.Bytes(strLens[r.Intn(11)])))
	default:
		return randMap(r, depth-1, r.Intn(6))
	}
}

func randKey(r *Rng) []Sx {
	if r.Chance(1, 14) { // a key callback that writes nothing
		return []Sx{}
	}
	switch r.Intn(7) {
	case 5: // keys that agree in their first 8, 9, 16 encoded bytes (word-at-a-time comparators)
		fam := []string{"accept-encoding", "accept-language", "accept-datetime", "accept-charset", "abcdefg1", "abcdefg2", "abcdefgh1", "abcdefgh2", "abcdefghi",
			"0123456789abcdeX", "0123456789abcdeY", "0123456789abcdefX", "0123456789abcdefY", "abcdefg", "abcdefgh"}
		return []Sx{it("t", B([]byte(fam[r.Intn(len(fam))])))}
	case 6:
		fam := [][]byte{{1, 2, 3, 4, 5, 6, 7, 8}, {1, 2, 3, 4, 5, 6, 7, 9}, {1, 2, 3, 4, 5, 6, 7, 8, 0}, {1, 2, 3, 4, 5, 6, 7, 8, 1}, {1, 2, 3, 4, 5, 6, 7}, {1, 2, 3, 4, 5, 6, 7, 8, 9, 10, 11, 12, 13, 14, 15, 16, 0}, {1, 2, 3, 4, 5, 6, 7, 8, 9, 10, 11, 12, 13, 14, 15, 16, 1}}
		return []Sx{it("b", B(fam[r.Intn(len(fam))]))}
	case 0:
		return []Sx{it("u", Zu(uint64(r.Intn(40))))}
	case 1:
		return []Sx{it("u", Zu(u64Edges[r.Intn(len(u64Edges))]))}
	case 2:
		return []Sx{it("t", B(asciiBytes(r, r.Intn(4))))}
	case 3:
		return []Sx{it("b", B(r.Bytes(r.Intn(3))))}
	default:
		return []Sx{it("t", B(asciiBytes(r, []int{1, 23, 24, 255, 256}[r.Intn(5)])))}
	}
}

func randMap(r *Rng, depth int, n int) Sx {
	ents := []Sx{}
	for i := 0; i < n; i++ {
		k := randKey(r)
		nv := 1
		if r.Chance(1, 8) {
			nv = r.Intn(3)
		}
		v := []Sx{}
		for j := 0; j < nv; j++ {
			v = append(v, randItem(r, depth))
		}
		if r.Chance(1, 16) { // the same entry object twice
			ents = append(ents, L(L(k...), L(v...), Sym("twice")))
		} else {
			ents = append(ents, L(L(k...), L(v...)))
		}
		if r.Chance(1, 10) && len(ents) > 0 { // duplicate key
			ents = append(ents, L(L(k...), L(it("u", Zi(7)))))
		}
	}
	return it("m", L(ents...))
}

func permutations(n int) [][]int {
	if n == 0 {
		return [][]int{{}}
	}
	out := [][]int{}
	for _, p := range permutations(n - 1) {
		for pos := 0; pos <= len(p); pos++ {
			q := append(append(append([]int{}, p[:pos]...), n-1), p[pos:]...)
			out = append(out, q)
		}
	}
	return out
}

func genC11(r *Rng, tier string) []Case {
	cs := []Case{}
	// programs that go on after a refused call (invalid UTF-8 text, duplicate map keys) on the same encoder
	for i := 0; i < 120; i++ {
		items := []Sx{}
		for j := 2 + r.Intn(5); j > 0; j-- {
			switch r.Intn(4) {
			case 0:
				items = append(items, it("t", B(r.Bytes(1+r.Intn(4)))))
			case 1:
				k := randKey(r)
				items = append(items, it("m", L(L(L(k...), L(it("u", Zi(1)))), L(L(k...), L(it("u", Zi(2)))))))
			default:
				items = append(items, randItem(r, 1))
			}
		}
		cs = append(cs, Case{"cbor_prog_cont", items})
	}
	// the same entry objects encoded twice (a retry, a second sink)
	for i := 0; i < 40; i++ {
		m := randMap(r, 1, r.Intn(5))
		ents := []Sx{}
		for _, e := range m.L[1].L {
			ents = append(ents, L(e.L[0], e.L[1]))
		}
		cs = append(cs, Case{"cbor_map_twice", ents})
	}
	prog := func(items ...Sx) { cs = append(cs, Case{"cbor_prog", items}) }
	// integers at every head-size boundary
	for _, u := range u64Edges {
		prog(it("u", Zu(u)))
		if u <= math.MaxInt64 {
			prog(it("i", Zi(int64(u))))
			prog(it("i", Zi(-int64(u))))
			prog(it("i", Zi(-int64(u)-1)))
			prog(it("a", Zi(int64(u))))
		}
	}
	prog(it("i", Zi(math.MinInt64)))
	prog(it("i", Zi(math.MinInt64+1)))
	prog(it("o", Zi(0)), it("o", Zi(1)))
	// strings of every length class (content shared: one random buffer)
	buf := asciiBytes(r, 70000)
	for _, n := range strLens {
		prog(it("b", B(buf[:n])))
		prog(it("t", B(buf[:n])))
	}
	// UTF-8 acceptance: all 1- and 2-byte strings, boundary 3-/4-byte sets
	batch := []Sx{}
	flush := func() {
		if len(batch) > 0 {
			cs = append(cs, Case{"cbor_text_batch", []Sx{L(batch...)}})
			batch = nil
		}
	}
	add := func(b []byte) {
		batch = append(batch, B(b))
		if len(batch) >= 512 {
			flush()
		}
	}
	for a := 0; a < 256; a++ {
		add([]byte{byte(a)})
	}
	step2 := 1
	if tier == "quick" {
		step2 = 1
	}
	for a := 0x70; a < 256; a += step2 {
		for b := 0; b < 256; b++ {
			add([]byte{byte(a), byte(b)})
		}
	}
	edge := []byte{0x00, 0x7f, 0x80, 0x8f, 0x90, 0x9f, 0xa0, 0xbf, 0xc0, 0xc1, 0xc2, 0xdf, 0xe0, 0xe1, 0xec, 0xed, 0xee, 0xef, 0xf0, 0xf1, 0xf3, 0xf4, 0xf5, 0xff}
	for _, a := range []byte{0xe0, 0xe1, 0xec, 0xed, 0xee, 0xef, 0xf0, 0xf1, 0xf3, 0xf4, 0xf5} {
		for _, b := range edge {
			for _, c := range edge {
				add([]byte{a, b, c})
				if a >= 0xf0 {
					for _, d := range edge {
						add([]byte{a, b, c, d})
					}
				}
			}
		}
	}
	for _, cp := range []rune{0x7f, 0x80, 0x7ff, 0x800, 0xd7ff, 0xe000, 0xfffc, 0xfffd, 0xfffe, 0xffff, 0x10000, 0x10ffff} {
		add([]byte(string(cp)))
		add([]byte("x" + string(cp) + "y"))
	}
	nrand := 2000
	if tier == "thorough" {
		nrand = 50000
	}
	for i := 0; i < nrand; i++ {
		if r.Bool() {
			add(r.Bytes(1 + r.Intn(6)))
		} else {
			b := randUtf8(r, 1+r.Intn(5))
			if r.Chance(1, 3) && len(b) > 0 {
				b[r.Intn(len(b))] ^= byte(1 << uint(r.Intn(8)))
			}
			add(b)
		}
	}
	flush()
	// maps: keys of mixed lengths in every permutation
	keysets := [][]Sx{
		{it("u", Zi(1)), it("u", Zi(23)), it("u", Zi(24)), it("u", Zi(256)), it("u", Zi(65536))},
		{it("t", B([]byte("a"))), it("t", B([]byte("b"))), it("t", B([]byte("aa"))), it("t", B([]byte(""))), it("t", B(buf[:24]))},
		{it("b", B([]byte{1})), it("u", Zi(0x41)), it("t", B([]byte{1})), it("b", B([]byte{})), it("i", Zi(-1))},
		{it("t", B([]byte("digest"))), it("t", B([]byte(":status"))), it("t", B([]byte("content-type"))), it("t", B([]byte("content-encoding"))), it("t", B([]byte("mi-draft2")))},
		// keys that agree in their first 8 / 9 / 16 / 17 encoded bytes and differ right after
		{it("t", B([]byte("accept-encoding"))), it("t", B([]byte("accept-language"))), it("t", B([]byte("accept-datetime"))), it("t", B([]byte("accept-charsets"))), it("t", B([]byte("accept-encodinG")))},
		{it("b", B([]byte{1, 2, 3, 4, 5, 6, 7, 9, 0})), it("b", B([]byte{1, 2, 3, 4, 5, 6, 7, 8, 1})), it("b", B([]byte{1, 2, 3, 4, 5, 6, 7, 8, 0})), it("t", B([]byte("0123456789abcdeYa"))), it("t", B([]byte("0123456789abcdeXb")))},
	}
	for _, ks := range keysets {
		for n := 0; n <= len(ks); n++ {
			if n == 5 && tier == "quick" && false {
				continue
			}
			for _, p := range permutations(n) {
				ents := []Sx{}
				for _, i := range p {
					ents = append(ents, L(L(ks[i]), L(it("u", Zi(int64(i))))))
				}
				prog(it("m", L(ents...)))
			}
		}
		// duplicates at every pair of positions
		for i := 0; i < 4; i++ {
			for j := 0; j < 4; j++ {
				ents := []Sx{}
				for k := 0; k < 4; k++ {
					idx := k
					if k == j {
						idx = i
					}
					ents = append(ents, L(L(ks[idx]), L(it("u", Zi(int64(k))))))
				}
				prog(it("m", L(ents...)))
			}
		}
	}
	// random programs, nested maps
	n := 1500
	if tier == "thorough" {
		n = 60000
	}
	for i := 0; i < n; i++ {
		items := []Sx{}
		for j := r.Range(1, 5); j > 0; j-- {
			items = append(items, randItem(r, 2))
		}
		prog(items...)
	}
	// large maps in random insertion order
	for i := 0; i < 40; i++ {
		prog(randMap(r, 1, 20+r.Intn(60)))
	}
	return cs
}

// head encodes (major|ai) followed by nf bytes of v
func headBytes(major byte, width int, v uint64) []byte {
	switch width {
	case 0:
		return []byte{major | byte(v&31)}
	case 1:
		return []byte{major | 24, byte(v)}
	case 2:
		b := []byte{major | 25, 0, 0}
		binary.BigEndian.PutUint16(b[1:], uint16(v))
		return b
	case 4:
		b := []byte{major | 26, 0, 0, 0, 0}
		binary.BigEndian.PutUint32(b[1:], uint32(v))
		return b
	default:
		b := make([]byte, 9)
		b[0] = major | 27
		binary.BigEndian.PutUint64(b[1:], v)
		return b
	}
}

var decKinds = []string{"uint", "arr", "map", "bytes", "text"}

func genC12(r *Rng, tier string) []Case {
	cs := []Case{}
	dec := func(kinds []string, input []byte) {
		ks := []Sx{}
		for _, k := range kinds {
			ks = append(ks, Sym(k))
		}
		cs = append(cs, Case{"cbor_dec", []Sx{L(ks...), B(input)}})
	}
	// every initial byte x follow-byte classes x every requested type
	follows := [][]byte{
		{}, {0}, {5}, {0xff}, {0, 3}, {0, 0, 0, 2}, {0, 0, 0, 0, 0, 0, 0, 1},
		{0x80, 0, 0, 0, 0, 0, 0, 0}, {0xff, 0xff, 0xff, 0xff, 0xff, 0xff, 0xff, 0xff},
		{0, 0, 0}, {1, 2, 3, 4, 5, 6, 7},
	}
	for b0 := 0; b0 < 256; b0++ {
		for _, f := range follows {
			for _, k := range decKinds {
				for _, extra := range [][]byte{{}, {0x41}, {0x41, 0x42, 0x43, 0x44, 0x45, 0x46}} {
					in := append(append([]byte{byte(b0)}, f...), extra...)
					dec([]string{k, "uint"}, in)
				}
			}
		}
	}
	// all (value, head width) pairs incl. non-shortest, content shorter/equal/longer
	for _, v := range u64Edges {
		for _, w := range []int{0, 1, 2, 4, 8} {
			if w == 0 && v > 23 || w == 1 && v > 0xff || w == 2 && v > 0xffff || w == 4 && v > 0xffffffff {
				continue
			}
			for _, major := range []byte{0x00, 0x20, 0x40, 0x60, 0x80, 0xa0, 0xc0, 0xe0} {
				h := headBytes(major, w, v)
				for ki, k := range decKinds {
					_ = ki
					if v <= 70000 {
						for _, d := range []int{-1, 0, 1, 5} {
							n := int(v) + d
							if n < 0 {
								continue
							}
							dec([]string{k, "uint"}, append(append([]byte{}, h...), asciiBytes(r, n)...))
						}
					} else {
						dec([]string{k}, append(append([]byte{}, h...), asciiBytes(r, 9)...))
					}
				}
			}
		}
	}
	// items outside the subset in front of a valid item: well-known tags (incl. 55799 "self-described CBOR")
	// in every head width, simple values, floats, break - none may be stepped over
	for _, tag := range []uint64{0, 1, 2, 3, 4, 5, 21, 22, 23, 24, 32, 33, 34, 35, 36, 37, 55799, 55800, 15309736, 1<<64 - 1} {
		for _, w := range []int{0, 1, 2, 4, 8} {
			if w == 0 && tag > 23 || w == 1 && tag > 0xff || w == 2 && tag > 0xffff || w == 4 && tag > 0xffffffff {
				continue
			}
			for _, item := range [][]byte{{0x05}, {0x42, 'a', 'b'}, {0x62, 'a', 'b'}, {0x81, 0x05}, {0xa1, 0x01, 0x02}} {
				for _, k := range decKinds {
					dec([]string{k, "uint"}, append(headBytes(0xc0, w, tag), item...))
				}
			}
		}
	}
	for _, pre := range [][]byte{{0xf4}, {0xf5}, {0xf6}, {0xf7}, {0xf8, 0x20}, {0xf9, 0x3c, 0x00}, {0xfa, 0x3f, 0x80, 0, 0}, {0xfb, 0x3f, 0xf0, 0, 0, 0, 0, 0, 0}, {0xff}, {0x5f}, {0x7f}, {0x9f}, {0xbf}, {0x20}, {0x38, 0x18}} {
		for _, item := range [][]byte{{0x05}, {0x42, 'a', 'b'}, {0x62, 'a', 'b'}, {0x81, 0x05}} {
			for _, k := range decKinds {
				dec([]string{k, "uint"}, append(append([]byte{}, pre...), item...))
			}
		}
	}
	// text strings with valid / invalid UTF-8 content
	for i := 0; i < 600; i++ {
		var s []byte
		if r.Bool() {
			s = randUtf8(r, r.Intn(6))
			if r.Chance(1, 3) && len(s) > 0 {
				s[r.Intn(len(s))] ^= byte(1 << uint(r.Intn(8)))
			}
		} else {
			s = r.Bytes(r.Intn(5))
		}
		w := []int{0, 1, 2, 4, 8}[r.Intn(5)]
		if w == 0 && len(s) > 23 {
			w = 1
		}
		dec([]string{"text", "uint"}, append(append(headBytes(0x60, w, uint64(len(s))), s...), 0x05))
	}
	// one invalid byte at EVERY offset of an otherwise ASCII string (word-at-a-time validators look at 8 bytes at once)
	for _, n := range []int{7, 8, 9, 15, 16, 17, 23, 24, 31, 32, 33, 40, 64, 65} {
		for pos := 0; pos < n; pos++ {
			for _, bad := range []byte{0xff, 0x80, 0xc3} {
				str := asciiBytes(r, n)
				str[pos] = bad
				dec([]string{"text", "uint"}, append(append(canonHead(0x60, uint64(n)), str...), 0x05))
			}
		}
	}
	// two large strings decoded by ONE decoder: the first value must still be what it was after the second call
	for _, major := range []byte{0x40, 0x60} {
		for _, lens := range [][2]int{{65536, 70000}, {70000, 65536}, {65535, 65536}, {100000, 100000}} {
			a, b := bytes.Repeat([]byte{'a'}, lens[0]), bytes.Repeat([]byte{'b'}, lens[1])
			in := append(append(canonHead(major, uint64(len(a))), a...), append(canonHead(major, uint64(len(b))), b...)...)
			k := map[byte]string{0x40: "bytes", 0x60: "text"}[major]
			dec([]string{k, k}, in)
		}
	}
	// long text whose multi-byte characters straddle the 4 KiB / 32 KiB / 64 KiB marks a chunked validator would cut at
	for _, mark := range []int{4096, 32768, 65536} {
		for _, ch := range []string{"\u00e9", "\u20ac", "\U0001F600"} {
			for back := 1; back < len(ch); back++ {
				str := append(append(bytes.Repeat([]byte{'a'}, mark-back), ch...), "tail"...)
				dec([]string{"text", "uint"}, append(append(canonHead(0x60, uint64(len(str))), str...), 0x05))
			}
		}
	}
	// reserved additional information 28..30 (and 31) in front of 16 / 32 / 64 / 100 bytes
	for _, major := range []byte{0x00, 0x40, 0x60, 0x80, 0xa0} {
		for ai := byte(28); ai <= 31; ai++ {
			for _, n := range []int{15, 16, 17, 32, 33, 64, 65, 100} {
				for _, k := range decKinds {
					dec([]string{k, "uint"}, append([]byte{major | ai}, asciiBytes(r, n)...))
				}
			}
		}
	}
	// text items around every UTF-8 encoding boundary, incl. U+FFFD itself
	for _, cp := range []rune{0x7f, 0x80, 0x7ff, 0x800, 0xd7ff, 0xe000, 0xfffc, 0xfffd, 0xfffe, 0xffff, 0x10000, 0x10ffff} {
		for _, s := range []string{string(cp), "caf" + string(cp), string(cp) + string(cp) + "z"} {
			dec([]string{"text", "uint"}, append(append(canonHead(0x60, uint64(len(s))), s...), 0x05))
		}
	}
	// concatenated streams decoded with matching / mismatching kind sequences
	n := 1500
	if tier == "thorough" {
		n = 40000
	}
	majorOf := map[string]byte{"uint": 0, "arr": 0x80, "map": 0xa0, "bytes": 0x40, "text": 0x60}
	for i := 0; i < n; i++ {
		var in []byte
		kinds := []string{}
		for j := r.Range(1, 6); j > 0; j-- {
			k := decKinds[r.Intn(5)]
			v := u64Edges[r.Intn(len(u64Edges))]
			if k == "bytes" || k == "text" {
				v = uint64(r.Intn(300))
			}
			w := 8
			for _, c := range []int{0, 1, 2, 4, 8} {
				if (c == 0 && v <= 23 || c == 1 && v <= 0xff || c == 2 && v <= 0xffff || c == 4 && v <= 0xffffffff || c == 8) && r.Chance(2, 3) {
					w = c
					break
				}
			}
			in = append(in, headBytes(majorOf[k], w, v)...)
			if k == "bytes" || k == "text" {
				in = append(in, asciiBytes(r, int(v))...)
			}
			if r.Chance(1, 12) {
				k = decKinds[r.Intn(5)]
			}
			kinds = append(kinds, k)
		}
		if r.Chance(1, 5) && len(in) > 0 {
			in = in[:r.Intn(len(in))]
		}
		if r.Chance(1, 8) && len(in) > 0 {
			in[r.Intn(len(in))] ^= byte(1 << uint(r.Intn(8)))
		}
		dec(kinds, in)
	}
	// declared lengths far beyond the data, through a reader that has no Len() (a file, a network body)
	for _, v := range []uint64{1 << 20, 1 << 31, 1<<31 - 1, 1 << 32, 1 << 40, 1 << 48, 1<<62 + 7, 1<<63 - 1, 1 << 63, 1<<64 - 1} {
		for _, major := range []byte{0x40, 0x60} {
			for _, k := range []string{"bytes", "text"} {
				cs = append(cs, Case{"cbor_dec", []Sx{L(Sym(k), Sym("uint")), B(append(headBytes(major, 8, v), asciiBytes(r, 12)...)), Sym("nolen")}})
			}
		}
	}
	// one decoder, many segments: failed calls (truncated heads / contents, wrong type,
	// bad UTF-8) followed by good ones on the same decoder object
	ns := 300
	if tier == "thorough" {
		ns = 8000
	}
	for i := 0; i < ns; i++ {
		segs := []Sx{}
		for j := r.Range(2, 6); j > 0; j-- {
			var in []byte
			kinds := []Sx{}
			for q := r.Range(1, 4); q > 0; q-- {
				k := decKinds[r.Intn(5)]
				v := u64Edges[r.Intn(len(u64Edges))]
				if k == "bytes" || k == "text" {
					v = uint64(r.Intn(40))
				}
				w := []int{0, 1, 2, 4, 8}[r.Intn(5)]
				if w == 0 && v > 23 || w == 1 && v > 0xff || w == 2 && v > 0xffff || w == 4 && v > 0xffffffff {
					w = 8
				}
				in = append(in, headBytes(majorOf[k], w, v)...)
				if k == "bytes" || k == "text" {
					in = append(in, asciiBytes(r, int(v))...)
				}
				if r.Chance(1, 10) {
					k = decKinds[r.Intn(5)]
				}
				kinds = append(kinds, Sym(k))
			}
			if r.Chance(1, 2) && len(in) > 0 { // cut inside the last item: head or content
				in = in[:len(in)-1-r.Intn(minInt(len(in), 9))]
			}
			segs = append(segs, L(L(kinds...), B(in)))
		}
		cs = append(cs, Case{"cbor_dec_segments", segs})
	}
	return cs
}

func init() {
	regGen("C11", genC11)
	regGen("C12", genC12)
}
