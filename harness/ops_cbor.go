package main

import (
	"bytes"
	"fmt"
	"io"

	vh "github.com/WICG/webpackage/go/verifhook"
)

// ---- cbor_prog: a sequence of encoder calls -------------------------------

func runItems(e *vh.CborEncoder, items []Sx) error {
	for _, it := range items {
		if err := runItem(e, it); err != nil {
			return err
		}
	}
	return nil
}

func runItem(e *vh.CborEncoder, it Sx) error {
	if it.K != 2 || len(it.L) != 2 {
		return fmt.Errorf("bad item")
	}
	t, a := it.L[0], it.L[1]
	switch string(t.B) {
	case "u":
		return e.EncodeUint(a.U64())
	case "i":
		return e.EncodeInt(a.I64())
	case "b":
		return e.EncodeByteString(a.B)
	case "t":
		return e.EncodeTextString(string(a.B))
	case "a":
		return e.EncodeArrayHeader(a.Int())
	case "o":
		return e.EncodeBool(a.Z.Sign() != 0)
	case "m":
		var inner error
		mes := []*vh.CborMapEntryEncoder{}
		for _, ent := range a.L {
			ent := ent
			me := vh.CborGenerateMapEntry(func(k *vh.CborEncoder, v *vh.CborEncoder) {
				if err := runItems(k, ent.L[0].L); err != nil && inner == nil {
					inner = err
				}
				if err := runItems(v, ent.L[1].L); err != nil && inner == nil {
					inner = err
				}
			})
			mes = append(mes, me)
			if len(ent.L) > 2 { // the SAME entry object passed twice
				mes = append(mes, me)
			}
		}
		if inner != nil {
			return inner
		}
		return e.EncodeMap(mes)
	}
	return fmt.Errorf("bad item tag")
}

func opCborProg(args []Sx) Sx {
	var buf bytes.Buffer
	e := vh.CborNewEncoder(&buf)
	if err := runItems(e, args); err != nil {
		return ErrV()
	}
	return OkV(B(buf.Bytes()))
}

// cbor_prog_cont items... : like cbor_prog, but a refused call does not end the program: the SAME encoder is
// used for the remaining calls (a refused call must leave nothing behind).  (bytes (1/0 per item))
func opCborProgCont(args []Sx) Sx {
	var buf bytes.Buffer
	e := vh.CborNewEncoder(&buf)
	oks := []Sx{}
	for _, it := range args {
		oks = append(oks, Bool(runItem(e, it) == nil))
	}
	return L(B(buf.Bytes()), L(oks...))
}

// ---- cbor_dec: a sequence of decode calls on one reader -------------------

// a reader that hides Len()/WriterTo of the underlying bytes.Reader (like a file or a network body)
type plainReader struct{ r io.Reader }

func (p plainReader) Read(b []byte) (int, error) { return p.r.Read(b) }

func opCborDec(args []Sx) Sx {
	kinds, input := args[0].L, args[1].B
	r, spoil := ownedSrc(input)
	rd := r.(interface{ Len() int })
	if len(args) > 2 && args[2].IsSym("nolen") {
		r = plainReader{r}
	}
	defer spoil()
	d := vh.CborNewDecoder(r)
	vals := []Sx{}
	for _, k := range kinds {
		var v Sx
		var err error
		switch string(k.B) {
		case "uint":
			var n uint64
			n, err = d.DecodeUint()
			v = Zu(n)
		case "arr":
			var n uint64
			n, err = d.DecodeArrayHeader()
			v = Zu(n)
		case "map":
			var n uint64
			n, err = d.DecodeMapHeader()
			v = Zu(n)
		case "bytes":
			var b []byte
			b, err = d.DecodeByteString()
			if b == nil {
				b = []byte{}
			}
			v = Sx{K: 1, B: b} // NOT copied: the value is looked at after the later calls and after the source was overwritten
		case "text":
			var s string
			s, err = d.DecodeTextString()
			v = B([]byte(s))
		default:
			panic("bad kind")
		}
		if err != nil {
			return L(Sym("err"), L(vals...))
		}
		vals = append(vals, v)
	}
	return L(Sym("ok"), L(vals...), Zi(int64(rd.Len())))
}

// ---- cbor_dec_segments: ONE decoder over a reader that is fed segment by segment ----

type segReader struct{ cur []byte }

func (s *segReader) Read(p []byte) (int, error) {
	if len(s.cur) == 0 {
		return 0, io.EOF
	}
	n := copy(p, s.cur)
	s.cur = s.cur[n:]
	return n, nil
}

func decodeKind(d *vh.CborDecoder, k string) (Sx, error) {
	switch k {
	case "uint":
		n, err := d.DecodeUint()
		return Zu(n), err
	case "arr":
		n, err := d.DecodeArrayHeader()
		return Zu(n), err
	case "map":
		n, err := d.DecodeMapHeader()
		return Zu(n), err
	case "bytes":
		b, err := d.DecodeByteString()
		return B(b), err
	case "text":
		s, err := d.DecodeTextString()
		return B([]byte(s)), err
	}
	panic("bad kind")
}

func opCborDecSegments(args []Sx) Sx {
	sr := &segReader{}
	d := vh.CborNewDecoder(sr)
	out := []Sx{}
	for _, seg := range args {
		sr.cur = append([]byte{}, seg.L[1].B...)
		res := []Sx{}
		for _, k := range seg.L[0].L {
			v, err := decodeKind(d, string(k.B))
			if err != nil {
				res = append(res, L(Sym("err")))
				break
			}
			res = append(res, L(Sym("ok"), v))
		}
		sr.cur = nil // drain what a failed call left behind
		out = append(out, L(res...))
	}
	return L(out...)
}

// cbor_map_twice (entries): the SAME entry objects are encoded by two EncodeMap calls (two sinks)
func opCborMapTwice(args []Sx) (res Sx) {
	defer func() {
		if r := recover(); r != nil {
			res = L(Sym("panic"))
		}
	}()
	var inner error
	mes := []*vh.CborMapEntryEncoder{}
	for _, ent := range args {
		ent := ent
		mes = append(mes, vh.CborGenerateMapEntry(func(k *vh.CborEncoder, v *vh.CborEncoder) {
			if err := runItems(k, ent.L[0].L); err != nil && inner == nil {
				inner = err
			}
			if err := runItems(v, ent.L[1].L); err != nil && inner == nil {
				inner = err
			}
		}))
	}
	if inner != nil {
		return L(ErrV(), ErrV())
	}
	out := []Sx{}
	for i := 0; i < 2; i++ {
		var buf bytes.Buffer
		if err := vh.CborNewEncoder(&buf).EncodeMap(mes); err != nil {
			out = append(out, ErrV())
		} else {
			out = append(out, OkV(B(buf.Bytes())))
		}
	}
	return L(out...)
}

func init() {
	regOp("cbor_map_twice", opCborMapTwice)
	regOp("cbor_prog_cont", opCborProgCont)
	regOp("cbor_dec_segments", opCborDecSegments)
	regOp("cbor_prog", opCborProg)
	regOp("cbor_dec", opCborDec)
}

// cbor_text_batch: for each byte string, does EncodeTextString accept it and
// (when it does) emit head+content?  Result: list of 0/1.
func opCborTextBatch(args []Sx) Sx {
	out := []Sx{}
	for _, s := range args[0].L {
		var buf bytes.Buffer
		e := vh.CborNewEncoder(&buf)
		err := e.EncodeTextString(string(s.B))
		ok := err == nil && bytes.HasSuffix(buf.Bytes(), s.B)
		out = append(out, Bool(ok))
	}
	return L(out...)
}

func init() { regOp("cbor_text_batch", opCborTextBatch) }
