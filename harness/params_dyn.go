package main

// Second source of the generated parameters: the RUNNING code.  When the source
// pattern of a parameter is not found (the declaration was rewritten), the value
// is taken from the exported API / the verif hooks of the working tree instead,
// so that a harmless rewrite does not break the tie.  A changed VALUE is seen by
// both sources.

import (
	"bytes"
	"crypto/ed25519"
	"crypto/x509"
	"encoding/base32"
	"github.com/WICG/webpackage/go/signedexchange/certurl"
	"go/ast"
	"go/token"
	"io"
	"net/http"
	"os"
	"path/filepath"
	"sort"
	"strconv"
	"strings"
	"time"

	"github.com/WICG/webpackage/go/bundle"
	"github.com/WICG/webpackage/go/bundle/signature"
	bver "github.com/WICG/webpackage/go/bundle/version"
	ib "github.com/WICG/webpackage/go/integrityblock"
	"github.com/WICG/webpackage/go/integrityblock/webbundleid"
	sxg "github.com/WICG/webpackage/go/signedexchange"
	"github.com/WICG/webpackage/go/signedexchange/mice"
	sver "github.com/WICG/webpackage/go/signedexchange/version"
)

// every string literal of the non-test Go files of a package directory
func packageLiterals(dir string) []string {
	seen := map[string]bool{}
	ents, _ := os.ReadDir(dir)
	for _, e := range ents {
		if e.IsDir() || !strings.HasSuffix(e.Name(), ".go") || strings.HasSuffix(e.Name(), "_test.go") {
			continue
		}
		f := parseFile(filepath.Join(dir, e.Name()))
		if f == nil {
			continue
		}
		ast.Inspect(f, func(n ast.Node) bool {
			if b, ok := n.(*ast.BasicLit); ok && b.Kind == token.STRING {
				if s, err := strconv.Unquote(b.Value); err == nil {
					seen[s] = true
				}
			}
			return true
		})
	}
	out := []string{}
	for s := range seen {
		out = append(out, s)
	}
	sort.Strings(out)
	return out
}

func exactCap(b []byte) bool { return cap(b) == len(b) }

func sortedUnique(ss []string) []string {
	m := map[string]bool{}
	for _, s := range ss {
		m[s] = true
	}
	out := []string{}
	for s := range m {
		out = append(out, s)
	}
	sort.Strings(out)
	return out
}

// dynBytes / dynStrings / dynInt return (value, available)
func dynBytes(repo, name string) (b []byte, ok bool) {
	defer func() {
		if recover() != nil {
			ok = false
		}
	}()
	switch name {
	case "p_bundle_hdr_magic_b1":
		return bver.HeaderMagicBytesB1, exactCap(bver.HeaderMagicBytesB1) // cap = len is what makes append allocate
	case "p_bundle_hdr_magic_b2":
		return bver.HeaderMagicBytesB2, exactCap(bver.HeaderMagicBytesB2)
	case "p_bundle_ver_magic_b1":
		return bver.VersionMagicBytesB1, exactCap(bver.VersionMagicBytesB1)
	case "p_bundle_ver_magic_b2":
		return bver.VersionMagicBytesB2, exactCap(bver.VersionMagicBytesB2)
	case "p_ib_magic":
		return ib.IntegrityBlockMagic, true
	case "p_ib_version_b1":
		return ib.VersionB1, true
	case "p_ib_pk_attr_name":
		return []byte(ib.Ed25519publicKeyAttributeName), true
	case "p_web_bundle_id_suffix":
		pk := make([]byte, ed25519.PublicKeySize)
		id := webbundleid.GetWebBundleId(ed25519.PublicKey(pk))
		raw, err := base32.StdEncoding.WithPadding(base32.NoPadding).DecodeString(strings.ToUpper(id))
		if err != nil || len(raw) != ed25519.PublicKeySize+3 || !bytes.Equal(raw[:ed25519.PublicKeySize], pk) {
			return nil, false
		}
		return raw[ed25519.PublicKeySize:], true
	case "p_cc_magic": // the text string that opens a written certificate chain
		var buf bytes.Buffer
		chain := certurl.CertChain{{Cert: &x509.Certificate{Raw: []byte{1}}, OCSPResponse: []byte{2}}}
		if err := chain.Write(&buf); err != nil || buf.Len() < 3 || buf.Bytes()[1]>>5 != 3 || buf.Bytes()[1]&0x1f >= 24 {
			return nil, false
		}
		n := int(buf.Bytes()[1] & 0x1f)
		return buf.Bytes()[2 : 2+n], true
	case "p_mi_draft02":
		return []byte(mice.Draft02Encoding), true
	case "p_mi_draft03":
		return []byte(mice.Draft03Encoding), true
	}
	return nil, false
}

func dynStrings(repo, name string) (ss []string, ok bool) {
	defer func() {
		if recover() != nil {
			ok = false
		}
	}()
	switch name {
	case "p_bundle_sig_context":
		return []string{bver.VersionB1.SignatureContextString(), bver.VersionB2.SignatureContextString()}, true
	case "p_stateful_request_headers", "p_uncached_headers":
		out := []string{}
		for _, s := range packageLiterals(filepath.Join(repo, "go/signedexchange")) {
			if s == "" || s != strings.ToLower(s) {
				continue
			}
			if name == "p_stateful_request_headers" && sxg.IsStatefulRequestHeader(s) {
				out = append(out, s)
			}
			if name == "p_uncached_headers" && sxg.IsUncachedHeader(s) {
				out = append(out, s)
			}
		}
		return out, len(out) > 0
	case "p_sxg_context_strings":
		out := []string{}
		for _, v := range []sver.Version{sver.Version1b1, sver.Version1b2, sver.Version1b3} {
			h := http.Header{}
			h.Add("Content-Type", "text/plain")
			e := sxg.NewExchange(v, "https://example.com/", "GET", http.Header{}, 200, h, nil)
			m, err := sxg.VerifSerializeSignedMessage(e, make([]byte, 32), "https://example.com/v", 1, 2)
			if err != nil || len(m) < 66 {
				return nil, false
			}
			i := bytes.IndexByte(m[64:], 0)
			if i < 0 {
				return nil, false
			}
			out = append(out, string(m[64:64+i]))
		}
		return out, true
	case "p_sxg_header_magic":
		return []string{string(sver.Version1b1.HeaderMagicBytes()), string(sver.Version1b2.HeaderMagicBytes()), string(sver.Version1b3.HeaderMagicBytes())}, true
	case "p_mi_digest_header_names":
		return []string{mice.Draft02Encoding.DigestHeaderName(), mice.Draft03Encoding.DigestHeaderName()}, true
	case "p_mi_integrity_identifiers":
		return []string{mice.Draft02Encoding.IntegrityIdentifier(), mice.Draft03Encoding.IntegrityIdentifier()}, true
	}
	return nil, false
}

// largest n in [lo, hi] with ok(n) (ok is monotone: true up to the limit, false above)
func largestAccepted(lo, hi int, ok func(int) bool) (int64, bool) {
	if !ok(lo) || ok(hi) {
		return 0, false
	}
	for lo+1 < hi {
		mid := (lo + hi) / 2
		if ok(mid) {
			lo = mid
		} else {
			hi = mid
		}
	}
	return int64(lo), true
}

func dynInt(repo, name string) (v int64, ok bool) {
	defer func() {
		if recover() != nil {
			ok = false
		}
	}()
	switch name {
	case "p_sxg_header_magic_len":
		return int64(sver.HeaderMagicBytesLen), true
	case "p_max_signature_header_len": // the longest Signature header value Exchange.Write takes (b3)
		return largestAccepted(1, 1<<24, func(n int) bool {
			h := http.Header{}
			h.Add("Content-Type", "text/plain")
			e := sxg.NewExchange(sver.Version1b3, "https://example.com/", "GET", http.Header{}, 200, h, nil)
			e.SignatureHeaderValue = strings.Repeat("a", n)
			return e.Write(io.Discard) == nil
		})
	case "p_max_header_len": // the longest CBOR header block Exchange.Write takes (b3)
		base := func(n int) (*sxg.Exchange, int) {
			h := http.Header{}
			h.Add("X", strings.Repeat("v", n))
			e := sxg.NewExchange(sver.Version1b3, "https://example.com/", "GET", http.Header{}, 200, h, nil)
			e.SignatureHeaderValue = "l"
			var b bytes.Buffer
			e.DumpExchangeHeaders(&b)
			return e, b.Len()
		}
		n, ok := largestAccepted(1, 1<<24, func(n int) bool { e, _ := base(n); return e.Write(io.Discard) == nil })
		if !ok {
			return 0, false
		}
		_, l := base(int(n))
		return int64(l), true
	case "p_max_variants": // the largest number of possible keys a Variants value may span (one axis of n values)
		return largestAccepted(1, 1<<20, func(n int) bool {
			axis := make([]string, n+1)
			for i := range axis {
				axis[i] = "v"
			}
			_, err := bundle.VerifNumberOfPossibleKeys([][]string{axis})
			return err == nil
		})
	case "p_sxg_max_mi_record_size": // the largest MI record size Exchange.Verify accepts (a real signature, b3)
		keysOnce()
		return largestAccepted(1, 1<<22, func(n int) bool {
			h := http.Header{}
			h.Add("Content-Type", "text/plain")
			e := sxg.NewExchange(sver.Version1b3, "https://example.com/", "GET", http.Header{}, 200, h, []byte("probe"))
			s := signExchange(e, sxgKeys[0], n, baseDate, baseDate+100, "https://cert.example.org/c", "https://example.com/v")
			if !s.ok {
				return false
			}
			_, ok := e.Verify(time.Unix(baseDate+1, 0), func(string) ([]byte, error) { return s.chain, nil }, discardLog)
			return ok
		})
	case "p_bsig_max_mi_record_size": // the largest MI record size signature.Verifier accepts (body encoded by hand, real signature)
		sigKeysOnce()
		leaf := sigKeys[0]
		chain := certurl.CertChain{{Cert: leaf.cert, OCSPResponse: []byte("ocsp")}}
		return largestAccepted(1, 1<<22, func(n int) bool {
			var body bytes.Buffer
			dg, err := mice.Draft03Encoding.Encode(&body, []byte("probe"), n)
			if err != nil {
				return false
			}
			h := http.Header{}
			h.Add("Content-Type", "text/plain")
			h.Add("Content-Encoding", mice.Draft03Encoding.ContentEncoding())
			h.Add("Digest", dg)
			e := &bundle.Exchange{Request: bundle.Request{URL: mustURL("https://" + leaf.cert.DNSNames[0] + "/probe"), Header: http.Header{}},
				Response: bundle.Response{Status: 200, Header: h, Body: body.Bytes()}}
			signer, err := signature.NewSigner(bver.VersionB2, chain, leaf.priv, mustURL("https://"+leaf.cert.DNSNames[0]+"/v"), time.Unix(baseDate, 0), time.Hour)
			if err != nil {
				return false
			}
			if err := signer.AddExchange(e, mice.Draft03Encoding.IntegrityIdentifier()); err != nil {
				return false
			}
			sigs, err := signer.UpdateSignatures(nil)
			if err != nil {
				return false
			}
			v, err := signature.NewVerifier(sigs, time.Unix(baseDate+10, 0), bver.VersionB2)
			if err != nil {
				return false
			}
			r, err := v.VerifyExchange(e)
			return err == nil && r != nil
		})
	case "p_max_sct_length": // limit on the serialized list body: the longest single SCT accepted, plus its 2-byte length
		n, ok := largestAccepted(1, 1<<20, func(n int) bool {
			_, err := certurl.SerializeSCTList([][]byte{make([]byte, n)})
			return err == nil
		})
		return n + 2, ok
	}
	return 0, false
}

func dynInts(repo, name string) ([]int64, bool) {
	switch name {
	case "p_cacheable_status_codes":
		// the effective set: with no Cache-Control / Expires field IsCacheable is the status test
		out := []int64{}
		for c := 0; c < 1000; c++ {
			e := sxg.NewExchange(sver.Version1b3, "https://example.com/", "GET", http.Header{}, c, http.Header{}, nil)
			if e.IsCacheable(discardLog) {
				out = append(out, int64(c))
			}
		}
		return out, len(out) > 0
	}
	return nil, false
}
