package main

import (
	"bytes"
	"crypto/elliptic"
	"crypto/x509"
	"encoding/binary"
)

// tolerant scan of a cert-chain+cbor byte string: every byte-string value that
// follows the text key "cert" is tried with x509.ParseCertificate (standard
// library), giving the model its X.509 oracle table for this input.
func scanCertValues(in []byte) [][]byte {
	out := [][]byte{}
	pos := 0
	head := func() (byte, uint64, bool) {
		if pos >= len(in) {
			return 0, 0, false
		}
		b := in[pos]
		pos++
		ai := b & 31
		var n uint64
		switch {
		case ai < 24:
			n = uint64(ai)
		case ai == 24:
			if pos+1 > len(in) {
				return 0, 0, false
			}
			n = uint64(in[pos])
			pos++
		case ai == 25:
			if pos+2 > len(in) {
				return 0, 0, false
			}
			n = uint64(binary.BigEndian.Uint16(in[pos:]))
			pos += 2
		case ai == 26:
			if pos+4 > len(in) {
				return 0, 0, false
			}
			n = uint64(binary.BigEndian.Uint32(in[pos:]))
			pos += 4
		case ai == 27:
			if pos+8 > len(in) {
				return 0, 0, false
			}
			n = binary.BigEndian.Uint64(in[pos:])
			pos += 8
		default:
			return 0, 0, false
		}
		return b & 0xe0, n, true
	}
	str := func(n uint64) ([]byte, bool) {
		if n > uint64(len(in)-pos) {
			return nil, false
		}
		s := in[pos : pos+int(n)]
		pos += int(n)
		return s, true
	}
	_, n, ok := head()
	if !ok {
		return out
	}
	_, ml, ok := head()
	if !ok {
		return out
	}
	if _, ok := str(ml); !ok {
		return out
	}
	for i := uint64(1); i < n && i < 64; i++ {
		_, m, ok := head()
		if !ok {
			return out
		}
		for j := uint64(0); j < m && j < 64; j++ {
			_, kl, ok := head()
			if !ok {
				return out
			}
			k, ok := str(kl)
			if !ok {
				return out
			}
			_, vl, ok := head()
			if !ok {
				return out
			}
			v, ok := str(vl)
			if !ok {
				return out
			}
			if string(k) == "cert" {
				out = append(out, append([]byte{}, v...))
			}
		}
	}
	return out
}

func x509OkTab(in []byte) Sx {
	ents := []Sx{}
	for _, der := range scanCertValues(in) {
		_, err := x509.ParseCertificate(der)
		ents = append(ents, L(B(der), Bool(err == nil)))
	}
	return L(ents...)
}

func genC17(r *Rng, tier string) []Case {
	cs := []Case{}
	certs := [][]byte{}
	for i, pad := range []int{0, 0, 10, 200, 70, 330} {
		c := elliptic.P256()
		if i%2 == 1 {
			c = elliptic.P384()
		}
		certs = append(certs, newECKey(c, "c.example", i, pad).der)
	}
	// a large certificate (> 65535 bytes DER) to cross the 2-byte CBOR length class
	certs = append(certs, newECKey(elliptic.P256(), "big.example", 9, 66000).der)
	blobLens := []int{0, 1, 23, 24, 255, 256, 65535, 65536}
	blob := func() Sx {
		switch r.Intn(5) {
		case 0:
			return L() // nil
		default:
			return B(r.Bytes(blobLens[r.Intn(len(blobLens)-2+2*r.Intn(2))%len(blobLens)]))
		}
	}
	read := func(b []byte) { cs = append(cs, Case{"cc_read", []Sx{B(b), x509OkTab(b)}}) }
	n := 150
	if tier == "thorough" {
		n = 4000
	}
	for i := 0; i < n; i++ {
		k := 1 + r.Intn(4)
		if r.Chance(1, 30) {
			k = 0
		}
		items := []Sx{}
		for j := 0; j < k; j++ {
			der := certs[r.Intn(len(certs)-1)]
			if r.Chance(1, 40) {
				der = certs[len(certs)-1]
			}
			var ocsp Sx = L()
			if j == 0 && r.Chance(9, 10) || j > 0 && r.Chance(1, 8) {
				ocsp = B(r.Bytes(blobLens[r.Intn(6)]))
			}
			items = append(items, L(B(der), ocsp, blob()))
		}
		cs = append(cs, Case{"cc_write", items})
		if k >= 1 && i%10 == 0 { // the first item again at a later position (the same object twice in the chain)
			cs = append(cs, Case{"cc_write", append(append([]Sx{}, items...), items[0])})
			cs = append(cs, Case{"cc_write", []Sx{items[0], items[0]}})
		}
		// the same chain through the library writer, then read back and mutated
		w := ops["cc_write"](items)
		if len(w.L) == 2 && w.L[0].IsSym("ok") {
			b := w.L[1].B
			read(b)
			if len(b) > 70000 && tier == "quick" {
				continue
			}
			for m := 0; m < 6; m++ {
				c := append([]byte{}, b...)
				switch r.Intn(7) {
				case 0:
					c = c[:r.Intn(len(c))]
				case 1:
					c[r.Intn(len(c))] ^= 1 << uint(r.Intn(8))
				case 2:
					c[r.Intn(minInt(len(c), 12))] ^= 1 << uint(r.Intn(8))
				case 3:
					c = append(c, r.Bytes(1+r.Intn(4))...)
				case 4:
					c[0] = []byte{0x80, 0x81, 0x82, 0x98, 0x9b, 0xa1}[r.Intn(6)]
				case 5:
					p := bytes.Index(c, []byte("ocsp"))
					if p >= 0 {
						copy(c[p:], []string{"ocsq", "sct\x00", "cert"}[r.Intn(3)])
					}
				default:
					p := bytes.Index(c, []byte("cert"))
					if p >= 0 {
						copy(c[p:], []string{"cerT", "ocsp", "xxxx"}[r.Intn(3)])
					}
				}
				read(c)
			}
		}
	}
	// one chain object written, a blob replaced by other bytes of the same length, written again
	for i := 0; i < 40; i++ {
		items := []Sx{}
		n := 1 + r.Intn(3)
		for j := 0; j < n; j++ {
			var ocsp Sx = L()
			if j == 0 {
				ocsp = B(r.Bytes(1 + r.Intn(40)))
			}
			var sct Sx = L()
			if r.Bool() {
				sct = B(r.Bytes(1 + r.Intn(30)))
			}
			items = append(items, L(B(certs[r.Intn(len(certs)-1)]), ocsp, sct))
		}
		cs = append(cs, Case{"cc_write_history", []Sx{L(items...), Zi(int64(r.Intn(n))), Sym([]string{"ocsp", "sct"}[r.Intn(2)])}})
	}
	// hand-built inputs: duplicate keys, unknown keys, key order, missing cert
	tx := func(s string) []byte { return append(canonHead(0x60, uint64(len(s))), s...) }
	bs := func(b []byte) []byte { return append(canonHead(0x40, uint64(len(b))), b...) }
	magic := tx("\U0001F4DC⛓")
	mk := func(n uint64, maps ...[]byte) []byte {
		out := append(canonHead(0x80, n), magic...)
		for _, m := range maps {
			out = append(out, m...)
		}
		return out
	}
	mp := func(kv ...[]byte) []byte {
		out := canonHead(0xa0, uint64(len(kv)/2))
		for _, x := range kv {
			out = append(out, x...)
		}
		return out
	}
	c0, c1 := certs[0], certs[1]
	for _, in := range [][]byte{
		mk(2, mp(tx("cert"), bs(c0), tx("ocsp"), bs([]byte("o")))),
		mk(2, mp(tx("ocsp"), bs([]byte("o")), tx("cert"), bs(c0))),
		mk(2, mp(tx("cert"), bs(c0), tx("cert"), bs(c1), tx("ocsp"), bs([]byte{}))),
		mk(2, mp(tx("cert"), bs(c0), tx("ocsp"), bs([]byte("a")), tx("ocsp"), bs([]byte("b")))),
		mk(2, mp(tx("cert"), bs(c0), tx("ocsp"), bs([]byte("o")), tx("zzz"), bs([]byte("u")))),
		mk(2, mp(tx("ocsp"), bs([]byte("o")))),
		mk(2, mp(tx("cert"), bs(c0))),
		mk(3, mp(tx("cert"), bs(c0), tx("ocsp"), bs([]byte("o"))), mp(tx("cert"), bs(c1))),
		mk(3, mp(tx("cert"), bs(c0), tx("ocsp"), bs([]byte("o"))), mp(tx("cert"), bs(c1), tx("ocsp"), bs([]byte("p")))),
		mk(3, mp(tx("cert"), bs(c0), tx("ocsp"), bs([]byte("o")))),
		mk(1), mk(0), mk(2), mk(1 << 63), mk(1<<64-1, mp(tx("cert"), bs(c0), tx("ocsp"), bs([]byte("o")))),
		mk(2, mp(tx("cert"), bs([]byte("not a certificate")), tx("ocsp"), bs([]byte("o")))),
		mk(2, mp(bs([]byte("cert")), bs(c0), tx("ocsp"), bs([]byte("o")))),
		mk(2, mp(tx("cert"), tx("text not bytes"), tx("ocsp"), bs([]byte("o")))),
		append(canonHead(0x80, 2), append(tx("wrong magic"), mp(tx("cert"), bs(c0), tx("ocsp"), bs([]byte("o")))...)...),
		append(canonHead(0xa0, 2), magic...),
	} {
		read(in)
	}
	// SCT lists
	sct := func(lens ...int) {
		args := []Sx{}
		for _, l := range lens {
			args = append(args, B(r.Bytes(l)))
		}
		cs = append(cs, Case{"sct_list", args})
	}
	sct()
	sct(0)
	sct(0, 0, 0)
	for _, l := range []int{1, 100, 65532, 65533, 65534, 65535, 65536, 70000} {
		sct(l)
		sct(l, 0)
		sct(1, l)
	}
	sct(32765, 32766)
	sct(32765, 32767)
	sct(32766, 32766)
	sct(21843, 21843, 21843)
	sct(21843, 21843, 21844)
	for i := 0; i < 60; i++ {
		k := r.Intn(6)
		lens := []int{}
		for j := 0; j < k; j++ {
			lens = append(lens, []int{0, 1, 47, 118, 119, 1000, 30000}[r.Intn(7)])
		}
		sct(lens...)
	}
	return cs
}

func init() { regGen("C17", genC17) }

func minInt(a, b int) int {
	if a < b {
		return a
	}
	return b
}

func maxInt(a, b int) int {
	if a > b {
		return a
	}
	return b
}
