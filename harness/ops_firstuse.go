package main

// "First use in a fresh process, from several goroutines at once": package-level tables that are
// built lazily (or patched at first use) are only racy until one call has completed, so the probe
// runs in a CHILD process whose very first library calls are concurrent.  Under the -race build the
// child reports DATA RACE on stderr (exit code 66).

import (
	"bytes"
	"fmt"
	"net/http"
	"os"
	"os/exec"
	"strings"
	"sync"

	"github.com/WICG/webpackage/go/bundle"
	bver "github.com/WICG/webpackage/go/bundle/version"
	ib "github.com/WICG/webpackage/go/integrityblock"
	"github.com/WICG/webpackage/go/integrityblock/webbundleid"
	sxg "github.com/WICG/webpackage/go/signedexchange"
	"github.com/WICG/webpackage/go/signedexchange/mice"
	sh "github.com/WICG/webpackage/go/signedexchange/structuredheader"
	sver "github.com/WICG/webpackage/go/signedexchange/version"
)

func firstUseProbe() string {
	h := http.Header{}
	h.Add("Content-Type", "text/html")
	h.Add("Cache-Control", "max-age=100")
	e := sxg.NewExchange(sver.Version1b3, "https://example.com/", "GET", http.Header{}, 200, h, []byte("x"))
	var hb bytes.Buffer
	e.DumpExchangeHeaders(&hb)
	b := &bundle.Bundle{Version: bver.VersionB2, Exchanges: []*bundle.Exchange{{Request: bundle.Request{URL: mustURL("https://example.com/")},
		Response: bundle.Response{Status: 200, Header: h.Clone(), Body: []byte("x")}}}}
	var bb bytes.Buffer
	b.WriteTo(&bb)
	var mb bytes.Buffer
	dg, _ := mice.Draft03Encoding.Encode(&mb, []byte("payload"), 4)
	pl, _ := sh.ParseParameterisedList("a;b=1, c")
	return fmt.Sprint(sxg.IsStatefulRequestHeader("Cookie"), sxg.IsStatefulRequestHeader("accept"), sxg.IsUncachedHeader("Set-Cookie"),
		sxg.IsUncachedHeader("x-ok"), e.IsCacheable(discardLog), hb.Bytes(), bb.Bytes(), bver.VersionB1.HeaderMagicBytes(), bver.VersionB2.HeaderMagicBytes(),
		sver.Version1b2.HeaderMagicBytes(), dg, mb.Bytes(), len(pl), webbundleid.GetWebBundleId(make([]byte, 32)), ib.IntegrityBlockMagic)
}

func cmdFirstUse() {
	const n = 16
	res := make([]string, n)
	var wg sync.WaitGroup
	start := make(chan struct{})
	for i := 0; i < n; i++ {
		wg.Add(1)
		go func(i int) {
			defer wg.Done()
			<-start
			res[i] = firstUseProbe()
		}(i)
	}
	close(start)
	wg.Wait()
	want := firstUseProbe() // after the concurrent phase: sequential reference
	for _, r := range res {
		if r != want {
			fmt.Println("mismatch")
			return
		}
	}
	fmt.Println("same")
}

func init() {
	regOp("conc_first_use", func(a []Sx) Sx {
		cmd := exec.Command(os.Args[0], "firstuse")
		cmd.Env = append(os.Environ(), "GORACE=halt_on_error=0 exitcode=66")
		var so, se bytes.Buffer
		cmd.Stdout, cmd.Stderr = &so, &se
		err := cmd.Run()
		switch {
		case strings.Contains(se.String(), "DATA RACE"):
			return L(Sym("race"))
		case err != nil:
			return L(Sym("crashed"))
		case strings.TrimSpace(so.String()) != "same":
			return L(Sym("mismatch"))
		}
		return L(Sym("same"))
	})
}
