package main

import (
	"sort"

	sh "github.com/WICG/webpackage/go/signedexchange/structuredheader"
)

func shItemSx(i sh.Item) Sx {
	switch v := i.(type) {
	case int64:
		return L(Sym("i"), Zi(v))
	case string:
		return L(Sym("s"), B([]byte(v)))
	case sh.Token:
		return L(Sym("t"), B([]byte(v)))
	case []byte:
		return L(Sym("b"), B(v))
	}
	return L(Sym("bad"))
}

func shItemOf(s Sx) sh.Item {
	switch string(s.L[0].B) {
	case "i":
		return s.L[1].I64()
	case "s":
		return string(s.L[1].B)
	case "t":
		return sh.Token(string(s.L[1].B))
	case "b":
		return append([]byte{}, s.L[1].B...)
	}
	return true // unsupported item type
}

func shPiSx(pi sh.ParameterisedIdentifier) Sx {
	keys := []string{}
	for k := range pi.Params {
		keys = append(keys, string(k))
	}
	sort.Strings(keys)
	ps := []Sx{}
	for _, k := range keys {
		v := pi.Params[sh.Key(k)]
		if v == nil {
			ps = append(ps, L(B([]byte(k))))
		} else {
			ps = append(ps, L(B([]byte(k)), shItemSx(v)))
		}
	}
	return L(B([]byte(pi.Label)), L(ps...))
}

func shPiOf(s Sx) sh.ParameterisedIdentifier {
	pi := sh.ParameterisedIdentifier{Label: sh.Token(string(s.L[0].B)), Params: sh.Parameters{}}
	for _, p := range s.L[1].L {
		if len(p.L) == 1 {
			pi.Params[sh.Key(string(p.L[0].B))] = nil
		} else {
			pi.Params[sh.Key(string(p.L[0].B))] = shItemOf(p.L[1])
		}
	}
	return pi
}

func shParsePl(input []byte) Sx {
	// parsed twice; the first result is vandalised in between (a caller owns what it gets)
	if pl0, err0 := sh.ParseParameterisedList(string(input)); err0 == nil {
		for i := range pl0 {
			if pl0[i].Params != nil {
				pl0[i].Params["vandal"] = int64(1)
				for k := range pl0[i].Params {
					if b, ok := pl0[i].Params[k].([]byte); ok {
						scribble(b)
					}
				}
			}
			pl0[i].Label = "vandal"
		}
	}
	pl, err := sh.ParseParameterisedList(string(input))
	if err != nil {
		return ErrV()
	}
	out := []Sx{}
	for _, pi := range pl {
		out = append(out, shPiSx(pi))
	}
	return OkV(L(out...))
}

func shParseLol(input []byte) Sx {
	if ll0, err0 := sh.ParseListOfLists(string(input)); err0 == nil {
		for _, l := range ll0 {
			for i := range l {
				if b, ok := l[i].([]byte); ok {
					scribble(b)
				}
				l[i] = sh.Token("vandal")
			}
		}
	}
	ll, err := sh.ParseListOfLists(string(input))
	if err != nil {
		return ErrV()
	}
	out := []Sx{}
	for _, l := range ll {
		in := []Sx{}
		for _, i := range l {
			in = append(in, shItemSx(i))
		}
		out = append(out, L(in...))
	}
	return OkV(L(out...))
}

func init() {
	regOp("sh_parse_pl", func(a []Sx) Sx { return shParsePl(a[0].B) })
	regOp("sh_parse_lol", func(a []Sx) Sx { return shParseLol(a[0].B) })
	regOp("sh_parse_batch", func(a []Sx) Sx {
		out := []Sx{}
		for _, s := range a[0].L {
			out = append(out, L(shParsePl(s.B), shParseLol(s.B)))
		}
		return L(out...)
	})
	regOp("sh_ser_pl", func(a []Sx) Sx {
		pl := sh.ParameterisedList{}
		for _, s := range a {
			pl = append(pl, shPiOf(s))
		}
		str, err := pl.String()
		if err != nil {
			return ErrV()
		}
		return OkV(B([]byte(str)))
	})
	// a sequence of ParameterisedIdentifier.String() calls in one go (what the signer uses): a refused call
	// must leave nothing behind for the next one
	regOp("sh_ser_pi_seq", func(a []Sx) Sx {
		out := []Sx{}
		for _, s := range a {
			pi := shPiOf(s)
			str, err := pi.String()
			if err != nil {
				out = append(out, ErrV())
			} else {
				out = append(out, OkV(B([]byte(str))))
			}
		}
		return L(out...)
	})
	regOp("sh_ser_lol", func(a []Sx) Sx {
		ll := sh.ListOfLists{}
		for _, s := range a {
			in := []sh.Item{}
			for _, i := range s.L {
				in = append(in, shItemOf(i))
			}
			ll = append(ll, in)
		}
		str, err := ll.String()
		if err != nil {
			return ErrV()
		}
		return OkV(B([]byte(str)))
	})
}
