package main

import (
	"bytes"
	"crypto/ecdsa"
	"crypto/ed25519"
	"crypto/sha256"
	"crypto/sha512"
	"crypto/x509"
	"encoding/pem"
	"errors"
	"fmt"
	"net/http"
	"os"
	"os/exec"
	"path/filepath"
	"time"

	"github.com/WICG/webpackage/go/bundle"
	"github.com/WICG/webpackage/go/bundle/signature"
	bver "github.com/WICG/webpackage/go/bundle/version"
	ib "github.com/WICG/webpackage/go/integrityblock"
	"github.com/WICG/webpackage/go/integrityblock/webbundleid"
	"github.com/WICG/webpackage/go/signedexchange/certurl"
	vh "github.com/WICG/webpackage/go/verifhook"
)

func bexchangeOf(x Sx) *bundle.Exchange {
	return &bundle.Exchange{
		Request:  bundle.Request{URL: mustURL(string(x.L[0].B))},
		Response: bundle.Response{Status: x.L[1].Int(), Header: headerOf(x.L[2]), Body: append([]byte{}, x.L[3].B...)}}
}

func bexchangeSx(e *bundle.Exchange) Sx {
	return L(B([]byte(e.Request.URL.String())), Zi(int64(e.Response.Status)), headerSx(e.Response.Header), B(e.Response.Body))
}

func subsetOf(s Sx) *signature.SignedSubset {
	ss := &signature.SignedSubset{ValidityUrl: mustURL(string(s.L[0].B)), AuthSha256: s.L[1].B,
		Date: time.Unix(s.L[2].I64(), 0), Expires: time.Unix(s.L[3].I64(), 0), SubsetHashes: map[string]*signature.ResponseHashes{}}
	for _, e := range s.L[4].L {
		rh := &signature.ResponseHashes{VariantsValue: e.L[1].B}
		for _, h := range e.L[2].L {
			rh.Hashes = append(rh.Hashes, &signature.ResourceIntegrity{HeaderSha256: h.L[0].B, PayloadIntegrityHeader: string(h.L[1].B)})
		}
		ss.SubsetHashes[string(e.L[0].B)] = rh
	}
	return ss
}

// parsed certificates are needed for verification (public key); fall back to Raw only
func augParsed(s Sx) *certurl.AugmentedCertificate {
	a := augOf(s)
	if c, err := x509.ParseCertificate(s.L[0].B); err == nil {
		a.Cert = c
	}
	return a
}

func sigsParsedOf(s Sx) *bundle.Signatures {
	sg := sigsOf(s)
	if sg == nil {
		return nil
	}
	for i, a := range s.L[0].L {
		sg.Authorities[i] = augParsed(a)
	}
	return sg
}

type tableStrategy struct {
	priv ed25519.PrivateKey
	pub  ed25519.PublicKey
	pad  []byte // extra bytes appended to every signature (a misbehaving strategy)
	trim int    // > 0: only the first trim-1 bytes of the signature are returned (1: an empty signature, no error)
}

func (t tableStrategy) Sign(data []byte) ([]byte, error) {
	if t.priv == nil {
		return nil, errors.New("strategy refuses")
	}
	if t.trim > 0 {
		return ed25519.Sign(t.priv, data)[:t.trim-1], nil
	}
	return append(ed25519.Sign(t.priv, data), t.pad...), nil
}
func (t tableStrategy) GetPublicKey() (ed25519.PublicKey, error) { return t.pub, nil }

func attrsOf(s Sx) ib.SignatureAttributesMap {
	m := ib.SignatureAttributesMap{}
	for _, kv := range s.L {
		m[string(kv.L[0].B)] = kv.L[1].B
	}
	return m
}

func stackOf(items []Sx) []*ib.IntegritySignature {
	st := []*ib.IntegritySignature{}
	for _, it := range items {
		st = append(st, &ib.IntegritySignature{SignatureAttributes: attrsOf(it.L[0]), Signature: it.L[1].B})
	}
	return st
}

func stackSx(st []*ib.IntegritySignature) Sx {
	out := []Sx{}
	for _, is := range st {
		keys := []string{}
		for k := range is.SignatureAttributes {
			keys = append(keys, k)
		}
		sortStrings(keys)
		as := []Sx{}
		for _, k := range keys {
			as = append(as, L(B([]byte(k)), B(is.SignatureAttributes[k])))
		}
		out = append(out, L(L(as...), B(is.Signature)))
	}
	return L(out...)
}

func sortStrings(s []string) {
	for i := 1; i < len(s); i++ {
		for j := i; j > 0 && s[j] < s[j-1]; j-- {
			s[j], s[j-1] = s[j-1], s[j]
		}
	}
}

func binDir() string {
	if d := os.Getenv("VERIF_BIN"); d != "" {
		return d
	}
	return "/verif/.work/bin"
}

func tmpDir() (string, func()) {
	base := os.Getenv("VERIF_TMP")
	if base == "" {
		base = os.TempDir()
	}
	d, err := os.MkdirTemp(base, "vh")
	if err != nil {
		panic(err)
	}
	return d, func() { os.RemoveAll(d) }
}

func ed25519PEM(priv ed25519.PrivateKey) []byte {
	der, err := x509.MarshalPKCS8PrivateKey(priv)
	if err != nil {
		panic(err)
	}
	return pem.EncodeToMemory(&pem.Block{Type: "PRIVATE KEY", Bytes: der})
}

func init() {
	regOp("sha512", func(a []Sx) Sx { h := sha512.Sum512(a[0].B); return B(h[:]) })
	regOp("bsig_encode", func(a []Sx) Sx {
		b, err := subsetOf(a[0]).Encode()
		if err != nil {
			return ErrV()
		}
		return OkV(B(b))
	})
	regOp("bsig_add_integrity", func(a []Sx) Sx {
		e := bexchangeOf(a[0])
		id, err := e.AddPayloadIntegrity(bver.VersionB2, a[1].Int())
		if err != nil {
			return ErrV()
		}
		return OkV(L(bexchangeSx(e), B([]byte(id))))
	})
	regOp("bsig_verify", func(a []Sx) (res Sx) {
		defer func() {
			if r := recover(); r != nil {
				res = L(Sym("panic"))
			}
		}()
		sigs := sigsParsedOf(a[0])
		v, err := signature.NewVerifier(sigs, time.Unix(a[1].I64(), a[2].I64()), bverOf(a[3]))
		if err != nil {
			return L(Sym("newerr"))
		}
		out := []Sx{}
		for _, x := range a[4].L {
			r, err := v.VerifyExchange(bexchangeOf(x))
			switch {
			case err != nil:
				out = append(out, L(Sym("err")))
			case r == nil:
				out = append(out, L(Sym("unsigned")))
			default:
				out = append(out, L(Sym("ok"), B(r.VerifiedPayload), B(r.Authority.Cert.Raw)))
			}
		}
		return L(Sym("verifier"), L(out...))
	})
	regOp("bsig_sign_flow", func(a []Sx) Sx {
		ver := bverOf(a[0])
		sigs := sigsOf(a[1])
		chain := certurl.CertChain{}
		for _, c := range a[2].L {
			chain = append(chain, augOf(c))
		}
		signer, err := signature.NewSigner(ver, chain, nil, mustURL(string(a[3].B)), time.Unix(a[4].I64(), []int64{600000000, 0, 999999999, 500000000}[a[4].I64()&3]), time.Duration(a[5].I64())*time.Second)
		// (round 16) the signing date carries a sub-second part of 600/0/999.999999/500 ms chosen by its seconds value:
		// the signature's date and expires are whole seconds rounded DOWN, which is what the model computes
		if err != nil {
			return ErrV()
		}
		signer.Algorithm = &vh.MockSigningAlgorithm{}
		xs := []Sx{}
		for _, it := range a[6].L {
			e := bexchangeOf(it.L[0])
			if it.L[1].Z.Sign() != 0 {
				id, err := e.AddPayloadIntegrity(ver, a[7].Int())
				if err != nil {
					return ErrV()
				}
				if err := signer.AddExchange(e, id); err != nil {
					return ErrV()
				}
			}
			xs = append(xs, bexchangeSx(e))
		}
		ns, err := signer.UpdateSignatures(sigs)
		if err != nil {
			return ErrV()
		}
		return OkV(L(sigsSx(ns), L(xs...)))
	})
	// ---- integrity block
	regOp("ib_block_cbor", func(a []Sx) Sx {
		blk := &ib.IntegrityBlock{Magic: ib.IntegrityBlockMagic, Version: ib.VersionB1, SignatureStack: stackOf(a)}
		b, err := blk.CborBytes()
		if err != nil {
			return ErrV()
		}
		return OkV(B(b))
	})
	regOp("ib_dtbs", func(a []Sx) Sx {
		b, err := ib.GenerateDataToBeSigned(a[0].B, a[1].B, attrsOf(a[2]))
		if err != nil {
			return ErrV()
		}
		return OkV(B(b))
	})
	regOp("ib_obtain", func(a []Sx) Sx {
		d, clean := tmpDir()
		defer clean()
		p := filepath.Join(d, "in.wbn")
		if err := os.WriteFile(p, a[0].B, 0600); err != nil {
			panic(err)
		}
		f, err := os.Open(p)
		if err != nil {
			panic(err)
		}
		defer f.Close()
		blk, off, err := ib.ObtainIntegrityBlock(f)
		if err != nil || blk == nil || off != 0 || len(blk.SignatureStack) != 0 {
			return ErrV()
		}
		return OkV(L())
	})
	regOp("ib_sign_and_add", func(a []Sx) Sx {
		// a[4]: (seed|() pubkey-of-strategy) packed by the generator as extra arg a[6]
		blk := &ib.IntegrityBlock{Magic: ib.IntegrityBlockMagic, Version: ib.VersionB1, SignatureStack: stackOf(a[1].L)}
		var st tableStrategy
		if len(a) > 6 && a[6].K == 1 && len(a[6].B) == ed25519.SeedSize {
			st.priv = ed25519.NewKeyFromSeed(a[6].B)
			st.pub = st.priv.Public().(ed25519.PublicKey)
		}
		if len(a) > 7 && a[7].K == 1 {
			st.pad = a[7].B
		}
		if len(a) > 7 && a[7].K == 2 && len(a[7].L) == 2 {
			st.trim = a[7].L[1].Int()
		}
		s := ib.IntegrityBlockSigner{SigningStrategy: st, WebBundleHash: a[0].B, IntegrityBlock: blk}
		if err := s.SignAndAddNewSignature(ed25519.PublicKey(a[2].B), attrsOf(a[3])); err != nil {
			return ErrV()
		}
		return OkV(stackSx(blk.SignatureStack))
	})
	// several SignAndAddNewSignature calls on ONE signer; the stack is reported after each
	regOp("ib_sign_attempts", func(a []Sx) Sx {
		blk := &ib.IntegrityBlock{Magic: ib.IntegrityBlockMagic, Version: ib.VersionB1, SignatureStack: stackOf(a[1].L)}
		s := ib.IntegrityBlockSigner{WebBundleHash: a[0].B, IntegrityBlock: blk}
		out := []Sx{}
		for _, at := range a[2].L {
			var st tableStrategy
			if at.L[4].K == 1 && len(at.L[4].B) == ed25519.SeedSize {
				st.priv = ed25519.NewKeyFromSeed(at.L[4].B)
				st.pub = st.priv.Public().(ed25519.PublicKey)
			}
			if at.L[5].K == 1 && len(at.L[5].B) > 0 {
				st.pad = at.L[5].B
			}
			if at.L[5].K == 2 && len(at.L[5].L) == 2 {
				st.trim = at.L[5].L[1].Int()
			}
			s.SigningStrategy = st
			tag := "ok"
			if err := s.SignAndAddNewSignature(ed25519.PublicKey(at.L[0].B), attrsOf(at.L[1])); err != nil {
				tag = "err"
			}
			out = append(out, L(Sym(tag), stackSx(s.IntegrityBlock.SignatureStack)))
		}
		return L(out...)
	})
	// AddExchange refused (response header it cannot encode), the exchange repaired, added again on the SAME
	// signer, signatures updated: the repaired exchange must be accepted and everything must verify
	regOp("bsig_add_retry", func(a []Sx) (res Sx) {
		defer func() {
			if r := recover(); r != nil {
				res = L(Sym("panic"))
			}
		}()
		sigKeysOnce()
		ver := []bver.Version{bver.VersionB1, bver.VersionB2}[a[0].Int()%2]
		leaf := sigKeys[0]
		chain := certurl.CertChain{{Cert: leaf.cert, OCSPResponse: []byte("ocsp")}}
		date := time.Unix(baseDate, 0)
		signer, err := signature.NewSigner(ver, chain, leaf.priv, mustURL("https://example.com/validity"), date, time.Hour)
		if err != nil {
			return L(Sym("err"))
		}
		mk := func(u, body string) *bundle.Exchange {
			h := http.Header{}
			h.Add("Content-Type", "text/plain")
			return &bundle.Exchange{Request: bundle.Request{URL: mustURL(u), Header: http.Header{}}, Response: bundle.Response{Status: 200, Header: h, Body: []byte(body)}}
		}
		good, bad := mk("https://example.com/a", "aaa"), mk("https://example.com/b", "bbb")
		out := []Sx{}
		add := func(e *bundle.Exchange) {
			id := "digest/mi-sha256-03"
			if e.Response.Header.Get("Digest") == "" {
				var err error
				if id, err = e.AddPayloadIntegrity(ver, 16); err != nil {
					out = append(out, Sym("integrity_err"))
					return
				}
			}
			out = append(out, Bool(signer.AddExchange(e, id) == nil))
		}
		add(good)
		bad.Response.Header["X-Bad"] = []string{"caf\u00e9"} // EncodeHeader refuses it: AddExchange must fail ...
		add(bad)
		delete(bad.Response.Header, "X-Bad") // ... and succeed once the exchange is repaired
		add(bad)
		b := &bundle.Bundle{Version: ver, PrimaryURL: mustURL("https://example.com/a"), Exchanges: []*bundle.Exchange{good, bad}}
		ns, err := signer.UpdateSignatures(nil)
		if err != nil {
			return L(append(out, Sym("update_err"))...)
		}
		b.Signatures = ns
		v, err := signature.NewVerifier(b.Signatures, date.Add(10*time.Second), ver)
		if err != nil {
			return L(append(out, Sym("verifier_error"))...)
		}
		for _, e := range b.Exchanges {
			r, err := v.VerifyExchange(e)
			out = append(out, Bool(err == nil && r != nil))
		}
		return L(out...)
	})
	// two signer OBJECTS sharing one integrity block, used in an interleaved order (each attempt names its signer)
	regOp("ib_sign_shared", func(a []Sx) Sx {
		blk := &ib.IntegrityBlock{Magic: ib.IntegrityBlockMagic, Version: ib.VersionB1, SignatureStack: stackOf(a[1].L)}
		signers := []*ib.IntegrityBlockSigner{{WebBundleHash: a[0].B, IntegrityBlock: blk}, {WebBundleHash: a[0].B, IntegrityBlock: blk}}
		out := []Sx{}
		for _, at := range a[2].L {
			s := signers[at.L[6].Int()%2]
			var st tableStrategy
			if at.L[4].K == 1 && len(at.L[4].B) == ed25519.SeedSize {
				st.priv = ed25519.NewKeyFromSeed(at.L[4].B)
				st.pub = st.priv.Public().(ed25519.PublicKey)
			}
			if at.L[5].K == 1 && len(at.L[5].B) > 0 {
				st.pad = at.L[5].B
			}
			if at.L[5].K == 2 && len(at.L[5].L) == 2 {
				st.trim = at.L[5].L[1].Int()
			}
			s.SigningStrategy = st
			tag := "ok"
			if err := s.SignAndAddNewSignature(ed25519.PublicKey(at.L[0].B), attrsOf(at.L[1])); err != nil {
				tag = "err"
			}
			out = append(out, L(Sym(tag), stackSx(blk.SignatureStack)))
		}
		return L(out...)
	})
	// CanSignForURL against the standard library's own hostname matching
	// bsig_resign ver i: ONE signer signs, its window is moved a week on (Date, Expires), its validity URL changed,
	// it signs again: the second signature must verify in the NEW window (and not in the old one), the first
	// one in the old window
	regOp("bsig_resign", func(a []Sx) (res Sx) {
		defer func() {
			if r := recover(); r != nil {
				res = L(Sym("panic"))
			}
		}()
		sigKeysOnce()
		ver := bverOf(a[0])
		leaf := sigKeys[[]int{0, 1, 3}[a[1].Int()%3]]
		host := leaf.cert.DNSNames[0]
		chain := certurl.CertChain{{Cert: leaf.cert, OCSPResponse: []byte("ocsp")}, {Cert: sigKeys[2].cert}}
		signer, err := signature.NewSigner(ver, chain, leaf.priv, mustURL("https://"+host+"/v1"), time.Unix(baseDate, 0), time.Hour)
		if err != nil {
			return L(Sym("nosigner"))
		}
		h := http.Header{}
		h.Add("Content-Type", "text/plain")
		e := &bundle.Exchange{Request: bundle.Request{URL: mustURL("https://" + host + "/renewed"), Header: http.Header{}},
			Response: bundle.Response{Status: 200, Header: h, Body: []byte("renewed signature")}}
		id, err := e.AddPayloadIntegrity(ver, 16)
		if err != nil || signer.AddExchange(e, id) != nil {
			return L(Sym("noadd"))
		}
		week := int64(7 * 24 * 3600)
		verdict := func(sigs *bundle.Signatures, at int64) Sx {
			v, err := signature.NewVerifier(sigs, time.Unix(at, 0), ver)
			if err != nil {
				return Zi(0)
			}
			r, err := v.VerifyExchange(e)
			return Bool(err == nil && r != nil)
		}
		s1, err := signer.UpdateSignatures(nil)
		if err != nil {
			return L(Sym("nosign"))
		}
		signer.Date, signer.Expires = signer.Date.Add(time.Duration(week)*time.Second), signer.Expires.Add(time.Duration(week)*time.Second)
		signer.ValidityUrl = mustURL("https://" + host + "/v2")
		s2, err := signer.UpdateSignatures(nil)
		if err != nil {
			return L(Sym("nosign2"))
		}
		return L(verdict(s1, baseDate+10), verdict(s1, baseDate+week+10), verdict(s2, baseDate+week+10), verdict(s2, baseDate+10))
	})
	regOp("bsig_can_sign", func(a []Sx) Sx {
		chain := certurl.CertChain{}
		for _, c := range a[0].L {
			chain = append(chain, augParsed(c))
		}
		signer, err := signature.NewSigner(bver.VersionB1, chain, nil, mustURL("https://v.example/"), time.Unix(0, 0), time.Hour)
		if err != nil {
			return L(Sym("newerr"))
		}
		u := mustURL(string(a[1].B))
		want := chain[0].Cert.VerifyHostname(u.Hostname()) == nil
		if signer.CanSignForURL(u) == want {
			return L(Sym("same"))
		}
		return L(Sym("differ"), Bool(want))
	})
	// one signer chain object (3 certificates: len 3, cap 4 from NewCertChain) is the FIRST signer of two
	// bundles; each bundle then gets a second signer.  Both bundles must still verify afterwards.
	regOp("bsig_two_bundles", func(a []Sx) (res Sx) {
		defer func() {
			if r := recover(); r != nil {
				res = L(Sym("panic"))
			}
		}()
		sigKeysOnce()
		ver := []bver.Version{bver.VersionB1, bver.VersionB2}[a[0].Int()%2]
		leafA, inter := sigKeys[0], sigKeys[2]
		chainA, err := certurl.NewCertChain([]*x509.Certificate{leafA.cert, inter.cert, inter.cert}, []byte("ocsp"), nil)
		if err != nil {
			return L(Sym("err"))
		}
		seconds := []keyMat{sigKeys[1], sigKeys[3]}
		date := time.Unix(baseDate, 0)
		bundles := []*bundle.Bundle{}
		for bi := 0; bi < 2; bi++ {
			b := &bundle.Bundle{Version: ver, PrimaryURL: mustURL("https://example.com/")}
			for _, u := range []string{"https://example.com/", "https://" + seconds[bi].cert.DNSNames[0] + "/x"} {
				h := http.Header{}
				h.Add("Content-Type", "text/plain")
				b.Exchanges = append(b.Exchanges, &bundle.Exchange{Request: bundle.Request{URL: mustURL(u), Header: http.Header{}},
					Response: bundle.Response{Status: 200, Header: h, Body: []byte(fmt.Sprintf("body %d %s", bi, u))}})
			}
			bundles = append(bundles, b)
		}
		sign := func(b *bundle.Bundle, chain certurl.CertChain, k keyMat) error {
			signer, err := signature.NewSigner(ver, chain, k.priv, mustURL("https://"+k.cert.DNSNames[0]+"/validity"), date, time.Hour)
			if err != nil {
				return err
			}
			for _, e := range b.Exchanges {
				if !signer.CanSignForURL(e.Request.URL) || e.Response.Header.Get("Digest") != "" {
					continue
				}
				id, err := e.AddPayloadIntegrity(ver, 16)
				if err != nil {
					return err
				}
				if err := signer.AddExchange(e, id); err != nil {
					return err
				}
			}
			ns, err := signer.UpdateSignatures(b.Signatures)
			if err != nil {
				return err
			}
			b.Signatures = ns
			return nil
		}
		for _, b := range bundles { // the shared chain signs first, in both bundles
			if err := sign(b, chainA, leafA); err != nil {
				return L(Sym("err"))
			}
		}
		for bi, b := range bundles { // then a different second signer for each
			k := seconds[bi]
			chain := certurl.CertChain{{Cert: k.cert, OCSPResponse: []byte("ocsp")}}
			if err := sign(b, chain, k); err != nil {
				return L(Sym("err"))
			}
		}
		out := []Sx{}
		for _, b := range bundles {
			v, err := signature.NewVerifier(b.Signatures, date.Add(10*time.Second), ver)
			if err != nil {
				out = append(out, Sym("verifier_error"))
				continue
			}
			good := true
			for _, e := range b.Exchanges {
				r, err := v.VerifyExchange(e)
				if err != nil || r == nil {
					good = false
				}
			}
			out = append(out, Bool(good))
		}
		return L(out...)
	})
	regOp("ib_sign_file", func(a []Sx) Sx {
		// through the sign-bundle binary: integrity-block sub-command
		d, clean := tmpDir()
		defer clean()
		in, out, key := filepath.Join(d, "in.wbn"), filepath.Join(d, "out.swbn"), filepath.Join(d, "key.pem")
		os.WriteFile(in, a[0].B, 0600)
		priv := ed25519.NewKeyFromSeed(a[4].B)
		os.WriteFile(key, ed25519PEM(priv), 0600)
		cmd := exec.Command(filepath.Join(binDir(), "sign-bundle"), "integrity-block", "-i", in, "-o", out, "-privateKey", key)
		var so bytes.Buffer
		cmd.Stdout = &so
		cmd.Stderr = &so
		if err := cmd.Run(); err != nil {
			return ErrV()
		}
		b, err := os.ReadFile(out)
		if err != nil {
			return ErrV()
		}
		if !bytes.Contains(so.Bytes(), []byte("Web Bundle ID: "+webbundleid.GetWebBundleId(priv.Public().(ed25519.PublicKey)))) {
			return L(Sym("badid"))
		}
		return OkV(B(b))
	})
	regOp("ib_id", func(a []Sx) Sx { return B([]byte(webbundleid.GetWebBundleId(ed25519.PublicKey(a[0].B)))) })
}

func ecdsaOK(k keyMat, msg, sig []byte) bool {
	priv, ok := k.priv.(*ecdsa.PrivateKey)
	if !ok {
		return false
	}
	var digest []byte
	if priv.Curve.Params().BitSize == 384 {
		h := sha512.Sum384(msg)
		digest = h[:]
	} else {
		h := sha256.Sum256(msg)
		digest = h[:]
	}
	return ecdsa.VerifyASN1(&priv.PublicKey, digest, sig)
}
