package main

import (
	"bytes"
	"crypto/rand"
	"crypto/x509"
	"fmt"
	"net/http"
	"sync"
	"time"

	"github.com/WICG/webpackage/go/bundle"
	"github.com/WICG/webpackage/go/bundle/signature"
	sxg "github.com/WICG/webpackage/go/signedexchange"
	"github.com/WICG/webpackage/go/signedexchange/certurl"
	vh "github.com/WICG/webpackage/go/verifhook"
)

// runMany calls f from n goroutines released together, plus twice sequentially,
// and reports whether all results are identical.
func runMany(n int, seed uint64, f func() Sx) Sx { return runManyRef(n, seed, f, f) }

// runManyRef takes the sequential reference result from ref -- for a shared object, the same call on
// a second object built from the same description -- so that the FIRST use of the shared object is
// already concurrent (a serializer that stores something into its input on first use only would
// otherwise have done so before the goroutines start).
func runManyRef(n int, seed uint64, f func() Sx, ref func() Sx) Sx {
	results := make([]string, n+2)
	results[0] = ref().String()
	start := make(chan struct{})
	var wg sync.WaitGroup
	order := NewRng(seed)
	for i := 0; i < n; i++ {
		wg.Add(1)
		delay := time.Duration(order.Intn(200)) * time.Microsecond
		go func(i int) {
			defer wg.Done()
			<-start
			time.Sleep(delay)
			defer func() {
				if r := recover(); r != nil {
					results[i+1] = "(panic)"
				}
			}()
			results[i+1] = f().String()
		}(i)
	}
	close(start)
	wg.Wait()
	results[n+1] = f().String()
	same := true
	for _, r := range results {
		if r != results[0] {
			same = false
		}
	}
	first, _ := ParseSx(results[0])
	return L(Bool(same), first)
}

// conc op (args) n seed : the op itself (fresh objects per call) from n goroutines
func opConc(a []Sx) Sx {
	f, ok := ops[string(a[0].B)]
	if !ok {
		return L(Sym("unknown_op"))
	}
	return runMany(a[2].Int(), a[3].U64(), func() Sx { return f(a[1].L) })
}

func bytesR(b []byte, err error) Sx {
	if err != nil {
		return ErrV()
	}
	return OkV(B(b))
}

// an exchange built by hand may have nil header maps: a serializer must not fill them in (a write to the shared input)
func nilEmptyMaps(e *sxg.Exchange) {
	if len(e.ResponseHeaders) == 0 {
		e.ResponseHeaders = nil
	}
	if len(e.RequestHeaders) == 0 {
		e.RequestHeaders = nil
	}
}

func inputKept(e *sxg.Exchange, r Sx) Sx {
	if (len(e.ResponseHeaders) == 0 && e.ResponseHeaders != nil) || (len(e.RequestHeaders) == 0 && e.RequestHeaders != nil) {
		return L(Sym("input_changed"))
	}
	return r
}

// conc_shared kind (artifact) n seed : ONE parsed object shared by all goroutines
func opConcShared(a []Sx) Sx {
	kind, art := string(a[0].B), a[1].L
	n, seed := a[2].Int(), a[3].U64()
	switch kind {
	case "bundle":
		on := func(b *bundle.Bundle) func() Sx {
			return func() Sx {
				var buf bytes.Buffer
				_, err := b.WriteTo(&buf)
				return bytesR(buf.Bytes(), err)
			}
		}
		return runManyRef(n, seed, on(bundleOf(art[0])), on(bundleOf(art[0])))
	case "sxg":
		on := func(e *sxg.Exchange) func() Sx {
			nilEmptyMaps(e)
			return func() Sx {
				var buf bytes.Buffer
				err := e.Write(&buf)
				return bytesR(buf.Bytes(), err)
			}
		}
		e := exchangeOf(art[0])
		return inputKept(e, runManyRef(n, seed, on(e), on(exchangeOf(art[0]))))
	case "sxg_headers":
		on := func(e *sxg.Exchange) func() Sx {
			nilEmptyMaps(e)
			return func() Sx {
				var buf bytes.Buffer
				err := e.DumpExchangeHeaders(&buf)
				return bytesR(buf.Bytes(), err)
			}
		}
		e := exchangeOf(art[0])
		return inputKept(e, runManyRef(n, seed, on(e), on(exchangeOf(art[0]))))
	case "sxg_message":
		on := func(e *sxg.Exchange) func() Sx {
			s := &sxg.Signer{Date: time.Unix(art[3].I64(), 0), Expires: time.Unix(art[4].I64(), 0),
				Certs: fakeCerts(art[1]), ValidityUrl: mustURL(string(art[2].B))}
			return func() Sx {
				var buf bytes.Buffer
				err := e.DumpSignedMessage(&buf, s)
				return bytesR(buf.Bytes(), err)
			}
		}
		return runManyRef(n, seed, on(exchangeOf(art[0])), on(exchangeOf(art[0])))
	case "certchain":
		on := func() func() Sx {
			chain := certurl.CertChain{}
			for _, it := range art {
				chain = append(chain, augOf(it))
			}
			return func() Sx {
				var buf bytes.Buffer
				err := chain.Write(&buf)
				return bytesR(buf.Bytes(), err)
			}
		}
		return runManyRef(n, seed, on(), on())
	}
	return L(Sym("badkind"))
}

// conc_signer: one shared Signer (real ECDSA key, no preset algorithm) signs
// n copies of an exchange concurrently; every resulting exchange must verify.
// Signature bytes are randomised, so only the verdicts are compared.
func opConcSigner(a []Sx) Sx {
	keysOnce()
	key := sxgKeys[a[1].Int()%2]
	n := a[2].Int()
	signer := &sxg.Signer{Date: time.Unix(baseDate, 0), Expires: time.Unix(baseDate+100, 0), Certs: []*x509.Certificate{key.cert},
		CertUrl: mustURL("https://cert.example.org/cert.cbor"), ValidityUrl: mustURL("https://example.com/v"), PrivKey: key.priv}
	if len(a) > 3 && a[3].IsSym("alg") {
		// the caller supplies ONE algorithm object (Signer.Algorithm), used by every goroutine
		alg, err := vh.SigningAlgorithmForPrivateKey(key.priv, rand.Reader)
		if err != nil {
			return L(Sym("noalg"))
		}
		signer.Algorithm = alg
	}
	chain := chainBytes([][]byte{key.der})
	oks := make([]bool, n)
	var wg sync.WaitGroup
	start := make(chan struct{})
	for i := 0; i < n; i++ {
		wg.Add(1)
		go func(i int) {
			defer wg.Done()
			defer func() { recover() }() // a goroutine that dies leaves its verdict false
			e := exchangeOf(a[0])
			<-start
			if err := e.MiEncodePayload(16); err != nil {
				return
			}
			if err := e.AddSignatureHeader(signer); err != nil {
				return
			}
			_, ok := e.Verify(time.Unix(baseDate+1, 0), func(string) ([]byte, error) { return chain, nil }, discardLog)
			oks[i] = ok
		}(i)
	}
	close(start)
	wg.Wait()
	all := true
	for _, ok := range oks {
		all = all && ok
	}
	return L(Bool(all))
}

var _ = bundle.Read

// sxg_signer_rekey ver i: ONE Signer signs an exchange with key K1, is re-keyed (PrivKey, Certs), signs a
// second exchange with K2; each exchange must verify against the certificate it names.
func opSxgSignerRekey(a []Sx) Sx {
	keysOnce()
	ver := sxgVersions[a[0].Int()%3]
	k1, k2 := sxgKeys[a[1].Int()%2], sxgKeys[(a[1].Int()+1)%2]
	if a[1].Int()%3 == 2 {
		k2 = sxgKeys[2]
	}
	if a[1].Int() >= 6 { // a renewed certificate for the SAME key pair (new serial number, other subject details)
		der := newCert(k1.cert.PublicKey, k1.priv, "example.com", 9+a[1].Int())
		cert, _ := x509.ParseCertificate(der)
		k2 = keyMat{k1.priv, der, cert, k1.kid}
	}
	signer := &sxg.Signer{Date: time.Unix(baseDate, 0), Expires: time.Unix(baseDate+100, 0), Certs: []*x509.Certificate{k1.cert},
		CertUrl: mustURL("https://cert.example.org/cert.cbor"), ValidityUrl: mustURL("https://example.com/v"), PrivKey: k1.priv}
	out := []Sx{}
	for step, k := range []keyMat{k1, k2, k1} {
		if step > 0 {
			signer.PrivKey, signer.Certs = k.priv, []*x509.Certificate{k.cert}
		}
		h := http.Header{}
		h.Add("Content-Type", "text/html")
		e := sxg.NewExchange(ver, "https://example.com/index.html", "GET", http.Header{}, 200, h, []byte("payload of step "+fmt.Sprint(step)))
		if err := e.MiEncodePayload(16); err != nil {
			return L(Sym("err"))
		}
		if err := e.AddSignatureHeader(signer); err != nil {
			return L(Sym("err"))
		}
		chain := chainBytes([][]byte{k.der})
		_, ok := e.Verify(time.Unix(baseDate+1, 0), func(string) ([]byte, error) { return chain, nil }, discardLog)
		out = append(out, Bool(ok))
	}
	return L(out...)
}

// conc_bsig_signer ver n seed: ONE bundle signature.Signer (deterministic mock algorithm, one exchange added) whose
// UpdateSignatures(nil) is called from n goroutines: every call must return the same signatures section
func opConcBsigSigner(a []Sx) Sx {
	sigKeysOnce()
	ver := bverOf(a[0])
	leaf := sigKeys[0]
	chain := certurl.CertChain{{Cert: leaf.cert, OCSPResponse: []byte("ocsp")}, {Cert: sigKeys[2].cert}}
	signer, err := signature.NewSigner(ver, chain, leaf.priv, mustURL("https://"+leaf.cert.DNSNames[0]+"/v"), time.Unix(baseDate, 0), time.Hour)
	if err != nil {
		return L(Sym("nosigner"))
	}
	signer.Algorithm = &vh.MockSigningAlgorithm{}
	h := http.Header{}
	h.Add("Content-Type", "text/plain")
	e := &bundle.Exchange{Request: bundle.Request{URL: mustURL("https://" + leaf.cert.DNSNames[0] + "/shared"), Header: http.Header{}},
		Response: bundle.Response{Status: 200, Header: h, Body: []byte("shared signer")}}
	id, err := e.AddPayloadIntegrity(ver, 16)
	if err != nil {
		return L(Sym("nointegrity"))
	}
	if err := signer.AddExchange(e, id); err != nil {
		return L(Sym("noadd"))
	}
	r := runMany(a[1].Int(), a[2].U64(), func() Sx {
		sigs, err := signer.UpdateSignatures(nil)
		if err != nil {
			return ErrV()
		}
		return OkV(sigsSx(sigs))
	})
	return L(r.L[0], Bool(r.L[1].K == 2 && len(r.L[1].L) > 0 && r.L[1].L[0].IsSym("ok")))
}

func init() {
	regOp("conc_bsig_signer", opConcBsigSigner)
	regOp("sxg_signer_rekey", opSxgSignerRekey)
	regOp("conc", opConc)
	regOp("conc_shared", opConcShared)
	regOp("conc_signer", opConcSigner)
}
