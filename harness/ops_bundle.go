package main

import (
	"strings"
	"bytes"
	"crypto/x509"
	"errors"
	"io"
	"net/http"
	"net/url"

	"github.com/WICG/webpackage/go/bundle"
	bver "github.com/WICG/webpackage/go/bundle/version"
	"github.com/WICG/webpackage/go/signedexchange/certurl"
)

func bverOf(s Sx) bver.Version {
	if s.IsSym("b1") {
		return bver.VersionB1
	}
	return bver.VersionB2
}

func optURL(s Sx) *url.URL {
	if s.K != 1 {
		return nil
	}
	return assembledURL(string(s.B))
}

func optURLSx(u *url.URL) Sx {
	if u == nil {
		return L()
	}
	return B([]byte(u.String()))
}

func augOf(s Sx) *certurl.AugmentedCertificate {
	return &certurl.AugmentedCertificate{Cert: &x509.Certificate{Raw: s.L[0].B}, OCSPResponse: optB(s.L[1]), SCTList: optB(s.L[2])}
}

func sigsOf(s Sx) *bundle.Signatures {
	if len(s.L) == 0 {
		return nil
	}
	sg := &bundle.Signatures{}
	for _, a := range s.L[0].L {
		sg.Authorities = append(sg.Authorities, augOf(a))
	}
	for _, v := range s.L[1].L {
		sg.VouchedSubsets = append(sg.VouchedSubsets, &bundle.VouchedSubset{Authority: v.L[0].U64(), Sig: v.L[1].B, Signed: v.L[2].B})
	}
	return sg
}

func sigsSx(sg *bundle.Signatures) Sx {
	if sg == nil {
		return L()
	}
	as := []Sx{}
	for _, a := range sg.Authorities {
		as = append(as, L(B(a.Cert.Raw), optSx(a.OCSPResponse), optSx(a.SCTList)))
	}
	vs := []Sx{}
	for _, v := range sg.VouchedSubsets {
		vs = append(vs, L(Zu(v.Authority), B(v.Sig), B(v.Signed)))
	}
	return L(L(as...), L(vs...))
}

// assembledURL builds the URL with the given string form the way a caller that fills the fields by hand may:
// for "…?query#fragment" the fragment sits inside RawQuery (Fragment stays empty) although String() is the
// same text.  What a writer does with a URL may only depend on that text.
func assembledURL(s string) *url.URL {
	u := mustURL(s)
	if q := strings.IndexByte(s, '?'); q >= 0 && u.Opaque == "" && u.Fragment != "" && u.RawFragment == "" && strings.IndexByte(s, '#') > q {
		c := *u
		c.RawQuery, c.Fragment = u.RawQuery+"#"+u.Fragment, ""
		if c.String() == s {
			return &c
		}
	}
	return u
}

func bundleOf(s Sx) *bundle.Bundle {
	b := &bundle.Bundle{Version: bverOf(s.L[0]), PrimaryURL: optURL(s.L[1]), ManifestURL: optURL(s.L[2]), Signatures: sigsOf(s.L[3])}
	for _, x := range s.L[4].L {
		b.Exchanges = append(b.Exchanges, &bundle.Exchange{
			Request:  bundle.Request{URL: assembledURL(string(x.L[0].B)), Header: http.Header{}},
			Response: bundle.Response{Status: x.L[1].Int(), Header: headerOf(x.L[2]), Body: append([]byte{}, x.L[3].B...)}})
	}
	return b
}

func bundleSx(b *bundle.Bundle) Sx {
	xs := []Sx{}
	for _, e := range b.Exchanges {
		xs = append(xs, L(B([]byte(e.Request.URL.String())), Zi(int64(e.Response.Status)), headerSx(e.Response.Header), B(e.Response.Body)))
	}
	v := Sym("b2")
	if b.Version == bver.VersionB1 {
		v = Sym("b1")
	}
	return L(v, optURLSx(b.PrimaryURL), optURLSx(b.ManifestURL), sigsSx(b.Signatures), L(xs...))
}

// input form: headers as ordered pairs
func bundleInSx(b *bundle.Bundle) Sx {
	s := bundleSx(b)
	xs := []Sx{}
	for _, e := range b.Exchanges {
		pairs := []Sx{}
		for _, nv := range headerSx(e.Response.Header).L {
			for _, v := range nv.L[1].L {
				pairs = append(pairs, L(nv.L[0], v))
			}
		}
		xs = append(xs, L(B([]byte(e.Request.URL.String())), Zi(int64(e.Response.Status)), L(pairs...), B(e.Response.Body)))
	}
	s.L[4] = L(xs...)
	return s
}

// plainWriter hides bytes.Buffer's ReadFrom
type plainWriter struct{ w io.Writer }

func (p plainWriter) Write(b []byte) (int, error) { return p.w.Write(b) }

// faultWriter accepts at most budget bytes (budget < 0: unlimited)
type faultWriter struct {
	acc    []byte
	budget int
	short  bool
	silent bool // a short write that reports no error
	full   bool // the failing Write (and every later one) takes ALL the bytes and still reports an error
	failed bool
}

// rfDest is a destination that is itself an io.ReaderFrom (as *os.File, *bufio.Writer, *bytes.Buffer are):
// CountingWriter.ReadFrom hands the source over to it
type rfDest struct{ *faultWriter }

func (d rfDest) ReadFrom(r io.Reader) (int64, error) {
	buf := make([]byte, 32*1024)
	var n int64
	for {
		nr, er := r.Read(buf)
		if nr > 0 {
			nw, ew := d.faultWriter.Write(buf[:nr])
			n += int64(nw)
			if ew != nil {
				return n, ew
			}
			if nw < nr {
				return n, io.ErrShortWrite
			}
		}
		if er == io.EOF {
			return n, nil
		}
		if er != nil {
			return n, er
		}
	}
}

var errFault = errors.New("injected write fault")

func (f *faultWriter) Write(p []byte) (int, error) {
	if f.full && (f.failed || (f.budget >= 0 && len(p) > f.budget)) {
		f.failed = true
		f.acc = append(f.acc, p...)
		return len(p), errFault
	}
	if f.budget < 0 || len(p) <= f.budget {
		f.acc = append(f.acc, p...)
		if f.budget >= 0 {
			f.budget -= len(p)
		}
		return len(p), nil
	}
	if f.short {
		n := f.budget
		f.acc = append(f.acc, p[:n]...)
		f.budget = 0
		if f.silent {
			return n, nil
		}
		return n, errFault
	}
	return 0, errFault
}

func scribble(b []byte) {
	for i := range b {
		b[i] ^= 0xa5
	}
}

func vandaliseURL(u *url.URL) {
	if u != nil {
		u.Scheme, u.Host, u.Path, u.RawPath, u.RawQuery = "http", "vandal.test", u.Path+"/vandal", "", "v=1"
	}
}

func vandaliseBundle(b *bundle.Bundle) {
	vandaliseURL(b.PrimaryURL)
	vandaliseURL(b.ManifestURL)
	for _, e := range b.Exchanges {
		if e == nil {
			continue
		}
		vandaliseURL(e.Request.URL)
		e.Response.Status = 599
		for k, vs := range e.Response.Header {
			for i := range vs {
				vs[i] = "vandal"
			}
			e.Response.Header[k] = append(vs, "more")
		}
		if e.Response.Header != nil {
			e.Response.Header["X-Vandal"] = []string{"1"}
		}
		scribble(e.Response.Body)
	}
	if b.Signatures != nil {
		for _, a := range b.Signatures.Authorities {
			if a != nil {
				scribble(a.OCSPResponse)
				scribble(a.SCTList)
				if a.Cert != nil {
					scribble(a.Cert.Raw)
				}
			}
		}
		for _, v := range b.Signatures.VouchedSubsets {
			if v != nil {
				scribble(v.Sig)
				scribble(v.Signed)
				v.Authority = 77
			}
		}
	}
}

func init() {
	// version.Parse: exactly the two version names, as spelled
	regOp("bver_parse", func(a []Sx) Sx {
		v, ok := bver.Parse(string(a[0].B))
		if !ok {
			return L(Sym("bad"))
		}
		return L(Sym("ok"), B([]byte(string(v))))
	})
	regOp("bundle_write", func(a []Sx) (res Sx) {
		defer func() {
			if r := recover(); r != nil {
				res = L(Sym("panic"))
			}
		}()
		b := bundleOf(a[0])
		var buf bytes.Buffer
		var w io.Writer = &buf
		if len(a) > 1 && a[1].IsSym("plain") {
			w = plainWriter{&buf}
		}
		pre := 0
		if len(a) > 1 && a[1].IsSym("counting") {
			// the caller's own CountingWriter, which has already counted a preamble: the bundle (its
			// length field, the returned count) must not depend on what went through the writer before
			cw := bundle.NewCountingWriter(&buf)
			cw.Write([]byte("sixteen byte pre"))
			pre = 16
			w = cw
		}
		// the same object is written twice (a retry, a second destination): both writes must agree
		var first bytes.Buffer
		n0, err0 := b.WriteTo(&first)
		n, err := b.WriteTo(w)
		if (err0 == nil) != (err == nil) || n0 != n || (err == nil && !bytes.Equal(first.Bytes(), buf.Bytes()[pre:])) {
			return L(Sym("second_write_differs"))
		}
		if err != nil {
			return L(Sym("err"), Zi(n))
		}
		return L(Sym("ok"), B(buf.Bytes()[pre:]), Zi(n))
	})
	regOp("bundle_read", func(a []Sx) (res Sx) {
		defer func() {
			if r := recover(); r != nil {
				res = L(Sym("panic"))
			}
		}()
		// the file is read twice; what the first Read returned is vandalised in between (a caller may do
		// what it likes with its result): the second result must still be what is in the file
		src0, spoil0 := ownedSrc(a[0].B)
		if b0, err0 := bundle.Read(src0); err0 == nil {
			vandaliseBundle(b0)
		}
		spoil0()
		src, spoil := ownedSrc(a[0].B)
		b, err := bundle.Read(src)
		spoil()
		if err != nil {
			return ErrV()
		}
		return OkV(bundleSx(b))
	})
	// WriteTo / HeaderSha256 must leave the bundle they are given as it was
	regOp("bundle_write_keeps_input", func(a []Sx) (res Sx) {
		defer func() {
			if r := recover(); r != nil {
				res = L(Sym("panic"))
			}
		}()
		b := bundleOf(a[0])
		var buf bytes.Buffer
		_, err := b.WriteTo(&buf)
		for _, e := range b.Exchanges {
			e.Response.HeaderSha256()
		}
		return L(bytesR(buf.Bytes(), err), bundleSx(b))
	})
	regOp("bundle_read_edit", func(a []Sx) (res Sx) {
		defer func() {
			if r := recover(); r != nil {
				res = L(Sym("panic"))
			}
		}()
		b, err := bundle.Read(bytes.NewReader(a[0].B))
		if err != nil {
			return ErrV()
		}
		if i := a[2].Int(); i < len(b.Exchanges) {
			e := b.Exchanges[i]
			e.Response.Header.Add("X-Verif-Edit", "1")
			if len(e.Response.Body) > 0 {
				e.Response.Body[0] ^= 1
			}
		}
		return OkV(bundleSx(b))
	})
	regOp("bundle_cycle", func(a []Sx) (res Sx) {
		defer func() {
			if r := recover(); r != nil {
				res = L(Sym("panic"))
			}
		}()
		b := bundleOf(a[0])
		var out [3][]byte
		for i := 0; i < 3; i++ {
			var buf bytes.Buffer
			if _, err := b.WriteTo(&buf); err != nil {
				return L(Sym("err"), Zi(int64(i)))
			}
			out[i] = buf.Bytes()
			nb, err := bundle.Read(bytes.NewReader(out[i]))
			if err != nil {
				return L(Sym("readerr"), Zi(int64(i)))
			}
			b = nb
		}
		return L(Sym("ok"), B(out[1]), Bool(bytes.Equal(out[1], out[2])))
	})
	regOp("entries_order", func(a []Sx) Sx {
		vs, ks := []string{}, []string{}
		for _, e := range a {
			vs = append(vs, string(e.L[0].B))
			ks = append(ks, string(e.L[1].B))
		}
		if len(vs) == 0 {
			return L(Sym("panic"))
		}
		res, err := bundle.VerifEntriesInPossibleKeyOrder(vs, ks)
		if err != nil {
			return ErrV()
		}
		out := []Sx{}
		for _, i := range res {
			out = append(out, Zi(int64(i)))
		}
		return OkV(L(out...))
	})
	regOp("variants", func(a []Sx) Sx {
		v, err := bundle.VerifParseVariants(string(a[0].B))
		if err != nil {
			return ErrV()
		}
		vsx := []Sx{}
		for _, l := range v {
			in := []Sx{}
			for _, s := range l {
				in = append(in, B([]byte(s)))
			}
			vsx = append(vsx, L(in...))
		}
		key := []string{}
		for _, k := range a[1].L {
			key = append(key, string(k.B))
		}
		n, nerr := bundle.VerifNumberOfPossibleKeys(v)
		var nsx Sx
		if nerr != nil {
			nsx = ErrV()
		} else {
			nsx = OkV(Zi(int64(n)))
		}
		idx := bundle.VerifIndexInPossibleKeys(v, key)
		var at Sx = L(Sym("skipped"))
		i := a[2].Int()
		if nerr == nil && i >= 0 && i < n {
			k := bundle.VerifPossibleKeyAt(v, i)
			if k == nil {
				at = L(Sym("none"))
			} else {
				ks := []Sx{}
				for _, s := range k {
					ks = append(ks, B([]byte(s)))
				}
				at = L(Sym("some"), L(ks...))
			}
		}
		return L(Sym("ok"), L(vsx...), nsx, Zi(int64(idx)), at)
	})
	regOp("urlref", func(a []Sx) Sx {
		s := string(a[0].B)
		u, err := url.Parse(s)
		if err != nil {
			return L(Sym("err"))
		}
		return L(Sym("ok"), Bool(u.IsAbs()), Bool(u.Fragment != ""), Bool(u.User != nil), Bool(u.String() == s))
	})
	// cw_readfrom (chunks) budget mode srcerr: CountingWriter.ReadFrom over a destination WITHOUT ReaderFrom
	// (the copy loop of countingwriter.go), from a source that is no WriterTo and delivers one chunk per
	// Read; srcerr != 0: the source ends with an error instead of io.EOF.  (accepted n Written ok)
	regOp("cw_readfrom", func(a []Sx) Sx {
		fw := &faultWriter{budget: a[1].Int(), short: a[2].Int() == 1 || a[2].Int() == 2, silent: a[2].Int() == 2}
		var dst io.Writer = fw
		if a[2].Int() == 3 {
			dst = rfDest{fw}
		}
		cw := bundle.NewCountingWriter(dst)
		chunks := [][]byte{}
		for _, c := range a[0].L {
			chunks = append(chunks, c.B)
		}
		n, err := cw.ReadFrom(&chunkReader{chunks: chunks, fail: a[3].Int() == 1, eofWithData: a[3].Int() == 2})
		return L(B(fw.acc), Zi(n), Zi(cw.Written), Bool(err == nil))
	})
	regOp("cw_writes", func(a []Sx) Sx {
		fw := &faultWriter{budget: a[1].Int(), short: a[2].Int() != 0}
		cw := bundle.NewCountingWriter(fw)
		ok := true
		for _, c := range a[0].L {
			if _, err := cw.Write(c.B); err != nil {
				ok = false
				break
			}
		}
		return L(B(fw.acc), Zi(cw.Written), Bool(ok))
	})
}

// chunkReader delivers one chunk per Read call (chunks are at most a few KiB) and then io.EOF or an error
type chunkReader struct {
	chunks      [][]byte
	fail        bool
	eofWithData bool // the last chunk is returned together with io.EOF, as io.Reader allows
}

func (c *chunkReader) Read(p []byte) (int, error) {
	for len(c.chunks) > 0 && len(c.chunks[0]) == 0 {
		c.chunks = c.chunks[1:]
	}
	if len(c.chunks) == 0 {
		if c.fail {
			return 0, errors.New("source failed")
		}
		return 0, io.EOF
	}
	n := copy(p, c.chunks[0])
	c.chunks[0] = c.chunks[0][n:]
	if c.eofWithData && !c.fail && len(c.chunks) == 1 && len(c.chunks[0]) == 0 {
		c.chunks = nil
		return n, io.EOF
	}
	return n, nil
}
