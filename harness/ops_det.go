package main

import (
	vh "github.com/WICG/webpackage/go/verifhook"
)

func detOnce(b []byte) (v int) {
	defer func() {
		if r := recover(); r != nil {
			v = 0
		}
	}()
	if err := vh.CborDeterministic(b); err != nil {
		return 0
	}
	return 1
}

// The verdict must depend on the bytes of the slice only: it is asked for a slice of exact capacity and
// for the same bytes as a prefix of a larger buffer (a receive buffer, a bytes.Buffer prefix) whose
// hidden tail would complete a truncated item.  Disagreement between the two is reported as 2.
func detVerdict(b []byte) int {
	exact := append(make([]byte, 0, len(b)), b...)
	roomy := make([]byte, len(b), len(b)+16)
	copy(roomy, b)
	tail := roomy[len(b):cap(roomy)]
	for i := range tail {
		tail[i] = byte(i % 3) // small values complete integer heads / short strings in a canonical way
	}
	v1, v2 := detOnce(exact), detOnce(roomy)
	if v1 != v2 {
		return 2
	}
	// ... nor on what the same buffer held when it was checked before: a buffer of zeros (a valid sequence of
	// len(b) integers) is checked, overwritten in place with b, and checked again
	reused := make([]byte, len(b))
	detOnce(reused)
	copy(reused, b)
	if detOnce(reused) != v1 {
		return 3
	}
	return v1
}

func opDet(args []Sx) Sx {
	switch detVerdict(args[0].B) {
	case 1:
		return L(Sym("accept"))
	case 2:
		return L(Sym("depends_on_hidden_capacity"))
	case 3:
		return L(Sym("depends_on_history"))
	}
	return L(Sym("reject"))
}

func opDetBatch(args []Sx) Sx {
	out := make([]Sx, 0, len(args[0].L))
	for _, s := range args[0].L {
		out = append(out, Zi(int64(detVerdict(s.B))))
	}
	return L(out...)
}

func init() {
	regOp("det", opDet)
	regOp("det_batch", opDetBatch)
}
