package main

import (
	vh "github.com/WICG/webpackage/go/verifhook"
)

func detVerdict(b []byte) (v int) {
	defer func() {
		if r := recover(); r != nil {
			v = 0
		}
	}()
	if err := vh.CborDeterministic(b); err != nil {
		return 0
	}
	return 1
}

func opDet(args []Sx) Sx {
	if detVerdict(args[0].B) == 1 {
		return L(Sym("accept"))
	}
	return L(Sym("reject"))
}

func opDetBatch(args []Sx) Sx {
	out := make([]Sx, 0, len(args[0].L))
	for _, s := range args[0].L {
		out = append(out, Zi(int64(detVerdict(s.B))))
	}
	return L(out...)
}

func init() {
	regOp("det", opDet)
	regOp("det_batch", opDetBatch)
}
