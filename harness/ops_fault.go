package main

import (
	"io"
	"time"

	sxg "github.com/WICG/webpackage/go/signedexchange"
	"github.com/WICG/webpackage/go/signedexchange/certurl"
	vh "github.com/WICG/webpackage/go/verifhook"
)

// faultReaderFromWriter additionally implements io.ReaderFrom (like *os.File / bytes.Buffer)
type faultReaderFromWriter struct{ faultWriter }

func (f *faultReaderFromWriter) ReadFrom(r io.Reader) (int64, error) {
	var n int64
	buf := make([]byte, 4096)
	for {
		nr, er := r.Read(buf)
		if nr > 0 {
			nw, ew := f.Write(buf[:nr])
			n += int64(nw)
			if ew != nil {
				return n, ew
			}
		}
		if er == io.EOF {
			return n, nil
		}
		if er != nil {
			return n, er
		}
	}
}

type faultDest interface {
	io.Writer
	accepted() []byte
}

func (f *faultWriter) accepted() []byte { return f.acc }

func newFaultDest(k int, mode int, readFrom bool) faultDest {
	fw := faultWriter{budget: k, short: mode == 1, full: mode == 2}
	if readFrom {
		return &faultReaderFromWriter{fw}
	}
	return &fw
}

// fault kind (artifact...) k mode [destkind]
func opFault(a []Sx) (res Sx) {
	defer func() {
		if r := recover(); r != nil {
			res = L(Sym("panic"))
		}
	}()
	kind, art := string(a[0].B), a[1].L
	k, mode := a[2].Int(), a[3].Int()
	readFrom := len(a) > 4 && a[4].IsSym("readfrom")
	d := newFaultDest(k, mode, readFrom)
	var err error
	cnt := int64(-1)
	switch kind {
	case "bundle":
		cnt, err = bundleOf(art[0]).WriteTo(d)
	case "sxg":
		err = exchangeOf(art[0]).Write(d)
	case "sxg_headers":
		err = exchangeOf(art[0]).DumpExchangeHeaders(d)
	case "sxg_message":
		s := &sxg.Signer{Date: time.Unix(art[3].I64(), 0), Expires: time.Unix(art[4].I64(), 0),
			Certs: fakeCerts(art[1]), ValidityUrl: mustURL(string(art[2].B))}
		err = exchangeOf(art[0]).DumpSignedMessage(d, s)
	case "certchain":
		chain := certurl.CertChain{}
		for _, it := range art {
			chain = append(chain, augOf(it))
		}
		err = chain.Write(d)
	case "mi":
		_, err = draftOf(art[0]).Encode(d, art[2].B, art[1].Int())
	case "cbor":
		err = runItems(vh.CborNewEncoder(d), art)
	default:
		panic("bad kind")
	}
	return L(B(d.accepted()), Bool(err != nil), Zi(cnt))
}

func genC19(r *Rng, tier string) []Case {
	keysOnce()
	cs := []Case{}
	emit := func(kind string, art []Sx, total int, dests []string) {
		if total < 0 {
			return // the artifact is refused even without a fault
		}
		ks := []int{}
		if total > 20000 {
			// large artifact: fault positions around the buffer sizes of the copy loops, the head and the tail
			for _, k := range []int{0, 1, 15, 16, 100, 511, 512, 513, 4095, 4096, 4097, 32767, 32768, 32769, 65535, 65536, 65537, total - 32769, total - 4097, total - 2, total - 1} {
				if k >= 0 && k < total {
					ks = append(ks, k)
				}
			}
			for i := 0; i < 12; i++ {
				ks = append(ks, r.Intn(total))
			}
		} else {
			step := 1
			if total > 600 && tier == "quick" {
				step = total / 300
			}
			for k := 0; k <= total; k += step {
				ks = append(ks, k)
			}
		}
		for _, k := range ks {
			for mode := 0; mode < 3; mode++ {
				if mode == 2 && k%3 != 0 { // mode 2 (full count together with the error): every third position
					continue
				}
				for _, dk := range dests {
					cs = append(cs, Case{"fault", []Sx{Sym(kind), L(art...), Zi(int64(k)), Zi(int64(mode)), Sym(dk)}})
				}
			}
		}
		// the no-fault controls and one beyond
		for _, k := range []int{total, total + 1} {
			cs = append(cs, Case{"fault", []Sx{Sym(kind), L(art...), Zi(int64(k)), Zi(0), Sym(dests[0])}})
		}
	}
	lenOf := func(kind string, art []Sx) int {
		res := opFault([]Sx{Sym(kind), L(art...), Zi(-1), Zi(0)})
		if len(res.L) == 3 && res.L[1].Z.Sign() == 0 {
			return len(res.L[0].B)
		}
		return -1
	}
	reps := 1
	if tier == "thorough" {
		reps = 4
	}
	for rep := 0; rep < reps; rep++ {
		// bundles: empty, b1 with variants, b2 with primary+signatures
		for i := 0; i < 4; i++ {
			ver := bverList()[i%2]
			b := randBundle(r, ver, []int{0, 2, 3, 4}[i])
			if i == 1 {
				addVariantSet(r, b, 0)
			}
			art := []Sx{bundleInSx(b)}
			emit("bundle", art, lenOf("bundle", art), []string{"plain", "readfrom"})
		}
		// signed exchanges with an EMPTY payload in every version (no later write masks a dropped error)
		for i := 0; i < 3; i++ {
			e := mkExchange(r, sxgVersions[i], exOpts{contentType: true, extraResp: randExtra(r, 1), payloadLen: 0})
			e.SignatureHeaderValue = "label;sig=*AA==*"
			ex := []Sx{exchangeInSx(e)}
			emit("sxg", ex, lenOf("sxg", ex), []string{"plain"})
		}
		// signed exchanges with a payload in every version, header dump, signed message
		for i := 0; i < 3; i++ {
			ver := sxgVersions[i]
			e := mkExchange(r, ver, exOpts{contentType: true, extraResp: randExtra(r, 2), extraReq: randExtra(r, 1), payloadLen: []int{30, 20, 100}[i]})
			e.SignatureHeaderValue = "label;sig=*AA==*"
			ex := []Sx{exchangeInSx(e)}
			emit("sxg", ex, lenOf("sxg", ex), []string{"plain"})
			emit("sxg_headers", ex, lenOf("sxg_headers", ex), []string{"plain"})
			msg := []Sx{ex[0], L(B(r.Bytes(20))), B([]byte("https://example.com/v")), Zi(baseDate), Zi(baseDate + 100)}
			emit("sxg_message", msg, lenOf("sxg_message", msg), []string{"plain"})
		}
		// artifacts larger than the 32 KiB / 64 KiB buffer sizes of io.Copy and friends
		if rep == 0 {
			big := mkExchange(r, sxgVersions[2], exOpts{contentType: true, payloadLen: 70000})
			big.SignatureHeaderValue = "label;sig=*AA==*"
			bx := []Sx{exchangeInSx(big)}
			emit("sxg", bx, lenOf("sxg", bx), []string{"plain"})
			bb := randBundle(r, bverList()[1], 1)
			bb.Exchanges[0].Response.Body = r.Bytes(70000)
			ba := []Sx{bundleInSx(bb)}
			emit("bundle", ba, lenOf("bundle", ba), []string{"plain", "readfrom"})
			ma := []Sx{draftSym(1), Zi(16384), B(r.Bytes(70000))}
			emit("mi", ma, lenOf("mi", ma), []string{"plain"})
			ca := []Sx{it("b", B(r.Bytes(70000))), it("t", B(asciiBytes(r, 40000)))}
			emit("cbor", ca, 70000+40000+10, []string{"plain"})
		}
		// a 3-certificate chain
		chain := []Sx{L(B(sxgKeys[0].der), B([]byte("ocsp")), B(r.Bytes(10))), L(B(sxgKeys[1].der), L(), L()), L(B(sxgKeys[2].der), L(), B([]byte{}))}
		emit("certchain", chain, lenOf("certchain", chain), []string{"plain"})
		// MI encoder: both drafts, empty payload, several records
		for _, c := range [][3]int{{0, 16, 0}, {1, 16, 0}, {0, 7, 30}, {1, 16, 33}, {1, 100, 100}} {
			art := []Sx{draftSym(c[0]), Zi(int64(c[1])), B(r.Bytes(c[2]))}
			emit("mi", art, lenOf("mi", art), []string{"plain"})
		}
		// one CBOR program with every kind of item (each write call of the encoder fails in turn)
		{
			items := []Sx{it("u", Zu(0)), it("o", Bool(true)), it("u", Zu(1000)), it("i", Zi(-5)), it("o", Bool(false)), it("b", B(r.Bytes(3))),
				it("t", B([]byte("text"))), it("a", Zi(2)), it("o", Bool(r.Bool())), it("u", Zu(1<<40)), randMap(r, 1, 3), it("o", Bool(true))}
			if res := opCborProg(items); res.L[0].IsSym("ok") {
				emit("cbor", items, len(res.L[1].B), []string{"plain"})
			}
		}
		// programs whose LAST write is the one-byte head of an empty string (no later write can mask a dropped error)
		for _, items := range [][]Sx{{it("b", B(nil))}, {it("t", B(nil))}, {it("u", Zu(7)), it("b", B(nil))}, {it("a", Zi(2)), it("u", Zu(7)), it("t", B(nil))}, {it("b", B([]byte("xy"))), it("b", B(nil)), it("t", B(nil))}} {
			if res := opCborProg(items); res.L[0].IsSym("ok") {
				emit("cbor", items, len(res.L[1].B), []string{"plain"})
			}
		}
		// CBOR encoder programs incl. maps
		for i := 0; i < 4; i++ {
			items := []Sx{}
			for j := 0; j < 4; j++ {
				items = append(items, randItem(r, 2))
			}
			items = append(items, randMap(r, 1, 4))
			res := opCborProg(items)
			if !res.L[0].IsSym("ok") {
				continue
			}
			emit("cbor", items, len(res.L[1].B), []string{"plain"})
		}
	}
	return cs
}

func init() {
	regOp("fault", opFault)
	regGen("C19", genC19)
}
