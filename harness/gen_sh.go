package main

import (
	"encoding/base64"
	"math"
	"strconv"
)

var tokChars = []byte("abcXYZ019_-.:%*/")
var keyChars = []byte("abcz019_-")

func randToken(r *Rng, valid bool) []byte {
	n := 1 + r.Intn(6)
	b := make([]byte, n)
	b[0] = []byte("abzAZq")[r.Intn(6)]
	for i := 1; i < n; i++ {
		b[i] = tokChars[r.Intn(len(tokChars))]
	}
	if !valid {
		switch r.Intn(5) {
		case 0:
			b[0] = []byte("1_-*:")[r.Intn(5)]
		case 1:
			b = append(b, []byte(" ;,=\"\x80!")[r.Intn(7)])
		case 2:
			b = []byte{}
		case 3:
			b[r.Intn(n)] = byte(0x80 + r.Intn(100))
		default:
			// a non-ASCII rune whose low byte is an allowed character
			b = append(b, []byte(string(rune(0x100*(1+r.Intn(0x30))+int(tokChars[r.Intn(len(tokChars))]))))...)
		}
	}
	return b
}

func randKeyName(r *Rng, valid bool) []byte {
	n := 1 + r.Intn(5)
	b := make([]byte, n)
	b[0] = []byte("abz")[r.Intn(3)]
	for i := 1; i < n; i++ {
		b[i] = keyChars[r.Intn(len(keyChars))]
	}
	if !valid {
		switch r.Intn(4) {
		case 0:
			b[0] = []byte("A1_-")[r.Intn(4)]
		case 1:
			b = append(b, []byte("A.:* ")[r.Intn(5)])
		case 2:
			b = []byte{}
		default:
			b = append(b, []byte(string(rune(0x100*(1+r.Intn(0x30))+int(keyChars[r.Intn(len(keyChars))]))))...)
		}
	}
	return b
}

func randShItem(r *Rng, valid bool) Sx {
	switch r.Intn(5) {
	case 0:
		vals := []int64{0, 1, -1, 9, 10, 99, 100, math.MaxInt64, math.MinInt64, math.MaxInt64 - 1, math.MinInt64 + 1, 1 << 53, -(1 << 53)}
		if r.Bool() {
			return L(Sym("i"), Zi(vals[r.Intn(len(vals))]))
		}
		v := int64(r.U64() >> uint(r.Intn(64)))
		if r.Bool() {
			v = -v
		}
		return L(Sym("i"), Zi(v))
	case 1:
		n := r.Intn(8)
		b := make([]byte, n)
		for i := range b {
			b[i] = []byte(`ab"\ ~!x09;,=*`)[r.Intn(14)]
		}
		if !valid && n > 0 {
			b[r.Intn(n)] = []byte{0x1f, 0x7f, 0x80, 0xc3, 0x0a, 0x00}[r.Intn(6)]
		}
		return L(Sym("s"), B(b))
	case 2:
		return L(Sym("t"), B(randToken(r, valid)))
	case 3:
		return L(Sym("b"), B(r.Bytes(r.Intn(8))))
	default:
		if valid {
			return L(Sym("b"), B(r.Bytes(r.Intn(40))))
		}
		return L(Sym("bad"))
	}
}

func randPi(r *Rng, valid bool) Sx {
	np := r.Intn(5)
	seen := map[string]bool{}
	ps := []Sx{}
	badAt := -1
	if !valid {
		badAt = r.Intn(np + 2)
	}
	for i := 0; i < np; i++ {
		k := randKeyName(r, badAt != i)
		if seen[string(k)] {
			continue
		}
		seen[string(k)] = true
		if r.Chance(1, 4) {
			ps = append(ps, L(B(k)))
		} else {
			ps = append(ps, L(B(k), randShItem(r, badAt != np)))
		}
	}
	return L(B(randToken(r, badAt != np+1)), L(ps...))
}

func genC16(r *Rng, tier string) []Case {
	cs := []Case{}
	// sequences of identifier serializations: refused ones (after partial output) between accepted ones
	for i := 0; i < 120; i++ {
		seq := []Sx{}
		for j := 2 + r.Intn(5); j > 0; j-- {
			seq = append(seq, randPi(r, r.Chance(1, 2)))
		}
		cs = append(cs, Case{"sh_ser_pi_seq", seq})
	}
	// serializer: generated values (valid and invalid)
	n := 2500
	if tier == "thorough" {
		n = 60000
	}
	for i := 0; i < n; i++ {
		valid := r.Chance(3, 4)
		items := []Sx{}
		for j := r.Intn(4); j >= 0; j-- {
			items = append(items, randPi(r, valid || j > 0))
		}
		if r.Chance(1, 40) {
			items = nil
		}
		cs = append(cs, Case{"sh_ser_pl", items})
		outer := []Sx{}
		for j := r.Intn(3); j >= 0; j-- {
			in := []Sx{}
			for k := r.Intn(3); k >= 0; k-- {
				in = append(in, randShItem(r, valid || k > 0))
			}
			if r.Chance(1, 40) {
				in = nil
			}
			outer = append(outer, L(in...))
		}
		if r.Chance(1, 40) {
			outer = nil
		}
		cs = append(cs, Case{"sh_ser_lol", outer})
	}
	// parser: exhaustive strings over a reduced alphabet (batched)
	batch := []Sx{}
	flush := func() {
		if len(batch) > 0 {
			cs = append(cs, Case{"sh_parse_batch", []Sx{L(batch...)}})
			batch = nil
		}
	}
	add := func(b []byte) {
		batch = append(batch, B(b))
		if len(batch) >= 1024 {
			flush()
		}
	}
	alpha := []byte{'a', 'A', '1', '-', '"', '\\', '*', ';', '=', ',', ' ', '\t', '/', '\n'}
	maxLen := 4
	if tier == "thorough" {
		maxLen = 6
	}
	var rec func(p []byte)
	rec = func(p []byte) {
		add(append([]byte{}, p...))
		if len(p) == maxLen {
			return
		}
		for _, c := range alpha {
			rec(append(p, c))
		}
	}
	rec([]byte{})
	flush()
	// integers with leading zeros and other odd spellings (decimal only; no octal / hex prefixes)
	for _, n := range []string{"0", "00", "010", "-0777", "08", "019", "01517418800", "-0", "-00", "0x10", "0b1", "0o7", "+1", "1_000", "1e3", "9223372036854775807", "-9223372036854775808", "09223372036854775807"} {
		add([]byte(n))
		add([]byte("a;k=" + n))
		add([]byte(n + ", " + n))
		add([]byte("a;k=" + n + ";j=1"))
	}
	flush()
	// parser: realistic headers, then mutated
	mk := func() []byte {
		s := []byte{}
		for j := r.Intn(3); j >= 0; j-- {
			if len(s) > 0 {
				s = append(s, []string{",", ", ", " ,\t", ",  "}[r.Intn(4)]...)
			}
			s = append(s, randToken(r, true)...)
			for k := r.Intn(4); k > 0; k-- {
				s = append(s, []string{";", "; ", " ;", " ; "}[r.Intn(4)]...)
				s = append(s, randKeyName(r, true)...)
				if r.Chance(3, 4) {
					s = append(s, '=')
					switch r.Intn(4) {
					case 0:
						s = append(s, strconv.FormatInt(int64(r.U64()>>uint(r.Intn(64)))*int64(1-2*r.Intn(2)), 10)...)
					case 1:
						s = append(s, `"a\"b\\c d"`...)
					case 2:
						e := base64.StdEncoding
						if r.Bool() {
							e = base64.RawStdEncoding
						}
						s = append(s, '*')
						s = append(s, e.EncodeToString(r.Bytes(r.Intn(7)))...)
						s = append(s, '*')
					default:
						s = append(s, randToken(r, true)...)
					}
				}
			}
		}
		return s
	}
	m := 3000
	if tier == "thorough" {
		m = 100000
	}
	for i := 0; i < m; i++ {
		s := mk()
		if r.Bool() && len(s) > 0 {
			switch r.Intn(5) {
			case 0:
				s = s[:r.Intn(len(s))]
			case 1:
				p := r.Intn(len(s))
				s[p] = alpha[r.Intn(len(alpha))]
			case 2:
				p := r.Intn(len(s) + 1)
				s = append(append(append([]byte{}, s[:p]...), alpha[r.Intn(len(alpha))]), s[p:]...)
			case 3:
				p := r.Intn(len(s))
				s = append(append([]byte{}, s[:p]...), s[p+1:]...)
			default:
				s[r.Intn(len(s))] = byte(r.U64())
			}
		}
		add(s)
	}
	// byte sequences around the sizes a chunked base64 encoder would cut at (not multiples of 3)
	for _, n := range []int{47, 48, 49, 57, 58, 255, 256, 257, 1022, 1023, 1024, 1025, 1026, 1027, 2049, 3000, 4096, 4097, 65537} {
		item := L(Sym("b"), B(r.Bytes(n)))
		cs = append(cs, Case{"sh_ser_lol", []Sx{L(item)}})
		cs = append(cs, Case{"sh_ser_pl", []Sx{L(B([]byte("label")), L(L(B([]byte("k")), item)))}})
	}
	// numbers: digit strings around the int64 range, leading zeros, signs
	for _, s := range []string{"9223372036854775807", "9223372036854775808", "-9223372036854775808", "-9223372036854775809",
		"00000000000000000000000001", "-0", "-", "--1", "+1", "1-", "18446744073709551616", "1.5", "1e3", "0x10", "1_000",
		"*aGk=\n\n\n\n*", "*aGk=*", "*aGk*", "*aG k=*", "*aGk=\r*", "*a===*", "*aGk==*", "*aG==*", "*aH==*", "*=*", "**", "*", "*a*", "*aGkx*", "*aGkxMg*", "*aGkxMg==*", "*aGkxMg=*", "*-_-_*",
		"*====*", "*==*", "*===*", "*Zm9v====*", "*Zm9v=*", "*Zm9v==*", "*Zg======*", "*Zg===*", "*Zg=*", "*Zg*", "*Zm8=====*", "*Zm8==*", "*Zm8*", "*Zm9vYg==*", "*Zm9vYg======*", "*=Zm9v*", "*Zm=9v*", "*Zm9v*==", "*Zh==*", "*Zm9=*", "*Zm9*"} {
		add([]byte(s))
		add([]byte("a;k=" + s))
	}
	flush()
	return cs
}

func init() { regGen("C16", genC16) }
