package main

import (
	"crypto/ecdsa"
	"crypto/ed25519"
	crand "crypto/rand"
	"crypto/sha256"
	"crypto/sha512"
	"net/http"

	"github.com/WICG/webpackage/go/bundle"
	bver "github.com/WICG/webpackage/go/bundle/version"
	"github.com/WICG/webpackage/go/signedexchange/certurl"
)

// Signed subsets assembled by hand and then CORRECTLY SIGNED: the signature is
// checked before the subset is decoded, so structural edits of "signed" only
// reach decodeSignedSubset / VerifyExchange when they are re-signed.

func signRaw(k keyMat, msg []byte) []byte {
	priv := k.priv.(*ecdsa.PrivateKey)
	var digest []byte
	if priv.Curve.Params().BitSize == 384 {
		h := sha512.Sum384(msg)
		digest = h[:]
	} else {
		h := sha256.Sum256(msg)
		digest = h[:]
	}
	sig, err := ecdsa.SignASN1(crand.Reader, priv, digest)
	if err != nil {
		panic(err)
	}
	return sig
}

func cborArr(items ...[]byte) []byte {
	out := canonHead(0x80, uint64(len(items)))
	for _, it := range items {
		out = append(out, it...)
	}
	return out
}

func genCraftedSubsets(r *Rng, tier string) []Case {
	sigKeysOnce()
	cs := []Case{}
	reps := 2
	if tier == "thorough" {
		reps = 20
	}
	for rep := 0; rep < reps; rep++ {
		for _, ver := range []bver.Version{bver.VersionB1, bver.VersionB2} {
			leaf := sigKeys[[]int{0, 1, 3}[r.Intn(3)]]
			host := leaf.cert.DNSNames[0]
			chain := certurl.CertChain{{Cert: leaf.cert, OCSPResponse: []byte("ocsp")}, {Cert: sigKeys[2].cert}}
			u := "https://" + host + "/r" + string(alnumBytes(r, 4))
			h := http.Header{}
			h.Add("Content-Type", "text/plain")
			e := &bundle.Exchange{Request: bundle.Request{URL: mustURL(u), Header: http.Header{}}, Response: bundle.Response{Status: 200, Header: h, Body: r.Bytes([]int{0, 1, 16, 40}[r.Intn(4)])}}
			integ, err := e.AddPayloadIntegrity(ver, 16)
			if err != nil {
				continue
			}
			hsha, err := e.Response.HeaderSha256()
			if err != nil {
				continue
			}
			other := &bundle.Exchange{Request: bundle.Request{URL: mustURL(u + "-other"), Header: http.Header{}}, Response: bundle.Response{Status: 200, Header: h.Clone(), Body: []byte("zz")}}
			authSha := chain[0].CertSha256()
			vv, hs, in := cborBytes(nil), cborBytes(hsha), cborText(integ)
			bad := cborBytes(r.Bytes(32))
			values := [][]byte{
				cborArr(vv, hs, in),                  // what the signer writes
				cborArr(),                            // no variants-value at all
				cborArr(vv),                          // variants-value only: no hash pair
				cborArr(vv, hs),                      // half a pair
				cborArr(vv, hs, in, hs),              // one and a half pairs
				cborArr(vv, hs, in, hs, in),          // two pairs (multiple variants are not supported)
				cborArr(vv, bad, in, hs, in),         // two pairs, the matching one second
				cborArr(vv, hs, in, bad, in, hs, in), // three pairs
				cborArr(cborBytes([]byte("Accept;en")), hs, in),
				cborArr(vv, cborText(string(hsha)), in),   // header-sha256 as a text string
				cborArr(vv, hs, cborBytes([]byte(integ))), // integrity as a byte string
				cborArr(hs, in, vv),
				append(canonHead(0xa0, 1), append(vv, hs...)...), // a map where the array is expected
				cborUint(3),
				append(headBytes(0x80, 8, 1<<40), vv...), // count far beyond the data
				append(headBytes(0x80, 8, 1<<63+1), vv...),
			}
			date := baseDate + int64(r.Intn(1000))
			inSx0 := func(x *bundle.Exchange) Sx {
				b := &bundle.Bundle{Version: bver.VersionB2, Exchanges: []*bundle.Exchange{x}}
				return bundleInSx(b).L[4].L[0]
			}
			emitSigned := func(signed []byte, ch certurl.CertChain, signer keyMat, xs ...*bundle.Exchange) {
				sigs := &bundle.Signatures{Authorities: ch, VouchedSubsets: []*bundle.VouchedSubset{{Authority: 0, Sig: signRaw(signer, sigMessage(signed, ver)), Signed: signed}}}
				ex := []Sx{}
				for _, x := range xs {
					ex = append(ex, inSx0(x))
				}
				cs = append(cs, Case{"bsig_verify", []Sx{sigsSx(sigs), Zi(date + 10), Zi(0), Sym(string(ver)), L(ex...), sigX509Tab(), sigTabFor(sigs, ver)}})
			}
			// the signed map itself: cut anywhere, a field missing / repeated / extra / of the wrong type
			// (every variant is signed afresh, so only the decoder can refuse it)
			type fld struct{ k, v []byte }
			hashes := append(canonHead(0xa0, 1), append(cborText(u), cborArr(vv, hs, in)...)...)
			std := []fld{{cborText("date"), cborUint(uint64(date))}, {cborText("expires"), cborUint(uint64(date + 3600))}, {cborText("auth-sha256"), cborBytes(authSha)},
				{cborText("validity-url"), cborText("https://" + host + "/validity")}, {cborText("subset-hashes"), hashes}}
			mk := func(fs []fld) []byte {
				out := canonHead(0xa0, uint64(len(fs)))
				for _, f := range fs {
					out = append(append(out, f.k...), f.v...)
				}
				return out
			}
			full := mk(std)
			step := 1
			if tier == "quick" {
				step = 2 + rep
			}
			for cut := 0; cut < len(full); cut += step {
				emitSigned(full[:cut], chain, leaf, e)
			}
			for i := range std {
				emitSigned(mk(append(append([]fld{}, std[:i]...), std[i+1:]...)), chain, leaf, e)                 // one field missing
				emitSigned(mk(append(append([]fld{}, std...), std[i])), chain, leaf, e)                            // one field twice
				emitSigned(mk(append(append(append([]fld{}, std[:i]...), fld{cborText("bogus"), cborUint(1)}), std[i:]...)), chain, leaf, e) // an unknown field before it
				for _, wrong := range [][]byte{cborUint(7), cborText("x"), cborBytes([]byte("x")), {0x80}, {0xa0}, {0xf6}, cborText("https://exa mple.com/%zz"), cborText(":")} {
					fs := append([]fld{}, std...)
					fs[i] = fld{std[i].k, wrong}
					emitSigned(mk(fs), chain, leaf, e)
				}
				fs := append([]fld{}, std...)
				fs[i] = fld{cborBytes(std[i].k[1:]), std[i].v} // the key as a byte string
				emitSigned(mk(fs), chain, leaf, e)
			}
			emitSigned(append(append([]byte{}, full...), 0x00), chain, leaf, e) // a byte after the map
			// integrity identifiers other than this version's; an exchange without the Digest header
			for _, id := range []string{"mi-draft2", "digest/mi-sha256-02", "", "DIGEST/MI-SHA256-03", integ + " "} {
				fs := append([]fld{}, std...)
				fs[4] = fld{std[4].k, append(canonHead(0xa0, 1), append(cborText(u), cborArr(vv, hs, cborText(id))...)...)}
				emitSigned(mk(fs), chain, leaf, e)
			}
			{
				nd := &bundle.Exchange{Request: bundle.Request{URL: mustURL(u), Header: http.Header{}}, Response: bundle.Response{Status: 200, Header: h.Clone(), Body: e.Response.Body}}
				nd.Response.Header.Del("Digest")
				if ndh, err := nd.Response.HeaderSha256(); err == nil {
					fs := append([]fld{}, std...)
					fs[4] = fld{std[4].k, append(canonHead(0xa0, 1), append(cborText(u), cborArr(vv, cborBytes(ndh), in)...)...)}
					emitSigned(mk(fs), chain, leaf, nd)
				}
			}
			// an authority whose key type has no verifier (Ed25519)
			{
				keysOnce()
				edChain := certurl.CertChain{{Cert: sxgEdKey.cert, OCSPResponse: []byte("ocsp")}}
				fs := append([]fld{}, std...)
				fs[2] = fld{std[2].k, cborBytes(edChain[0].CertSha256())}
				signed := mk(fs)
				sigs := &bundle.Signatures{Authorities: edChain, VouchedSubsets: []*bundle.VouchedSubset{{Authority: 0, Sig: ed25519.Sign(sxgEdKey.priv.(ed25519.PrivateKey), sigMessage(signed, ver)), Signed: signed}}}
				cs = append(cs, Case{"bsig_verify", []Sx{sigsSx(sigs), Zi(date + 10), Zi(0), Sym(string(ver)), L(inSx0(e)), sigX509Tab(), sigTabFor(sigs, ver)}})
			}
			for _, val := range values {
				for _, twice := range []bool{false, true} {
					entries := append(cborText(u), val...)
					n := uint64(1)
					if twice { // the same URL again with the signer's own value
						entries = append(entries, append(cborText(u), cborArr(vv, hs, in)...)...)
						n = 2
					}
					signed := canonHead(0xa0, 5)
					signed = append(signed, cborText("date")...)
					signed = append(signed, cborUint(uint64(date))...)
					signed = append(signed, cborText("expires")...)
					signed = append(signed, cborUint(uint64(date+3600))...)
					signed = append(signed, cborText("auth-sha256")...)
					signed = append(signed, cborBytes(authSha)...)
					signed = append(signed, cborText("validity-url")...)
					signed = append(signed, cborText("https://"+host+"/validity")...)
					signed = append(signed, cborText("subset-hashes")...)
					signed = append(signed, canonHead(0xa0, n)...)
					signed = append(signed, entries...)
					sigs := &bundle.Signatures{Authorities: chain, VouchedSubsets: []*bundle.VouchedSubset{{Authority: 0, Sig: signRaw(leaf, sigMessage(signed, ver)), Signed: signed}}}
					inSx := func(x *bundle.Exchange) Sx {
						b := &bundle.Bundle{Version: bver.VersionB2, Exchanges: []*bundle.Exchange{x}}
						return bundleInSx(b).L[4].L[0]
					}
					cs = append(cs, Case{"bsig_verify", []Sx{sigsSx(sigs), Zi(date + 10), Zi(0), Sym(string(ver)), L(inSx(e), inSx(other)), sigX509Tab(), sigTabFor(sigs, ver)}})
				}
			}
		}
	}
	return cs
}

func init() { regGen("C06x", genCraftedSubsets) }
